import RxVerif.Theorems.C13RefColdCount
/-
C13-REF, ref_count over a COLD source: the two hooks.  `on_subscribe(1)` connects, and the whole script is delivered
to the (single, still pending) subscriber before `self.subscription` is stored; if the script made it unsubscribe
... it cannot here (passive subscribers), but `cancelled` may already be set by an earlier `on_unsubscribe(0)`.
-/
namespace Rx.CRef
open Rx.Sim Rx.SubjM Rx.Ref Rx.RefR

/-- `Subscription::unsubscribe` of source subscription `i` on a cold ref_count world -/
theorem srcUnsubCc_spec {script roots cobs armed pend Hd w st} (h : RelCc script roots cobs armed pend Hd w st)
    {i : Nat} (hi : i < st.conns.length) :
    WP (subUnsub (.pair (.int (rootAt cobs i : Nat)) (.int (acellC i : Nat)))) w (fun w' =>
      RelCc script roots cobs (armed.set i false) pend Hd w' { st with conns := st.conns.set i false }) := by
  refine (srcUnsubCold_spec (K := KC) h.inv.held h.inv.conns h.inv.glob
    (fun i j _ _ e => by simp [acellC] at e; exact e) (fun i _ => by simp [KC, acellC])
    (i := i) (by rw [h.full]; exact hi)).conseq ?_
  rintro w1 ⟨C1, t1, htr⟩
  exact ⟨⟨h.inv.glob.touch t1, t1.held ▸ h.inv.held, h.inv.ur.touchConns t1 htr, C1⟩,
    by simp only [List.length_set]; exact h.full⟩

/-- `source.subscribe(..)` returned the handle `(c, fresh armed flag)`, which is stored in cell `cell` -/
def armStore (w2 : World) (cell c : Nat) : World :=
  { w2 with cells := (w2.cells ++ [Data.bool true]).set cell (.pair (.int (c : Nat)) (.int (w2.cells.length : Nat))) }

/-- after the script: the handle's flag is allocated and the handle stored in `self.subscription` -/
theorem connectedCc_mid {script roots cobs armed pend Hd w w2 st} (h : RelCc script roots cobs armed pend Hd w st)
    (h2 : ColdInv (URcc script roots (cobs ++ [w.obs.length]) cobs pend Hd true st.subscription st.cancelled)
      fnP feP fcP acellC roots (cobs ++ [w.obs.length]) w2 (coldFold .refCount script st) armed) :
    RelCc script roots (cobs ++ [w.obs.length]) (armed ++ [true]) pend Hd (armStore w2 5 w.obs.length)
      { coldFold .refCount script st with subscription := some st.conns.length } := by
  obtain ⟨g2, U2, X2, hs2⟩ := h2.ur
  have hm : st.conns.length = cobs.length := h.inv.conns.lenC.symm
  have hfl := foldRecv_flags .refCount st.conns.length script
    { st with connecting := true, conns := st.conns ++ [true] }
  have hlenF : (coldFold .refCount script st).conns.length = st.conns.length + 1 := by
    unfold coldFold; rw [foldRecv_len]; simp
  have hcells : ∀ i, i ≠ 5 → i < w2.cells.length → (armStore w2 5 w.obs.length).cells[i]? = w2.cells[i]? := by
    intro i h5 hi
    show ((w2.cells ++ _).set 5 _)[i]? = _
    rw [set_get_other _ (Ne.symm h5), get_app_lt _ _ _ hi]
  have C2 := h2.conns.arm (by rw [hlenF, h.full]) (by rw [X2.nCells, h.full, hm]; rfl)
    (fun i hi => by rw [X2.nCells]; have := h.full; simp [acellC]; omega)
  have gF : Glob roots (cobs ++ [w.obs.length]) (armStore w2 5 w.obs.length) :=
    ⟨g2.status, g2.nObs, g2.rootsLt, g2.cobsLt, g2.nodup⟩
  refine ⟨?_, by simp only [List.length_append, List.length_cons, List.length_nil, hlenF, h.full]⟩
  show ColdInv (URcc script roots _ _ pend Hd (coldFold .refCount script st).connecting (some st.conns.length)
    (coldFold .refCount script st).cancelled) fnP feP fcP acellC roots _ _ _ _
  have e1 : (coldFold .refCount script st).connecting = true := hfl.1
  have e2 : (coldFold .refCount script st).cancelled = st.cancelled := hfl.2.1
  rw [e1, e2]
  refine ⟨gF, h2.held, ⟨gF, ?_, ?_, hs2⟩, ?_⟩
  · exact U2.frame (hcells 2 (by decide) (lt_of_getElem?_some U2.cellO))
      (hcells 3 (by decide) (lt_of_getElem?_some U2.cellS)) rfl (fun _ _ => rfl) (fun _ => rfl)
  · refine
      { held := X2.held, slot0 := X2.slot0, slot1 := X2.slot1, slot2 := X2.slot2, slot3 := X2.slot3
        obsvS := X2.obsvS
        cellG := (hcells 4 (by decide) (by rw [X2.nCells]; omega)).trans X2.cellG
        cellB := ?_
        cellN := (hcells 6 (by decide) (by rw [X2.nCells]; omega)).trans X2.cellN
        nCells := ?_, sbLt := ?_ }
    · show ((w2.cells ++ _).set 5 _)[5]? = _
      rw [List.getElem?_set_self (by simp [X2.nCells]; omega)]
      simp only [subCell, hm, rootAt_append_last, acellC, X2.nCells]
    · show ((w2.cells ++ _).set 5 _).length = _
      rw [List.length_set]; simp [X2.nCells]; omega
    · intro i hi
      have : i = st.conns.length := (Option.some.inj hi).symm
      simp; omega
  · refine C2.frame (fun _ _ => rfl) ?_ rfl
    intro i _
    show ((w2.cells ++ _).set 5 _)[_]? = (w2.cells ++ _)[_]?
    exact set_get_other _ (by simp [acellC]; omega)

/-- `on_subscribe(len)` of ref_count.rs:57-90 on the cold source = `ConnM.onSubscribe` -/
theorem onSubHookCc_spec {script roots cobs armed pend Hd w st} (h : RelCc script roots cobs armed pend Hd w st)
    (len1 : Nat) :
    WP (onSubHook rcC srcC fnP feP fcP (.int (len1 : Nat))) w (fun w' => ∃ cobs' armed',
      RelCc script roots cobs' armed' pend Hd w' (ConnM.onSubscribe .refCount (.cold script) st (some len1))) := by
  obtain ⟨g, U, X, hs⟩ := h.inv.ur
  unfold onSubHook
  have hti : (Data.int (len1 : Nat)).toInt = (len1 : Int) := rfl
  simp only [hti]
  by_cases h1 : len1 = 1
  · subst h1
    simp only [Int.natCast_one, beq_self_eq_true, ↓reduceIte]
    refine wp_cellReadG h.inv.held ?_
    rw [show w.cells[rcC.connected]? = some (.bool st.connecting) from X.cellG]
    simp only [Option.getD_some, toBool_bool]
    cases hc : st.connecting with
    | true =>
      simp only [↓reduceIte]
      refine WP.done ⟨cobs, armed, ?_⟩
      rw [onSubscribe_skip_cold .refCount script st 1 (by simp [hc])]; exact h
    | false =>
      simp only [Bool.false_eq_true, ↓reduceIte]
      refine wp_cellWriteG h.inv.held ?_
      have hm : st.conns.length = cobs.length := h.inv.conns.lenC.symm
      -- the world after `connecting = true`
      generalize hw1 : ({ w with cells := w.cells.set rcC.connected (.bool true) } : World) = w1
      have hobs1 : w1.obs = w.obs := by rw [← hw1]
      have g1 : Glob roots cobs w1 := by rw [← hw1]; exact ⟨g.status, g.nObs, g.rootsLt, g.cobsLt, g.nodup⟩
      have hs1 : w1.obsvs[0]? = some (coldSrc script) := by rw [← hw1]; exact hs
      have hheld1 : SlotReads w1.held := by rw [← hw1]; exact h.inv.held
      have U1 : UsersPart Sp roots pend w1 st.sub.observers st.sub.serial st.sub.obs := by
        rw [← hw1]
        exact U.frame (set_get_other _ (by decide)) (set_get_other _ (by decide)) rfl (fun _ _ => rfl) (fun _ => rfl)
      have X1 : ExtrasC cobs Hd true st.subscription st.cancelled w1 := by
        rw [← hw1]
        exact
          { X with
            cellG := set_get_same _ X.cellG
            cellB := by show (w.cells.set 4 _)[5]? = _; rw [set_get_other _ (by decide)]; exact X.cellB
            cellN := by show (w.cells.set 4 _)[6]? = _; rw [set_get_other _ (by decide)]; exact X.cellN
            nCells := by simp [X.nCells] }
      have C1 : ConnsPartC fnP feP fcP acellC cobs w1 st.conns armed := by
        rw [← hw1]
        exact h.inv.conns.frame (fun _ _ => rfl) (fun i _ => set_get_other _ (by simp [acellC, rcC]; omega)) rfl
      have g2 := coldConn_glob (fn := fnP) (fe := feP) (fc := fcP) g1
      have h0 : ColdInv (URcc script roots (cobs ++ [w1.obs.length]) cobs pend Hd true st.subscription st.cancelled)
          fnP feP fcP acellC roots (cobs ++ [w1.obs.length]) (coldConnWorld fnP feP fcP w1)
          { st with connecting := true, conns := st.conns ++ [true] } armed := by
        refine ⟨g2, hheld1, ⟨g2, ?_, { X1 with }, hs1⟩, C1.connect g1 h.full⟩
        exact U1.frame rfl rfl rfl (fun u hu => coldConn_obs_lt _ _ _ w1 (g1.rootsLt _ (rootAt_mem hu)))
          (fun u => logOf_emit_probe _ _ _ u)
      have hloop := coldLoop .refCount
        (UR := URcc script roots (cobs ++ [w1.obs.length]) cobs pend Hd true st.subscription st.cancelled)
        (J := InRoots roots) (K := IsCell 2) (acell := acellC) (fn := fnP) (fe := feP) (fc := fcP) (roots := roots)
        (cobs := cobs ++ [w1.obs.length]) (armed := armed) st.conns.length
        (fun i hi => notInRoots_cob g2 hi) (fun i _ => by simp [IsCell, acellC]; omega)
        (fun w s i hi hu => hu.conn i hi) (fun w s t d hu => hu.probe t d)
        (fun w s ev hh _ hu => URcc.emit ev hh hu) script _ _ (by simp) h0
      have hroot : rootAt (cobs ++ [w1.obs.length]) st.conns.length = w1.obs.length := by
        rw [hm, rootAt_append_last]
      rw [hroot] at hloop
      refine connectCold_pre hs1 hloop ?_
      intro w2 h2
      rw [hobs1] at h2 ⊢
      have hmid := connectedCc_mid h h2
      obtain ⟨g3, U3, X3, hs3⟩ := hmid.inv.ur
      have hheld2 : SlotReads ({ w2 with cells := w2.cells ++ [.bool true] } : World).held := h2.held
      refine wp_cellWriteG hheld2 ?_
      refine wp_cellReadG hheld2 ?_
      show WP _ (armStore w2 5 w.obs.length) _
      have hcn6 : (armStore w2 5 w.obs.length).cells[rcC.cancelled]? = some (.bool st.cancelled) := by
        have X2 := h2.ur.2.2.1
        show ((w2.cells ++ _).set 5 _)[6]? = _
        rw [set_get_other _ (by decide), get_app_lt _ _ _ (by rw [X2.nCells]; omega)]; exact X2.cellN
      rw [show ((w2.cells ++ [Data.bool true]).set rcC.subscription
        (.pair (.int (w.obs.length : Nat)) (.int (w2.cells.length : Nat))))[rcC.cancelled]? = _ from hcn6]
      simp only [Option.getD_some, toBool_bool]
      rw [onSubscribe_fire_cold .refCount script st hc]
      cases hcn : st.cancelled with
      | false =>
        simp only [Bool.false_eq_true, ↓reduceIte]
        exact WP.done ⟨_, _, hmid⟩
      | true =>
        simp only [↓reduceIte]
        have hnC : w2.cells.length = 7 + cobs.length := h2.ur.2.2.1.nCells
        have e1 : w.obs.length = rootAt (cobs ++ [w.obs.length]) st.conns.length := by
          rw [hm, rootAt_append_last]
        have e2 : w2.cells.length = acellC st.conns.length := by rw [hnC, hm]; rfl
        have eprog : subUnsub (.pair (.int (w.obs.length : Nat)) (.int (w2.cells.length : Nat))) =
            subUnsub (.pair (.int (rootAt (cobs ++ [w.obs.length]) st.conns.length : Nat))
              (.int (acellC st.conns.length : Nat))) := by rw [← e1, ← e2]
        rw [eprog]
        have hlenF : (coldFold .refCount script st).conns.length = st.conns.length + 1 := by
          unfold coldFold; rw [foldRecv_len]; simp
        refine (srcUnsubCc_spec hmid (i := st.conns.length) (by show _ < (coldFold _ _ _).conns.length; omega)).conseq ?_
        intro w' h'
        exact ⟨_, _, h'⟩
  · have : ((len1 : Int) == 1) = false := by
      rw [beq_eq_false_iff_ne]; intro e; exact h1 (by omega)
    simp only [this, Bool.false_eq_true, ↓reduceIte]
    refine WP.done ⟨cobs, armed, ?_⟩
    rw [onSubscribe_skip_cold .refCount script st len1 (by simp [h1])]; exact h

end Rx.CRef
