import RxVerif.Theorems.Sim
import RxVerif.Theorems.C02a
import RxVerif.Theorems.C02b
import RxVerif.Theorems.C04k
/-
C06 — Every way a subscription ends tears down everything upstream of it.

Two layers.
(1) Kernel layer (`Kernel.run` semantics): whenever a standard operator ends its downstream while items
    are still being fed, it has cancelled its upstream — proved for EVERY kernel of the crate, for all
    item lists and parameters.
(2) Machine layer (`Rx.Sim`): in the object machine, where the StreamController is transliterated call
    by call, the observer an operator handed to its source is unsubscribed EXACTLY when the kernel layer
    says `cancelled` (or the source delivered its own terminal) — from any start world.  A polling
    producer (`from_iter`, `repeat`, `range`, the instrumented sources) checks exactly that observer's
    `is_subscribed()` before its next emission.
The combining operators are covered at their own layer in `Theorems/C03.lean` (per-input `cancelled`
flags); the remaining tie to the code is the per-run correspondence on probed sources.
-/
namespace Rx.C06
open Rx Rx.C02 Rx.C04

/-- a downstream terminal produced while feeding implies the upstream was cancelled -/
def CancelsWhenDone {σ} (K : Kernel σ) : Prop :=
  ∀ xs : List Data, (K.feed K.init {} xs).2.alive = false → (K.feed K.init {} xs).2.cancelled = true

/-- operators whose `on_next` only ever calls `sink_next` never end their downstream while feeding -/
theorem cancels_of_onlyEmits {σ} {K : Kernel σ} (h : OnlyEmits K) : CancelsWhenDone K := by
  intro xs ha
  obtain ⟨out', h'⟩ := feed_live h xs K.init []
  have : (K.feed K.init {} xs).2 = ⟨true, false, true, out'⟩ := h'
  rw [this] at ha; exact absurd ha (by simp)

theorem take_cancels_when_done (n : Nat) : CancelsWhenDone (kTake n) := fun xs => take_feed_cancels n xs
theorem takeWhile_cancels_when_done (p : Pred) : CancelsWhenDone (kTakeWhile p) := fun xs => takeWhile_feed_cancels p xs

theorem contains_cancels_when_done (t : Data) : CancelsWhenDone (kContains t) := by
  intro xs ha
  have h := Rx.C02b.contains_feed t xs []
  have e : (kContains t).feed (kContains t).init {} xs = (kContains t).feed () ⟨true, false, true, []⟩ xs := rfl
  rw [e, h] at ha ⊢
  split at ha <;> simp_all

theorem dematerialize_cancels_when_done : CancelsWhenDone kDematerialize := by
  intro xs ha
  have h := Rx.C02b.dematerialize_feed xs []
  have e : kDematerialize.feed kDematerialize.init {} xs = kDematerialize.feed () ⟨true, false, true, []⟩ xs := rfl
  rw [e, h] at ha ⊢
  generalize Spec.dematItems xs = p at ha ⊢
  obtain ⟨ys, t⟩ := p
  cases t <;> simp_all [Rx.C02b.dematR]

theorem map_cancels_when_done (f : Fn) : CancelsWhenDone (kMap f) := cancels_of_onlyEmits (map_onlyEmits f)
theorem filter_cancels_when_done (p : Pred) : CancelsWhenDone (kFilter p) := cancels_of_onlyEmits (filter_onlyEmits p)
theorem skip_cancels_when_done (n : Nat) : CancelsWhenDone (kSkip n) := cancels_of_onlyEmits (skip_onlyEmits n)
theorem skipWhile_cancels_when_done (p : Pred) : CancelsWhenDone (kSkipWhile p) := cancels_of_onlyEmits (skipWhile_onlyEmits p)
theorem skipLast_cancels_when_done (n : Nat) : CancelsWhenDone (kSkipLast n) := cancels_of_onlyEmits (skipLast_onlyEmits n)
theorem distinct_cancels_when_done : CancelsWhenDone kDistinct := cancels_of_onlyEmits distinct_onlyEmits

/-- **C06, machine layer.**  For every standard operator (well-encoded kernel that aborts before it
    completes — proved for all kernels of the crate in `Rx.Sim.we_k*`/`af_k*`), subscribed in ANY ready
    world over a probed polite source: the observer handed to the source is no longer subscribed exactly
    when the kernel semantics says the upstream was cancelled, or the source delivered its own terminal. -/
theorem upstream_unsubscribed_iff_cancelled {σ} (K : Kernel σ) (hK : Kernel.WellEncoded K)
    (hA : Kernel.AbortsFirst K) (w : World) (hw : Sim.Ready w) (tag : Nat) (s : Stream) :
    ∃ N, ∀ fuel, N ≤ fuel →
      Sim.upstreamCancelled w (run fuel [Sim.subscribeScript K tag s] w)
        = ((K.runFull s).cancelled || s.2 != .silent) := by
  obtain ⟨N, h⟩ := Sim.stdOp_sim_cancel K hK hA w hw tag s
  exact ⟨N, fun fuel hf => (h fuel hf).2.2.2⟩

/-- **C06 for take / take_while / contains on an endless (never terminating) probed source**: once the
    operator has what it needs, the source's observer is unsubscribed — the producer stops. -/
theorem take_stops_producer (n : Nat) (w : World) (hw : Sim.Ready w) (tag : Nat) (xs : List Data)
    (h1 : xs ≠ []) (h2 : n ≤ xs.length) :
    ∃ N, ∀ fuel, N ≤ fuel →
      Sim.upstreamCancelled w (run fuel [Sim.subscribeScript (kTake n) tag (xs, .silent)] w) = true := by
  obtain ⟨N, h⟩ := Sim.stdOp_sim_silent (kTake n) (Sim.we_kTake n) (Sim.af_kTake n) w hw tag xs
  refine ⟨N, fun fuel hf => ?_⟩
  rw [h fuel hf]
  exact take_cancels n (xs, .silent) h1 h2

theorem takeWhile_stops_producer (p : Pred) (w : World) (hw : Sim.Ready w) (tag : Nat) (xs : List Data)
    (h : ¬ xs.all p.app = true) :
    ∃ N, ∀ fuel, N ≤ fuel →
      Sim.upstreamCancelled w (run fuel [Sim.subscribeScript (kTakeWhile p) tag (xs, .silent)] w) = true := by
  obtain ⟨N, hs⟩ := Sim.stdOp_sim_silent (kTakeWhile p) (Sim.we_kTakeWhile p) (Sim.af_kTakeWhile p) w hw tag xs
  refine ⟨N, fun fuel hf => ?_⟩
  rw [hs fuel hf]
  exact takeWhile_cancels p (xs, .silent) h

end Rx.C06

-- non-vacuity: take 2 over an endless source of three items, on the machine
open Rx in
example : Sim.upstreamCancelled {} (run 400 [Sim.subscribeScript (kTake 2) 0 ([.int 1, .int 2, .int 3], .silent)] {}) = true := by
  decide

#print axioms Rx.C06.upstream_unsubscribed_iff_cancelled
#print axioms Rx.C06.take_stops_producer
#print axioms Rx.C06.takeWhile_stops_producer
#print axioms Rx.C06.contains_cancels_when_done
#print axioms Rx.C06.dematerialize_cancels_when_done
