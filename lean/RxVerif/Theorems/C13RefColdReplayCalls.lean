import RxVerif.Theorems.C13RefColdReplayFire
/-
C13-REF, replay over a COLD source: `subscribe` assembled.
-/
namespace Rx.CRef
open Rx.Sim Rx.SubjM Rx.Ref Rx.RefR

theorem subscribeRc_spec {script L cobs cacs armed w st} (h : RelRpc script L cobs cacs armed none none [] w st) :
    WP (.userSub 1 noReact .done) w (fun w' => ∃ L' cobs' cacs' armed',
      L'.roots.length = L.roots.length + 1 ∧
      RelRpc script L' cobs' cacs' armed' none none [] w'
        (ConnM.step .replay (.cold script) st (.subscribe L.roots.length))) := by
  obtain ⟨g, U, X⟩ := h.ur
  have hu : (st.sub.obs L.roots.length).seen = false := by rw [U.unseen _ (Nat.le_refl _)]
  rw [stepRp_subscribe _ _ _ hu]
  refine subscribeFrontG (coldFam script) h ?_
  intro w2 cobs' cacs' armed' h2'
  dsimp only [coldFam] at h2' ⊢
  have er : w.obs.length = rootAt (L.reg w).roots L.roots.length := by
    show _ = rootAt (L.roots ++ [_]) _; rw [rootAt_append_last]
  have ef : w.obs.length + 1 = rootAt (L.reg w).fwds L.roots.length := by
    show _ = rootAt (L.fwds ++ [_]) _; rw [← U.lenF, rootAt_append_last]
  have es : w.cells.length = rootAt (L.reg w).sbs L.roots.length := by
    show _ = rootAt (L.sbs ++ [_]) _; rw [← U.lenS, rootAt_append_last]
  by_cases hfire : st.sub.observers.length + 1 = 1 ∧ st.connecting = false
  · -- the first subscriber: `on_subscribe(1)` connected, the script has run
    obtain ⟨hi, hwe, hwc⟩ := h.pristine hfire.2
    have hobs0 : st.sub.observers = [] := List.eq_nil_of_length_eq_zero (by omega)
    have hc : (regState st L.roots.length).connecting = false := hfire.2
    rw [hfire.1, onSubscribe_fire_cold .replay script _ hc] at h2' ⊢
    have hI : FoldInv L.roots.length (st.sub.serial + 1) (coldFold .replay script (regState st L.roots.length)).sub := by
      refine FoldInv.fold _ script _ ?_
      refine ⟨by simp [regState, upd, regRec], by simp [regState, upd, regRec], by simp [regState, upd, regRec], ?_⟩
      intro _
      exact ⟨by simp [regState, upd, regRec], by simp [regState, hobs0], hwe, hwc⟩
    have T := subscribeFire_tail (some 1) er ef es h2' hI
    simp only [pendOf, hi, hwe, hwc, hfire.1]
    refine T.conseq ?_
    intro w3 T3
    refine T3.conseq ?_
    intro w4 T4
    refine T4.conseq ?_
    rintro w5 ⟨L', armed'', hl, h5⟩
    exact ⟨L', cobs', cacs', armed'', by rw [hl]; simp [LayR.reg], h5⟩
  · -- any later subscriber: the hook does nothing, the ordinary hand-over
    rw [onSubscribe_skip_cold .replay script (regState st L.roots.length) (st.sub.observers.length + 1) hfire] at h2' ⊢
    have hr : (regState st L.roots.length).sub.obs L.roots.length = regRec (st.sub.serial + 1) := by
      simp [upd, regState]
    have T := subscribeTailG_spec (coldFam script) (some (st.sub.observers.length + 1)) er ef es h2' hr
    refine T.conseq ?_
    intro w3 T3
    refine T3.conseq ?_
    intro w4 T4
    refine T4.conseq ?_
    rintro w5 ⟨L', armed'', hl, h5⟩
    exact ⟨L', cobs', cacs', armed'', by rw [hl]; simp [LayR.reg], h5⟩

end Rx.CRef
