import RxVerif.Theorems.C04Ref
/-
C04-REF, part 5: `oOnErrorResumeNext f (oScript ..)` of model A (Machine/Lib.lean l.311-316, transliteration of
src/operators/on_error_resume_next.rs l.24-64) with the resume function mapping an error to another scripted
source REFINES the pure mirror `resumeRun` / `resumeCtl` of Kernel/Retry.lean.
-/
namespace Rx.RetryRef
open Rx.Sim Rx.Ref

/-- the mirror's error closure of on_error_resume_next: abort the failed observer, subscribe `f e` -/
def resumeK (f : Nat → Stream) (s : Nat) : Nat → Ctl → Ctl := fun e c2 =>
  playK (fun ee c5 => c5.sinkError ee)
    { (c2.abortObserve s).newObserver.2 with subs := (c2.abortObserve s).newObserver.2.subs + 1 }
    (c2.abortObserve s).serial (f e)

theorem resumeGo_eq (f : Nat → Stream) (st : Stream) (c : Ctl) :
    resumeGo f st c
      = playK (resumeK f c.serial) { c.newObserver.2 with subs := c.newObserver.2.subs + 1 } c.serial st := by
  simp only [resumeGo, playK, resumeK, Ctl.newObserver]
  split <;> rename_i h <;> simp only [h]
  split <;> rename_i h2 <;> simp only [h2]

theorem Rel.setSubs {g : G} {c : Ctl} {lv : Nat → Bool} {w : World} (hcv : ∀ k, g.cvf k = none)
    (h : Rel g c lv w) (k : Nat) : Rel g { c with subs := k } lv w :=
  ⟨by have := h.rep; rw [hcv] at this ⊢; exact this, h.dead, h.regLt, h.canLt⟩

/-- one subscription to a plain scripted source -/
theorem script_sub {g : G} {c : Ctl} {lv : Nat → Bool} {w : World} (h : Rel g c lv w) (tag : Nat)
    (evs : List Ev) {s : Nat} (hs : s < c.serial) (hl : lv s = true) {Q : World → Prop}
    (hk : ∀ w', Rel g c lv w' → WP (scriptLoop tag true (g.up s) evs) w' Q) :
    WP ((oScript tag true evs).sub (g.up s)) w Q := by
  simp only [Obsv.sub, oScript]
  apply rep_isSubU h.rep hs
  rw [hl]
  simp only [↓reduceIte]
  apply wp_probe
  exact hk _ (h.probe _ _)

theorem serial_sinkError (c : Ctl) (e : Nat) : (c.sinkError e).serial = c.serial := by
  simp only [Ctl.sinkError, Ctl.finalize]; split <;> rfl

theorem resume_spec_wp {g : G} (ok : g.Ok) (hcv : ∀ k, g.cvf k = none) (tag : Nat) (evs : List Ev)
    (tagF : Nat → Nat) (fs : Nat → List Ev)
    (hn : ∀ i, g.hn i = fun x => g.sc.sinkNext x) (hc : ∀ i, g.hc i = g.sc.sinkComplete i)
    {c : Ctl} {lv : Nat → Bool} {w : World} (h : Rel g c lv w) (ha : c.alive = true)
    (he0 : g.he c.serial = fun e => g.sc.abortObserve c.serial ;;
      g.sc.newObserver (fun _ xx => g.sc.sinkNext xx) (fun _ ee => g.sc.sinkError ee)
        (fun serial => g.sc.sinkComplete serial) fun o => (oScript (tagF e) true (fs e)).sub o)
    (he1 : g.he (c.serial + 1) = fun ee => g.sc.sinkError ee)
    {nf : Nat → Data → Prog} {ef : Nat → Nat → Prog} {cf : Nat → Prog}
    (hnf : nf c.serial = g.hn c.serial) (hef : ef c.serial = g.he c.serial) (hcf : cf c.serial = g.hc c.serial) :
    WP (g.sc.newObserver nf ef cf fun o => (oScript tag true evs).sub o) w
      (Post g c lv (resumeGo (fun e => Stream.ofScript (fs e)) (Stream.ofScript evs) c)) := by
  apply newObserver_spec ok h ha hnf hef hcf
  intro w1 h1
  apply script_sub h1 tag evs (s := c.serial) (by simp [Ctl.newObserver]) (by simp)
  intro w2 h2
  rw [resumeGo_eq]
  have h2' := h2.setSubs hcv (c.newObserver.2.subs + 1)
  refine (script_spec ok tag c.serial (resumeK (fun e => Stream.ofScript (fs e)) c.serial) (hn _) (hc _) evs
    _ _ w2 h2' ha (by simp)
    (by simp [Ctl.newObserver]) ?_).conseq ?_
  · intro e o' lv2 w3 h3 _ hl2
    rw [he0]
    simp only [resumeK]
    apply WP.seq
    have hmem : c.serial ∈ c.serial :: c.registered := by simp
    apply (abortObserve_spec ok h3 c.serial hmem).conseq
    intro w4 h4
    simp only [Ctl.abortObserve, Ctl.newObserver, hmem, ↓reduceIte] at h4 ⊢
    apply newObserver_spec ok h4 ha (by rw [hn]) (by rw [he1]) (by rw [hc])
    intro w5 h5
    apply script_sub h5 (tagF e) (fs e) (s := c.serial + 1) (by simp [Ctl.newObserver]) (by simp)
    intro w6 h6
    have h6' := h6.setSubs hcv (c.subs + 1 + 1)
    refine (script_spec ok (tagF e) (c.serial + 1) (fun ee c5 => c5.sinkError ee) (hn _) (hc _) (fs e) _ _ w6
      h6' ha (by simp) (by simp [Ctl.newObserver]) ?_).conseq ?_
    · intro ee o'' lv7 w7 h7 _ _
      rw [he1]
      apply (sinkError_spec ok h7 ha ee).conseq
      intro w8 h8
      exact ⟨_, h8, fun j _ hjl => by simp [hjl], by rw [serial_sinkError]; exact Nat.le_refl _⟩
    · rintro w7 ⟨lv7, h7, hm7, hle7⟩
      have hle7' : c.serial + 1 + 1 ≤ _ := hle7
      refine ⟨lv7, h7, fun j hj hjl => ?_, Nat.le_trans (by show c.serial + 1 ≤ c.serial + 1 + 1; omega) hle7'⟩
      have hj' : j < c.serial + 1 := hj
      apply hm7 j (by show j < c.serial + 1 + 1; omega)
      have e1 : (j == c.serial + 1) = false := by simp; omega
      simp [e1, hjl]
  · rintro w3 ⟨lv3, h3, hm3, hle3⟩
    refine ⟨lv3, h3, fun j hj hjl => hm3 j (by show j < c.serial + 1; omega) ?_, ?_⟩
    · have : (j == c.serial) = false := by simp; omega
      simp [this, hjl]
    · exact Nat.le_trans (Nat.le_succ _) hle3

/-- configuration of one subscription through `on_error_resume_next` over scripted sources -/
def resumeG (R sU cs cm fin cnt : Nat) (base : Nat → List Ev) (tagF : Nat → Nat) (fs : Nat → List Ev) : G :=
  let sc : Sctl := ⟨R, cs, cm, fin⟩
  { R := R, sU := sU, cs := cs, cm := cm, fin := fin, cnt := cnt, base := base
    hn := fun _ x => sc.sinkNext x
    he := fun i e =>
      match i with
      | 0 => sc.abortObserve 0 ;;
          sc.newObserver (fun _ xx => sc.sinkNext xx) (fun _ ee => sc.sinkError ee)
            (fun serial => sc.sinkComplete serial) fun o => (oScript (tagF e) true (fs e)).sub o
      | _ => sc.sinkError e
    hc := fun i => sc.sinkComplete i
    cvf := fun _ => none }

/-- the test: `src.on_error_resume_next(f)` with `src` playing `evs` and `f e` playing `fs e`, one passive subscriber -/
def subscribeResume (tag : Nat) (evs : List Ev) (tagF : Nat → Nat) (fs : Nat → List Ev) : Prog :=
  .obsvNew (oOnErrorResumeNext (fun e => oScript (tagF e) true (fs e)) (oScript tag true evs)) fun id =>
    .userSub id noReact .done

theorem resume_wp (tag : Nat) (evs : List Ev) (tagF : Nat → Nat) (fs : Nat → List Ev) (w : World) (hw : Ready w) :
    WP (subscribeResume tag evs tagF fs) w fun w' =>
      w'.status = .ok ∧
      logOf w' w.users.length = resumeRun (fun e => Stream.ofScript (fs e)) (Stream.ofScript evs) ∧
      (∀ s', s' ≠ w.users.length → logOf w' s' = logOf w s') ∧ w'.held = [] := by
  let g : G := resumeG w.obs.length w.users.length w.cells.length (w.cells.length + 1) w.slots.length
    (w.cells.length + 2) (logOf w) tagF fs
  have ok : g.Ok := ⟨by show w.cells.length ≠ w.cells.length + 1; omega,
    by show w.cells.length + 2 ≠ w.cells.length; omega, by show w.cells.length + 2 ≠ w.cells.length + 1; omega⟩
  unfold subscribeResume
  apply wp_obsvNew
  refine wp_userSub (f := oOnErrorResumeNext (fun e => oScript (tagF e) true (fs e)) (oScript tag true evs))
    (by simp) ?_
  unfold oOnErrorResumeNext fwdOp sctlNew
  apply wp_cellNew
  apply wp_cellNew
  apply wp_slotNew
  refine wp_obsSetOnUnsub (by exact hw.held) ?_
  simp only [List.length_append, List.length_cons, List.length_nil, Nat.zero_add]
  refine (resume_spec_wp (g := g) ok (fun _ => rfl) tag evs tagF fs (fun _ => rfl) (fun _ => rfl)
    (c := {}) (lv := fun _ => false) ?_ rfl rfl rfl
    (nf := fun _ x => g.sc.sinkNext x)
    (ef := fun serial e => g.sc.abortObserve serial ;;
      g.sc.newObserver (fun _ xx => g.sc.sinkNext xx) (fun _ ee => g.sc.sinkError ee)
        (fun serial => g.sc.sinkComplete serial) fun o => (oScript (tagF e) true (fs e)).sub o)
    (cf := fun serial => g.sc.sinkComplete serial) rfl rfl rfl).conseq ?_
  · apply rel_init g
    · exact hw.status
    · exact hw.held
    · show (World.setObs _ _ _).obs[w.obs.length]? = _
      rw [getElem?_setObs_same (x := ⟨some (.user w.users.length), some (.user w.users.length),
        some (.user w.users.length), none⟩) _ (by simp)]
      rfl
    · simp [World.setObs]; rfl
    · show (w.cells ++ [Data.int 0] ++ [Data.lnil])[w.cells.length]? = _
      simp
    · show (w.cells ++ [Data.int 0] ++ [Data.lnil])[w.cells.length + 1]? = _
      simp
    · show (w.cells ++ [Data.int 0] ++ [Data.lnil])[w.cells.length + 2]? = _
      simp; rfl
    · show (w.slots ++ [none])[w.slots.length]? = _
      simp
    · refine ⟨⟨w.obs.length, noReact, false, true⟩, ?_, rfl⟩
      show (w.users ++ [_])[w.users.length]? = _
      simp
    · exact hw.inv.quiet _ (Nat.le_refl _)
    · intro s' _; rfl
  · rintro w2 ⟨lv2, h2, _, _⟩
    apply wp_userReady
    apply WP.done
    exact ⟨h2.rep.status, h2.rep.log, h2.rep.others, h2.rep.held⟩

/-- **REFINEMENT, on_error_resume_next.** -/
theorem resume_refines (tag : Nat) (evs : List Ev) (tagF : Nat → Nat) (fs : Nat → List Ev) (w : World)
    (hw : Ready w) :
    ∃ N, ∀ fuel, N ≤ fuel →
      let w' := run fuel [subscribeResume tag evs tagF fs] w
      w'.status = .ok ∧
      logOf w' w.users.length = resumeRun (fun e => Stream.ofScript (fs e)) (Stream.ofScript evs) ∧
      (∀ s', s' ≠ w.users.length → logOf w' s' = logOf w s') ∧ w'.held = [] := by
  obtain ⟨n0, w', hQ, hr⟩ := WP.run_top (resume_wp tag evs tagF fs w hw)
  exact ⟨n0, fun fuel hf => by rw [hr fuel hf]; exact hQ⟩

end Rx.RetryRef

-- non-vacuity examples (concrete runs, `decide`) are in C04RefCor.lean
#print axioms Rx.RetryRef.resume_spec_wp
#print axioms Rx.RetryRef.resume_refines
