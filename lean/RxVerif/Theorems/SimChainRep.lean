import RxVerif.Theorems.Sim
import RxVerif.Kernel.Chain
/-
SIM for chains, part 1: the world of ONE subscription through a chain of `m` standard operators,
described by the flat chain state `CSt` (Kernel/Chain.lean), and the primitive WP rules on it.

Layout (allocation order of `stdOp Kₙ (… (stdOp K₁ src))` subscribed by a fresh test subscriber):
observer `j` is `L + j`; stage `j` owns cells `c0+3j` (serial), `c0+3j+1` (unscribers map), `c0+3j+2`
(kernel state) and slot `s0+j` (on_finalize).
-/
namespace Rx.Chain
open Rx.Sim

structure Lay where
  L : Nat
  c0 : Nat
  s0 : Nat
  sU : Nat
  n : Nat
  ks : Nat → DK
  base : Nat → List Ev

namespace Lay
variable (ly : Lay)
def P (j : Nat) : Nat := ly.L + j
def cm (j : Nat) : Nat := ly.c0 + 3 * j + 1
def cc (j : Nat) : Nat := ly.c0 + 3 * j + 2
def fin (j : Nat) : Nat := ly.s0 + j
def sc (j : Nat) : Sctl := ⟨ly.L + j, ly.c0 + 3 * j, ly.c0 + 3 * j + 1, ly.s0 + j⟩
def hn (j : Nat) : Data → Prog := stdN (ly.ks j).kernel (ly.sc j) (ly.cc j) 0
def he (j : Nat) : Nat → Prog := stdE (ly.ks j).kernel (ly.sc j) (ly.cc j) 0
def hc (j : Nat) : Prog := stdC (ly.ks j).kernel (ly.sc j) (ly.cc j) 0

def hdlN : Nat → HN
  | 0 => .user ly.sU
  | j+1 => .code (ly.hn j)
def hdlE : Nat → HE
  | 0 => .user ly.sU
  | j+1 => .code (ly.he j)
def hdlC : Nat → HC
  | 0 => .user ly.sU
  | j+1 => .code (ly.hc j)

def td (x : CSt) (j : Nat) : Option Prog := if x.ar j then some (ly.sc j).finalize else none

def obsAt (x : CSt) (j : Nat) : Obs :=
  if x.sub j then ⟨some (ly.hdlN j), some (ly.hdlE j), some (ly.hdlC j), ly.td x j⟩
  else ⟨none, none, none, ly.td x j⟩

def mapD (j : Nat) : Bool → Data
  | true => Data.ofList [.pair (.int 0) (.int (ly.L + (j + 1) : Nat))]
  | false => .lnil
end Lay

/-- the world of a chain subscription with `m` stages built, in flat state `x`, guards `H` held -/
structure CRep (ly : Lay) (m : Nat) (x : CSt) (H : List (LockId × Bool)) (w : World) : Prop where
  status : w.status = .ok
  held : w.held = H
  obs : ∀ j, j ≤ m → w.obs[ly.L + j]? = some (ly.obsAt x j)
  map : ∀ j, j < m → w.cells[ly.c0 + 3 * j + 1]? = some (ly.mapD j (x.rg j))
  cst : ∀ j, j < m → w.cells[ly.c0 + 3 * j + 2]? = some (x.st j)
  slot : ∀ j, j < m → w.slots[ly.s0 + j]? = some none
  user : ∃ u, w.users[ly.sU]? = some u ∧ u.react = fun _ _ _ => .done
  log : logOf w ly.sU = x.out
  others : ∀ s', s' ≠ ly.sU → logOf w s' = ly.base s'
  arTop : x.ar m = false

@[simp] theorem upd_same {α} (f : Nat → α) (i : Nat) (v : α) : upd f i v i = v := by simp [upd]
theorem upd_other {α} (f : Nat → α) {i k : Nat} (v : α) (h : k ≠ i) : upd f i v k = f k := by
  simp [upd, h]

section upd
variable {ly : Lay} {m : Nat} {x : CSt} {H : List (LockId × Bool)} {w : World}

/-- rewriting observer `j` -/
theorem CRep.setObs (h : CRep ly m x H w) (j : Nat) (f : Obs → Obs) (x' : CSt)
    (hj : f (ly.obsAt x j) = ly.obsAt x' j) (ho : ∀ k, k ≠ j → ly.obsAt x' k = ly.obsAt x k)
    (hrg : x'.rg = x.rg) (hst : x'.st = x.st) (hout : x'.out = x.out) (har : x'.ar m = false)
    (hjm : j ≤ m) : CRep ly m x' H (w.setObs (ly.L + j) f) where
  status := h.status
  held := h.held
  obs := fun k hk => by
    by_cases e : k = j
    · subst e; rw [getElem?_setObs_same _ (h.obs k hk), hj]
    · rw [getElem?_setObs_other _ (by omega), h.obs k hk, ho k e]
  map := fun k hk => by rw [hrg]; exact h.map k hk
  cst := fun k hk => by rw [hst]; exact h.cst k hk
  slot := h.slot
  user := h.user
  log := by rw [hout]; exact h.log
  others := h.others
  arTop := har

/-- rewriting one cell -/
theorem CRep.setCell (h : CRep ly m x H w) (c : Nat) (d : Data) (x' : CSt)
    (hsub : x'.sub = x.sub) (har : x'.ar = x.ar) (hout : x'.out = x.out)
    (hmap : ∀ k, k < m → (if ly.c0 + 3 * k + 1 = c then some d else some (ly.mapD k (x.rg k)))
      = some (ly.mapD k (x'.rg k)))
    (hcst : ∀ k, k < m → (if ly.c0 + 3 * k + 2 = c then some d else some (x.st k)) = some (x'.st k))
    (hc : c < w.cells.length) :
    CRep ly m x' H { w with cells := w.cells.set c d } where
  status := h.status
  held := h.held
  obs := fun k hk => by
    have : ly.obsAt x' k = ly.obsAt x k := by simp [Lay.obsAt, Lay.td, hsub, har]
    rw [this]; exact h.obs k hk
  map := fun k hk => by
    show (w.cells.set c d)[_]? = _
    rw [← hmap k hk, List.getElem?_set]
    split
    · simp_all
    · rename_i hne; simp [Ne.symm hne, h.map k hk]
  cst := fun k hk => by
    show (w.cells.set c d)[_]? = _
    rw [← hcst k hk, List.getElem?_set]
    split
    · simp_all
    · rename_i hne; simp [Ne.symm hne, h.cst k hk]
  slot := h.slot
  user := h.user
  log := by rw [hout]; exact h.log
  others := h.others
  arTop := by rw [har]; exact h.arTop

theorem CRep.setHeld (h : CRep ly m x H w) (H' : List (LockId × Bool)) :
    CRep ly m x H' { w with held := H' } :=
  { h with held := rfl }

theorem cell_lt {w : World} {c : Nat} {d : Data} (hc : w.cells[c]? = some d) :
    c < w.cells.length := by
  rcases Nat.lt_or_ge c w.cells.length with hlt | hge
  · exact hlt
  · rw [List.getElem?_eq_none hge] at hc; cases hc

end upd

/-! ### one interpreter step -/

theorem WP.step {p p1 : Prog} {w w1 : World} {Q : World → Prop}
    (hs : ∀ fuel st, run (fuel + 1) (p :: st) w = run fuel (p1 :: st) w1) (hk : WP p1 w1 Q) : WP p w Q := by
  obtain ⟨n, w', hQ, hr⟩ := hk
  exact ⟨n + 1, w', hQ, fun fuel st => by rw [← Nat.add_assoc, hs, hr]⟩

theorem WP.stepCall {p f k : Prog} {w w1 : World} {Q : World → Prop}
    (hs : ∀ fuel st, run (fuel + 1) (p :: st) w = run fuel (f :: k :: st) w1)
    (hk : WP f w1 fun w2 => WP k w2 Q) : WP p w Q := by
  obtain ⟨n, w', hQ, hr⟩ := WP.call hk
  exact ⟨n + 1, w', hQ, fun fuel st => by rw [← Nat.add_assoc, hs, hr]⟩

end Rx.Chain
