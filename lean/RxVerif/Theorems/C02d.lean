import RxVerif.Spec.Nested
import RxVerif.Theorems.C02b
/-
C02, operators whose items are observables: the pure machines of `window_with_count` and `group_by`
(Kernel/Nested.lean: the decision logic of the operators' closures, with the announced observables observed by
fresh subscribers) equal the ReactiveX characterisation of Spec/Nested.lean — for ALL item lists, endings, window
sizes ≥ 1 and key functions.
-/
namespace Rx.C02
open Rx Rx.Nested Rx.Spec Rx.C02b

/-! ### window_with_count: the machine, chunk by chunk -/

theorem winRunFrom_cons (count : Nat) (st : WinSt) (x : Data) (xs : List Data) (e : Ending) :
    winRunFrom count st (x :: xs) e = (winNext count st x).2 ++ winRunFrom count (winNext count st x).1 xs e := rfl

/-- items that neither open nor fill the current window -/
theorem win_feed_open (count : Nat) (e : Ending) (rest : List Data) (w : Nat) :
    ∀ (c : List Data) (k : Nat), 0 < k → k + c.length < count →
      winRunFrom count ⟨k, w⟩ (c ++ rest) e
        = c.map (fun x => (w, Ev.next x)) ++ winRunFrom count ⟨k + c.length, w⟩ rest e := by
  intro c
  induction c with
  | nil => intro k _ _; simp
  | cons x c ih =>
    intro k hk hlt
    have hlt' : k + (c.length + 1) < count := by simpa using hlt
    have h0 : (k == 0) = false := by simp; omega
    have hc : (k + 1 == count) = false := by simp; omega
    rw [List.cons_append, winRunFrom_cons]
    simp only [winNext, h0, hc]
    have := ih (k + 1) (by omega) (by omega)
    simp only [Bool.false_eq_true, if_false, List.nil_append, List.append_nil, List.map_cons,
      List.cons_append, List.length_cons]
    rw [this]
    have hk' : k + 1 + c.length = k + (c.length + 1) := by omega
    rw [hk']

/-- items that fill the open window: the last one closes it -/
theorem win_feed_close (count : Nat) (e : Ending) (rest : List Data) (w : Nat) :
    ∀ (c : List Data) (k : Nat), 0 < k → c ≠ [] → k + c.length = count →
      winRunFrom count ⟨k, w⟩ (c ++ rest) e
        = c.map (fun x => (w, Ev.next x)) ++ (w, Ev.complete) :: winRunFrom count ⟨0, w⟩ rest e := by
  intro c
  induction c with
  | nil => intro k _ h; exact absurd rfl h
  | cons x c ih =>
    intro k hk _ hlen
    have hlen' : k + (c.length + 1) = count := by simpa using hlen
    have h0 : (k == 0) = false := by simp; omega
    rw [List.cons_append, winRunFrom_cons]
    by_cases hcn : c = []
    · subst hcn
      have hc : (k + 1 == count) = true := by simp at hlen' ⊢; omega
      simp [winNext, h0, hc]
    · have hc : (k + 1 == count) = false := by
        have : 0 < c.length := List.length_pos_iff.mpr hcn
        simp; omega
      simp only [winNext, h0, hc]
      have := ih (k + 1) (by omega) hcn (by omega)
      simp only [Bool.false_eq_true, if_false, List.nil_append, List.append_nil, List.map_cons,
        List.cons_append]
      rw [this]

/-- a full chunk arriving while no window is open: announce, feed, complete -/
theorem win_full_chunk (count : Nat) (e : Ending) (rest : List Data) (w : Nat) (c : List Data)
    (hc : c.length = count) (hn : 0 < count) :
    winRunFrom count ⟨0, w⟩ (c ++ rest) e
      = (0, Ev.next (.obs (w + 1))) :: c.map (fun x => (w + 1, Ev.next x)) ++
          (w + 1, Ev.complete) :: winRunFrom count ⟨0, w + 1⟩ rest e := by
  cases c with
  | nil => simp at hc; omega
  | cons x c =>
    rw [List.cons_append, winRunFrom_cons]
    by_cases h1 : count = 1
    · subst h1
      have : c = [] := by simpa using hc
      subst this
      simp [winNext]
    · have hcl : (0 + 1 == count) = false := by simp; omega
      have hcn : c ≠ [] := by
        intro h; subst h; simp at hc; omega
      simp only [winNext, hcl, beq_self_eq_true, if_true]
      have := win_feed_close count e rest (w + 1) c 1 (by omega) hcn (by simp at hc; omega)
      simp only [Bool.false_eq_true, if_false, List.append_nil, Nat.zero_add, List.cons_append, List.nil_append,
        List.map_cons]
      rw [this]

/-- a short (non-empty) chunk at the end of the source: the window stays open and gets the source's terminal -/
theorem win_short_chunk (count : Nat) (e : Ending) (w : Nat) (c : List Data)
    (hc : c.length < count) (hne : c ≠ []) :
    winRunFrom count ⟨0, w⟩ c e
      = (0, Ev.next (.obs (w + 1))) :: c.map (fun x => (w + 1, Ev.next x)) ++ (endFor (w + 1) e ++ endFor 0 e) := by
  cases c with
  | nil => exact absurd rfl hne
  | cons x c =>
    rw [winRunFrom_cons]
    have hcl : (0 + 1 == count) = false := by simp at hc ⊢; omega
    simp only [winNext, hcl, beq_self_eq_true, if_true]
    have := win_feed_open count e [] (w + 1) c 1 (by omega) (by simp at hc; omega)
    simp only [List.append_nil] at this
    simp only [Bool.false_eq_true, if_false, List.append_nil, Nat.zero_add, List.cons_append, List.nil_append,
      List.map_cons]
    rw [this]
    have hk : ((1 + c.length) == 0) = false := by simp
    simp only [winRunFrom, winEnd, hk, Bool.false_eq_true, if_false]

/-- **window_trace.**  For every window size ≥ 1, every item list and ending: the machine's global trace is the
    chunk-by-chunk trace over the chunks `buffer_with_count` emits. -/
theorem window_trace_from (count : Nat) (hn : 0 < count) (e : Ending) :
    ∀ (fuel : Nat) (xs : List Data) (w : Nat), xs.length + 1 ≤ fuel →
      winRunFrom count ⟨0, w⟩ xs e = windowTrace count w (Spec.chunks count fuel xs) e := by
  intro fuel
  induction fuel with
  | zero => intro xs w h; omega
  | succ fuel ih =>
    intro xs w hf
    by_cases hx : xs = []
    · subst hx
      simp [winRunFrom, winEnd, Spec.chunks, windowTrace]
    · rw [chunks_succ count fuel xs hx]
      by_cases hlt : xs.length < count
      · rw [if_pos hlt, win_short_chunk count e w xs hlt hx]
        have hb : (xs.length == count) = false := by simp; omega
        simp [windowTrace, hb]
      · rw [if_neg hlt]
        have hsplit : xs = xs.take count ++ xs.drop count := (List.take_append_drop count xs).symm
        have hlen : (xs.take count).length = count := by simp; omega
        have hb : ((xs.take count).length == count) = true := by simp [hlen]
        conv => lhs; rw [hsplit]
        rw [win_full_chunk count e (xs.drop count) w (xs.take count) hlen hn]
        have hd : (xs.drop count).length + 1 ≤ fuel := by simp; omega
        rw [ih (xs.drop count) (w + 1) hd]
        simp only [windowTrace, hb, if_true, List.cons_append, List.nil_append]

theorem window_trace (count : Nat) (hn : 0 < count) (s : Stream) :
    winRun count s = windowTrace count 0 (windowChunks count s) s.2 :=
  window_trace_from count hn s.2 (s.1.length + 1) s.1 0 (Nat.le_refl _)

/-! ### window_with_count: per subscriber -/

theorem proj_map_other (s w : Nat) (h : w ≠ s) (c : List Data) :
    proj s (c.map fun x => (w, Ev.next x)) = [] := by
  induction c with
  | nil => rfl
  | cons x c ih => simp [proj_cons, ih, h]

theorem proj_map_self (w : Nat) (c : List Data) :
    proj w (c.map fun x => (w, Ev.next x)) = c.map Ev.next := by
  induction c with
  | nil => rfl
  | cons x c ih => simp [proj_cons, ih]

theorem proj_endFor_other (s w : Nat) (h : w ≠ s) (e : Ending) : proj s (endFor w e) = [] := by
  cases e <;> simp [endFor, Ending.toEvs, proj_cons, h]

theorem proj_endFor_self (w : Nat) (e : Ending) : proj w (endFor w e) = e.toEvs := by
  cases e <;> simp [endFor, Ending.toEvs, proj_cons]

theorem proj_winTail_other (s w : Nat) (h : w ≠ s) (count : Nat) (c : List Data) (e : Ending) :
    proj s (if c.length == count then [(w, Ev.complete)] else endFor w e) = [] := by
  by_cases hc : (c.length == count) = true
  · rw [if_pos hc]; simp [proj_cons, h]
  · rw [if_neg hc]; exact proj_endFor_other s w h e

theorem proj_winTail_self (w : Nat) (count : Nat) (c : List Data) (e : Ending) :
    proj w (if c.length == count then [(w, Ev.complete)] else endFor w e)
      = if c.length == count then [Ev.complete] else e.toEvs := by
  by_cases hc : (c.length == count) = true
  · rw [if_pos hc, if_pos hc]; simp [proj_cons]
  · rw [if_neg hc, if_neg hc]; exact proj_endFor_self w e

/-- windows announced later never talk to an earlier subscriber -/
theorem proj_windowTrace_earlier (count : Nat) (e : Ending) :
    ∀ (cs : List (List Data)) (w s : Nat), 0 < s → s ≤ w → proj s (windowTrace count w cs e) = [] := by
  intro cs
  induction cs with
  | nil => intro w s h0 _; simp [windowTrace, proj_endFor_other s 0 (by omega)]
  | cons c cs ih =>
    intro w s h0 hle
    have h1 : ((0 : Nat) == s) = false := by simp; omega
    simp only [windowTrace, List.cons_append, proj_cons, proj_append, h1]
    rw [proj_map_other s (w + 1) (by omega), ih (w + 1) s h0 (by omega), proj_winTail_other s (w + 1) (by omega)]
    simp

theorem proj_windowTrace_root (count : Nat) (e : Ending) :
    ∀ (cs : List (List Data)) (w : Nat),
      proj 0 (windowTrace count w cs e)
        = (List.range cs.length).map (fun j => Ev.next (.obs (w + j + 1))) ++ e.toEvs := by
  intro cs
  induction cs with
  | nil => intro w; simp [windowTrace, proj_endFor_self]
  | cons c cs ih =>
    intro w
    simp only [windowTrace, List.cons_append, proj_cons, proj_append]
    rw [proj_map_other 0 (w + 1) (by omega), ih (w + 1), proj_winTail_other 0 (w + 1) (by omega)]
    have : (List.range (c :: cs).length).map (fun j => Ev.next (.obs (w + j + 1)))
        = Ev.next (.obs (w + 1)) :: (List.range cs.length).map (fun j => Ev.next (.obs (w + 1 + j + 1))) := by
      simp only [List.length_cons, List.range_succ_eq_map, List.map_cons, List.map_map]
      simp only [Nat.add_zero, List.cons.injEq, true_and]
      apply List.map_congr_left
      intro j _
      simp only [Function.comp]
      congr 2; omega
    rw [this]
    simp

theorem proj_windowTrace_inner (count : Nat) (e : Ending) :
    ∀ (cs : List (List Data)) (w j : Nat),
      proj (w + j + 1) (windowTrace count w cs e)
        = match cs[j]? with
          | none => []
          | some c => c.map Ev.next ++ (if c.length == count then [Ev.complete] else e.toEvs) := by
  intro cs
  induction cs with
  | nil => intro w j; simp [windowTrace, proj_endFor_other (w + j + 1) 0 (by omega)]
  | cons c cs ih =>
    intro w j
    have h0 : ((0 : Nat) == w + j + 1) = false := by simp
    cases j with
    | zero =>
      simp only [windowTrace, List.cons_append, proj_cons, proj_append, Nat.add_zero, h0, Bool.false_eq_true, if_false,
        List.nil_append, List.getElem?_cons_zero]
      rw [proj_map_self, proj_windowTrace_earlier count e cs (w + 1) (w + 1) (by omega) (Nat.le_refl _),
        proj_winTail_self]
      simp
    | succ j =>
      simp only [windowTrace, List.cons_append, proj_cons, proj_append, h0, Bool.false_eq_true, if_false,
        List.nil_append, List.getElem?_cons_succ]
      rw [proj_map_other (w + (j + 1) + 1) (w + 1) (by omega), proj_winTail_other (w + (j + 1) + 1) (w + 1) (by omega)]
      have := ih (w + 1) j
      have hidx : w + 1 + j + 1 = w + (j + 1) + 1 := by omega
      rw [hidx] at this
      rw [this]
      simp

/-- **window_root.**  The root subscriber receives one observable per chunk, then the source's terminal. -/
theorem window_root (count : Nat) (hn : 0 < count) (s : Stream) :
    proj 0 (winRun count s) = windowRoot count s := by
  rw [window_trace count hn s, proj_windowTrace_root]
  simp [windowRoot]

/-- **window_inner.**  The subscriber of the j-th announced window receives exactly the j-th chunk of the source's items
    (the chunks of `buffer_with_count`), then `complete` when the chunk is full and the source's own terminal when the
    source ended inside the window; subscribers of windows that were never announced receive nothing. -/
theorem window_inner (count : Nat) (hn : 0 < count) (s : Stream) (j : Nat) :
    proj (j + 1) (winRun count s) = windowInner count s j := by
  rw [window_trace count hn s]
  have := proj_windowTrace_inner count s.2 (windowChunks count s) 0 j
  simp only [Nat.zero_add] at this
  rw [this]; rfl

/-- the windows partition the source's items, in order (from `chunks_buf`: the chunks concatenate to the input) -/
theorem window_items_are_buffers (count : Nat) (s : Stream) :
    (Spec.bufferWithCount count (s.1, .complete)).1 = (windowChunks count s).map Data.ofList := by
  simp [Spec.bufferWithCount, windowChunks]

/-- the chunks concatenate to the source's items: no item is lost, duplicated or moved to another window -/
theorem chunks_flatten (count : Nat) (hn : 0 < count) : ∀ (fuel : Nat) (xs : List Data), xs.length + 1 ≤ fuel →
    (Spec.chunks count fuel xs).flatten = xs := by
  intro fuel
  induction fuel with
  | zero => intro xs h; omega
  | succ fuel ih =>
    intro xs hf
    by_cases hx : xs = []
    · subst hx; simp [Spec.chunks]
    · rw [chunks_succ count fuel xs hx]
      by_cases hlt : xs.length < count
      · rw [if_pos hlt]; simp
      · rw [if_neg hlt, List.flatten_cons, ih (xs.drop count) (by simp; omega), List.take_append_drop]

/-- **window_partition.**  Reading the windows one after another gives back exactly the source's items, in order. -/
theorem window_partition (count : Nat) (hn : 0 < count) (s : Stream) : (windowChunks count s).flatten = s.1 :=
  chunks_flatten count hn _ _ (Nat.le_refl _)

/-- non-vacuity: 1 2 3 then complete, windows of 2 -/
example : winRun 2 ([.int 1, .int 2, .int 3], .complete)
    = [(0, .next (.obs 1)), (1, .next (.int 1)), (1, .next (.int 2)), (1, .complete),
       (0, .next (.obs 2)), (2, .next (.int 3)), (2, .complete), (0, .complete)] := by decide
example : windowInner 2 ([.int 1, .int 2, .int 3], .error 5) 1 = [.next (.int 3), .error 5] := by decide
/-- `hn` is needed: the code's counter never reaches 0, a window of size 0 never closes -/
example : proj 1 (winRun 0 ([.int 1, .int 2], .complete)) ≠ windowInner 0 ([.int 1, .int 2], .complete) 0 := by decide

/-! ### group_by -/

theorem pos_get (k : Int) : ∀ (g : List Int), k ∈ g → g[pos k g]? = some k := by
  intro g
  induction g with
  | nil => intro h; simp at h
  | cons a g ih =>
    intro h
    by_cases ha : a = k
    · subst ha; simp [pos]
    · have hk : k ∈ g := by
        rcases List.mem_cons.mp h with h | h
        · exact absurd h.symm ha
        · exact h
      have hb : (a == k) = false := by simp [ha]
      simp [pos, hb, ih hk]

theorem pos_unique (k : Int) : ∀ (g : List Int) (j : Nat), g.Nodup → g[j]? = some k → pos k g = j := by
  intro g
  induction g with
  | nil => intro j _ h; simp at h
  | cons a g ih =>
    intro j hnd h
    have hnd' := List.nodup_cons.mp hnd
    cases j with
    | zero =>
      have : a = k := by simpa using h
      simp [pos, this]
    | succ j =>
      have hg : g[j]? = some k := by simpa using h
      have hk : k ∈ g := List.mem_of_getElem? hg
      have ha : a ≠ k := fun h' => hnd'.1 (h' ▸ hk)
      have hb : (a == k) = false := by simp [ha]
      simp [pos, hb, ih j hnd'.2 hg]

theorem addKeys_cons (key : Fn) (ks : List Int) (x : Data) (xs : List Data) :
    addKeys key ks (x :: xs) = addKeys key (grpNext key ks x).1 xs := by
  simp only [addKeys, grpNext]
  split <;> rfl

theorem grpNext_nodup (key : Fn) (g : Groups) (x : Data) (h : g.Nodup) : (grpNext key g x).1.Nodup := by
  simp only [grpNext]
  split
  · exact h
  · rename_i hk
    exact List.nodup_append.mpr ⟨h, by simp, by
      intro a ha b hb
      simp at hb; subst hb
      exact fun h' => hk (h' ▸ ha)⟩

theorem grpNext_prefix (key : Fn) (g : Groups) (x : Data) (i : Nat) (hi : i < g.length) :
    (grpNext key g x).1[i]? = g[i]? := by
  simp only [grpNext]
  split
  · rfl
  · exact List.getElem?_append_left hi

theorem grpNext_length (key : Fn) (g : Groups) (x : Data) : g.length ≤ (grpNext key g x).1.length := by
  simp only [grpNext]
  split <;> simp

theorem addKeys_nodup (key : Fn) : ∀ (xs : List Data) (g : Groups), g.Nodup → (addKeys key g xs).Nodup := by
  intro xs
  induction xs with
  | nil => intro g h; exact h
  | cons x xs ih => intro g h; rw [addKeys_cons]; exact ih _ (grpNext_nodup key g x h)

theorem addKeys_length (key : Fn) : ∀ (xs : List Data) (g : Groups), g.length ≤ (addKeys key g xs).length := by
  intro xs
  induction xs with
  | nil => intro g; exact Nat.le_refl _
  | cons x xs ih => intro g; rw [addKeys_cons]; exact Nat.le_trans (grpNext_length key g x) (ih _)

theorem addKeys_prefix (key : Fn) : ∀ (xs : List Data) (g : Groups) (i : Nat), i < g.length →
    (addKeys key g xs)[i]? = g[i]? := by
  intro xs
  induction xs with
  | nil => intro g i _; rfl
  | cons x xs ih =>
    intro g i hi
    rw [addKeys_cons, ih _ i (Nat.lt_of_lt_of_le hi (grpNext_length key g x)), grpNext_prefix key g x i hi]

theorem proj_group_ends (e : Ending) (s : Nat) : ∀ (n : Nat),
    proj (s + 1) ((List.range n).flatMap (fun i => endFor (i + 1) e)) = if s < n then e.toEvs else [] := by
  intro n
  induction n with
  | zero => simp
  | succ n ih =>
    rw [List.range_succ, List.flatMap_append, proj_append, ih]
    simp only [List.flatMap_cons, List.flatMap_nil, List.append_nil]
    by_cases h1 : s < n
    · rw [if_pos h1, if_pos (by omega), proj_endFor_other (s + 1) (n + 1) (by omega)]; simp
    · by_cases h2 : s = n
      · subst h2; rw [if_neg h1, if_pos (by omega), proj_endFor_self]; simp
      · rw [if_neg h1, if_neg (by omega), proj_endFor_other (s + 1) (n + 1) (by omega)]; simp

theorem proj_root_group_ends (e : Ending) : ∀ (n : Nat),
    proj 0 ((List.range n).flatMap (fun i => endFor (i + 1) e)) = [] := by
  intro n
  induction n with
  | zero => simp
  | succ n ih =>
    rw [List.range_succ, List.flatMap_append, proj_append, ih]
    simp [proj_endFor_other 0 (n + 1) (by omega)]

/-- what one item contributes to the subscriber of the group at position `j` of the final key list -/
theorem proj_grpNext (key : Fn) (g : Groups) (x : Data) (xs : List Data) (hnd : g.Nodup) (j : Nat) (k : Int)
    (hK : (addKeys key g (x :: xs))[j]? = some k) :
    proj (j + 1) (grpNext key g x).2 = if keyOf key x == k then [Ev.next x] else [] := by
  have hKnd : (addKeys key g (x :: xs)).Nodup := addKeys_nodup key _ g hnd
  have hpre : ∀ i, i < g.length → (addKeys key g (x :: xs))[i]? = g[i]? := addKeys_prefix key _ g
  simp only [grpNext]
  by_cases hm : keyOf key x ∈ g
  · rw [if_pos hm]
    have hp := pos_get (keyOf key x) g hm
    have hplt : pos (keyOf key x) g < g.length := by
      apply Classical.byContradiction; intro hge
      rw [List.getElem?_eq_none (by omega)] at hp; exact absurd hp (by simp)
    have hKp : (addKeys key g (x :: xs))[pos (keyOf key x) g]? = some (keyOf key x) := by rw [hpre _ hplt, hp]
    by_cases hk : keyOf key x = k
    · have : pos (keyOf key x) g = j := by
        have := pos_unique (keyOf key x) _ j hKnd (hk ▸ hK)
        have h2 := pos_unique (keyOf key x) _ _ hKnd hKp
        omega
      subst hk
      simp [proj_cons, this]
    · have hne : pos (keyOf key x) g ≠ j := by
        intro h; rw [h] at hKp; rw [hK] at hKp; exact hk (Option.some.inj hKp).symm
      have hb : (keyOf key x == k) = false := by simp [hk]
      simp [proj_cons, hne, hb]
  · rw [if_neg hm]
    have hstep : addKeys key g (x :: xs) = addKeys key (g ++ [keyOf key x]) xs := by
      simp [addKeys, hm]
    have hKl : (addKeys key g (x :: xs))[g.length]? = some (keyOf key x) := by
      rw [hstep, addKeys_prefix key xs (g ++ [keyOf key x]) g.length (by simp)]
      simp
    by_cases hk : keyOf key x = k
    · have : g.length = j := by
        have h1 := pos_unique k _ j hKnd hK
        have h2 := pos_unique k _ g.length hKnd (hk ▸ hKl)
        omega
      simp [proj_cons, this, hk]
    · have hne : g.length ≠ j := by
        intro h; rw [h] at hKl; rw [hK] at hKl; exact hk (Option.some.inj hKl).symm
      have hb : (keyOf key x == k) = false := by simp [hk]
      simp [proj_cons, hne, hb]

theorem group_inner_from (key : Fn) (e : Ending) : ∀ (xs : List Data) (g : Groups), g.Nodup →
    ∀ (j : Nat) (k : Int), (addKeys key g xs)[j]? = some k →
      proj (j + 1) (grpRunFrom key g xs e) = (xs.filter fun x => keyOf key x == k).map Ev.next ++ e.toEvs := by
  intro xs
  induction xs with
  | nil =>
    intro g _ j k hK
    have hj : j < g.length := by
      apply Classical.byContradiction; intro hge
      simp only [addKeys] at hK
      rw [List.getElem?_eq_none (by omega)] at hK; exact absurd hK (by simp)
    simp [grpRunFrom, grpEnd, proj_group_ends, hj, proj_endFor_other (j + 1) 0 (by omega)]
  | cons x xs ih =>
    intro g hnd j k hK
    have hK' : (addKeys key (grpNext key g x).1 xs)[j]? = some k := by rw [← addKeys_cons]; exact hK
    simp only [grpRunFrom, proj_append]
    rw [proj_grpNext key g x xs hnd j k hK, ih _ (grpNext_nodup key g x hnd) j k hK']
    by_cases hk : (keyOf key x == k) = true
    · simp [List.filter_cons, hk]
    · simp [List.filter_cons, hk]

theorem group_root_from (key : Fn) (e : Ending) : ∀ (xs : List Data) (g : Groups),
    proj 0 (grpRunFrom key g xs e)
      = (List.range ((addKeys key g xs).length - g.length)).map (fun j => Ev.next (.obs (g.length + j + 1)))
          ++ e.toEvs := by
  intro xs
  induction xs with
  | nil => intro g; simp [grpRunFrom, grpEnd, addKeys, proj_root_group_ends, proj_endFor_self]
  | cons x xs ih =>
    intro g
    simp only [grpRunFrom, proj_append]
    rw [ih, addKeys_cons]
    simp only [grpNext]
    by_cases hm : keyOf key x ∈ g
    · simp [hm, proj_cons]
    · simp only [hm, if_false]
      have hlen := addKeys_length key xs (g ++ [keyOf key x])
      simp only [List.length_append, List.length_cons, List.length_nil] at hlen ⊢
      obtain ⟨m, hm'⟩ : ∃ m, (addKeys key (g ++ [keyOf key x]) xs).length - g.length = m + 1 :=
        ⟨(addKeys key (g ++ [keyOf key x]) xs).length - g.length - 1, by omega⟩
      have hm2 : (addKeys key (g ++ [keyOf key x]) xs).length - (g.length + 0 + 1) = m := by omega
      rw [hm', hm2]
      simp only [proj_cons, List.range_succ_eq_map, List.map_cons, List.map_map]
      simp only [beq_self_eq_true, if_true, Nat.add_zero, List.singleton_append, List.cons_append, List.nil_append]
      have h0 : ((g.length + 1 == 0) = false) := by simp
      simp only [h0, Bool.false_eq_true, if_false, List.nil_append, proj_nil, List.append_nil]
      congr 1
      congr 1
      apply List.map_congr_left
      intro j _
      simp only [Function.comp]
      congr 2; omega

/-- **group_root.**  The root subscriber receives one observable per distinct key, then the source's terminal. -/
theorem group_root (key : Fn) (s : Stream) : proj 0 (grpRun key s) = groupRoot key s := by
  have := group_root_from key s.2 s.1 []
  simpa [grpRun, groupRoot, keysOf] using this

/-- **group_inner.**  For every key function, item list and ending: the subscriber of the group announced for key `k`
    (the j-th distinct key in order of first occurrence, observed by subscriber j + 1) receives exactly the items whose
    key is `k`, in source order, followed by the source's terminal. -/
theorem group_inner (key : Fn) (s : Stream) (j : Nat) (k : Int) (hk : (keysOf key s.1)[j]? = some k) :
    proj (j + 1) (grpRun key s) = groupInner key s k :=
  group_inner_from key s.2 s.1 [] List.nodup_nil j k hk

/-- every key that occurs has a group -/
theorem keysOf_complete (key : Fn) : ∀ (xs : List Data) (g : Groups) (x : Data), x ∈ xs → keyOf key x ∈ addKeys key g xs := by
  intro xs
  induction xs with
  | nil => intro g x h; simp at h
  | cons y ys ih =>
    intro g x h
    rw [addKeys_cons]
    rcases List.mem_cons.mp h with rfl | h
    · -- the key of the head is in the next group list, and group lists only grow
      have hin : keyOf key x ∈ (grpNext key g x).1 := by
        simp only [grpNext]; split
        · assumption
        · simp
      obtain ⟨i, hi, hget⟩ := List.getElem_of_mem hin
      have := addKeys_prefix key ys (grpNext key g x).1 i hi
      rw [List.getElem?_eq_getElem hi, hget] at this
      exact List.mem_of_getElem? this
    · exact ih _ x h

/-- **group_keys.**  Every key that occurs in the source has exactly one group: the announced key list has no
    duplicates and contains the key of every item. -/
theorem group_keys (key : Fn) (xs : List Data) :
    (keysOf key xs).Nodup ∧ ∀ x ∈ xs, keyOf key x ∈ keysOf key xs :=
  ⟨addKeys_nodup key xs [] List.nodup_nil, fun x hx => keysOf_complete key xs [] x hx⟩

example : grpRun (.mod 2) ([.int 1, .int 2, .int 3], .error 5)
    = [(0, .next (.obs 1)), (1, .next (.int 1)), (0, .next (.obs 2)), (2, .next (.int 2)), (1, .next (.int 3)),
       (1, .error 5), (2, .error 5), (0, .error 5)] := by decide
example : keysOf (.mod 2) [.int 1, .int 2, .int 3] = [1, 0] := by decide

end Rx.C02

#print axioms Rx.C02.window_trace
#print axioms Rx.C02.window_root
#print axioms Rx.C02.window_inner
#print axioms Rx.C02.window_items_are_buffers
#print axioms Rx.C02.group_root
#print axioms Rx.C02.group_inner
#print axioms Rx.C02.keysOf_complete
#print axioms Rx.C02.window_partition
#print axioms Rx.C02.group_keys
