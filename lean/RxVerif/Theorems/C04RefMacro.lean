import RxVerif.Theorems.C04RefBase
/-
C04-REF, part 2: the StreamController macros of `Machine/Core.lean` (`finalize`, `newObserver`, `sinkNext`,
`sinkError`, `sinkComplete`, `abortObserve`) executed symbolically on a world described by `Rep`, and their
agreement with the pure controller `Ctl` of `Kernel/Retry.lean` (relation `Rel`).
-/
namespace Rx.RetryRef
open Rx.Sim Rx.Ref

section macros
variable {g : G} {al : Bool} {lv : Nat → Bool} {n : Nat} {reg : List Nat} {H : List (LockId × Bool)}
  {cv : Option Data} {out : List Ev} {w : World}

/-- the `for (_, unsub) in unscribers { unsub() }` loop of `finalize` -/
theorem unsubAll_spec : ∀ (l : List Nat) (lv : Nat → Bool) (w : World), (∀ i ∈ l, i < n) →
    Rep g al lv n reg H cv out w →
    WP (forEach (l.map fun i => Data.int (g.up i)) fun o => .obsUnsub o.toInt.toNat .done) w
      (Rep g al (fun j => lv j && !l.contains j) n reg H cv out)
  | [], lv, w, _, h => WP.done (by simpa using h)
  | i :: l, lv, w, hl, h => by
    simp only [List.map_cons, forEach, toNat_int]
    apply WP.seq
    apply rep_unsubU h (hl i (by simp))
    intro w1 h1
    apply WP.done
    apply (unsubAll_spec l _ w1 (fun j hj => hl j (by simp [hj])) h1).conseq
    intro w2 h2
    have e : (fun j => (j != i && lv j) && !l.contains j) = (fun j => lv j && !(i :: l).contains j) := by
      funext j
      simp only [List.contains_cons, bne]
      cases lv j <;> cases (j == i) <;> cases l.contains j <;> rfl
    rw [← e]; exact h2

/-- the tail of `finalize`: `on_finalize` is never set by the recovery operators -/
theorem finTail_spec (h : Rep g al lv n reg [] cv out w) :
    WP (.lockAcq (.slot g.fin) true <| .slotCall g.fin .unit true <| .lockRel (.slot g.fin) .done) w
      (Rep g al lv n reg [] cv out) := by
  apply rep_lockAcq h
  intro w1 h1
  apply rep_slotCall h1
  apply rep_lockRel h1
  intro w2 h2
  exact WP.done h2

theorem mapD_nil (g : G) : mapD g [] = .lnil := rfl

/-- `finalize` once the downstream observer is no longer subscribed -/
theorem finalize_dead (ok : g.Ok) (hl : ∀ i ∈ reg, i < n) (h : Rep g false lv n reg [] cv out w) :
    WP g.sc.finalize w (Rep g false (fun j => lv j && !reg.contains j) n [] [] cv out) := by
  simp only [Sctl.finalize, sc_sub, sc_map, sc_fin]
  apply rep_lockAcq h
  intro w1 h1
  apply rep_readMap h1 (Or.inl rfl)
  rw [amapVals_mapD]
  apply WP.seq
  apply (unsubAll_spec reg lv w1 hl h1).conseq
  intro w2 h2
  apply rep_lockRel h2
  intro w3 h3
  rw [← mapD_nil g]
  apply rep_writeMap ok h3 (Or.inr rfl)
  intro w4 h4
  apply rep_isSubR h4
  simp only [Bool.false_eq_true, ↓reduceIte]
  apply WP.seq
  apply WP.done
  exact finTail_spec h4

/-- `finalize` in general: a live downstream is unsubscribed, which runs `finalize` once more -/
theorem finalize_rep (ok : g.Ok) (hl : ∀ i ∈ reg, i < n) (h : Rep g al lv n reg [] cv out w) :
    WP g.sc.finalize w (Rep g false (fun j => lv j && !reg.contains j) n [] [] cv out) := by
  cases al with
  | false => exact finalize_dead ok hl h
  | true =>
    simp only [Sctl.finalize, sc_sub, sc_map, sc_fin]
    apply rep_lockAcq h
    intro w1 h1
    apply rep_readMap h1 (Or.inl rfl)
    rw [amapVals_mapD]
    apply WP.seq
    apply (unsubAll_spec reg lv w1 hl h1).conseq
    intro w2 h2
    apply rep_lockRel h2
    intro w3 h3
    rw [← mapD_nil g]
    apply rep_writeMap ok h3 (Or.inr rfl)
    intro w4 h4
    apply rep_isSubR h4
    simp only [↓reduceIte]
    apply WP.seq
    apply rep_unsubR h4
    · intro w5 h5
      apply (finalize_dead ok (by simp) h5).conseq
      intro w6 h6
      apply WP.done
      apply finTail_spec
      simpa using h6
    · intro w5 h5
      apply WP.done
      exact finTail_spec h5

/-! ### agreement with the pure controller `Ctl` -/

/-- the world represents controller state `c`; `lv` says which upstream observers are still subscribed -/
structure Rel (g : G) (c : Ctl) (lv : Nat → Bool) (w : World) : Prop where
  rep : Rep g c.alive lv c.serial c.registered.reverse [] (g.cvf c.subs) c.out w
  dead : ∀ i ∈ c.cancelled, lv i = false
  regLt : ∀ i ∈ c.registered, i < c.serial
  canLt : ∀ i ∈ c.cancelled, i < c.serial

variable {c : Ctl}

theorem finalize_spec (ok : g.Ok) (h : Rel g c lv w) :
    WP g.sc.finalize w (Rel g c.finalize fun j => lv j && !c.registered.reverse.contains j) := by
  apply (finalize_rep ok (fun i hi => h.regLt i (by simpa using hi)) h.rep).conseq
  intro w1 h1
  refine ⟨h1, ?_, ?_, ?_⟩
  · intro i hi
    simp only [Ctl.finalize, List.mem_append] at hi
    rcases hi with hi | hi
    · simp [h.dead i hi]
    · simp [hi]
  · intro i hi; simp [Ctl.finalize] at hi
  · intro i hi
    simp only [Ctl.finalize, List.mem_append] at hi
    rcases hi with hi | hi
    · exact h.canLt i hi
    · exact h.regLt i hi

theorem sinkNext_spec (h : Rel g c lv w) (ha : c.alive = true) (d : Data) :
    WP (g.sc.sinkNext d) w (Rel g (c.sinkNext d) lv) := by
  have hr := h.rep
  rw [ha] at hr
  simp only [Sctl.sinkNext, sc_sub]
  apply rep_isSubR hr
  simp only [↓reduceIte]
  apply rep_evR_alive (ev := .next d) hr
  intro w1 h1
  apply WP.done
  simp only [Ctl.sinkNext, ha, ↓reduceIte]
  exact ⟨by simpa [ha, Ev.isTerminal] using h1, h.dead, h.regLt, h.canLt⟩

theorem sinkError_spec (ok : g.Ok) (h : Rel g c lv w) (ha : c.alive = true) (e : Nat) :
    WP (g.sc.sinkError e) w (Rel g (c.sinkError e) fun j => lv j && !c.registered.reverse.contains j) := by
  have hr := h.rep
  rw [ha] at hr
  simp only [Sctl.sinkError, sc_sub]
  apply rep_isSubR hr
  simp only [↓reduceIte]
  apply rep_evR_alive (ev := .error e) hr
  intro w1 h1
  simp only [Ctl.sinkError, ha, ↓reduceIte]
  exact finalize_spec (c := { c with out := c.out ++ [Ev.error e], alive := false }) ok
    ⟨h1, h.dead, h.regLt, h.canLt⟩

theorem sinkComplete_spec (ok : g.Ok) (h : Rel g c lv w) (ha : c.alive = true) (s : Nat) :
    WP (g.sc.sinkComplete s) w fun w' => ∃ lv', Rel g (c.sinkComplete s) lv' w' ∧ ∀ j, lv j = false → lv' j = false := by
  have hr := h.rep
  rw [ha] at hr
  simp only [Sctl.sinkComplete, sc_sub, sc_map]
  apply rep_isSubR hr
  simp only [↓reduceIte]
  apply rep_readMap hr (Or.inr rfl)
  simp only [amapRemove_mapD, amapLen_mapD]
  apply rep_writeMap ok hr (Or.inr rfl)
  intro w1 h1
  have hrel1 : Rel g { c with registered := c.registered.filter (· != s) } lv w1 :=
    ⟨by rw [List.filter_reverse] at h1; simpa [ha] using h1, h.dead,
      fun i hi => h.regLt i (List.mem_filter.1 hi).1, h.canLt⟩
  simp only [Ctl.sinkComplete, ha, ↓reduceIte]
  by_cases he : (c.registered.filter (· != s)).isEmpty = true
  · have hlen : ((List.filter (· != s) c.registered.reverse).length == 0) = true := by
      rw [List.filter_reverse]
      simpa using he
    simp only [hlen, he, ↓reduceIte]
    apply rep_evR_alive (ev := .complete) (by simpa [ha] using hrel1.rep)
    intro w2 h2
    apply (finalize_spec (c := ({ ({ c with registered := c.registered.filter (· != s) } : Ctl) with
        out := c.out ++ [Ev.complete], alive := false } : Ctl)) ok
      ⟨h2, hrel1.dead, hrel1.regLt, hrel1.canLt⟩).conseq
    intro w3 h3
    exact ⟨_, h3, fun j hj => by simp [hj]⟩
  · have hlen : ((List.filter (· != s) c.registered.reverse).length == 0) = false := by
      rw [List.filter_reverse]
      simpa using he
    simp only [hlen, he, Bool.false_eq_true, ↓reduceIte]
    exact WP.done ⟨lv, by simpa [ha] using hrel1, fun j hj => hj⟩

theorem abortObserve_spec (ok : g.Ok) (h : Rel g c lv w) (s : Nat) (hm : s ∈ c.registered) :
    WP (g.sc.abortObserve s) w (Rel g (c.abortObserve s) fun j => j != s && lv j) := by
  have hr := h.rep
  have hs : s < c.serial := h.regLt s hm
  simp only [Sctl.abortObserve, sc_map]
  apply rep_lockAcq hr
  intro w1 h1
  apply rep_readMap h1 (Or.inl rfl)
  rw [amapRemove_mapD, amapGet_mapD, if_pos (by simpa using hm)]
  apply rep_writeMap ok h1 (Or.inl rfl)
  intro w2 h2
  simp only [toNat_int]
  apply WP.seq
  apply rep_unsubU h2 hs
  intro w3 h3
  apply WP.done
  apply rep_lockRel h3
  intro w4 h4
  apply WP.done
  simp only [Ctl.abortObserve, hm, ↓reduceIte]
  refine ⟨by rw [List.filter_reverse] at h4; exact h4, ?_, ?_, ?_⟩
  · intro i hi
    simp only [List.mem_append, List.mem_singleton] at hi
    rcases hi with hi | rfl
    · simp [h.dead i hi]
    · simp
  · intro i hi; exact h.regLt i (List.mem_filter.1 hi).1
  · intro i hi
    simp only [List.mem_append, List.mem_singleton] at hi
    rcases hi with hi | rfl
    · exact h.canLt i hi
    · exact hs

/-- `new_observer` while the subscriber is still subscribed (the only way the recovery operators call it: at
    subscription time and inside the error closure of a live upstream): the re-check added at the end of
    `new_observer` sees a live subscriber and keeps the registration. -/
theorem newObserver_spec (ok : g.Ok) (h : Rel g c lv w) (ha : c.alive = true) {nf : Nat → Data → Prog} {ef : Nat → Nat → Prog}
    {cf : Nat → Prog} {k : Nat → Prog} {Q : World → Prop}
    (hnf : nf c.serial = g.hn c.serial) (hef : ef c.serial = g.he c.serial) (hcf : cf c.serial = g.hc c.serial)
    (hk : ∀ w', Rel g c.newObserver.2 (fun j => j == c.serial || lv j) w' → WP (k (g.up c.serial)) w' Q) :
    WP (g.sc.newObserver nf ef cf k) w Q := by
  have hr := h.rep
  simp only [Sctl.newObserver, sc_serial, sc_map]
  refine wp_cellRead (by exact hr.held) ?_
  rw [hr.serial]
  simp only [Option.getD_some, toNat_int, hnf, hef, hcf]
  refine wp_cellWrite (by exact hr.held) ?_
  apply wp_obsNew
  refine wp_cellRead (by exact hr.held) ?_
  have e1 : ((w.cells.set g.cs (Data.int ((c.serial : Int) + 1)))[g.cm]?).getD .unit
      = mapD g c.registered.reverse := by
    rw [set_get_other _ ok.sm, hr.map]; rfl
  simp only [e1]
  have e2 : w.obs.length = g.up c.serial := hr.obsLen
  rw [e2, amapInsert_mapD g _ _ (fun i hi => by have := h.regLt i (by simpa using hi); omega)]
  refine wp_cellWrite (by exact hr.held) ?_
  have hrel : Rel g c.newObserver.2 (fun j => j == c.serial || lv j)
      { w with
        obs := w.obs ++ [xU g c.serial true]
        cells := ((w.cells.set g.cs (.int ((c.serial : Int) + 1))).set g.cm
          (mapD g (c.registered.reverse ++ [c.serial]))) } := by
    refine ⟨?_, ?_, ?_, ?_⟩
    · have := hr.newObs ok
      simpa [Ctl.newObserver, xU] using this
    · intro i hi
      have hlt : i < c.serial := h.canLt i hi
      have : (i == c.serial) = false := by simp; omega
      simp [this, h.dead i hi]
    · intro i hi
      simp only [Ctl.newObserver, List.mem_cons] at hi
      show i < c.serial + 1
      rcases hi with rfl | hi
      · omega
      · have := h.regLt i hi; omega
    · intro i hi
      show i < c.serial + 1
      have := h.canLt i hi; omega
  have hrep := hrel.rep
  have ha' : c.newObserver.2.alive = true := ha
  rw [ha'] at hrep
  refine rep_isSubR hrep ?_
  simp only [↓reduceIte]
  exact hk _ hrel

/-- `new_observer` called when the subscriber has ALREADY ended (no recovery operator over a passive subscriber
    ever does that — every call site above carries `c.alive = true` — so the pure mirror `Ctl.newObserver` has no
    such case): the re-check at the end of `new_observer` takes the registration back and unsubscribes the new
    observer, so that `Obsv.sub` will not start the source on it.  Serial consumed, map unchanged. -/
theorem newObserver_dead_rep (ok : g.Ok) (hl : ∀ i ∈ reg, i < n) (h : Rep g false lv n reg [] cv out w)
    {nf : Nat → Data → Prog} {ef : Nat → Nat → Prog} {cf : Nat → Prog} {k : Nat → Prog} {Q : World → Prop}
    (hnf : nf n = g.hn n) (hef : ef n = g.he n) (hcf : cf n = g.hc n)
    (hk : ∀ w', Rep g false (fun j => j != n && (j == n || lv j)) (n + 1) reg [] cv out w' →
      WP (k (g.up n)) w' Q) :
    WP (g.sc.newObserver nf ef cf k) w Q := by
  simp only [Sctl.newObserver, sc_serial, sc_map, sc_sub]
  refine wp_cellRead (by exact h.held) ?_
  rw [h.serial]
  simp only [Option.getD_some, toNat_int, hnf, hef, hcf]
  refine wp_cellWrite (by exact h.held) ?_
  apply wp_obsNew
  refine wp_cellRead (by exact h.held) ?_
  have e1 : ((w.cells.set g.cs (Data.int ((n : Int) + 1)))[g.cm]?).getD .unit = mapD g reg := by
    rw [set_get_other _ ok.sm, h.map]; rfl
  simp only [e1]
  have e2 : w.obs.length = g.up n := h.obsLen
  rw [e2, amapInsert_mapD g _ _ (fun i hi => by have := hl i hi; omega)]
  refine wp_cellWrite (by exact h.held) ?_
  have h1 : Rep g false (fun j => j == n || lv j) (n + 1) (reg ++ [n]) [] cv out
      { w with
        obs := w.obs ++ [xU g n true]
        cells := ((w.cells.set g.cs (.int ((n : Int) + 1))).set g.cm (mapD g (reg ++ [n]))) } := h.newObs ok
  refine rep_isSubR (by simpa [xU] using h1) ?_
  simp only [Bool.false_eq_true, ↓reduceIte]
  refine rep_readMap (by simpa [xU] using h1) (Or.inr rfl) ?_
  have e3 : (reg ++ [n]).filter (· != n) = reg := by
    rw [List.filter_append, List.filter_eq_self.2 (fun i hi => by have := hl i hi; simp; omega)]
    simp
  rw [amapRemove_mapD, e3]
  refine rep_writeMap ok (by simpa [xU] using h1) (Or.inr rfl) ?_
  intro w2 h2
  exact rep_unsubU h2 (Nat.lt_succ_self n) hk

end macros
end Rx.RetryRef

#print axioms Rx.RetryRef.finalize_spec
#print axioms Rx.RetryRef.sinkComplete_spec
#print axioms Rx.RetryRef.abortObserve_spec
#print axioms Rx.RetryRef.newObserver_spec
#print axioms Rx.RetryRef.newObserver_dead_rep
