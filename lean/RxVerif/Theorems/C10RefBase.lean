import RxVerif.Theorems.SimBase
import RxVerif.Kernel.SubjM
/-
C10-REF, part 1: world-generic weakest-precondition rules for the primitives the Subject macros of
`Machine/Core.lean` / `Machine/Subjects.lean` execute (one rule per primitive = one interpreter step), and
the encoding of `SubjM.State.observers` as the association list stored in the `observers` cell.
-/
namespace Rx.Ref
open Rx.Sim

/-! ### one interpreter step -/

theorem wp_step {p : Prog} {w : World} {Q : World → Prop} (k : Prog) (w1 : World)
    (hstep : ∀ fuel st, run (fuel + 1) (p :: st) w = run fuel (k :: st) w1) (hk : WP k w1 Q) : WP p w Q := by
  obtain ⟨n, w', hQ, hr⟩ := hk
  refine ⟨n + 1, w', hQ, fun fuel st => ?_⟩
  rw [show fuel + (n + 1) = (fuel + n) + 1 by omega, hstep, hr]

/-- a step that calls a closure `f` and leaves `k` below it -/
theorem wp_step2 {p : Prog} {w : World} {Q : World → Prop} (f k : Prog) (w1 : World)
    (hstep : ∀ fuel st, run (fuel + 1) (p :: st) w = run fuel (f :: k :: st) w1)
    (hk : WP f w1 fun w2 => WP k w2 Q) : WP p w Q := by
  obtain ⟨n, w', hQ, hr⟩ := WP.call hk
  refine ⟨n + 1, w', hQ, fun fuel st => ?_⟩
  rw [show fuel + (n + 1) = (fuel + n) + 1 by omega, hstep, hr]

/-- for enough fuel the whole program, run on its own, ends in a `Q`-world -/
theorem WP.run_top {p : Prog} {w : World} {Q : World → Prop} (h : WP p w Q) :
    ∃ n0 w', Q w' ∧ ∀ fuel, n0 ≤ fuel → run fuel [p] w = w' := by
  obtain ⟨n, w', hQ, hr⟩ := h
  refine ⟨n + 1, w', hQ, fun fuel hf => ?_⟩
  obtain ⟨m, rfl⟩ : ∃ m, fuel = (m + 1) + n := ⟨fuel - n - 1, by omega⟩
  rw [hr (m + 1) []]; rfl

theorem noconf_of_held_nil {w : World} (h : w.held = []) (l : LockId) (wr : Bool) : w.conflicts l wr = false := by
  simp [World.conflicts, h]

section prims
variable {w : World} {Q : World → Prop}

theorem wp_cellNew {d : Data} {k : Nat → Prog}
    (hk : WP (k w.cells.length) { w with cells := w.cells ++ [d] } Q) : WP (.cellNew d k) w Q :=
  wp_step _ _ (fun _ _ => by simp only [run]) hk

theorem wp_slotNew {k : Nat → Prog}
    (hk : WP (k w.slots.length) { w with slots := w.slots ++ [none] } Q) : WP (.slotNew k) w Q :=
  wp_step _ _ (fun _ _ => by simp only [run]) hk

theorem wp_obsvNew {f : Nat → Prog} {k : Nat → Prog}
    (hk : WP (k w.obsvs.length) { w with obsvs := w.obsvs ++ [f] } Q) : WP (.obsvNew f k) w Q :=
  wp_step _ _ (fun _ _ => by simp only [run]) hk

theorem wp_cellRead {c : Nat} {k : Data → Prog} (hh : w.held = [])
    (hk : WP (k (w.cells[c]?.getD .unit)) w Q) : WP (.cellRead c false k) w Q :=
  wp_step _ _ (fun _ _ => by simp only [run, noconf_of_held_nil hh, Bool.and_false]; rfl) hk

theorem wp_cellWrite {c : Nat} {d : Data} {k : Prog} (hh : w.held = [])
    (hk : WP k { w with cells := w.cells.set c d } Q) : WP (.cellWrite c false d k) w Q :=
  wp_step _ _ (fun _ _ => by simp only [run, noconf_of_held_nil hh, Bool.and_false]; rfl) hk

theorem wp_obsIsSub {o : Nat} {x : Obs} {k : Bool → Prog} (ho : w.obs[o]? = some x)
    (hk : WP (k x.isSub) w Q) : WP (.obsIsSub o k) w Q :=
  wp_step _ _ (fun _ _ => by simp only [run, ho]) hk

theorem wp_obsSetOnUnsub {o : Nat} {f k : Prog} (hh : w.held = [])
    (hk : WP k (w.setObs o fun x => { x with onUnsub := some f }) Q) : WP (.obsSetOnUnsub o f k) w Q :=
  wp_step _ _ (fun _ _ => by simp only [run, noconf_of_held_nil hh]; rfl) hk

theorem World.held_restore (w : World) (h : w.held = []) (p : LockId × Bool) :
    ({ w with held := p :: w.held } : World).release p.1 = w := by
  cases w; simp_all [World.release]

/-- `lock; slot.call(d); unlock` on a slot that holds no closure (plain subjects never install
    `on_subscribe` / `on_unsubscribe`) -/
theorem wp_lockedSlotCall_none {s : Nat} {d : Data} {k : Prog} (hh : w.held = [])
    (hs : w.slots[s]? = some none) (hk : WP k w Q) :
    WP (.lockAcq (.slot s) false <| .slotCall s d false <| .lockRel (.slot s) k) w Q := by
  refine wp_step _ { w with held := (.slot s, false) :: w.held }
    (fun _ _ => by simp only [run, noconf_of_held_nil hh]; rfl) ?_
  refine wp_step _ { w with held := (.slot s, false) :: w.held }
    (fun _ _ => by simp only [run]; rw [show ({ w with held := (LockId.slot s, false) :: w.held } : World).slots[s]? = some none from hs]) ?_
  refine wp_step _ w (fun _ _ => by simp only [run]; rw [World.held_restore w hh (.slot s, false)]) hk

theorem wp_userSub {id : Nat} {react : Nat → Nat → Ev → Prog} {k : Prog} {f : Nat → Prog}
    (hf : w.obsvs[id]? = some f)
    (hk : WP (f w.obs.length)
      { w with
        obs := w.obs ++ [⟨some (.user w.users.length), some (.user w.users.length), some (.user w.users.length), none⟩]
        users := w.users ++ [⟨w.obs.length, react, false, true⟩] }
      fun w2 => WP (.userReady w.users.length k) w2 Q) : WP (.userSub id react k) w Q :=
  wp_step2 _ _ _ (fun _ _ => by simp only [run, hf]) hk

theorem wp_userReady {s : Nat} {k : Prog}
    (hk : WP k (w.setUser s fun u => { u with ready := true }) Q) : WP (.userReady s k) w Q :=
  wp_step _ _ (fun _ _ => by simp only [run]) hk

theorem wp_userUnsub_none {s : Nat} {k : Prog} (hu : w.users[s]? = none) (hk : WP k w Q) :
    WP (.userUnsub s k) w Q :=
  wp_step _ _ (fun _ _ => by simp only [run, hu]) hk

theorem wp_userUnsub_spent {s : Nat} {k : Prog} {u : User} (hu : w.users[s]? = some u)
    (ha : (u.ready && u.armed) = false) (hk : WP k w Q) : WP (.userUnsub s k) w Q :=
  wp_step _ _ (fun _ _ => by simp only [run, hu, ha]; rfl) hk

theorem wp_userUnsub_armed {s : Nat} {k : Prog} {u : User} (hu : w.users[s]? = some u)
    (ha : (u.ready && u.armed) = true)
    (hk : WP (.obsUnsub u.obs k) (w.setUser s fun u => { u with armed := false }) Q) : WP (.userUnsub s k) w Q :=
  wp_step _ _ (fun _ _ => by simp only [run, hu, ha]; rfl) hk

theorem wp_obsUnsub_some {o : Nat} {k f : Prog} {x : Obs} (ho : w.obs[o]? = some x) (hf : x.onUnsub = some f)
    (hk : WP f (w.setObs o fun x => { x.cleared with onUnsub := none }) fun w2 => WP k w2 Q) :
    WP (.obsUnsub o k) w Q :=
  wp_step2 _ _ _ (fun _ _ => by simp only [run, ho, hf]) hk

theorem wp_obsUnsub_none {o : Nat} {k : Prog} {x : Obs} (ho : w.obs[o]? = some x) (hf : x.onUnsub = none)
    (hk : WP k (w.setObs o fun x => { x.cleared with onUnsub := none }) Q) :
    WP (.obsUnsub o k) w Q :=
  wp_step _ _ (fun _ _ => by simp only [run, ho, hf]) hk

/-! deliveries: the observer does not exist / its `fn_next` is gone / it is a recording test subscriber -/

def evProg (ev : Ev) (o : Nat) (k : Prog) : Prog :=
  match ev with
  | .next d => .obsNext o d k
  | .error e => .obsError o e k
  | .complete => .obsComplete o k

theorem wp_ev_absent {ev : Ev} {o : Nat} {k : Prog} (ho : w.obs[o]? = none) (hk : WP k w Q) :
    WP (evProg ev o k) w Q := by
  cases ev <;> exact wp_step _ _ (fun _ _ => by simp only [evProg, run, ho]) hk

theorem wp_ev_dead {ev : Ev} {o : Nat} {k : Prog} {x : Obs} (ho : w.obs[o]? = some x) (hx : x.next = none)
    (hk : WP k w Q) : WP (evProg ev o k) w Q := by
  cases ev <;> exact wp_step _ _ (fun _ _ => by simp only [evProg, run, ho, hx]) hk

/-- what a delivery does to the world when the observer holds the callbacks of test subscriber `s` -/
def _root_.Rx.World.deliverTo (w : World) (o s : Nat) (ev : Ev) : World :=
  if ev.isTerminal then (w.setObs o Obs.cleared).emit (.ev s ev) else w.emit (.ev s ev)

theorem wp_ev_user {ev : Ev} {o s : Nat} {k : Prog} {x : Obs} {u : User} (ho : w.obs[o]? = some x)
    (hn : x.next = some (.user s)) (he : x.error = some (.user s)) (hc : x.complete = some (.user s))
    (hu : w.users[s]? = some u) (hr : u.react = fun _ _ _ => .done)
    (hk : WP k (w.deliverTo o s ev) Q) : WP (evProg ev o k) w Q := by
  cases ev with
  | next d =>
    refine wp_step2 .done k (w.deliverTo o s (.next d))
      (fun _ _ => by simp only [evProg, run, ho, hn, hu, hr]; rfl) (WP.done ?_)
    exact hk
  | error e =>
    refine wp_step2 .done k (w.deliverTo o s (.error e))
      (fun _ _ => by simp only [evProg, run, ho, hn, he, hu, hr]; rfl) (WP.done ?_)
    exact hk
  | complete =>
    refine wp_step2 .done k (w.deliverTo o s .complete)
      (fun _ _ => by simp only [evProg, run, ho, hn, hc, hu, hr]; rfl) (WP.done ?_)
    exact hk

theorem wp_obsNew {nx : Data → Prog} {e : Nat → Prog} {c : Prog} {k : Nat → Prog}
    (hk : WP (k w.obs.length)
      { w with obs := w.obs ++ [⟨some (.code nx), some (.code e), some (.code c), none⟩] } Q) :
    WP (.obsNew nx e c k) w Q :=
  wp_step _ _ (fun _ _ => by simp only [run]) hk

/-- the callback a code observer runs for an event -/
def codeBody (ev : Ev) (fn : Data → Prog) (fe : Nat → Prog) (fc : Prog) : Prog :=
  match ev with
  | .next d => fn d
  | .error e => fe e
  | .complete => fc

/-- a delivery into an observer made by `Observer::new` (library code): a terminal takes the callbacks first -/
theorem wp_ev_code {ev : Ev} {o : Nat} {k : Prog} {x : Obs} {fn : Data → Prog} {fe : Nat → Prog} {fc : Prog}
    (ho : w.obs[o]? = some x) (hn : x.next = some (.code fn)) (he : x.error = some (.code fe))
    (hc : x.complete = some (.code fc))
    (hk : WP (codeBody ev fn fe fc) (if ev.isTerminal then w.setObs o Obs.cleared else w) fun w2 => WP k w2 Q) :
    WP (evProg ev o k) w Q := by
  cases ev with
  | next d => exact wp_step2 _ _ _ (fun _ _ => by simp only [evProg, run, ho, hn]; rfl) hk
  | error e => exact wp_step2 _ _ _ (fun _ _ => by simp only [evProg, run, ho, hn, he]; rfl) hk
  | complete => exact wp_step2 _ _ _ (fun _ _ => by simp only [evProg, run, ho, hn, hc]; rfl) hk

/-- what `Subscription::is_subscribed` of test subscriber `s` returns (the harness' `S=` column) -/
def _root_.Rx.World.isSubOf (w : World) (s : Nat) : Bool :=
  match w.users[s]? with
  | some u => (w.obs[u.obs]?.map Obs.isSub).getD false
  | none => false

theorem wp_userIsSub {s : Nat} {k : Bool → Prog} (hk : WP (k (w.isSubOf s)) w Q) : WP (.userIsSub s k) w Q := by
  refine wp_step _ _ (fun _ _ => ?_) hk
  simp only [run, World.isSubOf]
  cases hu : w.users[s]? with
  | none => rfl
  | some u =>
    simp only []
    cases ho : w.obs[u.obs]? <;> simp

end prims

/-! ### the `observers` map as stored in its cell -/

def encPair (p : Nat × Nat) : Data := .pair (.int p.1) (.int p.2)
def encMap (l : List (Nat × Nat)) : Data := Data.ofList (l.map encPair)

theorem amapVals_encMap (l : List (Nat × Nat)) : amapVals (encMap l) = l.map fun p => .int p.2 := by
  simp [amapVals, encMap, encPair, List.map_map, Function.comp_def]

theorem amapLen_encMap (l : List (Nat × Nat)) : amapLen (encMap l) = l.length := by
  simp [amapLen, encMap]

theorem amapRemove_encMap (l : List (Nat × Nat)) (s : Nat) :
    amapRemove (encMap l) (s : Int) = encMap (l.filter fun p => p.1 != s) := by
  simp only [amapRemove, encMap, Data.toList_ofList, List.filter_map]
  congr 2
  apply List.filter_congr
  intro p _
  simp only [encPair, Function.comp_def, bne]
  congr 1
  exact Bool.eq_iff_iff.2 (by simp only [beq_iff_eq]; omega)

theorem amapInsert_encMap (l : List (Nat × Nat)) (s o : Nat) (hs : ∀ p ∈ l, p.1 ≠ s) :
    amapInsert (encMap l) (s : Int) (.int o) = encMap (l ++ [(s, o)]) := by
  unfold amapInsert
  simp only [encMap, Data.toList_ofList]
  split
  · rename_i h
    rw [List.any_eq_true] at h
    obtain ⟨p, hp, hk⟩ := h
    obtain ⟨q, hq, rfl⟩ := List.mem_map.1 hp
    simp only [encPair, beq_iff_eq] at hk
    have := hs q hq
    omega
  · simp [encPair]

theorem toNat_int (o : Nat) : (Data.int (o : Int)).toInt.toNat = o := by simp [Data.toInt]

end Rx.Ref
