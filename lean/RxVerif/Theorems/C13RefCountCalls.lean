import RxVerif.Theorems.C13RefCountHooks
/-
C13-REF, ref_count: `subscribe` / `unsubscribe` of a test user (the hooks run inside), the whole program, the
end-to-end theorem.
-/
namespace Rx.CRef
open Rx.Sim Rx.SubjM Rx.Ref Rx.RefR

theorem stepC_subscribe (st : ConnM.State) (n : Nat) (hu : (st.sub.obs n).seen = false) :
    ConnM.step .refCount .hot st (.subscribe n) =
      ConnM.onSubscribe .refCount .hot
        { st with sub := { st.sub with serial := st.sub.serial + 1
                                       observers := st.sub.observers ++ [(st.sub.serial + 1, n)]
                                       obs := upd st.sub.obs n (freshRec st.sub.serial) } }
        (some (st.sub.observers.length + 1)) := by
  simp [ConnM.step, ConnM.Kind.counts, ConnM.Kind.subj, subscribeA, hu, subscribeB, Kind.isReplay, subscribeH,
    ConnM.onUnsubscribe, register, freshRec]

theorem release_single (w : World) (l : LockId) (b : Bool) (h : w.held = [(l, b)]) :
    w.release l = { w with held := [] } := by
  cases w; simp_all [World.release]

theorem RelC'.ready {roots cobs armed n w st} (h : RelC' roots cobs armed (some n) [] w st) :
    RelC' roots cobs armed none [] (w.setUser n fun u => { u with ready := true }) st := by
  obtain ⟨g, U, X⟩ := h.ur
  have g' : Glob roots cobs (w.setUser n fun u => { u with ready := true }) :=
    ⟨g.status, g.nObs, g.rootsLt, g.cobsLt, g.nodup⟩
  exact ⟨g', h.held, ⟨g', U.ready, { X with }⟩, h.conns.frame rfl rfl (fun _ _ => rfl) (fun _ _ => rfl)⟩

theorem subscribeC_spec {roots cobs armed w st} (h : RelC' roots cobs armed none [] w st) :
    WP (.userSub 1 noReact .done) w (fun w' => ∃ cobs' armed',
      RelC' (roots ++ [w.obs.length]) cobs' armed' none [] w'
        (ConnM.step .refCount .hot st (.subscribe roots.length))) := by
  obtain ⟨g, U, X⟩ := h.ur
  have hu : (st.sub.obs roots.length).seen = false := (View.eq (U.unseen _ (Nat.le_refl _))).1
  rw [stepC_subscribe _ _ hu]
  refine userSub_pre X.obsvS h.held U ?_
  unfold slotTail
  have hheld0 : (subUserWorld Sp w roots st.sub.observers st.sub.serial).held = [] := X.held
  refine wp_lockedSlotCall_someG (SlotReads.of_nil hheld0) (show _ = some (some _) from X.slot2) ?_
  -- the relation inside the hook: the new user is registered but its `subscribe` has not returned
  have g1 := subUser_glob (S := Sp) g st.sub.observers st.sub.serial
  have U1 := subUser_users g U
  have hmid0 : RelC' (roots ++ [w.obs.length]) cobs armed (some roots.length) []
      (subUserWorld Sp w roots st.sub.observers st.sub.serial)
      { st with sub := { st.sub with serial := st.sub.serial + 1
                                     observers := st.sub.observers ++ [(st.sub.serial + 1, roots.length)]
                                     obs := upd st.sub.obs roots.length (freshRec st.sub.serial) } } := by
    refine ⟨g1, SlotReads.of_nil hheld0, ⟨g1, U1, ?_⟩, ?_⟩
    · exact
        { X with
          cellG := by rw [subUser_cells Sp w roots _ _ (by decide) (by decide)]; exact X.cellG
          cellB := by rw [subUser_cells Sp w roots _ _ (by decide) (by decide)]; exact X.cellB
          cellN := by rw [subUser_cells Sp w roots _ _ (by decide) (by decide)]; exact X.cellN
          nCells := by rw [subUser_cellsLen]; exact X.nCells }
    · refine h.conns.frame ?_ ?_ ?_ ?_
      · exact subUser_cells Sp w roots st.sub.observers st.sub.serial (by decide) (by decide)
      · exact subUser_cells Sp w roots st.sub.observers st.sub.serial (by decide) (by decide)
      · intro i hi
        exact subUser_obs_lt Sp w roots st.sub.observers st.sub.serial
          (g.cobsLt _ (rootAt_mem (h.conns.lenC ▸ hi)))
      · intro i hi
        exact subUser_cells Sp w roots st.sub.observers st.sub.serial (by simp [acellC, Sp]; omega)
          (by simp [acellC, Sp]; omega)
  have hmid := hmid0.held_swap (Hd' := [(LockId.slot 2, false)])
    (w' := { subUserWorld Sp w roots st.sub.observers st.sub.serial with
      held := (LockId.slot Sp.onSub, false) :: (subUserWorld Sp w roots st.sub.observers st.sub.serial).held })
    (by rw [hheld0]; rfl) (SlotReads.nil.cons 2)
  refine (onSubHook_spec hmid (st.sub.observers.length + 1)).conseq ?_
  rintro w2 ⟨cobs', armed', h2⟩
  refine wp_lockRel (WP.done ?_)
  have hrel : w2.release (LockId.slot Sp.onSub) = { w2 with held := [] } :=
    release_single w2 _ false h2.ur.2.2.held
  rw [hrel, U.nUsers]
  refine wp_userReady (WP.done ⟨cobs', armed', ?_⟩)
  exact (h2.held_swap rfl SlotReads.nil).ready

theorem stepC_unsubscribe (st : ConnM.State) (u : Nat) :
    ConnM.step .refCount .hot st (.unsubscribe u) =
      ConnM.onUnsubscribe { st with sub := (unsubscribeN .plain st.sub u).1 } (unsubscribeN .plain st.sub u).2 := rfl

theorem unsub_snd_live (s : SubjM.State) (u s0 : Nat) (hs : (s.obs u).seen = true) (hk : (s.obs u).hook = true)
    (hin : (s.obs u).inHook = some s0) :
    (unsubscribeN .plain s u).2 = some (s.observers.filter fun p => p.1 != s0).length := by
  simp [unsubscribeN, hs, hk, hin, Kind.isPlain]

theorem unsub_snd_noop (s : SubjM.State) (u : Nat) (hk : (s.obs u).hook = false) :
    (unsubscribeN .plain s u).2 = none := by
  unfold unsubscribeN; split <;> simp [hk]

theorem onUnsubscribe_none (st : ConnM.State) : ConnM.onUnsubscribe st none = st := by
  simp [ConnM.onUnsubscribe]

theorem unsubscribeC_spec {roots cobs armed w st} (h : RelC' roots cobs armed none [] w st) (u : Nat) :
    WP (.userUnsub u .done) w (fun w' => ∃ armed',
      RelC' roots cobs armed' none [] w' (ConnM.step .refCount .hot st (.unsubscribe u))) := by
  obtain ⟨g, U, X⟩ := h.ur
  rw [stepC_unsubscribe]
  by_cases hlive : u < roots.length ∧ (st.sub.obs u).hook = true
  · obtain ⟨hu, hk⟩ := hlive
    obtain ⟨s0, hin⟩ : ∃ s0, (st.sub.obs u).inHook = some s0 := by
      have := U.hookIff u; rw [hk] at this
      cases hi : (st.sub.obs u).inHook with
      | none => rw [hi] at this; simp at this
      | some s0 => exact ⟨s0, rfl⟩
    rw [unsub_snd_live _ _ _ (U.seen u hu) hk hin]
    refine userUnsub_pre h.held U hu hk hin ?_
    unfold slotTail
    have hheld0 : (unsubUserWorld Sp w roots u st.sub.observers s0).held = [] := X.held
    refine wp_lockedSlotCall_someG (SlotReads.of_nil hheld0) (show _ = some (some _) from X.slot3) ?_
    have g1 := unsubUser_glob (S := Sp) g u st.sub.observers s0
    have U1 := plainUnsub_live (U.seen u hu) hk hin (unsubUser_users (s := s0) g U hu)
    have hmid0 : RelC' roots cobs armed none [] (unsubUserWorld Sp w roots u st.sub.observers s0)
        { st with sub := (unsubscribeN .plain st.sub u).1 } := by
      refine ⟨g1, SlotReads.of_nil hheld0, ⟨g1, U1, ?_⟩, ?_⟩
      · exact
          { X with
            cellG := by rw [unsubUser_cells Sp w roots u _ s0 (by decide)]; exact X.cellG
            cellB := by rw [unsubUser_cells Sp w roots u _ s0 (by decide)]; exact X.cellB
            cellN := by rw [unsubUser_cells Sp w roots u _ s0 (by decide)]; exact X.cellN
            nCells := by rw [unsubUser_cellsLen]; exact X.nCells }
      · refine h.conns.frame ?_ ?_ ?_ ?_
        · exact unsubUser_cells Sp w roots u st.sub.observers s0 (by decide)
        · exact unsubUser_cells Sp w roots u st.sub.observers s0 (by decide)
        · intro i hi
          exact unsubUser_obs_other Sp w roots u st.sub.observers s0
            (fun e => g.root_ne_cob hu (h.conns.lenC ▸ hi) e.symm)
        · intro i hi
          exact unsubUser_cells Sp w roots u st.sub.observers s0 (by simp [acellC, Sp]; omega)
    have hmid := hmid0.held_swap (Hd' := [(LockId.slot 3, false)])
      (w' := { unsubUserWorld Sp w roots u st.sub.observers s0 with
        held := (LockId.slot Sp.onUnsub, false) :: (unsubUserWorld Sp w roots u st.sub.observers s0).held })
      (by rw [hheld0]; rfl) (SlotReads.nil.cons 3)
    refine (onUnsubHook_spec hmid _).conseq ?_
    rintro w2 ⟨armed', h2⟩
    refine wp_lockRel (WP.done (WP.done ⟨armed', ?_⟩))
    have hrel : w2.release (LockId.slot Sp.onUnsub) = { w2 with held := [] } :=
      release_single w2 _ false h2.ur.2.2.held
    rw [hrel]
    exact h2.held_swap rfl SlotReads.nil
  · have hk : u < roots.length → (st.sub.obs u).hook = false := by
      intro hu
      cases hk : (st.sub.obs u).hook with
      | false => rfl
      | true => exact absurd ⟨hu, hk⟩ hlive
    have hk' : (st.sub.obs u).hook = false := by
      rcases Nat.lt_or_ge u roots.length with hlt | hge
      · exact hk hlt
      · exact (View.eq (U.unseen u hge)).2.2.2.1
    rw [unsub_snd_noop _ _ hk', onUnsubscribe_none]
    refine userUnsub_noop U u hk ⟨armed, ?_⟩
    exact ⟨h.glob, h.held, ⟨g, plainUnsub_noop U u hk, X⟩, h.conns⟩

/-! ### the whole program -/

/-- the calls of a `ref_count` case over a hot subject (`connect` / `disconnect` do not exist for it: no-ops) -/
def callCG (H : Subj) (sid : Nat) : ConnM.Call → Prog
  | .subscribe _ => .userSub sid noReact .done
  | .unsubscribe o => .userUnsub o .done
  | .connect => .done
  | .disconnect => .done
  | .srcNext v => H.next v
  | .srcError e => H.error e
  | .srcComplete => H.complete

/-- `(subject a plain) (conn x ref_count (ref a))` then the calls (Machine/Case.lean `stepProg`) -/
def progRC (cs : List ConnM.Call) : Prog :=
  subjNew fun H => .obsvNew H.observable fun hid => subjNew fun S =>
  .cellNew (.bool false) fun c => .cellNew .lnil fun sb => .cellNew (.bool false) fun cn =>
  .obsvNew S.observable fun sid =>
  refCountHooks ⟨c, sb, cn⟩ (fun o => .obsvSub hid o .done) S.onSub S.onUnsub
    (fun x => S.next x) (fun e => S.error e) S.complete ;;
  forEach cs (callCG H sid)

theorem callC_spec {roots cobs armed w st} (h : RelC' roots cobs armed none [] w st) (c : ConnM.Call)
    (hc : wfC roots.length [c] = true) :
    WP (callCG Hp 1 c) w (fun w' => ∃ roots' cobs' armed',
      roots'.length = roots.length + subsC [c] ∧
      RelC' roots' cobs' armed' none [] w' (ConnM.step .refCount .hot st c)) := by
  cases c with
  | subscribe o =>
    have : o = roots.length := by simpa [wfC] using hc
    subst this
    refine (subscribeC_spec h).conseq ?_
    rintro w' ⟨c', a', h'⟩
    exact ⟨_, c', a', by simp [subsC, isSubC, List.filter], h'⟩
  | unsubscribe o =>
    refine (unsubscribeC_spec h o).conseq ?_
    rintro w' ⟨a', h'⟩
    exact ⟨_, _, a', rfl, h'⟩
  | connect => exact WP.done ⟨_, _, _, rfl, h⟩
  | disconnect => exact WP.done ⟨_, _, _, rfl, h⟩
  | srcNext v => exact (srcC_spec h (.next v)).conseq fun w' h' => ⟨_, _, _, rfl, h'⟩
  | srcError e => exact (srcC_spec h (.error e)).conseq fun w' h' => ⟨_, _, _, rfl, h'⟩
  | srcComplete => exact (srcC_spec h .complete).conseq fun w' h' => ⟨_, _, _, rfl, h'⟩

theorem callsC_spec (cs : List ConnM.Call) : ∀ (roots cobs : List Nat) (armed : List Bool) (w : World)
    (st : ConnM.State), RelC' roots cobs armed none [] w st → wfC roots.length cs = true →
    WP (forEach cs (callCG Hp 1)) w (fun w' => ∃ roots' cobs' armed',
      roots'.length = roots.length + subsC cs ∧
      RelC' roots' cobs' armed' none [] w' (ConnM.runFrom .refCount .hot st cs)) := by
  induction cs with
  | nil => intro roots cobs armed w st h _; exact WP.done ⟨_, _, _, rfl, h⟩
  | cons c rest ih =>
    intro roots cobs armed w st h hwf
    rw [wfC_cons, Bool.and_eq_true] at hwf
    simp only [forEach]
    apply WP.seq
    refine (callC_spec h c hwf.1).conseq ?_
    rintro w1 ⟨r1, c1, a1, hl1, h1⟩
    refine (ih r1 c1 a1 w1 _ h1 (by rw [hl1]; exact hwf.2)).conseq ?_
    rintro w2 ⟨r2, c2, a2, hl2, h2⟩
    exact ⟨r2, c2, a2, by rw [hl2, hl1, subsC_cons c rest, Nat.add_assoc], h2⟩

/-- the world after the allocations and the two `slotSet`s of `progRC` -/
def w0C : World :=
  { cells := [.lnil, .int 0, .lnil, .int 0, .bool false, .lnil, .bool false]
    slots := [none, none, some (onSubHook rcC srcC fnP feP fcP), some (onUnsubHook rcC)]
    obsvs := [Hp.observable, Sp.observable] }

theorem relC_init : RelC' [] [] [] none [] w0C ConnM.init := by
  have g : Glob [] [] w0C := ⟨rfl, rfl, (fun _ h => by cases h), (fun _ h => by cases h), (by simp)⟩
  refine ⟨g, SlotReads.nil, ⟨g, ?_, ?_⟩, ?_⟩
  · exact
      { ne := by decide, cellO := rfl, cellS := rfl, nUsers := rfl
        user := fun u hu => by simp at hu
        obs := fun u hu => by simp at hu
        seen := fun u hu => by simp at hu
        unseen := fun _ _ => rfl
        hookIff := fun _ => rfl
        deadNoHook := fun _ _ => rfl
        log := fun _ => rfl
        keys := fun p hp => by cases hp
        regBound := fun p hp => by cases hp }
  · exact ⟨rfl, rfl, rfl, rfl, rfl, rfl, rfl, rfl, rfl, rfl, fun i hi => by cases hi⟩
  · exact
      { ne := by decide, cellO := rfl, cellS := rfl, lenC := rfl, lenA := rfl, obsv := rfl
        obs := fun i hi => by simp [ConnM.init] at hi
        acell := fun i hi => by simp [ConnM.init] at hi
        liveArmed := fun i hi => by simp [ConnM.init] at hi }

theorem progRC_spec (cs : List ConnM.Call) (hwf : wfC 0 cs = true) :
    WP (progRC cs) {} (fun w' => ∃ roots cobs armed,
      RelC' roots cobs armed none [] w' (ConnM.run .refCount .hot cs)) := by
  unfold progRC subjNew
  refine wp_cellNew (wp_cellNew (wp_slotNew (wp_slotNew (wp_obsvNew
    (wp_cellNew (wp_cellNew (wp_slotNew (wp_slotNew (wp_cellNew (wp_cellNew (wp_cellNew (wp_obsvNew ?_))))))))))))
  unfold refCountHooks
  refine WP.seq ?_
  refine wp_slotSet rfl ?_
  refine wp_slotSet rfl ?_
  refine WP.done ?_
  refine (callsC_spec cs [] [] [] w0C _ relC_init hwf).conseq ?_
  rintro w' ⟨r, c, a, _, h⟩
  exact ⟨r, c, a, h⟩

def FinalC (cs : List ConnM.Call) (w : World) : Prop := ∃ n0, ∀ fuel, n0 ≤ fuel → run fuel [progRC cs] {} = w

theorem FinalC.unique {cs w w'} (h : FinalC cs w) (h' : FinalC cs w') : w = w' := by
  obtain ⟨a, ha⟩ := h
  obtain ⟨b, hb⟩ := h'
  rw [← ha (a + b) (by omega), ← hb (a + b) (by omega)]

theorem RelC'.agrees {roots cobs armed w st} (h : RelC' roots cobs armed none [] w st) : AgreesC w st := by
  obtain ⟨g, U, X⟩ := h.ur
  refine ⟨g.status, X.held, U.log, ?_, ?_, ?_, ?_⟩
  · have := h.conns.cellS; simp only [Hp] at this
    simp [srcSubsOf, this, Data.toInt, ConnM.sourceSubscriptions]
  · have := h.conns.cellO; simp only [Hp] at this
    simp only [srcLiveOf, this, Option.getD_some, amapLen_encMap, ConnM.sourceLive]
    exact liveFrom_isEmpty 0 cobs st.conns h.conns.lenC
  · have := U.cellO; simp only [Sp] at this
    simp [regCountOf, this, amapLen_encMap, registered, mapRoots]
  · intro u
    rcases Nat.lt_or_ge u roots.length with hlt | hge
    · obtain ⟨rd, h1, _⟩ := U.user u hlt
      simp only [World.isSubOf, h1, U.obs u hlt, aliveOf]
      cases ha : (st.sub.obs u).alive <;> simp [obsOf, Obs.isSub, ha]
    · have : w.users[u]? = none := by apply List.getElem?_eq_none; rw [U.nUsers]; exact hge
      simp only [World.isSubOf, this, aliveOf]
      exact (View.eq (U.unseen u hge)).2.1.symm

/-- **C13-REF, ref_count over a hot source.** -/
theorem refCount_refines (cs : List ConnM.Call) (hwf : wfC 0 cs = true) :
    ∃ w, FinalC cs w ∧ AgreesC w (ConnM.run .refCount .hot cs) := by
  obtain ⟨n0, w, ⟨r, c, a, hrel⟩, hrun⟩ := WP.run_top (progRC_spec cs hwf)
  exact ⟨w, ⟨n0, hrun⟩, hrel.agrees⟩

#print axioms refCount_refines

end Rx.CRef
