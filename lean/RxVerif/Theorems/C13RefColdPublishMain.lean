import RxVerif.Theorems.C13RefColdPublishCalls
/-
C13-REF, publish over a COLD source: call sequences, the whole program, the end-to-end theorem.
-/
namespace Rx.CRef
open Rx.Sim Rx.SubjM Rx.Ref Rx.RefR

/-- the calls of a `publish` case over a cold source; nothing can be pushed into a cold source from outside, so
    the three source calls are no-ops (as in `ConnM.step`) -/
def callPcG (hid : Nat) (S : Subj) (sid cn : Nat) : ConnM.Call → Prog
  | .subscribe _ => .userSub sid noReact .done
  | .unsubscribe o => .userUnsub o .done
  | .connect => connectProgG hid S cn
  | .disconnect => disconnectProgG cn
  | .srcNext _ => .done
  | .srcError _ => .done
  | .srcComplete => .done

/-- `(conn x publish (cold 0 ev…))` then the calls (the first Subject is never used, see C13RefColdPublish) -/
def progPc (script : List Ev) (cs : List ConnM.Call) : Prog :=
  subjNew fun _ => .obsvNew (coldSrc script) fun hid => subjNew fun S => .obsvNew S.observable fun sid =>
  .cellNew .lnil fun cn => forEach cs (callPcG hid S sid cn)

theorem callPc_spec {script roots cobs armed w st} (h : RelPc script roots cobs armed w st) (c : ConnM.Call)
    (hc : wfC roots.length [c] = true) :
    WP (callPcG 0 Sp 1 4 c) w (fun w' => ∃ roots' cobs' armed',
      roots'.length = roots.length + subsC [c] ∧
      RelPc script roots' cobs' armed' w' (ConnM.step .publish (.cold script) st c)) := by
  cases c with
  | subscribe o =>
    have : o = roots.length := by simpa [wfC] using hc
    subst this
    exact (subscribePc_spec h).conseq fun w' h' => ⟨_, _, _, by simp [subsC, isSubC, List.filter], h'⟩
  | unsubscribe o => exact (unsubscribePc_spec h o).conseq fun w' h' => ⟨_, _, _, rfl, h'⟩
  | connect => exact (connectPc_spec h).conseq fun w' h' => ⟨_, _, _, rfl, h'⟩
  | disconnect => exact (disconnectPc_spec h).conseq fun w' h' => ⟨_, _, _, rfl, h'⟩
  | srcNext v => exact WP.done ⟨_, _, _, rfl, h⟩
  | srcError e => exact WP.done ⟨_, _, _, rfl, h⟩
  | srcComplete => exact WP.done ⟨_, _, _, rfl, h⟩

theorem callsPc_spec {script} (cs : List ConnM.Call) : ∀ (roots cobs : List Nat) (armed : List Bool) (w : World)
    (st : ConnM.State), RelPc script roots cobs armed w st → wfC roots.length cs = true →
    WP (forEach cs (callPcG 0 Sp 1 4)) w (fun w' => ∃ roots' cobs' armed',
      roots'.length = roots.length + subsC cs ∧
      RelPc script roots' cobs' armed' w' (ConnM.runFrom .publish (.cold script) st cs)) := by
  induction cs with
  | nil => intro roots cobs armed w st h _; exact WP.done ⟨_, _, _, rfl, h⟩
  | cons c rest ih =>
    intro roots cobs armed w st h hwf
    rw [wfC_cons, Bool.and_eq_true] at hwf
    simp only [forEach]
    apply WP.seq
    refine (callPc_spec h c hwf.1).conseq ?_
    rintro w1 ⟨r1, c1, a1, hl1, h1⟩
    refine (ih r1 c1 a1 w1 _ h1 (by rw [hl1]; exact hwf.2)).conseq ?_
    rintro w2 ⟨r2, c2, a2, hl2, h2⟩
    exact ⟨r2, c2, a2, by rw [hl2, hl1, subsC_cons c rest, Nat.add_assoc], h2⟩

/-- the world after the allocations of `progPc` -/
def w0Pc (script : List Ev) : World :=
  { cells := [.lnil, .int 0, .lnil, .int 0, .lnil], slots := [none, none, none, none],
    obsvs := [coldSrc script, Sp.observable] }

theorem relPc_init (script : List Ev) : RelPc script [] [] [] (w0Pc script) ConnM.init := by
  have g : Glob [] [] (w0Pc script) :=
    ⟨rfl, rfl, (fun _ h => by cases h), (fun _ h => by cases h), (by simp)⟩
  refine ⟨⟨g, SlotReads.nil, ⟨g, ?_, ?_, rfl⟩, ?_⟩, rfl⟩
  · exact
      { ne := by decide, cellO := rfl, cellS := rfl, nUsers := rfl
        user := fun u hu => by simp at hu
        obs := fun u hu => by simp at hu
        seen := fun u hu => by simp at hu
        unseen := fun _ _ => rfl
        hookIff := fun _ => rfl
        deadNoHook := fun _ _ => rfl
        log := fun _ => rfl
        keys := fun p hp => by cases hp
        regBound := fun p hp => by cases hp }
  · exact ⟨rfl, fun i hi => by
      have : i = 0 ∨ i = 1 ∨ i = 2 ∨ i = 3 := by omega
      rcases this with rfl | rfl | rfl | rfl <;> rfl, rfl, rfl, rfl⟩
  · exact
      { lenC := rfl, lenA := ⟨Nat.le_refl _, Nat.le_succ _⟩
        obs := fun i hi => by simp [ConnM.init] at hi
        acell := fun i hi => by simp at hi
        liveArmed := fun i hi => by simp at hi
        probes := rfl }

theorem progPc_spec (script : List Ev) (cs : List ConnM.Call) (hwf : wfC 0 cs = true) :
    WP (progPc script cs) {} (fun w' => ∃ roots cobs armed,
      RelPc script roots cobs armed w' (ConnM.run .publish (.cold script) cs)) := by
  unfold progPc subjNew
  refine wp_cellNew (wp_cellNew (wp_slotNew (wp_slotNew (wp_obsvNew
    (wp_cellNew (wp_cellNew (wp_slotNew (wp_slotNew (wp_obsvNew (wp_cellNew ?_))))))))))
  refine (callsPc_spec cs [] [] [] (w0Pc script) _ (relPc_init script) hwf).conseq ?_
  rintro w' ⟨r, c, a, _, h⟩
  exact ⟨r, c, a, h⟩

def FinalPc (script : List Ev) (cs : List ConnM.Call) (w : World) : Prop :=
  ∃ n0, ∀ fuel, n0 ≤ fuel → run fuel [progPc script cs] {} = w

theorem FinalPc.unique {script cs w w'} (h : FinalPc script cs w) (h' : FinalPc script cs w') : w = w' := by
  obtain ⟨a, ha⟩ := h
  obtain ⟨b, hb⟩ := h'
  rw [← ha (a + b) (by omega), ← hb (a + b) (by omega)]

/-- `AgreesC` for a cold source: the source has no subscriber map; what the harness prints instead is read off
    the observers its probe recorded (`coldSubsOf`, `coldLiveOf`) -/
structure AgreesCold (w : World) (st : ConnM.State) : Prop where
  status : w.status = .ok
  held : w.held = []
  logs : ∀ u, logOf w u = ConnM.logOf st u
  srcSubs : coldSubsOf w = ConnM.sourceSubscriptions st
  srcLive : coldLiveOf w = ConnM.sourceLive st
  reg : regCountOf w = (registered st.sub).length
  alive : ∀ u, w.isSubOf u = aliveOf st.sub u

theorem ConnsPartC.live_eq {fn fe fc acell cobs w conns armed} (h : ConnsPartC fn fe fc acell cobs w conns armed) :
    coldLiveOf w = conns.any id := by
  unfold coldLiveOf
  rw [h.probes, Bool.eq_iff_iff, List.any_eq_true, List.any_eq_true]
  constructor
  · rintro ⟨o, ho, hp⟩
    obtain ⟨i, hi, rfl⟩ := List.getElem_of_mem ho
    have hic : i < conns.length := h.lenC ▸ hi
    have hr : rootAt cobs i = cobs[i] := by
      simp [rootAt, List.getD_eq_getElem?_getD, List.getElem?_eq_getElem hi]
    have := h.obs i hic
    rw [hr] at this
    rw [this] at hp
    simp only [Option.map_some, Option.getD_some, connObsC_isSub] at hp
    refine ⟨conns[i], List.getElem_mem hic, ?_⟩
    simpa [List.getD_eq_getElem?_getD, hic] using hp
  · rintro ⟨b, hb, hp⟩
    obtain ⟨i, hi, rfl⟩ := List.getElem_of_mem hb
    have hic : i < cobs.length := h.lenC ▸ hi
    refine ⟨rootAt cobs i, rootAt_mem hic, ?_⟩
    rw [h.obs i hi]
    simp only [Option.map_some, Option.getD_some, connObsC_isSub]
    simpa [List.getD_eq_getElem?_getD, hi] using hp

theorem agreesCold_of {S : Subj} {roots cobs pend w} {st : ConnM.State} {fn fe fc acell armed}
    (g : Glob roots cobs w) (hheld : w.held = []) (hS : S.observers = 2)
    (U : UsersPart S roots pend w st.sub.observers st.sub.serial st.sub.obs)
    (C : ConnsPartC fn fe fc acell cobs w st.conns armed) : AgreesCold w st := by
  refine ⟨g.status, hheld, U.log, ?_, C.live_eq, ?_, ?_⟩
  · simp [coldSubsOf, C.probes, C.lenC, ConnM.sourceSubscriptions]
  · have := U.cellO; rw [hS] at this
    simp [regCountOf, this, amapLen_encMap, registered, mapRoots]
  · intro u
    rcases Nat.lt_or_ge u roots.length with hlt | hge
    · obtain ⟨rd, h1, _⟩ := U.user u hlt
      simp only [World.isSubOf, h1, U.obs u hlt, aliveOf]
      cases ha : (st.sub.obs u).alive <;> simp [obsOf, Obs.isSub, ha]
    · have : w.users[u]? = none := by apply List.getElem?_eq_none; rw [U.nUsers]; exact hge
      simp only [World.isSubOf, this, aliveOf]
      exact (View.eq (U.unseen u hge)).2.1.symm

/-- **C13-REF, publish over a cold source.** -/
theorem publish_refines_cold (script : List Ev) (cs : List ConnM.Call) (hwf : wfC 0 cs = true) :
    ∃ w, FinalPc script cs w ∧ AgreesCold w (ConnM.run .publish (.cold script) cs) := by
  obtain ⟨n0, w, ⟨r, c, a, hrel⟩, hrun⟩ := WP.run_top (progPc_spec script cs hwf)
  obtain ⟨g, U, X, _⟩ := hrel.inv.ur
  exact ⟨w, ⟨n0, hrun⟩, agreesCold_of g X.held rfl U hrel.inv.conns⟩

#print axioms publish_refines_cold

end Rx.CRef
