import RxVerif.Theorems.C13RefCore
/-
C13-REF, part 3: a HOT source event.  `H.next / error / complete` walks the snapshot of H's map; every entry is a
source observer whose callback forwards into the connectable's subject (`connRecv`).  Generic in the users' side
`UR` (plain subject for publish / ref_count, ReplaySubject for replay) and in further cells `X`.
-/
namespace Rx.CRef
open Rx.Sim Rx.SubjM Rx.Ref Rx.RefR

theorem liveFrom_allFalse (k : Nat) : ∀ (cs : List Nat) (bs : List Bool), (∀ b ∈ bs, b = false) →
    liveFrom k cs bs = []
  | [], _, _ => by simp [liveFrom]
  | _ :: _, [], _ => by simp [liveFrom]
  | c :: cs, b :: bs, h => by
    have hb : b = false := h b (List.mem_cons_self ..)
    simp [liveFrom, hb, liveFrom_allFalse (k + 1) cs bs (fun x hx => h x (List.mem_cons_of_mem _ hx))]

theorem drop_cons_getD {α} (l : List α) (k : Nat) (d : α) (h : k < l.length) :
    l.drop k = l.getD k d :: l.drop (k + 1) := by
  rw [List.drop_eq_getElem_cons h]
  simp [List.getD_eq_getElem?_getD, List.getElem?_eq_getElem h]

/-- clearing the callbacks of source observer `i` (a terminal went through it) -/
theorem ConnsPart.clear {H fn fe fc acell cobs w hmap conns armed} {roots : List Nat}
    (h : ConnsPart H fn fe fc acell cobs w hmap conns armed) (g : Glob roots cobs w) (i : Nat)
    (hi : i < conns.length) :
    ConnsPart H fn fe fc acell cobs (w.setObs (rootAt cobs i) Obs.cleared) hmap (conns.set i false) armed :=
  { ne := h.ne, cellO := h.cellO, obsv := h.obsv
    cellS := by rw [List.length_set]; exact h.cellS
    lenC := by rw [List.length_set]; exact h.lenC
    lenA := by rw [List.length_set]; exact h.lenA
    obs := by
      intro j hj
      rw [List.length_set] at hj
      by_cases e : j = i
      · subst e
        rw [getElem?_setObs_same _ (h.obs j hj)]
        simp [connObs, Obs.cleared, List.getD_eq_getElem?_getD, hj]
      · have : rootAt cobs i ≠ rootAt cobs j := fun x =>
          e (g.cob_inj (h.lenC ▸ hj) (h.lenC ▸ hi) x.symm)
        rw [getElem?_setObs_other _ this, h.obs j hj]
        simp [List.getD_eq_getElem?_getD, Ne.symm e]
    acell := by intro j hj; rw [List.length_set] at hj; exact h.acell j hj
    liveArmed := by
      intro j hj
      by_cases e : j = i
      · subst e
        by_cases hl : j < conns.length
        · simp [List.getD_eq_getElem?_getD, hl] at hj
        · simp [List.getD_eq_getElem?_getD, hl] at hj
      · apply h.liveArmed j
        simpa [List.getD_eq_getElem?_getD, List.getElem?_set, Ne.symm e] using hj }

theorem Touch.setObs (w : World) (j : Nat) (f : Obs → Obs) {J K : Nat → Prop} (hj : J j) :
    Touch J K w (w.setObs j f) :=
  ⟨rfl, rfl, rfl, rfl, rfl, by simp [World.setObs], fun i hi => getElem?_setObs_other _ (fun e => hi (e ▸ hj)),
   rfl, fun _ _ => rfl, rfl⟩

/-- what holds between two callbacks of a hot source's broadcast (`hmap` = content of H's map cell) -/
structure HotInv (UR : World → SubjM.State → Prop) (H : Subj) (fn : Data → Prog) (fe : Nat → Prog) (fc : Prog)
    (acell : Nat → Nat) (roots cobs : List Nat) (w : World) (hmap : List (Nat × Nat)) (st : ConnM.State)
    (armed : List Bool) : Prop where
  glob : Glob roots cobs w
  held : SlotReads w.held
  ur : UR w st.sub
  conns : ConnsPart H fn fe fc acell cobs w hmap st.conns armed

section hot
variable (kind : ConnM.Kind) {H : Subj} {fn : Data → Prog} {fe : Nat → Prog} {fc : Prog} {acell : Nat → Nat}
  {roots cobs : List Nat} {UR : World → SubjM.State → Prop} {J K : Nat → Prop}

theorem hotLoop (hJ : ∀ i, i < cobs.length → ¬ J (rootAt cobs i))
    (hK : ¬ K H.observers ∧ ¬ K H.serial ∧ ∀ i, i < cobs.length → ¬ K (acell i))
    (hURconn : ∀ w s i, i < cobs.length → UR w s → UR (w.setObs (rootAt cobs i) Obs.cleared) s)
    (hemit : ∀ w s ev, SlotReads w.held → Glob roots cobs w → UR w s →
      WP (codeBody ev fn fe fc) w (fun w' => UR w' (emit kind.subj s ev) ∧ Touch J K w w'))
    (ev : Ev) {hmap : List (Nat × Nat)} {armed : List Bool} :
    ∀ (n k : Nat) (st : ConnM.State) (w : World), k + n = st.conns.length →
      HotInv UR H fn fe fc acell roots cobs w hmap st armed →
      WP (forEach ((liveFrom k (cobs.drop k) (st.conns.drop k)).map fun p => Data.int p.2)
          fun o => evProg ev o.toInt.toNat .done) w
        (fun w' => HotInv UR H fn fe fc acell roots cobs w' hmap
          ((List.range' k n).foldl (fun s i => ConnM.connRecv kind s i ev) st) armed) := by
  intro n
  induction n with
  | zero =>
    intro k st w hk h
    have : st.conns.drop k = [] := List.drop_eq_nil_iff.2 (by omega)
    rw [this]
    have : liveFrom k (cobs.drop k) [] = [] := by cases cobs.drop k <;> rfl
    rw [this]
    exact WP.done h
  | succ n ih =>
    intro k st w hk h
    have hkl : k < st.conns.length := by omega
    have hkc : k < cobs.length := by rw [h.conns.lenC]; exact hkl
    rw [drop_cons_getD st.conns k false hkl, drop_cons_getD cobs k 0 hkc, List.range'_succ, List.foldl_cons]
    simp only [liveFrom]
    cases hb : st.conns.getD k false with
    | false =>
      have hgate : ConnM.connRecv kind st k ev = st := by
        unfold ConnM.connRecv
        have : ¬ st.conns[k]? = some true := by
          simp [List.getD_eq_getElem?_getD, hkl] at hb; simp [hkl, hb]
        simp [this]
      rw [hgate]
      simp only [Bool.false_eq_true, ↓reduceIte, List.nil_append]
      exact ih (k + 1) st w (by omega) h
    | true =>
      have hflag : st.conns[k]? = some true := by
        simp [List.getD_eq_getElem?_getD, hkl] at hb; simp [hkl, hb]
      simp only [↓reduceIte, List.singleton_append, List.map_cons, forEach, toNat_int]
      apply WP.seq
      have hobs := h.conns.obs k hkl
      rw [hb] at hobs
      refine wp_ev_code (show w.obs[cobs.getD k 0]? = _ from hobs) (by simp [connObs]; rfl) (by simp [connObs]; rfl)
        (by simp [connObs]; rfl) ?_
      -- the world after the source observer's own gate
      have h1 : HotInv UR H fn fe fc acell roots cobs
          (if ev.isTerminal then w.setObs (rootAt cobs k) Obs.cleared else w) hmap
          { st with conns := if ev.isTerminal then st.conns.set k false else st.conns } armed := by
        split
        · exact ⟨h.glob.touch (Touch.setObs (J := fun _ => True) (K := NoCell) w _ _ trivial), h.held,
            hURconn _ _ k hkc h.ur, h.conns.clear h.glob k hkl⟩
        · exact h
      refine (hemit _ _ ev h1.held h1.glob h1.ur).conseq ?_
      rintro w2 ⟨hur2, t2⟩
      refine WP.done ?_
      have h2 : HotInv UR H fn fe fc acell roots cobs w2 hmap (ConnM.connRecv kind st k ev) armed := by
        have hst : ConnM.connRecv kind st k ev =
            { st with
              conns := if ev.isTerminal then st.conns.set k false else st.conns
              sub := emit kind.subj st.sub ev
              emitted := ConnM.accept ev st.emitted } := by
          unfold ConnM.connRecv; simp [hflag]
        rw [hst]
        refine ⟨h1.glob.touch t2, t2.held ▸ h1.held, hur2, ?_⟩
        have hlen1 : ∀ i, i < ({ st with conns := if ev.isTerminal then st.conns.set k false else st.conns } :
            ConnM.State).conns.length → i < cobs.length := by
          intro i hi
          have := h1.conns.lenC
          split at this <;> simp_all
        exact h1.conns.touch t2 (fun i hi => hJ i (hlen1 i hi))
          ⟨hK.1, hK.2.1, fun i hi => hK.2.2 i (hlen1 i hi)⟩
      have hd : (ConnM.connRecv kind st k ev).conns.drop (k + 1) = st.conns.drop (k + 1) := by
        unfold ConnM.connRecv; simp only [hflag, ↓reduceIte]
        split
        · simp [List.drop_set]
        · rfl
      have hl : (ConnM.connRecv kind st k ev).conns.length = st.conns.length :=
        ConnM.connRecv_conns_length kind st k ev
      have := ih (k + 1) _ w2 (by rw [hl]; omega) h2
      rw [hd] at this
      exact this

end hot

/-! ### the flags after a whole round -/

theorem connRecv_conns_next (k : ConnM.Kind) (st : ConnM.State) (i : Nat) (ev : Ev) (ht : ev.isTerminal = false) :
    (ConnM.connRecv k st i ev).conns = st.conns := by
  unfold ConnM.connRecv; split <;> simp [ht]

theorem connRecv_conns_term (k : ConnM.Kind) (st : ConnM.State) (i : Nat) (ev : Ev) (ht : ev.isTerminal = true) :
    (ConnM.connRecv k st i ev).conns = st.conns.set i false := by
  unfold ConnM.connRecv; split
  · simp
  · rename_i h
    apply List.ext_getElem?
    intro j
    by_cases e : i = j
    · subst e
      rcases Nat.lt_or_ge i st.conns.length with hl | hl
      · simp only [List.getElem?_set_self hl]
        cases hb : st.conns[i] with
        | false => simp [List.getElem?_eq_getElem hl, hb]
        | true => exact absurd (by simp [List.getElem?_eq_getElem hl, hb]) h
      · simp [List.getElem?_eq_none hl]; omega
    · simp [e]

theorem foldRecv_conns_next (k : ConnM.Kind) (ev : Ev) (ht : ev.isTerminal = false) (is : List Nat) :
    ∀ st : ConnM.State, (is.foldl (fun s i => ConnM.connRecv k s i ev) st).conns = st.conns := by
  induction is with
  | nil => intro st; rfl
  | cons i rest ih => intro st; rw [List.foldl_cons, ih, connRecv_conns_next k st i ev ht]

theorem foldRecv_conns_term (k : ConnM.Kind) (ev : Ev) (ht : ev.isTerminal = true) (is : List Nat) :
    ∀ (st : ConnM.State) (j : Nat),
      (is.foldl (fun s i => ConnM.connRecv k s i ev) st).conns[j]? =
        if j ∈ is then st.conns[j]?.map (fun _ => false) else st.conns[j]? := by
  induction is with
  | nil => intro st j; simp
  | cons i rest ih =>
    intro st j
    rw [List.foldl_cons, ih, connRecv_conns_term k st i ev ht]
    by_cases e : i = j
    · subst e
      rcases Nat.lt_or_ge i st.conns.length with hl | hl
      · simp [List.getElem?_set_self hl, List.getElem?_eq_getElem hl]
      · have h1 : (st.conns.set i false)[i]? = none := by simp; omega
        simp [List.getElem?_eq_none hl, h1]
    · have : ¬ j = i := fun x => e x.symm
      simp [e, this]

theorem hotEmit_conns_term (k : ConnM.Kind) (st : ConnM.State) (ev : Ev) (ht : ev.isTerminal = true) :
    ∀ b ∈ (ConnM.hotEmit k st ev).conns, b = false := by
  intro b hb
  obtain ⟨j, hj, rfl⟩ := List.getElem_of_mem hb
  have hl : j < st.conns.length := by rw [← ConnM.hotEmit_conns_length k st ev]; exact hj
  have := foldRecv_conns_term k ev ht (List.range st.conns.length) st j
  rw [if_pos (List.mem_range.2 hl), List.getElem?_eq_getElem hl] at this
  have h2 : (ConnM.hotEmit k st ev).conns[j]? = some false := this
  rw [List.getElem?_eq_getElem hj] at h2
  exact Option.some.inj h2

/-- `H.next / error / complete` on the hot source (subject.rs:37-52) = `ConnM.hotEmit` -/
theorem hotEmit_spec (kind : ConnM.Kind) {H : Subj} {fn : Data → Prog} {fe : Nat → Prog} {fc : Prog}
    {acell : Nat → Nat} {roots cobs : List Nat} {UR : World → SubjM.State → Prop} {J K : Nat → Prop}
    (hJ : ∀ i, i < cobs.length → ¬ J (rootAt cobs i))
    (hK : ¬ K H.observers ∧ ¬ K H.serial ∧ ∀ i, i < cobs.length → ¬ K (acell i))
    (hA : ∀ i, i < cobs.length → acell i ≠ H.observers)
    (hURconn : ∀ w s i, i < cobs.length → UR w s → UR (w.setObs (rootAt cobs i) Obs.cleared) s)
    (hURcell : ∀ w s d, UR w s → UR { w with cells := w.cells.set H.observers d } s)
    (hemit : ∀ w s ev, SlotReads w.held → Glob roots cobs w → UR w s →
      WP (codeBody ev fn fe fc) w (fun w' => UR w' (emit kind.subj s ev) ∧ Touch J K w w'))
    (ev : Ev) {armed : List Bool} {st : ConnM.State} {w : World}
    (h : HotInv UR H fn fe fc acell roots cobs w (liveFrom 0 cobs st.conns) st armed) :
    WP (evCall H ev) w (fun w' => HotInv UR H fn fe fc acell roots cobs w'
      (liveFrom 0 cobs (ConnM.hotEmit kind st ev).conns) (ConnM.hotEmit kind st ev) armed) := by
  have hread : w.cells[H.observers]?.getD .unit = encMap (liveFrom 0 cobs st.conns) := by
    rw [h.conns.cellO]; rfl
  have hloop := fun hm => hotLoop kind hJ hK hURconn hemit ev (hmap := hm) (armed := armed) st.conns.length 0 st
  simp only [Nat.zero_add, List.drop_zero] at hloop
  have hrange : (List.range' 0 st.conns.length).foldl (fun s i => ConnM.connRecv kind s i ev) st =
      ConnM.hotEmit kind st ev := by rw [← List.range_eq_range']; rfl
  rw [hrange] at hloop
  cases ht : ev.isTerminal with
  | false =>
    have hc : (ConnM.hotEmit kind st ev).conns = st.conns := foldRecv_conns_next kind ev ht _ st
    rw [hc]
    have key : WP (.cellRead H.observers false fun m =>
        forEach (amapVals m) fun o => evProg ev o.toInt.toNat .done) w
        (fun w' => HotInv UR H fn fe fc acell roots cobs w' (liveFrom 0 cobs st.conns)
          (ConnM.hotEmit kind st ev) armed) := by
      refine wp_cellReadG h.held ?_
      rw [hread, amapVals_encMap]
      exact hloop _ w trivial h
    cases ev with
    | next d => exact key
    | error e => cases ht
    | complete => cases ht
  | true =>
    have hc : liveFrom 0 cobs (ConnM.hotEmit kind st ev).conns = [] :=
      liveFrom_allFalse 0 _ _ (hotEmit_conns_term kind st ev ht)
    rw [hc]
    have h0 : HotInv UR H fn fe fc acell roots cobs { w with cells := w.cells.set H.observers .lnil } [] st armed :=
      { glob := ⟨h.glob.status, h.glob.nObs, h.glob.rootsLt, h.glob.cobsLt, h.glob.nodup⟩
        held := h.held
        ur := hURcell _ _ _ h.ur
        conns :=
          { h.conns with
            cellO := set_get_same _ h.conns.cellO
            cellS := by show (w.cells.set _ _)[_]? = _; rw [set_get_other _ h.conns.ne]; exact h.conns.cellS
            acell := fun i hi => by
              show (w.cells.set _ _)[_]? = _
              rw [set_get_other _ (Ne.symm (hA i (h.conns.lenC ▸ hi)))]; exact h.conns.acell i hi } }
    have key : WP (.cellRead H.observers false fun m => .cellWrite H.observers false .lnil <|
        forEach (amapVals m) fun o => evProg ev o.toInt.toNat .done) w
        (fun w' => HotInv UR H fn fe fc acell roots cobs w' [] (ConnM.hotEmit kind st ev) armed) := by
      refine wp_cellReadG h.held ?_
      refine wp_cellWriteG h.held ?_
      rw [hread, amapVals_encMap]
      exact hloop _ _ trivial h0
    cases ev with
    | next d => cases ht
    | error e => exact key
    | complete => exact key

end Rx.CRef
