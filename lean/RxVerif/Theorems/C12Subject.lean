/-
C12, plain `Subject`: main theorems over ALL reachable states of the LTS `Rx.Conc.Subject`
(all interleavings of any number of threads running arbitrary programs of next / subscribe / unsubscribe calls).
-/
import RxVerif.Theorems.C12SubjectB

namespace Rx.Conc.Subject


/-- bookkeeping invariant: programs only shrink, `fn_next` is cleared only by an `unsubscribe` call of some program,
the ghost flag `pre` never changes -/
structure InvC (progs : List (List Call)) (nPre : Nat) (s : State) : Prop where
  sub : ∀ (t : Nat) (c : Call), c ∈ (s.threads t).todo → c ∈ progs.getD t []
  u0 : ∀ t o : Nat, (s.threads t).pc = .u0 o → Call.unsubscribe o ∈ progs.getD t []
  dead : ∀ o : Nat, (s.obs o).fnNext = false → ∃ t, Call.unsubscribe o ∈ progs.getD t []
  pre : ∀ o : Nat, (s.obs o).pre = decide (o < nPre)

theorem invC_init (progs : List (List Call)) (nPre : Nat) : InvC progs nPre (init progs nPre) := by
  constructor
  · intro t c h; simpa [init] using h
  · intro t o h; simp [init] at h
  · intro o h; simp only [init] at h; split at h <;> simp at h
  · intro o; simp only [init]; split <;> simp_all

theorem invC_step {progs : List (List Call)} {nPre : Nat} {s s' : State} {t : Nat} (h : InvC progs nPre s)
    (hs : stepT s t = some s') : InvC progs nPre s' := by
  obtain ⟨hsub, hu0, hdead, hpre⟩ := h
  cases hpc : (s.threads t).pc with
  | idle =>
    simp only [stepT, hpc] at hs
    split at hs
    · simp at hs
    · simp at hs; subst hs
      constructor <;> grind [setObs, setThr]
    · split at hs
      · simp at hs
      · simp at hs; subst hs
        constructor <;> grind [setObs, setThr]
    · simp at hs; subst hs
      constructor <;> grind [setObs, setThr]
  | nxL k v snap =>
    cases snap <;>
    · simp only [stepT, hpc, Option.some.injEq] at hs; subst hs
      constructor <;> grind [setObs, setThr]
  | _ =>
    simp only [stepT, hpc, Option.some.injEq] at hs; subst hs
    constructor <;> grind [setObs, setThr]


theorem invC_reachable {progs : List (List Call)} {nPre : Nat} {s : State} (h : Reachable progs nPre s) :
    InvC progs nPre s := by
  induction h with
  | init => exact invC_init progs nPre
  | step _ hs ih =>
    simp only [step] at hs
    split at hs
    · exact invC_step ih hs
    · simp at hs

/-- items observer `o` received from producer thread `t`, in delivery order -/
def State.recvFrom (s : State) (o t : Nat) : List Data := ((s.received o).filter (·.1 == t)).map (·.2.2)

/-- ghost call indices (position of the `next` call among `t`'s `next` calls) of these deliveries -/
def State.recvIdxFrom (s : State) (o t : Nat) : List Nat := ((s.received o).filter (·.1 == t)).map (·.2.1)

theorem recvFrom_eq (s : State) (o t : Nat) :
    s.recvFrom o t = (proj t (s.obs o).rlog).reverse.map (·.2) := by
  simp [State.recvFrom, State.received, proj, List.filter_reverse, List.map_reverse]

theorem recvIdxFrom_eq (s : State) (o t : Nat) :
    s.recvIdxFrom o t = (proj t (s.obs o).rlog).reverse.map (·.1) := by
  simp [State.recvIdxFrom, State.received, proj, List.filter_reverse, List.map_reverse]

/-- (b) Per producer, what ANY observer received is a contiguous block of that producer's program, each call of the
block delivered exactly once, in order: the delivered call indices are `a, a+1, .., a+n-1` and the items are the
corresponding items of the program. -/
theorem per_producer_gap_free {progs : List (List Call)} {nPre : Nat} {s : State}
    (h : Reachable progs nPre s) (o t : Nat) :
    ∃ a n, s.recvFrom o t = ((progItems progs t).drop a).take n ∧ s.recvIdxFrom o t = List.range' a n := by
  have hp := (invB_reachable h).pair o t
  exact ⟨_, _, (recvFrom_eq s o t).trans hp.desc.block, (recvIdxFrom_eq s o t).trans hp.desc.indices⟩

/-- no delivery is duplicated: the call indices received from one producer are pairwise distinct -/
theorem no_duplicates {progs : List (List Call)} {nPre : Nat} {s : State}
    (h : Reachable progs nPre s) (o t : Nat) : (s.recvIdxFrom o t).Nodup := by
  obtain ⟨a, n, _, h2⟩ := per_producer_gap_free h o t
  rw [h2]; exact List.nodup_range'

/-- late subscriber: an observer whose `fn_next` is still present (it was never unsubscribed) has received, from a
producer that has finished, a gap-free SUFFIX of that producer's items -/
theorem late_subscriber_suffix {progs : List (List Call)} {nPre : Nat} {s : State}
    (h : Reachable progs nPre s) (o t : Nat) (hlive : (s.obs o).fnNext = true) (hdone : s.done t) :
    ∃ a, s.recvFrom o t = (progItems progs t).drop a ∧
      s.recvIdxFrom o t = List.range' a ((progItems progs t).length - a) := by
  have hB := invB_reachable h
  have hp := hB.pair o t
  obtain ⟨hcnt, htodo, _⟩ := hB.loc t
  obtain ⟨hidle, hnil⟩ := hdone
  rw [hnil] at htodo
  have hlen : (s.threads t).cnt = (progItems progs t).length := by
    have := List.drop_eq_nil_iff.mp htodo.symm
    omega
  simp only [pos, hidle] at hp
  rw [recvFrom_eq, recvIdxFrom_eq, hp.desc.block, hp.desc.indices]
  have hle := hp.desc.length_le_top
  by_cases hne : proj t (s.obs o).rlog = []
  · refine ⟨(progItems progs t).length, ?_⟩
    simp [hne]
  · have ht := hp.eq (.inr hlive) hne
    rw [ht, hlen]
    refine ⟨(progItems progs t).length - (proj t (s.obs o).rlog).length, ?_, ?_⟩
    · apply List.take_of_length_le
      simp only [List.length_drop]; omega
    · congr 1; omega

/-- unsubscriber: an observer that was registered from the start has received, from every producer, a gap-free PREFIX
of that producer's items (whatever happened to it afterwards) -/
theorem unsubscriber_prefix {progs : List (List Call)} {nPre : Nat} {s : State}
    (h : Reachable progs nPre s) (o t : Nat) (hpre : o < nPre) :
    ∃ n, s.recvFrom o t = (progItems progs t).take n ∧ s.recvIdxFrom o t = List.range' 0 n := by
  have hp := (invB_reachable h).pair o t
  have hpre' : (s.obs o).pre = true := by rw [(invC_reachable h).pre o]; simpa using hpre
  have hlen := hp.pfx hpre'
  refine ⟨(proj t (s.obs o).rlog).length, ?_, ?_⟩
  · rw [recvFrom_eq, hp.desc.block, ← hlen]; simp
  · rw [recvIdxFrom_eq, hp.desc.indices, ← hlen]; simp

/-- (a) An observer registered before any producer started (`o < nPre`) and never unsubscribed (no program contains
`unsubscribe o`) has, once all producers are done, received from every producer exactly that producer's items, each
call exactly once, in program order. -/
theorem stays_subscribed_gets_all {progs : List (List Call)} {nPre : Nat} {s : State}
    (h : Reachable progs nPre s) (o : Nat) (hpre : o < nPre)
    (hnever : ∀ t, Call.unsubscribe o ∉ progs.getD t [])
    (hdone : ∀ t, t < progs.length → s.done t) :
    ∀ t, s.recvFrom o t = progItems progs t ∧ s.recvIdxFrom o t = List.range' 0 (progItems progs t).length := by
  intro t
  have hB := invB_reachable h
  have hC := invC_reachable h
  have hp := hB.pair o t
  have hpre' : (s.obs o).pre = true := by rw [hC.pre o]; simpa using hpre
  have hlive : (s.obs o).fnNext = true := by
    cases hf : (s.obs o).fnNext with
    | true => rfl
    | false => obtain ⟨t', ht'⟩ := hC.dead o hf; exact (hnever t' ht').elim
  have hlenP : (proj t (s.obs o).rlog).length = (progItems progs t).length := by
    by_cases ht : t < progs.length
    · obtain ⟨hidle, hnil⟩ := hdone t ht
      obtain ⟨hcnt, htodo, _⟩ := hB.loc t
      rw [hnil] at htodo
      have hlen : (s.threads t).cnt = (progItems progs t).length := by
        have := List.drop_eq_nil_iff.mp htodo.symm
        omega
      have := hp.full (.inr hlive) hpre'
      simp only [pos, hidle] at this
      omega
    · have hP : progItems progs t = [] := by
        simp [progItems, List.getD, List.getElem?_eq_none (Nat.le_of_not_lt ht), nextItems]
      have := hp.desc.length_le_top
      have hd := hp.desc
      rw [hP] at hd ⊢
      cases hL : proj t (s.obs o).rlog with
      | nil => rfl
      | cons x r => rw [hL] at hd; obtain ⟨i, v⟩ := x; simp [Desc] at hd
  have hlen := hp.pfx hpre'
  constructor
  · rw [recvFrom_eq, hp.desc.block, ← hlen, hlenP]; simp
  · rw [recvIdxFrom_eq, hp.desc.indices, ← hlen, hlenP]; simp


/-- a thread that has no program delivers nothing -/
theorem recv_tid_lt {progs : List (List Call)} {nPre : Nat} {s : State} (h : Reachable progs nPre s) (o : Nat) :
    ∀ x ∈ s.received o, x.1 < progs.length := by
  intro x hx
  have hp := ((invB_reachable h).pair o x.1).desc
  by_cases ht : x.1 < progs.length
  · exact ht
  · have hP : progItems progs x.1 = [] := by
      simp [progItems, List.getD, List.getElem?_eq_none (Nat.le_of_not_lt ht), nextItems]
    rw [hP] at hp
    have hmem : x.2 ∈ proj x.1 (s.obs o).rlog := by
      simp only [proj, List.mem_map, List.mem_filter]
      exact ⟨x, ⟨by simpa [State.received] using hx, by simp⟩, rfl⟩
    cases hL : proj x.1 (s.obs o).rlog with
    | nil => rw [hL] at hmem; simp at hmem
    | cons y r => rw [hL] at hp; obtain ⟨i, v⟩ := y; simp [Desc] at hp

/-- (a), multiset form: under the hypotheses of `stays_subscribed_gets_all` the items the observer received are, as a
multiset, exactly all items of all producers. -/
theorem stays_subscribed_multiset {progs : List (List Call)} {nPre : Nat} {s : State}
    (h : Reachable progs nPre s) (o : Nat) (hpre : o < nPre)
    (hnever : ∀ t, Call.unsubscribe o ∉ progs.getD t [])
    (hdone : ∀ t, t < progs.length → s.done t) :
    ((s.received o).map (·.2.2)).Perm ((List.range progs.length).flatMap (progItems progs)) := by
  have hall := stays_subscribed_gets_all h o hpre hnever hdone
  have hperm := map_perm_flatMap_filter (fun x : Nat × Nat × Data => x.2.2) progs.length (s.received o)
    (recv_tid_lt h o)
  have : ((List.range progs.length).flatMap fun t => ((s.received o).filter (·.1 == t)).map (·.2.2))
      = (List.range progs.length).flatMap (progItems progs) := by
    simp only [List.flatMap]
    congr 1
    apply List.map_congr_left
    intro t _
    exact (hall t).1
  rw [this] at hperm
  exact hperm

/-! ### non-vacuity: 2 producers × 2 items, one stable observer (observer 0 pre-registered), plus a thread that
subscribes observer 1 late and a thread that unsubscribes it -/

def exProgs : List (List Call) :=
  [[.next (.int 1), .next (.int 2)], [.next (.int 10), .next (.int 20)], [.subscribe 1], [.unsubscribe 1]]

/-- a complete run: producer 0's first `next`, the late subscription, the producers interleaved, the unsubscription -/
def exRun : List Label :=
  [(0, .call), (0, .snap), (0, .fetch), (0, .deliver), (0, .ret),
   (2, .call), (2, .isSub1), (2, .isSub2), (2, .serial), (2, .setTd), (2, .insert),
   (1, .call), (1, .snap), (0, .call), (0, .snap),
   (1, .fetch), (0, .fetch), (0, .deliver), (1, .deliver),
   (1, .fetch), (1, .deliver), (3, .call), (3, .clrNext), (0, .fetch), (0, .ret), (1, .ret),
   (1, .call), (1, .snap), (1, .fetch), (1, .deliver), (1, .fetch), (1, .ret),
   (3, .clrErr), (3, .clrCompl), (3, .readTd), (3, .remove), (3, .clrTd)]

def exFinal : Option State := replay exProgs 1 exRun

example : (exFinal.map fun s => (s.received 0).map (·.2.2)) =
    some [.int 1, .int 2, .int 10, .int 20] := by decide +kernel
example : (exFinal.map fun s => (s.received 1).map (·.2.2)) = some [.int 10] := by decide +kernel
example : (exFinal.map fun s => (List.range 4).all fun t => decide (s.done t)) = some true := by decide +kernel

/-- the hypotheses of `stays_subscribed_gets_all` are satisfiable (and its conclusion is what the run shows) -/
example : ∃ s, Reachable exProgs 1 s ∧ (0 < 1) ∧ (∀ t, Call.unsubscribe 0 ∉ exProgs.getD t []) ∧
    (∀ t, t < exProgs.length → s.done t) ∧ s.recvFrom 0 1 = [.int 10, .int 20] := by
  have hsome : exFinal.isSome = true := by decide +kernel
  obtain ⟨s, hs⟩ := Option.isSome_iff_exists.mp hsome
  refine ⟨s, reachable_of_replay hs, by decide, ?_, ?_, ?_⟩
  · intro t
    match t with
    | 0 | 1 | 2 | 3 => decide
    | t + 4 => simp [exProgs]
  · intro t ht
    have h := (by decide +kernel :
      (exFinal.map fun s => (List.range 4).all fun t => decide (s.done t)) = some true)
    rw [hs] at h
    simp only [Option.map_some, Option.some.injEq, List.all_eq_true, List.mem_range, decide_eq_true_eq] at h
    exact h t ht
  · have h := (by decide +kernel : (exFinal.map fun s => s.recvFrom 0 1) = some [.int 10, .int 20])
    rw [hs] at h
    simpa using h

/-- "registered before any producer started": the initial state `init progs 1` is the state a sequential
`subscribe 0` leads to from the empty subject (same map, serial counter and observer slots) -/
example : (replay [[.subscribe 0]] 0
      [(0, .call), (0, .isSub1), (0, .isSub2), (0, .serial), (0, .setTd), (0, .insert)]).map
      (fun s => (s.map, s.serial, (s.obs 0).fnNext, (s.obs 0).ser, (s.obs 0).td, (s.obs 0).ins))
    = some ((init [[]] 1).map, (init [[]] 1).serial, ((init [[]] 1).obs 0).fnNext, ((init [[]] 1).obs 0).ser,
        ((init [[]] 1).obs 0).td, ((init [[]] 1).obs 0).ins) := by decide +kernel

end Rx.Conc.Subject
