import RxVerif.Theorems.SimChainRep
/-
C06 / C17 — an upstream attached AFTER the subscription ended (src/internals/stream_controller.rs `new_observer`, the branch
added by fix dfd0310; src/observable.rs `inner_subscribe`, fix 655c427).

Whatever the operator is doing (flat_map attaching an inner source, retry / retry_when starting the next attempt,
on_error_resume_next subscribing the replacement, subscribe_on attaching its source from the worker thread): if the subscriber of
the controller is no longer subscribed when `new_observer` is called, the new observer is removed from the table again and
unsubscribed, and `inner_subscribe` does NOT start the source for it - for EVERY source program and all closures.
The harness reaches this branch with the `*_u` closures (a closure given to the operator that ends the subscription) and, across
threads, with the subscribe_on / unsubscribe race.
-/
namespace Rx.C06late
open Rx Rx.Sim Rx.Chain

theorem noconf (w : World) (h : w.held = []) (l : LockId) (wr : Bool) : w.conflicts l wr = false := by
  simp [World.conflicts, h]

/-- what a late attach leaves behind, whatever the source is: nothing was delivered or recorded, no lock is held, every
    observer that existed is untouched, exactly one observer was added and it is not subscribed -/
structure Inert (w w' : World) : Prop where
  status : w'.status = w.status
  held : w'.held = []
  trace : w'.trace = w.trace
  users : w'.users = w.users
  slots : w'.slots = w.slots
  obsvs : w'.obsvs = w.obsvs
  old : ∀ i, i < w.obs.length → w'.obs[i]? = w.obs[i]?
  added : w'.obs.length = w.obs.length + 1
  dead : (w'.obs[w.obs.length]?.map Obs.isSub) = some false

/-- **late attach is inert**: the subscriber `sc.sub` is not subscribed ⇒ `new_observer` followed by `inner_subscribe` of ANY
    source program `src` runs none of it -/
theorem late_attach_inert (sc : Sctl) (n : Nat → Data → Prog) (e : Nat → Nat → Prog) (c : Nat → Prog) (src : Obsv)
    (w : World) (hh : w.held = []) (x : Obs) (hx : w.obs[sc.sub]? = some x) (hxs : x.isSub = false) :
    WP (sc.newObserver n e c (fun o => src.sub o)) w (Inert w) := by
  have hlt : sc.sub < w.obs.length := by
    rcases Nat.lt_or_ge sc.sub w.obs.length with h | h
    · exact h
    · rw [List.getElem?_eq_none h] at hx; cases hx
  unfold Sctl.newObserver
  -- serial read / write
  refine WP.step (w1 := w) (fun fuel st => by simp (config := { zetaDelta := true }) only [run, World.conflicts, hh, List.any_nil, Bool.and_false, Bool.false_eq_true, ↓reduceIte]; try rfl) ?_
  generalize hser : ((w.cells[sc.serial]?.getD .unit).toInt.toNat) = serial
  refine WP.step (w1 := { w with cells := w.cells.set sc.serial (.int (serial + 1)) })
    (fun fuel st => by simp (config := { zetaDelta := true }) only [run, World.conflicts, hh, List.any_nil, Bool.and_false, Bool.false_eq_true, ↓reduceIte]; try rfl) ?_
  -- the new observer
  let w1 : World := { w with cells := w.cells.set sc.serial (.int (serial + 1)) }
  refine WP.step (w1 := { w1 with obs := w1.obs ++ [⟨some (.code (n serial)), some (.code (e serial)), some (.code (c serial)), none⟩] })
    (fun fuel st => by simp only [run]; try rfl) ?_
  let w2 : World := { w1 with obs := w1.obs ++ [⟨some (.code (n serial)), some (.code (e serial)), some (.code (c serial)), none⟩] }
  have h2 : w2.held = [] := hh
  -- table read / insert
  refine WP.step (w1 := w2) (fun fuel st => by simp (config := { zetaDelta := true }) only [run, World.conflicts, hh, List.any_nil, Bool.and_false, Bool.false_eq_true, ↓reduceIte]; try rfl) ?_
  generalize hm : (w2.cells[sc.map]?.getD .unit) = m
  refine WP.step (w1 := { w2 with cells := w2.cells.set sc.map (amapInsert m serial (.int w.obs.length)) })
    (fun fuel st => by simp (config := { zetaDelta := true }) only [run, World.conflicts, hh, List.any_nil, Bool.and_false, Bool.false_eq_true, ↓reduceIte]; try rfl) ?_
  let w3 : World := { w2 with cells := w2.cells.set sc.map (amapInsert m serial (.int w.obs.length)) }
  have h3 : w3.held = [] := hh
  have hx3 : w3.obs[sc.sub]? = some x := by
    show (w.obs ++ [_])[sc.sub]? = some x
    rw [List.getElem?_append_left hlt]; exact hx
  -- the subscriber is gone: take the entry out again, unsubscribe the new observer
  refine WP.step (w1 := w3) (fun fuel st => by simp (config := { zetaDelta := true }) only [run, hx3, hxs, Bool.false_eq_true, ↓reduceIte]; try rfl) ?_
  refine WP.step (w1 := w3) (fun fuel st => by simp (config := { zetaDelta := true }) only [run, World.conflicts, hh, List.any_nil, Bool.and_false, Bool.false_eq_true, ↓reduceIte]; try rfl) ?_
  generalize hm' : (w3.cells[sc.map]?.getD .unit) = m'
  refine WP.step (w1 := { w3 with cells := w3.cells.set sc.map (amapRemove m' serial) })
    (fun fuel st => by simp (config := { zetaDelta := true }) only [run, World.conflicts, hh, List.any_nil, Bool.and_false, Bool.false_eq_true, ↓reduceIte]; try rfl) ?_
  let w4 : World := { w3 with cells := w3.cells.set sc.map (amapRemove m' serial) }
  have hnew : w4.obs[w.obs.length]? = some ⟨some (.code (n serial)), some (.code (e serial)), some (.code (c serial)), none⟩ := by
    show (w.obs ++ [_])[w.obs.length]? = _
    simp
  refine WP.step (w1 := w4.setObs w.obs.length fun x => { x.cleared with onUnsub := none })
    (fun fuel st => by simp (config := { zetaDelta := true }) only [run, hnew]; try rfl) ?_
  let w5 : World := w4.setObs w.obs.length fun x => { x.cleared with onUnsub := none }
  have hdead : w5.obs[w.obs.length]? = some ⟨none, none, none, none⟩ := by
    show (List.modify (w.obs ++ [_]) w.obs.length _)[w.obs.length]? = _
    simp [Obs.cleared]
  -- inner_subscribe: the observer is not subscribed, the source is not called
  unfold Obsv.sub
  refine WP.step (w1 := w5) (fun fuel st => by simp (config := { zetaDelta := true }) only [run, hdead, Obs.isSub, Option.isSome_none, Bool.and_self, Bool.false_eq_true, ↓reduceIte]; try rfl) ?_
  apply WP.done
  refine ⟨rfl, hh, rfl, rfl, rfl, rfl, ?_, ?_, ?_⟩
  · intro i hi
    show (List.modify (w.obs ++ [_]) w.obs.length _)[i]? = _
    rw [List.getElem?_modify]
    have : w.obs.length ≠ i := by omega
    simp [this, List.getElem?_append_left hi]
  · show (List.modify (w.obs ++ [_]) w.obs.length _).length = _
    simp
  · rw [hdead]; rfl

end Rx.C06late

-- non-vacuity: a controller whose subscriber was unsubscribed; a late attach of `just(7)` delivers nothing
open Rx in
example :
    let p : Prog := .obsNew (fun _ => .probe 3 (.int 1) .done) (fun _ => .done) .done fun s =>
      sctlNew s fun sc => .obsUnsub s <|
      sc.newObserver (fun _ x => sc.sinkNext x) (fun _ e => sc.sinkError e) (fun ser => sc.sinkComplete ser) fun o =>
        Obsv.sub (fun s => .obsNext s (.int 7) (.obsComplete s .done)) o
    (run 200 [p] {}).trace = [] := by decide

#print axioms Rx.C06late.late_attach_inert
