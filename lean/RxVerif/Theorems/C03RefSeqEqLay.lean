import RxVerif.Theorems.C03RefZip
/-
C03-REF, sequence_equal, part 1: the layout of the world that `oSequenceEqual` builds over `k` plain subjects — a TREE of
`2k+2` StreamControllers
    subject j ─ map_j (stdOp kSome) ─ concat_j (+ just(None)) ─┐
                                                              ├─ zip ─ outer (comparison closures) ─ test user 0
and generic lemmas for `StreamController::finalize` on any of them.
-/
namespace Rx.SeqRef
open Rx.Sim Rx.Ref Rx.Comb Rx.CRef

/-! ### indices -/
def oser (k : Nat) : Nat := 2 * k
def omap (k : Nat) : Nat := 2 * k + 1
def ofin (k : Nat) : Nat := 2 * k
def zser (k : Nat) : Nat := 2 * k + 2
def zmap (k : Nat) : Nat := 2 * k + 3
def zq (k : Nat) : Nat := 2 * k + 4
def zfin (k : Nat) : Nat := 2 * k + 1
def cser (k j : Nat) : Nat := 2 * k + 5 + 6 * j
def cmap (k j : Nat) : Nat := 2 * k + 5 + 6 * j + 1
def cq (k j : Nat) : Nat := 2 * k + 5 + 6 * j + 2
def mser (k j : Nat) : Nat := 2 * k + 5 + 6 * j + 3
def mmap (k j : Nat) : Nat := 2 * k + 5 + 6 * j + 4
def mst (k j : Nat) : Nat := 2 * k + 5 + 6 * j + 5
def cfin (k j : Nat) : Nat := 2 * k + 2 + 2 * j
def mfin (k j : Nat) : Nat := 2 * k + 2 + 2 * j + 1
/-- observers: 0 = root of the test user, 1 = the outer controller's observer on zip, then zip's observers, then per
    source the concat observer and the map observer -/
def Zo (j : Nat) : Nat := 2 + j
def Co (k j : Nat) : Nat := k + 2 + 2 * j
def Mo (k j : Nat) : Nat := k + 2 + 2 * j + 1

def scO (k : Nat) : Sctl := ⟨0, oser k, omap k, ofin k⟩
def scZ (k : Nat) : Sctl := ⟨1, zser k, zmap k, zfin k⟩
def scC (k j : Nat) : Sctl := ⟨Zo j, cser k j, cmap k j, cfin k j⟩
def scM (k j : Nat) : Sctl := ⟨Co k j, mser k j, mmap k j, mfin k j⟩

/-! ### the closures -/

/-- the closures of `stdOp kSome` for map_j (serial 0) -/
def mapNext (k j : Nat) (x : Data) : Prog :=
  .cellRead (mst k j) false fun st =>
    let r := kSome.onNext (kSome.dec st) x
    .cellWrite (mst k j) false (kSome.enc r.1)
      (holdAcq kSome.holdNext (mst k j) ;; actsP (scM k j) 0 r.2 ;; holdRel kSome.holdNext (mst k j))

def mapErr (k j : Nat) (e : Nat) : Prog :=
  .cellRead (mst k j) false fun st =>
    let r := kSome.onError (kSome.dec st) e
    .cellWrite (mst k j) false (kSome.enc r.1) (actsP (scM k j) 0 r.2)

def mapDone (k j : Nat) : Prog :=
  .cellRead (mst k j) false fun st =>
    let r := kSome.onComplete (kSome.dec st)
    .cellWrite (mst k j) false (kSome.enc r.1)
      (holdAcq kSome.holdComplete (mst k j) ;; actsP (scM k j) 0 r.2 ;; holdRel kSome.holdComplete (mst k j))

/-- map_j's observer on subject `j` -/
def mapObs (k j : Nat) (hook : Option Prog) : Obs :=
  ⟨some (.code (mapNext k j)), some (.code (mapErr k j)), some (.code (mapDone k j)), hook⟩

def theEnd : List Obsv := [oJust (Data.optEnc none)]

/-- concat_j's observer on map_j (serial 0) -/
def concatObs (k j : Nat) (hook : Option Prog) : Obs :=
  ⟨some (.code fun x => (scC k j).sinkNext x), some (.code fun e => (scC k j).sinkError e),
   some (.code (concatNext (scC k j) (cq k j) theEnd 100000)), hook⟩

/-- concat_j's observer on `just(None)` (serial 1) -/
def justObs (k j : Nat) : Obs :=
  ⟨some (.code fun x => (scC k j).sinkNext x), some (.code fun e => (scC k j).sinkError e),
   some (.code (concatNext (scC k j) (cq k j) theEnd 99999)), none⟩

/-- zip's `next` closure for source `j` -/
def zPush (k j : Nat) (x : Data) : Prog :=
  .cellRead (zq k) false fun qs =>
    let queues := qs.toList
    .cellWrite (zq k) false (Data.ofList (queues.modify j fun q => Data.ofList (q.toList ++ [x]))) <|
    zipTryEmit (scZ k) (zq k) 100000

/-- zip's observer on concat_j (serial `j`) -/
def zipObs (k j : Nat) (hook : Option Prog) : Obs :=
  ⟨some (.code fun x => zPush k j x), some (.code fun e => (scZ k).sinkError e),
   some (.code ((scZ k).sinkComplete j)), hook⟩

/-- the comparison closure of sequence_equal.rs -/
def cmpNext (k : Nat) (x : Data) : Prog :=
  let l := x.toList
  if l.all (fun i => i == l.headD .unit) then .done
  else (scO k).abortObserve 0 ;; (scO k).sinkNext (.bool false) ;; (scO k).sinkComplete 0

/-- the outer controller's observer on zip (serial 0) -/
def outerObs (k : Nat) (hook : Option Prog) : Obs :=
  ⟨some (.code fun x => cmpNext k x), some (.code fun e => (scO k).sinkError e),
   some (.code ((scO k).sinkNext (.bool true) ;; (scO k).sinkComplete 0)), hook⟩

def rootObs (k : Nat) (alive : Bool) : Obs :=
  ⟨if alive then some (.user 0) else none, if alive then some (.user 0) else none,
   if alive then some (.user 0) else none, some (scO k).finalize⟩

/-- an observer that has lost its callbacks -/
def deadObs (hook : Option Prog) : Obs := ⟨none, none, none, hook⟩

/-! ### guards -/

theorem noconf_ne {w : World} {l : LockId} (wr : Bool) (h : ∀ p ∈ w.held, p.1 ≠ l) : w.conflicts l wr = false := by
  simp only [World.conflicts, List.any_eq_false]
  intro p hp
  have := h p hp
  obtain ⟨a, b⟩ := p
  simp only [Bool.and_eq_true, beq_iff_eq, not_and]
  intro q; exact absurd q this

/-- only READ guards of cells are held -/
def ReadCells (w : World) : Prop := ∀ p ∈ w.held, p.2 = false ∧ ∃ c, p.1 = .cell c

theorem noconf_read {w : World} (h : ReadCells w) (l : LockId) : w.conflicts l false = false := by
  simp only [World.conflicts, List.any_eq_false]
  intro p hp
  obtain ⟨a, b⟩ := p
  have := (h _ hp).1
  simp only at this
  simp [this]

theorem noconf_slot {w : World} (h : ∀ p ∈ w.held, ∃ c, p.1 = .cell c) (s : Nat) (wr : Bool) :
    w.conflicts (.slot s) wr = false :=
  noconf_ne wr fun p hp q => by obtain ⟨c, hc⟩ := h p hp; rw [hc] at q; cases q

/-! ### `StreamController::finalize` (stream_controller.rs:132-145) on any controller -/

/-- what follows the loop over the registered upstreams -/
def finTail (sc : Sctl) : Prog :=
  .lockRel (.cell sc.map) <|
  .cellWrite sc.map false .lnil <|
  .obsIsSub sc.sub fun b =>
  (if b then Prog.obsUnsub sc.sub .done else .done) ;;
  (.lockAcq (.slot sc.fin) true <|
  .slotCall sc.fin .unit true <|
  .lockRel (.slot sc.fin) .done)

theorem unsub_loop_gen {Inv : List (Nat × Nat) → World → Prop}
    (hstep : ∀ p rest w1, Inv (p :: rest) w1 → WP (.obsUnsub p.2 .done) w1 (Inv rest)) :
    ∀ (l : List (Nat × Nat)) (w : World), Inv l w →
      WP (forEach (l.map fun p => Data.int p.2) fun o => .obsUnsub o.toInt.toNat .done) w (Inv []) := by
  intro l
  induction l with
  | nil => intro w h; exact WP.done h
  | cons p rest ih =>
    intro w h
    simp only [List.map_cons, forEach, toNat_int]
    apply WP.seq
    exact (hstep p rest w h).conseq fun w1 h1 => ih w1 h1

/-- the loop with an invariant supplied by the caller, then the tail -/
theorem finalize_gen (sc : Sctl) (l : List (Nat × Nat)) {w : World} {Inv : List (Nat × Nat) → World → Prop}
    {Q : World → Prop} (hm : w.cells[sc.map]? = some (encMap l))
    (hacq : w.conflicts (.cell sc.map) false = false)
    (h0 : Inv l { w with held := (.cell sc.map, false) :: w.held })
    (hstep : ∀ p rest w1, Inv (p :: rest) w1 → WP (.obsUnsub p.2 .done) w1 (Inv rest))
    (hend : ∀ w2, Inv [] w2 → WP (finTail sc) w2 Q) : WP sc.finalize w Q := by
  simp only [Sctl.finalize]
  refine wp_lockAcq hacq (wp_cellRead_g ?_)
  have hr : ({ w with held := (LockId.cell sc.map, false) :: w.held } : World).cells[sc.map]?.getD .unit = encMap l := by
    show w.cells[sc.map]?.getD .unit = _; rw [hm]; rfl
  rw [hr, amapVals_encMap]
  apply WP.seq
  exact (unsub_loop_gen hstep l _ h0).conseq fun w2 h2 => hend w2 h2

/-- the tail when the subscriber has already lost its callbacks (always the case, see C03RefBase) -/
theorem finTail_spec (sc : Sctl) {w : World} {hl : List (LockId × Bool)} {x : Obs} {Q : World → Prop}
    (hh : w.held = (.cell sc.map, false) :: hl) (hfree : ∀ p ∈ hl, p.1 ≠ .cell sc.map)
    (hcells : ∀ p ∈ hl, ∃ c, p.1 = .cell c) (hsub : w.obs[sc.sub]? = some x) (hx : x.isSub = false)
    (hs : w.slots[sc.fin]? = some none)
    (hQ : Q { w with held := hl, cells := w.cells.set sc.map .lnil }) : WP (finTail sc) w Q := by
  simp only [finTail]
  refine wp_lockRel ?_
  rw [release_head _ _ _ _ hh]
  refine wp_cellWrite_nc (noconf_ne _ hfree) ?_
  refine wp_obsIsSub hsub ?_
  rw [hx]
  simp only [Bool.false_eq_true, ↓reduceIte]
  apply WP.seq
  refine WP.done ?_
  exact wp_lockedSlotCall_none' (noconf_slot hcells _ _) hs (WP.done hQ)

end Rx.SeqRef
