import RxVerif.Theorems.SimBase
/-
SIM, part 2: the StreamController macros of `Machine/Core.lean` and `Machine/Lib.lean`
(`finalize`, `sinkNext`, `sinkError`, `sinkComplete`, `abortObserve`, `emitAllP`, `actP`, `actsP`,
`holdAcq`/`holdRel`) executed symbolically on a world described by `Rep`, and their agreement with
`KRun.act` (src/internals/stream_controller.rs, lines of `finalize`, `sink_next`, `sink_error`,
`sink_complete`, `upstream_abort_observe`).
-/
namespace Rx.Sim

@[simp] theorem sc_sub (c : Cfg) : c.sc.sub = c.R := rfl
@[simp] theorem sc_map (c : Cfg) : c.sc.map = c.cm := rfl
@[simp] theorem sc_fin (c : Cfg) : c.sc.fin = c.fin := rfl
@[simp] theorem sc_serial (c : Cfg) : c.sc.serial = c.cs := rfl

theorem amapVals_mapD_true (c : Cfg) : amapVals (mapD c true) = [.int c.U] := rfl
theorem amapVals_mapD_false (c : Cfg) : amapVals (mapD c false) = [] := rfl

theorem amapRemove_mapD (c : Cfg) (rg : Bool) : amapRemove (mapD c rg) (0 : Nat) = mapD c false := by
  cases rg <;> simp [amapRemove, mapD, Data.ofList, Data.toList]

theorem amapGet_mapD_true (c : Cfg) : amapGet (mapD c true) (0 : Nat) = some (.int c.U) := by
  simp [amapGet, mapD, Data.ofList, Data.toList]

theorem amapGet_mapD_false (c : Cfg) : amapGet (mapD c false) (0 : Nat) = none := by
  simp [amapGet, mapD, Data.toList]

theorem amapLen_mapD_false (c : Cfg) : amapLen (mapD c false) = 0 := rfl

theorem toNat_U (c : Cfg) : (Data.int (c.U : Int)).toInt.toNat = c.U := by
  simp [Data.toInt]

theorem cm_ne (c : Cfg) (ok : c.Ok) : LockId.cell c.cm ≠ LockId.cell c.cc := by
  intro e; exact ok.mc (LockId.cell.inj e)

theorem slot_ne (c : Cfg) : LockId.slot c.fin ≠ LockId.cell c.cc := by
  intro e; cases e

section macros
variable {c : Cfg} {al ul rg : Bool} {H : List (LockId × Bool)} {cs : Data} {out : List Ev}
  {w : World}

/-- the `for (_, unsub) in unscribers { unsub() }` loop of `finalize` -/
theorem unsubAll_spec (ok : c.Ok) (h : Rep c al ul rg H cs out w) :
    WP (forEach (amapVals (mapD c rg)) fun o => .obsUnsub o.toInt.toNat .done) w
      (Rep c al (ul && !rg) rg H cs out) := by
  cases rg with
  | false =>
    rw [amapVals_mapD_false]
    exact WP.done (by simpa using h)
  | true =>
    rw [amapVals_mapD_true]
    simp only [forEach, toNat_U]
    apply WP.seq
    apply rep_unsubU ok h
    intro w1 h1
    apply WP.done
    apply WP.done
    simpa using h1

/-- the tail of `finalize` after the downstream has been dealt with: `on_finalize` is empty -/
theorem finTail_spec (hH : OnlyCc c H) (h : Rep c al ul rg H cs out w) :
    WP (.lockAcq (.slot c.fin) true <| .slotCall c.fin .unit true <| .lockRel (.slot c.fin) .done) w
      (Rep c al ul rg H cs out) := by
  apply rep_lockAcq h (hH.noconf _ (slot_ne c) true)
  intro w1 h1
  apply rep_slotCall h1
  apply rep_lockRel h1
  intro w2 h2
  exact WP.done h2

/-- `finalize` once the downstream observer is no longer subscribed -/
theorem finalize_dead (ok : c.Ok) (hH : OnlyCc c H) (h : Rep c false ul rg H cs out w) :
    WP c.sc.finalize w (Rep c false (ul && !rg) false H cs out) := by
  simp only [Sctl.finalize, sc_sub, sc_map, sc_fin]
  apply rep_lockAcq h (hH.noconf _ (cm_ne c ok) false)
  intro w1 h1
  apply rep_readMap h1 (Or.inl rfl) ok
  apply WP.seq
  apply (unsubAll_spec ok h1).conseq
  intro w2 h2
  apply rep_lockRel h2
  intro w3 h3
  apply rep_writeMap (rg' := false) h3 (Or.inr hH) ok
  intro w4 h4
  apply rep_isSubR h4
  simp only [Bool.false_eq_true, ↓reduceIte]
  apply WP.seq
  apply WP.done
  exact finTail_spec hH h4

/-- `finalize` in general: a live downstream is unsubscribed, which runs `finalize` once more -/
theorem finalize_spec (ok : c.Ok) (hH : OnlyCc c H) (h : Rep c al ul rg H cs out w) :
    WP c.sc.finalize w (Rep c false (ul && !rg) false H cs out) := by
  cases al with
  | false => exact finalize_dead ok hH h
  | true =>
    simp only [Sctl.finalize, sc_sub, sc_map, sc_fin]
    apply rep_lockAcq h (hH.noconf _ (cm_ne c ok) false)
    intro w1 h1
    apply rep_readMap h1 (Or.inl rfl) ok
    apply WP.seq
    apply (unsubAll_spec ok h1).conseq
    intro w2 h2
    apply rep_lockRel h2
    intro w3 h3
    apply rep_writeMap (rg' := false) h3 (Or.inr hH) ok
    intro w4 h4
    apply rep_isSubR h4
    simp only [↓reduceIte]
    apply WP.seq
    apply rep_unsubR ok h4
    · intro w5 h5
      apply (finalize_dead ok hH h5).conseq
      intro w6 h6
      apply WP.done
      apply finTail_spec hH
      simpa using h6
    · intro w5 h5
      apply WP.done
      exact finTail_spec hH h5

theorem sinkNext_alive {d : Data} (h : Rep c true ul rg H cs out w) :
    WP (c.sc.sinkNext d) w (Rep c true ul rg H cs (out ++ [.next d])) := by
  simp only [Sctl.sinkNext, sc_sub]
  apply rep_isSubR h
  simp only [↓reduceIte]
  apply rep_nextR_alive h
  intro w1 h1
  exact WP.done h1

theorem sinkNext_dead (ok : c.Ok) (hH : OnlyCc c H) {d : Data} (h : Rep c false ul rg H cs out w) :
    WP (c.sc.sinkNext d) w (Rep c false (ul && !rg) false H cs out) := by
  simp only [Sctl.sinkNext, sc_sub]
  apply rep_isSubR h
  simp only [Bool.false_eq_true, ↓reduceIte]
  exact finalize_dead ok hH h

theorem sinkError_alive (ok : c.Ok) (hH : OnlyCc c H) {e : Nat} (h : Rep c true ul rg H cs out w) :
    WP (c.sc.sinkError e) w (Rep c false (ul && !rg) false H cs (out ++ [.error e])) := by
  simp only [Sctl.sinkError, sc_sub]
  apply rep_isSubR h
  simp only [↓reduceIte]
  apply rep_errorR_alive ok h
  intro w1 h1
  exact finalize_dead ok hH h1

theorem sinkError_dead (ok : c.Ok) (hH : OnlyCc c H) {e : Nat} (h : Rep c false ul rg H cs out w) :
    WP (c.sc.sinkError e) w (Rep c false (ul && !rg) false H cs out) := by
  simp only [Sctl.sinkError, sc_sub]
  apply rep_isSubR h
  simp only [Bool.false_eq_true, ↓reduceIte]
  exact finalize_dead ok hH h

/-- `sink_complete(&serial)` with a live downstream: the own entry leaves the map first, so the
    `finalize` that follows does NOT unsubscribe the upstream observer -/
theorem sinkComplete_alive (ok : c.Ok) (hH : OnlyCc c H) (h : Rep c true ul rg H cs out w) :
    WP (c.sc.sinkComplete 0) w (Rep c false ul false H cs (out ++ [.complete])) := by
  simp only [Sctl.sinkComplete, sc_sub, sc_map]
  apply rep_isSubR h
  simp only [↓reduceIte]
  apply rep_readMap h (Or.inr hH) ok
  rw [amapRemove_mapD]
  apply rep_writeMap (rg' := false) h (Or.inr hH) ok
  intro w1 h1
  simp only [amapLen_mapD_false, BEq.rfl, ↓reduceIte]
  apply rep_completeR_alive ok h1
  intro w2 h2
  apply (finalize_dead ok hH h2).conseq
  intro w3 h3
  simpa using h3

theorem sinkComplete_dead (ok : c.Ok) (hH : OnlyCc c H) (h : Rep c false ul rg H cs out w) :
    WP (c.sc.sinkComplete 0) w (Rep c false (ul && !rg) false H cs out) := by
  simp only [Sctl.sinkComplete, sc_sub]
  apply rep_isSubR h
  simp only [Bool.false_eq_true, ↓reduceIte]
  exact finalize_dead ok hH h

/-- `upstream_abort_observe(&serial)` -/
theorem abortObserve_spec (ok : c.Ok) (hH : OnlyCc c H) (h : Rep c al ul rg H cs out w) :
    WP (c.sc.abortObserve 0) w (Rep c al (ul && !rg) false H cs out) := by
  simp only [Sctl.abortObserve, sc_map]
  apply rep_lockAcq h (hH.noconf _ (cm_ne c ok) true)
  intro w1 h1
  apply rep_readMap h1 (Or.inl rfl) ok
  rw [amapRemove_mapD]
  apply rep_writeMap (rg' := false) h1 (Or.inl rfl) ok
  intro w2 h2
  apply WP.seq
  cases rg with
  | true =>
    rw [amapGet_mapD_true]
    simp only [toNat_U]
    apply rep_unsubU ok h2
    intro w3 h3
    apply WP.done
    apply rep_lockRel h3
    intro w4 h4
    apply WP.done
    simpa using h4
  | false =>
    rw [amapGet_mapD_false]
    apply WP.done
    apply rep_lockRel h2
    intro w4 h4
    apply WP.done
    simpa using h4

end macros

/-! ### agreement with `KRun.act` -/

/-- What the machine really does for one action.  It is `KRun.act` except for `abortSelf`:
    `upstream_abort_observe` unsubscribes the upstream observer only if its serial is still in the map
    (stream_controller.rs: `if let Some(o) = observers.remove(serial) { o.call(()) }`), whereas
    `KRun.act` sets `cancelled := true` unconditionally. -/
def actX (r : KRun) : Act → KRun
  | .abortSelf => { r with cancelled := r.cancelled || r.registered, registered := false }
  | a => r.act a

def actsX (r : KRun) (as : List Act) : KRun := as.foldl actX r

/-- `t`: the upstream observer has consumed its own terminal (then it is dead whatever `cancelled` says) -/
def RepK (c : Cfg) (t : Bool) (r : KRun) (H : List (LockId × Bool)) (cs : Data) (w : World) : Prop :=
  Rep c r.alive (!(r.cancelled || t)) r.registered H cs r.out w

section acts
variable {c : Cfg} {t : Bool} {H : List (LockId × Bool)} {cs : Data} {w : World}

theorem emitAll_spec (ds : List Data) : ∀ (r : KRun) (w : World),
    RepK c t r H cs w → WP (emitAllP c.sc ds) w (RepK c t (r.act (.emitAll ds)) H cs) := by
  induction ds with
  | nil =>
    intro r w h
    simp only [emitAllP]
    apply WP.done
    cases hr : r.alive <;> simpa [actX, KRun.act, hr, RepK] using h
  | cons d ds ih =>
    intro r w h
    simp only [emitAllP, Sctl.isSub, sc_sub]
    unfold RepK at h
    apply rep_isSubR h
    cases hr : r.alive with
    | false =>
      simp only [Bool.false_eq_true, ↓reduceIte]
      apply WP.done
      simpa [actX, KRun.act, hr, RepK] using h
    | true =>
      simp only [↓reduceIte]
      rw [hr] at h
      apply WP.seq
      apply (sinkNext_alive (d := d) h).conseq
      intro w1 h1
      have h1' : RepK c t { r with out := r.out ++ [.next d] } H cs w1 := by
        simpa [RepK, hr] using h1
      apply (ih _ _ h1').conseq
      intro w2 h2
      simpa [actX, KRun.act, hr, RepK] using h2

theorem act_spec (ok : c.Ok) (hH : OnlyCc c H) (a : Act) (r : KRun) (w : World)
    (h : RepK c t r H cs w) : WP (actP c.sc 0 a) w (RepK c t (actX r a) H cs) := by
  cases a with
  | emit d =>
    simp only [actP]
    unfold RepK at h
    cases hr : r.alive with
    | true =>
      rw [hr] at h
      apply (sinkNext_alive (d := d) h).conseq
      intro w1 h1
      simpa [actX, KRun.act, hr, RepK] using h1
    | false =>
      rw [hr] at h
      apply (sinkNext_dead ok hH (d := d) h).conseq
      intro w1 h1
      cases hc : r.cancelled <;> cases hg : r.registered <;> cases t <;>
        simpa [actX, KRun.act, hr, RepK, hc, hg] using h1
  | emitAll ds => exact emitAll_spec ds r w h
  | fail e =>
    simp only [actP]
    unfold RepK at h
    cases hr : r.alive with
    | true =>
      rw [hr] at h
      apply (sinkError_alive ok hH (e := e) h).conseq
      intro w1 h1
      cases hc : r.cancelled <;> cases hg : r.registered <;> cases t <;>
        simpa [actX, KRun.act, hr, RepK, hc, hg] using h1
    | false =>
      rw [hr] at h
      apply (sinkError_dead ok hH (e := e) h).conseq
      intro w1 h1
      cases hc : r.cancelled <;> cases hg : r.registered <;> cases t <;>
        simpa [actX, KRun.act, hr, RepK, hc, hg] using h1
  | complete =>
    simp only [actP]
    unfold RepK at h
    cases hr : r.alive with
    | true =>
      rw [hr] at h
      apply (sinkComplete_alive ok hH h).conseq
      intro w1 h1
      simpa [actX, KRun.act, hr, RepK] using h1
    | false =>
      rw [hr] at h
      apply (sinkComplete_dead ok hH h).conseq
      intro w1 h1
      cases hc : r.cancelled <;> cases hg : r.registered <;> cases t <;>
        simpa [actX, KRun.act, hr, RepK, hc, hg] using h1
  | abortSelf =>
    simp only [actP]
    unfold RepK at h
    apply (abortObserve_spec ok hH h).conseq
    intro w1 h1
    cases hc : r.cancelled <;> cases hg : r.registered <;> cases t <;>
      simpa [actX, RepK, hc, hg] using h1
  | finalize =>
    simp only [actP]
    unfold RepK at h
    apply (finalize_spec ok hH h).conseq
    intro w1 h1
    cases hc : r.cancelled <;> cases hg : r.registered <;> cases t <;>
      simpa [actX, KRun.act, RepK, hc, hg] using h1

theorem acts_spec (ok : c.Ok) (hH : OnlyCc c H) (as : List Act) : ∀ (r : KRun) (w : World),
    RepK c t r H cs w → WP (actsP c.sc 0 as) w (RepK c t (actsX r as) H cs) := by
  induction as with
  | nil =>
    intro r w h
    exact WP.done h
  | cons a as ih =>
    intro r w h
    simp only [actsP, forEach]
    apply WP.seq
    apply (act_spec ok hH a r w h).conseq
    intro w1 h1
    exact ih _ _ h1

end acts

end Rx.Sim
