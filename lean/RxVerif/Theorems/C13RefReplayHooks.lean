import RxVerif.Theorems.C13RefReplayRel
/-
C13-REF, replay: the two hooks of replay.rs (= ref_count.rs:41-90) on the inner Subject.
-/
namespace Rx.CRef
open Rx.Sim Rx.SubjM Rx.Ref Rx.RefR

def KCa (cacs : List Nat) (j : Nat) : Prop := j = 0 ∨ j ∈ cacs

theorem URr.touchConns {L cobs cacs pend unst Hd cg sb cn w w' s} (h : URr L cobs cacs pend unst Hd cg sb cn w s)
    (t : Touch (InList cobs) (KCa cacs) w w') (htr : w'.trace = w.trace) :
    URr L cobs cacs pend unst Hd cg sb cn w' s := by
  obtain ⟨g, U, X⟩ := h
  have hfix : ∀ i, 2 ≤ i → i ≤ 9 → ¬ KCa cacs i := by
    intro i h2 h9 hk
    rcases hk with hk | hk
    · omega
    · have := (X.caGe i hk).1; omega
  refine ⟨g.touch t, ?_, X.touch t ⟨hfix 7 (by omega) (by omega), hfix 8 (by omega) (by omega), hfix 9 (by omega) (by omega)⟩⟩
  refine U.frameW t.users (Nat.le_of_eq t.cellsLen.symm) (fun i h2 h6 => t.cells _ (hfix i h2 (by omega))) ?_ ?_ ?_
  · intro c hc
    refine t.cells _ (fun hk => ?_)
    rcases hk with hk | hk
    · have := (U.cellsGe c hc).1; omega
    · exact X.caDisj c hk hc
  · intro j hj
    refine t.obs _ (fun hm => ?_)
    exact (List.nodup_append.1 g.nodup).2.2 _ hj _ hm rfl
  · intro u; simp only [logOf, htr]

theorem RelRp.flags {L cobs cacs armed pend unst Hd w} {st st' : ConnM.State}
    (h : RelRp L cobs cacs armed pend unst Hd w st)
    (h1 : st'.sub = st.sub) (h2 : st'.conns = st.conns) (h3 : st'.connecting = st.connecting)
    (h4 : st'.subscription = st.subscription) (h5 : st'.cancelled = st.cancelled) :
    RelRp L cobs cacs armed pend unst Hd w st' := by
  unfold RelRp at *
  rw [h2, h3, h4, h5]
  exact ⟨h.glob, h.held, by rw [h1]; exact h.ur, by rw [h2]; exact h.conns⟩

/-- `Subscription::unsubscribe` of source subscription `i` -/
theorem srcUnsubR_spec {L cobs cacs armed pend unst Hd w st} (h : RelRp L cobs cacs armed pend unst Hd w st)
    {i : Nat} (hi : i < st.conns.length) :
    WP (subUnsub (.pair (.int (rootAt cobs i : Nat)) (.int (rootAt cacs i : Nat)))) w (fun w' =>
      RelRp L cobs cacs (armed.set i false) pend unst Hd w' { st with conns := st.conns.set i false }) := by
  obtain ⟨g, U, X⟩ := h.ur
  have hlc : cacs.length = st.conns.length := by rw [X.lenCa, h.conns.lenC]
  have hca : ∀ j, j < st.conns.length → 10 ≤ rootAt cacs j := fun j hj =>
    (X.caGe _ (rootAt_mem (hlc ▸ hj))).1
  refine (srcUnsub_spec (K := KCa cacs) h.held h.conns g X.slot1
    (fun j hj => by have := hca j hj; simp [Hp]; omega)
    (fun a b ha hb e => rootAt_inj X.caNodup (hlc ▸ ha) (hlc ▸ hb) e)
    ⟨Or.inl rfl, fun j hj => Or.inr (rootAt_mem (hlc ▸ hj))⟩ hi).conseq ?_
  rintro w1 ⟨C1, t1, htr⟩
  exact ⟨h.glob.touch t1, t1.held ▸ h.held, h.ur.touchConns t1 htr, C1⟩

/-- `on_unsubscribe(len)` (replay.rs:41-50) = `ConnM.onUnsubscribe` -/
theorem onUnsubHookR_spec {L cobs cacs armed pend unst Hd w st} (h : RelRp L cobs cacs armed pend unst Hd w st)
    (len0 : Nat) :
    WP (onUnsubHook rcR (.int (len0 : Nat))) w (fun w' => ∃ armed',
      RelRp L cobs cacs armed' pend unst Hd w' (ConnM.onUnsubscribe st (some len0))) := by
  obtain ⟨g, U, X⟩ := h.ur
  unfold onUnsubHook ConnM.onUnsubscribe
  have hti : (Data.int (len0 : Nat)).toInt = (len0 : Int) := rfl
  simp only [hti]
  by_cases h0 : len0 = 0
  · subst h0
    simp only [Int.natCast_zero, beq_self_eq_true, ↓reduceIte]
    refine wp_cellReadG h.held ?_
    rw [show w.cells[rcR.subscription]? = some (subCellR cobs cacs st.subscription) from X.cellB]
    simp only [Option.getD_some]
    cases hsb : st.subscription with
    | none =>
      simp only [subCellR]
      refine wp_cellWriteG h.held (WP.done ⟨armed, ?_⟩)
      have g1 : Glob (L.roots ++ L.fwds) cobs { w with cells := w.cells.set rcR.cancelled (.bool true) } :=
        ⟨g.status, g.nObs, g.rootsLt, g.cobsLt, g.nodup⟩
      refine ⟨g1, h.held, ⟨g1, ?_, ?_⟩, ?_⟩
      · refine U.frameW rfl (by simp) (fun i _ h6 => set_get_other _ (by simp [rcR]; omega)) ?_ (fun _ _ => rfl)
          (fun _ => rfl)
        intro c hc
        refine set_get_other _ (fun e => ?_)
        have h9 : (9 : Nat) = c := e
        have hm : (9 : Nat) ∈ L.sbs ++ L.acs := h9 ▸ hc
        have := (U.cellsGe 9 hm).1; omega
      · simp only [Option.isNone_none, Bool.or_true]
        exact
          { X with
            cellG := by show (w.cells.set 9 _)[7]? = _; rw [set_get_other _ (by decide)]; exact X.cellG
            cellB := by show (w.cells.set 9 _)[8]? = _; rw [set_get_other _ (by decide)]; exact hsb ▸ X.cellB
            cellN := set_get_same _ X.cellN
            sbLt := fun i hi => by cases hi
            caGe := fun c hc => by simpa using X.caGe c hc }
      · refine h.conns.frame (set_get_other _ (by decide)) (set_get_other _ (by decide)) (fun _ _ => rfl) ?_
        intro i hi
        have : 10 ≤ rootAt cacs i := (X.caGe _ (rootAt_mem (by rw [X.lenCa, h.conns.lenC]; exact hi))).1
        exact set_get_other _ (by simp [rcR]; omega)
    | some i =>
      simp only [subCellR]
      have hi : i < st.conns.length := by rw [← h.conns.lenC]; exact X.sbLt i hsb
      refine (srcUnsubR_spec h hi).conseq ?_
      intro w' h'
      exact ⟨_, h'.flags rfl rfl rfl hsb.symm (by simp)⟩
  · have : ((len0 : Int) == 0) = false := by
      rw [beq_eq_false_iff_ne]; intro e; exact h0 (by omega)
    simp only [this, Bool.false_eq_true, ↓reduceIte]
    have hne : ¬ (some len0 = some 0) := by simpa using h0
    rw [if_neg hne]
    exact WP.done ⟨armed, h⟩

theorem ConnsPart.acell_congr {H fn fe fc acell acell' cobs w hmap conns armed}
    (h : ConnsPart H fn fe fc acell cobs w hmap conns armed) (he : ∀ i, i < conns.length → acell' i = acell i) :
    ConnsPart H fn fe fc acell' cobs w hmap conns armed :=
  { h with acell := fun i hi => by rw [he i hi]; exact h.acell i hi }

/-- the world right after `connecting = true`, `source.subscribe(..)` and `self.subscription = Some(handle)` -/
def connectedWorldR (w : World) (hmap : List (Nat × Nat)) (m : Nat) : World :=
  { connWorld Hp fnR feR fcR { w with cells := w.cells.set 7 (.bool true) } hmap m with
    cells := (connWorld Hp fnR feR fcR { w with cells := w.cells.set 7 (.bool true) } hmap m).cells.set 8
      (.pair (.int (w.obs.length : Nat)) (.int (w.cells.length : Nat))) }

theorem connected_midR {L cobs cacs armed pend unst Hd w st} (h : RelRp L cobs cacs armed pend unst Hd w st) :
    RelRp L (cobs ++ [w.obs.length]) (cacs ++ [w.cells.length]) (armed ++ [true]) pend unst Hd
      (connectedWorldR w (liveFrom 0 cobs st.conns) st.conns.length)
      { st with connecting := true, subscription := some st.conns.length, conns := st.conns ++ [true] } := by
  obtain ⟨g, U, X⟩ := h.ur
  have hm : st.conns.length = cobs.length := h.conns.lenC.symm
  have hmc : st.conns.length = cacs.length := by rw [hm, X.lenCa]
  have h9 : 9 < w.cells.length := lt_of_getElem?_some X.cellN
  have hcl1 : ({ w with cells := w.cells.set 7 (.bool true) } : World).cells.length = w.cells.length := by simp
  have g1 : Glob (L.roots ++ L.fwds) cobs { w with cells := w.cells.set 7 (.bool true) } :=
    ⟨g.status, g.nObs, g.rootsLt, g.cobsLt, g.nodup⟩
  have hca : ∀ i, i < st.conns.length → 10 ≤ rootAt cacs i ∧ rootAt cacs i < w.cells.length := fun i hi =>
    X.caGe _ (rootAt_mem (hmc ▸ hi))
  have C0 : ConnsPart Hp fnR feR fcR (rootAt (cacs ++ [w.cells.length])) cobs w (liveFrom 0 cobs st.conns)
      st.conns armed := h.conns.acell_congr (fun i hi => rootAt_append_lt _ _ (hmc ▸ hi))
  have C1 : ConnsPart Hp fnR feR fcR (rootAt (cacs ++ [w.cells.length])) cobs
      { w with cells := w.cells.set 7 (.bool true) } (liveFrom 0 cobs st.conns) st.conns armed :=
    C0.frame (set_get_other _ (by decide)) (set_get_other _ (by decide)) (fun _ _ => rfl)
      (fun i hi => set_get_other _ (by rw [rootAt_append_lt _ _ (hmc ▸ hi)]; have := (hca i hi).1; omega))
  have hnew : rootAt (cacs ++ [w.cells.length]) st.conns.length =
      ({ w with cells := w.cells.set 7 (.bool true) } : World).cells.length := by
    rw [hcl1, hmc, rootAt_append_last]
  have C2 := connWorld_conns C1 g1
    (fun i hi => by rw [rootAt_append_lt _ _ (hmc ▸ hi)]; have := (hca i hi).1; simp [Hp]; omega) hnew
  have g2 := connWorld_glob (H := Hp) (fn := fnR) (fe := feR) (fc := fcR) g1 (liveFrom 0 cobs st.conns) st.conns.length
  have hcells : ∀ i, i ≠ 0 → i ≠ 1 → i ≠ 7 → i ≠ 8 → i < w.cells.length →
      (connectedWorldR w (liveFrom 0 cobs st.conns) st.conns.length).cells[i]? = w.cells[i]? := by
    intro i h0 h1 h7 h8 hi
    show ((connWorld Hp fnR feR fcR _ _ _).cells.set 8 _)[i]? = _
    rw [set_get_other _ (Ne.symm h8), connWorld_cells Hp fnR feR fcR _ _ _ h0 h1 (by rw [hcl1]; exact hi)]
    exact set_get_other _ (Ne.symm h7)
  have hlenF : (connectedWorldR w (liveFrom 0 cobs st.conns) st.conns.length).cells.length = w.cells.length + 1 := by
    show ((connWorld Hp fnR feR fcR _ _ _).cells.set 8 _).length = _
    rw [List.length_set, connWorld_cellsLen, hcl1]
  have g3 : Glob (L.roots ++ L.fwds) (cobs ++ [w.obs.length])
      (connectedWorldR w (liveFrom 0 cobs st.conns) st.conns.length) :=
    ⟨g2.status, g2.nObs, g2.rootsLt, g2.cobsLt, g2.nodup⟩
  refine ⟨g3, h.held, ⟨g3, ?_, ?_⟩, ?_⟩
  · refine U.frameW rfl (by rw [hlenF]; omega)
      (fun i h2 h6 => hcells i (by omega) (by omega) (by omega) (by omega) (by omega)) ?_ ?_ (fun _ => rfl)
    · intro c hc
      have := U.cellsGe c hc
      exact hcells c (by omega) (by omega) (by omega) (by omega) this.2
    · intro j hj
      exact connWorld_obs_lt Hp fnR feR fcR _ (liveFrom 0 cobs st.conns) st.conns.length (g.rootsLt _ hj)
  · refine
      { held := X.held, slot0 := X.slot0, slot1 := X.slot1, slot2 := X.slot2, slot3 := X.slot3
        obsvS := X.obsvS
        cellG := ?_, cellB := ?_, cellN := ?_, sbLt := ?_, lenCa := by simp [X.lenCa]
        caNodup := ?_, caGe := ?_, caDisj := ?_ }
    · show ((connWorld Hp fnR feR fcR _ _ _).cells.set 8 _)[7]? = _
      rw [set_get_other _ (by decide), connWorld_cells Hp fnR feR fcR _ _ _ (by decide) (by decide)
        (by rw [hcl1]; omega)]
      exact set_get_same _ X.cellG
    · show ((connWorld Hp fnR feR fcR _ _ _).cells.set 8 _)[8]? = _
      have : (connWorld Hp fnR feR fcR { w with cells := w.cells.set 7 (.bool true) } (liveFrom 0 cobs st.conns)
          st.conns.length).cells[8]? = some (subCellR cobs cacs st.subscription) := by
        rw [connWorld_cells Hp fnR feR fcR _ _ _ (by decide) (by decide) (by rw [hcl1]; omega)]
        show (w.cells.set 7 _)[8]? = _
        rw [set_get_other _ (by decide)]; exact X.cellB
      rw [set_get_same _ this]
      simp only [subCellR]
      rw [hm, rootAt_append_last, ← hm, hmc, rootAt_append_last]
    · exact (hcells 9 (by decide) (by decide) (by decide) (by decide) h9).trans X.cellN
    · intro i hi
      have : i = st.conns.length := (Option.some.inj hi).symm
      simp; omega
    · rw [List.nodup_append]
      refine ⟨X.caNodup, by simp, ?_⟩
      intro a ha b hb
      simp at hb; subst hb
      have := (X.caGe a ha).2; omega
    · intro c hc
      rw [hlenF]
      rcases List.mem_append.1 hc with hc | hc
      · have := X.caGe c hc; omega
      · simp at hc; subst hc; omega
    · intro c hc
      rcases List.mem_append.1 hc with hc | hc
      · exact X.caDisj c hc
      · simp at hc; subst hc
        intro hm2
        have := (U.cellsGe _ hm2).2; omega
  · refine C2.frame ?_ ?_ (fun _ _ => rfl) ?_
    · exact set_get_other _ (by decide)
    · exact set_get_other _ (by decide)
    · intro i hi
      simp only [List.length_append, List.length_cons, List.length_nil] at hi
      refine set_get_other _ ?_
      by_cases e : i = st.conns.length
      · rw [e, hmc, rootAt_append_last]; omega
      · rw [rootAt_append_lt _ _ (by omega)]; have := (hca i (by omega)).1; omega

theorem onSubscribeR_skip (st : ConnM.State) (len1 : Nat) (h : ¬ (len1 = 1 ∧ st.connecting = false)) :
    ConnM.onSubscribe .replay .hot st (some len1) = st := by
  unfold ConnM.onSubscribe
  rw [if_neg]
  simpa using h

theorem onSubscribeR_fire (st : ConnM.State) (h : st.connecting = false) :
    ConnM.onSubscribe .replay .hot st (some 1) =
      { st with
        connecting := true
        subscription := some st.conns.length
        conns := if st.cancelled then (st.conns ++ [true]).set st.conns.length false else st.conns ++ [true] } := by
  simp [ConnM.onSubscribe, ConnM.connectSource, h]

/-- `on_subscribe(len)` (replay.rs:57-90) = `ConnM.onSubscribe` -/
theorem onSubHookR_spec {L cobs cacs armed pend unst Hd w st} (h : RelRp L cobs cacs armed pend unst Hd w st)
    (len1 : Nat) :
    WP (onSubHook rcR srcC fnR feR fcR (.int (len1 : Nat))) w (fun w' => ∃ cobs' cacs' armed',
      RelRp L cobs' cacs' armed' pend unst Hd w' (ConnM.onSubscribe .replay .hot st (some len1))) := by
  obtain ⟨g, U, X⟩ := h.ur
  unfold onSubHook
  have hti : (Data.int (len1 : Nat)).toInt = (len1 : Int) := rfl
  simp only [hti]
  by_cases h1 : len1 = 1
  · subst h1
    simp only [Int.natCast_one, beq_self_eq_true, ↓reduceIte]
    refine wp_cellReadG h.held ?_
    rw [show w.cells[rcR.connected]? = some (.bool st.connecting) from X.cellG]
    simp only [Option.getD_some, toBool_bool]
    cases hc : st.connecting with
    | true =>
      simp only [↓reduceIte]
      refine WP.done ⟨cobs, cacs, armed, ?_⟩
      rw [onSubscribeR_skip st 1 (by simp [hc])]; exact h
    | false =>
      simp only [Bool.false_eq_true, ↓reduceIte]
      refine wp_cellWriteG h.held ?_
      have hm : st.conns.length = cobs.length := h.conns.lenC.symm
      refine connect_pre (H := Hp) (hid := 0) (fn := fnR) (fe := feR) (fc := fcR)
        (hmap := liveFrom 0 cobs st.conns) (m := st.conns.length) h.held h.conns.obsv X.slot0 h.conns.ne
        (by show (w.cells.set 7 _)[0]? = _; rw [set_get_other _ (by decide)]; exact h.conns.cellO)
        (by show (w.cells.set 7 _)[1]? = _; rw [set_get_other _ (by decide)]; exact h.conns.cellS)
        (fun p hp => by have := (liveFrom_keys 0 cobs st.conns p hp).2; omega) ?_
      have hmid := connected_midR h
      have hheld : (connWorld Hp fnR feR fcR { w with cells := w.cells.set 7 (.bool true) }
          (liveFrom 0 cobs st.conns) st.conns.length).held = w.held := rfl
      refine wp_cellWriteG (hheld ▸ h.held) ?_
      refine wp_cellReadG (hheld ▸ h.held) ?_
      simp only [List.length_set]
      have hcn9 : ((connWorld Hp fnR feR fcR { w with cells := w.cells.set rcR.connected (.bool true) }
          (liveFrom 0 cobs st.conns) st.conns.length).cells.set rcR.subscription
          (.pair (.int (w.obs.length : Nat)) (.int (w.cells.length : Nat))))[rcR.cancelled]? =
          some (.bool st.cancelled) := hmid.ur.2.2.cellN
      rw [hcn9]
      simp only [Option.getD_some, toBool_bool]
      show WP _ (connectedWorldR w (liveFrom 0 cobs st.conns) st.conns.length) _
      rw [onSubscribeR_fire st hc]
      cases hcn : st.cancelled with
      | false =>
        simp only [Bool.false_eq_true, ↓reduceIte]
        exact WP.done ⟨_, _, _, hmid.flags rfl rfl rfl rfl hcn.symm⟩
      | true =>
        simp only [↓reduceIte]
        have hmc : st.conns.length = cacs.length := by rw [hm, X.lenCa]
        have e1 : w.obs.length = rootAt (cobs ++ [w.obs.length]) st.conns.length := by
          rw [hm, rootAt_append_last]
        have e2 : w.cells.length = rootAt (cacs ++ [w.cells.length]) st.conns.length := by
          rw [hmc, rootAt_append_last]
        have eprog : subUnsub (.pair (.int (w.obs.length : Nat)) (.int (w.cells.length : Nat))) =
            subUnsub (.pair (.int (rootAt (cobs ++ [w.obs.length]) st.conns.length : Nat))
              (.int (rootAt (cacs ++ [w.cells.length]) st.conns.length : Nat))) := by rw [← e1, ← e2]
        rw [eprog]
        refine (srcUnsubR_spec hmid (i := st.conns.length)
          (by show _ < (st.conns ++ [true]).length; simp)).conseq ?_
        intro w' h'
        exact ⟨_, _, _, h'.flags rfl rfl rfl rfl hcn.symm⟩
  · have : ((len1 : Int) == 1) = false := by
      rw [beq_eq_false_iff_ne]; intro e; exact h1 (by omega)
    simp only [this, Bool.false_eq_true, ↓reduceIte]
    refine WP.done ⟨cobs, cacs, armed, ?_⟩
    rw [onSubscribeR_skip st len1 (by simp [h1])]; exact h

end Rx.CRef
