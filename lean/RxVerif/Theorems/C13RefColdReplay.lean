import RxVerif.Theorems.C13RefColdCountMain
/-
C13-REF, replay over a COLD source — model A's `refCountHooks` on a `ReplaySubject` (replay.rs) with the harness' cold
source refines `ConnM` (kind `.replay`, source `.cold script`): the relation and its operations.

World of `progRpc`: as `progRp` (cells 2,3 = inner Subject, 4 = items, 5 = was_error, 6 = was_completed, 7 =
`connecting`, 8 = `subscription`, 9 = `cancelled`; slots 2,3 = the two closures), observable 0 = the cold source;
cells 0,1 / slots 0,1 = an unused Subject.
-/
namespace Rx.CRef
open Rx.Sim Rx.SubjM Rx.Ref Rx.RefR

/-- the users' side of a cold replay world; `cobsX` lags one behind `cobsG` while the script runs -/
def URrc (script : List Ev) (L : LayR) (cobsG cobsX cacs : List Nat) (pend unst : Option Nat)
    (Hd : List (LockId × Bool)) (cg : Bool) (sb : Option Nat) (cn : Bool) (w : World) (s : SubjM.State) : Prop :=
  Glob (L.roots ++ L.fwds) cobsG w ∧ UsersPartR L pend unst w s ∧ ExtrasR L cobsX cacs Hd cg sb cn w ∧
  w.obsvs[0]? = some (coldSrc script)

/-- nothing has been emitted into the ReplaySubject before the (only) connect -/
def Pristine (st : ConnM.State) : Prop :=
  st.connecting = false → st.sub.items = [] ∧ st.sub.wasError = none ∧ st.sub.wasCompleted = false

structure RelRpc (script : List Ev) (L : LayR) (cobs cacs : List Nat) (armed : List Bool) (pend unst : Option Nat)
    (Hd : List (LockId × Bool)) (w : World) (st : ConnM.State) : Prop where
  inv : ColdInv (URrc script L cobs cobs cacs pend unst Hd st.connecting st.subscription st.cancelled) fnR feR fcR
    (rootAt cacs) (L.roots ++ L.fwds) cobs w st armed
  full : armed.length = st.conns.length
  pristine : Pristine st

theorem RelRpc.ur {script L cobs cacs armed pend unst Hd w st} (h : RelRpc script L cobs cacs armed pend unst Hd w st) :
    URr L cobs cacs pend unst Hd st.connecting st.subscription st.cancelled w st.sub :=
  ⟨h.inv.ur.1, h.inv.ur.2.1, h.inv.ur.2.2.1⟩

theorem URrc.conn {script L cobsG cobsX cacs pend unst Hd cg sb cn w s}
    (h : URrc script L cobsG cobsX cacs pend unst Hd cg sb cn w s) (i : Nat) (hi : i < cobsG.length) :
    URrc script L cobsG cobsX cacs pend unst Hd cg sb cn (w.setObs (rootAt cobsG i) Obs.cleared) s := by
  obtain ⟨g, U, X, hs⟩ := h
  refine ⟨g.touch (Touch.setObs (J := fun _ => True) (K := NoCell) w _ _ trivial), ?_, { X with }, hs⟩
  refine U.frameW rfl (Nat.le_refl _) (fun _ _ _ => rfl) (fun _ _ => rfl) ?_ (fun _ => rfl)
  intro j hj
  refine getElem?_setObs_other _ (fun e => ?_)
  exact (List.nodup_append.1 g.nodup).2.2 _ hj _ (rootAt_mem hi) e.symm

theorem URrc.probe {script L cobsG cobsX cacs pend unst Hd cg sb cn w s}
    (h : URrc script L cobsG cobsX cacs pend unst Hd cg sb cn w s) (t : Nat) (d : Data) :
    URrc script L cobsG cobsX cacs pend unst Hd cg sb cn (w.emit (.probe t d)) s := by
  obtain ⟨g, U, X, hs⟩ := h
  refine ⟨⟨g.status, g.nObs, g.rootsLt, g.cobsLt, g.nodup⟩, ?_, { X with }, hs⟩
  exact U.frameW rfl (Nat.le_refl _) (fun _ _ _ => rfl) (fun _ _ => rfl) (fun _ _ => rfl)
    (fun u => logOf_emit_probe w t d u)

theorem URrc.emit {script L cobsG cobsX cacs pend unst Hd cg sb cn w s} (ev : Ev) (hh : SlotReads w.held)
    (h : URrc script L cobsG cobsX cacs pend unst Hd cg sb cn w s) :
    WP (codeBody ev fnR feR fcR) w (fun w' =>
      URrc script L cobsG cobsX cacs pend unst Hd cg sb cn w' (emit .replay s ev) ∧ Touch (JR L) KR w w') := by
  obtain ⟨g, U, X, hs⟩ := h
  refine (emitL_spec hh g U ev).conseq ?_
  rintro w' ⟨U', t⟩
  exact ⟨⟨g.touch t, U', X.touch t ⟨by simp [KR], by simp [KR], by simp [KR]⟩, t.obsvs ▸ hs⟩, t⟩

theorem URrc.touchConns {script L cobs cobsX cacs pend unst Hd cg sb cn w w' s}
    (h : URrc script L cobs cobsX cacs pend unst Hd cg sb cn w s)
    (t : Touch (InList cobs) (KCa cacs) w w') (htr : w'.trace = w.trace) :
    URrc script L cobs cobsX cacs pend unst Hd cg sb cn w' s := by
  obtain ⟨g, U, X, hs⟩ := h
  have hfix : ∀ i, 2 ≤ i → i ≤ 9 → ¬ KCa cacs i := by
    intro i h2 h9 hk
    rcases hk with hk | hk
    · omega
    · have := (X.caGe i hk).1; omega
  refine ⟨g.touch t, ?_,
    X.touch t ⟨hfix 7 (by omega) (by omega), hfix 8 (by omega) (by omega), hfix 9 (by omega) (by omega)⟩, t.obsvs ▸ hs⟩
  refine U.frameW t.users (Nat.le_of_eq t.cellsLen.symm) (fun i h2 h6 => t.cells _ (hfix i h2 (by omega))) ?_ ?_ ?_
  · intro c hc
    refine t.cells _ (fun hk => ?_)
    rcases hk with hk | hk
    · have := (U.cellsGe c hc).1; omega
    · exact X.caDisj c hk hc
  · intro j hj
    refine t.obs _ (fun hm => ?_)
    exact (List.nodup_append.1 g.nodup).2.2 _ hj _ hm rfl
  · intro u; simp only [logOf, htr]

theorem RelRpc.flags {script L cobs cacs armed pend unst Hd w} {st st' : ConnM.State}
    (h : RelRpc script L cobs cacs armed pend unst Hd w st)
    (h1 : st'.sub = st.sub) (h2 : st'.conns = st.conns) (h3 : st'.connecting = st.connecting)
    (h4 : st'.subscription = st.subscription) (h5 : st'.cancelled = st.cancelled) :
    RelRpc script L cobs cacs armed pend unst Hd w st' := by
  refine ⟨?_, by rw [h2]; exact h.full, fun hc => by rw [h1]; exact h.pristine (h3 ▸ hc)⟩
  rw [h3, h4, h5]
  exact ⟨h.inv.glob, h.inv.held, by rw [h1]; exact h.inv.ur, by rw [h2]; exact h.inv.conns⟩

/-- the source side is not touched by what happens to a user (its observers, cells ≥ 10 that are no armed flags
    of source subscriptions, user events in the trace) -/
theorem RelRpc.ofUR {script L L' cobs cacs armed pend unst pend' unst' Hd Hd' w w'} {st st' : ConnM.State}
    (h : RelRpc script L cobs cacs armed pend unst Hd w st)
    (hur : URr L' cobs cacs pend' unst' Hd' st'.connecting st'.subscription st'.cancelled w' st'.sub)
    (hheld : SlotReads w'.held) (hobsvs : w'.obsvs = w.obsvs) (hconns : st'.conns = st.conns)
    (hobs : ∀ i, i < cobs.length → w'.obs[rootAt cobs i]? = w.obs[rootAt cobs i]?)
    (hac : ∀ c ∈ cacs, w'.cells[c]? = w.cells[c]?) (hp : probesOf w' = probesOf w)
    (hpr : Pristine st') : RelRpc script L' cobs cacs armed pend' unst' Hd' w' st' := by
  obtain ⟨g', U', X'⟩ := hur
  have hlc : cacs.length = st.conns.length := by rw [h.inv.ur.2.2.1.lenCa, h.inv.conns.lenC]
  refine ⟨⟨g', hheld, ⟨g', U', X', hobsvs ▸ h.inv.ur.2.2.2⟩, ?_⟩, by rw [hconns]; exact h.full, hpr⟩
  rw [hconns]
  refine h.inv.conns.frame (fun i hi => hobs i (h.inv.conns.lenC ▸ hi)) ?_ (coldObs_of_probes hp)
  intro i hi
  exact hac _ (rootAt_mem (by rw [hlc, ← h.full]; exact hi))

end Rx.CRef
