import RxVerif.Theorems.C03RefGSubj
/-
C03-REF (general form), part 4: `new_observer` for a new entity, subscribing an entity to its subject, the initial
world.
-/
namespace Rx.GRef
open Rx.Sim Rx.Ref Rx.Comb Rx.CRef

variable {L : GLay} {E : Ent} {hl : List (LockId × Bool)} {c : Ctl} {x : Fr} {out : List Ev} {w : World}

def fupd {α : Type} (f : Nat → α) (a : Nat) (v : α) : Nat → α := fun i => if i = a then v else f i

theorem fupd_same {α : Type} (f : Nat → α) (a : Nat) (v : α) : fupd f a v a = v := by simp [fupd]
theorem fupd_other {α : Type} (f : Nat → α) {a i : Nat} (v : α) (h : i ≠ a) : fupd f a v i = f i := by
  simp [fupd, h]

/-- entity `e` has been created for subject `j` but is not subscribed yet -/
def Ent.attach (E : Ent) (e j : Nat) : Ent := { E with sub := fupd E.sub e j, mode := fupd E.mode e .fresh }

/-- entity `e` (attached to subject `j`) has been registered there under the subject's next serial -/
def Ent.activate (E : Ent) (e j : Nat) : Ent :=
  { E with key := fupd E.key e (E.cnt j + 1), mode := fupd E.mode e .on, cnt := fupd E.cnt j (E.cnt j + 1) }

theorem known_add (c : Ctl) (e a : Nat) : known (c.addObserver e) a = (known c a || a == e) := by
  simp only [known, Ctl.addObserver, contains_append_one]
  cases c.live.contains a <;> cases c.reg.contains a <;> cases (a == e) <;> rfl

theorem inMap_attach (E : Ent) (c : Ctl) (e j j' : Nat) (hnl : c.live.contains e = false) :
    inMap (E.attach e j) (c.addObserver e) j' = inMap E c j' := by
  simp only [inMap, Ctl.addObserver, Ent.attach, List.filter_append]
  have h1 : ([e].filter fun a => fupd E.sub e j a == j' && (fupd E.mode e .fresh a).isOn) = [] := by
    simp [fupd_same, Mode.isOn]
  rw [h1, List.append_nil]
  apply List.filter_congr
  intro a ha
  have : a ≠ e := by
    intro q; subst q
    have : c.live.contains a = true := by simpa using ha
    rw [hnl] at this; cases this
  rw [fupd_other _ _ this, fupd_other _ _ this]

theorem innerSt_other {E E' : Ent} {c c' : Ctl} {a : Nat} {o : Obs} (hl : c'.live.contains a = c.live.contains a)
    (hs : E'.sub a = E.sub a) (hk : E'.key a = E.key a) (hm : E'.mode a = E.mode a)
    (h : InnerSt L E c a o) : InnerSt L E' c' a o := by
  unfold InnerSt hookE at *
  rw [hl, hs, hk, hm]; exact h

def fullObs (L : GLay) (e : Nat) (hook : Option Prog) : Obs :=
  ⟨some (.code (L.hn e)), some (.code (L.he e)), some (.code (L.hc e)), hook⟩

theorem known_false {c : Ctl} {e : Nat} (h : known c e = false) :
    c.live.contains e = false ∧ c.reg.contains e = false := by
  simp only [known, Bool.or_eq_false_iff] at h; exact h

/-- the world after `new_observer` for the new entity `e`, destined for subject `j` -/
theorem Rel.addObserver (ok : L.Ok) (h : Rel L E [] c x out w) {e j : Nat} (hj : j < L.k)
    (hnk : known c e = false) (hs : L.ser e = x.sv) (ho : L.ob e = x.no)
    (l : List Nat) (hm : w.cells[L.cm]? = some (encMap (l.map fun i => (L.ser i, L.ob i))))
    (hmem : ∀ i, i ∈ l ↔ i ∈ c.reg) :
    Rel L (E.attach e j) [] (c.addObserver e) { x with sv := x.sv + 1, no := x.no + 1 } out
      { w with
        cells := (w.cells.set L.cs (.int ((x.sv + 1 : Nat) : Int))).set L.cm
          (encMap ((l.map fun i => (L.ser i, L.ob i)) ++ [(x.sv, x.no)]))
        obs := w.obs ++ [fullObs L e none] } := by
  have h1' := ok.cs; have h2' := ok.cm; have h3' := ok.cx; have h4' := ok.ne1; have h5' := ok.ne2
  have h6' := ok.ne3
  have hnl := (known_false hnk).1
  have hc : ∀ n : Nat, n ≠ L.cs → n ≠ L.cm →
      ((w.cells.set L.cs (.int ((x.sv + 1 : Nat) : Int))).set L.cm
          (encMap ((l.map fun i => (L.ser i, L.ob i)) ++ [(x.sv, x.no)])))[n]? = w.cells[n]? := by
    intro n q1 q2
    rw [set_get_other _ (Ne.symm q2), set_get_other _ (Ne.symm q1)]
  have hkn : ∀ a, known (c.addObserver e) a = true → a ≠ e → known c a = true := by
    intro a ha hne
    rw [known_add] at ha
    have : (a == e) = false := by rw [beq_eq_false_iff_ne]; exact hne
    rw [this, Bool.or_false] at ha; exact ha
  have hlive : ∀ a, a ≠ e → (c.addObserver e).live.contains a = c.live.contains a := by
    intro a hne; simp only [Ctl.addObserver, contains_append_one]
    have : (a == e) = false := by rw [beq_eq_false_iff_ne]; exact hne
    rw [this, Bool.or_false]
  have hlen : 0 < w.obs.length := by
    rcases Nat.lt_or_ge 0 w.obs.length with q | q
    · exact q
    · have := h.root; rw [List.getElem?_eq_none q] at this; cases this
  exact
  { status := h.status, held := h.held, hlOk := h.hlOk
    root := by show (w.obs ++ _)[0]? = _; rw [List.getElem?_append_left hlen]; exact h.root
    user := h.user
    subLt := by
      intro a ha
      by_cases q : a = e
      · subst q; simp only [Ent.attach, fupd_same]; exact hj
      · simp only [Ent.attach, fupd_other _ _ q]; exact h.subLt a (hkn a ha q)
    ex := by
      intro a ha
      show _ < (w.obs ++ _).length
      rw [List.length_append]
      by_cases q : a = e
      · subst q; rw [ho, h.nObs]; simp
      · have := h.ex a (hkn a ha q); simp; omega
    subjO := by
      intro j' hj'
      show (List.set _ _ _)[_]? = _
      rw [hc _ (by omega) (by omega), inMap_attach E c e j j' hnl]
      have hk : (E.attach e j).key = E.key := rfl
      rw [hk]; exact h.subjO j' hj'
    subjS := by
      intro j' hj'
      show (List.set _ _ _)[_]? = _
      rw [hc _ (by omega) (by omega)]; exact h.subjS j' hj'
    keyLe := by
      intro a ha hma
      have q : a ≠ e := by intro q; subst q; exact hma (by simp [Ent.attach, fupd_same])
      simp only [Ent.attach, fupd_other _ _ q] at hma ⊢
      exact h.keyLe a (hkn a ha q) hma
    keyInj := by
      intro a b ha hb hma hmb
      have qa : a ≠ e := by intro q; subst q; exact hma (by simp [Ent.attach, fupd_same])
      have qb : b ≠ e := by intro q; subst q; exact hmb (by simp [Ent.attach, fupd_same])
      simp only [Ent.attach, fupd_other _ _ qa, fupd_other _ _ qb] at hma hmb ⊢
      exact h.keyInj a b (hkn a ha qa) (hkn b hb qb) hma hmb
    slots := h.slots, slotF := h.slotF
    mapC := by
      refine ⟨l ++ [e], ?_, ?_⟩
      · show (List.set _ _ _)[_]? = _
        rw [set_get_same _ (by rw [set_get_other _ h4']; exact hm)]
        simp [hs, ho]
      · intro i; simp only [Ctl.addObserver, List.mem_append, hmem i]
    serC := by
      refine ⟨?_, ?_⟩
      · show (List.set _ _ _)[_]? = _
        rw [set_get_other _ (Ne.symm h4'), set_get_same _ h.serC.1]
      · intro i hi
        simp only [Ctl.addObserver, List.mem_append, List.mem_singleton] at hi
        rcases hi with q | q
        · have := h.serC.2 i q; show _ < x.sv + 1; omega
        · rw [q, hs]; show _ < x.sv + 1; omega
    nObs := by show (w.obs ++ _).length = x.no + 1; rw [List.length_append, h.nObs]; rfl
    inner := by
      intro a o hoa
      have hoa' : (w.obs ++ [fullObs L e none])[L.ob a]? = some o := hoa
      by_cases q : a = e
      · subst q
        rw [ho, ← h.nObs] at hoa'
        simp at hoa'
        subst hoa'
        simp [InnerSt, Ctl.addObserver, Ent.attach, fupd_same, fullObs]
      · have hlt : L.ob a < w.obs.length := by
          rcases Nat.lt_or_ge (L.ob a) w.obs.length with r | r
          · exact r
          · rcases Nat.lt_or_ge w.obs.length (L.ob a) with r2 | r2
            · rw [List.getElem?_eq_none (by simp; omega)] at hoa'; cases hoa'
            · exact absurd (ok.obInj a e (by rw [ho, ← h.nObs]; omega)) q
        rw [List.getElem?_append_left hlt] at hoa'
        exact innerSt_other (E := E) (E' := E.attach e j) (hlive a q) (by simp [Ent.attach, fupd_other _ _ q]) rfl
          (by simp [Ent.attach, fupd_other _ _ q]) (h.inner a o hoa')
    xc := by
      show (List.set _ _ _)[_]?.getD _ = _
      rw [hc _ (Ne.symm h5') (Ne.symm h6')]; exact h.xc
    log := h.log }

/-- `StreamController::new_observer` (stream_controller.rs:41-82) with a live subscriber: the re-check after the
    registration finds the subscription still active -/
theorem newObserver_spec (ok : L.Ok) (h : Rel L E [] c x out w) (ha : c.alive = true) {e j : Nat} (hj : j < L.k)
    (hnk : known c e = false) (hs : L.ser e = x.sv) (ho : L.ob e = x.no)
    (n : Nat → Data → Prog) (ee : Nat → Nat → Prog) (cc : Nat → Prog)
    (hcode : fullObs L e none = ⟨some (.code (n x.sv)), some (.code (ee x.sv)), some (.code (cc x.sv)), none⟩)
    (K : Nat → Prog) {Q : World → Prop}
    (hk : ∀ w1, Rel L (E.attach e j) [] (c.addObserver e) { x with sv := x.sv + 1, no := x.no + 1 } out w1 →
      WP (K (L.ob e)) w1 Q) :
    WP (L.sc.newObserver n ee cc K) w Q := by
  have h4' := ok.ne1
  obtain ⟨l, hm, hmem⟩ := h.mapC
  have hA := h.addObserver ok hj hnk hs ho l hm hmem
  simp only [Sctl.newObserver, GLay.sc]
  refine wp_cellRead_val h.held h.serC.1 ?_
  simp only [toNat_int]
  refine wp_cellWrite h.held (wp_obsNew (wp_cellRead_val (v := encMap (l.map fun i => (L.ser i, L.ob i))) h.held
    (by show (w.cells.set _ _)[_]? = _; rw [set_get_other _ h4']; exact hm) ?_))
  have hcast : ((x.sv : Int) + 1) = ((x.sv + 1 : Nat) : Int) := by omega
  simp only [hcast]
  rw [amapInsert_encMap]
  · refine wp_cellWrite h.held ?_
    have e2 : ∀ (W : World) p Q, W = { w with
        cells := (w.cells.set L.cs (.int ((x.sv + 1 : Nat) : Int))).set L.cm
          (encMap ((l.map fun i => (L.ser i, L.ob i)) ++ [(x.sv, x.no)]))
        obs := w.obs ++ [fullObs L e none] } → WP p { w with
        cells := (w.cells.set L.cs (.int ((x.sv + 1 : Nat) : Int))).set L.cm
          (encMap ((l.map fun i => (L.ser i, L.ob i)) ++ [(x.sv, x.no)]))
        obs := w.obs ++ [fullObs L e none] } Q → WP p W Q := fun W p Q q hq => q ▸ hq
    refine e2 _ _ _ ?_ ?_
    · rw [hcode, h.nObs]
    · have hroot := hA.root
      rw [show (c.addObserver e).alive = true from ha] at hroot
      refine wp_obsIsSub hroot ?_
      simp only [rootObs, Obs.isSub, Option.isSome_some, Bool.and_self, ↓reduceIte]
      rw [h.nObs]
      have hk' := hk _ hA
      rw [ho] at hk'
      exact hk'
  · intro p hp
    simp only [List.mem_map] at hp
    obtain ⟨i, hi, rfl⟩ := hp
    have := h.serC.2 i ((hmem i).1 hi)
    simp only; omega

theorem mem_inMap {E : Ent} {c : Ctl} {j a : Nat} (h : a ∈ inMap E c j) :
    c.live.contains a = true ∧ E.sub a = j ∧ E.mode a = .on := by
  simp only [inMap, List.mem_filter, Bool.and_eq_true, beq_iff_eq, Mode.isOn_iff] at h
  exact ⟨by simpa using h.1, h.2.1, h.2.2⟩

/-- `observable.inner_subscribe(observer)` of the created-but-unsubscribed entity `e` to its subject `j`
    (subject.rs:61-93): it is registered under the subject's next serial, after the observers already there -/
theorem subscribe_ent (ok : L.Ok) (h : Rel L E [] c x out w) {e j : Nat} (hj : j < L.k) (hsub : E.sub e = j)
    (hfr : E.mode e = .fresh) (hlv : c.live.contains e = true)
    (hlast : inMap (E.activate e j) c j = inMap E c j ++ [e]) :
    WP ((sjOf j).observable.sub (L.ob e)) w (Rel L (E.activate e j) [] c x out) := by
  have h1' := ok.cs; have h2' := ok.cm; have h3' := ok.cx
  have hkn := known_live hlv
  obtain ⟨o, ho⟩ : ∃ o, w.obs[L.ob e]? = some o := ⟨_, List.getElem?_eq_getElem (h.ex e hkn)⟩
  have hst := h.inner e o ho
  simp only [InnerSt, hlv, ↓reduceIte, hfr] at hst
  subst hst
  simp only [Obsv.sub]
  refine wp_obsIsSub ho ?_
  simp only [Obs.isSub, Option.isSome_some, Bool.and_self, ↓reduceIte]
  have hkeys : ∀ p ∈ (inMap E c j).map (fun a => (E.key a, L.ob a)), p.1 ≤ E.cnt j := by
    intro p hp
    obtain ⟨a, ha, rfl⟩ := List.mem_map.1 hp
    obtain ⟨q1, q2, q3⟩ := mem_inMap ha
    have := h.keyLe a (known_live q1) (by rw [q3]; exact fun r => nomatch r)
    rw [q2] at this; exact this
  refine observable_spec (sj := sjOf j) (serial := E.cnt j)
    (obsl := (inMap E c j).map fun a => (E.key a, L.ob a)) h.held ho rfl (by simp [sjOf]) (h.subjS j hj)
    (h.subjO j hj) hkeys (h.slots _ (by simp [sjOf]; omega)) ?_
  have hc : ∀ n : Nat, n ≠ 2 * j → n ≠ 2 * j + 1 →
      (subWorld (sjOf j) w (L.ob e) (E.cnt j) ((inMap E c j).map fun a => (E.key a, L.ob a))).cells[n]? =
        w.cells[n]? := by
    intro n q1 q2
    simp only [subWorld, sjOf]
    rw [set_get_other _ (Ne.symm q1), set_get_other _ (Ne.symm q2)]
  have hne_e : ∀ a, E.mode a ≠ .fresh → a ≠ e := fun a hm q => hm (q ▸ hfr)
  have hkey' : ∀ a, a ≠ e → (E.activate e j).key a = E.key a := fun a q => fupd_other _ _ q
  have hmode' : ∀ a, a ≠ e → (E.activate e j).mode a = E.mode a := fun a q => fupd_other _ _ q
  have hcnt_le : ∀ j', E.cnt j' ≤ (E.activate e j).cnt j' := by
    intro j'; simp only [Ent.activate, fupd]; split
    · rename_i q; rw [q]; omega
    · exact Nat.le_refl _
  exact
  { status := h.status, held := h.held, hlOk := h.hlOk
    root := by
      show (w.obs.modify _ _)[0]? = _
      rw [modify_get_other _ _ (by have := ok.obPos e; omega)]; exact h.root
    user := h.user
    subLt := h.subLt
    ex := by intro a ha; show _ < (w.obs.modify _ _).length; rw [List.length_modify]; exact h.ex a ha
    subjO := by
      intro j' hj'
      by_cases q : j' = j
      · subst q
        simp only [subWorld, sjOf]
        rw [set_get_same _ (by rw [set_get_other _ (by omega)]; exact h.subjO _ hj'), hlast, List.map_append]
        congr 3
        · apply List.map_congr_left
          intro a ha
          rw [hkey' a (hne_e a (by rw [(mem_inMap ha).2.2]; exact fun r => nomatch r))]
        · simp [Ent.activate, fupd_same]
      · rw [hc _ (by omega) (by omega), h.subjO j' hj']
        have hin : inMap (E.activate e j) c j' = inMap E c j' := by
          simp only [inMap]
          apply List.filter_congr
          intro a _
          by_cases r : a = e
          · subst r
            have : ((E.activate a j).sub a == j') = false := by
              rw [beq_eq_false_iff_ne]; show E.sub a ≠ j'; rw [hsub]; exact fun r => q r.symm
            have h2 : (E.sub a == j') = false := by rw [beq_eq_false_iff_ne, hsub]; exact fun r => q r.symm
            rw [this, h2]; rfl
          · rw [hmode' a r]; rfl
        rw [hin]
        congr 2
        apply List.map_congr_left
        intro a ha
        have : a ≠ e := by intro r; subst r; exact q ((mem_inMap ha).2.1.symm.trans hsub)
        rw [hkey' a this]
    subjS := by
      intro j' hj'
      by_cases q : j' = j
      · subst q
        simp only [subWorld, sjOf]
        rw [set_get_other _ (by omega), set_get_same _ (h.subjS _ hj')]
        simp [Ent.activate, fupd_same]
      · rw [hc _ (by omega) (by omega), h.subjS j' hj']
        simp [Ent.activate, fupd_other _ _ q]
    keyLe := by
      intro a ha hma
      by_cases r : a = e
      · subst r
        show fupd E.key a (E.cnt j + 1) a ≤ fupd E.cnt j (E.cnt j + 1) (E.sub a)
        rw [fupd_same, hsub, fupd_same]; exact Nat.le_refl _
      · rw [hmode' a r] at hma
        rw [hkey' a r]
        exact Nat.le_trans (h.keyLe a ha hma) (hcnt_le _)
    keyInj := by
      intro a b ha hb hma hmb hs hkq
      have hbig : ∀ b', b' ≠ e → known c b' = true → (E.activate e j).mode b' ≠ .fresh → E.sub b' = j →
          (E.activate e j).key b' ≠ E.cnt j + 1 := by
        intro b' r hb' hmb' hsb' q
        rw [hmode' b' r] at hmb'; rw [hkey' b' r] at q
        have := h.keyLe b' hb' hmb'; rw [hsb'] at this; omega
      have hke : (E.activate e j).key e = E.cnt j + 1 := fupd_same _ _ _
      by_cases ra : a = e
      · by_cases rb : b = e
        · rw [ra, rb]
        · subst ra
          exact absurd (hkq ▸ hke) (hbig b rb hb hmb (hs ▸ hsub))
      · by_cases rb : b = e
        · subst rb
          exact absurd (hkq ▸ hke) (hbig a ra ha hma (hs.trans hsub))
        · rw [hmode' a ra] at hma; rw [hmode' b rb] at hmb; rw [hkey' a ra, hkey' b rb] at hkq
          exact h.keyInj a b ha hb hma hmb hs hkq
    slots := h.slots, slotF := h.slotF
    mapC := by
      obtain ⟨l, hm, hmem⟩ := h.mapC
      exact ⟨l, by rw [hc _ (by omega) (by omega)]; exact hm, hmem⟩
    serC := ⟨by rw [hc _ (by omega) (by omega)]; exact h.serC.1, h.serC.2⟩
    nObs := by show (w.obs.modify _ _).length = _; rw [List.length_modify]; exact h.nObs
    inner := by
      intro a oa hoa
      have hoa' : (w.obs.modify (L.ob e) _)[L.ob a]? = some oa := hoa
      by_cases r : a = e
      · subst r
        rw [modify_get_same _ _ ho] at hoa'
        cases hoa'
        simp only [InnerSt, hlv, ↓reduceIte, hookE]
        have hm1 : (E.activate a j).mode a = .on := fupd_same _ _ _
        have hk1 : (E.activate a j).key a = E.cnt j + 1 := fupd_same _ _ _
        have hs1 : (E.activate a j).sub a = j := hsub
        rw [hm1, hk1, hs1]
        rfl
      · rw [modify_get_other _ _ (fun q => r (ok.obInj _ _ q).symm)] at hoa'
        exact innerSt_other (E := E) (E' := E.activate e j) rfl rfl (hkey' a r) (hmode' a r) (h.inner a oa hoa')
    xc := by rw [hc _ (by omega) (by omega)]; exact h.xc
    log := h.log }

theorem Rel.setUser (h : Rel L E hl c x out w) (f : User → User) (hf : ∀ u, (f u).react = u.react) :
    Rel L E hl c x out (w.setUser 0 f) :=
  { h with
    user := by
      obtain ⟨u, hu, hr⟩ := h.user
      exact ⟨f u, modify_get_same _ _ hu, by rw [hf, hr]⟩ }

def E0 : Ent := ⟨fun _ => 0, fun _ => 0, fun _ => .fresh, fun _ => 0⟩

/-- the controller has just been created, no inner observer yet -/
theorem rel_init (ok : L.Ok) (hst : w.status = .ok) (hh : w.held = []) (hobs : w.obs = [rootObs L true])
    (hu : ∃ u, w.users[0]? = some u ∧ u.react = noReact)
    (hce : ∀ j, j < L.k → w.cells[2 * j]? = some .lnil) (hco : ∀ j, j < L.k → w.cells[2 * j + 1]? = some (.int 0))
    (hcs : w.cells[L.cs]? = some (.int ((0 : Nat) : Int))) (hcm : w.cells[L.cm]? = some (encMap []))
    (hsl : ∀ j, j < 2 * L.k → w.slots[j]? = some none) (hsf : w.slots[L.fin]? = some none)
    (hlog : logOf w 0 = []) :
    Rel L E0 [] ⟨true, [], []⟩ ⟨w.cells[L.cx]?.getD .unit, 0, 1⟩ [] w where
  status := hst
  held := hh
  hlOk := by intro p hp; cases hp
  root := by rw [hobs]; rfl
  user := hu
  subLt := by intro e he; simp [known] at he
  ex := by intro e he; simp [known] at he
  subjO := by intro j hj; rw [hce j hj]; rfl
  subjS := by intro j hj; rw [hco j hj]; rfl
  keyLe := by intro e he; simp [known] at he
  keyInj := by intro a b ha; simp [known] at ha
  slots := hsl
  slotF := hsf
  mapC := ⟨[], hcm, fun _ => Iff.rfl⟩
  serC := ⟨hcs, by intro i hi; cases hi⟩
  nObs := by rw [hobs]; rfl
  inner := by
    intro e o ho
    rw [hobs] at ho
    have := ok.obPos e
    rw [List.getElem?_eq_none (by simp; omega)] at ho; cases ho
  xc := rfl
  log := hlog

theorem Rel.regCount (h : Rel L E hl c x out w) {j : Nat} (hj : j < L.k) :
    regCount w j = (inMap E c j).length := by
  simp only [CRef.regCount, h.subjO j hj, Option.getD_some, amapLen_encMap, List.length_map]

end Rx.GRef
