import RxVerif.Theorems.SimCreate
import RxVerif.Theorems.C02b
/-
C02 on the MACHINE for every single-source operator over the creation functions: `from_iter(ds).op(..)` (and `range`, `just`,
`error`) subscribed in ANY ready world delivers exactly what the operator's ReactiveX list function assigns to the stream -
`SimCreate` (machine run = kernel run, every kernel) composed with C02a / C02b (kernel run = list specification, every input).
-/
namespace Rx.Sim
open Rx

/-- "subscribed in world `w` over `from_iter ds`, the machine run of `stdOp K` ends well, the new subscriber sees exactly
    `spec (ds, complete)` and nobody else is disturbed" -/
def FromIterSpec {σ} (K : Kernel σ) (spec : Stream → Stream) (ds : List Data) (w : World) : Prop :=
  ∃ N, ∀ fuel, N ≤ fuel →
    let w' := run fuel [subscribeOver K (oFromIter ds)] w
    w'.status = .ok ∧ logOf w' w.users.length = (spec (ds, .complete)).toEvs ∧
    (∀ s', s' ≠ w.users.length → logOf w' s' = logOf w s')

/-- one lemma for all operators: a kernel whose run is a list specification, over `from_iter` -/
theorem fromIter_machine_spec {σ} (K : Kernel σ) (hK : Kernel.WellEncoded K) (spec : Stream → Stream)
    (hs : ∀ s, K.run s = (spec s).toEvs) (ds : List Data) (w : World) (hw : Ready w) :
    FromIterSpec K spec ds w := by
  obtain ⟨N, h⟩ := stdOp_sim_fromIter K hK w hw ds
  exact ⟨N, fun fuel hf => ⟨(h fuel hf).1, by rw [(h fuel hf).2.1, hs], (h fuel hf).2.2.1⟩⟩

/-- the same over `range(a, n)` -/
theorem range_machine_spec {σ} (K : Kernel σ) (hK : Kernel.WellEncoded K) (spec : Stream → Stream)
    (hs : ∀ s, K.run s = (spec s).toEvs) (a : Int) (n : Nat) (w : World) (hw : Ready w) :
    ∃ N, ∀ fuel, N ≤ fuel →
      let w' := run fuel [subscribeOver K (oRange a n)] w
      w'.status = .ok ∧
      logOf w' w.users.length = (spec ((List.range n).map (fun (i : Nat) => Data.int (a + (i : Int))), .complete)).toEvs ∧
      (∀ s', s' ≠ w.users.length → logOf w' s' = logOf w s') := by
  obtain ⟨N, h⟩ := stdOp_sim_range K hK w hw a n
  exact ⟨N, fun fuel hf => ⟨(h fuel hf).1, by rw [(h fuel hf).2.1, hs], (h fuel hf).2.2.1⟩⟩

/-- the same over `error(e)`: what the operator makes of a source that only fails (C04: passthrough or handler) -/
theorem error_machine_spec {σ} (K : Kernel σ) (hK : Kernel.WellEncoded K) (spec : Stream → Stream)
    (hs : ∀ s, K.run s = (spec s).toEvs) (e : Nat) (w : World) (hw : Ready w) :
    ∃ N, ∀ fuel, N ≤ fuel →
      let w' := run fuel [subscribeOver K (oError e)] w
      w'.status = .ok ∧ logOf w' w.users.length = (spec ([], .error e)).toEvs ∧
      (∀ s', s' ≠ w.users.length → logOf w' s' = logOf w s') := by
  obtain ⟨N, h⟩ := stdOp_sim_error K hK w hw e
  exact ⟨N, fun fuel hf => ⟨(h fuel hf).1, by rw [(h fuel hf).2.1, hs], (h fuel hf).2.2.1⟩⟩

/-! ### the operators of the crate, one line each (`from_iter(ds).op`) -/
section ops
variable (ds : List Data) (w : World) (hw : Ready w)
include hw

theorem map_fromIter (f : Fn) : FromIterSpec (kMap f) (Spec.map f) ds w := fromIter_machine_spec (kMap f) (we_kMap f) (Spec.map f) (Rx.C02.map_spec f) ds w hw
theorem filter_fromIter (p : Pred) : FromIterSpec (kFilter p) (Spec.filter p) ds w := fromIter_machine_spec (kFilter p) (we_kFilter p) (Spec.filter p) (Rx.C02.filter_spec p) ds w hw
theorem take_fromIter (n : Nat) : FromIterSpec (kTake n) (Spec.take n) ds w := fromIter_machine_spec (kTake n) (we_kTake n) (Spec.take n) (Rx.C02.take_spec n) ds w hw
theorem skip_fromIter (n : Nat) : FromIterSpec (kSkip n) (Spec.skip n) ds w := fromIter_machine_spec (kSkip n) (we_kSkip n) (Spec.skip n) (Rx.C02.skip_spec n) ds w hw
theorem takeWhile_fromIter (p : Pred) : FromIterSpec (kTakeWhile p) (Spec.takeWhile p) ds w := fromIter_machine_spec (kTakeWhile p) (we_kTakeWhile p) (Spec.takeWhile p) (Rx.C02.takeWhile_spec p) ds w hw
theorem skipWhile_fromIter (p : Pred) : FromIterSpec (kSkipWhile p) (Spec.skipWhile p) ds w := fromIter_machine_spec (kSkipWhile p) (we_kSkipWhile p) (Spec.skipWhile p) (Rx.C02.skipWhile_spec p) ds w hw
theorem takeLast_fromIter (n : Nat) : FromIterSpec (kTakeLast n) (Spec.takeLast n) ds w := fromIter_machine_spec (kTakeLast n) (we_kTakeLast n) (Spec.takeLast n) (Rx.C02.takeLast_spec n) ds w hw
theorem skipLast_fromIter (n : Nat) : FromIterSpec (kSkipLast n) (Spec.skipLast n) ds w := fromIter_machine_spec (kSkipLast n) (we_kSkipLast n) (Spec.skipLast n) (Rx.C02.skipLast_spec n) ds w hw
theorem distinct_fromIter : FromIterSpec kDistinct Spec.distinctUntilChanged ds w := fromIter_machine_spec kDistinct we_kDistinct Spec.distinctUntilChanged Rx.C02.distinct_spec ds w hw
theorem scan_fromIter (f : Fn2) : FromIterSpec (kScan f) (Spec.scan f) ds w := fromIter_machine_spec (kScan f) (we_kScan f) (Spec.scan f) (Rx.C02.scan_spec f) ds w hw
theorem reduce_fromIter (f : Fn2) : FromIterSpec (kReduce f) (Spec.reduce f) ds w := fromIter_machine_spec (kReduce f) (we_kReduce f) (Spec.reduce f) (Rx.C02.reduce_spec f) ds w hw
theorem sum_fromIter : FromIterSpec kSum Spec.sum ds w := fromIter_machine_spec kSum we_kSum Spec.sum Rx.C02.sum_spec ds w hw
theorem min_fromIter : FromIterSpec kMin Spec.min ds w := fromIter_machine_spec kMin we_kMin Spec.min Rx.C02.min_spec ds w hw
theorem max_fromIter : FromIterSpec kMax Spec.max ds w := fromIter_machine_spec kMax we_kMax Spec.max Rx.C02.max_spec ds w hw
theorem count_fromIter : FromIterSpec kCount Spec.count ds w := fromIter_machine_spec kCount we_kCount Spec.count Rx.C02.count_spec ds w hw
theorem sumAndCount_fromIter : FromIterSpec kSumAndCount Spec.sumAndCount ds w := fromIter_machine_spec kSumAndCount we_kSumAndCount Spec.sumAndCount Rx.C02.sumAndCount_spec ds w hw
theorem contains_fromIter (t : Data) : FromIterSpec (kContains t) (Spec.contains t) ds w := fromIter_machine_spec (kContains t) (we_kContains t) (Spec.contains t) (Rx.C02.contains_spec t) ds w hw
theorem defaultIfEmpty_fromIter (d : Data) : FromIterSpec (kDefaultIfEmpty d) (Spec.defaultIfEmpty d) ds w := fromIter_machine_spec (kDefaultIfEmpty d) (we_kDefaultIfEmpty d) (Spec.defaultIfEmpty d) (Rx.C02.defaultIfEmpty_spec d) ds w hw
theorem ignoreElements_fromIter : FromIterSpec kIgnoreElements Spec.ignoreElements ds w := fromIter_machine_spec kIgnoreElements we_kIgnoreElements Spec.ignoreElements Rx.C02.ignoreElements_spec ds w hw
theorem materialize_fromIter : FromIterSpec kMaterialize Spec.materialize ds w := fromIter_machine_spec kMaterialize we_kMaterialize Spec.materialize Rx.C02.materialize_spec ds w hw
theorem dematerialize_fromIter : FromIterSpec kDematerialize Spec.dematerialize ds w := fromIter_machine_spec kDematerialize we_kDematerialize Spec.dematerialize Rx.C02.dematerialize_spec ds w hw
theorem buffer_fromIter (n : Nat) (hn : 0 < n) : FromIterSpec (kBuffer n) (Spec.bufferWithCount n) ds w := fromIter_machine_spec (kBuffer n) (we_kBuffer n) (Spec.bufferWithCount n) (Rx.C02.buffer_spec n hn) ds w hw

end ops

/-- C04 on the machine: `error(e).map(f)` delivers exactly the error, payload `e` unchanged -/
theorem map_error (f : Fn) (e : Nat) (w : World) (hw : Ready w) :
    ∃ N, ∀ fuel, N ≤ fuel →
      let w' := run fuel [subscribeOver (kMap f) (oError e)] w
      w'.status = .ok ∧ logOf w' w.users.length = (Spec.map f ([], .error e)).toEvs ∧
      (∀ s', s' ≠ w.users.length → logOf w' s' = logOf w s') :=
  error_machine_spec (kMap f) (we_kMap f) (Spec.map f) (Rx.C02.map_spec f) e w hw

end Rx.Sim

#print axioms Rx.Sim.fromIter_machine_spec
#print axioms Rx.Sim.range_machine_spec
#print axioms Rx.Sim.error_machine_spec
#print axioms Rx.Sim.map_fromIter
#print axioms Rx.Sim.takeLast_fromIter
#print axioms Rx.Sim.buffer_fromIter
#print axioms Rx.Sim.dematerialize_fromIter
#print axioms Rx.Sim.map_error
