import RxVerif.Theorems.C05
/-
C17 — A finished subscription releases the user's callbacks and items.

In the crate a closure can be stored only in a core object; in the machine this is syntactic.  The
three callbacks passed to `subscribe` live in the slots of the subscriber's root observer and nowhere
else (`Inv.owner`, `Inv.root`).  Theorems, generic over every client program:
  * after unsubscribe or after a delivered terminal no observer holds any of the three callbacks
    (`callbacks_released_*`), and this stays so whatever runs afterwards (`released_forever`);
  * the root observer's three slots are empty (`root_slots_empty`).
Operator closures and buffered items are owned by the upstream observers' slots; those are cleared when
the upstream is cancelled or delivers its own terminal (`Rx.C06.upstream_unsubscribed_iff_cancelled`).
What the model cannot exhibit is `Arc` reference counting itself: the per-run check counts live tokens
captured by every user callback, operator closure and item after the handles are dropped.
-/
namespace Rx.C17
open Rx Rx.C05

/-- no observer of the world holds a callback of subscriber `s` -/
abbrev Released (w : World) (s : Nat) : Prop := Silent w s

theorem callbacks_released_after_terminal (w : World) (s : Nat) (h : Inv w)
    (ht : terminated (logOf w s) = true) : Released w s :=
  terminal_silences w s h ht

theorem callbacks_released_after_unsubscribe (w : World) (s : Nat) (u : User) (h : Inv w)
    (hu : w.users[s]? = some u) :
    Released (w.setObs u.obs fun x => { x.cleared with onUnsub := none }) s :=
  unsub_silences w s u h hu

theorem released_forever (w : World) (s : Nat) (h : Inv w) (hs : s < w.users.length) (hq : Released w s)
    (fuel : Nat) (progs : List Prog) : Released (run fuel progs w) s :=
  (silent_forever w s h hs hq fuel progs).1

/-- the root observer of a released subscriber has all three callback slots empty -/
theorem root_slots_empty (w : World) (s : Nat) (u : User) (x : Obs) (h : Inv w)
    (hu : w.users[s]? = some u) (hx : w.obs[u.obs]? = some x) (hq : Released w s) :
    x.next = none ∧ x.error = none ∧ x.complete = none := by
  have hroot := h.root s u.obs x (by simp [roots, hu]) hx
  have hnh := hq u.obs x hx
  refine ⟨?_, ?_, ?_⟩
  · rcases hroot.1 with hn | hn
    · exact hn
    · exact absurd (holds_next hn) hnh
  · rcases hroot.2.1 with hn | hn
    · exact hn
    · exact absurd (holds_error hn) hnh
  · rcases hroot.2.2 with hn | hn
    · exact hn
    · exact absurd (holds_complete hn) hnh

/-- a callback of `s` is never stored anywhere but in `s`'s own root observer -/
theorem callbacks_only_in_root (w : World) (h : Inv w) (o : Nat) (x : Obs) (s : Nat)
    (hx : w.obs[o]? = some x) (hh : x.holds s) : (roots w)[s]? = some o :=
  h.owner o x s hx hh

end Rx.C17

-- non-vacuity: `just 1` subscribed directly; after its `complete` the root observer is empty
open Rx in
example :
    let w := run 100 [.obsvNew (fun o => .obsNext o (.int 1) (.obsComplete o .done)) fun id =>
                        .userSub id (fun _ _ _ => .done) .done] {}
    (w.obs[0]?.map fun x => (x.next.isNone, x.error.isNone, x.complete.isNone)) = some (true, true, true) ∧
    terminated (logOf w 0) = true := by
  decide

#print axioms Rx.C17.released_forever
#print axioms Rx.C17.root_slots_empty
#print axioms Rx.C17.callbacks_only_in_root
