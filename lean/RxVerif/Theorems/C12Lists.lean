/-
Pure list facts used by the C12 proofs: a newest-first log of `(index, item)` pairs whose indices descend by exactly
one and whose items are the corresponding entries of a program `P` is a contiguous block of `P`.
-/
import RxVerif.Data

namespace Rx.Conc

/-- one more than the index of the newest entry (0 for the empty log) -/
def top : List (Nat × Data) → Nat
  | [] => 0
  | (i, _) :: _ => i + 1

/-- newest-first log: every entry `(i, v)` has `P[i] = v` and the entry below it has index `i - 1` -/
def Desc (P : List Data) : List (Nat × Data) → Prop
  | [] => True
  | (i, v) :: r => P[i]? = some v ∧ (r = [] ∨ top r = i) ∧ Desc P r

theorem Desc.cons {P : List Data} {L : List (Nat × Data)} {k : Nat} {v : Data}
    (h : Desc P L) (hv : P[k]? = some v) (ht : L ≠ [] → top L = k) : Desc P ((k, v) :: L) := by
  refine ⟨hv, ?_, h⟩
  by_cases hL : L = []
  · exact .inl hL
  · exact .inr (ht hL)

theorem Desc.length_le_top {P : List Data} : ∀ {L : List (Nat × Data)}, Desc P L → L.length ≤ top L
  | [], _ => by simp [top]
  | (i, v) :: r, h => by
    obtain ⟨_, h2, h3⟩ := h
    have := Desc.length_le_top h3
    rcases h2 with rfl | h2
    · simp [top]
    · simp [top]; omega

/-- the items of a `Desc` log, oldest first, are the block of `P` that ends just below `top L` -/
theorem Desc.block {P : List Data} : ∀ {L : List (Nat × Data)}, Desc P L →
    (L.reverse.map (·.2)) = (P.drop (top L - L.length)).take L.length
  | [], _ => by simp
  | (i, v) :: r, h => by
    obtain ⟨h1, h2, h3⟩ := h
    have ih := Desc.block h3
    have hle := Desc.length_le_top h3
    have ha : top ((i, v) :: r) - ((i, v) :: r).length = i - r.length := by simp [top]
    rw [ha]
    have ih : (r.reverse.map (·.2)) = (P.drop (i - r.length)).take r.length := by
      rcases h2 with rfl | h2
      · simp
      · rw [h2] at ih; exact ih
    have hri : r.length ≤ i := by
      rcases h2 with rfl | h2
      · simp
      · omega
    simp only [List.reverse_cons, List.map_append, List.map_cons, List.map_nil, List.length_cons]
    rw [List.take_add_one, ih]
    congr 1
    rw [List.getElem?_drop]
    have : i - r.length + r.length = i := by omega
    rw [this, h1]; rfl

/-- the indices of a `Desc` log, oldest first, are consecutive -/
theorem Desc.indices {P : List Data} : ∀ {L : List (Nat × Data)}, Desc P L →
    (L.reverse.map (·.1)) = List.range' (top L - L.length) L.length
  | [], _ => by simp
  | (i, v) :: r, h => by
    obtain ⟨_, h2, h3⟩ := h
    have ih := Desc.indices h3
    have hle := Desc.length_le_top h3
    have hri : r.length ≤ i := by
      rcases h2 with rfl | h2
      · simp
      · omega
    have ih : (r.reverse.map (·.1)) = List.range' (i - r.length) r.length := by
      rcases h2 with rfl | h2
      · simp
      · rw [h2] at ih; exact ih
    simp only [List.reverse_cons, List.map_append, List.map_cons, List.map_nil, List.length_cons, top]
    rw [List.range'_1_concat, ih]
    have : i + 1 - (r.length + 1) = i - r.length := by omega
    rw [this]
    congr 2
    omega

/-- a list of tagged entries is a permutation of its per-tag sub-lists laid end to end -/
theorem map_perm_flatMap_filter {β γ : Type} (f : Nat × β → γ) : ∀ (n : Nat) (l : List (Nat × β)),
    (∀ x ∈ l, x.1 < n) → (l.map f).Perm ((List.range n).flatMap fun t => (l.filter (·.1 == t)).map f)
  | 0, l, hl => by
    cases l with
    | nil => simp
    | cons x r => exact absurd (hl x (by simp)) (by omega)
  | n + 1, l, hl => by
    have ih := map_perm_flatMap_filter f n (l.filter (fun x => !(x.1 == n))) (by
      intro x hx
      have := List.mem_filter.mp hx
      have h1 := hl x this.1
      have h2 : x.1 ≠ n := by simpa using this.2
      omega)
    have hcongr : ((List.range n).flatMap fun t => ((l.filter (fun x => !(x.1 == n))).filter (·.1 == t)).map f)
        = (List.range n).flatMap fun t => (l.filter (·.1 == t)).map f := by
      simp only [List.flatMap]
      congr 1
      apply List.map_congr_left
      intro t ht
      have htn : t < n := List.mem_range.mp ht
      rw [List.filter_filter]
      congr 1
      apply List.filter_congr
      intro x _
      by_cases hx : x.1 = t
      · simp [hx]; omega
      · simp [hx]
    rw [hcongr] at ih
    rw [List.range_succ, List.flatMap_append]
    simp only [List.flatMap_cons, List.flatMap_nil, List.append_nil]
    have hsplit := (List.filter_append_perm (fun x : Nat × β => x.1 == n) l).symm
    refine (hsplit.map f).trans ?_
    rw [List.map_append]
    exact List.perm_append_comm.trans (List.Perm.append_right _ ih)



/-- oldest-first log: indices `a, a+1, ..` and every entry `(i, v)` has `P[i] = v` -/
def Asc (P : List Data) : Nat → List (Nat × Data) → Prop
  | _, [] => True
  | a, (i, v) :: r => i = a ∧ P[a]? = some v ∧ Asc P (a + 1) r

theorem Asc.append {P : List Data} : ∀ {a : Nat} {M : List (Nat × Data)} {v : Data}, Asc P a M →
    P[a + M.length]? = some v → Asc P a (M ++ [(a + M.length, v)])
  | a, [], v, _, hv => by simpa [Asc] using hv
  | a, (i, w) :: r, v, h, hv => by
    obtain ⟨h1, h2, h3⟩ := h
    refine ⟨h1, h2, ?_⟩
    have : a + ((i, w) :: r).length = a + 1 + r.length := by simp; omega
    rw [this] at hv ⊢
    exact Asc.append h3 hv

theorem Asc.unique {P : List Data} : ∀ {a : Nat} {M M' : List (Nat × Data)}, Asc P a M → Asc P a M' →
    M.length = M'.length → M = M'
  | _, [], [], _, _, _ => rfl
  | _, [], _ :: _, _, _, h => by simp at h
  | _, _ :: _, [], _, _, h => by simp at h
  | a, (i, v) :: r, (j, w) :: r', h, h', hl => by
    obtain ⟨h1, h2, h3⟩ := h
    obtain ⟨h1', h2', h3'⟩ := h'
    have := Asc.unique h3 h3' (by simpa using hl)
    subst h1 h1' this
    rw [h2] at h2'
    simp only [Option.some.injEq] at h2'
    subst h2'; rfl

theorem Asc.vals {P : List Data} : ∀ {a : Nat} {M : List (Nat × Data)}, Asc P a M →
    M.map (·.2) = (P.drop a).take M.length
  | _, [], _ => by simp
  | a, (i, v) :: r, h => by
    obtain ⟨h1, h2, h3⟩ := h
    have ih := Asc.vals h3
    have hlt : a < P.length := by
      by_cases hc : a < P.length
      · exact hc
      · rw [List.getElem?_eq_none (by omega)] at h2; simp at h2
    rw [List.drop_eq_getElem_cons hlt]
    simp only [List.map_cons, List.length_cons, List.take_succ_cons, ih]
    rw [List.getElem?_eq_getElem hlt] at h2
    simp only [Option.some.injEq] at h2
    rw [h2]

theorem Asc.indices {P : List Data} : ∀ {a : Nat} {M : List (Nat × Data)}, Asc P a M →
    M.map (·.1) = List.range' a M.length
  | _, [], _ => by simp
  | a, (i, v) :: r, h => by
    obtain ⟨h1, _, h3⟩ := h
    have ih := Asc.indices h3
    simp [List.range'_succ, ih, h1]

theorem Asc.length_le {P : List Data} : ∀ {a : Nat} {M : List (Nat × Data)}, Asc P a M → a + M.length ≤ P.length ∨ M = []
  | _, [], _ => .inr rfl
  | a, (i, v) :: r, h => by
    obtain ⟨_, h2, h3⟩ := h
    left
    have hlt : a < P.length := by
      by_cases hc : a < P.length
      · exact hc
      · rw [List.getElem?_eq_none (by omega)] at h2; simp at h2
    rcases Asc.length_le h3 with h | h
    · simp; omega
    · subst h; simp; omega

theorem drop_cons_inv {α : Type} {P : List α} {c : Nat} {v : α} {r : List α} (h : v :: r = P.drop c) :
    c + 1 ≤ P.length ∧ r = P.drop (c + 1) ∧ P[c]? = some v := by
  have hlt : c < P.length := by
    by_cases hc : c < P.length
    · exact hc
    · rw [List.drop_eq_nil_of_le (by omega)] at h; simp at h
  have h2 := List.drop_eq_getElem_cons hlt
  rw [h2] at h
  simp only [List.cons.injEq] at h
  refine ⟨hlt, h.2, ?_⟩
  rw [List.getElem?_eq_getElem hlt, h.1]

end Rx.Conc
