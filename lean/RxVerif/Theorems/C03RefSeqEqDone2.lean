import RxVerif.Theorems.C03RefSeqEqDone
/-
C03-REF, sequence_equal, part 10: concat_i's completion closure — `complete_and_next` (concat.rs) with the single
pending source `just(None)`.
-/
namespace Rx.SeqRef
open Rx.Sim Rx.Ref Rx.Comb Rx.CRef

variable {k : Nat} {σ : GS} {w : World}

theorem cDone_spec (h : GRel k σ [] w) (hr : Ready k σ) {i : Nat} (hi : i < k) (hb : σ.ch i = b5)
    (hreg : σ.reg.contains i = true) :
    WP (concatNext (scC k i) (cq k i) theEnd 100000) w (GRel k (afterEnd σ i w.obs.length) []) := by
  have hch := h.chains i hi
  rw [hb] at hch
  have hk := hr.kpos
  have hlen := h.obsLen hk
  obtain ⟨F, hF⟩ : ∃ F, (100000 : Nat) = F + 1 := ⟨99999, rfl⟩
  rw [hF]
  simp only [concatNext]
  have hF2 : F = 99999 := by omega
  rw [hF2]
  refine wp_cellRead_val h.held hch.cQ ?_
  simp only [b5, bLive, toNat_int, theEnd, List.getElem?_cons_zero]
  refine wp_cellWrite h.held ?_
  rw [show ((0 : Nat) : Int) + 1 = ((1 : Nat) : Int) from rfl]
  simp only [Sctl.newObserver, scC]
  -- the state after `new_observer`
  have gA := h.appendObs (justObs k i)
  have cA := gA.chains i hi
  rw [hb] at cA
  have c1 := cA.setQ 1
  have c2 := c1.setCs 2
  have c4 : ChainAt k i (b7 w.obs.length)
      ({ w with obs := w.obs ++ [justObs k i], cells := ((w.cells.set (cq k i) (.int ((1 : Nat) : Int))).set (cser k i) (.int ((2 : Nat) : Int))).set (cmap k i) (encMap [(0, Co k i), (1, w.obs.length)]) } : World) :=
    c2.addJ rfl rfl w.obs.length hlen (by show (w.obs ++ [justObs k i])[w.obs.length]? = _; simp)
  have s4 : Same { w with obs := w.obs ++ [justObs k i] }
      ({ w with obs := w.obs ++ [justObs k i], cells := ((w.cells.set (cq k i) (.int ((1 : Nat) : Int))).set (cser k i) (.int ((2 : Nat) : Int))).set (cmap k i) (encMap [(0, Co k i), (1, w.obs.length)]) } : World)
      (allCells k i) (chainObs k i (σ.ch i)) := by
    refine ⟨fun c hc => ?_, fun _ _ => rfl, rfl, rfl, rfl, rfl, rfl, rfl⟩
    show (((w.cells.set _ _).set _ _).set _ _)[c]? = _
    rw [set_get_other _ (fun q => hc (by simp [allCells, ← q])),
      set_get_other _ (fun q => hc (by simp [allCells, ← q])),
      set_get_other _ (fun q => hc (by simp [allCells, ← q]))]
  have g4 : GRel k { σ with ch := upd σ.ch i (b7 w.obs.length) } []
      ({ w with obs := w.obs ++ [justObs k i], cells := ((w.cells.set (cq k i) (.int ((1 : Nat) : Int))).set (cser k i) (.int ((2 : Nat) : Int))).set (cmap k i) (encMap [(0, Co k i), (1, w.obs.length)]) } : World) := by
    refine gA.chain_step_core hi c4 s4 ?_
    intro a a' p p' ha ha' hp hp' hpp
    by_cases e1 : a = i <;> by_cases e2 : a' = i
    · rw [e1, e2]
    · subst e1
      rw [upd_same] at hp; rw [upd_other _ _ e2] at hp'
      have := h.jx_lt ha' hp'
      simp only [b7, Option.some.injEq] at hp; subst hp
      simp only at hpp; omega
    · subst e2
      rw [upd_same] at hp'; rw [upd_other _ _ e1] at hp
      have := h.jx_lt ha hp
      simp only [b7, Option.some.injEq] at hp'; subst hp'
      simp only at hpp; omega
    · rw [upd_other _ _ e1] at hp; rw [upd_other _ _ e2] at hp'
      exact h.jInj a a' p p' ha ha' hp hp' hpp
  refine wp_cellRead_val h.held c1.cS ?_
  simp only [toNat_int]
  refine wp_cellWrite h.held (wp_obsNew ?_)
  simp only [b5, bLive]
  rw [show ((1 : Nat) : Int) + 1 = ((2 : Nat) : Int) from rfl]
  refine wp_cellRead_val (v := encMap [(0, Co k i)]) h.held (by
    have := c2.cM
    simp only [cmapOf, b5, bLive, ↓reduceIte] at this
    exact this) ?_
  rw [amapInsert_encMap _ _ _ (by intro p hp; simp at hp; subst hp; simp)]
  refine wp_cellWrite h.held ?_
  simp only [List.cons_append, List.nil_append]
  -- the re-check of `new_observer`: zip's observer `i` is still subscribed
  have hr7 : Ready k ({ σ with ch := upd σ.ch i (b7 w.obs.length) }) :=
    ⟨⟨hr.top.alive, hr.top.oL, hr.top.oH, hr.top.oR, hr.top.nd⟩, hr.ne, hr.len, hr.kpos⟩
  have hb7 : (({ σ with ch := upd σ.ch i (b7 w.obs.length) } : GS).ch i) = b7 w.obs.length := upd_same _ _ _
  have hZ := (g4.chains i hi).oZ
  rw [hb7] at hZ
  simp only [b7, b5, bLive, ↓reduceIte, optHook] at hZ
  refine wp_obsIsSub hZ ?_
  simp only [zipObs, Obs.isSub, Option.isSome_some, Bool.and_self, ↓reduceIte]
  -- `just(None)` is subscribed: it emits `None` and completes
  have hJ := ((g4.chains i hi).oJ (w.obs.length, true) (by rw [hb7]; rfl)).2
  simp only [↓reduceIte] at hJ
  simp only [Obsv.sub]
  refine wp_obsIsSub hJ ?_
  simp only [justObs, Obs.isSub, Option.isSome_some, Bool.and_self, ↓reduceIte, oJust]
  refine wp_ev_code (ev := .next (Data.optEnc none)) hJ rfl rfl rfl ?_
  simp only [Ev.isTerminal, Bool.false_eq_true, ↓reduceIte, codeBody]
  refine cNext_spec g4 hr7 hi (by rw [hb7]; rfl) _ fun w5 h5 => ?_
  -- `just(None)` completes
  cases ha : (zStep { σ with ch := upd σ.ch i (b7 w.obs.length) } i (.next (Data.optEnc none))).alive with
  | false =>
    have hae : afterEnd σ i w.obs.length =
        zStep { σ with ch := upd σ.ch i (b7 w.obs.length) } i (.next (Data.optEnc none)) := by
      simp only [afterEnd, ha, Bool.false_eq_true, ↓reduceIte]
    rw [hae]
    -- the comparison failed: everything in zip's map, chain `i` included, has been torn down
    have hjd : ((zStep { σ with ch := upd σ.ch i (b7 w.obs.length) } i (.next (Data.optEnc none))).ch i).jx =
        some (w.obs.length, false) := by
      simp only [zStep] at ha ⊢
      split at ha
      · split
        · simp only [o1Step] at ha ⊢
          split at ha
          · simp [hr.top.alive] at ha
          · rename_i hs
            simp only [hs, Bool.false_eq_true, ↓reduceIte, endState, tearAll, hreg]
            show (tZ (upd σ.ch i (b7 w.obs.length) i)).jx = _
            rw [upd_same]
            simp [tZ, tFC, tJ, tC, tFM, b7, b5, bLive]
        · rename_i h1 h2; exact absurd h1 h2
      · simp [hr.top.alive] at ha
    have hJ5 := ((h5.chains i hi).oJ _ hjd).2
    simp only [Bool.false_eq_true, ↓reduceIte] at hJ5
    exact wp_ev_dead (ev := .complete) hJ5 rfl (WP.done h5)
  | true =>
    obtain ⟨Q, hQ, hneQ, hlenQ⟩ := zStep_next_alive hr7 i (Data.optEnc none) ha
    have hae : afterEnd σ i w.obs.length =
        (let σa : GS := { ({ σ with ch := upd σ.ch i (b7 w.obs.length) } : GS) with qs := Q }
         let σc := zStep { σa with ch := upd σa.ch i { σa.ch i with jx := some (w.obs.length, false) } } i .complete
         { σc with ch := upd σc.ch i (tFC (σc.ch i)) }) := by
      simp only [afterEnd]; rw [if_pos ha]; simp only [hQ]
    rw [hae]
    rw [hQ] at h5
    -- the observer on `just(None)` takes its callbacks, then runs `complete_and_next` once more
    have hb5 : (({ ({ σ with ch := upd σ.ch i (b7 w.obs.length) } : GS) with qs := Q } : GS).ch i) =
        b7 w.obs.length := upd_same _ _ _
    have c5 := h5.chains i hi
    rw [hb5] at c5
    have hJ5 := (c5.oJ (w.obs.length, true) rfl).2
    simp only [↓reduceIte] at hJ5
    refine wp_ev_code (ev := .complete) hJ5 rfl rfl rfl ?_
    simp only [Ev.isTerminal, ↓reduceIte, codeBody]
    have c6 := c5.killJ hi w.obs.length true rfl
    have s6 : Same w5 { w5 with obs := w5.obs.modify w.obs.length Obs.cleared } (allCells k i)
        (chainObs k i (({ ({ σ with ch := upd σ.ch i (b7 w.obs.length) } : GS) with qs := Q } : GS).ch i)) := by
      refine ⟨fun _ _ => rfl, fun o ho => modify_get_other _ _ (fun q => ho ?_), rfl, rfl, rfl, rfl, rfl, by simp⟩
      rw [hb5, ← q]; simp [chainObs, lowObs, jl, b7]
    have g6 := h5.chain_step' hi c6 s6 (by rw [hb5]; rfl)
    have hr6 : Ready k ({ ({ ({ σ with ch := upd σ.ch i (b7 w.obs.length) } : GS) with qs := Q } : GS) with
        ch := upd ({ ({ σ with ch := upd σ.ch i (b7 w.obs.length) } : GS) with qs := Q } : GS).ch i
          { b7 w.obs.length with jx := some (w.obs.length, false) } }) :=
      ⟨⟨hr.top.alive, hr.top.oL, hr.top.oH, hr.top.oR, hr.top.nd⟩, hneQ, hlenQ, hr.kpos⟩
    obtain ⟨F', hF'⟩ : ∃ F', (99999 : Nat) = F' + 1 := ⟨99998, rfl⟩
    rw [hF']
    simp only [concatNext]
    have c6' := g6.chains i hi
    rw [show (({ ({ ({ σ with ch := upd σ.ch i (b7 w.obs.length) } : GS) with qs := Q } : GS) with
        ch := upd ({ ({ σ with ch := upd σ.ch i (b7 w.obs.length) } : GS) with qs := Q } : GS).ch i
          { b7 w.obs.length with jx := some (w.obs.length, false) } } : GS).ch i) =
        { b7 w.obs.length with jx := some (w.obs.length, false) } from upd_same _ _ _] at c6'
    refine wp_cellRead_val g6.held c6'.cQ ?_
    simp only [b7, b5, bLive, toNat_int, theEnd]
    rw [show ([oJust (Data.optEnc none)] : List Obsv)[1]? = none from rfl]
    simp only [Sctl.sinkCompleteForce, scC]
    have hZ6 := c6'.oZ
    simp only [b7, b5, bLive, ↓reduceIte, optHook] at hZ6
    refine wp_obsIsSub hZ6 ?_
    simp only [zipObs, Obs.isSub, Option.isSome_some, Bool.and_self, ↓reduceIte]
    refine z_deliver g6 hr6.top hr6.ne hr6.len hr6.kpos hi
      (by show CB.zL (upd _ i _ i) = true; rw [upd_same]; rfl) .complete fun w9 h9 => ?_
    -- back in concat_i: `finalize`
    have hz9 := zStep_complete_ch ({ ({ ({ σ with ch := upd σ.ch i (b7 w.obs.length) } : GS) with qs := Q } : GS) with
        ch := upd ({ ({ σ with ch := upd σ.ch i (b7 w.obs.length) } : GS) with qs := Q } : GS).ch i
          { b7 w.obs.length with jx := some (w.obs.length, false) } }) i
    refine (finConcat_spec (h9.chains i hi) hi (by rw [hz9]) (by intro p hp; rw [h9.held] at hp; cases hp)).conseq
      fun w10 ⟨c10, s10⟩ => ?_
    have g10 := h9.chain_step hi c10 (s10.mono (fun _ q => q) (fun o ho => by simp [chainObs, ho])) (tFC_jx _)
    refine WP.done ?_
    simp only [upd_same] at g10 ⊢
    exact g10

end Rx.SeqRef
