import RxVerif.Theorems.C13RefColdPublishMain
/-
C13-REF, ref_count over a COLD source — model A's `refCountHooks` (ref_count.rs:36-92) with the harness' cold source
refines `ConnM` (kind `.refCount`, source `.cold script`).  The script runs inside the FIRST subscriber's
`on_subscribe` hook, i.e. while that subscriber's `subscribe` has not returned (`pend`), under S's slot guard (`Hd`),
with `connecting = true` and before `self.subscription` is stored.

World of `progRCc`: as `progRC` (cells 2,3 = S, 4 = `connecting`, 5 = `subscription`, 6 = `cancelled`, 7+i = armed
flags; slots 2,3 = the two closures), observable 0 = the cold source; cells 0,1 / slots 0,1 = an unused Subject.
-/
namespace Rx.CRef
open Rx.Sim Rx.SubjM Rx.Ref Rx.RefR

/-- the users' side of a cold ref_count world; `cobsX` lags one behind `cobsG` while the script runs -/
def URcc (script : List Ev) (roots cobsG cobsX : List Nat) (pend : Option Nat) (Hd : List (LockId × Bool))
    (cg : Bool) (sb : Option Nat) (cn : Bool) (w : World) (s : SubjM.State) : Prop :=
  Glob roots cobsG w ∧ UsersPart Sp roots pend w s.observers s.serial s.obs ∧ ExtrasC cobsX Hd cg sb cn w ∧
  w.obsvs[0]? = some (coldSrc script)

structure RelCc (script : List Ev) (roots cobs : List Nat) (armed : List Bool) (pend : Option Nat)
    (Hd : List (LockId × Bool)) (w : World) (st : ConnM.State) : Prop where
  inv : ColdInv (URcc script roots cobs cobs pend Hd st.connecting st.subscription st.cancelled) fnP feP fcP acellC
    roots cobs w st armed
  full : armed.length = st.conns.length

theorem URcc.conn {script roots cobsG cobsX pend Hd cg sb cn w s}
    (h : URcc script roots cobsG cobsX pend Hd cg sb cn w s) (i : Nat) (hi : i < cobsG.length) :
    URcc script roots cobsG cobsX pend Hd cg sb cn (w.setObs (rootAt cobsG i) Obs.cleared) s := by
  obtain ⟨g, U, X, hs⟩ := h
  refine ⟨g.touch (Touch.setObs (J := fun _ => True) (K := NoCell) w _ _ trivial), ?_, { X with }, hs⟩
  exact U.frame rfl rfl rfl
    (fun u hu => getElem?_setObs_other _ (fun e => g.root_ne_cob hu hi e.symm)) (fun _ => rfl)

theorem URcc.probe {script roots cobsG cobsX pend Hd cg sb cn w s}
    (h : URcc script roots cobsG cobsX pend Hd cg sb cn w s) (t : Nat) (d : Data) :
    URcc script roots cobsG cobsX pend Hd cg sb cn (w.emit (.probe t d)) s := by
  obtain ⟨g, U, X, hs⟩ := h
  refine ⟨⟨g.status, g.nObs, g.rootsLt, g.cobsLt, g.nodup⟩, ?_, { X with }, hs⟩
  exact U.frame rfl rfl rfl (fun _ _ => rfl) (fun u => logOf_emit_probe w t d u)

theorem URcc.emit {script roots cobsG cobsX pend Hd cg sb cn w s} (ev : Ev) (hh : SlotReads w.held)
    (h : URcc script roots cobsG cobsX pend Hd cg sb cn w s) :
    WP (codeBody ev fnP feP fcP) w (fun w' => URcc script roots cobsG cobsX pend Hd cg sb cn w' (emit .plain s ev) ∧
      Touch (InRoots roots) (IsCell 2) w w') := by
  obtain ⟨g, U, X, hs⟩ := h
  rw [codeBody_P]
  refine (emitS_spec hh g U ev).conseq ?_
  rintro w' ⟨U', t⟩
  exact ⟨⟨g.touch t, U', X.touch t ⟨(by intro e; cases e), (by intro e; cases e), (by intro e; cases e)⟩,
    t.obsvs ▸ hs⟩, t⟩

theorem URcc.touchConns {script roots cobs cobsX pend Hd cg sb cn w w' s}
    (h : URcc script roots cobs cobsX pend Hd cg sb cn w s) (t : Touch (InList cobs) KC w w')
    (htr : w'.trace = w.trace) : URcc script roots cobs cobsX pend Hd cg sb cn w' s := by
  obtain ⟨g, U, X, hs⟩ := h
  refine ⟨g.touch t, ?_, X.touch t ⟨by simp [KC], by simp [KC], by simp [KC]⟩, t.obsvs ▸ hs⟩
  refine U.frame (t.cells _ (by simp [KC, Sp])) (t.cells _ (by simp [KC, Sp])) t.users ?_ ?_
  · intro u hu
    refine t.obs _ (fun hm => ?_)
    exact (List.nodup_append.1 g.nodup).2.2 _ (rootAt_mem hu) _ hm rfl
  · intro u; simp only [logOf, htr]

/-- entering / leaving a hook only changes the guards held -/
theorem RelCc.held_swap {script roots cobs armed pend Hd Hd' w w' st} (h : RelCc script roots cobs armed pend Hd w st)
    (hw : w' = { w with held := Hd' }) (hs : SlotReads Hd') : RelCc script roots cobs armed pend Hd' w' st := by
  subst hw
  obtain ⟨g, U, X, hsrc⟩ := h.inv.ur
  have g' : Glob roots cobs { w with held := Hd' } := ⟨g.status, g.nObs, g.rootsLt, g.cobsLt, g.nodup⟩
  exact ⟨⟨g', hs, ⟨g', U.frame rfl rfl rfl (fun _ _ => rfl) (fun _ => rfl), { X with held := rfl }, hsrc⟩,
    h.inv.conns.frame (fun _ _ => rfl) (fun _ _ => rfl) rfl⟩, h.full⟩

theorem RelCc.flags {script roots cobs armed pend Hd w} {st st' : ConnM.State}
    (h : RelCc script roots cobs armed pend Hd w st)
    (h1 : st'.sub = st.sub) (h2 : st'.conns = st.conns) (h3 : st'.connecting = st.connecting)
    (h4 : st'.subscription = st.subscription) (h5 : st'.cancelled = st.cancelled) :
    RelCc script roots cobs armed pend Hd w st' := by
  refine ⟨?_, by rw [h2]; exact h.full⟩
  rw [h3, h4, h5]
  exact ⟨h.inv.glob, h.inv.held, by rw [h1]; exact h.inv.ur, by rw [h2]; exact h.inv.conns⟩

theorem RelCc.ready {script roots cobs armed n w st} (h : RelCc script roots cobs armed (some n) [] w st) :
    RelCc script roots cobs armed none [] (w.setUser n fun u => { u with ready := true }) st := by
  obtain ⟨g, U, X, hs⟩ := h.inv.ur
  have g' : Glob roots cobs (w.setUser n fun u => { u with ready := true }) :=
    ⟨g.status, g.nObs, g.rootsLt, g.cobsLt, g.nodup⟩
  exact ⟨⟨g', h.inv.held, ⟨g', U.ready, { X with }, hs⟩, h.inv.conns.frame (fun _ _ => rfl) (fun _ _ => rfl) rfl⟩,
    h.full⟩

theorem foldRecv_flags (k : ConnM.Kind) (m : Nat) : ∀ (script : List Ev) (st : ConnM.State),
    (script.foldl (fun s ev => ConnM.connRecv k s m ev) st).connecting = st.connecting ∧
    (script.foldl (fun s ev => ConnM.connRecv k s m ev) st).cancelled = st.cancelled ∧
    (script.foldl (fun s ev => ConnM.connRecv k s m ev) st).subscription = st.subscription
  | [], _ => ⟨rfl, rfl, rfl⟩
  | ev :: evs, st => by
    have h1 := foldRecv_flags k m evs (ConnM.connRecv k st m ev)
    have h2 := ConnM.connRecv_flags k st m ev
    simp only [List.foldl_cons]
    exact ⟨h1.1.trans h2.1, h1.2.1.trans h2.2.1, h1.2.2.trans h2.2.2⟩

/-- the state after the script: `connectSource` on `{ st with connecting := true }` -/
def coldFold (k : ConnM.Kind) (script : List Ev) (st : ConnM.State) : ConnM.State :=
  script.foldl (fun s ev => ConnM.connRecv k s st.conns.length ev)
    { st with connecting := true, conns := st.conns ++ [true] }

theorem onSubscribe_skip_cold (k : ConnM.Kind) (script) (st : ConnM.State) (len1 : Nat)
    (h : ¬ (len1 = 1 ∧ st.connecting = false)) :
    ConnM.onSubscribe k (.cold script) st (some len1) = st := by
  unfold ConnM.onSubscribe
  rw [if_neg]
  simpa using h

theorem onSubscribe_fire_cold (k : ConnM.Kind) (script) (st : ConnM.State) (h : st.connecting = false) :
    ConnM.onSubscribe k (.cold script) st (some 1) =
      { coldFold k script st with
        subscription := some st.conns.length
        conns := if st.cancelled then (coldFold k script st).conns.set st.conns.length false
                 else (coldFold k script st).conns } := by
  have hf := (foldRecv_flags k st.conns.length script
    { st with connecting := true, conns := st.conns ++ [true] }).2.1
  simp only [ConnM.onSubscribe, ConnM.connectSource, h, and_self, ↓reduceIte, coldFold, hf]

end Rx.CRef
