import RxVerif.Theorems.SimChainSetup
import RxVerif.Theorems.SimChainComp
import RxVerif.Theorems.SimChainCancel
/-
SIM for CHAINS: the object machine (model A) runs `src.op₁()…opₙ()` — any number of standard operators,
each the shape of src/operators/{map,filter,take,skip,…}.rs: one `StreamController::new`, one state cell,
one `new_observer`, `source.inner_subscribe` — exactly as the composition of the operators' kernel runs
(model B, `chainRun`) says, from ANY ready world, for ANY well-encoded kernels.

Layers: SimChainRep/Prim (world of a chain subscription `CRep`, primitive WP rules), SimChainMacro/Acts
(`finalize`/`unsubscribe` cascade, sinks, closures, script loop vs the flat chain machine of Kernel/Chain.lean),
SimChainSetup (subscription set-up, `chain_simFlat`), SimChainPure/Stage/Comp (flat chain machine =
`chainRun`: `chainFlat_out`), this file (main theorems, corollaries).
-/
namespace Rx.Chain
open Rx.Sim

/-- the observer handed to the script source (created last, `Ks.length` after the subscriber's root
    observer) is no longer subscribed -/
def sourceCancelled (Ks : List AnyKernel) (w w' : World) : Bool :=
  (w'.obs[w.obs.length + Ks.length]?.map Obs.isSub) == some false

/-- SIM for chains, with the full flat state: status, guards, the subscriber's log, everybody else's log,
    and for EVERY observer of the chain whether it is still subscribed. -/
theorem chain_sim_full (Ks : List AnyKernel) (hK : AllWE Ks) (w : World) (hw : Ready w) (tag : Nat) (s : Stream) :
    ∃ N, ∀ fuel, N ≤ fuel →
      let w' := run fuel [subscribeChain Ks tag s] w
      w'.status = .ok ∧ w'.held = [] ∧
      logOf w' w.users.length = chainRun Ks s ∧
      (∀ s', s' ≠ w.users.length → logOf w' s' = logOf w s') ∧
      (∀ j, j ≤ Ks.length → (w'.obs[w.obs.length + j]?).map Obs.isSub = some ((chainFlat Ks s).sub j)) := by
  obtain ⟨N, h⟩ := chain_simFlat Ks w hw tag s
  refine ⟨N, fun fuel hf => ?_⟩
  have hr := h fuel hf
  refine ⟨hr.status, hr.held, ?_, hr.others, ?_⟩
  · have := hr.log
    rw [chainFlat_out Ks hK] at this
    exact this
  · intro j hj
    have := hr.obs j hj
    show ((run fuel [subscribeChain Ks tag s] w).obs[(layOf Ks w).L + j]?).map Obs.isSub = _
    rw [this]; simp [obsAt_isSub]

/-- SIM for chains (the statement of the work package). -/
theorem chain_sim (Ks : List AnyKernel) (hK : AllWE Ks) (w : World) (hw : Ready w) (tag : Nat) (s : Stream) :
    ∃ N, ∀ fuel, N ≤ fuel →
      let w' := run fuel [subscribeChain Ks tag s] w
      w'.status = .ok ∧
      logOf w' w.users.length = chainRun Ks s ∧
      (∀ s', s' ≠ w.users.length → logOf w' s' = logOf w s') ∧
      Ready w' := by
  obtain ⟨N, h⟩ := chain_sim_full Ks hK w hw tag s
  refine ⟨N, fun fuel hf => ?_⟩
  have hr := h fuel hf
  exact ⟨hr.1, hr.2.2.1, hr.2.2.2.1, ⟨hr.1, hr.2.1, run_closed inv_closed _ _ _ hw.inv⟩⟩

/-- C14 for chains: what a new subscriber of a chain sees does not depend on the world it subscribes in -/
theorem chain_subscribe_independent (Ks : List AnyKernel) (hK : AllWE Ks) (w₁ w₂ : World)
    (h₁ : Ready w₁) (h₂ : Ready w₂) (tag₁ tag₂ : Nat) (s : Stream) :
    ∃ N, ∀ fuel, N ≤ fuel →
      logOf (run fuel [subscribeChain Ks tag₁ s] w₁) w₁.users.length
        = logOf (run fuel [subscribeChain Ks tag₂ s] w₂) w₂.users.length := by
  obtain ⟨N₁, a⟩ := chain_sim Ks hK w₁ h₁ tag₁ s
  obtain ⟨N₂, b⟩ := chain_sim Ks hK w₂ h₂ tag₂ s
  refine ⟨max N₁ N₂, fun fuel hf => ?_⟩
  exact (a fuel (by omega)).2.1.trans (b fuel (by omega)).2.1.symm

/-- C06 for chains, exact form: the source's observer ends up unsubscribed iff the flat chain machine
    (model B for chains, executable) says so. -/
theorem chain_sim_cancel_flat (Ks : List AnyKernel) (hK : AllWE Ks) (w : World) (hw : Ready w) (tag : Nat)
    (s : Stream) :
    ∃ N, ∀ fuel, N ≤ fuel →
      sourceCancelled Ks w (run fuel [subscribeChain Ks tag s] w) = !(chainFlat Ks s).sub Ks.length := by
  obtain ⟨N, h⟩ := chain_sim_full Ks hK w hw tag s
  refine ⟨N, fun fuel hf => ?_⟩
  have := (h fuel hf).2.2.2.2 Ks.length (Nat.le_refl _)
  simp only [sourceCancelled, this]
  cases (chainFlat Ks s).sub Ks.length <;> rfl

/-- C06 for chains: if the source delivered its own terminal, or the subscriber's log is terminated, or ANY
    observer of the chain (the subscriber's root observer, or the upstream observer of any stage) has been
    unsubscribed — i.e. some stage terminated early —, then the observer handed to the script source
    ends up unsubscribed: the cancellation has travelled all the way up.  (`AllAF`: every kernel aborts
    before it completes, true of every kernel of Kernel/Basic.lean; without it the claim is false, see
    `kBad_not_cancelled` in Theorems/Sim.lean.) -/
theorem chain_sim_cancel (Ks : List AnyKernel) (hK : AllWE Ks) (hA : AllAF Ks) (w : World) (hw : Ready w)
    (tag : Nat) (s : Stream) :
    ∃ N, ∀ fuel, N ≤ fuel →
      let w' := run fuel [subscribeChain Ks tag s] w
      (s.2 ≠ .silent ∨ terminated (chainRun Ks s) = true ∨
        (∃ j, j ≤ Ks.length ∧ (w'.obs[w.obs.length + j]?).map Obs.isSub = some false)) →
      sourceCancelled Ks w w' = true := by
  obtain ⟨N, h⟩ := chain_simFlat Ks w hw tag s
  refine ⟨N, fun fuel hf => ?_⟩
  have hr := h fuel hf
  intro w' hcase
  have hsrc : sourceCancelled Ks w w' = !(chainFlat Ks s).sub Ks.length := by
    have := hr.obs Ks.length (Nat.le_refl _)
    have e : w'.obs[w.obs.length + Ks.length]? = some ((layOf Ks w).obsAt (chainFlat Ks s) Ks.length) := this
    simp only [sourceCancelled, e, Option.map_some, obsAt_isSub]
    cases (chainFlat Ks s).sub Ks.length <;> rfl
  have hdead : ∀ j, j ≤ Ks.length → (chainFlat Ks s).sub j = false → sourceCancelled Ks w w' = true := by
    intro j hj hd
    rw [hsrc, chainFlat_cascade Ks hA s j hj hd]; rfl
  rcases hcase with hs | ht | ⟨j, hj, hd⟩
  · rw [hsrc, chainFlat_source_terminal Ks s hs]; rfl
  · apply hdead 0 (Nat.zero_le _)
    cases hs0 : (chainFlat Ks s).sub 0 with
    | false => rfl
    | true =>
      exfalso
      have hinv : Inv w' := run_closed inv_closed _ _ _ hw.inv
      have ho : w'.obs[w.obs.length + 0]? = some ((layOf Ks w).obsAt (chainFlat Ks s) 0) :=
        hr.obs 0 (Nat.zero_le _)
      have hh : ((layOf Ks w).obsAt (chainFlat Ks s) 0).holds w.users.length := by
        simp [Lay.obsAt, hs0, Obs.holds, HN.user?, Lay.hdlN, layOf]
      have hl := hinv.live _ _ _ ho hh
      have hlog : logOf w' w.users.length = chainRun Ks s := by
        have := hr.log; rw [chainFlat_out Ks hK] at this; exact this
      rw [hlog, ht] at hl; cases hl
  · apply hdead j hj
    have := hr.obs j hj
    have e : w'.obs[w.obs.length + j]? = some ((layOf Ks w).obsAt (chainFlat Ks s) j) := this
    rw [e] at hd
    simpa [obsAt_isSub] using hd

/-! ### non-vacuity: a concrete 3-stage chain `map(inc).filter(even).take(2)` over a 5-item script -/

def AK {σ} (K : Kernel σ) : AnyKernel := ⟨σ, K⟩

def ex3 : List AnyKernel := [AK (kMap .inc), AK (kFilter .even), AK (kTake 2)]
def s5 : Stream := ([.int 1, .int 2, .int 3, .int 4, .int 5], .complete)

theorem ex3_we : AllWE ex3 := by
  intro A hA
  simp only [ex3, List.mem_cons, List.mem_nil_iff, or_false] at hA
  rcases hA with rfl | rfl | rfl
  · exact we_kMap _
  · exact we_kFilter _
  · exact we_kTake _

theorem ex3_af : AllAF ex3 := by
  intro A hA
  simp only [ex3, List.mem_cons, List.mem_nil_iff, or_false] at hA
  rcases hA with rfl | rfl | rfl
  · exact af_kMap _
  · exact af_kFilter _
  · exact af_kTake _

/-- the hypotheses of `chain_sim` / `chain_sim_cancel` are satisfiable -/
example : AllWE ex3 ∧ AllAF ex3 ∧ Ready ({} : World) := ⟨ex3_we, ex3_af, ready_empty⟩

/-- both sides of `chain_sim` evaluated: the machine's log, the specification, the flat chain machine -/
example :
    let w' := run 2000 [subscribeChain ex3 7 s5] {}
    w'.status = .ok ∧ w'.held = [] ∧
    logOf w' 0 = [.next (.int 2), .next (.int 4), .complete] ∧
    chainRun ex3 s5 = [.next (.int 2), .next (.int 4), .complete] ∧
    (chainFlat ex3 s5).out = [.next (.int 2), .next (.int 4), .complete] ∧
    terminated (chainRun ex3 s5) = true ∧
    sourceCancelled ex3 {} w' = true ∧ (chainFlat ex3 s5).sub 3 = false := by decide +kernel

/-- `take(2)` finishes early: over a SILENT 5-item source the source's observer is unsubscribed by the
    cascade alone (three `finalize`s up the chain), and the source was pulled only 3 times -/
example :
    let s : Stream := ([.int 1, .int 2, .int 3, .int 4, .int 5], .silent)
    let w' := run 2000 [subscribeChain ex3 7 s] {}
    logOf w' 0 = chainRun ex3 s ∧ logOf w' 0 = [.next (.int 2), .next (.int 4), .complete] ∧
    sourceCancelled ex3 {} w' = true ∧
    (w'.trace.filter fun r => r == .probe (7 * 4 + 1) (.bool true)).length = 3 := by decide +kernel

/-- a second chain subscribed in the world the first one left behind (hypothesis `Ready` of a non-empty world) -/
example :
    let w1 := run 2000 [subscribeChain ex3 7 s5] {}
    let w2 := run 2000 [subscribeChain [AK (kSkip 1), AK kCount] 8 s5] w1
    w1.status = .ok ∧ w1.held = [] ∧ logOf w2 0 = logOf w1 0 ∧
    logOf w2 1 = chainRun [AK (kSkip 1), AK kCount] s5 ∧ logOf w2 1 = [.next (.int 4), .complete] := by
  decide +kernel

/-- the empty chain is the script itself -/
example (s : Stream) : chainRun [] s = s.toEvs := rfl

/-- internal hypotheses are satisfiable: the world right after `userSub`, the fresh flat state -/
example : Built (layOf ex3 {}) 0 (subW (chainOp ex3 (oScript 7 true s5.toEvs)) {}) :=
  built_zero ex3 _ {} ready_empty
example : Fresh (ksOf ex3) 3 (CSt.init 3 (ksOf ex3)) := fresh_init _ _
example : HB 3 (fun j => j = 3) (CSt.init 3 (ksOf ex3)) := init_HB _ _

/-! ### the crate's derived operators ARE chains (Machine/Lib.lean), so `chain_sim` covers them -/

theorem oFirst_chain (src : Obsv) : oFirst src = chainOp [AK (kTake 1), AK kId] src := rfl
theorem oLast_chain (src : Obsv) : oLast src = chainOp [AK (kTakeLast 1), AK kId] src := rfl
theorem oElementAt_chain (k : Nat) (src : Obsv) :
    oElementAt k src = chainOp [AK (kTake k), AK (kSkip (k - 1)), AK kId] src := rfl

/-- e.g. `element_at(3)` (1-based) of a 5-item script: exactly the third item, then complete -/
example : chainRun [AK (kTake 3), AK (kSkip 2), AK kId] s5 = [.next (.int 3), .complete] := by decide +kernel

/-! ### FOUND FALSE without `AllAF`: a stage that completes first and aborts afterwards (`kBad`) terminates
    its subscriber, but the cancellation does not reach the source (cf. `kBad_not_cancelled`) -/
theorem chain_kBad_not_cancelled :
    let Ks := [AK (kMap .inc), AK kBad, AK kId]
    let s : Stream := ([.int 1, .int 2], .silent)
    let w' := run 2000 [subscribeChain Ks 0 s] {}
    logOf w' 0 = chainRun Ks s ∧ terminated (chainRun Ks s) = true ∧ sourceCancelled Ks {} w' = false := by
  decide +kernel

end Rx.Chain

#print axioms Rx.Chain.unsubO_spec
#print axioms Rx.Chain.deliver_spec
#print axioms Rx.Chain.loop_spec
#print axioms Rx.Chain.chain_simFlat
#print axioms Rx.Chain.stage_sim
#print axioms Rx.Chain.chainFlat_out
#print axioms Rx.Chain.chainFlat_cascade
#print axioms Rx.Chain.chain_sim_full
#print axioms Rx.Chain.chain_sim
#print axioms Rx.Chain.chain_subscribe_independent
#print axioms Rx.Chain.chain_sim_cancel_flat
#print axioms Rx.Chain.chain_sim_cancel
#print axioms Rx.Chain.chain_kBad_not_cancelled
