import RxVerif.Theorems.C03RefSeqEqUp
/-
C03-REF, sequence_equal, part 7: zip's closures — an event reaches zip's observer `i`.
-/
namespace Rx.SeqRef
open Rx.Sim Rx.Ref Rx.Comb Rx.CRef

variable {k : Nat} {σ : GS} {w : World}

/-- zip's observer `i` loses its callbacks (it received a terminal) -/
def zKill (σ : GS) (i : Nat) : GS := { σ with ch := upd σ.ch i { σ.ch i with zL := false } }

/-- an event reaches zip's observer `i` -/
def zStep (σ : GS) (i : Nat) : Ev → GS
  | .next x =>
    if Zip.ne (σ.qs.modify i (· ++ [x])) then
      o1Step { σ with qs := (σ.qs.modify i (· ++ [x])).map List.tail }
        (.next (Data.ofList ((σ.qs.modify i (· ++ [x])).map fun q => q.headD .unit)))
    else { σ with qs := σ.qs.modify i (· ++ [x]) }
  | .error e => endState (zKill σ i) true [.error e]
  | .complete =>
    if (σ.reg.filter (· != i)).isEmpty then
      endState { zKill σ i with reg := [] } false [.next (.bool true), .complete]
    else { zKill σ i with reg := σ.reg.filter (· != i) }

theorem GRel.setQ (h : GRel k σ [] w) (qs' : List (List Data)) :
    GRel k { σ with qs := qs' } [] { w with cells := w.cells.set (zq k) (encQ qs') } :=
  h.setTopCell (zq k) _ (by simp only [zq]; omega) _ rfl
    (by rw [set_get_other _ (by simp only [zq, oser]; omega)]; exact h.oS)
    (by rw [set_get_other _ (by simp only [zq, omap]; omega)]; exact h.oM)
    (by rw [set_get_other _ (by simp only [zq, zser]; omega)]; exact h.zS)
    (by rw [set_get_other _ (by simp only [zq, zmap]; omega)]; exact h.zM)
    (set_get_same _ h.zQ) h.regLt

/-- `zipTryEmit` when some queue is empty: nothing happens -/
theorem tryEmit_stop (h : GRel k σ [] w) (hne : Zip.ne σ.qs = false) (f : Nat) :
    WP (zipTryEmit (scZ k) (zq k) (f + 1)) w (GRel k σ []) := by
  simp only [zipTryEmit]
  refine wp_cellRead_val h.held h.zQ ?_
  simp only [encQ, Data.toList_ofList, Zip.toList_map_ofList, Zip.all_len_ne, hne, Bool.false_and,
    Bool.false_eq_true, ↓reduceIte]
  exact WP.done h

theorem o1Step_qs (σ : GS) (ev : Ev) : (o1Step σ ev).qs = σ.qs := by
  cases ev <;> simp only [o1Step, endState] <;> (try split) <;> rfl

/-- zip's `next` closure for source `i` (zip.rs:41-69): push, then emit while every queue has an item -/
theorem zPush_spec (h : GRel k σ [] w) (ht : TopOk σ) (hq : Zip.ne σ.qs = false) (hlen : σ.qs.length = k)
    (hk : 0 < k) (i : Nat) (x : Data) :
    WP (zPush k i x) w (GRel k (zStep σ i (.next x)) []) := by
  simp only [zPush]
  refine wp_cellRead_val h.held h.zQ ?_
  simp only [encQ, Data.toList_ofList, Zip.modify_enc]
  refine wp_cellWrite h.held ?_
  have h2 := h.setQ (σ.qs.modify i (· ++ [x]))
  simp only [encQ] at h2
  generalize hqs : σ.qs.modify i (· ++ [x]) = qs' at h2 ⊢
  have hlen' : qs'.length = k := by rw [← hqs, List.length_modify]; exact hlen
  obtain ⟨F, hF⟩ : ∃ F, (100000 : Nat) = F + 1 := ⟨99999, rfl⟩
  rw [hF]
  simp only [zStep, hqs]
  cases hne : Zip.ne qs' with
  | false =>
    simp only [Bool.false_eq_true, ↓reduceIte]
    exact tryEmit_stop h2 hne F
  | true =>
    simp only [↓reduceIte]
    simp only [zipTryEmit]
    refine wp_cellRead_val h2.held h2.zQ ?_
    have hl0 : decide (qs'.length > 0) = true := by rw [hlen']; simpa using hk
    simp only [encQ, Data.toList_ofList, Zip.toList_map_ofList, Zip.all_len_ne, hne, hl0, Bool.and_self,
      ↓reduceIte, Zip.tails_enc]
    refine wp_cellWrite h2.held ?_
    have h3 := h2.setQ (qs'.map List.tail)
    simp only [encQ] at h3
    have ht3 : TopOk ({ ({ σ with qs := qs' } : GS) with qs := qs'.map List.tail }) :=
      ⟨ht.alive, ht.oL, ht.oH, ht.oR, ht.nd⟩
    simp only [Sctl.isSub, scZ]
    have ho := h3.o1
    simp only [ht.oL, ht.oH, ↓reduceIte, optHook] at ho
    refine wp_obsIsSub ho ?_
    simp only [outerObs, Obs.isSub, Option.isSome_some, Bool.and_self, ↓reduceIte]
    apply WP.seq
    simp only [Sctl.sinkNext]
    refine wp_obsIsSub ho ?_
    simp only [outerObs, Obs.isSub, Option.isSome_some, Bool.and_self, ↓reduceIte]
    have hne2 : Zip.ne (qs'.map List.tail) = false := by
      have := (Zip.push_fills σ.qs i x hq (by rw [hqs]; exact hne)).1
      rw [hqs] at this; exact this
    refine o1_deliver h3 ht3 (.next _) fun w4 h4 => WP.done ?_
    obtain ⟨F', hF'⟩ : ∃ F', F = F' + 1 := ⟨99998, by omega⟩
    rw [hF']
    exact tryEmit_stop h4 (by rw [o1Step_qs]; exact hne2) F'

theorem GRel.zKill (h : GRel k σ [] w) {i : Nat} (hi : i < k) :
    GRel k (zKill σ i) [] { w with obs := w.obs.modify (Zo i) Obs.cleared } := by
  have hc := (h.chains i hi).setZ hi Obs.cleared false (σ.ch i).zH (by
    intro x hx
    rw [(h.chains i hi).oZ] at hx; cases hx
    cases (σ.ch i).zL <;> simp [Obs.cleared, zipObs, deadObs])
  have s : Same w { w with obs := w.obs.modify (Zo i) Obs.cleared } (chainCells k i) (chainObs k i (σ.ch i)) :=
    ⟨fun _ _ => rfl, fun o ho => modify_get_other _ _ (fun q => ho (by simp [chainObs, q])), rfl, rfl, rfl, rfl,
      rfl, by simp⟩
  exact h.chain_step hi hc s rfl

theorem GRel.setReg (h : GRel k σ [] w) (reg' : List Nat) (hr : ∀ i ∈ reg', i < k) :
    GRel k { σ with reg := reg' } [] { w with cells := w.cells.set (zmap k) (encMap (reg'.map fun i => (i, Zo i))) } :=
  h.setTopCell (zmap k) _ (by simp only [zmap]; omega) _ rfl
    (by rw [set_get_other _ (by simp only [zmap, oser]; omega)]; exact h.oS)
    (by rw [set_get_other _ (by simp only [zmap, omap]; omega)]; exact h.oM)
    (by rw [set_get_other _ (by simp only [zmap, zser]; omega)]; exact h.zS)
    (set_get_same _ h.zM)
    (by rw [set_get_other _ (by simp only [zmap, zq]; omega)]; exact h.zQ) hr

theorem filter_zreg (reg : List Nat) (i : Nat) :
    (reg.map fun j => (j, Zo j)).filter (fun p => p.1 != i) = (reg.filter (· != i)).map fun j => (j, Zo j) := by
  rw [List.filter_map]; rfl

theorem endState_fin (σ : GS) (t : Bool) (evs : List Ev) (hr : (endState σ t evs).reg = []) :
    ({ endState σ t evs with reg := [], ch := tearAll (endState σ t evs).ch (endState σ t evs).reg } : GS) =
      endState σ t evs := by
  rw [hr, tearAll_nil]
  cases hE : endState σ t evs
  simp only [hE] at hr
  simp [hr]

/-- an event reaches zip's observer `i` (zip.rs:41-90) -/
theorem z_deliver {Q : World → Prop} {kp : Prog} (h : GRel k σ [] w) (ht : TopOk σ) (hq : Zip.ne σ.qs = false)
    (hlen : σ.qs.length = k) (hk : 0 < k) {i : Nat} (hi : i < k) (hz : (σ.ch i).zL = true) (ev : Ev)
    (hkp : ∀ w1, GRel k (zStep σ i ev) [] w1 → WP kp w1 Q) : WP (evProg ev (Zo i) kp) w Q := by
  have ho := (h.chains i hi).oZ
  simp only [hz, ↓reduceIte] at ho
  refine wp_ev_code ho rfl rfl rfl ?_
  have htk : TopOk (zKill σ i) := ⟨ht.alive, ht.oL, ht.oH, ht.oR, ht.nd⟩
  have ho1 : ∀ w1, GRel k (zKill σ i) [] w1 → w1.obs[1]? = some (outerObs k (some (scZ k).finalize)) := by
    intro w1 h1
    have := h1.o1
    simp only [htk.oL, htk.oH, ↓reduceIte, optHook] at this
    exact this
  cases ev with
  | next x =>
    simp only [Ev.isTerminal, Bool.false_eq_true, ↓reduceIte, codeBody]
    exact (zPush_spec h ht hq hlen hk i x).conseq fun w1 h1 => hkp w1 h1
  | error e =>
    simp only [Ev.isTerminal, ↓reduceIte, codeBody, Sctl.sinkError, scZ]
    have h1 := h.zKill hi
    refine wp_obsIsSub (ho1 _ h1) ?_
    simp only [outerObs, Obs.isSub, Option.isSome_some, Bool.and_self, ↓reduceIte]
    refine o1_deliver h1 htk (.error e) fun w2 h2 => ?_
    refine (zipFin_spec h2 rfl (by simp [o1Step, endState]) (by intro p hp; cases hp)).conseq fun w3 h3 => hkp w3 ?_
    have e' := endState_fin (zKill σ i) true [.error e] rfl
    simp only [o1Step] at h3
    rw [e'] at h3
    exact h3
  | complete =>
    simp only [Ev.isTerminal, ↓reduceIte, codeBody, Sctl.sinkComplete, scZ]
    have h1 := h.zKill hi
    refine wp_obsIsSub (ho1 _ h1) ?_
    simp only [outerObs, Obs.isSub, Option.isSome_some, Bool.and_self, ↓reduceIte]
    refine wp_cellRead_val h1.held h1.zM ?_
    rw [amapRemove_encMap, filter_zreg]
    refine wp_cellWrite h1.held ?_
    have h2 := h1.setReg ((zKill σ i).reg.filter (· != i))
      (fun a ha => h1.regLt a (List.mem_filter.1 ha).1)
    have hreg : (zKill σ i).reg = σ.reg := rfl
    rw [hreg] at h2 ⊢
    rw [amapLen_encMap, List.length_map]
    simp only [zStep] at hkp
    cases hr : σ.reg.filter (· != i) with
    | nil =>
      rw [hr] at h2 hkp
      simp only [List.isEmpty_nil, ↓reduceIte] at hkp
      simp only [List.length_nil, beq_self_eq_true, ↓reduceIte]
      have htk2 : TopOk ({ zKill σ i with reg := [] }) := ⟨ht.alive, ht.oL, ht.oH, ht.oR, List.nodup_nil⟩
      refine o1_deliver h2 htk2 .complete fun w2 h3 => ?_
      refine (zipFin_spec h3 rfl (by simp [o1Step, endState]) (by intro p hp; cases hp)).conseq
        fun w3 h4 => hkp w3 ?_
      have e' := endState_fin ({ zKill σ i with reg := [] }) false [.next (.bool true), .complete] rfl
      simp only [o1Step] at h4
      rw [e'] at h4
      exact h4
    | cons a rest =>
      rw [hr] at h2 hkp
      simp only [List.isEmpty_cons, Bool.false_eq_true, ↓reduceIte] at hkp
      simp only [List.length_cons, Nat.add_eq_zero_iff, Nat.succ_ne_self, and_false, beq_iff_eq, ↓reduceIte]
      exact WP.done (hkp _ h2)

end Rx.SeqRef
