import RxVerif.Theorems.C04RefMacro
/-
C04-REF, part 3: the polite scripted source (`scriptLoop` of Machine/Lib.lean) feeding an upstream observer of
the controller, against `Ctl.playInto`; the generic resubscription loop `resubP` (= `retrySubscribe` =
`retryWhenSubscribe`) against `resubGo`.
-/
namespace Rx.RetryRef
open Rx.Sim Rx.Ref

/-- observers that existed (serial `< n`) and were unsubscribed stay unsubscribed -/
def Mono (n : Nat) (lv lv' : Nat → Bool) : Prop := ∀ j, j < n → lv j = false → lv' j = false

theorem Mono.refl (n : Nat) (lv : Nat → Bool) : Mono n lv lv := fun _ _ h => h
theorem Mono.trans {n m : Nat} {a b c : Nat → Bool} (h1 : Mono n a b) (h2 : Mono m b c) (hnm : n ≤ m) :
    Mono n a c := fun j hj h => h2 j (by omega) (h1 j hj h)

/-- postcondition shape of every composite step: the world represents `c'` -/
def Post (g : G) (c : Ctl) (lv : Nat → Bool) (c' : Ctl) (w' : World) : Prop :=
  ∃ lv', Rel g c' lv' w' ∧ Mono c.serial lv lv' ∧ c.serial ≤ c'.serial

/-- what the mirror does with one subscription: play the stream, then (on an error) the error closure `F` -/
def playK (F : Nat → Ctl → Ctl) (c : Ctl) (s : Nat) (st : Stream) : Ctl :=
  match c.playInto s st with
  | (c2, none) => c2
  | (c2, some e) => F e c2

theorem emitEv_eq (o : Nat) (ev : Ev) : emitEv o ev = evProg ev o .done := by cases ev <;> rfl

theorem Rel.probe {g : G} {c : Ctl} {lv : Nat → Bool} {w : World} (h : Rel g c lv w) (t : Nat) (d : Data) :
    Rel g c lv (w.emit (.probe t d)) :=
  ⟨h.rep.probe t d, h.dead, h.regLt, h.canLt⟩

section loop
variable {g : G} {c : Ctl} {lv : Nat → Bool} {w : World}

/-- a polite source whose observer has been unsubscribed stops at its next `is_subscribed` check -/
theorem script_dead (tag : Nat) (evs : List Ev) {s : Nat} (h : Rel g c lv w) (hs : s < c.serial)
    (hl : lv s = false) : WP (scriptLoop tag true (g.up s) evs) w (Rel g c lv) := by
  cases evs with
  | nil => exact WP.done h
  | cons ev evs =>
    simp only [scriptLoop]
    apply rep_isSubU h.rep hs
    rw [hl]
    apply wp_probe
    simp only [Bool.not_false, Bool.and_self, ↓reduceIte]
    exact WP.done (h.probe _ _)

theorem playInto_nil {s : Nat} (hc : s ∉ c.cancelled) (t : Ending) :
    c.playInto s ([], t) = match t with
      | .silent => (c, none) | .complete => (c.sinkComplete s, none) | .error e => (c, some e) := by
  cases t <;> simp [Ctl.playInto, Ctl.feed, hc]

theorem playInto_cons {s : Nat} (hc : s ∉ c.cancelled) (d : Data) (xs : List Data) (t : Ending) :
    c.playInto s (d :: xs, t) = (c.sinkNext d).playInto s (xs, t) := by
  simp [Ctl.playInto, Ctl.feed, hc]

theorem not_cancelled {s : Nat} (h : Rel g c lv w) (hl : lv s = true) : s ∉ c.cancelled := by
  intro hm; have := h.dead s hm; simp [hl] at this

end loop

/-- the scripted source playing `evs` into the live upstream observer `s` whose `next` / `complete` closures
    are `sink_next` / `sink_complete(&serial)` (all three recovery operators); the error closure is
    described by `hE` and mirrored by `F`. -/
theorem script_spec {g : G} (ok : g.Ok) (tag : Nat) (s : Nat) (F : Nat → Ctl → Ctl)
    (hn : g.hn s = fun x => g.sc.sinkNext x) (hc : g.hc s = g.sc.sinkComplete s) :
    ∀ (evs : List Ev) (c : Ctl) (lv : Nat → Bool) (w : World), Rel g c lv w → c.alive = true → lv s = true →
      s < c.serial →
      (∀ e o' lv2 w2, Rel g { c with out := o' } lv2 w2 → Mono c.serial lv lv2 → lv2 s = false →
        WP (g.he s e) w2 (Post g c lv2 (F e { c with out := o' }))) →
      WP (scriptLoop tag true (g.up s) evs) w (Post g c lv (playK F c s (Stream.ofScript evs)))
  | [], c, lv, w, h, _, hl, _, _ => by
    simp only [scriptLoop, Stream.ofScript, playK, playInto_nil (not_cancelled h hl)]
    exact WP.done ⟨lv, h, Mono.refl _ _, Nat.le_refl _⟩
  | .next d :: evs, c, lv, w, h, ha, hl, hs, hE => by
    simp only [scriptLoop, Stream.ofScript, playK, playInto_cons (not_cancelled h hl)]
    apply rep_isSubU h.rep hs
    rw [hl]
    apply wp_probe
    simp only [Bool.not_true, Bool.and_false, Bool.false_eq_true, ↓reduceIte, emitEv_eq]
    apply WP.seq
    apply rep_evU_live (ev := .next d) (h.probe _ _).rep hs hl
    intro w1 h1
    have h1' : Rel g c lv w1 := ⟨by simpa [Ev.isTerminal] using h1, h.dead, h.regLt, h.canLt⟩
    simp only [codeBody, hn]
    apply (sinkNext_spec h1' ha d).conseq
    intro w2 h2
    apply WP.done
    have e : c.sinkNext d = { c with out := c.out ++ [Ev.next d] } := by simp [Ctl.sinkNext, ha]
    rw [e] at h2 ⊢
    exact script_spec ok tag s F hn hc evs _ lv w2 h2 ha hl hs (fun e o' lv2 w3 h3 hm hl2 => hE e o' lv2 w3 h3 hm hl2)
  | .error e :: evs, c, lv, w, h, ha, hl, hs, hE => by
    simp only [scriptLoop, Stream.ofScript, playK, playInto_nil (not_cancelled h hl)]
    apply rep_isSubU h.rep hs
    rw [hl]
    apply wp_probe
    simp only [Bool.not_true, Bool.and_false, Bool.false_eq_true, ↓reduceIte, emitEv_eq]
    apply WP.seq
    apply rep_evU_live (ev := .error e) (h.probe _ _).rep hs hl
    intro w1 h1
    have hm : Mono c.serial lv (fun j => (!(Ev.error e).isTerminal || j != s) && lv j) :=
      fun j _ hj => by simp [hj]
    have h1' : Rel g { c with out := c.out } (fun j => (!(Ev.error e).isTerminal || j != s) && lv j) w1 :=
      ⟨h1, fun i hi => by simp [h.dead i hi], h.regLt, h.canLt⟩
    simp only [codeBody]
    apply (hE e c.out _ w1 h1' hm (by simp [Ev.isTerminal])).conseq
    rintro w2 ⟨lv2, h2, hm2, hle⟩
    apply WP.done
    apply (script_dead tag evs h2 (by omega) (hm2 s hs (by simp [Ev.isTerminal]))).conseq
    intro w3 h3
    exact ⟨lv2, h3, hm.trans hm2 (Nat.le_refl _), hle⟩
  | .complete :: evs, c, lv, w, h, ha, hl, hs, _ => by
    simp only [scriptLoop, Stream.ofScript, playK, playInto_nil (not_cancelled h hl)]
    apply rep_isSubU h.rep hs
    rw [hl]
    apply wp_probe
    simp only [Bool.not_true, Bool.and_false, Bool.false_eq_true, ↓reduceIte, emitEv_eq]
    apply WP.seq
    apply rep_evU_live (ev := .complete) (h.probe _ _).rep hs hl
    intro w1 h1
    have hm : Mono c.serial lv (fun j => (!Ev.complete.isTerminal || j != s) && lv j) :=
      fun j _ hj => by simp [hj]
    have h1' : Rel g c (fun j => (!Ev.complete.isTerminal || j != s) && lv j) w1 :=
      ⟨h1, fun i hi => by simp [h.dead i hi], h.regLt, h.canLt⟩
    simp only [codeBody, hc]
    apply (sinkComplete_spec ok h1' ha s).conseq
    rintro w2 ⟨lv2, h2, hm2⟩
    apply WP.done
    have hser : (c.sinkComplete s).serial = c.serial := by
      simp only [Ctl.sinkComplete, Ctl.finalize]
      repeat' split
      all_goals rfl
    apply (script_dead tag evs h2 (by omega) (hm2 s (by simp [Ev.isTerminal]))).conseq
    intro w3 h3
    exact ⟨lv2, h3, fun j hj hjl => hm2 j (hm j hj hjl), by omega⟩

end Rx.RetryRef

#print axioms Rx.RetryRef.script_spec
