import RxVerif.Theorems.C13RefColdCore
/-
C13-REF over a COLD source, part 2: the script running inside `source.subscribe(..)` = the fold of `ConnM.connRecv`
in `ConnM.connectSource`.  Generic in the users' side `UR`, as `hotLoop`.
-/
namespace Rx.CRef
open Rx.Sim Rx.SubjM Rx.Ref Rx.RefR

theorem ColdInv.probe {UR fn fe fc acell roots cobs w st armed}
    (hURprobe : ∀ w s t d, UR w s → UR (w.emit (.probe t d)) s)
    (h : ColdInv UR fn fe fc acell roots cobs w st armed) (t : Nat) (b : Bool) :
    ColdInv UR fn fe fc acell roots cobs (w.emit (.probe t (.bool b))) st armed :=
  ⟨⟨h.glob.status, h.glob.nObs, h.glob.rootsLt, h.glob.cobsLt, h.glob.nodup⟩, h.held, hURprobe _ _ _ _ h.ur,
   h.conns.frame (fun _ _ => rfl) (fun _ _ => rfl) (coldObs_probe1 w t b)⟩

section cold
variable (kind : ConnM.Kind) {fn : Data → Prog} {fe : Nat → Prog} {fc : Prog} {acell : Nat → Nat}
  {roots cobs : List Nat} {UR : World → SubjM.State → Prop} {J K : Nat → Prop}

theorem coldLoop (m : Nat) (hJ : ∀ i, i < cobs.length → ¬ J (rootAt cobs i))
    (hK : ∀ i, i < cobs.length → ¬ K (acell i))
    (hURconn : ∀ w s i, i < cobs.length → UR w s → UR (w.setObs (rootAt cobs i) Obs.cleared) s)
    (hURprobe : ∀ w s t d, UR w s → UR (w.emit (.probe t d)) s)
    (hemit : ∀ w s ev, SlotReads w.held → Glob roots cobs w → UR w s →
      WP (codeBody ev fn fe fc) w (fun w' => UR w' (emit kind.subj s ev) ∧ Touch J K w w'))
    {armed : List Bool} :
    ∀ (script : List Ev) (st : ConnM.State) (w : World), m < st.conns.length →
      ColdInv UR fn fe fc acell roots cobs w st armed →
      WP (scriptLoop 0 true (rootAt cobs m) script) w
        (fun w' => ColdInv UR fn fe fc acell roots cobs w'
          (script.foldl (fun s ev => ConnM.connRecv kind s m ev) st) armed) := by
  intro script
  induction script with
  | nil => intro st w _ h; exact WP.done h
  | cons ev evs ih =>
    intro st w hm h
    have hmc : m < cobs.length := by rw [h.conns.lenC]; exact hm
    simp only [scriptLoop, List.foldl_cons]
    refine wp_obsIsSub (h.conns.obs m hm) ?_
    rw [connObsC_isSub]
    refine wp_probe ?_
    have h0 := h.probe hURprobe (0 * 4 + 1) (st.conns.getD m false)
    generalize (w.emit (.probe (0 * 4 + 1) (.bool (st.conns.getD m false)))) = w0 at h0
    cases hb : st.conns.getD m false with
    | false =>
      have hgate : ¬ st.conns[m]? = some true := by
        simp [List.getD_eq_getElem?_getD, hm] at hb; simp [hm, hb]
      have h1 : ConnM.connRecv kind st m ev = st := by unfold ConnM.connRecv; simp [hgate]
      rw [h1, foldRecv_gate kind m st hgate]
      simp only [Bool.not_false, Bool.and_self, ↓reduceIte]
      exact WP.done h0
    | true =>
      have hflag : st.conns[m]? = some true := by
        simp [List.getD_eq_getElem?_getD, hm] at hb; simp [hm, hb]
      simp only [Bool.not_true, Bool.and_false, Bool.false_eq_true, ↓reduceIte, emitEv_eq]
      refine WP.seq ?_
      have hobs := h0.conns.obs m hm
      rw [hb] at hobs
      refine wp_ev_code hobs (by simp [connObsC]; rfl) (by simp [connObsC]; rfl) (by simp [connObsC]; rfl) ?_
      have h1 : ColdInv UR fn fe fc acell roots cobs
          (if ev.isTerminal then w0.setObs (rootAt cobs m) Obs.cleared else w0)
          { st with conns := if ev.isTerminal then st.conns.set m false else st.conns } armed := by
        split
        · exact ⟨h0.glob.touch (Touch.setObs (J := fun _ => True) (K := NoCell) w0 _ _ trivial), h0.held,
            hURconn _ _ m hmc h0.ur, h0.conns.clear h0.glob m hm _ (fun b => by cases b <;> rfl)⟩
        · exact h0
      refine (hemit _ _ ev h1.held h1.glob h1.ur).conseq ?_
      rintro w2 ⟨hur2, t2⟩
      refine WP.done ?_
      have hst : ConnM.connRecv kind st m ev =
          { st with
            conns := if ev.isTerminal then st.conns.set m false else st.conns
            sub := emit kind.subj st.sub ev
            emitted := ConnM.accept ev st.emitted } := by
        unfold ConnM.connRecv; simp [hflag]
      have hlen1 : ∀ i, i < ({ st with conns := if ev.isTerminal then st.conns.set m false else st.conns } :
          ConnM.State).conns.length → i < cobs.length := by
        intro i hi
        have := h1.conns.lenC
        split at this <;> simp_all
      have h2 : ColdInv UR fn fe fc acell roots cobs w2 (ConnM.connRecv kind st m ev) armed := by
        rw [hst]
        refine ⟨h1.glob.touch t2, t2.held ▸ h1.held, hur2, ?_⟩
        exact h1.conns.touch t2 (fun i hi => hJ i (hlen1 i hi))
          (fun i hi => hK i (by have := h1.conns.lenA.1; have := hlen1 i (by omega); exact this))
      exact ih _ w2 (by rw [ConnM.connRecv_conns_length]; exact hm) h2

end cold

/-- `source.subscribe(next, error, complete)` on the cold source, up to the point where the script starts:
    the new observer exists and has been recorded by the source's probe -/
def coldConnWorld (fn : Data → Prog) (fe : Nat → Prog) (fc : Prog) (w : World) : World :=
  ({ w with obs := w.obs ++ [connObsC fn fe fc true] } : World).emit (.probe (0 * 4) (.int (w.obs.length : Nat)))

theorem connectCold_pre {script : List Ev} {fn : Data → Prog} {fe : Nat → Prog} {fc : Prog} {w : World}
    {k : Data → Prog} {Q Q1 : World → Prop} (hobsv : w.obsvs[0]? = some (coldSrc script))
    (hloop : WP (scriptLoop 0 true w.obs.length script) (coldConnWorld fn fe fc w) Q1)
    (hQ : ∀ w2, Q1 w2 → WP (k (.pair (.int (w.obs.length : Nat)) (.int (w2.cells.length : Nat))))
      { w2 with cells := w2.cells ++ [.bool true] } Q) :
    WP (subscribeWith (fun o => .obsvSub 0 o .done) fn fe fc k) w Q := by
  unfold subscribeWith
  refine wp_obsNew ?_
  refine WP.seq ?_
  simp only [Obsv.sub]
  refine wp_obsIsSub (x := connObsC fn fe fc true) (by dsimp only; rw [get_app0]; rfl) ?_
  rw [connObsC_isSub]
  simp only [↓reduceIte]
  refine wp_obsvSub hobsv ?_
  simp only [coldSrc, oScript]
  refine wp_probe ?_
  refine hloop.conseq ?_
  intro w2 h2
  exact WP.done (wp_cellNew (hQ w2 h2))

end Rx.CRef
