import RxVerif.Theorems.C13RefReplayTail
/-
C13-REF, replay: `subscribe` of a test user, part 0: the world when `Subject::observable`'s closure reaches
`on_subscribe(len)` for the freshly made forwarder (root observer, `sbsc` cell, forwarder allocated; the forwarder is
in the inner map; `sbsc` is still `None`).
-/
namespace Rx.CRef
open Rx.Sim Rx.SubjM Rx.Ref Rx.RefR

theorem mapL_reg (L : LayR) (w : World) (l : List (Nat × Nat)) (hlenF : L.fwds.length = L.roots.length)
    (hl : ∀ p ∈ l, p.2 < L.roots.length) : mapL (L.reg w) l = mapL L l := by
  unfold mapL
  apply List.map_congr_left
  intro p hp
  show (p.1, rootAt (L.fwds ++ [_]) p.2) = _
  rw [rootAt_append_lt _ _ (hlenF ▸ hl p hp)]

theorem glob_reg {L : LayR} {cobs w} (g : Glob (L.roots ++ L.fwds) cobs w) (observers serial) :
    Glob ((L.reg w).roots ++ (L.reg w).fwds) cobs (regWorld L w observers serial) := by
  have hlen : (regWorld L w observers serial).obs.length = w.obs.length + 2 := by simp [regWorld]
  refine ⟨g.status, ?_, ?_, ?_, ?_⟩
  · rw [hlen, g.nObs]; simp [LayR.reg]; omega
  · intro r hr
    rw [hlen]
    simp only [LayR.reg, List.mem_append, List.mem_singleton] at hr
    rcases hr with (hr | hr) | (hr | hr)
    · have := g.rootsLt r (List.mem_append_left _ hr); omega
    · omega
    · have := g.rootsLt r (List.mem_append_right _ hr); omega
    · omega
  · intro c hc; rw [hlen]; have := g.cobsLt c hc; omega
  · have hn := g.nodup
    have hlt : ∀ x ∈ (L.roots ++ L.fwds) ++ cobs, x < w.obs.length := by
      intro x hx
      rcases List.mem_append.1 hx with hx | hx
      · exact g.rootsLt x hx
      · exact g.cobsLt x hx
    obtain ⟨hrf, hc, hd1⟩ := List.nodup_append.1 hn
    obtain ⟨hr, hf, hd2⟩ := List.nodup_append.1 hrf
    have ltr : ∀ x ∈ L.roots, x < w.obs.length := fun x hx => hlt x (by simp [hx])
    have ltf : ∀ x ∈ L.fwds, x < w.obs.length := fun x hx => hlt x (by simp [hx])
    have ltc : ∀ x ∈ cobs, x < w.obs.length := fun x hx => hlt x (by simp [hx])
    show ((L.roots ++ [w.obs.length]) ++ (L.fwds ++ [w.obs.length + 1]) ++ cobs).Nodup
    rw [List.nodup_append]
    refine ⟨?_, hc, ?_⟩
    · rw [List.nodup_append]
      refine ⟨?_, ?_, ?_⟩
      · rw [List.nodup_append]
        exact ⟨hr, by simp, fun a ha b hb => by simp at hb; subst hb; have := ltr a ha; omega⟩
      · rw [List.nodup_append]
        exact ⟨hf, by simp, fun a ha b hb => by simp at hb; subst hb; have := ltf a ha; omega⟩
      · intro a ha b hb
        rcases List.mem_append.1 ha with ha | ha <;> rcases List.mem_append.1 hb with hb | hb
        · exact hd2 a ha b hb
        · simp at hb; subst hb; have := ltr a ha; omega
        · simp at ha; subst ha; have := ltf b hb; omega
        · simp at ha hb; omega
    · intro a ha b hb
      rcases List.mem_append.1 ha with ha | ha
      · rcases List.mem_append.1 ha with ha | ha
        · exact hd1 a (by simp [ha]) b hb
        · simp at ha; subst ha; have := ltc b hb; omega
      · rcases List.mem_append.1 ha with ha | ha
        · exact hd1 a (by simp [ha]) b hb
        · simp at ha; subst ha; have := ltc b hb; omega

theorem URr.registerUser {L cobs cacs Hd cg sb cn w} {s : SubjM.State}
    (hur : URr L cobs cacs none none Hd cg sb cn w s) :
    URr (L.reg w) cobs cacs (some L.roots.length) (some L.roots.length) Hd cg sb cn
      (regWorld L w s.observers s.serial)
      { s with serial := s.serial + 1
               observers := s.observers ++ [(s.serial + 1, L.roots.length)]
               obs := upd s.obs L.roots.length (regRec (s.serial + 1)) } := by
  obtain ⟨g, U, X⟩ := hur
  have g1 := glob_reg g s.observers s.serial
  have h9 : 9 < w.cells.length := lt_of_getElem?_some X.cellN
  have hacsl : L.acs.length = L.roots.length := by have := U.lenA; simpa using this
  have hcells : ∀ i, i ≠ 2 → i ≠ 3 → i < w.cells.length →
      (regWorld L w s.observers s.serial).cells[i]? = w.cells[i]? := by
    intro i h2 h3 hi
    show (((w.cells ++ [_]).set 3 _).set 2 _)[i]? = _
    rw [set_get_other _ (Ne.symm h2), set_get_other _ (Ne.symm h3), get_app_lt _ _ _ hi]
  have hobs : ∀ j, j < w.obs.length → (regWorld L w s.observers s.serial).obs[j]? = w.obs[j]? :=
    fun j hj => get_app_lt _ _ _ hj
  have husr : ∀ j, j < w.users.length → (regWorld L w s.observers s.serial).users[j]? = w.users[j]? :=
    fun j hj => get_app_lt _ _ _ hj
  have hmap : mapL (L.reg w) (s.observers ++ [(s.serial + 1, L.roots.length)]) =
      mapL L s.observers ++ [(s.serial + 1, w.obs.length + 1)] := by
    have := mapL_reg L w s.observers U.lenF U.regBound
    simp only [mapL, List.map_append, List.map_cons, List.map_nil] at this ⊢
    rw [this]
    simp only [LayR.reg]
    rw [← U.lenF, rootAt_append_last]
  have U1 : UsersPartR (L.reg w) (some L.roots.length) (some L.roots.length)
      (regWorld L w s.observers s.serial)
      { s with serial := s.serial + 1
               observers := s.observers ++ [(s.serial + 1, L.roots.length)]
               obs := upd s.obs L.roots.length (regRec (s.serial + 1)) } := by
    refine
      { lenF := by simp [LayR.reg, U.lenF], lenS := by simp [LayR.reg, U.lenS]
        lenA := by simp [LayR.reg, hacsl]
        unstLast := fun m hm => by have := Option.some.inj hm; simp [LayR.reg]; omega
        cellO := by rw [hmap]; exact set_get_same _ (by rw [set_get_other _ (by decide), get_app_lt _ _ _ (by omega)]; exact U.cellO)
        cellS := by
          show (((w.cells ++ [_]).set 3 _).set 2 _)[3]? = _
          rw [set_get_other _ (by decide)]
          exact set_get_same _ (by rw [get_app_lt _ _ _ (by omega)]; exact U.cellS)
        cellI := (hcells 4 (by decide) (by decide) (by omega)).trans U.cellI
        cellE := (hcells 5 (by decide) (by decide) (by omega)).trans U.cellE
        cellC := (hcells 6 (by decide) (by decide) (by omega)).trans U.cellC
        nUsers := by simp [regWorld, LayR.reg, U.nUsers]
        users := ?_, unseen := ?_, quiet := ?_, keys := ?_, regBound := ?_, cellsNodup := ?_, cellsGe := ?_ }
    · intro u hu
      simp only [LayR.reg, List.length_append, List.length_cons, List.length_nil] at hu
      by_cases e : u = L.roots.length
      · subst e
        simp only [upd, ↓reduceIte]
        have er : rootAt (L.reg w).roots L.roots.length = w.obs.length := by
          show rootAt (L.roots ++ [_]) _ = _; rw [rootAt_append_last]
        have es : rootAt (L.reg w).sbs L.roots.length = w.cells.length := by
          show rootAt (L.sbs ++ [_]) _ = _; rw [← U.lenS, rootAt_append_last]
        have ef : rootAt (L.reg w).fwds L.roots.length = w.obs.length + 1 := by
          show rootAt (L.fwds ++ [_]) _ = _; rw [← U.lenF, rootAt_append_last]
        refine ⟨⟨false, ?_, fun x => absurd rfl x⟩, ?_, ?_, ?_, fun x => absurd rfl x, fun _ => rfl, ?_, rfl,
          fun hh => by cases hh⟩
        · rw [er]
          show (w.users ++ [_])[_]? = _
          rw [get_app_at _ _ _ 0 (by rw [U.nUsers]; rfl)]; rfl
        · rw [er, es]
          show (w.obs ++ [_, _])[_]? = _
          rw [get_app0, ← U.nUsers]; rfl
        · rw [ef, er]
          show (w.obs ++ [_, _])[_]? = _
          rw [get_app_ge _ _ 1]; rfl
        · rw [es]
          show (((w.cells ++ [_]).set 3 _).set 2 _)[_]? = _
          rw [set_get_other _ (by omega), set_get_other _ (by omega), get_app0]
          simp
        · show logOf w _ = _
          rw [U.quiet _ (Nat.le_refl _)]; rfl
      · have hlt : u < L.roots.length := by omega
        have UU := U.users u hlt
        have hne : (some L.roots.length : Option Nat) ≠ some u := fun x => e (Option.some.inj x).symm
        simp only [upd, e, ↓reduceIte]
        obtain ⟨rd, h1, h2⟩ := UU.user
        have e1 : rootAt (L.reg w).roots u = rootAt L.roots u := rootAt_append_lt _ _ hlt
        have e2 : rootAt (L.reg w).fwds u = rootAt L.fwds u := rootAt_append_lt _ _ (U.lenF ▸ hlt)
        have e3 : rootAt (L.reg w).sbs u = rootAt L.sbs u := rootAt_append_lt _ _ (U.lenS ▸ hlt)
        have e4 : rootAt (L.reg w).acs u = rootAt L.acs u := rfl
        have hsbu := U.sb_ge hlt
        have hacu := U.ac_ge hlt (by simp)
        refine ⟨⟨rd, ?_, fun _ => h2 (by simp)⟩, ?_, ?_, ?_, fun _ => ?_, fun x => absurd x hne, ?_, UU.seen, UU.dead⟩
        · rw [e1, husr u (by rw [U.nUsers]; exact hlt)]; exact h1
        · rw [e1, e3, hobs _ (g.rootsLt _ (GlobR.root_mem hlt))]; exact UU.root
        · rw [e1, e2, hobs _ (g.rootsLt _ (GlobR.fwd_mem (U.lenF ▸ hlt)))]; exact UU.fwd
        · rw [e3, hcells _ (by omega) (by omega) hsbu.2]
          have := UU.sb
          simp only [reduceCtorEq, ↓reduceIte] at this
          simp only [hne, ↓reduceIte, handleL, e2, e4]
          exact this
        · rw [e4, hcells _ (by omega) (by omega) hacu.2]; exact UU.ac (by simp)
        · exact UU.log
    · intro u hu
      simp only [LayR.reg, List.length_append, List.length_cons, List.length_nil] at hu
      have : u ≠ L.roots.length := by omega
      simp only [upd, this, ↓reduceIte]; exact U.unseen u (by omega)
    · intro u hu
      simp only [LayR.reg, List.length_append, List.length_cons, List.length_nil] at hu
      exact U.quiet u (by omega)
    · intro p hp
      rcases List.mem_append.1 hp with hp | hp
      · have := U.keys p hp; show p.1 ≤ s.serial + 1; omega
      · simp at hp; subst hp; exact Nat.le_refl _
    · intro p hp
      simp only [LayR.reg, List.length_append, List.length_cons, List.length_nil]
      rcases List.mem_append.1 hp with hp | hp
      · have := U.regBound p hp; omega
      · simp at hp; subst hp; simp
    · show ((L.sbs ++ [w.cells.length]) ++ L.acs).Nodup
      obtain ⟨hs, ha, hd⟩ := List.nodup_append.1 U.cellsNodup
      rw [List.nodup_append]
      refine ⟨?_, ha, ?_⟩
      · rw [List.nodup_append]
        exact ⟨hs, by simp, fun a ha' b hb => by
          simp at hb; subst hb; have := (U.cellsGe a (List.mem_append_left _ ha')).2; omega⟩
      · intro a ha' b hb
        rcases List.mem_append.1 ha' with ha' | ha'
        · exact hd a ha' b hb
        · simp at ha'; subst ha'; have := (U.cellsGe b (List.mem_append_right _ hb)).2; omega
    · intro c hc
      have hl : (regWorld L w s.observers s.serial).cells.length = w.cells.length + 1 := by
        simp [regWorld]
      rw [hl]
      have hc' : c ∈ (L.sbs ++ [w.cells.length]) ++ L.acs := hc
      rcases List.mem_append.1 hc' with hc' | hc'
      · rcases List.mem_append.1 hc' with hc' | hc'
        · have := U.cellsGe c (List.mem_append_left _ hc'); omega
        · simp at hc'; subst hc'; omega
      · have := U.cellsGe c (List.mem_append_right _ hc'); omega
  refine ⟨g1, U1, ?_⟩
  exact
    { X with
      cellG := (hcells 7 (by decide) (by decide) (by omega)).trans X.cellG
      cellB := (hcells 8 (by decide) (by decide) (by omega)).trans X.cellB
      cellN := (hcells 9 (by decide) (by decide) (by omega)).trans X.cellN
      caGe := fun c hc => by
        have hl : (regWorld L w s.observers s.serial).cells.length = w.cells.length + 1 := by
          simp [regWorld]
        rw [hl]; have := X.caGe c hc; omega
      caDisj := fun c hc hm => by
        have hm' : c ∈ (L.sbs ++ [w.cells.length]) ++ L.acs := hm
        rcases List.mem_append.1 hm' with hm' | hm'
        · rcases List.mem_append.1 hm' with hm' | hm'
          · exact X.caDisj c hc (List.mem_append_left _ hm')
          · simp at hm'; subst hm'; have := (X.caGe _ hc).2; omega
        · exact X.caDisj c hc (List.mem_append_right _ hm') }

theorem RelRp.registerUser {L cobs cacs armed w st} (h : RelRp L cobs cacs armed none none [] w st) :
    RelRp (L.reg w) cobs cacs armed (some L.roots.length) (some L.roots.length) []
      (regWorld L w st.sub.observers st.sub.serial)
      { st with sub := { st.sub with serial := st.sub.serial + 1
                                     observers := st.sub.observers ++ [(st.sub.serial + 1, L.roots.length)]
                                     obs := upd st.sub.obs L.roots.length (regRec (st.sub.serial + 1)) } } := by
  have hur' := h.ur.registerUser
  obtain ⟨g, U, X⟩ := h.ur
  have h9 : 9 < w.cells.length := lt_of_getElem?_some X.cellN
  have hcells : ∀ i, i ≠ 2 → i ≠ 3 → i < w.cells.length →
      (regWorld L w st.sub.observers st.sub.serial).cells[i]? = w.cells[i]? := by
    intro i h2 h3 hi
    show (((w.cells ++ [_]).set 3 _).set 2 _)[i]? = _
    rw [set_get_other _ (Ne.symm h2), set_get_other _ (Ne.symm h3), get_app_lt _ _ _ hi]
  have hobs : ∀ j, j < w.obs.length → (regWorld L w st.sub.observers st.sub.serial).obs[j]? = w.obs[j]? :=
    fun j hj => get_app_lt _ _ _ hj
  refine ⟨hur'.1, h.held, hur', ?_⟩
  refine h.conns.frame ?_ ?_ ?_ ?_
  · exact hcells 0 (by decide) (by decide) (by omega)
  · exact hcells 1 (by decide) (by decide) (by omega)
  · intro i hi
    exact hobs _ (g.cobsLt _ (rootAt_mem (h.conns.lenC ▸ hi)))
  · intro i hi
    have := X.caGe _ (rootAt_mem (l := cacs) (i := i) (by rw [X.lenCa, h.conns.lenC]; exact hi))
    exact hcells _ (by omega) (by omega) this.2

end Rx.CRef
