import RxVerif.Theorems.C13RefCount
/-
C13-REF, ref_count: the two hooks.  `on_subscribe(len)` (ref_count.rs:57-90) = `ConnM.onSubscribe`,
`on_unsubscribe(len)` (ref_count.rs:41-50) = `ConnM.onUnsubscribe`; both run under S's slot read guard.
-/
namespace Rx.CRef
open Rx.Sim Rx.SubjM Rx.Ref Rx.RefR

/-- entering / leaving a hook only changes the guards held -/
theorem RelC'.held_swap {roots cobs armed pend Hd Hd' w w' st} (h : RelC' roots cobs armed pend Hd w st)
    (hw : w' = { w with held := Hd' }) (hs : SlotReads Hd') : RelC' roots cobs armed pend Hd' w' st := by
  subst hw
  obtain ⟨g, U, X⟩ := h.ur
  have g' : Glob roots cobs { w with held := Hd' } := ⟨g.status, g.nObs, g.rootsLt, g.cobsLt, g.nodup⟩
  exact ⟨g', hs, ⟨g', U.frame rfl rfl rfl (fun _ _ => rfl) (fun _ => rfl), { X with held := rfl }⟩,
    h.conns.frame rfl rfl (fun _ _ => rfl) (fun _ _ => rfl)⟩

/-- changing which user is pending (only at `userReady`) is handled by `UsersPart.ready`; here: the same relation
    read with another set of flags that has the same values -/
theorem RelC'.flags {roots cobs armed pend Hd w} {st st' : ConnM.State} (h : RelC' roots cobs armed pend Hd w st)
    (h1 : st'.sub = st.sub) (h2 : st'.conns = st.conns) (h3 : st'.connecting = st.connecting)
    (h4 : st'.subscription = st.subscription) (h5 : st'.cancelled = st.cancelled) :
    RelC' roots cobs armed pend Hd w st' := by
  unfold RelC' at *
  rw [h2, h3, h4, h5]
  exact ⟨h.glob, h.held, by rw [h1]; exact h.ur, by rw [h2]; exact h.conns⟩

theorem onSubscribe_skip (st : ConnM.State) (len1 : Nat) (h : ¬ (len1 = 1 ∧ st.connecting = false)) :
    ConnM.onSubscribe .refCount .hot st (some len1) = st := by
  unfold ConnM.onSubscribe
  rw [if_neg]
  simpa using h

theorem onSubscribe_fire (st : ConnM.State) (h : st.connecting = false) :
    ConnM.onSubscribe .refCount .hot st (some 1) =
      { st with
        connecting := true
        subscription := some st.conns.length
        conns := if st.cancelled then (st.conns ++ [true]).set st.conns.length false else st.conns ++ [true] } := by
  simp [ConnM.onSubscribe, ConnM.connectSource, h]

/-- the world right after `connecting = true`, `source.subscribe(..)` and `self.subscription = Some(handle)` -/
def connectedWorld (w : World) (hmap : List (Nat × Nat)) (m : Nat) : World :=
  { connWorld Hp fnP feP fcP { w with cells := w.cells.set 4 (.bool true) } hmap m with
    cells := (connWorld Hp fnP feP fcP { w with cells := w.cells.set 4 (.bool true) } hmap m).cells.set 5
      (.pair (.int (w.obs.length : Nat)) (.int (w.cells.length : Nat))) }

theorem connected_mid {roots cobs armed pend Hd w st} (h : RelC' roots cobs armed pend Hd w st) :
    RelC' roots (cobs ++ [w.obs.length]) (armed ++ [true]) pend Hd
      (connectedWorld w (liveFrom 0 cobs st.conns) st.conns.length)
      { st with connecting := true, subscription := some st.conns.length, conns := st.conns ++ [true] } := by
  obtain ⟨g, U, X⟩ := h.ur
  have hm : st.conns.length = cobs.length := h.conns.lenC.symm
  -- the world after `connecting = true`
  have hcl1 : ({ w with cells := w.cells.set 4 (.bool true) } : World).cells.length = w.cells.length := by simp
  have g1 : Glob roots cobs { w with cells := w.cells.set 4 (.bool true) } :=
    ⟨g.status, g.nObs, g.rootsLt, g.cobsLt, g.nodup⟩
  have C1 : ConnsPart Hp fnP feP fcP acellC cobs { w with cells := w.cells.set 4 (.bool true) }
      (liveFrom 0 cobs st.conns) st.conns armed :=
    h.conns.frame (set_get_other _ (by decide)) (set_get_other _ (by decide)) (fun _ _ => rfl)
      (fun i _ => set_get_other _ (by simp [acellC]; omega))
  have hnew : acellC st.conns.length = ({ w with cells := w.cells.set 4 (.bool true) } : World).cells.length := by
    rw [hcl1, X.nCells, hm]; rfl
  have C2 := connWorld_conns C1 g1 (fun i _ => by simp [acellC, Hp]; omega) hnew
  have g2 := connWorld_glob (H := Hp) (fn := fnP) (fe := feP) (fc := fcP) g1 (liveFrom 0 cobs st.conns) st.conns.length
  have hcells : ∀ i, i ≠ 0 → i ≠ 1 → i ≠ 4 → i ≠ 5 → i < w.cells.length →
      ((connWorld Hp fnP feP fcP { w with cells := w.cells.set 4 (.bool true) } (liveFrom 0 cobs st.conns)
        st.conns.length).cells.set 5 (.pair (.int (w.obs.length : Nat)) (.int (w.cells.length : Nat))))[i]? =
        w.cells[i]? := by
    intro i h0 h1 h4 h5 hi
    rw [set_get_other _ (Ne.symm h5), connWorld_cells Hp fnP feP fcP _ _ _ h0 h1 (by rw [hcl1]; exact hi)]
    exact set_get_other _ (Ne.symm h4)
  have g3 : Glob roots (cobs ++ [w.obs.length]) (connectedWorld w (liveFrom 0 cobs st.conns) st.conns.length) :=
    ⟨g2.status, g2.nObs, g2.rootsLt, g2.cobsLt, g2.nodup⟩
  refine ⟨g3, h.held, ⟨g3, ?_, ?_⟩, ?_⟩
  · refine U.frame (hcells 2 (by decide) (by decide) (by decide) (by decide) (lt_of_getElem?_some U.cellO))
      (hcells 3 (by decide) (by decide) (by decide) (by decide) (lt_of_getElem?_some U.cellS)) rfl ?_ (fun _ => rfl)
    intro u hu
    exact connWorld_obs_lt Hp fnP feP fcP _ (liveFrom 0 cobs st.conns) st.conns.length (g.rootsLt _ (rootAt_mem hu))
  · have h4l : 4 < w.cells.length := by rw [X.nCells]; omega
    have h5l : 5 < w.cells.length := by rw [X.nCells]; omega
    refine
      { held := X.held, slot0 := X.slot0, slot1 := X.slot1, slot2 := X.slot2, slot3 := X.slot3
        obsvS := X.obsvS
        cellG := ?_, cellB := ?_, cellN := ?_, nCells := ?_, sbLt := ?_ }
    · show ((connWorld Hp fnP feP fcP _ _ _).cells.set 5 _)[4]? = _
      rw [set_get_other _ (by decide), connWorld_cells Hp fnP feP fcP _ _ _ (by decide) (by decide)
        (by rw [hcl1]; exact h4l)]
      exact set_get_same _ X.cellG
    · show ((connWorld Hp fnP feP fcP _ _ _).cells.set 5 _)[5]? = _
      have : (connWorld Hp fnP feP fcP { w with cells := w.cells.set 4 (.bool true) } (liveFrom 0 cobs st.conns)
          st.conns.length).cells[5]? = some (subCell cobs st.subscription) := by
        rw [connWorld_cells Hp fnP feP fcP _ _ _ (by decide) (by decide) (by rw [hcl1]; exact h5l)]
        show (w.cells.set 4 _)[5]? = _
        rw [set_get_other _ (by decide)]; exact X.cellB
      rw [set_get_same _ this]
      simp only [subCell, hm, rootAt_append_last, acellC, X.nCells]
    · exact (hcells 6 (by decide) (by decide) (by decide) (by decide) (by rw [X.nCells]; omega)).trans X.cellN
    · show ((connWorld Hp fnP feP fcP _ _ _).cells.set 5 _).length = _
      rw [List.length_set, connWorld_cellsLen, hcl1, X.nCells]; simp; omega
    · intro i hi
      have : i = st.conns.length := (Option.some.inj hi).symm
      simp; omega
  · refine C2.frame ?_ ?_ (fun _ _ => rfl) ?_
    · exact set_get_other _ (by decide)
    · exact set_get_other _ (by decide)
    · intro i _; exact set_get_other _ (by simp [acellC]; omega)

theorem toBool_bool (b : Bool) : (Data.bool b).toBool = b := rfl

def KC (i : Nat) : Prop := i = 0 ∨ 7 ≤ i

theorem URc.touchConns {roots cobs pend Hd cg sb cn w w' s} (h : URc roots cobs pend Hd cg sb cn w s)
    (t : Touch (InList cobs) KC w w') (htr : w'.trace = w.trace) : URc roots cobs pend Hd cg sb cn w' s := by
  obtain ⟨g, U, X⟩ := h
  refine ⟨g.touch t, ?_, X.touch t ⟨by simp [KC], by simp [KC], by simp [KC]⟩⟩
  refine U.frame (t.cells _ (by simp [KC, Sp])) (t.cells _ (by simp [KC, Sp])) t.users ?_ ?_
  · intro u hu
    refine t.obs _ (fun hm => ?_)
    exact (List.nodup_append.1 g.nodup).2.2 _ (rootAt_mem hu) _ hm rfl
  · intro u; simp only [logOf, htr]

/-- `Subscription::unsubscribe` of source subscription `i` on a ref_count world -/
theorem srcUnsubC_spec {roots cobs armed pend Hd w st} (h : RelC' roots cobs armed pend Hd w st) {i : Nat}
    (hi : i < st.conns.length) :
    WP (subUnsub (.pair (.int (rootAt cobs i : Nat)) (.int (acellC i : Nat)))) w (fun w' =>
      RelC' roots cobs (armed.set i false) pend Hd w' { st with conns := st.conns.set i false }) := by
  obtain ⟨g, U, X⟩ := h.ur
  refine (srcUnsub_spec (K := KC) h.held h.conns g X.slot1
    (fun i _ => by simp [acellC, Hp]; omega) (fun i j _ _ e => by simp [acellC] at e; exact e)
    ⟨by simp [KC, Hp], fun i _ => by simp [KC, acellC]⟩ hi).conseq ?_
  rintro w1 ⟨C1, t1, htr⟩
  exact ⟨h.glob.touch t1, t1.held ▸ h.held, h.ur.touchConns t1 htr, C1⟩

/-- `on_subscribe(len)` of ref_count.rs:57-90 = `ConnM.onSubscribe` -/
theorem onSubHook_spec {roots cobs armed pend Hd w st} (h : RelC' roots cobs armed pend Hd w st) (len1 : Nat) :
    WP (onSubHook rcC srcC fnP feP fcP (.int (len1 : Nat))) w (fun w' => ∃ cobs' armed',
      RelC' roots cobs' armed' pend Hd w' (ConnM.onSubscribe .refCount .hot st (some len1))) := by
  obtain ⟨g, U, X⟩ := h.ur
  unfold onSubHook
  have hti : (Data.int (len1 : Nat)).toInt = (len1 : Int) := rfl
  simp only [hti]
  by_cases h1 : len1 = 1
  · subst h1
    simp only [Int.natCast_one, beq_self_eq_true, ↓reduceIte]
    refine wp_cellReadG h.held ?_
    rw [show w.cells[rcC.connected]? = some (.bool st.connecting) from X.cellG]
    simp only [Option.getD_some, toBool_bool]
    cases hc : st.connecting with
    | true =>
      simp only [↓reduceIte]
      refine WP.done ⟨cobs, armed, ?_⟩
      rw [onSubscribe_skip st 1 (by simp [hc])]; exact h
    | false =>
      simp only [Bool.false_eq_true, ↓reduceIte]
      refine wp_cellWriteG h.held ?_
      have hm : st.conns.length = cobs.length := h.conns.lenC.symm
      refine connect_pre (H := Hp) (hid := 0) (fn := fnP) (fe := feP) (fc := fcP)
        (hmap := liveFrom 0 cobs st.conns) (m := st.conns.length) h.held h.conns.obsv X.slot0 h.conns.ne
        (by show (w.cells.set 4 _)[0]? = _; rw [set_get_other _ (by decide)]; exact h.conns.cellO)
        (by show (w.cells.set 4 _)[1]? = _; rw [set_get_other _ (by decide)]; exact h.conns.cellS)
        (fun p hp => by have := (liveFrom_keys 0 cobs st.conns p hp).2; omega) ?_
      have hmid := connected_mid h
      have hheld : (connWorld Hp fnP feP fcP { w with cells := w.cells.set 4 (.bool true) }
          (liveFrom 0 cobs st.conns) st.conns.length).held = w.held := rfl
      refine wp_cellWriteG (hheld ▸ h.held) ?_
      refine wp_cellReadG (hheld ▸ h.held) ?_
      simp only [List.length_set]
      have hcn6 : ((connWorld Hp fnP feP fcP { w with cells := w.cells.set rcC.connected (.bool true) }
          (liveFrom 0 cobs st.conns) st.conns.length).cells.set rcC.subscription
          (.pair (.int (w.obs.length : Nat)) (.int (w.cells.length : Nat))))[rcC.cancelled]? =
          some (.bool st.cancelled) := hmid.ur.2.2.cellN
      rw [hcn6]
      simp only [Option.getD_some, toBool_bool]
      show WP _ (connectedWorld w (liveFrom 0 cobs st.conns) st.conns.length) _
      rw [onSubscribe_fire st hc]
      cases hcn : st.cancelled with
      | false =>
        simp only [Bool.false_eq_true, ↓reduceIte]
        exact WP.done ⟨_, _, hmid.flags rfl rfl rfl rfl hcn.symm⟩
      | true =>
        simp only [↓reduceIte]
        have hidx : (st.conns ++ [true]).length = st.conns.length + 1 := by simp
        have e1 : w.obs.length = rootAt (cobs ++ [w.obs.length]) st.conns.length := by
          rw [hm, rootAt_append_last]
        have e2 : w.cells.length = acellC st.conns.length := by rw [X.nCells, hm]; rfl
        have eprog : subUnsub (.pair (.int (w.obs.length : Nat)) (.int (w.cells.length : Nat))) =
            subUnsub (.pair (.int (rootAt (cobs ++ [w.obs.length]) st.conns.length : Nat))
              (.int (acellC st.conns.length : Nat))) := by rw [← e1, ← e2]
        rw [eprog]
        refine (srcUnsubC_spec hmid (i := st.conns.length) (by show _ < (st.conns ++ [true]).length; omega)).conseq ?_
        intro w' h'
        exact ⟨_, _, h'.flags rfl rfl rfl rfl hcn.symm⟩
  · have : ((len1 : Int) == 1) = false := by
      rw [beq_eq_false_iff_ne]; intro e; exact h1 (by omega)
    simp only [this, Bool.false_eq_true, ↓reduceIte]
    refine WP.done ⟨cobs, armed, ?_⟩
    rw [onSubscribe_skip st len1 (by simp [h1])]; exact h

/-- `on_unsubscribe(len)` of ref_count.rs:41-50 = `ConnM.onUnsubscribe` -/
theorem onUnsubHook_spec {roots cobs armed pend Hd w st} (h : RelC' roots cobs armed pend Hd w st) (len0 : Nat) :
    WP (onUnsubHook rcC (.int (len0 : Nat))) w (fun w' => ∃ armed',
      RelC' roots cobs armed' pend Hd w' (ConnM.onUnsubscribe st (some len0))) := by
  obtain ⟨g, U, X⟩ := h.ur
  unfold onUnsubHook ConnM.onUnsubscribe
  have hti : (Data.int (len0 : Nat)).toInt = (len0 : Int) := rfl
  simp only [hti]
  by_cases h0 : len0 = 0
  · subst h0
    simp only [Int.natCast_zero, beq_self_eq_true, ↓reduceIte]
    refine wp_cellReadG h.held ?_
    rw [show w.cells[rcC.subscription]? = some (subCell cobs st.subscription) from X.cellB]
    simp only [Option.getD_some]
    cases hsb : st.subscription with
    | none =>
      simp only [subCell]
      refine wp_cellWriteG h.held (WP.done ⟨armed, ?_⟩)
      have g1 : Glob roots cobs { w with cells := w.cells.set rcC.cancelled (.bool true) } :=
        ⟨g.status, g.nObs, g.rootsLt, g.cobsLt, g.nodup⟩
      refine ⟨g1, h.held, ⟨g1, ?_, ?_⟩, ?_⟩
      · exact U.frame (set_get_other _ (by decide)) (set_get_other _ (by decide)) rfl (fun _ _ => rfl) (fun _ => rfl)
      · simp only [Option.isNone_none, Bool.or_true]
        exact
          { X with
            cellG := by show (w.cells.set 6 _)[4]? = _; rw [set_get_other _ (by decide)]; exact X.cellG
            cellB := by show (w.cells.set 6 _)[5]? = _; rw [set_get_other _ (by decide)]; exact hsb ▸ X.cellB
            cellN := set_get_same _ X.cellN
            nCells := by simp [X.nCells]
            sbLt := fun i hi => by cases hi }
      · exact h.conns.frame (set_get_other _ (by decide)) (set_get_other _ (by decide)) (fun _ _ => rfl)
          (fun i _ => set_get_other _ (by simp [acellC, rcC]; omega))
    | some i =>
      simp only [subCell]
      have hi : i < st.conns.length := by rw [← h.conns.lenC]; exact X.sbLt i hsb
      refine (srcUnsubC_spec h hi).conseq ?_
      intro w' h'
      exact ⟨_, h'.flags rfl rfl rfl hsb.symm (by simp)⟩
  · have : ((len0 : Int) == 0) = false := by
      rw [beq_eq_false_iff_ne]; intro e; exact h0 (by omega)
    simp only [this, Bool.false_eq_true, ↓reduceIte]
    have hne : ¬ (some len0 = some 0) := by simpa using h0
    rw [if_neg hne]
    exact WP.done ⟨armed, h⟩

end Rx.CRef
