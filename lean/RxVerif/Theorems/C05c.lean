import RxVerif.Theorems.C19
/-
C05, concurrent clause, for the root `Observer` shared between threads (model: RxVerif/Conc/Observer.lean):
"Once unsubscribe() has returned, no event that a source starts to emit afterwards reaches the subscriber's
callbacks", and `is_subscribed()` never goes from false back to true.
These are the unsubscribe theorems of `RxVerif/Theorems/C19.lean` under C05 names.
"starts to emit afterwards" = the `callStart` of the emitting call (log index `cid` of the callback entry) lies
after the `callReturn unsubscribe` entry.
-/
namespace Rx.ConcObs

/-- no subscriber callback (next / error / complete) is started for a call that began after an `unsubscribe()`
    returned -/
theorem c05_no_callback_after_unsubscribe_returned {s : State} (hr : Reachable s) {i k tu cu : Nat}
    {r : Option Bool} {ek : Entry}
    (hi : s.log[i]? = some ⟨tu, cu, .callReturn .unsubscribe r⟩)
    (hk : s.log[k]? = some ek) (hu : ek.ev.isUserCbStart = true) : ¬ i < ek.cid :=
  no_delivery_after_close hr hi rfl hk hu

theorem c05_no_next_after_unsubscribe_returned {s : State} (hr : Reachable s) {i k tu cu t c : Nat}
    {r : Option Bool}
    (hi : s.log[i]? = some ⟨tu, cu, .callReturn .unsubscribe r⟩)
    (hk : s.log[k]? = some ⟨t, c, .cbStart .next⟩) : ¬ i < c :=
  no_next_after_unsubscribe_returned hr hi hk

theorem c05_no_terminal_after_unsubscribe_returned {s : State} (hr : Reachable s) {i k tu cu t c : Nat}
    {r : Option Bool} {cb : Cb} (hcb : cb = .error ∨ cb = .complete)
    (hi : s.log[i]? = some ⟨tu, cu, .callReturn .unsubscribe r⟩)
    (hk : s.log[k]? = some ⟨t, c, .cbStart cb⟩) : ¬ i < c :=
  no_terminal_after_unsubscribe_returned hr hcb hi hk

/-- `is_subscribed()` never goes from false back to true (the later call must START after the earlier returned) -/
theorem c05_is_subscribed_monotone {s : State} (hr : Reachable s) {i k t1 c1 t2 c2 : Nat} {r : Bool}
    (hi : s.log[i]? = some ⟨t1, c1, .callReturn .isSubscribed (some false)⟩)
    (hk : s.log[k]? = some ⟨t2, c2, .callReturn .isSubscribed (some r)⟩) (hic : i < c2) : r = false :=
  is_subscribed_monotone hr hi hk hic

/-- after `unsubscribe()` returned — in fact already after its first clearing step — `is_subscribed()` is false -/
theorem c05_is_subscribed_false_after_unsubscribe {s : State} (hr : Reachable s) {i k t1 c1 t2 c2 : Nat}
    {r : Bool} {ru : Option Bool}
    (hi : s.log[i]? = some ⟨t1, c1, .callReturn .unsubscribe ru⟩)
    (hk : s.log[k]? = some ⟨t2, c2, .callReturn .isSubscribed (some r)⟩) (hic : i < c2) : r = false :=
  is_subscribed_false_after_unsubscribe_returned hr hi hk hic

/-- non-vacuity: `lateNextRun` has `callReturn unsubscribe` at 8 and a `next` callback starting at 9 (call #0,
    fetched before); `unsubRun` has an unsubscribe return at 16 and an `is_subscribed` call #17 answering false at 19 -/
example : logAt (run 3 false lateNextRun) 8 = some ⟨0, 2, .callReturn .unsubscribe none⟩ ∧
    logAt (run 3 false lateNextRun) 9 = some ⟨2, 0, .cbStart .next⟩ ∧
    logAt (run 3 true unsubRun) 16 = some ⟨0, 0, .callReturn .unsubscribe none⟩ ∧
    logAt (run 3 true unsubRun) 19 = some ⟨2, 17, .callReturn .isSubscribed (some false)⟩ := by decide

#print axioms c05_no_callback_after_unsubscribe_returned
#print axioms c05_no_next_after_unsubscribe_returned
#print axioms c05_no_terminal_after_unsubscribe_returned
#print axioms c05_is_subscribed_monotone
#print axioms c05_is_subscribed_false_after_unsubscribe

end Rx.ConcObs
