import RxVerif.Machine.Case
/-
C06, known finding F18 (recorded in known_findings.json, DESIGN 10.4) — the witness, on model A.

`(conn x ref_count (cold 0 (n 0) c))  (sub (take 1 (ref x)))`: the connectable is built over a probed cold source that
emits `0` and completes synchronously inside `subscribe`; the only subscriber takes one item.  The subscriber's
`complete` is delivered (it has all it needs) while the source is still inside its synchronous run — and the source's
next `is_subscribed()` probe still reads `true`: the shared source is NOT unsubscribed when the last subscriber leaves
during the connecting subscribe (ref_count.rs stores the connection handle only after `source.subscribe` has returned;
until then it can only set `cancelled`).  The real code produces the same trace (corpus/C06, replay of the finding).
`replay()` shares the code path.
-/
namespace Rx.C06F18
open Rx

/-- the world after `(conn x ref_count (cold 0 (n 0) c))`, and the id of the connectable's observable -/
def built : World × Nat :=
  let w : World := {}
  let o := oScript 0 true [.next (.int 0), .complete]
  let (w, sj) := w.allocSubj
  let (w, c) := w.allocCell (.bool false)
  let (w, sb) := w.allocCell .lnil
  let (w, cn) := w.allocCell (.bool false)
  let (w, id) := w.allocObsv sj.observable
  (run fuelPerStep
    [refCountHooks ⟨c, sb, cn⟩ o sj.onSub sj.onUnsub (fun x => sj.next x) (fun e => sj.error e) sj.complete] w, id)

/-- `(sub (take 1 (ref x)) (react))` -/
def afterSub : World :=
  let (w, id) := built
  let (w, id2) := w.allocObsv (stdOp (kTake 1) (fun o => .obsvSub id o .done))
  run fuelPerStep [.userSub id2 (fun _ _ _ => .done) .done] w

/-- what subscriber 0 and the source's probes recorded, in order -/
def trace : List Rec := afterSub.trace

/-- **F18 witness.**  The source was subscribed once (`p0+`), saw `is_subscribed() = true`, emitted; subscriber 0
    received the item and — through `take(1)` — its `complete`; and the source's NEXT probe, after the subscription had
    ended, still reads `true`. -/
theorem refcount_source_not_stopped_during_connect :
    trace = [.probe 0 (.int 2), .probe 1 (.bool true), .ev 0 (.next (.int 0)), .ev 0 .complete, .probe 1 (.bool true)] ∧
    afterSub.status = .ok := by
  decide

end Rx.C06F18

#print axioms Rx.C06F18.refcount_source_not_stopped_during_connect
