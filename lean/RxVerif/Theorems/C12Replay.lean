/-
C12, `ReplaySubject`: the late-subscriber clause holds along QUIET runs (no `next` call overlaps a `subscribe` call).
-/
import RxVerif.Theorems.C12ReplayB

namespace Rx.Conc.Replay

theorem eq_of_map_snd_eq {t : Nat} : ∀ {l l' : List Entry}, (∀ x ∈ l, x.1 = t) → (∀ x ∈ l', x.1 = t) →
    l.map (·.2) = l'.map (·.2) → l = l'
  | [], [], _, _, _ => rfl
  | [], _ :: _, _, _, h => by simp at h
  | _ :: _, [], _, _, h => by simp at h
  | x :: l, y :: l', h1, h2, h => by
    simp only [List.map_cons, List.cons.injEq] at h
    have hx := h1 x (by simp)
    have hy := h2 y (by simp)
    have := eq_of_map_snd_eq (fun z hz => h1 z (by simp [hz])) (fun z hz => h2 z (by simp [hz])) h.2
    subst this
    have : x = y := Prod.ext (hx.trans hy.symm) h.1
    subst this; rfl

theorem asc_nil_of_no_prog {progs : List (List Call)} {t : Nat} (ht : ¬ t < progs.length)
    {M : List (Nat × Data)} (h : Asc (progItems progs t) 0 M) : M = [] := by
  have hP : progItems progs t = [] := by
    simp [progItems, List.getD, List.getElem?_eq_none (Nat.le_of_not_lt ht), nextItems]
  rw [hP] at h
  cases M with
  | nil => rfl
  | cons x r => obtain ⟨i, v⟩ := x; simp [Asc] at h

/-- PARTIAL THEOREM (ReplaySubject).  Along runs in which no `next` call overlaps a `subscribe` call, an observer `o`
whose `subscribe` call has returned and that was not unsubscribed has received, from every producer `t` that is not
inside a `next` call right now, exactly the entries `t` ever pushed into `items` — each once, in push order; these are
the items of `t`'s first `cnt` calls.
(The FULL clause — the same for ALL runs — is false: `replay_late_subscriber_violated`.) -/
theorem late_subscriber_per_producer {progs : List (List Call)} {s : State} (h : ReachableQ progs s) (o : Nat)
    (hsub : (s.obs o).subDone = true) (hlive : (s.obs o).fnNext = true) (t : Nat)
    (ht : (s.threads t).pc.inNext = false) :
    (s.received o).filter (·.1 == t) = s.items.filter (·.1 == t) ∧
    ((s.received o).filter (·.1 == t)).map (·.2.2) = (progItems progs t).take (s.threads t).cnt := by
  have hB := invB_reachableQ h
  have hf := hB.full o t
  rw [(pos_of_not_inNext ht o).1] at hf
  obtain ⟨ha, hl⟩ := hf hsub (.inr hlive)
  obtain ⟨ha', hl'⟩ := hB.items t
  rw [(pos_of_not_inNext ht o).2] at hl'
  have heq : (proj t (s.obs o).rlog).reverse = proj t s.items :=
    Asc.unique ha ha' (by rw [List.length_reverse, hl, hl'])
  have hfil : (s.received o).filter (·.1 == t) = s.items.filter (·.1 == t) := by
    apply eq_of_map_snd_eq (t := t)
    · intro x hx; simpa using (List.mem_filter.mp hx).2
    · intro x hx; simpa using (List.mem_filter.mp hx).2
    · simpa [State.received, proj, List.filter_reverse] using heq
  refine ⟨hfil, ?_⟩
  rw [hfil]
  have hv := Asc.vals ha'
  rw [hl'] at hv
  simpa [proj, List.map_map, Function.comp_def] using hv

/-- every tag in `items` and in the log of a live, subscribed observer is the id of a thread that has a program -/
theorem tags_lt {progs : List (List Call)} {s : State} (h : ReachableQ progs s) (o : Nat)
    (hsub : (s.obs o).subDone = true) (hlive : (s.obs o).fnNext = true)
    (hidle : ∀ t, (s.threads t).pc.inNext = false) :
    (∀ x ∈ s.received o, x.1 < progs.length) ∧ (∀ x ∈ s.items, x.1 < progs.length) := by
  have hB := invB_reachableQ h
  constructor
  · intro x hx
    by_cases ht : x.1 < progs.length
    · exact ht
    · have hf := hB.full o x.1
      rw [(pos_of_not_inNext (hidle x.1) o).1] at hf
      have := asc_nil_of_no_prog ht (hf hsub (.inr hlive)).1
      have hmem : x.2 ∈ proj x.1 (s.obs o).rlog := by
        simp only [proj, List.mem_map, List.mem_filter]
        exact ⟨x, ⟨by simpa [State.received] using hx, by simp⟩, rfl⟩
      simp only [List.reverse_eq_nil_iff] at this
      rw [this] at hmem; simp at hmem
  · intro x hx
    by_cases ht : x.1 < progs.length
    · exact ht
    · have := asc_nil_of_no_prog ht (hB.items x.1).1
      have hmem : x.2 ∈ proj x.1 s.items := by
        simp only [proj, List.mem_map, List.mem_filter]
        exact ⟨x, ⟨hx, by simp⟩, rfl⟩
      rw [this] at hmem; simp at hmem

/-- PARTIAL THEOREM, multiset form: when no producer is inside `next`, such an observer has received every entry of
`items` exactly once. -/
theorem late_subscriber_exactly_once {progs : List (List Call)} {s : State} (h : ReachableQ progs s) (o : Nat)
    (hsub : (s.obs o).subDone = true) (hlive : (s.obs o).fnNext = true)
    (hidle : ∀ t, (s.threads t).pc.inNext = false) :
    (s.received o).Perm s.items := by
  obtain ⟨h1, h2⟩ := tags_lt h o hsub hlive hidle
  have p1 := map_perm_flatMap_filter (fun x : Nat × Nat × Data => x) progs.length (s.received o) h1
  have p2 := map_perm_flatMap_filter (fun x : Nat × Nat × Data => x) progs.length s.items h2
  simp only [List.map_id'] at p1 p2
  have : ((List.range progs.length).flatMap fun t => (s.received o).filter (·.1 == t))
      = (List.range progs.length).flatMap fun t => s.items.filter (·.1 == t) := by
    simp only [List.flatMap]
    congr 1
    apply List.map_congr_left
    intro t _
    exact (late_subscriber_per_producer h o hsub hlive t (hidle t)).1
  rw [this] at p1
  exact p1.trans p2.symm

/-- PARTIAL THEOREM, push-order form: with a single producer thread `p` the observer has received exactly the
contents of `items`, in push order. -/
theorem late_subscriber_push_order {progs : List (List Call)} {s : State} (h : ReachableQ progs s) (o : Nat)
    (hsub : (s.obs o).subDone = true) (hlive : (s.obs o).fnNext = true)
    (hidle : ∀ t, (s.threads t).pc.inNext = false)
    (p : Nat) (hsingle : ∀ t, t ≠ p → progItems progs t = []) :
    s.recvVals o = s.itemVals := by
  have hB := invB_reachableQ h
  have hkey := (late_subscriber_per_producer h o hsub hlive p (hidle p)).1
  have hall1 : ∀ x ∈ s.received o, (x.1 == p) = true := by
    intro x hx
    by_cases hxp : x.1 = p
    · simp [hxp]
    · have hf := hB.full o x.1
      rw [(pos_of_not_inNext (hidle x.1) o).1] at hf
      have ha := (hf hsub (.inr hlive)).1
      rw [hsingle x.1 hxp] at ha
      have hmem : x.2 ∈ (proj x.1 (s.obs o).rlog).reverse := by
        simp only [List.mem_reverse, proj, List.mem_map, List.mem_filter]
        exact ⟨x, ⟨by simpa [State.received] using hx, by simp⟩, rfl⟩
      cases hL : (proj x.1 (s.obs o).rlog).reverse with
      | nil => rw [hL] at hmem; simp at hmem
      | cons y r => rw [hL] at ha; obtain ⟨i, v⟩ := y; simp [Asc] at ha
  have hall2 : ∀ x ∈ s.items, (x.1 == p) = true := by
    intro x hx
    by_cases hxp : x.1 = p
    · simp [hxp]
    · have ha := (hB.items x.1).1
      rw [hsingle x.1 hxp] at ha
      have hmem : x.2 ∈ proj x.1 s.items := by
        simp only [proj, List.mem_map, List.mem_filter]
        exact ⟨x, ⟨hx, by simp⟩, rfl⟩
      cases hL : proj x.1 s.items with
      | nil => rw [hL] at hmem; simp at hmem
      | cons y r => rw [hL] at ha; obtain ⟨i, v⟩ := y; simp [Asc] at ha
  rw [List.filter_eq_self.mpr hall1, List.filter_eq_self.mpr hall2] at hkey
  simp [State.recvVals, State.itemVals, hkey]


theorem stepT_threads_ne {s s' : State} {t t' : Nat} (hs : stepT s t = some s') (hne : t' ≠ t) :
    s'.threads t' = s.threads t' := by
  simp only [stepT] at hs
  repeat' split at hs
  all_goals first
    | (simp at hs; done)
    | (simp only [Option.some.injEq] at hs; subst hs; simp [setThr, hne])

/-- threads without a program never move -/
theorem idle_beyond {progs : List (List Call)} {s : State} (h : Reachable progs s) (t : Nat)
    (ht : progs.length ≤ t) : (s.threads t).pc = .idle ∧ (s.threads t).todo = [] := by
  induction h with
  | init => simp [init, List.getD, List.getElem?_eq_none ht]
  | @step s1 s2 l _ hs ih =>
    simp only [step] at hs
    split at hs
    · by_cases hl : t = l.1
      · subst hl
        simp [stepT, ih.1, ih.2] at hs
      · rw [stepT_threads_ne hs hl]; exact ih
    · simp at hs

/-- `quiet` restricted to threads `0 .. n-1`, decidable -/
def State.quietB (s : State) (n : Nat) : Bool :=
  (List.range n).all fun t => (List.range n).all fun t' =>
    !((s.threads t).pc.inSub && (s.threads t').pc.inNext)

theorem quiet_of_quietB {progs : List (List Call)} {s : State} (h : Reachable progs s)
    (hq : s.quietB progs.length = true) : s.quiet := by
  intro t t' h1 h2
  have ht : t < progs.length := by
    by_cases ht : t < progs.length
    · exact ht
    · have := (idle_beyond h t (Nat.le_of_not_lt ht)).1
      simp [this, Pc.inSub] at h1
  have ht' : t' < progs.length := by
    by_cases ht' : t' < progs.length
    · exact ht'
    · have := (idle_beyond h t' (Nat.le_of_not_lt ht')).1
      simp [this, Pc.inNext] at h2
  simp only [State.quietB, List.all_eq_true, List.mem_range] at hq
  have := hq t ht t' ht'
  simp [h1, h2] at this

/-- replay that also checks quietness after every step -/
def replayQFrom (n : Nat) (s : State) : List Label → Option State
  | [] => some s
  | l :: ls => match step s l with
    | some s' => if s'.quietB n then replayQFrom n s' ls else none
    | none => none

theorem reachableQ_of_replayQFrom {progs : List (List Call)} {s s' : State} (h : ReachableQ progs s)
    {ls : List Label} (hr : replayQFrom progs.length s ls = some s') : ReachableQ progs s' := by
  induction ls generalizing s with
  | nil => simp [replayQFrom] at hr; subst hr; exact h
  | cons l ls ih =>
    simp only [replayQFrom] at hr
    split at hr
    · rename_i s1 hs
      split at hr
      · rename_i hq
        exact ih (.step h hs (quiet_of_quietB (.step h.reachable hs) hq)) hr
      · simp at hr
    · simp at hr


/-! ### non-vacuity: 2 producers × 2 items and a late subscriber, no `next` overlapping the `subscribe` -/

def exProgs : List (List Call) :=
  [[.next (.int 1), .next (.int 2)], [.next (.int 10), .next (.int 20)], [.subscribe 0]]

/-- both producers push once, then observer 0 subscribes (replaying 1, 10), then both producers push concurrently -/
def exRun : List Label :=
  [(0, .call), (0, .push), (1, .call), (1, .push), (0, .snap), (1, .snap), (0, .ret), (1, .ret),
   (2, .call), (2, .isSub1), (2, .setTd), (2, .hist), (2, .serial), (2, .setTdF), (2, .insert), (2, .rdErr),
   (2, .rdCompl), (2, .hfetch), (2, .hdeliver), (2, .hfetch), (2, .hdeliver), (2, .hdone), (2, .setSbsc),
   (2, .isSubEnd),
   (0, .call), (1, .call), (0, .push), (1, .push), (1, .snap), (0, .snap), (1, .fetch), (1, .ofetch), (1, .deliver),
   (0, .fetch), (0, .ofetch), (0, .deliver), (0, .ret), (1, .ret)]

def exFinal : Option State := replayQFrom 3 (init exProgs) exRun

/-- what the example is judged on -/
def State.exVerdict (s : State) : Bool × Bool × Bool × List Data × List Data :=
  ((s.obs 0).subDone, (s.obs 0).fnNext, (List.range 3).all (fun t => !(s.threads t).pc.inNext),
   s.recvVals 0, s.itemVals)

theorem exFinal_verdict : exFinal.map State.exVerdict =
    some (true, true, true, [.int 1, .int 10, .int 20, .int 2], [.int 1, .int 10, .int 2, .int 20]) := by
  decide +kernel

/-- the hypotheses of the partial theorems are satisfiable by a non-trivial run; the same run shows that with TWO
concurrent producers the delivery order (1, 10, 20, 2) may differ from the push order (1, 10, 2, 20) although no `next`
overlaps the `subscribe` — push order proper needs a single producer (`late_subscriber_push_order`). -/
theorem partial_hypotheses_satisfiable : ∃ s, ReachableQ exProgs s ∧ (s.obs 0).subDone = true ∧
    (s.obs 0).fnNext = true ∧ (∀ t, (s.threads t).pc.inNext = false) ∧
    s.recvVals 0 = [.int 1, .int 10, .int 20, .int 2] ∧ s.itemVals = [.int 1, .int 10, .int 2, .int 20] := by
  have hv := exFinal_verdict
  cases hs : exFinal with
  | none => rw [hs] at hv; simp at hv
  | some s =>
    rw [hs] at hv
    simp only [Option.map_some, State.exVerdict, Option.some.injEq, Prod.mk.injEq] at hv
    obtain ⟨h1, h2, h3, h4, h5⟩ := hv
    have hr : ReachableQ exProgs s := reachableQ_of_replayQFrom (progs := exProgs) .init hs
    refine ⟨s, hr, h1, h2, ?_, h4, h5⟩
    intro t
    by_cases ht : t < 3
    · simp only [List.all_eq_true, List.mem_range, Bool.not_eq_eq_eq_not, Bool.not_true] at h3
      exact h3 t ht
    · have := (idle_beyond hr.reachable t (by simp [exProgs]; omega)).1
      simp [this, Pc.inNext]

end Rx.Conc.Replay
