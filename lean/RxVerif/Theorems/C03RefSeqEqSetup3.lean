import RxVerif.Theorems.C03RefSeqEqSetup2
import RxVerif.Theorems.C03RefSequenceEqual
/-
C03-REF, sequence_equal, part 17: the set-up loop, and the relation it establishes.
-/
namespace Rx.SeqRef
open Rx.Sim Rx.Ref Rx.Comb Rx.CRef

variable {k : Nat}

/-- "subscribe all": source `j, j+1, ..` -/
theorem setup_loop : ∀ (n j : Nat) (w : World), j + n = k → SetupInv k j w →
    WP (subscribeAll ((List.range' j n).map fun i => (oWithEnd (sjOf i).observable, Zo i))) w (SetupInv k k) := by
  intro n
  induction n with
  | zero => intro j w hj h; have : j = k := by omega
            subst this; exact WP.done h
  | succ n ih =>
    intro j w hj h
    simp only [List.range'_succ, List.map_cons, subscribeAll]
    apply WP.seq
    exact (setup_step h (by omega)).conseq fun w1 h1 => ih (j + 1) w1 (by omega) h1

/-- the model-side state when the history starts -/
def σ0 (k : Nat) : GS :=
  { alive := true, oL := true, oH := true, oR := true, reg := List.range k, qs := List.replicate k [],
    ch := fun _ => bLive, out := [] }

theorem corr0 (hk : 0 < k) : CorrOk k (List.range k) (List.replicate k []) (σ0 k) where
  ready := ⟨⟨rfl, rfl, rfl, rfl, List.nodup_range⟩, by
      cases k with
      | zero => omega
      | succ m => simp [σ0, Zip.ne, List.replicate_succ], by simp [σ0], hk⟩
  reg := rfl
  qs := rfl
  chL := fun _ _ _ => rfl
  chD := by intro j hj hc; simp [hj] at hc
  rlt := by intro j hj; simpa using hj

/-- the set-up is complete and `subscribe` has returned -/
theorem setup_final (hk : 0 < k) {w : World} (h : SetupInv k k w) :
    QRel k (Over.init k) [] (w.setUser 0 fun u => { u with ready := true }) := by
  refine ⟨σ0 k, ?_, rfl, .inl ⟨List.range k, List.replicate k [], rfl, corr0 hk⟩⟩
  exact
  { status := h.status, held := h.held, hlOk := by intro p hp; cases hp
    root := h.root
    user := by
      obtain ⟨u, hu, hr⟩ := h.user
      exact ⟨{ u with ready := true }, modify_get_same _ _ hu, hr⟩
    log := by show logOf w 0 = []; simp [logOf, h.trace]
    oS := h.oS, oM := h.oM, oF := h.oF
    o1 := h.o1
    zS := h.zS, zM := h.zM, zQ := h.zQ, zF := h.zF
    regLt := by intro i hi; simpa [σ0] using hi
    chains := fun j hj => (h.done j hj).congr (fun _ _ => rfl) (fun _ _ => rfl) rfl
    jInj := by intro j j' p p' _ _ hp; cases hp }

end Rx.SeqRef
