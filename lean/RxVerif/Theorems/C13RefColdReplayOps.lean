import RxVerif.Theorems.C13RefColdReplay
/-
C13-REF, replay over a COLD source: the operations of `RFam` on the cold relation (users' side from the `URr.*`
lemmas of the hot development, source side framed).
-/
namespace Rx.CRef
open Rx.Sim Rx.SubjM Rx.Ref Rx.RefR

theorem RelRpc.held_swap {script L cobs cacs armed pend unst Hd Hd' w w' st}
    (h : RelRpc script L cobs cacs armed pend unst Hd w st) (hw : w' = { w with held := Hd' }) (hs : SlotReads Hd') :
    RelRpc script L cobs cacs armed pend unst Hd' w' st := by
  subst hw
  exact h.ofUR h.ur.held_swap hs rfl rfl (fun _ _ => rfl) (fun _ _ => rfl) rfl h.pristine

theorem RelRpc.ready {script L cobs cacs armed unst Hd w st n}
    (h : RelRpc script L cobs cacs armed (some n) unst Hd w st) :
    RelRpc script L cobs cacs armed none unst Hd (w.setUser n fun u => { u with ready := true }) st :=
  h.ofUR h.ur.ready h.inv.held rfl rfl (fun _ _ => rfl) (fun _ _ => rfl) rfl h.pristine

theorem RelRpc.registerUser {script L cobs cacs armed w st} (h : RelRpc script L cobs cacs armed none none [] w st) :
    RelRpc script (L.reg w) cobs cacs armed (some L.roots.length) (some L.roots.length) []
      (regWorld L w st.sub.observers st.sub.serial)
      { st with sub := { st.sub with serial := st.sub.serial + 1
                                     observers := st.sub.observers ++ [(st.sub.serial + 1, L.roots.length)]
                                     obs := upd st.sub.obs L.roots.length (regRec (st.sub.serial + 1)) } } := by
  obtain ⟨g, U, X⟩ := h.ur
  refine h.ofUR h.ur.registerUser h.inv.held rfl rfl ?_ ?_ rfl h.pristine
  · intro i hi
    exact get_app_lt _ _ _ (g.cobsLt _ (rootAt_mem hi))
  · intro c hc
    have := X.caGe c hc
    show (((w.cells ++ [_]).set 3 _).set 2 _)[c]? = _
    rw [set_get_other _ (by omega), set_get_other _ (by omega), get_app_lt _ _ _ this.2]

theorem RelRpc.patchUser {script L cobs cacs armed pend unst Hd w st}
    (h : RelRpc script L cobs cacs armed pend unst Hd w st)
    {o : Nat} (ho : o < L.roots.length) (w' : World) (r' : ObsSt) (O' : List (Nat × Nat))
    (hstatus : w'.status = w.status) (hheld : w'.held = w.held) (hslots : w'.slots = w.slots)
    (hobsvs : w'.obsvs = w.obsvs) (hobsLen : w'.obs.length = w.obs.length)
    (hclen : w'.cells.length = w.cells.length)
    (hcell2 : w'.cells[2]? = some (encMap (mapL L O')))
    (hcells : ∀ i, i ≠ 2 → i ≠ rootAt L.acs o → w'.cells[i]? = w.cells[i]?)
    (_hcell0 : w'.cells[0]? = w.cells[0]?)
    (hac : unst ≠ some o → w'.cells[rootAt L.acs o]? = some (.bool r'.armed))
    (hunarmed : unst = some o → r'.armed = false)
    (hulen : w'.users.length = w.users.length)
    (husers : ∀ i, i ≠ o → w'.users[i]? = w.users[i]?)
    (huser : ∃ rd, w'.users[o]? = some ⟨rootAt L.roots o, noReact, rd, r'.hook⟩ ∧ (pend ≠ some o → rd = true))
    (hothers : ∀ i, i ≠ rootAt L.roots o → i ≠ rootAt L.fwds o → w'.obs[i]? = w.obs[i]?)
    (hlogs : ∀ u, u ≠ o → logOf w' u = logOf w u)
    (hroot : w'.obs[rootAt L.roots o]? = some (rootOfL (rootAt L.sbs o) o r'))
    (hfwd : w'.obs[rootAt L.fwds o]? = some (fwdOfL (rootAt L.roots o) r'))
    (hlog : logOf w' o = r'.log) (hseen : r'.seen = true) (hdead : r'.hook = false → r'.alive = false)
    (hkeys : ∀ p ∈ O', p.1 ≤ st.sub.serial) (hreg : ∀ p ∈ O', p.2 < L.roots.length)
    (hp : probesOf w' = probesOf w) :
    RelRpc script L cobs cacs armed pend unst Hd w'
      { st with sub := { st.sub with observers := O', obs := upd st.sub.obs o r' } } := by
  have hur' := h.ur.patchUser ho w' r' O' hstatus hheld hslots hobsvs hobsLen hclen hcell2 hcells hac hunarmed hulen
    husers huser hothers hlogs hroot hfwd hlog hseen hdead hkeys hreg
  obtain ⟨g, U, X⟩ := h.ur
  have hlf : o < L.fwds.length := U.lenF ▸ ho
  refine h.ofUR hur' (hheld ▸ h.inv.held) hobsvs rfl ?_ ?_ hp h.pristine
  · intro i hi
    exact hothers _ (fun e => GlobR.root_ne_cob g ho hi e.symm) (fun e => GlobR.fwd_ne_cob g hlf hi e.symm)
  · intro c hc
    refine hcells _ (by have := (X.caGe _ hc).1; omega) (fun e => ?_)
    rcases rootAt_zero_or_mem L.acs o with h0 | hmem
    · have := (X.caGe _ hc).1; omega
    · exact X.caDisj _ hc (e ▸ List.mem_append_right _ hmem)

theorem RelRpc.storeUser {script L cobs cacs armed pend Hd w st n}
    (h : RelRpc script L cobs cacs armed pend (some n) Hd w st)
    (w' : World) (r' : ObsSt) (O' : List (Nat × Nat))
    (hstatus : w'.status = w.status) (hheld : w'.held = w.held) (hslots : w'.slots = w.slots)
    (hobsvs : w'.obsvs = w.obsvs) (hobsLen : w'.obs.length = w.obs.length)
    (hclen : w'.cells.length = w.cells.length + 1)
    (hcell2 : w'.cells[2]? = some (encMap (mapL L O')))
    (hcells : ∀ i, i ≠ 2 → i ≠ rootAt L.sbs n → i < w.cells.length → w'.cells[i]? = w.cells[i]?)
    (hsb : w'.cells[rootAt L.sbs n]? = some (handleL (L.store w.cells.length) n))
    (hac : w'.cells[w.cells.length]? = some (.bool r'.armed))
    (husers : w'.users = w.users)
    (hothers : ∀ i, i ≠ rootAt L.roots n → i ≠ rootAt L.fwds n → w'.obs[i]? = w.obs[i]?)
    (hlogs : ∀ u, u ≠ n → logOf w' u = logOf w u)
    (hroot : w'.obs[rootAt L.roots n]? = some (rootOfL (rootAt L.sbs n) n r'))
    (hfwd : w'.obs[rootAt L.fwds n]? = some (fwdOfL (rootAt L.roots n) r'))
    (hlog : logOf w' n = r'.log) (hhook : r'.hook = (st.sub.obs n).hook) (hseen : r'.seen = true)
    (hdead : r'.hook = false → r'.alive = false)
    (hkeys : ∀ p ∈ O', p.1 ≤ st.sub.serial) (hreg : ∀ p ∈ O', p.2 < L.roots.length)
    (hp : probesOf w' = probesOf w) :
    RelRpc script (L.store w.cells.length) cobs cacs armed pend none Hd w'
      { st with sub := { st.sub with observers := O', obs := upd st.sub.obs n r' } } := by
  have hur' := h.ur.storeUser w' r' O' hstatus hheld hslots hobsvs hobsLen hclen hcell2 hcells hsb hac husers hothers
    hlogs hroot hfwd hlog hhook hseen hdead hkeys hreg
  obtain ⟨g, U, X⟩ := h.ur
  have hn : n + 1 = L.roots.length := U.unstLast n rfl
  have hnl : n < L.roots.length := by omega
  have hlf : n < L.fwds.length := U.lenF ▸ hnl
  refine h.ofUR hur' (hheld ▸ h.inv.held) hobsvs rfl ?_ ?_ hp h.pristine
  · intro i hi
    exact hothers _ (fun e => GlobR.root_ne_cob g hnl hi e.symm) (fun e => GlobR.fwd_ne_cob g hlf hi e.symm)
  · intro c hc
    have := X.caGe _ hc
    refine hcells _ (by omega) (fun e => ?_) this.2
    exact X.caDisj _ hc (e ▸ List.mem_append_left _ (rootAt_mem (U.lenS ▸ hnl)))

end Rx.CRef
