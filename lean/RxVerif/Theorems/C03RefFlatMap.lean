import RxVerif.Theorems.C03RefFlatMapB
/-
C03-REF, flat_map, part 3: one history entry, the program, the theorems.
-/
namespace Rx.GRef.FlatMap
open Rx.Sim Rx.Ref Rx.Comb Rx.CRef

abbrev R (k : Nat) (s : flatMap.State) (out : List Ev) (w : World) : Prop := RB k s [] out w

theorem pend_inv {k : Nat} {E : Ent} {s : flatMap.State} (h : Inv k E s []) (j : Nat) :
    Inv k (E.pendAll j) s (inMap E s.ctl j) :=
  { pos := h.pos, subs_eq := h.subs_eq, subK := h.subK, sorted := h.sorted, liveLt := h.liveLt, regLt := h.regLt
    ci := h.ci
    mode := by
      intro e he
      have hon : E.mode e = .on := by simpa using h.mode e he
      have hc : (inMap E s.ctl j).contains e = decide (E.sub e = j) := by
        rw [Bool.eq_iff_iff]
        simp [inMap, List.mem_filter, he, hon, Mode.isOn]
      rw [hc]
      simp only [Ent.pendAll, hon, and_true]
      by_cases q : E.sub e = j <;> simp [q] }

/-- one history entry = `Comb.flatMap.step` -/
theorem step_spec {k : Nat} (hk : 0 < k) (s : flatMap.State) (out : List Ev) (w : World) (p : Nat × Ev)
    (h : R k s out w) :
    WP (callOf (sjs k) p) w
      (R k (flatMap.step (flatMap.defaultInner k) s p).1 (out ++ (flatMap.step (flatMap.defaultInner k) s p).2)) := by
  obtain ⟨j, ev⟩ := p
  obtain ⟨E, hrel, hinv⟩ := h
  have ok := lay_ok k
  simp only [flatMap.step]
  rcases Nat.lt_or_ge j k with hj | hj
  · rw [callOf_lt hj]
    refine subj_call ok hrel (j := j) (by simpa [lay] using hj) ev fun w1 h1 => ?_
    have hlt : ∀ e ∈ (s.subs.filter (·.2 == j)).map (·.1), e < s.nextSerial := by
      intro e he
      rw [attached_eq hinv j] at he
      exact List.mem_range.1 (List.mem_filter.1 he).1
    rw [broadcast_filter _ ev _ s hlt, snapshot_eq hinv j]
    refine bcast_spec hk ev (inMap E s.ctl j) s out w1 ?_
    cases ht : ev.isTerminal with
    | false => simp only [ht, Bool.false_eq_true, ↓reduceIte] at h1 ⊢; exact ⟨E, h1, hinv⟩
    | true => simp only [ht, ↓reduceIte] at h1 ⊢; exact ⟨_, h1, pend_inv hinv j⟩
  · rw [callOf_ge hj]
    have : (s.subs.filter (·.2 == j)).map (·.1) = [] := by
      rw [attached_eq hinv j, List.filter_eq_nil_iff]
      intro e he
      have := hinv.subK e (List.mem_range.1 he)
      simp only [beq_iff_eq]; omega
    rw [this]
    simp only [flatMap.broadcast, List.append_nil]
    exact WP.done ⟨E, hrel, hinv⟩

theorem drive_fm {k : Nat} (hk : 0 < k) (H : History) (s : flatMap.State) (out : List Ev) (w : World)
    (h : R k s out w) :
    WP (drive (sjs k) H) w (R k (finalFrom (flatMap.step (flatMap.defaultInner k)) s H)
      (out ++ runFrom (flatMap.step (flatMap.defaultInner k)) s H)) :=
  drive_spec (flatMap.step (flatMap.defaultInner k)) (R k) (callOf (sjs k)) (step_spec hk) H s out w h

/-! ### the program -/

/-- `n+1` plain subjects; test user 0 subscribes to `s0.flat_map(|x| s_(x mod (n+1)))`; then the history -/
def prog (n : Nat) (H : History) : Prog :=
  subjsNew (n + 1) fun sjs =>
    .obsvNew (oFlatMap (fun x => (sjs.map Subj.observable).getD
        (x.toInt.emod (sjs.map Subj.observable).length).toNat oNever) (sjs.headD default).observable) fun id =>
    .userSub id noReact (drive sjs H)

def theObsv (k : Nat) : Nat → Prog := oFlatMap (fOf k) ((sjs k).headD default).observable

/-- only used to name the start world with the lemmas of C03RefSetup -/
def Ld (k : Nat) : Lay := ⟨k, id, id, fun _ _ => .done, fun _ _ => .done, fun _ => .done⟩

theorem rel_W0 (k : Nat) : Rel (lay k) E0 [] ⟨true, [], []⟩ ⟨.unit, 0, 1⟩ [] (W2 (Ld k) [] (theObsv k)) := by
  have h := rel_init (L := lay k) (w := W2 (Ld k) [] (theObsv k)) (lay_ok k) rfl rfl rfl ⟨_, rfl, rfl⟩
    (W2_even (Ld k) [] _) (W2_odd (Ld k) [] _) (W2_ser (Ld k) [] _) (W2_map (Ld k) [] _)
    (fun j hj => W2_slots (Ld k) [] _ j (by simp only [lay, Ld] at *; omega))
    (W2_slots (Ld k) [] _ _ (by simp only [lay, Ld]; omega)) rfl
  have hx : (W2 (Ld k) [] (theObsv k)).cells[(lay k).cx]?.getD .unit = .unit := by
    have := W2_extra (Ld k) [] (theObsv k) 0
    rw [Nat.add_zero] at this
    show (W2 (Ld k) [] (theObsv k)).cells[2 * (Ld k).k + 2]?.getD .unit = .unit
    rw [this]; rfl
  rw [hx] at h; exact h

theorem inv_init (k : Nat) (hk : 0 < k) : Inv k (Ent.grow E0 0 0) flatMap.init [] where
  pos := Nat.le_refl 1
  subs_eq := by decide
  subK := by
    intro e he
    have : e = 0 := by have : e < 1 := he; omega
    subst this; rw [grow_sub_same]; exact hk
  sorted := by decide
  liveLt := by intro e he; have : e = 0 := by simpa [flatMap.init, Ctl.init] using he
               subst this; decide
  regLt := by intro e he; have : e = 0 := by simpa [flatMap.init, Ctl.init] using he
              subst this; decide
  mode := by
    intro e he
    have : e = 0 := by simpa [flatMap.init, Ctl.init] using he
    subst this; rfl
  ci := ⟨fun e he => he, fun q => by cases q⟩

theorem prog_spec (n : Nat) (H : History) :
    WP (prog n H) {} (R (n + 1) (finalFrom (flatMap.step (flatMap.defaultInner (n + 1))) flatMap.init H)
      (flatMap.run (n + 1) H)) := by
  have ok := lay_ok (n + 1)
  have hk : 0 < n + 1 := by omega
  unfold prog
  refine wp_subjsNew (n + 1) 0 {} _ _ rfl rfl ?_
  refine wp_obsvNew ?_
  refine wp_userSub (f := theObsv (n + 1)) rfl ?_
  simp only [theObsv, oFlatMap, fwdOp, sctlNew]
  refine wp_cellNew (wp_cellNew (wp_slotNew (wp_obsSetOnUnsub rfl ?_)))
  simp only [World.setObs, List.nil_append, List.length_nil, List.length_append, subjCells_length,
    List.length_replicate, List.length_cons, Nat.zero_add]
  have e2 : ∀ (W : World) p Q, W = W2 (Ld (n + 1)) [] (theObsv (n + 1)) →
      WP p (W2 (Ld (n + 1)) [] (theObsv (n + 1))) Q → WP p W Q := fun W p Q q hq => q ▸ hq
  refine e2 _ _ _ ?_ ?_
  · simp [W2, CRef.rootObs, Lay.sc, Ld, theObsv, oFlatMap, sjs, fOf]
  refine newObserver_spec (L := lay (n + 1)) ok (rel_W0 (n + 1)) rfl (e := 0) (j := 0) hk rfl rfl rfl _ _ _
    (by simp [fullObs, lay]; exact ⟨rfl, rfl, rfl⟩) _ fun w1 h1 => ?_
  have hsrc : ((sjs (n + 1)).headD default).observable = (sjOf 0).observable := by simp [sjs, List.range'_succ]
  rw [hsrc]
  refine (subscribe_ent ok h1 (e := 0) (j := 0) hk rfl rfl rfl (by decide)).conseq fun w2 h2 => ?_
  refine wp_userReady ?_
  have h3 := h2.setUser (fun u => { u with ready := true }) (fun _ => rfl)
  have h4 := drive_fm hk H flatMap.init [] _ ⟨_, h3, inv_init (n + 1) hk⟩
  simpa [flatMap.run, sjs] using h4

/-- what the differential test compares for flat_map: subject `j` holds one observer per live serial attached to it -/
structure FAgrees (k : Nat) (w : World) (s : flatMap.State) (out : List Ev) : Prop where
  status : w.status = .ok
  held : w.held = []
  log : logOf w 0 = out
  counts : ∀ j, j < k → regCount w j = (s.subs.filter fun p => p.2 == j && s.ctl.live.contains p.1).length

/-- **C03-REF, flat_map.**  For EVERY history the flat_map program ends, for all sufficient fuel, with `status = ok`,
    no guard held, the user's log equal to the output of `Comb.flatMap`, and every subject holding exactly one observer
    per live serial the machine has attached to it. -/
theorem flat_map_refines (n : Nat) (H : History) :
    ∃ n0, ∀ fuel, n0 ≤ fuel →
      FAgrees (n + 1) (run fuel [prog n H] {})
        (finalFrom (flatMap.step (flatMap.defaultInner (n + 1))) flatMap.init H) (flatMap.run (n + 1) H) := by
  obtain ⟨n0, w, ⟨E, hrel, hinv⟩, hrun⟩ := WP.run_top (prog_spec n H)
  refine ⟨n0, fun fuel hf => ?_⟩
  rw [hrun fuel hf]
  refine ⟨hrel.status, hrel.held, hrel.log, fun j hj => ?_⟩
  rw [hrel.regCount (by simpa [lay] using hj), ← snapshot_eq hinv j, List.filter_map, List.length_map,
    List.filter_filter]
  congr 1
  apply List.filter_congr
  intro a _
  rw [Bool.and_comm]; rfl

/-- the C03 list specification transported to model A -/
theorem flat_map_machine_spec (n : Nat) (H : History) (hwf : WellFormed (n + 1) H)
    (hsel : (0 :: fmSel (flatMap.defaultInner (n + 1)) H).Nodup) :
    ∃ n0, ∀ fuel, n0 ≤ fuel → (run fuel [prog n H] {}).status = .ok ∧
      logOf (run fuel [prog n H] {}) 0 = flatMapSpec (flatMap.defaultInner (n + 1)) H := by
  obtain ⟨n0, h⟩ := flat_map_refines n H
  refine ⟨n0, fun fuel hf => ⟨(h fuel hf).status, ?_⟩⟩
  rw [(h fuel hf).log, flat_map_spec (flatMap.defaultInner (n + 1)) (n + 1) H hwf hsel]

/-! non-vacuity: three subjects.  Items 1 and 4 both select subject 1 (two inner observers on one subject: its items
    are forwarded twice), item 3 selects the OUTER subject 0 (an inner observer on the outer subject: the next outer
    item 2 creates an inner on subject 2 and is also forwarded), the output completes with the last inner. -/
def demo : History :=
  [(0, .next (.int 1)), (1, .next (.int 10)), (0, .next (.int 4)), (1, .next (.int 11)), (0, .next (.int 3)),
   (0, .next (.int 2)), (1, .complete), (0, .complete), (2, .next (.int 20)), (2, .complete)]

example : (run 6000 [prog 2 demo] {}).status = .ok := by decide +kernel
example : logOf (run 6000 [prog 2 demo] {}) 0 =
    [.next (.int 10), .next (.int 11), .next (.int 11), .next (.int 2), .next (.int 20), .complete] := by
  decide +kernel
example : flatMap.run 3 demo =
    [.next (.int 10), .next (.int 11), .next (.int 11), .next (.int 2), .next (.int 20), .complete] := by
  decide +kernel
example : (List.range 3).map (regCount (run 6000 [prog 2 (demo.take 6)] {})) = [2, 2, 1] ∧
    (finalFrom (flatMap.step (flatMap.defaultInner 3)) flatMap.init (demo.take 6)).subs =
      [(0, 0), (1, 1), (2, 1), (3, 0), (4, 2)] ∧
    (finalFrom (flatMap.step (flatMap.defaultInner 3)) flatMap.init (demo.take 6)).ctl.live = [0, 1, 2, 3, 4] := by
  decide +kernel

/-- a history within the hypotheses of the corollary: distinct selected subjects, none the outer one -/
def demoWf : History :=
  [(0, .next (.int 1)), (1, .next (.int 10)), (0, .next (.int 2)), (2, .next (.int 20)), (1, .next (.int 11)),
   (0, .complete), (1, .complete), (2, .next (.int 21)), (2, .complete)]
example : WellFormed 3 demoWf ∧ (0 :: fmSel (flatMap.defaultInner 3) demoWf).Nodup := by decide
example : logOf (run 6000 [prog 2 demoWf] {}) 0 = flatMapSpec (flatMap.defaultInner 3) demoWf := by decide +kernel

#print axioms flat_map_refines
#print axioms flat_map_machine_spec

end Rx.GRef.FlatMap
