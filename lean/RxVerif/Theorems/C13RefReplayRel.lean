import RxVerif.Theorems.C13RefReplayEmit
/-
C13-REF, replay: the simulation relation and the hot source event.
-/
namespace Rx.CRef
open Rx.Sim Rx.SubjM Rx.Ref Rx.RefR

def rcR : RefC := ⟨7, 8, 9⟩

/-- the handle stored in `self.subscription`; `cacs[i]` = armed flag of the i-th source subscription -/
def subCellR (cobs cacs : List Nat) : Option Nat → Data
  | none => .lnil
  | some i => .pair (.int (rootAt cobs i : Nat)) (.int (rootAt cacs i : Nat))

structure ExtrasR (L : LayR) (cobs cacs : List Nat) (Hd : List (LockId × Bool)) (cg : Bool) (sb : Option Nat)
    (cn : Bool) (w : World) : Prop where
  held : w.held = Hd
  slot0 : w.slots[0]? = some none
  slot1 : w.slots[1]? = some none
  slot2 : w.slots[2]? = some (some (onSubHook rcR srcC fnR feR fcR))
  slot3 : w.slots[3]? = some (some (onUnsubHook rcR))
  obsvS : w.obsvs[1]? = some rR.observable
  cellG : w.cells[7]? = some (.bool cg)
  cellB : w.cells[8]? = some (subCellR cobs cacs sb)
  cellN : w.cells[9]? = some (.bool cn)
  sbLt : ∀ i, sb = some i → i < cobs.length
  lenCa : cacs.length = cobs.length
  caNodup : cacs.Nodup
  caGe : ∀ c ∈ cacs, 10 ≤ c ∧ c < w.cells.length
  caDisj : ∀ c ∈ cacs, c ∉ L.sbs ++ L.acs

theorem ExtrasR.touch {L cobs cacs Hd cg sb cn w w' J K} (h : ExtrasR L cobs cacs Hd cg sb cn w)
    (t : Touch J K w w') (hK : ¬ K 7 ∧ ¬ K 8 ∧ ¬ K 9) : ExtrasR L cobs cacs Hd cg sb cn w' :=
  { h with
    held := t.held ▸ h.held, slot0 := t.slots ▸ h.slot0, slot1 := t.slots ▸ h.slot1, slot2 := t.slots ▸ h.slot2
    slot3 := t.slots ▸ h.slot3, obsvS := t.obsvs ▸ h.obsvS
    cellG := by rw [t.cells _ hK.1]; exact h.cellG
    cellB := by rw [t.cells _ hK.2.1]; exact h.cellB
    cellN := by rw [t.cells _ hK.2.2]; exact h.cellN
    caGe := fun c hc => t.cellsLen ▸ h.caGe c hc }

def URr (L : LayR) (cobs cacs : List Nat) (pend unst : Option Nat) (Hd : List (LockId × Bool)) (cg : Bool)
    (sb : Option Nat) (cn : Bool) (w : World) (s : SubjM.State) : Prop :=
  Glob (L.roots ++ L.fwds) cobs w ∧ UsersPartR L pend unst w s ∧ ExtrasR L cobs cacs Hd cg sb cn w

/-- the simulation relation for `replay` over a hot source -/
def RelRp (L : LayR) (cobs cacs : List Nat) (armed : List Bool) (pend unst : Option Nat)
    (Hd : List (LockId × Bool)) (w : World) (st : ConnM.State) : Prop :=
  HotInv (URr L cobs cacs pend unst Hd st.connecting st.subscription st.cancelled) Hp fnR feR fcR (rootAt cacs)
    (L.roots ++ L.fwds) cobs w (liveFrom 0 cobs st.conns) st armed

/-- the users' side is not affected by changes to other observers / cells -/
theorem UsersPartR.frameW {L pend unst w w' s} (h : UsersPartR L pend unst w s)
    (hu : w'.users = w.users) (hcl : w.cells.length ≤ w'.cells.length)
    (hfix : ∀ i, 2 ≤ i → i ≤ 6 → w'.cells[i]? = w.cells[i]?)
    (hcu : ∀ c ∈ L.sbs ++ L.acs, w'.cells[c]? = w.cells[c]?)
    (ho : ∀ j ∈ L.roots ++ L.fwds, w'.obs[j]? = w.obs[j]?)
    (hl : ∀ u, logOf w' u = logOf w u) : UsersPartR L pend unst w' s :=
  { h with
    cellO := by rw [hfix 2 (by omega) (by omega)]; exact h.cellO
    cellS := by rw [hfix 3 (by omega) (by omega)]; exact h.cellS
    cellI := by rw [hfix 4 (by omega) (by omega)]; exact h.cellI
    cellE := by rw [hfix 5 (by omega) (by omega)]; exact h.cellE
    cellC := by rw [hfix 6 (by omega) (by omega)]; exact h.cellC
    nUsers := hu ▸ h.nUsers
    users := fun u hlt => (h.users u hlt).frame
      ⟨by rw [hu], ho _ (GlobR.root_mem hlt), ho _ (GlobR.fwd_mem (h.lenF ▸ hlt)),
       hcu _ (List.mem_append_left _ (rootAt_mem (h.lenS ▸ hlt))),
       fun hst => hcu _ (List.mem_append_right _ (rootAt_mem (h.stored_lt hlt hst))), hl u⟩
    quiet := fun u hu' => by rw [hl u]; exact h.quiet u hu'
    cellsGe := fun c hc => by have := h.cellsGe c hc; omega }

theorem URr.conn {L cobs cacs pend unst Hd cg sb cn w s} (h : URr L cobs cacs pend unst Hd cg sb cn w s) (i : Nat)
    (hi : i < cobs.length) : URr L cobs cacs pend unst Hd cg sb cn (w.setObs (rootAt cobs i) Obs.cleared) s := by
  obtain ⟨g, U, X⟩ := h
  refine ⟨g.touch (Touch.setObs (J := fun _ => True) (K := NoCell) w _ _ trivial), ?_, { X with }⟩
  refine U.frameW rfl (Nat.le_refl _) (fun _ _ _ => rfl) (fun _ _ => rfl) ?_ (fun _ => rfl)
  intro j hj
  refine getElem?_setObs_other _ (fun e => ?_)
  exact (List.nodup_append.1 g.nodup).2.2 _ hj _ (rootAt_mem hi) e.symm

theorem URr.cell0 {L cobs cacs pend unst Hd cg sb cn w s} (h : URr L cobs cacs pend unst Hd cg sb cn w s) (d : Data) :
    URr L cobs cacs pend unst Hd cg sb cn { w with cells := w.cells.set Hp.observers d } s := by
  obtain ⟨g, U, X⟩ := h
  refine ⟨⟨g.status, g.nObs, g.rootsLt, g.cobsLt, g.nodup⟩, ?_, ?_⟩
  · refine U.frameW rfl (by simp) (fun i h2 _ => set_get_other _ (by simp [Hp]; omega)) ?_ (fun _ _ => rfl)
      (fun _ => rfl)
    intro c hc
    exact set_get_other _ (by have := (U.cellsGe c hc).1; simp [Hp]; omega)
  · exact
      { X with
        cellG := by show (w.cells.set _ _)[7]? = _; rw [set_get_other _ (by decide)]; exact X.cellG
        cellB := by show (w.cells.set _ _)[8]? = _; rw [set_get_other _ (by decide)]; exact X.cellB
        cellN := by show (w.cells.set _ _)[9]? = _; rw [set_get_other _ (by decide)]; exact X.cellN
        caGe := fun c hc => by simpa using X.caGe c hc }

theorem URr.emit {L cobs cacs pend unst Hd cg sb cn w s} (ev : Ev) (hh : SlotReads w.held)
    (h : URr L cobs cacs pend unst Hd cg sb cn w s) :
    WP (codeBody ev fnR feR fcR) w (fun w' => URr L cobs cacs pend unst Hd cg sb cn w' (emit .replay s ev) ∧
      Touch (JR L) KR w w') := by
  obtain ⟨g, U, X⟩ := h
  refine (emitL_spec hh g U ev).conseq ?_
  rintro w' ⟨U', t⟩
  exact ⟨⟨g.touch t, U', X.touch t ⟨by simp [KR], by simp [KR], by simp [KR]⟩⟩, t⟩

theorem rootAt_ge_of {l : List Nat} {i : Nat} (hi : i < l.length) {P : Nat → Prop} (h : ∀ c ∈ l, P c) :
    P (rootAt l i) := h _ (rootAt_mem hi)

/-- a hot source event: `H.next/error/complete` = `ConnM.hotEmit` -/
theorem srcR_spec {L cobs cacs armed pend unst Hd w st} (h : RelRp L cobs cacs armed pend unst Hd w st) (ev : Ev) :
    WP (evCall Hp ev) w (fun w' =>
      RelRp L cobs cacs armed pend unst Hd w' (ConnM.step .replay .hot st (srcEv ev))) := by
  have : ConnM.step .replay .hot st (srcEv ev) = ConnM.hotEmit .replay st ev := by cases ev <;> rfl
  rw [this]
  have hf := hotEmit_flags .replay st ev
  obtain ⟨g, U, X⟩ := h.ur
  unfold RelRp
  rw [hf.1, hf.2.1, hf.2.2]
  have hca : ∀ i, i < cobs.length → 10 ≤ rootAt cacs i := fun i hi =>
    (X.caGe _ (rootAt_mem (X.lenCa ▸ hi))).1
  exact hotEmit_spec .replay (H := Hp) (fn := fnR) (fe := feR) (fc := fcR) (acell := rootAt cacs)
    (roots := L.roots ++ L.fwds) (cobs := cobs)
    (UR := URr L cobs cacs pend unst Hd st.connecting st.subscription st.cancelled) (J := JR L) (K := KR)
    (fun i hi => notInRoots_cob h.glob hi)
    ⟨by simp [KR, Hp], by simp [KR, Hp], fun i hi => by have := hca i hi; simp [KR]; omega⟩
    (fun i hi => by have := hca i hi; simp [Hp]; omega)
    (fun w s i hi hu => URr.conn hu i hi) (fun w s d hu => URr.cell0 hu d)
    (fun w s ev hh _ hu => URr.emit ev hh hu) ev h

end Rx.CRef
