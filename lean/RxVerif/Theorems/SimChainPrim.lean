import RxVerif.Theorems.SimChainRep
/-
SIM for chains, part 2: every primitive the StreamController code performs, as a WP rule on `CRep`.
-/
namespace Rx.Chain
open Rx.Sim

section prims
variable {ly : Lay} {m : Nat} {x : CSt} {H : List (LockId × Bool)} {w : World} {Q : World → Prop}

theorem obsAt_isSub (x : CSt) (j : Nat) : (ly.obsAt x j).isSub = x.sub j := by
  unfold Lay.obsAt; cases x.sub j <;> rfl

theorem obsAt_next_none {x : CSt} {j : Nat} (h : x.sub j = false) : (ly.obsAt x j).next = none := by
  simp [Lay.obsAt, h]

theorem c_isSub {j : Nat} {k : Bool → Prog} (h : CRep ly m x H w) (hj : j ≤ m)
    (hk : WP (k (x.sub j)) w Q) : WP (.obsIsSub (ly.L + j) k) w Q := by
  refine WP.step (fun fuel st => ?_) hk
  simp only [run, h.obs j hj, obsAt_isSub]

theorem c_next_dead {j : Nat} {d : Data} {k : Prog} (h : CRep ly m x H w) (hj : j ≤ m)
    (hs : x.sub j = false) (hk : WP k w Q) : WP (.obsNext (ly.L + j) d k) w Q := by
  refine WP.step (fun fuel st => ?_) hk
  simp only [run, h.obs j hj, obsAt_next_none hs]

theorem c_error_dead {j : Nat} {e : Nat} {k : Prog} (h : CRep ly m x H w) (hj : j ≤ m)
    (hs : x.sub j = false) (hk : WP k w Q) : WP (.obsError (ly.L + j) e k) w Q := by
  refine WP.step (fun fuel st => ?_) hk
  simp only [run, h.obs j hj, obsAt_next_none hs]

theorem c_complete_dead {j : Nat} {k : Prog} (h : CRep ly m x H w) (hj : j ≤ m)
    (hs : x.sub j = false) (hk : WP k w Q) : WP (.obsComplete (ly.L + j) k) w Q := by
  refine WP.step (fun fuel st => ?_) hk
  simp only [run, h.obs j hj, obsAt_next_none hs]

/-- the subscriber records an event (trace only) -/
theorem CRep.emitEv (h : CRep ly m x H w) (ev : Ev) (x' : CSt) (hsub : x'.sub = x.sub) (har : x'.ar = x.ar)
    (hrg : x'.rg = x.rg) (hst : x'.st = x.st) (hout : x'.out = x.out ++ [ev]) :
    CRep ly m x' H (w.emit (.ev ly.sU ev)) where
  status := h.status
  held := h.held
  obs := fun k hk => by
    have : ly.obsAt x' k = ly.obsAt x k := by simp [Lay.obsAt, Lay.td, hsub, har]
    rw [this]; exact h.obs k hk
  map := fun k hk => by rw [hrg]; exact h.map k hk
  cst := fun k hk => by rw [hst]; exact h.cst k hk
  slot := h.slot
  user := h.user
  log := by rw [logOf_emit_same, h.log, hout]
  others := fun s' hs => by rw [logOf_emit_other _ _ _ _ (Ne.symm hs)]; exact h.others s' hs
  arTop := by rw [har]; exact h.arTop

theorem c_next0 {d : Data} {k : Prog} (h : CRep ly m x H w) (hs : x.sub 0 = true)
    (hk : ∀ w', CRep ly m { x with out := x.out ++ [.next d] } H w' → WP k w' Q) :
    WP (.obsNext (ly.L + 0) d k) w Q := by
  obtain ⟨u, hu, hre⟩ := h.user
  refine WP.stepCall (f := .done) (fun fuel st => ?_)
    (WP.done (hk _ (h.emitEv (.next d) _ rfl rfl rfl rfl rfl)))
  simp only [run, h.obs 0 (Nat.zero_le _), Lay.obsAt, hs, ↓reduceIte, Lay.hdlN, hu, hre]

/-- clearing the three callbacks of observer `j` -/
theorem CRep.clearObs (h : CRep ly m x H w) (j : Nat) (hj : j ≤ m) :
    CRep ly m { x with sub := upd x.sub j false } H (w.setObs (ly.L + j) Obs.cleared) := by
  refine h.setObs j _ _ ?_ ?_ rfl rfl rfl h.arTop hj
  · simp only [Lay.obsAt, Lay.td, upd_same]
    cases x.sub j <;> rfl
  · intro k hk
    simp only [Lay.obsAt, Lay.td, upd_other _ _ hk]

theorem c_error0 {e : Nat} {k : Prog} (h : CRep ly m x H w) (hs : x.sub 0 = true)
    (hk : ∀ w', CRep ly m { x with sub := upd x.sub 0 false, out := x.out ++ [.error e] } H w' → WP k w' Q) :
    WP (.obsError (ly.L + 0) e k) w Q := by
  obtain ⟨u, hu, hre⟩ := h.user
  refine WP.stepCall (f := .done) (fun fuel st => ?_)
    (WP.done (hk _ ((h.clearObs 0 (Nat.zero_le _)).emitEv (.error e) _ rfl rfl rfl rfl rfl)))
  simp only [run, h.obs 0 (Nat.zero_le _), Lay.obsAt, hs, ↓reduceIte, Lay.hdlE, hu, hre]

theorem c_complete0 {k : Prog} (h : CRep ly m x H w) (hs : x.sub 0 = true)
    (hk : ∀ w', CRep ly m { x with sub := upd x.sub 0 false, out := x.out ++ [.complete] } H w' → WP k w' Q) :
    WP (.obsComplete (ly.L + 0) k) w Q := by
  obtain ⟨u, hu, hre⟩ := h.user
  refine WP.stepCall (f := .done) (fun fuel st => ?_)
    (WP.done (hk _ ((h.clearObs 0 (Nat.zero_le _)).emitEv .complete _ rfl rfl rfl rfl rfl)))
  simp only [run, h.obs 0 (Nat.zero_le _), Lay.obsAt, hs, ↓reduceIte, Lay.hdlC, hu, hre]

/-- deliveries into a stage's upstream observer call the stage's closures -/
theorem c_nextS {j : Nat} {d : Data} {k : Prog} (h : CRep ly m x H w) (hj : j + 1 ≤ m)
    (hs : x.sub (j + 1) = true) (hk : WP (ly.hn j d) w fun w1 => WP k w1 Q) :
    WP (.obsNext (ly.L + (j + 1)) d k) w Q := by
  refine WP.stepCall (fun fuel st => ?_) hk
  simp only [run, h.obs (j + 1) hj, Lay.obsAt, hs, ↓reduceIte, Lay.hdlN]

theorem c_errorS {j : Nat} {e : Nat} {k : Prog} (h : CRep ly m x H w) (hj : j + 1 ≤ m)
    (hs : x.sub (j + 1) = true)
    (hk : ∀ w', CRep ly m { x with sub := upd x.sub (j + 1) false } H w' →
      WP (ly.he j e) w' fun w1 => WP k w1 Q) :
    WP (.obsError (ly.L + (j + 1)) e k) w Q := by
  refine WP.stepCall (fun fuel st => ?_) (hk _ (h.clearObs (j + 1) hj))
  simp only [run, h.obs (j + 1) hj, Lay.obsAt, hs, ↓reduceIte, Lay.hdlE]

theorem c_completeS {j : Nat} {k : Prog} (h : CRep ly m x H w) (hj : j + 1 ≤ m)
    (hs : x.sub (j + 1) = true)
    (hk : ∀ w', CRep ly m { x with sub := upd x.sub (j + 1) false } H w' →
      WP (ly.hc j) w' fun w1 => WP k w1 Q) :
    WP (.obsComplete (ly.L + (j + 1)) k) w Q := by
  refine WP.stepCall (fun fuel st => ?_) (hk _ (h.clearObs (j + 1) hj))
  simp only [run, h.obs (j + 1) hj, Lay.obsAt, hs, ↓reduceIte, Lay.hdlC]

theorem obsAt_onUnsub (x : CSt) (j : Nat) : (ly.obsAt x j).onUnsub = ly.td x j := by
  unfold Lay.obsAt; cases x.sub j <;> rfl

theorem CRep.unsubObs (h : CRep ly m x H w) (j : Nat) (hj : j ≤ m) :
    CRep ly m (x.clear j) H (w.setObs (ly.L + j) fun o => { o.cleared with onUnsub := none }) := by
  refine h.setObs j _ _ ?_ ?_ rfl rfl rfl ?_ hj
  · simp only [Lay.obsAt, Lay.td, CSt.clear, upd_same]
    cases x.sub j <;> rfl
  · intro k hk
    simp only [Lay.obsAt, Lay.td, CSt.clear, upd_other _ _ hk]
  · simp only [CSt.clear, upd]; split
    · rfl
    · exact h.arTop

/-- `unsubscribe`: slots cleared, the teardown (if still there) is taken and run -/
theorem c_unsub {j : Nat} {k : Prog} (h : CRep ly m x H w) (hj : j ≤ m)
    (hk : ∀ w', CRep ly m (x.clear j) H w' →
      if x.ar j then WP (ly.sc j).finalize w' (fun w1 => WP k w1 Q) else WP k w' Q) :
    WP (.obsUnsub (ly.L + j) k) w Q := by
  have hk' := hk _ (h.unsubObs j hj)
  cases har : x.ar j with
  | true =>
    rw [har] at hk'
    refine WP.stepCall (fun fuel st => ?_) hk'
    simp only [run, h.obs j hj, obsAt_onUnsub, Lay.td, har, ↓reduceIte]
  | false =>
    rw [har] at hk'
    refine WP.step (fun fuel st => ?_) hk'
    simp only [run, h.obs j hj, obsAt_onUnsub, Lay.td, har, Bool.false_eq_true, ↓reduceIte]

/-! cells -/

def NoConf (H : List (LockId × Bool)) (l : LockId) (wr : Bool) : Prop :=
  (H.any fun (l', w') => l' == l && (wr || w')) = false

theorem c_readMap {j : Nat} {g : Bool} {k : Data → Prog} (h : CRep ly m x H w) (hj : j < m)
    (hg : g = true ∨ NoConf H (.cell (ly.c0 + 3 * j + 1)) false)
    (hk : WP (k (ly.mapD j (x.rg j))) w Q) : WP (.cellRead (ly.c0 + 3 * j + 1) g k) w Q := by
  refine WP.step (fun fuel st => ?_) hk
  have hc : (!g && w.conflicts (.cell (ly.c0 + 3 * j + 1)) false) = false := by
    rcases hg with rfl | hg
    · rfl
    · simp only [World.conflicts, h.held]; unfold NoConf at hg; rw [hg]; simp
  simp only [run, hc, h.map j hj, Option.getD_some]
  rfl

theorem c_writeMap {j : Nat} {g rg' : Bool} {k : Prog} (h : CRep ly m x H w) (hj : j < m)
    (hg : g = true ∨ NoConf H (.cell (ly.c0 + 3 * j + 1)) true)
    (hk : ∀ w', CRep ly m { x with rg := upd x.rg j rg' } H w' → WP k w' Q) :
    WP (.cellWrite (ly.c0 + 3 * j + 1) g (ly.mapD j rg') k) w Q := by
  have hrep : CRep ly m { x with rg := upd x.rg j rg' } H
      { w with cells := w.cells.set (ly.c0 + 3 * j + 1) (ly.mapD j rg') } := by
    refine h.setCell _ _ _ rfl rfl rfl ?_ ?_ (cell_lt (h.map j hj))
    · intro k hk
      by_cases e : k = j
      · subst e; simp
      · have : ly.c0 + 3 * k + 1 ≠ ly.c0 + 3 * j + 1 := by omega
        rw [if_neg this]; simp only [upd_other _ _ e]
    · intro k hk
      have : ly.c0 + 3 * k + 2 ≠ ly.c0 + 3 * j + 1 := by omega
      rw [if_neg this]
  refine WP.step (fun fuel st => ?_) (hk _ hrep)
  have hc : (!g && w.conflicts (.cell (ly.c0 + 3 * j + 1)) true) = false := by
    rcases hg with rfl | hg
    · rfl
    · simp only [World.conflicts, h.held]; unfold NoConf at hg; rw [hg]; simp
  simp only [run, hc]
  rfl

theorem c_readSt {j : Nat} {k : Data → Prog} (h : CRep ly m x H w) (hj : j < m)
    (hg : NoConf H (.cell (ly.c0 + 3 * j + 2)) false)
    (hk : WP (k (x.st j)) w Q) : WP (.cellRead (ly.c0 + 3 * j + 2) false k) w Q := by
  refine WP.step (fun fuel st => ?_) hk
  have hc : (!false && w.conflicts (.cell (ly.c0 + 3 * j + 2)) false) = false := by
    simp only [World.conflicts, h.held]; unfold NoConf at hg; rw [hg]; simp
  simp only [run, hc, h.cst j hj, Option.getD_some]
  rfl

theorem c_writeSt {j : Nat} {d : Data} {k : Prog} (h : CRep ly m x H w) (hj : j < m)
    (hg : NoConf H (.cell (ly.c0 + 3 * j + 2)) true)
    (hk : ∀ w', CRep ly m { x with st := upd x.st j d } H w' → WP k w' Q) :
    WP (.cellWrite (ly.c0 + 3 * j + 2) false d k) w Q := by
  have hrep : CRep ly m { x with st := upd x.st j d } H
      { w with cells := w.cells.set (ly.c0 + 3 * j + 2) d } := by
    refine h.setCell _ _ _ rfl rfl rfl ?_ ?_ (cell_lt (h.cst j hj))
    · intro k hk
      have : ly.c0 + 3 * k + 1 ≠ ly.c0 + 3 * j + 2 := by omega
      rw [if_neg this]
    · intro k hk
      by_cases e : k = j
      · subst e; simp
      · have : ly.c0 + 3 * k + 2 ≠ ly.c0 + 3 * j + 2 := by omega
        rw [if_neg this]; simp only [upd_other _ _ e]
  refine WP.step (fun fuel st => ?_) (hk _ hrep)
  have hc : (!false && w.conflicts (.cell (ly.c0 + 3 * j + 2)) true) = false := by
    simp only [World.conflicts, h.held]; unfold NoConf at hg; rw [hg]; simp
  simp only [run, hc]
  rfl

/-! guards, the on_finalize slot, probes -/

theorem c_lockAcq {l : LockId} {wr : Bool} {k : Prog} (h : CRep ly m x H w) (hc : NoConf H l wr)
    (hk : ∀ w', CRep ly m x ((l, wr) :: H) w' → WP k w' Q) : WP (.lockAcq l wr k) w Q := by
  have hrep : CRep ly m x ((l, wr) :: H) { w with held := (l, wr) :: w.held } := by
    have := h.setHeld ((l, wr) :: w.held); rwa [h.held] at this ⊢
  refine WP.step (fun fuel st => ?_) (hk _ hrep)
  have hc' : w.conflicts l wr = false := by simp only [World.conflicts, h.held]; exact hc
  simp only [run, hc']
  rfl

theorem c_lockRel {l : LockId} {wr : Bool} {k : Prog} (h : CRep ly m x ((l, wr) :: H) w)
    (hk : ∀ w', CRep ly m x H w' → WP k w' Q) : WP (.lockRel l k) w Q := by
  have hrep : CRep ly m x H (w.release l) := by
    have := h.setHeld H
    have e : (w.release l) = { w with held := H } := by
      simp only [World.release, h.held]; simp
    rw [e]; exact this
  refine WP.step (fun fuel st => ?_) (hk _ hrep)
  simp only [run]

theorem c_slotCall {j : Nat} {d : Data} {clear : Bool} {k : Prog} (h : CRep ly m x H w) (hj : j < m)
    (hk : WP k w Q) : WP (.slotCall (ly.s0 + j) d clear k) w Q := by
  refine WP.step (fun fuel st => ?_) hk
  simp only [run, h.slot j hj]

theorem c_probe {t : Nat} {d : Data} {k : Prog} (h : CRep ly m x H w)
    (hk : ∀ w', CRep ly m x H w' → WP k w' Q) : WP (.probe t d k) w Q := by
  have hrep : CRep ly m x H (w.emit (.probe t d)) :=
    { h with
      log := by rw [logOf_emit_probe]; exact h.log
      others := fun s' hs => by rw [logOf_emit_probe]; exact h.others s' hs }
  refine WP.step (fun fuel st => ?_) (hk _ hrep)
  simp only [run]

end prims

end Rx.Chain
