import RxVerif.Kernel.ConnM
import RxVerif.Theorems.C10
/-
C13 — publish / ref_count / replay.  Model: RxVerif/Kernel/ConnM.lean on top of RxVerif/Kernel/SubjM.lean.
All statements quantify over every call sequence, for a hot source and for every cold script.
-/
namespace Rx.ConnM
open Rx.SubjM (registered emit subscribeA subscribeB subscribeH reap unsubscribeN Inv Armed LogOk Pending)

/-! ## how the pieces of a call act on the subject -/

theorem connRecv_sub (k : Kind) (st : State) (i : Nat) (ev : Ev) :
    (connRecv k st i ev).sub = if st.conns[i]? = some true then emit k.subj st.sub ev else st.sub := by
  unfold connRecv; split <;> rfl

theorem connRecv_conns_length (k : Kind) (st : State) (i : Nat) (ev : Ev) :
    (connRecv k st i ev).conns.length = st.conns.length := by
  unfold connRecv; split
  · dsimp only; split <;> simp
  · rfl

theorem connRecv_flags (k : Kind) (st : State) (i : Nat) (ev : Ev) :
    (connRecv k st i ev).connecting = st.connecting ∧ (connRecv k st i ev).cancelled = st.cancelled ∧
    (connRecv k st i ev).subscription = st.subscription := by
  unfold connRecv; split <;> simp

section pres
variable {k : Kind} {P : SubjM.State → Prop} (hP : ∀ s ev, P s → P (emit k.subj s ev))
include hP

theorem connRecv_pres (st : State) (i : Nat) (ev : Ev) (h : P st.sub) : P (connRecv k st i ev).sub := by
  rw [connRecv_sub]; split
  · exact hP _ _ h
  · exact h

theorem foldEv_pres (i : Nat) (evs : List Ev) (st : State) (h : P st.sub) :
    P (evs.foldl (fun s ev => connRecv k s i ev) st).sub := by
  induction evs generalizing st with
  | nil => exact h
  | cons ev evs ih => exact ih _ (connRecv_pres hP st i ev h)

theorem foldIdx_pres (ev : Ev) (is : List Nat) (st : State) (h : P st.sub) :
    P (is.foldl (fun s i => connRecv k s i ev) st).sub := by
  induction is generalizing st with
  | nil => exact h
  | cons i is ih => exact ih _ (connRecv_pres hP st i ev h)

theorem hotEmit_pres (st : State) (ev : Ev) (h : P st.sub) : P (hotEmit k st ev).sub :=
  foldIdx_pres hP ev _ st h

theorem connectSource_pres (src : Src) (st : State) (h : P st.sub) : P (connectSource k src st).sub := by
  unfold connectSource
  cases src with
  | hot => exact h
  | cold script => exact foldEv_pres hP _ script _ h

theorem onSubscribe_pres (src : Src) (st : State) (len : Option Nat) (h : P st.sub) :
    P (onSubscribe k src st len).sub := by
  unfold onSubscribe; split
  · exact connectSource_pres hP src _ h
  · exact h

end pres

theorem onUnsubscribe_sub (st : State) (len : Option Nat) : (onUnsubscribe st len).sub = st.sub := by
  unfold onUnsubscribe; split <;> rfl

/-- the subject after a `subscribe` call -/
theorem step_subscribe_sub_eq (k : Kind) (src : Src) (st : State) (o : Nat) :
    (step k src st (.subscribe o)).sub =
      (subscribeB k.subj
        (if k.counts = true then onSubscribe k src { st with sub := (subscribeA k.subj st.sub o).1 }
          (subscribeA k.subj st.sub o).2.len else { st with sub := (subscribeA k.subj st.sub o).1 }).sub o
        (subscribeA k.subj st.sub o).2).1 := by
  simp only [step]
  split
  · rw [onUnsubscribe_sub]
  · rfl

/-- `subscribe`: `subscribeA`, then (ref_count / replay) emissions of a cold source, then `subscribeB` -/
theorem step_pres_sub {k : Kind} {P : SubjM.State → Prop} (src : Src)
    (hE : ∀ s ev, P s → P (emit k.subj s ev))
    (st : State) (o : Nat)
    (hA : ∀ s, P s → P (subscribeA k.subj s o).1)
    (hB : ∀ s s', P s → P s' → (subscribeA k.subj s o).2.fresh = true → ((s'.obs o).seen = true) →
        P (subscribeB k.subj s' o (subscribeA k.subj s o).2).1)
    (hB0 : ∀ s' p, P s' → p.fresh = false → P (subscribeB k.subj s' o p).1)
    (hSeen : ∀ s ev, P s → (s.obs o).seen = true → ((emit k.subj s ev).obs o).seen = true)
    (h : P st.sub) : P (step k src st (.subscribe o)).sub := by
  rw [step_subscribe_sub_eq]
  cases hf : (subscribeA k.subj st.sub o).2.fresh with
  | false =>
    apply hB0 _ _ _ hf
    split
    · exact onSubscribe_pres hE src _ _ (hA _ h)
    · exact hA _ h
  | true =>
    have hs := SubjM.subscribeA_fresh_seen k.subj st.sub o hf
    have hA' := hA _ h
    let Q : SubjM.State → Prop := fun s => P s ∧ (s.obs o).seen = true
    have hQ : ∀ s ev, Q s → Q (emit k.subj s ev) := fun s ev hq => ⟨hE s ev hq.1, hSeen s ev hq.1 hq.2⟩
    have : Q (if k.counts = true then onSubscribe k src { st with sub := (subscribeA k.subj st.sub o).1 }
          (subscribeA k.subj st.sub o).2.len else { st with sub := (subscribeA k.subj st.sub o).1 }).sub := by
      split
      · exact onSubscribe_pres hQ src _ _ ⟨hA', hs⟩
      · exact ⟨hA', hs⟩
    exact hB _ _ h this.1 hf this.2

theorem step_pres_unsub {k : Kind} {P : SubjM.State → Prop} (src : Src)
    (hU : ∀ s o, P s → P (unsubscribeN k.subj s o).1)
    (st : State) (o : Nat) (h : P st.sub) : P (step k src st (.unsubscribe o)).sub := by
  simp only [step]; split
  · rw [onUnsubscribe_sub]; exact hU _ _ h
  · exact hU _ _ h

/-- every other call only makes the source emit -/
theorem step_pres_src {k : Kind} {P : SubjM.State → Prop} (src : Src)
    (hE : ∀ s ev, P s → P (emit k.subj s ev))
    (st : State) (c : Call) (hc1 : ∀ o, c ≠ .subscribe o) (hc2 : ∀ o, c ≠ .unsubscribe o) (h : P st.sub) :
    P (step k src st c).sub := by
  cases c with
  | subscribe o => exact absurd rfl (hc1 o)
  | unsubscribe o => exact absurd rfl (hc2 o)
  | connect => simp only [step]; split; exact h; exact connectSource_pres hE src _ h
  | disconnect => simp only [step]; split <;> exact h
  | srcNext v =>
    simp only [step]
    cases src with
    | hot => exact hotEmit_pres hE _ _ h
    | cold script => exact h
  | srcError e =>
    simp only [step]
    cases src with
    | hot => exact hotEmit_pres hE _ _ h
    | cold script => exact h
  | srcComplete =>
    simp only [step]
    cases src with
    | hot => exact hotEmit_pres hE _ _ h
    | cold script => exact h

/-- a call acts on the subject through `subscribeA`, emissions, `subscribeB`, `unsubscribeN` only -/
theorem step_pres {k : Kind} {P : SubjM.State → Prop} (src : Src)
    (hE : ∀ s ev, P s → P (emit k.subj s ev))
    (hA : ∀ s o, P s → P (subscribeA k.subj s o).1)
    (hB : ∀ s s' o, P s → P s' → (subscribeA k.subj s o).2.fresh = true → ((s'.obs o).seen = true) →
        P (subscribeB k.subj s' o (subscribeA k.subj s o).2).1)
    (hB0 : ∀ s' o p, P s' → p.fresh = false → P (subscribeB k.subj s' o p).1)
    (hU : ∀ s o, P s → P (unsubscribeN k.subj s o).1)
    (hSeen : ∀ s ev o, P s → (s.obs o).seen = true → ((emit k.subj s ev).obs o).seen = true)
    (st : State) (c : Call) (h : P st.sub) : P (step k src st c).sub := by
  cases c with
  | subscribe o =>
    exact step_pres_sub src hE st o (fun s => hA s o) (fun s s' => hB s s' o) (fun s' p => hB0 s' o p)
      (fun s ev => hSeen s ev o) h
  | unsubscribe o => exact step_pres_unsub src hU st o h
  | connect => exact step_pres_src src hE st _ (by simp) (by simp) h
  | disconnect => exact step_pres_src src hE st _ (by simp) (by simp) h
  | srcNext v => exact step_pres_src src hE st _ (by simp) (by simp) h
  | srcError e => exact step_pres_src src hE st _ (by simp) (by simp) h
  | srcComplete => exact step_pres_src src hE st _ (by simp) (by simp) h

/-! ## the subject-level invariant that holds between any two callbacks of a connectable -/

open Rx.SubjM (nonTerminal contract) in
/-- `SubjM.Inv`, the contract on every log, and two facts about who is (no longer) subscribed -/
structure Base (k : SubjM.Kind) (s : SubjM.State) : Prop where
  inv : Inv k s
  logOk : ∀ (o : Nat), LogOk (s.obs o)
  /-- a subscriber that is still subscribed is in the map -/
  aliveReg : ∀ (o : Nat), (s.obs o).alive = true → o ∈ registered s
  /-- a subscriber that did not unsubscribe is dead only because it got a terminal -/
  deadWhy : ∀ (o : Nat), (s.obs o).seen = true → (s.obs o).hook = true → (s.obs o).alive = false →
    nonTerminal (s.obs o).log = false

theorem deliver_seen (k : SubjM.Kind) (ev : Ev) (l : List (Nat × Nat)) (f : Nat → SubjM.ObsSt) (o : Nat) :
    (SubjM.deliver k ev l f o).seen = (f o).seen := by
  induction l generalizing f with
  | nil => rfl
  | cons p rest ih =>
    simp only [SubjM.deliver, ih, SubjM.upd_apply]; split
    · subst_vars; exact SubjM.recvK_seen _ _ _
    · rfl

theorem emit_seen (k : SubjM.Kind) (s : SubjM.State) (ev : Ev) (o : Nat) :
    ((emit k s ev).obs o).seen = (s.obs o).seen := deliver_seen k ev _ _ o

theorem nonTerminal_snoc_terminal (l : List Ev) (ev : Ev) (h : ev.isTerminal = true) :
    SubjM.nonTerminal (l ++ [ev]) = false := by
  simp [SubjM.nonTerminal, h]

theorem Base.emit {k s} (hk : k.isAsync = false) (h : Base k s) (ev : Ev) : Base k (emit k s ev) := by
  have hobs := SubjM.emit_obs h.inv ev
  refine ⟨h.inv.emit ev, fun o => LogOk.emit h.logOk ev o, ?_, ?_⟩
  · intro o ha
    rw [hobs] at ha
    rw [SubjM.emit_registered]
    by_cases hr : o ∈ registered s
    · rw [if_pos hr, SubjM.recvK_alive k hk] at ha
      have hin := h.inv.regInAlive o hr
      cases ht : ev.isTerminal with
      | false => simpa using hr
      | true => cases hp : k.isPlain <;> simp_all
    · rw [if_neg hr] at ha; exact absurd (h.aliveReg o ha) hr
  · intro o hs hh hd
    rw [hobs] at hs hh hd ⊢
    by_cases hr : o ∈ registered s
    · simp only [if_pos hr] at hs hh hd ⊢
      rw [SubjM.recvK_seen] at hs; rw [SubjM.recvK_hook] at hh
      rw [SubjM.recvK_alive k hk] at hd; rw [SubjM.recvK_log k hk]
      have hin := h.inv.regInAlive o hr
      have hpi : (k.isPlain || (s.obs o).inAlive) = true := by cases hp : k.isPlain <;> simp_all
      simp only [hpi, ↓reduceIte, Bool.and_eq_false_imp, Bool.not_eq_eq_eq_not, Bool.not_false, Bool.true_and] at hd ⊢
      cases ha : (s.obs o).alive with
      | false => simp only [Bool.false_eq_true, ↓reduceIte]; exact h.deadWhy o hs hh ha
      | true => simp only [↓reduceIte]; exact nonTerminal_snoc_terminal _ _ (hd ha)
    · simp only [if_neg hr] at hs hh hd ⊢; exact h.deadWhy o hs hh hd

theorem subscribeA_obs_self (k : SubjM.Kind) (s : SubjM.State) (o : Nat) (hs : (s.obs o).seen = false) :
    (((subscribeA k s o).1.obs o).alive = true ∧ o ∈ registered (subscribeA k s o).1 ∧
      (subscribeA k s o).2.fresh = true) ∨
    (((subscribeA k s o).1.obs o).hook = false ∧ ((subscribeA k s o).1.obs o).alive = false) := by
  unfold subscribeA
  simp only [hs, Bool.false_eq_true, ↓reduceIte]
  cases k with
  | behavior v =>
    dsimp only
    split
    · right; simp
    · split
      · right; simp
      · left; simp [SubjM.register_obs, SubjM.register_registered]
  | async =>
    dsimp only
    split
    · right; simp
    · right; simp
    · left; simp [SubjM.register_obs, SubjM.register_registered]
  | _ => left; simp [SubjM.register_obs, SubjM.register_registered]

theorem subscribeA_reg_mono (k : SubjM.Kind) (s : SubjM.State) (o o' : Nat) (h : o' ∈ registered s) :
    o' ∈ registered (subscribeA k s o).1 := by
  rw [SubjM.subscribeA_registered]; split <;> simp [h]

theorem Base.subscribeA {k s} (h : Base k s) (o : Nat) : Base k (subscribeA k s o).1 := by
  refine ⟨h.inv.subscribeA o, fun o' => LogOk.subscribeA h.logOk o o', ?_, ?_⟩
  · intro o' ha
    by_cases hne : o' = o
    · subst hne
      cases hs : (s.obs o').seen with
      | true => rw [SubjM.subscribeA_seen k s o' hs] at ha ⊢; exact h.aliveReg o' ha
      | false =>
        rcases subscribeA_obs_self k s o' hs with h1 | h1
        · exact h1.2.1
        · rw [h1.2] at ha; exact absurd ha (by simp)
    · rw [SubjM.subscribeA_obs_other _ _ _ _ hne] at ha
      exact subscribeA_reg_mono k s o o' (h.aliveReg o' ha)
  · intro o' hs hh hd
    by_cases hne : o' = o
    · subst hne
      cases hs0 : (s.obs o').seen with
      | true => rw [SubjM.subscribeA_seen k s o' hs0] at hs hh hd ⊢; exact h.deadWhy o' hs hh hd
      | false =>
        rcases subscribeA_obs_self k s o' hs0 with h1 | h1
        · rw [h1.1] at hd; exact absurd hd (by simp)
        · rw [h1.1] at hh; exact absurd hh (by simp)
    · rw [SubjM.subscribeA_obs_other _ _ _ _ hne] at hs hh hd ⊢
      exact h.deadWhy o' hs hh hd

theorem foldRecv_dead (hist : List Data) (r : SubjM.ObsSt) (ha : r.alive = false) :
    hist.foldl (fun r x => r.recv (.next x)) r = r := by
  induction hist generalizing r with
  | nil => rfl
  | cons x xs ih =>
    have : r.recv (.next x) = r := by cases r; simp_all [SubjM.ObsSt.recv]
    simp only [List.foldl_cons, this, ih r ha]

theorem handOver_dead (r : SubjM.ObsSt) (hist : List Data) (we : Option Nat) (wc : Bool) (ha : r.alive = false) :
    SubjM.handOver r hist we wc = r := by
  unfold SubjM.handOver
  rw [foldRecv_dead hist r ha]
  have hr : ∀ ev, r.recv ev = r := by intro ev; cases r; simp_all [SubjM.ObsSt.recv]
  cases we with
  | some e => simp [hr]
  | none => cases wc <;> simp [hr]

theorem subscribeH_obs_self (k : SubjM.Kind) (s : SubjM.State) (o : Nat) (p : Pending) :
    (subscribeH k s o p).obs o = s.obs o ∨
    (k = .replay ∧ p.fresh = true ∧
      (subscribeH k s o p).obs o = { (SubjM.handOver (s.obs o) p.history s.wasError s.wasCompleted) with armed := true }) := by
  unfold subscribeH
  cases k with
  | replay =>
    dsimp only
    split
    · right; simp_all
    · left; rfl
  | _ => left; rfl

theorem Base.subscribeH {k s} (h : Base k s) (o : Nat) (p : Pending) (hf : p.fresh = true → (s.obs o).seen = true) :
    Base k (subscribeH k s o p) := by
  refine ⟨h.inv.subscribeH o p hf, fun o' => LogOk.subscribeH h.logOk o p o', ?_, ?_⟩
  · intro o' ha
    simp only [registered, SubjM.subscribeH_observers]
    by_cases hne : o' = o
    · subst hne
      rcases subscribeH_obs_self k s o' p with h1 | ⟨_, _, h1⟩
      · rw [h1] at ha; exact h.aliveReg o' ha
      · rw [h1] at ha
        cases ha0 : (s.obs o').alive with
        | true => exact h.aliveReg o' ha0
        | false => rw [handOver_dead _ _ _ _ ha0] at ha; simp [ha0] at ha
    · rw [SubjM.subscribeH_obs_other _ _ _ _ _ hne] at ha; exact h.aliveReg o' ha
  · intro o' hs hh hd
    by_cases hne : o' = o
    · subst hne
      rcases subscribeH_obs_self k s o' p with h1 | ⟨_, _, h1⟩
      · rw [h1] at hs hh hd ⊢; exact h.deadWhy o' hs hh hd
      · rw [h1] at hs hh hd ⊢
        have hfld := SubjM.handOver_fields (s.obs o') p.history s.wasError s.wasCompleted
        simp only [hfld.1, hfld.2.1] at hs hh
        cases ha0 : (s.obs o').alive with
        | false =>
          rw [handOver_dead _ _ _ _ ha0]; exact h.deadWhy o' hs hh ha0
        | true =>
          have hho := SubjM.handOver_alive (s.obs o') p.history s.wasError s.wasCompleted ha0
          simp only [hho.2] at hd
          simp only [hho.1]
          cases hst : SubjM.storedTerminal s.wasError s.wasCompleted with
          | nil => simp [hst] at hd
          | cons t ts =>
            unfold SubjM.storedTerminal at hst
            cases hwe : s.wasError with
            | some e => simp [hwe] at hst; simp [← hst.1, SubjM.nonTerminal, Ev.isTerminal]
            | none =>
              cases hwc : s.wasCompleted with
              | false => simp [hwe, hwc] at hst
              | true => simp [hwe, hwc] at hst; simp [← hst.1, SubjM.nonTerminal, Ev.isTerminal]
    · rw [SubjM.subscribeH_obs_other _ _ _ _ _ hne] at hs hh hd ⊢; exact h.deadWhy o' hs hh hd

theorem reap_fields (s : SubjM.State) (o o' : Nat) :
    ((reap s o).1.obs o').seen = (s.obs o').seen ∧ ((reap s o).1.obs o').alive = (s.obs o').alive ∧
    ((reap s o).1.obs o').log = (s.obs o').log ∧ ((reap s o).1.obs o').hook = (s.obs o').hook := by
  rw [SubjM.reap_obs]; split
  · subst_vars; exact ⟨rfl, rfl, rfl, rfl⟩
  · exact ⟨rfl, rfl, rfl, rfl⟩

theorem Base.reap {k s} (h : Base k s) (o : Nat) : Base k (reap s o).1 := by
  refine ⟨h.inv.reap o, fun o' => LogOk.reap h.logOk o o', ?_, ?_⟩
  · intro o' ha
    rw [(reap_fields s o o').2.1] at ha
    refine (SubjM.reap_mem h.inv o o').2 ⟨h.aliveReg o' ha, ?_⟩
    rintro ⟨rfl, hr⟩
    unfold SubjM.reaped at hr; simp [ha] at hr
  · intro o' hs hh hd
    have hf := reap_fields s o o'
    rw [hf.1] at hs; rw [hf.2.2.2] at hh; rw [hf.2.1] at hd; rw [hf.2.2.1]
    exact h.deadWhy o' hs hh hd

theorem Base.subscribeB {k s} (h : Base k s) (o : Nat) (p : Pending) (hf : p.fresh = true → (s.obs o).seen = true) :
    Base k (subscribeB k s o p).1 := by
  rw [SubjM.subscribeB_fst]; split
  · exact (h.subscribeH o p hf).reap o
  · exact h.subscribeH o p hf

theorem Base.unsubscribeN {k s} (h : Base k s) (o : Nat) : Base k (unsubscribeN k s o).1 := by
  refine ⟨h.inv.unsubscribeN o, fun o' => LogOk.unsubscribeN h.logOk o o', ?_, ?_⟩
  · intro o' ha
    rw [SubjM.unsub_obs] at ha
    split at ha
    · simp at ha
    · rename_i hne
      refine (SubjM.unsub_mem h.inv o o').2 ⟨h.aliveReg o' ha, ?_⟩
      rintro ⟨rfl, hr⟩
      apply hne
      refine ⟨rfl, ?_⟩
      unfold SubjM.reaches at hr
      simp only [Bool.and_eq_true] at hr; exact hr.1.1
  · intro o' hs hh hd
    rw [SubjM.unsub_obs] at hs hh hd ⊢
    split at hh
    · simp at hh
    · rename_i hne; simp only [if_neg hne] at hs hd ⊢; exact h.deadWhy o' hs hh hd

theorem base_init (k : SubjM.Kind) : Base k (SubjM.init k) := by
  refine ⟨SubjM.inv_init k, ?_, ?_, ?_⟩ <;> cases k <;> simp [SubjM.init, SubjM.logOk_default]

theorem Kind.subj_not_async (k : Kind) : k.subj.isAsync = false := by cases k <;> rfl

/-- the subject-level invariant holds after every call of a connectable (indeed between any two callbacks) -/
theorem Base.step {k : Kind} (src : Src) {st : State} (h : Base k.subj st.sub) (c : Call) :
    Base k.subj (step k src st c).sub := by
  refine step_pres (P := Base k.subj) src ?_ ?_ ?_ ?_ ?_ ?_ st c h
  · exact fun s ev hs => hs.emit k.subj_not_async ev
  · exact fun s o hs => hs.subscribeA o
  · exact fun s s' o _ hs' _ hseen => hs'.subscribeB o _ (fun _ => hseen)
  · exact fun s' o p hs' hp => hs'.subscribeB o p (fun hf => by simp [hp] at hf)
  · exact fun s o hs => hs.unsubscribeN o
  · exact fun s ev o _ hseen => by rw [emit_seen]; exact hseen


/-! ## reachable states -/

theorem base_runFrom {k : Kind} (src : Src) {st : State} (h : Base k.subj st.sub) (cs : List Call) :
    Base k.subj (runFrom k src st cs).sub := by
  induction cs generalizing st with
  | nil => exact h
  | cons c cs ih => exact ih (h.step src c)

theorem base_run (k : Kind) (src : Src) (cs : List Call) : Base k.subj (run k src cs).sub :=
  base_runFrom src (by cases k <;> exact base_init _) cs

theorem runFrom_append (k : Kind) (src : Src) (st : State) (a b : List Call) :
    runFrom k src st (a ++ b) = runFrom k src (runFrom k src st a) b := by
  simp [runFrom, List.foldl_append]

theorem run_append (k : Kind) (src : Src) (a b : List Call) : run k src (a ++ b) = runFrom k src (run k src a) b :=
  runFrom_append k src _ a b

/-! ## C13 `publish_connects_only_on_connect` -/

theorem foldEv_conns_length (k : Kind) (i : Nat) (evs : List Ev) (st : State) :
    (evs.foldl (fun s ev => connRecv k s i ev) st).conns.length = st.conns.length := by
  induction evs generalizing st with
  | nil => rfl
  | cons ev evs ih => simp only [List.foldl_cons, ih, connRecv_conns_length]

theorem foldIdx_conns_length (k : Kind) (ev : Ev) (is : List Nat) (st : State) :
    (is.foldl (fun s i => connRecv k s i ev) st).conns.length = st.conns.length := by
  induction is generalizing st with
  | nil => rfl
  | cons i is ih => simp only [List.foldl_cons, ih, connRecv_conns_length]

theorem hotEmit_conns_length (k : Kind) (st : State) (ev : Ev) : (hotEmit k st ev).conns.length = st.conns.length :=
  foldIdx_conns_length k ev _ st

theorem connectSource_conns_length (k : Kind) (src : Src) (st : State) :
    (connectSource k src st).conns.length = st.conns.length + 1 := by
  unfold connectSource
  cases src with
  | hot => simp
  | cold script => simp [foldEv_conns_length]

def connects : List Call → Nat
  | [] => 0
  | .connect :: cs => connects cs + 1
  | .subscribe _ :: cs => connects cs
  | .unsubscribe _ :: cs => connects cs
  | .disconnect :: cs => connects cs
  | .srcNext _ :: cs => connects cs
  | .srcError _ :: cs => connects cs
  | .srcComplete :: cs => connects cs

theorem publish_step_subscriptions (src : Src) (st : State) (c : Call) :
    sourceSubscriptions (step .publish src st c) = sourceSubscriptions st + connects [c] := by
  unfold sourceSubscriptions
  cases c with
  | connect => simp [step, Kind.counts, connectSource_conns_length, connects]
  | subscribe o => simp [step, Kind.counts, connects]
  | unsubscribe o => simp [step, Kind.counts, connects]
  | disconnect => simp [step, Kind.counts, connects]
  | srcNext v => cases src <;> simp [step, hotEmit_conns_length, connects]
  | srcError e => cases src <;> simp [step, hotEmit_conns_length, connects]
  | srcComplete => cases src <;> simp [step, hotEmit_conns_length, connects]

theorem connects_cons (c : Call) (cs : List Call) : connects (c :: cs) = connects [c] + connects cs := by
  cases c <;> simp [connects] <;> omega

theorem publish_runFrom_subscriptions (src : Src) (st : State) (cs : List Call) :
    sourceSubscriptions (runFrom .publish src st cs) = sourceSubscriptions st + connects cs := by
  induction cs generalizing st with
  | nil => simp [runFrom, connects]
  | cons c cs ih =>
    show sourceSubscriptions (runFrom .publish src (step .publish src st c) cs) = _
    rw [ih, publish_step_subscriptions, connects_cons c cs]; omega

/-- **C13 `publish_connects_only_on_connect`**: for every call sequence, hot or cold source, the number of
    source subscriptions publish has ever made equals the number of `connect()` calls — subscribing, unsubscribing,
    disconnecting or source activity never subscribe the source, and each `connect()` subscribes it exactly once. -/
theorem publish_connects_only_on_connect (src : Src) (cs : List Call) :
    sourceSubscriptions (run .publish src cs) = connects cs := by
  simpa [run, sourceSubscriptions, init] using publish_runFrom_subscriptions src init cs

example : sourceSubscriptions (run .publish .hot [.subscribe 0, .srcNext (.int 1), .subscribe 1]) = 0 ∧
    logOf (run .publish .hot [.subscribe 0, .srcNext (.int 1), .subscribe 1]) 0 = [] := by decide
example : sourceSubscriptions (run .publish (.cold [.next (.int 1), .complete]) [.subscribe 0, .connect, .subscribe 1, .connect]) = 2 := by
  decide


/-! ## ref_count / replay: one source subscription, made by the first subscriber, never a second one -/

theorem foldEv_flags (k : Kind) (i : Nat) (evs : List Ev) (st : State) :
    (evs.foldl (fun s ev => connRecv k s i ev) st).connecting = st.connecting ∧
    (evs.foldl (fun s ev => connRecv k s i ev) st).cancelled = st.cancelled ∧
    (evs.foldl (fun s ev => connRecv k s i ev) st).subscription = st.subscription := by
  induction evs generalizing st with
  | nil => exact ⟨rfl, rfl, rfl⟩
  | cons ev evs ih =>
    have h1 := ih (connRecv k st i ev)
    have h2 := connRecv_flags k st i ev
    simp only [List.foldl_cons]
    exact ⟨h1.1.trans h2.1, h1.2.1.trans h2.2.1, h1.2.2.trans h2.2.2⟩

theorem foldIdx_flags (k : Kind) (ev : Ev) (is : List Nat) (st : State) :
    (is.foldl (fun s i => connRecv k s i ev) st).connecting = st.connecting ∧
    (is.foldl (fun s i => connRecv k s i ev) st).cancelled = st.cancelled ∧
    (is.foldl (fun s i => connRecv k s i ev) st).subscription = st.subscription := by
  induction is generalizing st with
  | nil => exact ⟨rfl, rfl, rfl⟩
  | cons i is ih =>
    have h1 := ih (connRecv k st i ev)
    have h2 := connRecv_flags k st i ev
    simp only [List.foldl_cons]
    exact ⟨h1.1.trans h2.1, h1.2.1.trans h2.2.1, h1.2.2.trans h2.2.2⟩

theorem connectSource_flags (k : Kind) (src : Src) (st : State) :
    (connectSource k src st).connecting = st.connecting ∧ (connectSource k src st).cancelled = st.cancelled ∧
    (connectSource k src st).subscription = st.subscription := by
  unfold connectSource
  cases src with
  | hot => exact ⟨rfl, rfl, rfl⟩
  | cold script => exact foldEv_flags k _ script _

/-- `connecting` is false exactly as long as nothing at all has happened; afterwards there is exactly one
    source observer, it is the stored `subscription`, and `cancelled` is never set (it needs a subscriber that
    leaves while `source.subscribe` is still running, which a passive subscriber cannot do) -/
structure RC (st : State) : Prop where
  idle : st.connecting = false →
    st.conns = [] ∧ st.subscription = none ∧ (∀ (o : Nat), (st.sub.obs o).seen = false) ∧ st.sub.observers = [] ∧
    st.sub.items = [] ∧ st.sub.wasError = none ∧ st.sub.wasCompleted = false ∧ st.emitted = []
  busy : st.connecting = true → st.conns.length = 1 ∧ st.subscription = some 0
  notCancelled : st.cancelled = false

theorem rc_init : RC init := by constructor <;> simp [init]

def isSubscribe : Call → Bool
  | .subscribe _ => true
  | _ => false

theorem subscribeA_len_fresh (k : Kind) (s : SubjM.State) (o : Nat) (hs : (s.obs o).seen = false) :
    (subscribeA k.subj s o).2.len = some (s.observers.length + 1) := by
  cases k <;> simp [subscribeA, Kind.subj, hs]

theorem subscribeA_len_seen (k : SubjM.Kind) (s : SubjM.State) (o : Nat) (hs : (s.obs o).seen = true) :
    (subscribeA k s o).2.len = none := by
  rw [SubjM.subscribeA_seen k s o hs]

theorem onSubscribe_fire (k : Kind) (src : Src) (st : State) (hc : st.connecting = false)
    (hcan : st.cancelled = false) (hconns : st.conns = []) :
    (onSubscribe k src st (some 1)).connecting = true ∧ (onSubscribe k src st (some 1)).cancelled = false ∧
    (onSubscribe k src st (some 1)).subscription = some 0 ∧ (onSubscribe k src st (some 1)).conns.length = 1 := by
  have hcs := connectSource_flags k src { st with connecting := true }
  have hcl := connectSource_conns_length k src { st with connecting := true }
  unfold onSubscribe
  simp only [hc, and_self, ↓reduceIte]
  refine ⟨hcs.1, hcs.2.1.trans hcan, by simp [hconns], ?_⟩
  have h0 : st.conns.length = 0 := by simp [hconns]
  simp only at hcl
  split
  · rw [List.length_set, hcl, h0]
  · rw [hcl, h0]

theorem onUnsubscribe_busy (X : State) (n : Option Nat) (h1 : X.connecting = true)
    (h2 : X.conns.length = 1 ∧ X.subscription = some 0) (h3 : X.cancelled = false) :
    (onUnsubscribe X n).connecting = true ∧ (onUnsubscribe X n).conns.length = 1 ∧
    (onUnsubscribe X n).subscription = some 0 ∧ (onUnsubscribe X n).cancelled = false := by
  unfold onUnsubscribe
  split
  · simp [h1, h2, h3]
  · exact ⟨h1, h2.1, h2.2, h3⟩

theorem RC.step {k : Kind} (hk : k.counts = true) (src : Src) {st : State} (h : RC st) (c : Call) :
    RC (step k src st c) ∧ (step k src st c).connecting = (st.connecting || isSubscribe c) := by
  cases hc : st.connecting with
  | true =>
    have hb := h.busy hc
    cases c with
    | subscribe o =>
      have hns : onSubscribe k src { st with sub := (subscribeA k.subj st.sub o).1 } (subscribeA k.subj st.sub o).2.len
          = { st with sub := (subscribeA k.subj st.sub o).1 } := by
        unfold onSubscribe; simp [hc]
      simp only [ConnM.step, hk, ↓reduceIte, hns, isSubscribe, Bool.or_true]
      have hu := onUnsubscribe_busy
        { st with sub := (subscribeB k.subj (subscribeA k.subj st.sub o).1 o (subscribeA k.subj st.sub o).2).1 }
        (subscribeB k.subj (subscribeA k.subj st.sub o).1 o (subscribeA k.subj st.sub o).2).2 hc hb h.notCancelled
      exact ⟨⟨by simp [hu.1], fun _ => ⟨hu.2.1, hu.2.2.1⟩, hu.2.2.2⟩, hu.1⟩
    | unsubscribe o =>
      simp only [ConnM.step, hk, ↓reduceIte, isSubscribe, Bool.or_false]
      unfold onUnsubscribe
      split
      · exact ⟨⟨by simp [hc], fun _ => by simp [hb], by simp [h.notCancelled, hb.2]⟩, hc⟩
      · exact ⟨⟨by simp [hc], fun _ => hb, h.notCancelled⟩, hc⟩
    | connect => simp only [ConnM.step, hk, ↓reduceIte, isSubscribe, Bool.or_false]; exact ⟨h, hc⟩
    | disconnect => simp only [ConnM.step, hk, ↓reduceIte, isSubscribe, Bool.or_false]; exact ⟨h, hc⟩
    | srcNext v =>
      cases src with
      | cold script => simp only [ConnM.step, isSubscribe, Bool.or_false]; exact ⟨h, hc⟩
      | hot =>
        have hf := foldIdx_flags k (.next v) (List.range st.conns.length) st
        simp only [ConnM.step, isSubscribe, Bool.or_false]
        refine ⟨⟨fun h0 => ?_, fun _ => ?_, ?_⟩, ?_⟩
        · rw [show (hotEmit k st (.next v)).connecting = st.connecting from hf.1, hc] at h0; simp at h0
        · rw [hotEmit_conns_length, show (hotEmit k st (.next v)).subscription = st.subscription from hf.2.2]; exact hb
        · rw [show (hotEmit k st (.next v)).cancelled = st.cancelled from hf.2.1]; exact h.notCancelled
        · rw [show (hotEmit k st (.next v)).connecting = st.connecting from hf.1]; exact hc
    | srcError e =>
      cases src with
      | cold script => simp only [ConnM.step, isSubscribe, Bool.or_false]; exact ⟨h, hc⟩
      | hot =>
        have hf := foldIdx_flags k (.error e) (List.range st.conns.length) st
        simp only [ConnM.step, isSubscribe, Bool.or_false]
        refine ⟨⟨fun h0 => ?_, fun _ => ?_, ?_⟩, ?_⟩
        · rw [show (hotEmit k st (.error e)).connecting = st.connecting from hf.1, hc] at h0; simp at h0
        · rw [hotEmit_conns_length, show (hotEmit k st (.error e)).subscription = st.subscription from hf.2.2]; exact hb
        · rw [show (hotEmit k st (.error e)).cancelled = st.cancelled from hf.2.1]; exact h.notCancelled
        · rw [show (hotEmit k st (.error e)).connecting = st.connecting from hf.1]; exact hc
    | srcComplete =>
      cases src with
      | cold script => simp only [ConnM.step, isSubscribe, Bool.or_false]; exact ⟨h, hc⟩
      | hot =>
        have hf := foldIdx_flags k .complete (List.range st.conns.length) st
        simp only [ConnM.step, isSubscribe, Bool.or_false]
        refine ⟨⟨fun h0 => ?_, fun _ => ?_, ?_⟩, ?_⟩
        · rw [show (hotEmit k st .complete).connecting = st.connecting from hf.1, hc] at h0; simp at h0
        · rw [hotEmit_conns_length, show (hotEmit k st .complete).subscription = st.subscription from hf.2.2]; exact hb
        · rw [show (hotEmit k st .complete).cancelled = st.cancelled from hf.2.1]; exact h.notCancelled
        · rw [show (hotEmit k st .complete).connecting = st.connecting from hf.1]; exact hc
  | false =>
    have hi := h.idle hc
    cases c with
    | subscribe o =>
      have hlen := subscribeA_len_fresh k st.sub o (hi.2.2.1 o)
      rw [hi.2.2.2.1] at hlen
      have hf := onSubscribe_fire k src { st with sub := (subscribeA k.subj st.sub o).1 } hc h.notCancelled hi.1
      simp only [ConnM.step, hk, ↓reduceIte, isSubscribe, Bool.or_true, hlen, List.length_nil, Nat.zero_add]
      generalize onSubscribe k src { st with sub := (subscribeA k.subj st.sub o).1 } (some 1) = Z at hf ⊢
      have hu := onUnsubscribe_busy
        { Z with sub := (subscribeB k.subj Z.sub o (subscribeA k.subj st.sub o).2).1 }
        (subscribeB k.subj Z.sub o (subscribeA k.subj st.sub o).2).2 hf.1 ⟨hf.2.2.2, hf.2.2.1⟩ hf.2.1
      exact ⟨⟨by simp [hu.1], fun _ => ⟨hu.2.1, hu.2.2.1⟩, hu.2.2.2⟩, hu.1⟩
    | unsubscribe o =>
      have : unsubscribeN k.subj st.sub o = (st.sub, none) := by
        unfold unsubscribeN; simp [hi.2.2.1 o]
      simp only [ConnM.step, hk, ↓reduceIte, this, isSubscribe, Bool.or_false]
      unfold onUnsubscribe; simp only [reduceCtorEq, ↓reduceIte]
      exact ⟨h, hc⟩
    | connect => simp only [ConnM.step, hk, ↓reduceIte, isSubscribe, Bool.or_false]; exact ⟨h, hc⟩
    | disconnect => simp only [ConnM.step, hk, ↓reduceIte, isSubscribe, Bool.or_false]; exact ⟨h, hc⟩
    | srcNext v =>
      cases src with
      | cold script => simp only [ConnM.step, isSubscribe, Bool.or_false]; exact ⟨h, hc⟩
      | hot => simp only [ConnM.step, hotEmit, hi.1, List.length_nil, List.range_zero, List.foldl_nil, isSubscribe, Bool.or_false]; exact ⟨h, hc⟩
    | srcError e =>
      cases src with
      | cold script => simp only [ConnM.step, isSubscribe, Bool.or_false]; exact ⟨h, hc⟩
      | hot => simp only [ConnM.step, hotEmit, hi.1, List.length_nil, List.range_zero, List.foldl_nil, isSubscribe, Bool.or_false]; exact ⟨h, hc⟩
    | srcComplete =>
      cases src with
      | cold script => simp only [ConnM.step, isSubscribe, Bool.or_false]; exact ⟨h, hc⟩
      | hot => simp only [ConnM.step, hotEmit, hi.1, List.length_nil, List.range_zero, List.foldl_nil, isSubscribe, Bool.or_false]; exact ⟨h, hc⟩

theorem rc_runFrom {k : Kind} (hk : k.counts = true) (src : Src) {st : State} (h : RC st) (cs : List Call) :
    RC (runFrom k src st cs) ∧ (runFrom k src st cs).connecting = (st.connecting || cs.any isSubscribe) := by
  induction cs generalizing st with
  | nil => simpa [runFrom] using h
  | cons c cs ih =>
    have h1 := h.step hk src c
    have h2 := ih h1.1
    refine ⟨h2.1, ?_⟩
    show (runFrom k src (step k src st c) cs).connecting = _
    rw [h2.2, h1.2]; simp [Bool.or_assoc]

theorem rc_run {k : Kind} (hk : k.counts = true) (src : Src) (cs : List Call) :
    RC (run k src cs) ∧ (run k src cs).connecting = cs.any isSubscribe := by
  simpa [run, init] using rc_runFrom hk src rc_init cs

/-- **C13 `ref_count_first_last`, first half, and `at_most_one_source_subscription` in its strong form**:
    ref_count / replay have subscribed their source exactly once if any `subscribe` call was made so far, and
    not at all otherwise — the first arrival subscribes the source, nothing ever subscribes it again
    (`connecting` is never reset). -/
theorem ref_count_subscribes_once {k : Kind} (hk : k.counts = true) (src : Src) (cs : List Call) :
    sourceSubscriptions (run k src cs) = if cs.any isSubscribe then 1 else 0 := by
  have h := rc_run hk src cs
  unfold sourceSubscriptions
  cases hc : cs.any isSubscribe with
  | true => simp [(h.1.busy (by rw [h.2, hc])).1]
  | false => simp [(h.1.idle (by rw [h.2, hc])).1]

/-- **C13 `at_most_one_source_subscription`** -/
theorem at_most_one_source_subscription {k : Kind} (hk : k.counts = true) (src : Src) (cs : List Call) :
    sourceSubscriptions (run k src cs) ≤ 1 := by
  rw [ref_count_subscribes_once hk src cs]; split <;> simp

/-- `cancelled` stays false for passive subscribers -/
theorem never_cancelled {k : Kind} (hk : k.counts = true) (src : Src) (cs : List Call) :
    (run k src cs).cancelled = false := (rc_run hk src cs).1.notCancelled

/-- consequence (ReactiveX's refCount re-subscribes here; this one does not): after the count fell to 0 the
    source is gone for good — subscriber 1 below arrives, the hot source emits, 1 gets nothing. -/
theorem ref_count_never_reconnects :
    let st := run .refCount .hot [.subscribe 0, .unsubscribe 0, .subscribe 1, .srcNext (.int 5)]
    sourceSubscriptions st = 1 ∧ sourceLive st = false ∧ present st 1 ∧ logOf st 1 = [] := by
  refine ⟨by decide, by decide, ⟨by decide, by decide⟩, by decide⟩

example : sourceSubscriptions (run .replay (.cold [.next (.int 1)]) [.srcNext (.int 9), .subscribe 0, .subscribe 1, .unsubscribe 0, .unsubscribe 1, .subscribe 2]) = 1 := by
  decide


/-! ## C13 `same_items_for_present` -/

/-- subject-level presence: in the map and still subscribed -/
def Pres (s : SubjM.State) (o : Nat) : Prop := o ∈ registered s ∧ (s.obs o).alive = true

/-- two used ids that are both present or both absent, whose logs grew by the same events since a base point -/
structure Twin (k : SubjM.Kind) (l1 l2 : List Ev) (o1 o2 : Nat) (s : SubjM.State) : Prop where
  base : Base k s
  seen1 : (s.obs o1).seen = true
  seen2 : (s.obs o2).seen = true
  sync : Pres s o1 ↔ Pres s o2
  delta : ∃ d, SubjM.logOf s o1 = l1 ++ d ∧ SubjM.logOf s o2 = l2 ++ d

theorem emit_pres_iff {k s} (hk : k.isAsync = false) (h : Base k s) (ev : Ev) (o : Nat) :
    Pres (emit k s ev) o ↔ (Pres s o ∧ ev.isTerminal = false) := by
  unfold Pres
  rw [SubjM.emit_registered, SubjM.emit_obs h.inv]
  cases ht : ev.isTerminal with
  | true => simp
  | false =>
    simp only [Bool.false_eq_true, ↓reduceIte, and_true]
    constructor
    · rintro ⟨hr, ha⟩
      rw [if_pos hr, SubjM.recvK_alive k hk, ht] at ha
      refine ⟨hr, ?_⟩
      split at ha <;> simpa using ha
    · rintro ⟨hr, ha⟩
      refine ⟨hr, ?_⟩
      rw [if_pos hr, SubjM.recvK_alive k hk, ht]; split <;> simp [ha]

theorem Twin.emit {k l1 l2 o1 o2 s} (hk : k.isAsync = false) (h : Twin k l1 l2 o1 o2 s) (ev : Ev) :
    Twin k l1 l2 o1 o2 (emit k s ev) := by
  refine ⟨h.base.emit hk ev, by rw [emit_seen]; exact h.seen1, by rw [emit_seen]; exact h.seen2, ?_, ?_⟩
  · rw [emit_pres_iff hk h.base, emit_pres_iff hk h.base, h.sync]
  · obtain ⟨d, hd1, hd2⟩ := h.delta
    have e1 := SubjM.emit_log h.base.inv hk ev o1
    have e2 := SubjM.emit_log h.base.inv hk ev o2
    by_cases hp : Pres s o1
    · have hp2 := h.sync.1 hp
      refine ⟨d ++ [ev], ?_, ?_⟩
      · rw [e1, if_pos (show o1 ∈ registered s ∧ SubjM.aliveOf s o1 = true from hp), hd1, List.append_assoc]
      · rw [e2, if_pos (show o2 ∈ registered s ∧ SubjM.aliveOf s o2 = true from hp2), hd2, List.append_assoc]
    · have hp2 : ¬ Pres s o2 := fun hh => hp (h.sync.2 hh)
      refine ⟨d, ?_, ?_⟩
      · rw [e1, if_neg (show ¬(o1 ∈ registered s ∧ SubjM.aliveOf s o1 = true) from hp), hd1]
      · rw [e2, if_neg (show ¬(o2 ∈ registered s ∧ SubjM.aliveOf s o2 = true) from hp2), hd2]

theorem subscribeA_fresh_unseen (k : SubjM.Kind) (s : SubjM.State) (o : Nat)
    (hf : (subscribeA k s o).2.fresh = true) : (s.obs o).seen = false := by
  cases hs : (s.obs o).seen with
  | false => rfl
  | true => rw [SubjM.subscribeA_seen k s o hs] at hf; simp at hf

theorem subscribeA_pres_other (k : SubjM.Kind) (s : SubjM.State) (o o' : Nat) (hne : o' ≠ o) :
    Pres (subscribeA k s o).1 o' ↔ Pres s o' := by
  unfold Pres
  rw [SubjM.subscribeA_obs_other _ _ _ _ hne, SubjM.subscribeA_registered]
  split <;> simp [hne]

theorem Twin.subscribeA {k l1 l2 o1 o2 s} (h : Twin k l1 l2 o1 o2 s) (o : Nat) :
    Twin k l1 l2 o1 o2 (subscribeA k s o).1 := by
  cases hs : (s.obs o).seen with
  | true => rw [SubjM.subscribeA_seen k s o hs]; exact h
  | false =>
    have n1 : o1 ≠ o := by rintro rfl; rw [h.seen1] at hs; simp at hs
    have n2 : o2 ≠ o := by rintro rfl; rw [h.seen2] at hs; simp at hs
    refine ⟨h.base.subscribeA o, ?_, ?_, ?_, ?_⟩
    · rw [SubjM.subscribeA_obs_other _ _ _ _ n1]; exact h.seen1
    · rw [SubjM.subscribeA_obs_other _ _ _ _ n2]; exact h.seen2
    · rw [subscribeA_pres_other _ _ _ _ n1, subscribeA_pres_other _ _ _ _ n2]; exact h.sync
    · simp only [SubjM.logOf, SubjM.subscribeA_obs_other _ _ _ _ n1, SubjM.subscribeA_obs_other _ _ _ _ n2]
      exact h.delta

theorem Twin.subscribeB_other {k l1 l2 o1 o2 s} (h : Twin k l1 l2 o1 o2 s) (o : Nat) (p : Pending)
    (hf : p.fresh = true → (s.obs o).seen = true) (n1 : o1 ≠ o) (n2 : o2 ≠ o) :
    Twin k l1 l2 o1 o2 (subscribeB k s o p).1 := by
  have hreg : ∀ o', o' ≠ o → (o' ∈ registered (subscribeB k s o p).1 ↔ o' ∈ registered s) := fun o' hne =>
    ⟨SubjM.subscribeB_sub k s o o' p, SubjM.subscribeB_mem_other h.base.inv o o' p hf hne⟩
  refine ⟨h.base.subscribeB o p hf, ?_, ?_, ?_, ?_⟩
  · rw [SubjM.subscribeB_obs_other _ _ _ _ _ n1]; exact h.seen1
  · rw [SubjM.subscribeB_obs_other _ _ _ _ _ n2]; exact h.seen2
  · unfold Pres
    rw [hreg o1 n1, hreg o2 n2, SubjM.subscribeB_obs_other _ _ _ _ _ n1, SubjM.subscribeB_obs_other _ _ _ _ _ n2]
    exact h.sync
  · simp only [SubjM.logOf, SubjM.subscribeB_obs_other _ _ _ _ _ n1, SubjM.subscribeB_obs_other _ _ _ _ _ n2]
    exact h.delta

theorem subscribeB_not_fresh (k : SubjM.Kind) (s : SubjM.State) (o : Nat) (p : Pending) (hp : p.fresh = false) :
    (subscribeB k s o p).1 = s := by
  rw [SubjM.subscribeB_noop k s o p (by simp [hp])]

/-- one call: two observers that are both present when it is made get the same events out of it -/
theorem same_items_step (k : Kind) (src : Src) (st : State) (c : Call) (o1 o2 : Nat)
    (hb : Base k.subj st.sub) (h1 : present st o1) (h2 : present st o2) :
    ∃ d, logOf (step k src st c) o1 = logOf st o1 ++ d ∧ logOf (step k src st c) o2 = logOf st o2 ++ d := by
  have hk := k.subj_not_async
  have hs1 := hb.inv.regSeen o1 h1.1
  have hs2 := hb.inv.regSeen o2 h2.1
  have ht : Twin k.subj (logOf st o1) (logOf st o2) o1 o2 st.sub :=
    ⟨hb, hs1, hs2, by unfold Pres; exact ⟨fun _ => h2, fun _ => h1⟩, ⟨[], by simp [logOf], by simp [logOf]⟩⟩
  by_cases hu : ∃ o, c = .unsubscribe o
  · obtain ⟨o, rfl⟩ := hu
    refine ⟨[], ?_, ?_⟩ <;>
    · simp only [step, logOf, List.append_nil]
      split
      · rw [onUnsubscribe_sub]; exact SubjM.unsubscribe_log k.subj st.sub o _
      · exact SubjM.unsubscribe_log k.subj st.sub o _
  · have hE : ∀ s ev, Twin k.subj (logOf st o1) (logOf st o2) o1 o2 s →
        Twin k.subj (logOf st o1) (logOf st o2) o1 o2 (emit k.subj s ev) := fun s ev h => h.emit hk ev
    have : Twin k.subj (logOf st o1) (logOf st o2) o1 o2 (step k src st c).sub := by
      by_cases hsb : ∃ o, c = .subscribe o
      · obtain ⟨o, rfl⟩ := hsb
        refine step_pres_sub src hE st o (fun s h => h.subscribeA o) ?_ ?_ ?_ ht
        · intro s s' hs hs' hf hseen
          have hun := subscribeA_fresh_unseen k.subj s o hf
          have n1 : o1 ≠ o := by rintro rfl; rw [hs.seen1] at hun; simp at hun
          have n2 : o2 ≠ o := by rintro rfl; rw [hs.seen2] at hun; simp at hun
          exact hs'.subscribeB_other o _ (fun _ => hseen) n1 n2
        · intro s' p hs' hp; rw [subscribeB_not_fresh _ _ _ _ hp]; exact hs'
        · intro s ev _ hseen; rw [emit_seen]; exact hseen
      · exact step_pres_src src hE st c (fun o hc => hsb ⟨o, hc⟩) (fun o hc => hu ⟨o, hc⟩) ht
    exact this.delta

/-- **C13 `same_items_for_present`**: take any reachable state of publish / ref_count / replay (hot or cold
    source) and any further calls `seg`; two observers that are present (in the map, still subscribed) before
    each call of `seg` receive exactly the same events, in the same order, during `seg`. -/
theorem same_items_for_present (k : Kind) (src : Src) (cs seg : List Call) (o1 o2 : Nat)
    (hp : ∀ n, n < seg.length →
      present (runFrom k src (run k src cs) (seg.take n)) o1 ∧ present (runFrom k src (run k src cs) (seg.take n)) o2) :
    ∃ d, logOf (runFrom k src (run k src cs) seg) o1 = logOf (run k src cs) o1 ++ d ∧
         logOf (runFrom k src (run k src cs) seg) o2 = logOf (run k src cs) o2 ++ d := by
  have hb := base_run k src cs
  generalize run k src cs = st at hb hp
  induction seg generalizing st with
  | nil => exact ⟨[], by simp [runFrom], by simp [runFrom]⟩
  | cons c rest ih =>
    have h0 := hp 0 (by simp)
    simp only [List.take_zero, runFrom, List.foldl_nil] at h0
    obtain ⟨d1, e1, e2⟩ := same_items_step k src st c o1 o2 hb h0.1 h0.2
    obtain ⟨d2, f1, f2⟩ := ih (step k src st c) (hb.step src c) (by
      intro n hn
      have := hp (n + 1) (by simp; omega)
      simpa [runFrom] using this)
    refine ⟨d1 ++ d2, ?_, ?_⟩
    · show logOf (runFrom k src (step k src st c) rest) o1 = _
      rw [f1, e1, List.append_assoc]
    · show logOf (runFrom k src (step k src st c) rest) o2 = _
      rw [f2, e2, List.append_assoc]

/-- non-vacuity: 0 and 1 are present before each of the three calls and both get `n2 n2 n3 n3` (two live
    connections duplicate every item, for both alike) -/
example :
    let st := run .publish .hot [.subscribe 0, .connect, .srcNext (.int 1), .subscribe 1, .connect]
    let seg : List Call := [.srcNext (.int 2), .subscribe 2, .srcNext (.int 3)]
    (∀ n, n < seg.length → present (runFrom .publish .hot st (seg.take n)) 0 ∧ present (runFrom .publish .hot st (seg.take n)) 1) ∧
    logOf (runFrom .publish .hot st seg) 0 = logOf st 0 ++ [.next (.int 2), .next (.int 2), .next (.int 3), .next (.int 3)] ∧
    logOf (runFrom .publish .hot st seg) 1 = logOf st 1 ++ [.next (.int 2), .next (.int 2), .next (.int 3), .next (.int 3)] := by
  refine ⟨?_, by decide, by decide⟩
  intro n hn
  have : n = 0 ∨ n = 1 ∨ n = 2 := by simp at hn; omega
  rcases this with rfl | rfl | rfl <;> exact ⟨⟨by decide, by decide⟩, ⟨by decide, by decide⟩⟩


/-! ## ref_count / replay: the source lives only while somebody is subscribed; replay hands out the whole history -/

/-- the terminal the inner ReplaySubject has stored (always `[]` for the plain Subject of ref_count) -/
def stored (s : SubjM.State) : List Ev := SubjM.storedTerminal s.wasError s.wasCompleted

def itemsOf : List Ev → List Data
  | [] => []
  | .next v :: l => v :: itemsOf l
  | .error _ :: l => itemsOf l
  | .complete :: l => itemsOf l

theorem itemsOf_append (a b : List Ev) : itemsOf (a ++ b) = itemsOf a ++ itemsOf b := by
  induction a with
  | nil => rfl
  | cons e a ih => cases e <;> simp [itemsOf, ih]

theorem itemsOf_map_next (l : List Data) : itemsOf (l.map .next) = l := by
  induction l with
  | nil => rfl
  | cons x l ih => simp [itemsOf, ih]

theorem itemsOf_terminal (ev : Ev) (h : ev.isTerminal = true) : itemsOf [ev] = [] := by
  cases ev <;> simp_all [itemsOf, Ev.isTerminal]

theorem itemsOf_stored (s : SubjM.State) : itemsOf (stored s) = [] := by
  unfold stored SubjM.storedTerminal
  cases s.wasError with
  | some e => rfl
  | none => cases s.wasCompleted <;> rfl

theorem nonTerminal_stored (s : SubjM.State) (h : stored s ≠ []) : SubjM.nonTerminal (stored s) = false := by
  unfold stored SubjM.storedTerminal at *
  cases hwe : s.wasError with
  | some e => simp [SubjM.nonTerminal, Ev.isTerminal]
  | none => cases hwc : s.wasCompleted <;> simp_all [SubjM.nonTerminal, Ev.isTerminal]

/-- replay: every log is the recorded history, up to where its subscriber left -/
structure Hist (st : State) : Prop where
  aliveAll : ∀ (o : Nat), (st.sub.obs o).alive = true → (st.sub.obs o).log = st.sub.items.map .next
  doneAll : ∀ (o : Nat), SubjM.nonTerminal (st.sub.obs o).log = false →
    itemsOf (st.sub.obs o).log = st.sub.items ∧ stored st.sub ≠ []
  pre : ∀ (o : Nat), itemsOf (st.sub.obs o).log <+: st.sub.items
  emitted : st.sub.items = st.emitted

/-- what holds between any two callbacks of ref_count / replay -/
structure Core (k : Kind) (st : State) : Prop where
  base : Base k.subj st.sub
  one : st.conns.length ≤ 1
  liveReg : sourceLive st = true → registered st.sub ≠ []
  liveNoTerm : sourceLive st = true → stored st.sub = []
  regAliveOr : ∀ (o : Nat), o ∈ registered st.sub → (st.sub.obs o).alive = true ∨ stored st.sub ≠ []
  hist : k = .replay → Hist st

theorem conns_cases {conns : List Bool} {i : Nat} (h : conns.length ≤ 1) (hi : conns[i]? = some true) :
    conns = [true] ∧ i = 0 := by
  match conns, h with
  | [], _ => simp at hi
  | [b], _ =>
    cases i with
    | zero => simp at hi; simp [hi]
    | succ n => simp at hi

theorem emit_stored_next (k : SubjM.Kind) (s : SubjM.State) (v : Data) : stored (emit k s (.next v)) = stored s := by
  cases k <;> rfl

theorem emit_stored_plain (s : SubjM.State) (ev : Ev) : stored (emit .plain s ev) = stored s := by
  cases ev <;> rfl

theorem emit_stored_replay_terminal (s : SubjM.State) (ev : Ev) (h : ev.isTerminal = true) :
    stored (emit .replay s ev) ≠ [] := by
  cases ev with
  | next v => simp [Ev.isTerminal] at h
  | error e => simp [stored, emit, SubjM.newWasError, SubjM.storedTerminal]
  | complete =>
    simp only [stored, emit, SubjM.newWasError, SubjM.newWasCompleted, SubjM.storedTerminal]
    cases s.wasError <;> simp

theorem emit_items_replay (s : SubjM.State) (ev : Ev) :
    (emit .replay s ev).items = match ev with
      | .next v => s.items ++ [v]
      | _ => s.items := by
  cases ev <;> rfl

theorem counts_subj (k : Kind) (hk : k.counts = true) : k.subj = .plain ∧ k = .refCount ∨ k.subj = .replay ∧ k = .replay := by
  cases k <;> simp_all [Kind.counts, Kind.subj]

theorem emit_log' {k s} (h : Inv k s) (hk : k.isAsync = false) (ev : Ev) (o : Nat) :
    ((emit k s ev).obs o).log =
      if o ∈ registered s ∧ (s.obs o).alive = true then (s.obs o).log ++ [ev] else (s.obs o).log :=
  SubjM.emit_log h hk ev o

/-- one callback of the (only) source observer -/
theorem Core.connRecv {k : Kind} (hk : k.counts = true) {st : State} (h : Core k st) (i : Nat) (ev : Ev) :
    Core k (connRecv k st i ev) := by
  unfold ConnM.connRecv
  split
  · rename_i hi
    obtain ⟨hc, rfl⟩ := conns_cases h.one hi
    have hlive : sourceLive st = true := by simp [sourceLive, hc]
    have hka := k.subj_not_async
    have hobs := SubjM.emit_obs h.base.inv ev
    have hlog := emit_log' h.base.inv hka ev
    cases ht : ev.isTerminal with
    | true =>
      have hdead : ∀ (s' : SubjM.State) (em : List Data),
          sourceLive { st with conns := st.conns.set 0 false, sub := s', emitted := em } = false := by
        intro s' em; simp [sourceLive, hc]
      have hallDead : ∀ o, ((emit k.subj st.sub ev).obs o).alive = false := by
        intro o
        cases ha : ((emit k.subj st.sub ev).obs o).alive with
        | false => rfl
        | true =>
          have := (h.base.emit hka ev).aliveReg o ha
          rw [SubjM.emit_registered, ht] at this; simp at this
      refine ⟨h.base.emit hka ev, by simp [hc], ?_, ?_, ?_, ?_⟩
      · simp only [↓reduceIte]; intro hh; rw [hdead] at hh; simp at hh
      · simp only [↓reduceIte]; intro hh; rw [hdead] at hh; simp at hh
      · intro o ho; simp only [SubjM.emit_registered, ht, ↓reduceIte] at ho; simp at ho
      · rintro rfl
        have hh := h.hist rfl
        have hst0 := h.liveNoTerm hlive
        refine ⟨?_, ?_, ?_, ?_⟩
        · intro o ha; rw [hallDead o] at ha; simp at ha
        · intro o hnt
          have hl := hlog o
          simp only at hnt
          rw [hl] at hnt ⊢
          have hit : (emit Kind.replay.subj st.sub ev).items = st.sub.items := by
            cases ev <;> simp_all [Ev.isTerminal, Kind.subj, emit, SubjM.newItems]
          by_cases hp : o ∈ registered st.sub ∧ (st.sub.obs o).alive = true
          · rw [if_pos hp]
            refine ⟨?_, emit_stored_replay_terminal _ _ ht⟩
            rw [hh.aliveAll o hp.2, itemsOf_append, itemsOf_map_next, itemsOf_terminal ev ht, hit]; simp
          · rw [if_neg hp] at hnt
            have := (hh.doneAll o hnt).2
            rw [hst0] at this; exact absurd rfl this
        · intro o
          have hl := hlog o
          have hit : (emit Kind.replay.subj st.sub ev).items = st.sub.items := by
            cases ev <;> simp_all [Ev.isTerminal, Kind.subj, emit, SubjM.newItems]
          simp only; rw [hl, hit]
          split
          · rw [itemsOf_append, itemsOf_terminal ev ht, List.append_nil]; exact hh.pre o
          · exact hh.pre o
        · have hit : (emit Kind.replay.subj st.sub ev).items = st.sub.items := by
            cases ev <;> simp_all [Ev.isTerminal, Kind.subj, emit, SubjM.newItems]
          simp only [hit]
          cases ev <;> simp_all [Ev.isTerminal, hh.emitted, accept]
    | false =>
      obtain ⟨v, rfl⟩ : ∃ v, ev = .next v := by
        cases ev <;> simp_all [Ev.isTerminal]
      have hreg : registered (emit k.subj st.sub (.next v)) = registered st.sub := by
        simp [SubjM.emit_registered, Ev.isTerminal]
      refine ⟨h.base.emit hka _, by simpa [Ev.isTerminal] using h.one, ?_, ?_, ?_, ?_⟩
      · intro _; simp only [hreg]; exact h.liveReg hlive
      · intro _; simp only [emit_stored_next]; exact h.liveNoTerm hlive
      · intro o ho
        simp only [hreg] at ho
        simp only [emit_stored_next, hobs, if_pos ho, SubjM.recvK_alive_next]
        exact h.regAliveOr o ho
      · rintro rfl
        have hh := h.hist rfl
        have hst0 := h.liveNoTerm hlive
        have hit : (emit Kind.replay.subj st.sub (.next v)).items = st.sub.items ++ [v] := rfl
        refine ⟨?_, ?_, ?_, ?_⟩
        · intro o ha
          simp only at ha ⊢
          have hreg' := (h.base.emit hka (.next v)).aliveReg o ha
          rw [hreg] at hreg'
          rw [hobs, if_pos hreg', SubjM.recvK_alive_next] at ha
          have hl := hlog o
          rw [hl, if_pos ⟨hreg', ha⟩, hh.aliveAll o ha, hit]; simp
        · intro o hnt
          have hl := hlog o
          simp only at hnt
          rw [hl] at hnt
          have : SubjM.nonTerminal (st.sub.obs o).log = false := by
            split at hnt
            · rw [SubjM.nonTerminal_append] at hnt; simpa [SubjM.nonTerminal, Ev.isTerminal] using hnt
            · exact hnt
          have := (hh.doneAll o this).2
          rw [hst0] at this; exact absurd rfl this
        · intro o
          have hl := hlog o
          simp only; rw [hl, hit]
          split
          · rename_i hp
            rw [hh.aliveAll o hp.2, itemsOf_append, itemsOf_map_next]; simp [itemsOf]
          · exact (hh.pre o).trans (List.prefix_append _ _)
        · simp only [hit, hh.emitted, accept]
  · exact h


theorem Core.congr {k : Kind} {st st' : State} (h : Core k st) (h1 : st'.sub = st.sub) (h2 : st'.conns = st.conns)
    (h3 : st'.emitted = st.emitted) : Core k st' := by
  obtain ⟨a, b, c, d, e, f⟩ := h
  refine ⟨by rw [h1]; exact a, by rw [h2]; exact b, ?_, ?_, by rw [h1]; exact e, ?_⟩
  · unfold sourceLive at *; rw [h1, h2]; exact c
  · unfold sourceLive at *; rw [h1, h2]; exact d
  · intro hk; obtain ⟨f1, f2, f3, f4⟩ := f hk
    exact ⟨by rw [h1]; exact f1, by rw [h1]; exact f2, by rw [h1]; exact f3, by rw [h1, h3]; exact f4⟩

theorem Core.foldEv {k : Kind} (hk : k.counts = true) (i : Nat) (evs : List Ev) {st : State} (h : Core k st) :
    Core k (evs.foldl (fun s ev => ConnM.connRecv k s i ev) st) := by
  induction evs generalizing st with
  | nil => exact h
  | cons ev evs ih => exact ih (h.connRecv hk i ev)

theorem Core.foldIdx {k : Kind} (hk : k.counts = true) (ev : Ev) (is : List Nat) {st : State} (h : Core k st) :
    Core k (is.foldl (fun s i => ConnM.connRecv k s i ev) st) := by
  induction is generalizing st with
  | nil => exact h
  | cons i is ih => exact ih (h.connRecv hk i ev)

theorem Core.hotEmit {k : Kind} (hk : k.counts = true) {st : State} (h : Core k st) (ev : Ev) :
    Core k (ConnM.hotEmit k st ev) := h.foldIdx hk ev _

/-- a subscriber that is still subscribed has not been shown a stored terminal -/
def AliveNoTerm (s : SubjM.State) : Prop := ∀ (o : Nat), (s.obs o).alive = true → stored s = []

theorem AliveNoTerm.emit {k : SubjM.Kind} (hk : k.isAsync = false) {s : SubjM.State} (hb : Base k s)
    (h : AliveNoTerm s) (ev : Ev) : AliveNoTerm (emit k s ev) := by
  intro o ha
  have hreg := (hb.emit hk ev).aliveReg o ha
  rw [SubjM.emit_registered] at hreg
  cases ev with
  | next v =>
    simp [Ev.isTerminal] at hreg
    rw [SubjM.emit_obs hb.inv, if_pos hreg, SubjM.recvK_alive_next] at ha
    rw [emit_stored_next]; exact h o ha
  | error e => simp [Ev.isTerminal] at hreg
  | complete => simp [Ev.isTerminal] at hreg

/-- `subscribe` on the subject up to `*sbsc.write() = Some(live)` (before the reaping) -/
def stepH (k : SubjM.Kind) (s : SubjM.State) (o : Nat) : SubjM.State :=
  subscribeH k (subscribeA k s o).1 o (subscribeA k s o).2

theorem stepH_seen (k : SubjM.Kind) (s : SubjM.State) (o : Nat) (hs : (s.obs o).seen = true) : stepH k s o = s := by
  unfold stepH; rw [SubjM.subscribeA_seen k s o hs]; exact SubjM.subscribeH_not_fresh k s o {} rfl

theorem stepH_other (k : SubjM.Kind) (s : SubjM.State) (o o' : Nat) (hne : o' ≠ o) :
    (stepH k s o).obs o' = s.obs o' := by
  unfold stepH; rw [SubjM.subscribeH_obs_other _ _ _ _ _ hne, SubjM.subscribeA_obs_other _ _ _ _ hne]

/-- the whole subject-level `subscribe` is `stepH` followed by the reaping -/
theorem step_eq_reap (k : SubjM.Kind) (s : SubjM.State) (o : Nat) :
    SubjM.step k s (.subscribe o) =
      if k.isReplay && (subscribeA k s o).2.fresh then (reap (stepH k s o) o).1 else stepH k s o := by
  simp only [SubjM.step, SubjM.subscribeB_fst, stepH]

/-- what `subscribe o` does to the inner ReplaySubject for an unused id (no source activity in between) -/
theorem replay_subscribe_fresh (s : SubjM.State) (o : Nat) (hu : (s.obs o).seen = false) :
    ((stepH .replay s o).obs o).log = s.items.map .next ++ stored s ∧
    ((stepH .replay s o).obs o).alive = (stored s).isEmpty ∧
    registered (stepH .replay s o) = registered s ++ [o] := by
  have hstep : stepH .replay s o =
      { SubjM.register s o { seen := true, alive := true, hook := true, inAlive := true } with
        obs := SubjM.upd (SubjM.register s o { seen := true, alive := true, hook := true, inAlive := true }).obs o
          { (SubjM.handOver { seen := true, alive := true, hook := true, inAlive := true, inHook := some (s.serial + 1) }
              s.items s.wasError s.wasCompleted) with armed := true } } := by
    simp [stepH, subscribeA, subscribeH, hu, SubjM.register_obs]
    rfl
  have hho := SubjM.handOver_alive { seen := true, alive := true, hook := true, inAlive := true, inHook := some (s.serial + 1) }
    s.items s.wasError s.wasCompleted rfl
  rw [hstep]
  refine ⟨by simp [hho.1, stored], by simp [hho.2, stored], by simp [registered, SubjM.register]⟩

theorem step_subscribe_mem (k : SubjM.Kind) (s : SubjM.State) (o : Nat) :
    (stepH k s o).items = s.items ∧ stored (stepH k s o) = stored s := by
  have := (SubjM.subscribeH_mem k (subscribeA k s o).1 o (subscribeA k s o).2).trans (SubjM.subscribeA_mem k s o)
  unfold stepH
  simp only [SubjM.mem, Prod.mk.injEq] at this
  exact ⟨this.2.2.1, by unfold stored; rw [this.2.2.2.1, this.2.2.2.2]⟩

theorem step_subscribe_registered (k : Kind) (s : SubjM.State) (o : Nat) (hu : (s.obs o).seen = false) :
    registered (stepH k.subj s o) = registered s ++ [o] := by
  simp only [stepH, registered, SubjM.subscribeH_observers]
  have := SubjM.subscribeA_registered k.subj s o
  simp only [registered] at this
  rw [this]
  cases k <;> simp [subscribeA, Kind.subj, hu]

theorem base_step_subscribe {k : SubjM.Kind} {s : SubjM.State} (h : Base k s) (o : Nat) :
    Base k (stepH k s o) :=
  (h.subscribeA o).subscribeH o _ (SubjM.subscribeA_fresh_seen k s o)

/-- `subscribe` while the source subscription already exists (`connecting` set), up to the stored `sbsc` -/
theorem Core.subscribeLate {k : Kind} (hk : k.counts = true) {st : State} (h : Core k st) (o : Nat) :
    Core k { st with sub := stepH k.subj st.sub o } := by
  cases hs : (st.sub.obs o).seen with
  | true => rw [stepH_seen _ _ _ hs]; exact h
  | false =>
    have hreg := step_subscribe_registered k st.sub o hs
    have hmem := step_subscribe_mem k.subj st.sub o
    have hoth : ∀ o', o' ≠ o → (stepH k.subj st.sub o).obs o' = st.sub.obs o' :=
      fun o' hne => stepH_other k.subj st.sub o o' hne
    refine ⟨base_step_subscribe h.base o, h.one, ?_, ?_, ?_, ?_⟩
    · intro _; simp only [hreg]; simp
    · intro hl; simp only [hmem.2]; exact h.liveNoTerm hl
    · intro o' ho'
      simp only [hreg, List.mem_append, List.mem_singleton] at ho'
      simp only [hmem.2]
      by_cases hne : o' = o
      · subst hne
        rcases counts_subj k hk with ⟨hp, _⟩ | ⟨hr, _⟩
        · left
          have := (base_step_subscribe h.base o').inv.regAlive o' (by rw [hreg]; simp) (by rw [hp]; rfl)
          exact this
        · have hf := replay_subscribe_fresh st.sub o' hs
          rw [hr]
          cases hst : stored st.sub with
          | nil => left; rw [hf.2.1, hst]; rfl
          | cons t ts => right; simp
      · simp only [hoth o' hne]
        exact h.regAliveOr o' (by rcases ho' with ho' | ho'; exact ho'; exact absurd ho' hne)
    · rintro rfl
      have hh := h.hist rfl
      have hf := replay_subscribe_fresh st.sub o hs
      simp only [Kind.subj] at hmem hoth hreg ⊢
      refine ⟨?_, ?_, ?_, ?_⟩
      · intro o' ha
        simp only at ha ⊢
        by_cases hne : o' = o
        · subst hne
          rw [hf.2.1] at ha
          rw [hf.1, hmem.1]
          cases hst : stored st.sub with
          | nil => simp
          | cons t ts => rw [hst] at ha; simp at ha
        · rw [hoth o' hne] at ha ⊢; rw [hmem.1]; exact hh.aliveAll o' ha
      · intro o' hnt
        simp only at hnt ⊢
        by_cases hne : o' = o
        · subst hne
          rw [hf.1] at hnt ⊢
          rw [SubjM.nonTerminal_append, SubjM.nonTerminal_map_next, Bool.true_and] at hnt
          have hst : stored st.sub ≠ [] := by
            intro he; rw [he] at hnt; simp [SubjM.nonTerminal] at hnt
          have := step_subscribe_mem .replay st.sub o'
          refine ⟨?_, by rw [this.2]; exact hst⟩
          rw [itemsOf_append, itemsOf_map_next, itemsOf_stored, this.1]; simp
        · rw [hoth o' hne] at hnt ⊢; rw [hmem.1, hmem.2]; exact hh.doneAll o' hnt
      · intro o'
        simp only
        by_cases hne : o' = o
        · subst hne
          rw [hf.1, itemsOf_append, itemsOf_map_next, itemsOf_stored, (step_subscribe_mem .replay st.sub o').1]
          simp
        · rw [hoth o' hne, hmem.1]; exact hh.pre o'
      · simp only [hmem.1]; exact hh.emitted


/-- moving to a subject state with the same map, the same stored fields and, per subscriber, the same log
    and an `alive` flag that can only have gone down -/
theorem Core.transfer {k : Kind} {st st' : State} (h : Core k st) (hb : Base k.subj st'.sub)
    (hobs : st'.sub.observers = st.sub.observers)
    (hitems : st'.sub.items = st.sub.items) (hstored : stored st'.sub = stored st.sub)
    (hlog : ∀ o, (st'.sub.obs o).log = (st.sub.obs o).log)
    (halive : ∀ o, (st'.sub.obs o).alive = (st.sub.obs o).alive)
    (hconns : st'.conns = st.conns) (hem : st'.emitted = st.emitted) : Core k st' := by
  have hreg : registered st'.sub = registered st.sub := by simp [registered, hobs]
  refine ⟨hb, by rw [hconns]; exact h.one, ?_, ?_, ?_, ?_⟩
  · intro hl; rw [hreg]; exact h.liveReg (by simpa [sourceLive, hconns] using hl)
  · intro hl; rw [hstored]; exact h.liveNoTerm (by simpa [sourceLive, hconns] using hl)
  · intro o ho; rw [hreg] at ho; rw [halive, hstored]; exact h.regAliveOr o ho
  · intro hk; obtain ⟨f1, f2, f3, f4⟩ := h.hist hk
    refine ⟨?_, ?_, ?_, by rw [hitems, hem]; exact f4⟩
    · intro o ha; rw [halive] at ha; rw [hlog, hitems]; exact f1 o ha
    · intro o hn; rw [hlog] at hn ⊢; rw [hitems, hstored]; exact f2 o hn
    · intro o; rw [hlog, hitems]; exact f3 o

theorem handOver_nil_noop (r : SubjM.ObsSt) (we : Option Nat) (wc : Bool)
    (h : r.alive = true → SubjM.storedTerminal we wc = []) : SubjM.handOver r [] we wc = r := by
  cases ha : r.alive with
  | false => exact handOver_dead r [] we wc ha
  | true =>
    have := h ha
    unfold SubjM.storedTerminal at this
    cases we with
    | some e => simp at this
    | none =>
      cases wc with
      | true => simp at this
      | false => simp [SubjM.handOver]

/-- the hand-over of the subscriber that made ref_count / replay connect: its history snapshot is empty and it
    has already been shown, live, whatever terminal the cold source produced -/
theorem Core.subscribeH0 {k : Kind} {st : State} (h : Core k st) (hnt : AliveNoTerm st.sub) (o : Nat) (p : Pending)
    (hp : p.history = []) (hf : p.fresh = true → (st.sub.obs o).seen = true) :
    Core k { st with sub := subscribeH k.subj st.sub o p } := by
  have hb := h.base.subscribeH o p hf
  have hobs : ∀ o', ((subscribeH k.subj st.sub o p).obs o').log = (st.sub.obs o').log ∧
      ((subscribeH k.subj st.sub o p).obs o').alive = (st.sub.obs o').alive := by
    intro o'
    by_cases hne : o' = o
    · subst hne
      rcases subscribeH_obs_self k.subj st.sub o' p with h1 | ⟨_, _, h1⟩
      · rw [h1]; exact ⟨rfl, rfl⟩
      · rw [h1, hp, handOver_nil_noop _ _ _ (hnt o')]; exact ⟨rfl, rfl⟩
    · rw [SubjM.subscribeH_obs_other _ _ _ _ _ hne]; exact ⟨rfl, rfl⟩
  have hmem := SubjM.subscribeH_mem k.subj st.sub o p
  simp only [SubjM.mem, Prod.mk.injEq] at hmem
  exact h.transfer hb (SubjM.subscribeH_observers _ _ _ _) hmem.2.2.1
    (by unfold stored; rw [hmem.2.2.2.1, hmem.2.2.2.2]) (fun o' => (hobs o').1) (fun o' => (hobs o').2) rfl rfl

theorem sourceLive_set_false (conns : List Bool) (i : Nat) (h : (conns.set i false).any id = true) :
    conns.any id = true := by
  simp only [List.any_eq_true, id] at *
  obtain ⟨b, hb, rfl⟩ := h
  exact ⟨true, (List.mem_or_eq_of_mem_set hb).resolve_right (by simp), rfl⟩

/-- taking a dead subscriber's forwarder out of the map disturbs nothing the connectable relies on -/
theorem Core.reapSub {k : Kind} {st : State} (h : Core k st) (o : Nat) :
    Core k { st with sub := (reap st.sub o).1 } := by
  have hm := SubjM.reap_mem h.base.inv o
  have hf := reap_fields st.sub o
  refine ⟨h.base.reap o, h.one, ?_, fun hl => h.liveNoTerm hl, ?_, ?_⟩
  · intro hl
    have hne := h.liveReg hl
    have hst := h.liveNoTerm hl
    cases hr : registered st.sub with
    | nil => exact absurd hr hne
    | cons o' rest =>
      have ho' : o' ∈ registered st.sub := by rw [hr]; simp
      have : o' ∈ registered (reap st.sub o).1 := by
        refine (hm o').2 ⟨ho', ?_⟩
        rintro ⟨rfl, hrp⟩
        rcases h.regAliveOr o' ho' with ha | hs
        · unfold SubjM.reaped at hrp; simp [ha] at hrp
        · exact hs hst
      intro he; simp only at he; rw [he] at this; simp at this
  · intro o' ho'
    have := h.regAliveOr o' ((hm o').1 ho').1
    show _ ∨ stored st.sub ≠ []
    simpa only [(hf o').2.1] using this
  · intro hk
    obtain ⟨f1, f2, f3, f4⟩ := h.hist hk
    refine ⟨?_, ?_, ?_, f4⟩
    · intro o' ha; simp only [(hf o').2.1] at ha; simp only [(hf o').2.2.1]; exact f1 o' ha
    · intro o' hn; simp only [(hf o').2.2.1] at hn ⊢; exact f2 o' hn
    · intro o'; simp only [(hf o').2.2.1]; exact f3 o'

theorem Core.killConn {k : Kind} {st : State} (h : Core k st) (i : Nat) :
    Core k { st with conns := st.conns.set i false } := by
  have hl : sourceLive { st with conns := st.conns.set i false } = true → sourceLive st = true :=
    fun hh => sourceLive_set_false st.conns i hh
  exact ⟨h.base, by simpa using h.one, fun hh => h.liveReg (hl hh), fun hh => h.liveNoTerm (hl hh), h.regAliveOr, fun hk =>
    ⟨(h.hist hk).aliveAll, (h.hist hk).doneAll, (h.hist hk).pre, (h.hist hk).emitted⟩⟩

/-- an `on_unsubscribe(len)` call can only take the source subscription down -/
theorem Core.onUnsubscribe {k : Kind} {st : State} (h : Core k st) (n : Option Nat) :
    Core k (ConnM.onUnsubscribe st n) := by
  unfold ConnM.onUnsubscribe
  split
  · cases hs : st.subscription with
    | none => exact h.congr rfl rfl rfl
    | some i => exact (h.killConn i).congr rfl rfl rfl
  · exact h

theorem subscribeA_fresh_counts (k : Kind) (hk : k.counts = true) (s : SubjM.State) (o : Nat)
    (hu : (s.obs o).seen = false) :
    (subscribeA k.subj s o).2.fresh = true ∧ (subscribeA k.subj s o).2.history = (if k = .replay then s.items else []) ∧
    registered (subscribeA k.subj s o).1 = registered s ++ [o] ∧
    ((subscribeA k.subj s o).1.obs o).alive = true ∧ ((subscribeA k.subj s o).1.obs o).log = [] ∧
    ((subscribeA k.subj s o).1.obs o).hook = true := by
  cases k <;> simp_all [Kind.counts, subscribeA, Kind.subj, SubjM.register_registered, SubjM.register_obs]

/-- the state in which the first subscriber's `on_subscribe(1)` starts `source.subscribe` -/
theorem core_first {k : Kind} (hk : k.counts = true) {st : State} (hb : Base k.subj st.sub)
    (hi : st.conns = [] ∧ st.subscription = none ∧ (∀ (o : Nat), (st.sub.obs o).seen = false) ∧ st.sub.observers = [] ∧
      st.sub.items = [] ∧ st.sub.wasError = none ∧ st.sub.wasCompleted = false ∧ st.emitted = [])
    (o : Nat) (st' : State) (h1 : st'.sub = (subscribeA k.subj st.sub o).1) (h2 : st'.conns = [true])
    (h3 : st'.emitted = []) :
    Core k st' ∧ AliveNoTerm st'.sub := by
  have hf := subscribeA_fresh_counts k hk st.sub o (hi.2.2.1 o)
  have hmem := SubjM.subscribeA_mem k.subj st.sub o
  simp only [SubjM.mem, Prod.mk.injEq] at hmem
  have hst : stored st'.sub = [] := by
    rw [h1]; unfold stored; rw [hmem.2.2.2.1, hmem.2.2.2.2, hi.2.2.2.2.2.1, hi.2.2.2.2.2.2.1]; rfl
  have hitems : st'.sub.items = [] := by rw [h1, hmem.2.2.1, hi.2.2.2.2.1]
  have hreg : registered st'.sub = [o] := by rw [h1, hf.2.2.1]; simp [registered, hi.2.2.2.1]
  have hother : ∀ o', o' ≠ o → st'.sub.obs o' = {} := by
    intro o' hne
    rw [h1, SubjM.subscribeA_obs_other _ _ _ _ hne]; exact hb.inv.unseen o' (hi.2.2.1 o')
  have hlogs : ∀ o', (st'.sub.obs o').log = [] := by
    intro o'
    by_cases hne : o' = o
    · subst hne; rw [h1]; exact hf.2.2.2.2.1
    · rw [hother o' hne]
  refine ⟨⟨by rw [h1]; exact hb.subscribeA o, by simp [h2], ?_, fun _ => hst, ?_, ?_⟩, fun _ _ => hst⟩
  · intro _; rw [hreg]; simp
  · intro o' ho'; rw [hreg] at ho'; simp at ho'; subst ho'; left; rw [h1]; exact hf.2.2.2.1
  · intro _
    refine ⟨?_, ?_, ?_, by rw [hitems, h3]⟩
    · intro o' _; rw [hlogs, hitems]; rfl
    · intro o' hn; rw [hlogs] at hn; simp [SubjM.nonTerminal] at hn
    · intro o'; rw [hlogs]; simp [itemsOf]


/-! ### unsubscribe -/

theorem unsub_note (k : SubjM.Kind) (s : SubjM.State) (o : Nat) :
    ((unsubscribeN k s o).2 = none → (unsubscribeN k s o).1.observers = s.observers) ∧
    (∀ n, (unsubscribeN k s o).2 = some n → (unsubscribeN k s o).1.observers.length = n) := by
  unfold unsubscribeN
  cases hs : (s.obs o).seen with
  | false => simp
  | true =>
    simp only [Bool.not_true, Bool.false_eq_true, ↓reduceIte]
    cases hh : (s.obs o).inHook with
    | none => simp
    | some x =>
      cases hr : ((s.obs o).hook && (k.isPlain || (s.obs o).armed)) <;> simp

theorem Core.unsubscribe {k : Kind} (hk : k.counts = true) (src : Src) {st : State} (h : Core k st)
    (ha : Armed k.subj st.sub) (hsub : sourceLive st = true → st.subscription = some 0) (o : Nat) :
    Core k (step k src st (.unsubscribe o)) := by
  have hnote := unsub_note k.subj st.sub o
  have hmem := SubjM.unsubscribeN_mem k.subj st.sub o
  simp only [SubjM.mem, Prod.mk.injEq] at hmem
  have hstored : stored (unsubscribeN k.subj st.sub o).1 = stored st.sub := by
    unfold stored; rw [hmem.2.2.2.1, hmem.2.2.2.2]
  have hobs := SubjM.unsub_obs k.subj st.sub o
  have hlog : ∀ o', ((unsubscribeN k.subj st.sub o).1.obs o').log = (st.sub.obs o').log := by
    intro o'; rw [hobs]; split
    · rename_i hh; rw [hh.1]
    · rfl
  have halive : ∀ o', ((unsubscribeN k.subj st.sub o).1.obs o').alive = true → (st.sub.obs o').alive = true := by
    intro o' h'; rw [hobs] at h'; split at h'
    · simp at h'
    · exact h'
  have hmemreg := SubjM.unsub_mem h.base.inv o
  -- the part that does not depend on the source flags
  have key : ∀ conns', conns'.length ≤ 1 → (conns'.any id = true → sourceLive st = true ∧
        (unsubscribeN k.subj st.sub o).1.observers ≠ []) →
      Core k { st with sub := (unsubscribeN k.subj st.sub o).1, conns := conns' } := by
    intro conns' hlen hlive
    refine ⟨h.base.unsubscribeN o, hlen, ?_, ?_, ?_, ?_⟩
    · intro hl
      have := (hlive hl).2
      simpa [registered] using this
    · intro hl; simp only [hstored]; exact h.liveNoTerm (hlive hl).1
    · intro o' ho'
      have hm := (hmemreg o').1 ho'
      simp only [hstored]
      rcases h.regAliveOr o' hm.1 with hal | hst
      · by_cases hne : o' = o
        · subst hne
          exfalso; apply hm.2
          refine ⟨rfl, ?_⟩
          have := ha o' hm.1
          unfold SubjM.reaches
          simp only [h.base.inv.regSeen o' hm.1, this.1, Bool.true_and, Bool.or_eq_true]; exact this.2
        · left; simp only [hobs]; rw [if_neg (fun hh => hne hh.1)]; exact hal
      · exact Or.inr hst
    · intro hkr
      obtain ⟨f1, f2, f3, f4⟩ := h.hist hkr
      refine ⟨?_, ?_, ?_, by simp only [hmem.2.2.1]; exact f4⟩
      · intro o' hal; simp only [hlog, hmem.2.2.1]; exact f1 o' (halive o' hal)
      · intro o' hn; simp only [hlog] at hn ⊢; simp only [hmem.2.2.1, hstored]; exact f2 o' hn
      · intro o'; simp only [hlog, hmem.2.2.1]; exact f3 o'
  simp only [ConnM.step, hk, ↓reduceIte]
  unfold ConnM.onUnsubscribe
  split
  · rename_i hz
    refine (key (match st.subscription with | some i => st.conns.set i false | none => st.conns) ?_ ?_).congr rfl rfl rfl
    · cases st.subscription <;> simp [h.one]
    · intro hl
      have hlive : sourceLive st = true := by
        cases hsb : st.subscription with
        | none => simpa [hsb, sourceLive] using hl
        | some i => rw [hsb] at hl; exact sourceLive_set_false _ _ hl
      rw [hsub hlive] at hl
      have hc := h.one
      match hcs : st.conns, hc with
      | [], _ => simp [hcs] at hl
      | [b], _ => simp [hcs] at hl
  · rename_i hz
    refine (key st.conns h.one ?_).congr rfl rfl rfl
    intro hl
    refine ⟨hl, ?_⟩
    have hreg := h.liveReg hl
    cases hn : (unsubscribeN k.subj st.sub o).2 with
    | none => rw [hnote.1 hn]; simpa [registered] using hreg
    | some n =>
      have := hnote.2 n hn
      intro he; rw [he] at this; simp at this; rw [hn, ← this] at hz; exact hz rfl

theorem good_emit {k : SubjM.Kind} {s : SubjM.State} (hg : SubjM.Good k s) (ev : Ev) :
    SubjM.Good k (emit k s ev) := by
  cases k with
  | async =>
    have hi := hg.inv.emit ev
    exact ⟨hi, hi.armed_of_not_replay rfl, fun o ho => hi.regAlive o ho rfl⟩
  | plain =>
    cases ev with
    | next v => exact hg.step (.next v)
    | error e => exact hg.step (.error e)
    | complete => exact hg.step .complete
  | behavior i =>
    cases ev with
    | next v => exact hg.step (.next v)
    | error e => exact hg.step (.error e)
    | complete => exact hg.step .complete
  | replay =>
    cases ev with
    | next v => exact hg.step (.next v)
    | error e => exact hg.step (.error e)
    | complete => exact hg.step .complete

/-! ### the first subscriber -/

theorem onSubscribe_first {k : Kind} (hk : k.counts = true) (src : Src) (st1 : State)
    (hc : st1.connecting = false) (hcan : st1.cancelled = false)
    (hcore : ∀ Y : State, Y.sub = st1.sub → Y.conns = st1.conns ++ [true] → Y.emitted = st1.emitted → Core k Y) :
    Core k (onSubscribe k src st1 (some 1)) := by
  have hfl := connectSource_flags k src { st1 with connecting := true }
  have hX : Core k (connectSource k src { st1 with connecting := true }) := by
    unfold connectSource
    cases src with
    | hot => exact hcore _ rfl rfl rfl
    | cold script => exact Core.foldEv hk _ script (hcore _ rfl rfl rfl)
  unfold onSubscribe
  simp only [hc, and_self, ↓reduceIte]
  refine hX.congr rfl ?_ rfl
  rw [if_neg]
  rw [hfl.2.1]; simp [hcan]

/-- the call-level invariant of ref_count / replay -/
structure Full (k : Kind) (st : State) : Prop where
  core : Core k st
  good : SubjM.Good k.subj st.sub
  rc : RC st

theorem full_init (k : Kind) : Full k init := by
  have hb : Base k.subj init.sub := by cases k <;> exact base_init _
  have hg : SubjM.Good k.subj init.sub := by cases k <;> exact SubjM.good_init _
  refine ⟨⟨hb, by simp [init], by simp [sourceLive, init], by simp [sourceLive, init], ?_, ?_⟩, hg, rc_init⟩
  · intro o ho; simp [init, registered] at ho
  · intro _
    exact ⟨by intro o ha; simp [init] at ha, by intro o hn; simp [init, SubjM.nonTerminal] at hn,
      by intro o; simp [init, itemsOf], rfl⟩

/-- `Core` across the subject-level `subscribe` (hand-over and reaping) when no source activity intervenes -/
theorem Core.subscribeSub {k : Kind} (hk : k.counts = true) {st : State} (h : Core k st) (o : Nat) :
    Core k { st with sub := SubjM.step k.subj st.sub (.subscribe o) } := by
  rw [step_eq_reap]
  split
  · exact (h.subscribeLate hk o).reapSub o
  · exact h.subscribeLate hk o

theorem Full.step {k : Kind} (hk : k.counts = true) (src : Src) {st : State} (h : Full k st) (c : Call) :
    Full k (step k src st c) := by
  have hrc := (h.rc.step hk src c).1
  have hka := k.subj_not_async
  have hsubscr : sourceLive st = true → st.subscription = some 0 := by
    intro hl
    cases hc : st.connecting with
    | true => exact (h.rc.busy hc).2
    | false => have := (h.rc.idle hc).1; simp [sourceLive, this] at hl
  cases c with
  | unsubscribe o =>
    refine ⟨h.core.unsubscribe hk src h.good.armed hsubscr o, ?_, hrc⟩
    have : (ConnM.step k src st (.unsubscribe o)).sub = SubjM.step k.subj st.sub (.unsubscribe o) := by
      simp only [ConnM.step, hk, ↓reduceIte, onUnsubscribe_sub]; rfl
    rw [this]
    exact h.good.step _
  | connect => simpa [ConnM.step, hk] using h
  | disconnect => simpa [ConnM.step, hk] using h
  | srcNext v =>
    cases src with
    | cold script => simpa [ConnM.step] using h
    | hot => exact ⟨h.core.hotEmit hk _, hotEmit_pres (P := SubjM.Good k.subj) (fun s ev hs => good_emit hs ev) st _ h.good, hrc⟩
  | srcError e =>
    cases src with
    | cold script => simpa [ConnM.step] using h
    | hot => exact ⟨h.core.hotEmit hk _, hotEmit_pres (P := SubjM.Good k.subj) (fun s ev hs => good_emit hs ev) st _ h.good, hrc⟩
  | srcComplete =>
    cases src with
    | cold script => simpa [ConnM.step] using h
    | hot => exact ⟨h.core.hotEmit hk _, hotEmit_pres (P := SubjM.Good k.subj) (fun s ev hs => good_emit hs ev) st _ h.good, hrc⟩
  | subscribe o =>
    cases hc : st.connecting with
    | true =>
      -- the source subscription exists already: the subject moves, and the reaping may call `on_unsubscribe`
      have hns : onSubscribe k src { st with sub := (subscribeA k.subj st.sub o).1 } (subscribeA k.subj st.sub o).2.len
          = { st with sub := (subscribeA k.subj st.sub o).1 } := by
        unfold onSubscribe; simp [hc]
      have hst : ConnM.step k src st (.subscribe o) =
          onUnsubscribe { st with sub := SubjM.step k.subj st.sub (.subscribe o) }
            (subscribeB k.subj (subscribeA k.subj st.sub o).1 o (subscribeA k.subj st.sub o).2).2 := by
        simp only [ConnM.step, hk, ↓reduceIte, hns]; rfl
      rw [hst] at hrc ⊢
      refine ⟨(h.core.subscribeSub hk o).onUnsubscribe _, ?_, hrc⟩
      rw [onUnsubscribe_sub]
      exact h.good.step (.subscribe o)
    | false =>
      have hi := h.rc.idle hc
      have hu := hi.2.2.1 o
      have hf := subscribeA_fresh_counts k hk st.sub o hu
      have hlen := subscribeA_len_fresh k st.sub o hu
      rw [hi.2.2.2.1] at hlen
      have hhist : (subscribeA k.subj st.sub o).2.history = [] := by
        rw [hf.2.1]; split
        · exact hi.2.2.2.2.1
        · rfl
      -- what holds of the subject while the cold source runs inside `on_subscribe`
      let P : SubjM.State → Prop := fun s =>
        Base k.subj s ∧ AliveNoTerm s ∧ (∀ o', o' ∈ registered s → o' = o) ∧ (s.obs o).hook = true ∧ (s.obs o).seen = true
      have hP : ∀ s ev, P s → P (emit k.subj s ev) := by
        intro s ev ⟨p1, p2, p3, p4, p5⟩
        refine ⟨p1.emit hka ev, p2.emit hka p1 ev, ?_, ?_, by rw [emit_seen]; exact p5⟩
        · intro o' ho'; rw [SubjM.emit_registered] at ho'; split at ho'
          · simp at ho'
          · exact p3 o' ho'
        · rw [SubjM.emit_obs p1.inv]; split
          · rw [SubjM.recvK_hook]; exact p4
          · exact p4
      have hcf := fun Y h1 h2 h3 => core_first hk h.core.base hi o Y h1 h2 h3
      have hP0 : P (subscribeA k.subj st.sub o).1 := by
        refine ⟨h.core.base.subscribeA o, ?_, ?_, hf.2.2.2.2.2, SubjM.subscribeA_marks _ _ _⟩
        · exact (hcf { sub := (subscribeA k.subj st.sub o).1, conns := [true] } rfl rfl rfl).2
        · intro o' ho'; rw [hf.2.2.1] at ho'; simpa [registered, hi.2.2.2.1] using ho'
      have hcore2 := onSubscribe_first hk src { st with sub := (subscribeA k.subj st.sub o).1 } hc h.rc.notCancelled
        (fun Y h1 h2 h3 => (hcf Y h1 (by rw [h2]; simp [hi.1]) (by rw [h3]; exact hi.2.2.2.2.2.2.2)).1)
      have hP2 := onSubscribe_pres hP src { st with sub := (subscribeA k.subj st.sub o).1 } (some 1) hP0
      have hst : ConnM.step k src st (.subscribe o) =
          onUnsubscribe
            { onSubscribe k src { st with sub := (subscribeA k.subj st.sub o).1 } (some 1) with
              sub := (subscribeB k.subj (onSubscribe k src { st with sub := (subscribeA k.subj st.sub o).1 } (some 1)).sub o
                (subscribeA k.subj st.sub o).2).1 }
            (subscribeB k.subj (onSubscribe k src { st with sub := (subscribeA k.subj st.sub o).1 } (some 1)).sub o
                (subscribeA k.subj st.sub o).2).2 := by
        simp only [ConnM.step, hk, ↓reduceIte, hlen, List.length_nil, Nat.zero_add]
      rw [hst] at hrc ⊢
      generalize onSubscribe k src { st with sub := (subscribeA k.subj st.sub o).1 } (some 1) = Z at hcore2 hP2 hrc ⊢
      obtain ⟨p1, p2, p3, p4, p5⟩ := hP2
      have hfr := hf.1
      generalize (subscribeA k.subj st.sub o).2 = p at hfr hhist hrc ⊢
      have hcoreH : Core k { Z with sub := subscribeH k.subj Z.sub o p } :=
        hcore2.subscribeH0 p2 o p hhist (fun _ => p5)
      have hcoreB : Core k { Z with sub := (subscribeB k.subj Z.sub o p).1 } := by
        rw [SubjM.subscribeB_fst]; split
        · exact hcoreH.reapSub o
        · exact hcoreH
      refine ⟨hcoreB.onUnsubscribe _, ?_, hrc⟩
      rw [onUnsubscribe_sub]
      have hbB := p1.subscribeB o p (fun _ => p5)
      cases hr : k.subj.isReplay with
      | false =>
        exact ⟨hbB.inv, hbB.inv.armed_of_not_replay hr, fun o' ho' => hbB.inv.regAlive o' ho' hr⟩
      | true =>
        have hkr : k.subj = .replay := by cases k <;> simp_all [Kind.subj, SubjM.Kind.isReplay]
        -- only `o` can be in the map, and only if it survived the hand-over
        have hiH := p1.inv.subscribeH o p (fun _ => p5)
        suffices hs : ∀ o', o' ∈ registered (subscribeB k.subj Z.sub o p).1 →
            ((subscribeB k.subj Z.sub o p).1.obs o').hook = true ∧ ((subscribeB k.subj Z.sub o p).1.obs o').armed = true ∧
            ((subscribeB k.subj Z.sub o p).1.obs o').alive = true from
          ⟨hbB.inv, fun o' ho' => ⟨(hs o' ho').1, Or.inr (hs o' ho').2.1⟩, fun o' ho' => (hs o' ho').2.2⟩
        intro o' ho'
        have := p3 o' (SubjM.subscribeB_sub _ _ _ _ _ ho')
        subst this
        simp only [SubjM.subscribeB_fst, hr, hfr, Bool.and_self, ↓reduceIte] at ho' ⊢
        have hHo : ((subscribeH k.subj Z.sub o' p).obs o').hook = true ∧ ((subscribeH k.subj Z.sub o' p).obs o').armed = true := by
          rw [hkr]; simp [subscribeH, hfr, (SubjM.handOver_fields _ _ _ _).2.1, p4]
        have hm := (SubjM.reap_mem hiH o' o').1 ho'
        have hnr : SubjM.reaped ((subscribeH k.subj Z.sub o' p).obs o') = false := by
          cases hrp : SubjM.reaped ((subscribeH k.subj Z.sub o' p).obs o') with
          | false => rfl
          | true => exact absurd ⟨rfl, hrp⟩ hm.2
        have hal' : ((subscribeH k.subj Z.sub o' p).obs o').alive = true := by
          unfold SubjM.reaped at hnr; simpa [hHo.2] using hnr
        have hs' := SubjM.reap_obs_self (subscribeH k.subj Z.sub o' p) o'
        refine ⟨by rw [hs'.2.2.2]; exact hHo.1, ?_, by rw [hs'.2.1]; exact hal'⟩
        rw [SubjM.reap_obs, if_pos rfl]; simp [hHo.2, hal']

theorem full_runFrom {k : Kind} (hk : k.counts = true) (src : Src) {st : State} (h : Full k st) (cs : List Call) :
    Full k (runFrom k src st cs) := by
  induction cs generalizing st with
  | nil => exact h
  | cons c cs ih => exact ih (h.step hk src c)

theorem full_run {k : Kind} (hk : k.counts = true) (src : Src) (cs : List Call) : Full k (run k src cs) :=
  full_runFrom hk src (full_init k) cs


/-! ## C13 `ref_count_first_last`, `disconnect_stops_source` -/

/-- **C13 `ref_count_first_last`, second half** (ref_count and replay, hot or cold source, every call sequence):
    whenever the source subscription is live, some subscriber is present — so the source has been
    unsubscribed by the time the last subscriber has left (or the source has terminated). -/
theorem source_live_needs_subscriber {k : Kind} (hk : k.counts = true) (src : Src) (cs : List Call)
    (hl : sourceLive (run k src cs) = true) : ∃ o, present (run k src cs) o := by
  have h := (full_run hk src cs).core
  have hne := h.liveReg hl
  have hst := h.liveNoTerm hl
  cases hr : registered (run k src cs).sub with
  | nil => exact absurd hr hne
  | cons o rest =>
    have ho : o ∈ registered (run k src cs).sub := by rw [hr]; simp
    refine ⟨o, ho, ?_⟩
    rcases h.regAliveOr o ho with ha | hs
    · exact ha
    · exact absurd hst hs

/-- **C13 `disconnect_stops_source`, ref_count / replay**: the `unsubscribe` that empties the map leaves no live
    source subscription behind. -/
theorem last_subscriber_stops_source {k : Kind} (hk : k.counts = true) (src : Src) (cs : List Call) (o : Nat)
    (hempty : registered (step k src (run k src cs) (.unsubscribe o)).sub = []) :
    sourceLive (step k src (run k src cs) (.unsubscribe o)) = false := by
  have h := ((full_run hk src cs).step hk src (.unsubscribe o)).core
  cases hl : sourceLive (step k src (run k src cs) (.unsubscribe o)) with
  | false => rfl
  | true => exact absurd hempty (h.liveReg hl)

/-- nothing stored yet: the hand-over leaves the new subscriber alive, so nothing is reaped -/
theorem first_subscribe_note (k : Kind) (s : SubjM.State) (o : Nat) (hu : (s.obs o).seen = false)
    (hitems : s.items = []) (hwe : s.wasError = none) (hwc : s.wasCompleted = false) :
    (subscribeB k.subj (subscribeA k.subj s o).1 o (subscribeA k.subj s o).2).2 = none := by
  cases k <;>
    simp [subscribeB, subscribeH, subscribeA, hu, Kind.subj, SubjM.Kind.isReplay, reap, SubjM.handOver, hitems, hwe, hwc,
      SubjM.register, SubjM.ObsSt.recv]

/-- the first arrival subscribes the (hot) source, and it stays subscribed -/
theorem first_arrival_connects {k : Kind} (hk : k.counts = true) (cs : List Call) (o : Nat)
    (hnone : cs.any isSubscribe = false) :
    sourceSubscriptions (run k .hot cs) = 0 ∧
    sourceSubscriptions (run k .hot (cs ++ [.subscribe o])) = 1 ∧
    sourceLive (run k .hot (cs ++ [.subscribe o])) = true := by
  have h0 := ref_count_subscribes_once hk .hot cs
  have h1 := ref_count_subscribes_once hk .hot (cs ++ [.subscribe o])
  rw [hnone] at h0
  refine ⟨by simpa using h0, by simpa [isSubscribe] using h1, ?_⟩
  have hrc := rc_run hk .hot cs
  have hc : (run k .hot cs).connecting = false := by rw [hrc.2, hnone]
  have hi := hrc.1.idle hc
  rw [run_append]
  show sourceLive (step k .hot (run k .hot cs) (.subscribe o)) = true
  have hlen := subscribeA_len_fresh k (run k .hot cs).sub o (hi.2.2.1 o)
  rw [hi.2.2.2.1] at hlen
  have hnote := first_subscribe_note k (run k .hot cs).sub o (hi.2.2.1 o) hi.2.2.2.2.1 hi.2.2.2.2.2.1 hi.2.2.2.2.2.2.1
  simp only [step, hk, ↓reduceIte, hlen, List.length_nil, Nat.zero_add]
  have hsub : (onSubscribe k .hot { run k .hot cs with sub := (subscribeA k.subj (run k .hot cs).sub o).1 } (some 1)).sub
      = (subscribeA k.subj (run k .hot cs).sub o).1 := by
    simp [onSubscribe, hc, connectSource]
  rw [hsub, hnote]
  simp [sourceLive, onSubscribe, onUnsubscribe, hc, connectSource, hrc.1.notCancelled, hi.1]

theorem connRecv_dead (k : Kind) (st : State) (i : Nat) (ev : Ev) (h : sourceLive st = false) :
    connRecv k st i ev = st := by
  unfold connRecv
  rw [if_neg]
  intro hi
  have : true ∈ st.conns := List.mem_of_getElem? hi
  simp only [sourceLive, List.any_eq_false, id] at h
  exact absurd rfl (h true this)

theorem foldIdx_dead (k : Kind) (ev : Ev) (is : List Nat) (st : State) (h : sourceLive st = false) :
    is.foldl (fun s i => connRecv k s i ev) st = st := by
  induction is with
  | nil => rfl
  | cons i is ih => simp only [List.foldl_cons, connRecv_dead k st i ev h, ih]

def srcEv : Call → Option Ev
  | .srcNext v => some (.next v)
  | .srcError e => some (.error e)
  | .srcComplete => some .complete
  | _ => none

/-- a source nobody is subscribed to delivers nothing: its emissions leave the whole state unchanged -/
theorem dead_source_is_silent (k : Kind) (src : Src) (st : State) (c : Call) (ev : Ev) (hc : srcEv c = some ev)
    (h : sourceLive st = false) : step k src st c = st := by
  cases c <;> simp [srcEv] at hc <;> cases src <;> simp [step, hotEmit, foldIdx_dead k _ _ st h]

/-- **C13 `disconnect_stops_source`, publish**: after `disconnect` (the connection handles are unsubscribed) no
    source subscription is live, whatever happened before … -/
theorem disconnect_stops_source (src : Src) (cs : List Call) :
    sourceLive (run .publish src (cs ++ [.disconnect])) = false := by
  rw [run_append]
  show sourceLive (step .publish src (run .publish src cs) .disconnect) = false
  simp [step, Kind.counts, sourceLive]

/-- … and from then on the source's emissions reach nobody until the next `connect` -/
theorem disconnect_silences (cs : List Call) (c : Call) (ev : Ev) (hc : srcEv c = some ev) :
    run .publish .hot (cs ++ [.disconnect, c]) = run .publish .hot (cs ++ [.disconnect]) := by
  have h := disconnect_stops_source .hot cs
  have : cs ++ [Call.disconnect, c] = (cs ++ [.disconnect]) ++ [c] := by simp
  rw [this, run_append .publish .hot (cs ++ [Call.disconnect]) [c]]
  exact dead_source_is_silent .publish .hot _ c ev hc h

example : sourceLive (run .publish .hot [.subscribe 0, .connect, .srcNext (.int 1)]) = true ∧
    logOf (run .publish .hot ([.subscribe 0, .connect, .srcNext (.int 1)] ++ [.disconnect, .srcNext (.int 2)])) 0
      = [.next (.int 1)] := by decide
example : sourceLive (run .refCount .hot [.subscribe 0, .subscribe 1, .unsubscribe 0]) = true ∧
    registered (step .refCount .hot (run .refCount .hot [.subscribe 0, .subscribe 1, .unsubscribe 0]) (.unsubscribe 1)).sub = [] ∧
    sourceLive (step .refCount .hot (run .refCount .hot [.subscribe 0, .subscribe 1, .unsubscribe 0]) (.unsubscribe 1)) = false := by
  decide


/-! ## C13 `replay_complete_history` -/

/-- **C13 `replay_complete_history`** (hot source or any cold script, every call sequence).  `items` is the
    sequence the source has emitted so far (`emitted`: what the one source observer let through, in order).
    * a subscriber that is still subscribed has received exactly that sequence — each item once, in order,
      however late it arrived;
    * a subscriber that was ended by a terminal has received exactly that sequence, then the terminal;
    * nobody ever has anything but a prefix of it (a subscriber that unsubscribed keeps what it had). -/
theorem replay_complete_history (src : Src) (cs : List Call) :
    (run .replay src cs).sub.items = (run .replay src cs).emitted ∧
    (∀ o, SubjM.aliveOf (run .replay src cs).sub o = true →
      logOf (run .replay src cs) o = (run .replay src cs).emitted.map .next) ∧
    (∀ o, SubjM.nonTerminal (logOf (run .replay src cs) o) = false →
      itemsOf (logOf (run .replay src cs) o) = (run .replay src cs).emitted) ∧
    (∀ o, itemsOf (logOf (run .replay src cs) o) <+: (run .replay src cs).emitted) := by
  have h := (full_run (k := .replay) rfl src cs).core.hist rfl
  rw [← h.emitted]
  exact ⟨rfl, h.aliveAll, fun o hn => (h.doneAll o hn).1, h.pre⟩

theorem deliver_hook (k : SubjM.Kind) (ev : Ev) (l : List (Nat × Nat)) (f : Nat → SubjM.ObsSt) (o : Nat) :
    (SubjM.deliver k ev l f o).hook = (f o).hook := by
  induction l generalizing f with
  | nil => rfl
  | cons p rest ih =>
    simp only [SubjM.deliver, ih, SubjM.upd_apply]; split
    · subst_vars; exact SubjM.recvK_hook _ _ _
    · rfl

theorem step_unseen (k : Kind) (src : Src) (st : State) (c : Call) (o : Nat) (hc : c ≠ .subscribe o)
    (h : (st.sub.obs o).seen = false) : ((step k src st c).sub.obs o).seen = false := by
  have hE : ∀ s ev, (s.obs o).seen = false → ((emit k.subj s ev).obs o).seen = false :=
    fun s ev hs => by rw [emit_seen]; exact hs
  by_cases hsb : ∃ o', c = .subscribe o'
  · obtain ⟨o', rfl⟩ := hsb
    have hne : o ≠ o' := fun e => hc (by rw [e])
    refine step_pres_sub (P := fun s => (s.obs o).seen = false) src hE st o' ?_ ?_ ?_ ?_ h
    · intro s hs; rw [SubjM.subscribeA_obs_other _ _ _ _ hne]; exact hs
    · intro s s' _ hs' _ _; rw [SubjM.subscribeB_obs_other _ _ _ _ _ hne]; exact hs'
    · intro s' p hs' _; rw [SubjM.subscribeB_obs_other _ _ _ _ _ hne]; exact hs'
    · intro s ev _ hseen; rw [emit_seen]; exact hseen
  · by_cases hu : ∃ o', c = .unsubscribe o'
    · obtain ⟨o', rfl⟩ := hu
      refine step_pres_unsub (P := fun s => (s.obs o).seen = false) src ?_ st o' h
      intro s o'' hs; rw [SubjM.unsub_obs]; split
      · rename_i hh; rw [hh.1] at hs; rw [hs] at hh; simp at hh
      · exact hs
    · exact step_pres_src (P := fun s => (s.obs o).seen = false) src hE st c
        (fun o' e => hsb ⟨o', e⟩) (fun o' e => hu ⟨o', e⟩) h

theorem unseen_runFrom (k : Kind) (src : Src) (st : State) (cs : List Call) (o : Nat) (hc : Call.subscribe o ∉ cs)
    (h : (st.sub.obs o).seen = false) : ((runFrom k src st cs).sub.obs o).seen = false := by
  induction cs generalizing st with
  | nil => exact h
  | cons c cs ih =>
    simp only [List.mem_cons, not_or] at hc
    exact ih _ hc.2 (step_unseen k src st c o (fun e => hc.1 e.symm) h)

theorem unseen_run (k : Kind) (src : Src) (cs : List Call) (o : Nat) (hc : Call.subscribe o ∉ cs) :
    ((run k src cs).sub.obs o).seen = false :=
  unseen_runFrom k src init cs o hc rfl

/-- **C13 `replay_complete_history`, at arrival**: the `subscribe` call of a new subscriber returns with the
    subscriber holding the complete item sequence from the beginning, each item once — whether it is the
    first subscriber (a cold source runs inside this very call) or a late one. -/
theorem replay_arrival (src : Src) (cs : List Call) (o : Nat) (hfresh : Call.subscribe o ∉ cs) :
    itemsOf (logOf (run .replay src (cs ++ [.subscribe o])) o) = (run .replay src (cs ++ [.subscribe o])).emitted := by
  have hfull := full_run (k := .replay) rfl src (cs ++ [.subscribe o])
  have hh := hfull.core.hist rfl
  have hu := unseen_run .replay src cs o hfresh
  -- the new subscriber has been created with its hook, and has not unsubscribed
  have hq : ((run .replay src (cs ++ [.subscribe o])).sub.obs o).seen = true ∧
      ((run .replay src (cs ++ [.subscribe o])).sub.obs o).hook = true := by
    rw [run_append]
    show ((step .replay src (run .replay src cs) (.subscribe o)).sub.obs o).seen = true ∧
      ((step .replay src (run .replay src cs) (.subscribe o)).sub.obs o).hook = true
    have hf := subscribeA_fresh_counts .replay rfl (run .replay src cs).sub o hu
    have hE : ∀ s ev, ((s.obs o).seen = true ∧ (s.obs o).hook = true) →
        (((emit Kind.replay.subj s ev).obs o).seen = true ∧ ((emit Kind.replay.subj s ev).obs o).hook = true) := by
      intro s ev hs
      exact ⟨by rw [emit_seen]; exact hs.1, by rw [show ((emit Kind.replay.subj s ev).obs o).hook = (s.obs o).hook from deliver_hook _ _ _ _ _]; exact hs.2⟩
    have h2 := onSubscribe_pres (P := fun s => (s.obs o).seen = true ∧ (s.obs o).hook = true) hE src
      { run .replay src cs with sub := (subscribeA Kind.replay.subj (run .replay src cs).sub o).1 }
      (subscribeA Kind.replay.subj (run .replay src cs).sub o).2.len ⟨SubjM.subscribeA_marks _ _ _, hf.2.2.2.2.2⟩
    rw [step_subscribe_sub_eq]
    simp only [Kind.counts, ↓reduceIte]
    generalize onSubscribe .replay src _ _ = Z at h2 ⊢
    have hB := SubjM.subscribeB_obs_self Kind.replay.subj Z.sub o (subscribeA Kind.replay.subj (run .replay src cs).sub o).2
    rw [hB.1, hB.2.2.2]
    rcases subscribeH_obs_self Kind.replay.subj Z.sub o (subscribeA Kind.replay.subj (run .replay src cs).sub o).2 with h1 | ⟨_, _, h1⟩
    · simp only [h1]; exact h2
    · have hfl := SubjM.handOver_fields (Z.sub.obs o) (subscribeA Kind.replay.subj (run .replay src cs).sub o).2.history
        Z.sub.wasError Z.sub.wasCompleted
      simp only [h1, hfl.1, hfl.2.1]; exact h2
  rw [← hh.emitted]
  cases ha : ((run .replay src (cs ++ [.subscribe o])).sub.obs o).alive with
  | true =>
    show itemsOf ((run .replay src (cs ++ [.subscribe o])).sub.obs o).log = _
    rw [hh.aliveAll o ha, itemsOf_map_next]
  | false =>
    have := hfull.core.base.deadWhy o hq.1 hq.2 ha
    exact (hh.doneAll o this).1

/-! ### a cold source: what `emitted` is -/

/-- the items a cold script delivers: those before its first terminal -/
def feed : List Ev → List Data
  | [] => []
  | .next v :: rest => v :: feed rest
  | .error _ :: _ => []
  | .complete :: _ => []

theorem foldEv_dead (k : Kind) (i : Nat) (evs : List Ev) (st : State) (h : sourceLive st = false) :
    evs.foldl (fun s ev => connRecv k s i ev) st = st := by
  induction evs with
  | nil => rfl
  | cons ev evs ih => simp only [List.foldl_cons, connRecv_dead k st i ev h, ih]

theorem foldEv_emitted (k : Kind) (evs : List Ev) (st : State) (h : st.conns = [true]) :
    (evs.foldl (fun s ev => connRecv k s 0 ev) st).emitted = st.emitted ++ feed evs := by
  induction evs generalizing st with
  | nil => simp [feed]
  | cons ev evs ih =>
    simp only [List.foldl_cons]
    cases ev with
    | next v =>
      have h1 : (connRecv k st 0 (.next v)).conns = [true] := by simp [connRecv, h, Ev.isTerminal]
      have h2 : (connRecv k st 0 (.next v)).emitted = st.emitted ++ [v] := by simp [connRecv, h, accept]
      rw [ih _ h1, h2]; simp [feed]
    | error e =>
      have h1 : sourceLive (connRecv k st 0 (.error e)) = false := by simp [connRecv, h, Ev.isTerminal, sourceLive]
      have h2 : (connRecv k st 0 (.error e)).emitted = st.emitted := by simp [connRecv, h, accept]
      rw [foldEv_dead k 0 evs _ h1, h2]; simp [feed]
    | complete =>
      have h1 : sourceLive (connRecv k st 0 .complete) = false := by simp [connRecv, h, Ev.isTerminal, sourceLive]
      have h2 : (connRecv k st 0 .complete).emitted = st.emitted := by simp [connRecv, h, accept]
      rw [foldEv_dead k 0 evs _ h1, h2]; simp [feed]

theorem onUnsubscribe_emitted (st : State) (n : Option Nat) : (onUnsubscribe st n).emitted = st.emitted := by
  unfold onUnsubscribe; split <;> rfl

theorem cold_step_emitted {k : Kind} (hk : k.counts = true) (script : List Ev) {st : State} (hrc : RC st) (c : Call) :
    (step k (.cold script) st c).emitted =
      if st.connecting = false ∧ isSubscribe c = true then feed script else st.emitted := by
  cases c with
  | subscribe o =>
    cases hc : st.connecting with
    | true =>
      have hns : onSubscribe k (.cold script) { st with sub := (subscribeA k.subj st.sub o).1 } (subscribeA k.subj st.sub o).2.len
          = { st with sub := (subscribeA k.subj st.sub o).1 } := by
        unfold onSubscribe; simp [hc]
      simp [step, hk, hns, onUnsubscribe_emitted]
    | false =>
      have hi := hrc.idle hc
      have hlen := subscribeA_len_fresh k st.sub o (hi.2.2.1 o)
      rw [hi.2.2.2.1] at hlen
      simp only [step, hk, ↓reduceIte, hlen, List.length_nil, Nat.zero_add, isSubscribe, and_self, onUnsubscribe_emitted]
      unfold onSubscribe
      simp only [hc, and_self, ↓reduceIte, connectSource, hi.1, List.nil_append, List.length_nil]
      rw [foldEv_emitted k script _ rfl]
      simp [hi.2.2.2.2.2.2.2]
  | unsubscribe o =>
    simp only [step, hk, ↓reduceIte, isSubscribe, Bool.false_eq_true, and_false]
    unfold onUnsubscribe; split <;> rfl
  | connect => simp [step, hk, isSubscribe]
  | disconnect => simp [step, hk, isSubscribe]
  | srcNext v => simp [step, isSubscribe]
  | srcError e => simp [step, isSubscribe]
  | srcComplete => simp [step, isSubscribe]

theorem cold_runFrom_emitted {k : Kind} (hk : k.counts = true) (script : List Ev) {st : State} (hrc : RC st)
    (cs : List Call) :
    (runFrom k (.cold script) st cs).emitted =
      if st.connecting = false ∧ cs.any isSubscribe = true then feed script else st.emitted := by
  induction cs generalizing st with
  | nil => simp [runFrom]
  | cons c cs ih =>
    have h1 := hrc.step hk (.cold script) c
    show (runFrom k (.cold script) (step k (.cold script) st c) cs).emitted = _
    rw [ih h1.1, h1.2, cold_step_emitted hk script hrc c]
    cases hc : st.connecting <;> cases hs : isSubscribe c <;> simp [hs]

/-- with a cold source that emits synchronously inside the first `subscribe`: what has been emitted is, from
    the first `subscribe` on and for ever, the script's items up to its first terminal -/
theorem cold_emitted {k : Kind} (hk : k.counts = true) (script : List Ev) (cs : List Call) :
    (run k (.cold script) cs).emitted = if cs.any isSubscribe then feed script else [] := by
  have := cold_runFrom_emitted hk script rc_init cs
  simpa [run, init] using this

/-- **C13 replay, cold-synchronous source**: every subscriber that is still subscribed — the first one, who was
    inside `subscribe` while the source ran, and every later one — has exactly the script's items, each once. -/
theorem replay_cold_history (script : List Ev) (cs : List Call) (o : Nat)
    (ha : SubjM.aliveOf (run .replay (.cold script) cs).sub o = true) :
    logOf (run .replay (.cold script) cs) o = (feed script).map .next := by
  have h := (replay_complete_history (.cold script) cs).2.1 o ha
  rw [h, cold_emitted rfl script cs]
  cases hs : cs.any isSubscribe with
  | true => rfl
  | false =>
    -- nobody has subscribed yet, so `o` cannot be alive
    exfalso
    have hrc := rc_run (k := .replay) rfl (.cold script) cs
    have hi := hrc.1.idle (by rw [hrc.2, hs])
    have := (full_run (k := .replay) rfl (.cold script) cs).core.base.inv.unseen o (hi.2.2.1 o)
    simp [SubjM.aliveOf, this] at ha

/-- the first subscriber of a cold-synchronous replay is not handed the items twice (live + history), and the late
    one gets them all, then the terminal -/
example :
    logOf (run .replay (.cold [.next (.int 1), .next (.int 2), .complete]) [.subscribe 0, .subscribe 1]) 0
      = [.next (.int 1), .next (.int 2), .complete] ∧
    logOf (run .replay (.cold [.next (.int 1), .next (.int 2), .complete]) [.subscribe 0, .subscribe 1]) 1
      = [.next (.int 1), .next (.int 2), .complete] := by decide
example :
    logOf (run .replay .hot [.subscribe 0, .srcNext (.int 1), .unsubscribe 0, .subscribe 1, .srcNext (.int 2)]) 1
      = [.next (.int 1)] ∧
    SubjM.aliveOf (run .replay .hot [.subscribe 0, .srcNext (.int 1), .unsubscribe 0, .subscribe 1, .srcNext (.int 2)]).sub 1 = true := by
  decide


/-- **C13 `ref_count_first_last`** (ref_count and replay; hot source or any cold script; every call sequence),
    both halves together: the source has been subscribed exactly once iff somebody ever subscribed (so: at the
    first arrival, and never again), and a live source subscription implies a present subscriber. -/
theorem ref_count_first_last {k : Kind} (hk : k.counts = true) (src : Src) (cs : List Call) :
    sourceSubscriptions (run k src cs) = (if cs.any isSubscribe then 1 else 0) ∧
    (sourceLive (run k src cs) = true → ∃ o, present (run k src cs) o) :=
  ⟨ref_count_subscribes_once hk src cs, source_live_needs_subscriber hk src cs⟩

/-- non-vacuity: a run in which the source is live with two subscribers present, then dies with the last one -/
example :
    sourceLive (run .replay .hot [.subscribe 0, .srcNext (.int 1), .subscribe 1]) = true ∧
    present (run .replay .hot [.subscribe 0, .srcNext (.int 1), .subscribe 1]) 1 ∧
    sourceLive (run .replay .hot [.subscribe 0, .srcNext (.int 1), .subscribe 1, .unsubscribe 0, .unsubscribe 1]) = false := by
  refine ⟨by decide, ⟨by decide, by decide⟩, by decide⟩

#print axioms publish_connects_only_on_connect
#print axioms same_items_for_present
#print axioms ref_count_first_last
#print axioms ref_count_subscribes_once
#print axioms at_most_one_source_subscription
#print axioms source_live_needs_subscriber
#print axioms last_subscriber_stops_source
#print axioms first_arrival_connects
#print axioms ref_count_never_reconnects
#print axioms never_cancelled
#print axioms replay_complete_history
#print axioms replay_arrival
#print axioms cold_emitted
#print axioms replay_cold_history
#print axioms disconnect_stops_source
#print axioms disconnect_silences
#print axioms dead_source_is_silent
#print axioms full_run

end Rx.ConnM
