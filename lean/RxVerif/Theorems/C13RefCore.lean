import RxVerif.Theorems.C13RefBase
/-
C13-REF, part 2: the representation shared by `publish` and `ref_count` (connectable over a plain `Subject` S fed
from a hot plain `Subject` H).  Observers are allocated in call order, users' root observers and source observers
interleaved, so the layout is carried explicitly: `roots[u]` = root observer of user `u`, `cobs[i]` = the i-th
source observer (made by `source.subscribe(next → sbj.next, ..)`, publish.rs:31-39 / ref_count.rs:76-84).
-/
namespace Rx.CRef
open Rx.Sim Rx.SubjM Rx.Ref Rx.RefR

def rootAt (roots : List Nat) (o : Nat) : Nat := roots.getD o 0

/-- the connectable's subject map as stored: serial ↦ root observer of the user -/
def mapRoots (roots : List Nat) (l : List (Nat × Nat)) : List (Nat × Nat) := l.map fun p => (p.1, rootAt roots p.2)

/-- The users' side: S's two cells, the user records, their root observers, their logs — on the components of a
    `SubjM.State` (kind `.plain`), as in `Ref.RelC`.  `pend` = a user whose `subscribe` has not returned yet. -/
structure UsersPart (S : Subj) (roots : List Nat) (pend : Option Nat) (w : World) (observers : List (Nat × Nat))
    (serial : Nat) (f : Nat → ObsSt) : Prop where
  ne : S.observers ≠ S.serial
  cellO : w.cells[S.observers]? = some (encMap (mapRoots roots observers))
  cellS : w.cells[S.serial]? = some (.int serial)
  nUsers : w.users.length = roots.length
  user : ∀ u, u < roots.length →
    ∃ rd, w.users[u]? = some ⟨rootAt roots u, noReact, rd, (f u).hook⟩ ∧ (pend ≠ some u → rd = true)
  obs : ∀ u, u < roots.length → w.obs[rootAt roots u]? = some (obsOf S u (f u))
  seen : ∀ u, u < roots.length → (f u).seen = true
  unseen : ∀ u, roots.length ≤ u → View (f u) = View {}
  hookIff : ∀ u, (f u).hook = (f u).inHook.isSome
  deadNoHook : ∀ u, (f u).hook = false → (f u).alive = false
  log : ∀ u, logOf w u = (f u).log
  keys : ∀ p ∈ observers, p.1 ≤ serial
  regBound : ∀ p ∈ observers, p.2 < roots.length

/-- the source observers still in H's map, with their serials: observer `i` was registered under serial `i+1` -/
def liveFrom (k : Nat) : List Nat → List Bool → List (Nat × Nat)
  | c :: cs, b :: bs => (if b then [(k + 1, c)] else []) ++ liveFrom (k + 1) cs bs
  | _, _ => []

/-- the i-th source observer: callbacks present while `live`, H's teardown present until its handle is used -/
def connObs (H : Subj) (fn : Data → Prog) (fe : Nat → Prog) (fc : Prog) (i : Nat) (live armed : Bool) : Obs :=
  ⟨if live then some (.code fn) else none, if live then some (.code fe) else none,
   if live then some (.code fc) else none, if armed then some (hookProg H ((i + 1 : Nat) : Int)) else none⟩

/-- The source side: H's two cells (`hmap` = content of its observer map), the source observers, the armed flags
    of their `Subscription` handles (`acell i`). -/
structure ConnsPart (H : Subj) (fn : Data → Prog) (fe : Nat → Prog) (fc : Prog) (acell : Nat → Nat)
    (cobs : List Nat) (w : World) (hmap : List (Nat × Nat)) (conns armed : List Bool) : Prop where
  ne : H.observers ≠ H.serial
  cellO : w.cells[H.observers]? = some (encMap hmap)
  cellS : w.cells[H.serial]? = some (.int conns.length)
  lenC : cobs.length = conns.length
  lenA : armed.length = conns.length
  obs : ∀ i, i < conns.length →
    w.obs[rootAt cobs i]? = some (connObs H fn fe fc i (conns.getD i false) (armed.getD i false))
  acell : ∀ i, i < conns.length → w.cells[acell i]? = some (.bool (armed.getD i false))
  liveArmed : ∀ i, conns.getD i false = true → armed.getD i false = true
  obsv : w.obsvs[0]? = some H.observable     -- the source the connectable was built over

/-- what both sides need of the world as a whole -/
structure Glob (roots cobs : List Nat) (w : World) : Prop where
  status : w.status = .ok
  nObs : w.obs.length = roots.length + cobs.length
  rootsLt : ∀ r ∈ roots, r < w.obs.length
  cobsLt : ∀ c ∈ cobs, c < w.obs.length
  nodup : (roots ++ cobs).Nodup

theorem rootAt_mem {l : List Nat} {i : Nat} (h : i < l.length) : rootAt l i ∈ l := by
  simp only [rootAt, List.getD_eq_getElem?_getD, List.getElem?_eq_getElem h, Option.getD_some]
  exact List.getElem_mem h

theorem rootAt_inj {l : List Nat} (hn : l.Nodup) {i j : Nat} (hi : i < l.length) (hj : j < l.length)
    (h : rootAt l i = rootAt l j) : i = j := by
  simp only [rootAt, List.getD_eq_getElem?_getD, List.getElem?_eq_getElem hi, List.getElem?_eq_getElem hj,
    Option.getD_some] at h
  exact (List.getElem_inj hn).mp h

theorem Glob.root_ne_cob {roots cobs w} (g : Glob roots cobs w) {u i : Nat} (hu : u < roots.length)
    (hi : i < cobs.length) : rootAt roots u ≠ rootAt cobs i := by
  have := (List.nodup_append.1 g.nodup).2.2
  exact this _ (rootAt_mem hu) _ (rootAt_mem hi)

theorem Glob.root_inj {roots cobs w} (g : Glob roots cobs w) {u v : Nat} (hu : u < roots.length)
    (hv : v < roots.length) (h : rootAt roots u = rootAt roots v) : u = v :=
  rootAt_inj (List.nodup_append.1 g.nodup).1 hu hv h

theorem Glob.cob_inj {roots cobs w} (g : Glob roots cobs w) {i j : Nat} (hi : i < cobs.length)
    (hj : j < cobs.length) (h : rootAt cobs i = rootAt cobs j) : i = j :=
  rootAt_inj (List.nodup_append.1 g.nodup).2.1 hi hj h

/-! ### frames -/

def isProbe : Rec → Bool
  | .probe _ _ => true
  | _ => false

/-- the probe records of the trace (what instrumented sources of the harness leave behind) -/
def probesOf (w : World) : List Rec := w.trace.filter isProbe

theorem probesOf_deliverTo (w : World) (o s : Nat) (ev : Ev) : probesOf (w.deliverTo o s ev) = probesOf w := by
  unfold World.deliverTo probesOf
  split <;> simp [World.emit, World.setObs, isProbe]

/-- `w'` differs from `w` at most in the observers `J`, the cells `K`, and the user events of the trace -/
structure Touch (J K : Nat → Prop) (w w' : World) : Prop where
  status : w'.status = w.status
  held : w'.held = w.held
  slots : w'.slots = w.slots
  obsvs : w'.obsvs = w.obsvs
  users : w'.users = w.users
  obsLen : w'.obs.length = w.obs.length
  obs : ∀ j, ¬ J j → w'.obs[j]? = w.obs[j]?
  cellsLen : w'.cells.length = w.cells.length
  cells : ∀ i, ¬ K i → w'.cells[i]? = w.cells[i]?
  probes : probesOf w' = probesOf w

theorem Touch.refl (J K : Nat → Prop) (w : World) : Touch J K w w :=
  ⟨rfl, rfl, rfl, rfl, rfl, rfl, fun _ _ => rfl, rfl, fun _ _ => rfl, rfl⟩

theorem Touch.trans {J K w1 w2 w3} (a : Touch J K w1 w2) (b : Touch J K w2 w3) : Touch J K w1 w3 :=
  ⟨b.status.trans a.status, b.held.trans a.held, b.slots.trans a.slots, b.obsvs.trans a.obsvs,
   b.users.trans a.users, b.obsLen.trans a.obsLen, fun j hj => (b.obs j hj).trans (a.obs j hj),
   b.cellsLen.trans a.cellsLen, fun i hi => (b.cells i hi).trans (a.cells i hi), b.probes.trans a.probes⟩

theorem Touch.mono {J J' K K' : Nat → Prop} {w w'} (a : Touch J K w w') (hJ : ∀ j, J j → J' j)
    (hK : ∀ i, K i → K' i) : Touch J' K' w w' :=
  { a with obs := fun j hj => a.obs j (fun x => hj (hJ j x)), cells := fun i hi => a.cells i (fun x => hi (hK i x)) }

theorem Glob.touch {roots cobs w w' J K} (g : Glob roots cobs w) (t : Touch J K w w') : Glob roots cobs w' :=
  ⟨t.status ▸ g.status, t.obsLen ▸ g.nObs, fun r hr => t.obsLen ▸ g.rootsLt r hr,
   fun c hc => t.obsLen ▸ g.cobsLt c hc, g.nodup⟩

/-- the source side does not see changes to the users' observers / other cells -/
theorem ConnsPart.touch {H fn fe fc acell cobs w w' hmap conns armed J K}
    (h : ConnsPart H fn fe fc acell cobs w hmap conns armed) (t : Touch J K w w')
    (hJ : ∀ i, i < conns.length → ¬ J (rootAt cobs i))
    (hK : ¬ K H.observers ∧ ¬ K H.serial ∧ ∀ i, i < conns.length → ¬ K (acell i)) :
    ConnsPart H fn fe fc acell cobs w' hmap conns armed :=
  { h with
    cellO := by rw [t.cells _ hK.1]; exact h.cellO
    cellS := by rw [t.cells _ hK.2.1]; exact h.cellS
    obs := fun i hi => by rw [t.obs _ (hJ i hi)]; exact h.obs i hi
    acell := fun i hi => by rw [t.cells _ (hK.2.2 i hi)]; exact h.acell i hi
    obsv := by rw [t.obsvs]; exact h.obsv }

theorem UsersPart.congr {S roots pend w observers serial f g} (h : UsersPart S roots pend w observers serial f)
    (hv : ∀ u, View (g u) = View (f u)) : UsersPart S roots pend w observers serial g := by
  have e := fun u => View.eq (hv u)
  refine { h with user := ?_, obs := ?_, seen := ?_, unseen := ?_, hookIff := ?_, deadNoHook := ?_, log := ?_ }
  · intro u hu; rw [(e u).2.2.2.1]; exact h.user u hu
  · intro u hu; rw [h.obs u hu]; simp only [obsOf, (e u).2.1, (e u).2.2.2.2]
  · intro u hu; rw [(e u).1]; exact h.seen u hu
  · intro u hu; rw [hv u]; exact h.unseen u hu
  · intro u; rw [(e u).2.2.2.1, (e u).2.2.2.2]; exact h.hookIff u
  · intro u hu; rw [(e u).2.2.2.1] at hu; rw [(e u).2.1]; exact h.deadNoHook u hu
  · intro u; rw [(e u).2.2.1]; exact h.log u

/-- the source side only looks at H's cells, the source observers and the armed flags -/
theorem ConnsPart.frame {H fn fe fc acell cobs w w' hmap conns armed}
    (h : ConnsPart H fn fe fc acell cobs w hmap conns armed)
    (hO : w'.cells[H.observers]? = w.cells[H.observers]?) (hS : w'.cells[H.serial]? = w.cells[H.serial]?)
    (hobs : ∀ i, i < conns.length → w'.obs[rootAt cobs i]? = w.obs[rootAt cobs i]?)
    (hac : ∀ i, i < conns.length → w'.cells[acell i]? = w.cells[acell i]?)
    (hv : w'.obsvs = w.obsvs := by rfl) :
    ConnsPart H fn fe fc acell cobs w' hmap conns armed :=
  { h with
    cellO := hO ▸ h.cellO
    cellS := hS ▸ h.cellS
    obs := fun i hi => (hobs i hi) ▸ h.obs i hi
    acell := fun i hi => (hac i hi) ▸ h.acell i hi
    obsv := by rw [hv]; exact h.obsv }

/-- the users' side only looks at S's cells, the user records, the root observers and the logs -/
theorem UsersPart.frame {S roots pend w w' observers serial f}
    (h : UsersPart S roots pend w observers serial f)
    (hO : w'.cells[S.observers]? = w.cells[S.observers]?) (hS : w'.cells[S.serial]? = w.cells[S.serial]?)
    (hu : w'.users = w.users)
    (hobs : ∀ u, u < roots.length → w'.obs[rootAt roots u]? = w.obs[rootAt roots u]?)
    (hl : ∀ u, logOf w' u = logOf w u) :
    UsersPart S roots pend w' observers serial f :=
  { h with
    cellO := hO ▸ h.cellO
    cellS := hS ▸ h.cellS
    nUsers := hu ▸ h.nUsers
    user := fun u hu' => hu ▸ h.user u hu'
    obs := fun u hu' => (hobs u hu') ▸ h.obs u hu'
    log := fun u => (hl u) ▸ h.log u }

/-! ### the connectable's subject broadcasting to the users (`Subject::next/error/complete` on S) -/

def InRoots (roots : List Nat) (j : Nat) : Prop := j ∈ roots
def NoCell (_ : Nat) : Prop := False

theorem deliverU1_spec {S roots cobs pend w observers serial f} (g : Glob roots cobs w)
    (h : UsersPart S roots pend w observers serial f) (ev : Ev) (o : Nat) (ho : o < roots.length) :
    WP (evProg ev (rootAt roots o) .done) w (fun w' =>
      UsersPart S roots pend w' observers serial (upd f o ((f o).recv ev)) ∧ Touch (InRoots roots) NoCell w w') := by
  cases ha : (f o).alive with
  | false =>
    refine wp_ev_dead (h.obs o ho) (by simp [obsOf, ha]) (WP.done ⟨?_, Touch.refl _ _ _⟩)
    refine h.congr fun u => ?_
    rw [view_upd]; split
    · rename_i e; subst e; simp [View, ObsSt.recv, ha]
    · rfl
  | true =>
    obtain ⟨rd, hu, hrd⟩ := h.user o ho
    refine wp_ev_user (s := o) (h.obs o ho) (by simp [obsOf, ha]) (by simp [obsOf, ha]) (by simp [obsOf, ha])
      hu rfl (WP.done ?_)
    have hfix : ∀ (P : ObsSt → Prop) (u : Nat), P (f u) → (u = o → P ((f o).recv ev)) →
        P (upd f o ((f o).recv ev) u) := by
      intro P u h1 h2
      by_cases e : u = o
      · subst e; simpa [upd] using h2 rfl
      · simpa [upd, e] using h1
    have hcells : (w.deliverTo (rootAt roots o) o ev).cells = w.cells := by unfold World.deliverTo; split <;> rfl
    have husers : (w.deliverTo (rootAt roots o) o ev).users = w.users := by unfold World.deliverTo; split <;> rfl
    refine ⟨?_, ?_⟩
    · exact
        { ne := h.ne
          cellO := by rw [hcells]; exact h.cellO
          cellS := by rw [hcells]; exact h.cellS
          nUsers := by rw [husers]; exact h.nUsers
          user := by
            intro u hu'
            obtain ⟨rd', hu2, hrd'⟩ := h.user u hu'
            refine ⟨rd', ?_, hrd'⟩
            rw [husers, hu2]
            exact hfix (fun r => some (User.mk (rootAt roots u) noReact rd' (f u).hook) =
              some (User.mk (rootAt roots u) noReact rd' r.hook)) u rfl (fun e => by subst e; rfl)
          obs := by
            intro u hu'
            rw [deliverTo_obs]
            by_cases e : u = o
            · subst e
              simp only [upd, ↓reduceIte]
              cases ht : ev.isTerminal with
              | true =>
                simp only [↓reduceIte, modify_get_same _ _ (h.obs u hu')]
                simp [obsOf, Obs.cleared, ObsSt.recv, ht]
              | false =>
                simp only [Bool.false_eq_true, ↓reduceIte, h.obs u hu']
                simp [obsOf, ObsSt.recv, ht, ha]
            · have e' : rootAt roots o ≠ rootAt roots u := fun x => e (g.root_inj hu' ho x.symm)
              simp only [upd, e, ↓reduceIte]
              split
              · rw [modify_get_other _ _ e']; exact h.obs u hu'
              · exact h.obs u hu'
          seen := fun u hu' => hfix (fun r => r.seen = true) u (h.seen u hu') (fun e => by subst e; exact h.seen u hu')
          unseen := fun u hu' => hfix (fun r => View r = View {}) u (h.unseen u hu')
            (fun e => by subst e; exact absurd ho (Nat.not_lt.mpr hu'))
          hookIff := fun u => hfix (fun r => r.hook = r.inHook.isSome) u (h.hookIff u) (fun _ => h.hookIff o)
          deadNoHook := fun u => hfix (fun r => r.hook = false → r.alive = false) u (h.deadNoHook u)
            (fun _ hh => by have := h.deadNoHook o hh; simp [ha] at this)
          log := by
            intro u
            by_cases e : u = o
            · subst e; rw [logOf_deliverTo_same, h.log]; simp [upd, ObsSt.recv, ha]
            · rw [logOf_deliverTo_other _ _ _ _ _ (fun x => e x.symm), h.log]; simp [upd, e]
          keys := h.keys
          regBound := h.regBound }
    · refine ⟨by unfold World.deliverTo; split <;> rfl, by unfold World.deliverTo; split <;> rfl,
        by unfold World.deliverTo; split <;> rfl, by unfold World.deliverTo; split <;> rfl, husers, ?_, ?_,
        by rw [hcells], fun i _ => by rw [hcells], probesOf_deliverTo ..⟩
      · rw [deliverTo_obs]; split <;> simp
      · intro j hj
        rw [deliverTo_obs]; split
        · rw [modify_get_other]; intro e; exact hj (e ▸ rootAt_mem ho)
        · rfl

theorem deliverU_loop {S roots cobs pend observers serial} (ev : Ev) (l : List (Nat × Nat))
    (hl : ∀ p ∈ l, p.2 < roots.length) :
    ∀ (f : Nat → ObsSt) (w : World), Glob roots cobs w → UsersPart S roots pend w observers serial f →
      WP (forEach ((mapRoots roots l).map fun p => Data.int p.2) fun o => evProg ev o.toInt.toNat .done) w
        (fun w' => UsersPart S roots pend w' observers serial (deliver .plain ev l f) ∧
          Touch (InRoots roots) NoCell w w') := by
  induction l with
  | nil => intro f w _ h; exact WP.done ⟨h, Touch.refl _ _ _⟩
  | cons p rest ih =>
    intro f w g h
    simp only [mapRoots, List.map_cons, forEach, toNat_int]
    apply WP.seq
    refine (deliverU1_spec g h ev p.2 (hl p (List.mem_cons_self ..))).conseq ?_
    rintro w1 ⟨h1, t1⟩
    refine (ih (fun q hq => hl q (List.mem_cons_of_mem _ hq)) _ w1 (g.touch t1) h1).conseq ?_
    rintro w2 ⟨h2, t2⟩
    exact ⟨h2, t1.trans t2⟩

def IsCell (c : Nat) (i : Nat) : Prop := i = c

/-- `Subject::next / error / complete` on the connectable's subject S = `SubjM.emit .plain` -/
theorem emitS_spec {S roots cobs pend w} {s : SubjM.State} (hh : SlotReads w.held) (g : Glob roots cobs w)
    (h : UsersPart S roots pend w s.observers s.serial s.obs) (ev : Ev) :
    WP (evCall S ev) w (fun w' =>
      UsersPart S roots pend w' (emit .plain s ev).observers (emit .plain s ev).serial (emit .plain s ev).obs ∧
      Touch (InRoots roots) (IsCell S.observers) w w') := by
  have hread : w.cells[S.observers]?.getD .unit = encMap (mapRoots roots s.observers) := by rw [h.cellO]; rfl
  have widen : ∀ {w1 w2}, Touch (InRoots roots) NoCell w1 w2 → Touch (InRoots roots) (IsCell S.observers) w1 w2 :=
    fun t => t.mono (fun _ x => x) (fun _ x => x.elim)
  cases ev with
  | next d =>
    refine wp_cellReadG hh ?_
    rw [hread, amapVals_encMap]
    refine (deliverU_loop (.next d) s.observers h.regBound s.obs w g h).conseq ?_
    rintro w' ⟨h', t⟩
    exact ⟨h', widen t⟩
  | error e =>
    refine wp_cellReadG hh ?_
    refine wp_cellWriteG hh ?_
    rw [hread, amapVals_encMap]
    have t0 : Touch (InRoots roots) (IsCell S.observers) w { w with cells := w.cells.set S.observers .lnil } :=
      ⟨rfl, rfl, rfl, rfl, rfl, rfl, fun _ _ => rfl, by simp,
       fun i hi => set_get_other _ (fun e => hi e.symm), rfl⟩
    have h0 : UsersPart S roots pend { w with cells := w.cells.set S.observers .lnil } [] s.serial s.obs :=
      { h with
        cellO := set_get_same _ h.cellO
        cellS := by show (w.cells.set _ _)[_]? = _; rw [set_get_other _ h.ne]; exact h.cellS
        keys := by intro p hp; cases hp
        regBound := by intro p hp; cases hp }
    refine (deliverU_loop (.error e) s.observers h.regBound s.obs _ (g.touch t0) h0).conseq ?_
    rintro w' ⟨h', t⟩
    exact ⟨h', t0.trans (widen t)⟩
  | complete =>
    refine wp_cellReadG hh ?_
    refine wp_cellWriteG hh ?_
    rw [hread, amapVals_encMap]
    have t0 : Touch (InRoots roots) (IsCell S.observers) w { w with cells := w.cells.set S.observers .lnil } :=
      ⟨rfl, rfl, rfl, rfl, rfl, rfl, fun _ _ => rfl, by simp,
       fun i hi => set_get_other _ (fun e => hi e.symm), rfl⟩
    have h0 : UsersPart S roots pend { w with cells := w.cells.set S.observers .lnil } [] s.serial s.obs :=
      { h with
        cellO := set_get_same _ h.cellO
        cellS := by show (w.cells.set _ _)[_]? = _; rw [set_get_other _ h.ne]; exact h.cellS
        keys := by intro p hp; cases hp
        regBound := by intro p hp; cases hp }
    refine (deliverU_loop .complete s.observers h.regBound s.obs _ (g.touch t0) h0).conseq ?_
    rintro w' ⟨h', t⟩
    exact ⟨h', t0.trans (widen t)⟩

end Rx.CRef
