import RxVerif.Theorems.C13RefColdReplaySub
/-
C13-REF, replay over a COLD source: the rest of the FIRST `subscribe` after its `on_subscribe(1)` hook has connected
and the script has run: the empty snapshot and no stored terminal (read before the hook) are "replayed", `sbsc` is
stored, and the forwarder is taken down again if the script ended the subscriber.
-/
namespace Rx.CRef
open Rx.Sim Rx.SubjM Rx.Ref Rx.RefR

def armedRec (r : ObsSt) : ObsSt := { r with armed := true }
def reapedRec (r : ObsSt) : ObsSt := { r with armed := false, inAlive := false, inHook := none }

theorem subscribeFire_tail {script L cobs cacs armed w st n s1} (l : Option Nat) {root fwd sb : Nat}
    (e1 : root = rootAt L.roots n) (e2 : fwd = rootAt L.fwds n) (e3 : sb = rootAt L.sbs n)
    (h : RelRpc script L cobs cacs armed (some n) (some n) [] w st) (hI : FoldInv n s1 st.sub) :
    WP ((forEach ([] : List Data) fun x => .obsNext root x .done) ;; termProgR none false root) w (fun w3 =>
      WP (storeProgR root fwd sb) w3 (fun w4 =>
        WP (.userReady n .done) w4 (fun w' => ∃ L' armed', L'.roots = L.roots ∧
          RelRpc script L' cobs cacs armed' none none [] w'
            (ConnM.onUnsubscribe
              { st with sub := (subscribeB .replay st.sub n { fresh := true, len := l, history := [] }).1 }
              (subscribeB .replay st.sub n { fresh := true, len := l, history := [] }).2)))) := by
  subst e1 e2 e3
  obtain ⟨g, U, X⟩ := h.ur
  have hn : n + 1 = L.roots.length := U.unstLast n rfl
  have hnl : n < L.roots.length := by omega
  have hlf : n < L.fwds.length := U.lenF ▸ hnl
  have UN := U.users n hnl
  have hne : rootAt L.fwds n ≠ rootAt L.roots n := fun e => GlobR.root_ne_fwd g hnl hlf e.symm
  have hsbn := U.sb_ge hnl
  have h9 : 9 < w.cells.length := lt_of_getElem?_some X.cellN
  have hacsl : L.acs.length = n := by have := U.lenA; simp at this; omega
  have hsb0 : w.cells[rootAt L.sbs n]? = some Data.lnil := by have := UN.sb; simpa using this
  refine WP.seq (WP.done ?_)
  have htp : termProgR none false (rootAt L.roots n) = .done := rfl
  rw [htp]
  refine WP.done ?_
  unfold storeProgR
  refine wp_cellNew ?_
  refine wp_cellWrite X.held ?_
  refine wp_obsIsSub (show _ = some _ from UN.root) ?_
  have hisSub : (rootOfL (rootAt L.sbs n) n (st.sub.obs n)).isSub = (st.sub.obs n).alive := by
    cases ha : (st.sub.obs n).alive <;> simp [rootOfL, Obs.isSub, ha, cbN, cbE, cbC]
  rw [hisSub]
  dsimp only
  have hsbF : ((w.cells ++ [Data.bool true]).set (rootAt L.sbs n)
      (.pair (.int (rootAt L.fwds n : Nat)) (.int (w.cells.length : Nat))))[rootAt L.sbs n]? =
      some (handleL (L.store w.cells.length) n) := by
    rw [set_get_same (x := Data.lnil) _ (by rw [get_app_lt _ _ _ hsbn.2]; exact hsb0)]
    simp only [handleL, LayR.store]
    rw [← hacsl, rootAt_append_last]
  cases ha : (st.sub.obs n).alive with
  | true =>
    obtain ⟨_, _, hwe, hwc⟩ := hI.live ha
    simp only [↓reduceIte]
    refine WP.done (wp_userReady (WP.done ⟨L.store w.cells.length, armed, rfl, ?_⟩))
    rw [subscribeB_fire_alive _ _ _ ha hwe hwc, onUnsubscribe_none]
    refine RelRpc.ready ?_
    refine h.storeUser _ (armedRec (st.sub.obs n)) st.sub.observers rfl rfl rfl rfl rfl (by simp)
      ?_ ?_ hsbF ?_ rfl (fun _ _ _ => rfl) (fun _ _ => rfl) UN.root UN.fwd UN.log rfl hI.seen
      (fun hh => by rw [show (armedRec (st.sub.obs n)).hook = (st.sub.obs n).hook from rfl, hI.hook] at hh; cases hh)
      U.keys U.regBound rfl
    · show ((w.cells ++ [_]).set _ _)[2]? = _
      rw [set_get_other _ (by omega), get_app_lt _ _ _ (by omega)]; exact U.cellO
    · intro i h2 hsb hi
      show ((w.cells ++ [_]).set _ _)[i]? = _
      rw [set_get_other _ (Ne.symm hsb), get_app_lt _ _ _ hi]
    · show ((w.cells ++ [_]).set _ _)[w.cells.length]? = _
      rw [set_get_other _ (by omega), get_app0]; rfl
  | false =>
    simp only [Bool.false_eq_true, ↓reduceIte, subUnsub, Int.toNat_natCast]
    refine wp_cellRead X.held ?_
    dsimp only
    rw [set_get_other _ (by omega), get_app0]
    simp only [List.getElem?_cons_zero, Option.getD_some, toBool_bool, ↓reduceIte]
    refine wp_cellWrite X.held ?_
    dsimp only
    refine wp_obsUnsub_some (f := hookProg Sp (s1 : Int)) (show _ = some _ from UN.fwd)
      (by simp [fwdOfL, hI.inHook]) ?_
    dsimp only [World.setObs]
    have hc2 : ((((w.cells ++ [Data.bool true]).set (rootAt L.sbs n)
        (.pair (.int (rootAt L.fwds n : Nat)) (.int (w.cells.length : Nat)))).set w.cells.length (.bool false)))[2]? =
        some (encMap (mapL L st.sub.observers)) := by
      rw [set_get_other _ (by omega), set_get_other _ (by omega), get_app_lt _ _ _ (by omega)]; exact U.cellO
    refine hookProg_pre (obsl := mapL L st.sub.observers) (SlotReads.of_nil X.held) (show _ = some _ from hc2) ?_
    rw [mapL_filter]
    have hlen : (mapL L (st.sub.observers.filter fun p => p.1 != s1)).length =
        (st.sub.observers.filter fun p => p.1 != s1).length := by simp [mapL]
    rw [hlen]
    dsimp only
    have hR := h.storeUser
      { obs := w.obs.modify (rootAt L.fwds n) (fun x => { x.cleared with onUnsub := none })
        slots := w.slots
        cells := (((w.cells ++ [Data.bool true]).set (rootAt L.sbs n)
          (.pair (.int (rootAt L.fwds n : Nat)) (.int (w.cells.length : Nat)))).set w.cells.length (.bool false)).set
          2 (encMap (mapL L (st.sub.observers.filter fun p => p.1 != s1)))
        obsvs := w.obsvs, users := w.users, held := w.held, trace := w.trace, status := w.status }
      (reapedRec (st.sub.obs n)) (st.sub.observers.filter fun p => p.1 != s1) rfl rfl rfl rfl (by simp) (by simp)
      (set_get_same _ hc2)
      (fun i h2 hsb hi => by
        show ((((w.cells ++ [_]).set _ _).set _ _).set _ _)[i]? = _
        rw [set_get_other _ (Ne.symm h2), set_get_other _ (by omega), set_get_other _ (Ne.symm hsb),
          get_app_lt _ _ _ hi])
      (by
        show ((((w.cells ++ [_]).set _ _).set _ _).set _ _)[_]? = _
        rw [set_get_other _ (by omega), set_get_other _ (by omega)]; exact hsbF)
      (by
        show ((((w.cells ++ [_]).set _ _).set _ _).set _ _)[_]? = _
        rw [set_get_other _ (by omega),
          set_get_same (x := Data.bool true) _ (by rw [set_get_other _ (by omega), get_app0]; rfl)]
        rfl)
      rfl
      (fun i _ h2 => by
        show (w.obs.modify _ _)[i]? = _
        rw [modify_get_other _ _ (Ne.symm h2)])
      (fun _ _ => rfl)
      (by
        show (w.obs.modify _ _)[_]? = _
        rw [modify_get_other _ _ hne]; exact UN.root)
      (by
        show (w.obs.modify _ _)[_]? = _
        rw [modify_get_same _ _ UN.fwd]; simp [fwdOfL, reapedRec, Obs.cleared])
      UN.log rfl hI.seen
      (fun hh => by rw [show (reapedRec (st.sub.obs n)).hook = (st.sub.obs n).hook from rfl, hI.hook] at hh; cases hh)
      (fun p hp => U.keys p (List.mem_filter.1 hp).1) (fun p hp => U.regBound p (List.mem_filter.1 hp).1) rfl
    unfold slotTail
    refine wp_lockedSlotCall_someG (SlotReads.of_nil X.held) (show _ = some (some _) from hR.ur.2.2.slot3) ?_
    dsimp only
    rw [X.held]
    have hmid := hR.held_swap (Hd' := [(LockId.slot 3, false)]) (w' := _) rfl (SlotReads.nil.cons 3)
    refine (onUnsubHookRc_spec hmid _).conseq ?_
    rintro w5 ⟨armed', h5⟩
    refine wp_lockRel (WP.done (WP.done ?_))
    have hrel : w5.release (LockId.slot Sp.onUnsub) = { w5 with held := [] } :=
      release_single w5 _ false h5.ur.2.2.held
    rw [hrel]
    refine wp_userReady (WP.done ⟨L.store w.cells.length, armed', rfl, ?_⟩)
    rw [subscribeB_fire_dead _ _ _ _ ha hI.inHook]
    exact (h5.held_swap rfl SlotReads.nil).ready

end Rx.CRef
