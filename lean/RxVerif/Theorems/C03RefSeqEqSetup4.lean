import RxVerif.Theorems.C03RefSeqEqSetup3
/-
C03-REF, sequence_equal, part 18: the outer controller and zip's own set-up.
-/
namespace Rx.SeqRef
open Rx.Sim Rx.Ref Rx.Comb Rx.CRef

/-- the world in which `zip` is subscribed -/
structure PreZip (k : Nat) (w : World) : Prop where
  status : w.status = .ok
  held : w.held = []
  user : ∃ u, w.users[0]? = some u ∧ u.react = noReact
  trace : w.trace = []
  cLen : w.cells.length = 2 * k + 2
  sLen : w.slots.length = 2 * k + 1
  oLen : w.obs.length = 2
  root : w.obs[0]? = some (rootObs k true)
  o1 : w.obs[1]? = some (outerObs k none)
  oS : w.cells[oser k]? = some (.int ((1 : Nat) : Int))
  oM : w.cells[omap k]? = some (encMap [(0, 1)])
  oF : w.slots[ofin k]? = some none
  sfresh : ∀ j', j' < k → w.cells[2 * j']? = some .lnil ∧ w.cells[2 * j' + 1]? = some (.int 0) ∧
    w.slots[2 * j']? = some none ∧ w.slots[2 * j' + 1]? = some none

theorem ofList_replicate (k : Nat) : Data.ofList (List.replicate k .lnil) = encQ (List.replicate k []) := by
  simp [encQ, Data.ofList]

variable {k : Nat} {w : World}

theorem zip_stage (h : PreZip k w) (src : Obsv) (others : List Obsv) (hlen : others.length + 1 = k)
    (hs : src :: others = (List.range k).map fun i => oWithEnd (sjOf i).observable) :
    WP ((oZip src others).sub 1) w (SetupInv k k) := by
  have hh := h.held
  simp only [Obsv.sub]
  refine wp_obsIsSub h.o1 ?_
  simp only [outerObs, Obs.isSub, Option.isSome, oZip, sctlNew, hlen]
  refine wp_cellNew (wp_cellNew (wp_slotNew (wp_obsSetOnUnsub hh (wp_cellNew ?_))))
  simp only [World.setObs, List.length_append, List.length_cons, List.length_nil, h.cLen, h.sLen]
  have esc : (⟨1, 2 * k + 2, 2 * k + 2 + 1, 2 * k + 1⟩ : Sctl) = scZ k := rfl
  have eq : 2 * k + 2 + 1 + 1 = zq k := rfl
  rw [esc, eq]
  refine wp_newObservers (scZ k) _ k _ _ [] 0 _ hh (by simp [scZ, zser, zmap]) ?_ ?_
    (by intro p hp; cases hp) ⟨_, modify_get_same _ _ h.o1, rfl⟩ ?_
  · show (w.cells ++ _ ++ _ ++ _)[zser k]? = _
    rw [app_old _ _ (by simp [zser, h.cLen]), app_old _ _ (by simp [zser, h.cLen]),
      List.getElem?_append_right (by simp [zser, h.cLen])]
    simp [zser, h.cLen]
  · show (w.cells ++ _ ++ _ ++ _)[zmap k]? = _
    rw [app_old _ _ (by simp [zmap, h.cLen]), List.getElem?_append_right (by simp [zmap, h.cLen])]
    simp [zmap, h.cLen]; rfl
  simp only [List.length_modify, h.oLen]
  have el : (List.range k).map (2 + ·) = (List.range k).map Zo := rfl
  have ez : (src :: others).zip ((List.range k).map (2 + ·))
      = (List.range' 0 k).map fun i => (oWithEnd (sjOf i).observable, Zo i) := by
    rw [hs, el, List.range_eq_range', List.zip_map']
  rw [ez]
  refine setup_loop k 0 _ (by omega) ?_
  have cl : (w.cells ++ [Data.int 0] ++ [Data.lnil] ++ [Data.ofList (List.replicate k .lnil)]).length = 2 * k + 5 := by
    simp [h.cLen]
  have cOld : ∀ (a b : Data) m, m < 2 * k + 2 → m ≠ zser k → m ≠ zmap k →
      (((w.cells ++ [Data.int 0] ++ [Data.lnil] ++ [Data.ofList (List.replicate k .lnil)]).set (zser k) a).set
        (zmap k) b)[m]? = w.cells[m]? := by
    intro a b m hm h1 h2
    rw [set_get_other _ (Ne.symm h2), set_get_other _ (Ne.symm h1), app_old _ _ (by simp [h.cLen] <;> omega),
      app_old _ _ (by simp [h.cLen] <;> omega), app_old _ _ (by rw [h.cLen] <;> omega)]
  have oOld : ∀ (g : Obs → Obs) (l : List Obs) m, m < 2 → (w.obs.modify 1 g ++ l)[m]? = (w.obs.modify 1 g)[m]? := by
    intro g l m hm; exact app_old _ _ (by rw [List.length_modify, h.oLen]; exact hm)
  exact
  { status := h.status, held := hh, user := h.user, trace := h.trace
    cLen := by show (List.set (List.set _ _ _) _ _).length = _; simp [h.cLen]
    sLen := by show (w.slots ++ [none]).length = _; simp [h.sLen]
    oLen := by show (w.obs.modify 1 _ ++ _).length = _; simp [h.oLen]; omega
    root := by
      show (w.obs.modify 1 _ ++ _)[0]? = _
      rw [oOld _ _ _ (by omega), modify_get_other _ _ (by omega)]; exact h.root
    o1 := by
      show (w.obs.modify 1 _ ++ _)[1]? = _
      rw [oOld _ _ _ (by omega), modify_get_same _ _ h.o1]; rfl
    oS := by rw [← h.oS]; exact cOld _ _ _ (by simp [oser]) (by simp [oser, zser] <;> omega) (by simp [oser, zmap] <;> omega)
    oM := by rw [← h.oM]; exact cOld _ _ _ (by simp [omap]) (by simp [omap, zser]) (by simp [omap, zmap] <;> omega)
    oF := by show (w.slots ++ [none])[ofin k]? = _; rw [app_old _ _ (by simp [ofin, h.sLen])]; exact h.oF
    zS := by
      show (List.set (List.set _ (zser k) _) (zmap k) _)[zser k]? = _
      rw [set_get_other _ (by simp [zser, zmap]), List.getElem?_set_self (by rw [cl]; simp [zser] <;> omega)]; simp
    zM := by
      show (List.set (List.set _ (zser k) _) (zmap k) _)[zmap k]? = _
      rw [List.getElem?_set_self (by rw [List.length_set, cl]; simp [zmap] <;> omega)]
      simp only [List.nil_append, Nat.zero_add, List.length_modify, h.oLen]; rfl
    zQ := by
      show (List.set (List.set _ (zser k) _) (zmap k) _)[zq k]? = _
      rw [set_get_other _ (by simp [zq, zmap]), set_get_other _ (by simp [zq, zser]),
        List.getElem?_append_right (by simp [zq, h.cLen])]
      simp [zq, h.cLen, ofList_replicate]
    zF := by show (w.slots ++ [none])[zfin k]? = _; simp [zfin, h.sLen]
    zfresh := by
      intro j' _ hj'
      show (w.obs.modify 1 _ ++ _)[Zo j']? = _
      rw [List.getElem?_append_right (by simp [Zo, h.oLen])]
      simp [Zo, h.oLen, hj', codeObs, zipObs, zPush]
    sfresh := by
      intro j' _ hj'
      obtain ⟨a, b, c, d⟩ := h.sfresh j' hj'
      refine ⟨?_, ?_, ?_, ?_⟩
      · rw [← a]; exact cOld _ _ _ (by omega) (by simp [zser] <;> omega) (by simp [zmap] <;> omega)
      · rw [← b]; exact cOld _ _ _ (by omega) (by simp [zser] <;> omega) (by simp [zmap] <;> omega)
      · show (w.slots ++ [none])[_]? = _; rw [app_old _ _ (by rw [h.sLen] <;> omega)]; exact c
      · show (w.slots ++ [none])[_]? = _; rw [app_old _ _ (by rw [h.sLen] <;> omega)]; exact d
    done := by intro j' hj'; omega }
end Rx.SeqRef
