import RxVerif.Conc.Observer
/-
C19 (and the concurrent clause of C05) for the root `Observer` under concurrent callers:
invariants of the LTS `Rx.ConcObs.step` (RxVerif/Conc/Observer.lean) for every reachable state
(any number of threads, any calls, any interleaving), stated on the ghost log.
-/
namespace Rx.ConcObs

/-! ### event classes -/

/-- start of a terminal callback -/
def Event.isTermStart : Event → Bool
  | .cbStart .error | .cbStart .complete => true
  | _ => false

/-- start of one of the subscriber's three callbacks -/
def Event.isUserCbStart : Event → Bool
  | .cbStart .next | .cbStart .error | .cbStart .complete => true
  | _ => false

def Event.isAcqWNext : Event → Bool
  | .acqW .next _ => true
  | _ => false

/-- events after which `fn_next` is certainly empty: any write-acquisition of `fn_next` (the claim of a terminal or
    the first clearing step of `unsubscribe`), start / return of a terminal callback, return of `unsubscribe` -/
def Event.closing : Event → Bool
  | .acqW .next _ => true
  | .cbStart .error | .cbStart .complete => true
  | .cbReturn .error | .cbReturn .complete => true
  | .callReturn .unsubscribe _ => true
  | _ => false

/-- events after which `is_subscribed()` must answer `false` -/
def Event.deadMark : Event → Bool
  | .acqW .next _ | .acqW .error _ | .acqW .complete _ => true
  | .cbStart .error | .cbStart .complete => true
  | .cbReturn .error | .cbReturn .complete => true
  | .callReturn .unsubscribe _ => true
  | .callReturn .isSubscribed (some false) => true
  | _ => false

theorem Event.closing_deadMark {e : Event} (h : e.closing = true) : e.deadMark = true := by
  cases e with
  | acqW sl f => cases sl <;> simp_all [Event.closing, Event.deadMark]
  | cbStart cb => cases cb <;> simp_all [Event.closing, Event.deadMark]
  | cbReturn cb => cases cb <;> simp_all [Event.closing, Event.deadMark]
  | callReturn op r => cases op <;> simp_all [Event.closing, Event.deadMark]
  | _ => simp_all [Event.closing]

theorem Event.termStart_closing {e : Event} (h : e.isTermStart = true) : e.closing = true := by
  cases e with
  | cbStart cb => cases cb <;> simp_all [Event.closing, Event.isTermStart]
  | _ => simp_all [Event.isTermStart]

theorem Event.acqWNext_closing {e : Event} (h : e.isAcqWNext = true) : e.closing = true := by
  cases e with
  | acqW sl f => cases sl <;> simp_all [Event.closing, Event.isAcqWNext]
  | _ => simp_all [Event.isAcqWNext]

/-- some closure slot is already empty -/
def Shared.dead (sh : Shared) : Prop := sh.sNext = false ∨ sh.sErr = false ∨ sh.sCompl = false

/-! ### list helpers -/

theorem getElem?_snoc_cases {α} {l : List α} {x e : α} {m : Nat} (h : (l ++ [x])[m]? = some e) :
    (m < l.length ∧ l[m]? = some e) ∨ (m = l.length ∧ e = x) := by
  rw [List.getElem?_append] at h
  split at h
  · left; exact ⟨by assumption, h⟩
  · right
    rename_i hlt
    have : m - l.length = 0 := by
      cases hm : m - l.length with
      | zero => rfl
      | succ k => rw [hm] at h; simp at h
    rw [this] at h
    simp at h
    exact ⟨by omega, h.symm⟩

theorem getElem?_snoc_lt {α} {l : List α} {x : α} {m : Nat} (h : m < l.length) : (l ++ [x])[m]? = l[m]? := by
  rw [List.getElem?_append]; simp [h]

theorem lt_of_getElem? {α} {l : List α} {e : α} {m : Nat} (h : l[m]? = some e) : m < l.length :=
  (List.getElem?_eq_some_iff.mp h).1

theorem mem_of_getElem? {α} {l : List α} {e : α} {m : Nat} (h : l[m]? = some e) : e ∈ l :=
  List.mem_of_getElem? h

/-! ### shape of a step -/

/-- what one step does to the stepping thread, the shared memory and the log (`n` = old log length) -/
def Tr (sh : Shared) (n : Nat) (th : Thread) (sh' : Shared) (th' : Thread) (ev : Event) : Prop :=
  (th.pc = .idle ∧ sh' = sh ∧ th'.pc = th'.op.entry ∧ th'.cid = n ∧ ev = .callStart th'.op) ∨
  (th.pc ≠ .idle ∧ th'.op = th.op ∧ th'.cid = th.cid ∧ ∃ k, micro sh th.pc th.op = some (k, sh', th'.pc, ev))

def State.next (s : State) (i : Nat) (sh' : Shared) (th' : Thread) (ev : Event) : State :=
  { sh := sh', threads := s.threads.set i th', log := s.log ++ [⟨i, th'.cid, ev⟩] }

theorem step_shape {s s' : State} {l : Label} (h : step s l = some s') :
    ∃ th th' sh' ev, s.threads[l.tid]? = some th ∧ Tr s.sh s.log.length th sh' th' ev ∧
      s' = s.next l.tid sh' th' ev := by
  unfold step at h
  cases hth : s.threads[l.tid]? with
  | none => simp [hth] at h
  | some th =>
    simp only [hth] at h
    split at h
    · rename_i hidle
      split at h
      · rename_i op _
        simp only [Option.some.injEq] at h
        exact ⟨th, ⟨op.entry, op, s.log.length⟩, s.sh, .callStart op, rfl, Or.inl ⟨hidle, rfl, rfl, rfl, rfl⟩, h.symm⟩
      · simp at h
    · rename_i hne
      split at h
      · simp at h
      · rename_i k sh' pc' ev hm
        split at h
        · simp only [Option.some.injEq] at h
          exact ⟨th, { th with pc := pc' }, sh', ev, rfl, Or.inr ⟨hne, rfl, rfl, k, hm⟩, h.symm⟩
        · simp at h

/-! ### program-counter zones -/

/-- claimed `fn_next` (found it present), terminal callback not started yet -/
def Pc.pre : Pc → Bool
  | .t1 | .t2 | .t3 => true
  | _ => false

/-- this thread itself has emptied `fn_next` during the current call -/
def Pc.gone (pc : Pc) (op : Op) : Bool :=
  match pc with
  | .t1 | .t2 | .t3 | .t4 | .u1 | .u2 | .u3 | .u4 | .u5 | .u6 | .u7 | .u8 => true
  | .ret _ => decide (op = .unsubscribe)
  | _ => false

/-- found `fn_next` present during the current call and has not started its callback yet -/
def Pc.fetched : Pc → Bool
  | .n1 | .t1 | .t2 | .t3 => true
  | _ => false

/-- first micro-step of the call not taken yet -/
def Pc.fresh : Pc → Bool
  | .n0 | .t0 | .u0 | .i0 => true
  | _ => false

def Pc.notU : Pc → Bool
  | .n0 | .n1 | .n2 | .t0 | .t1 | .t2 | .t3 | .t4 | .i0 | .i1 | .i2 => true
  | _ => false

/-- what an `is_subscribed` call that started in a dead state knows -/
def isubLate (sh : Shared) : Pc → Prop
  | .i1 => sh.sErr = false ∨ sh.sCompl = false
  | .i2 => sh.sCompl = false
  | .ret (some r) => r = false
  | _ => True

/-! ### facts about single micro-steps (case analysis on the program counter, once each) -/

section micro
variable {sh sh' : Shared} {pc pc' : Pc} {op : Op} {k : Kind} {ev : Event}

theorem clear_sNext (sh : Shared) (sl : Slot) : (sh.clear sl).sNext = (sh.sNext && decide (sl ≠ .next)) := by
  cases sl <;> simp [Shared.clear]
theorem clear_sErr (sh : Shared) (sl : Slot) : (sh.clear sl).sErr = (sh.sErr && decide (sl ≠ .error)) := by
  cases sl <;> simp [Shared.clear]
theorem clear_sCompl (sh : Shared) (sl : Slot) : (sh.clear sl).sCompl = (sh.sCompl && decide (sl ≠ .complete)) := by
  cases sl <;> simp [Shared.clear]

theorem micro_mono (hm : micro sh pc op = some (k, sh', pc', ev)) :
    (sh.sNext = false → sh'.sNext = false) ∧ (sh.sErr = false → sh'.sErr = false) ∧
    (sh.sCompl = false → sh'.sCompl = false) := by
  cases pc <;> simp only [micro] at hm <;> (try split at hm) <;> simp at hm <;>
    obtain ⟨_, rfl, _, _⟩ := hm <;> simp_all [clear_sNext, clear_sErr, clear_sCompl]

set_option hygiene false in
/-- split `hm : micro sh pc op = some (k, sh', pc', ev)` into the 24 concrete micro-steps -/
macro "micro_split" : tactic =>
  `(tactic| (cases pc <;> (try (rename_i res__; rcases res__ with _ | (_ | _))) <;>
      simp only [micro] at hm <;> (try split at hm) <;> simp at hm <;>
      obtain ⟨rfl, rfl, rfl, rfl⟩ := hm))

macro "zones" : tactic =>
  `(tactic| simp_all [Pc.pre, Pc.gone, Pc.fetched, Pc.fresh, Pc.notU, isubLate, Event.isTermStart, Event.isUserCbStart,
      Event.isAcqWNext, Event.closing, Event.deadMark, Shared.dead, clear_sNext, clear_sErr, clear_sCompl,
      Op.other, Op.own, Op.cb, Op.isErr])

theorem micro_notU (hm : micro sh pc op = some (k, sh', pc', ev)) (h : pc'.notU = true) : pc.notU = true := by
  micro_split <;> (try split at h) <;> zones

theorem micro_gone (hm : micro sh pc op = some (k, sh', pc', ev))
    (hg : pc.gone op = true → sh.sNext = false) (hu : pc.notU = true → op ≠ .unsubscribe)
    (h : pc'.gone op = true) : sh'.sNext = false := by
  micro_split <;> (try split at h) <;> zones

theorem micro_pre (hm : micro sh pc op = some (k, sh', pc', ev)) (h : pc'.pre = true) :
    ev.isTermStart = false ∧ ((pc.pre = true ∧ ∀ f, ev ≠ .acqW .next f) ∨
      (pc = .t0 ∧ sh.sNext = true ∧ ev = .acqW .next true)) := by
  micro_split <;> (try split at h) <;> (try cases op) <;> zones

theorem micro_fetched (hm : micro sh pc op = some (k, sh', pc', ev)) (h : pc'.fetched = true) :
    pc.fetched = true ∨ sh.sNext = true := by
  micro_split <;> (try split at h) <;> zones

theorem micro_fresh (hm : micro sh pc op = some (k, sh', pc', ev)) : pc'.fresh = false := by
  micro_split <;> (try split) <;> zones

theorem micro_isub (hm : micro sh pc op = some (k, sh', pc', ev)) (hl : isubLate sh pc) (hd : sh.dead) :
    isubLate sh' pc' := by
  micro_split <;> (try split) <;> zones

theorem micro_retFalse (hm : micro sh pc op = some (k, sh', pc', ev)) (h : pc' = .ret (some false)) : sh'.dead := by
  micro_split <;> (try split at h) <;> zones

theorem micro_closing (hm : micro sh pc op = some (k, sh', pc', ev))
    (hg : pc.gone op = true → sh.sNext = false) (h : ev.closing = true) : sh'.sNext = false := by
  micro_split <;> (try cases op) <;> zones

theorem micro_dead (hm : micro sh pc op = some (k, sh', pc', ev))
    (hg : pc.gone op = true → sh.sNext = false) (hr : pc = .ret (some false) → sh.dead)
    (h : ev.deadMark = true) : sh'.dead := by
  micro_split <;> (try cases op) <;> zones

theorem micro_termStart (hm : micro sh pc op = some (k, sh', pc', ev)) (h : ev.isTermStart = true) :
    pc.pre = true := by
  micro_split <;> zones

theorem micro_userCb (hm : micro sh pc op = some (k, sh', pc', ev)) (h : ev.isUserCbStart = true) :
    pc.fetched = true := by
  micro_split <;> zones

theorem micro_isubRet (hm : micro sh pc op = some (k, sh', pc', ev)) {r : Bool}
    (h : ev = .callReturn .isSubscribed (some r)) : pc = .ret (some r) := by
  micro_split <;> simp_all

theorem micro_acqWNext (hm : micro sh pc op = some (k, sh', pc', ev)) (h : ev.isAcqWNext = true) :
    pc.fresh = true ∧ ev = .acqW .next sh.sNext := by
  micro_split <;> (try cases op) <;> zones

theorem micro_notCallStart (hm : micro sh pc op = some (k, sh', pc', ev)) (op' : Op) : ev ≠ .callStart op' := by
  micro_split <;> simp

theorem isubLate_mono (h1 : sh.sErr = false → sh'.sErr = false) (h2 : sh.sCompl = false → sh'.sCompl = false)
    (h : isubLate sh pc) : isubLate sh' pc := by
  cases pc with
  | ret res => rcases res with _ | (_ | _) <;> simp_all [isubLate]
  | i1 =>
    simp only [isubLate] at *
    rcases h with h | h
    · exact Or.inl (h1 h)
    · exact Or.inr (h2 h)
  | _ => simp_all [isubLate]

theorem dead_mono (h0 : sh.sNext = false → sh'.sNext = false) (h1 : sh.sErr = false → sh'.sErr = false)
    (h2 : sh.sCompl = false → sh'.sCompl = false) (h : sh.dead) : sh'.dead := by
  rcases h with h | h | h
  · exact Or.inl (h0 h)
  · exact Or.inr (Or.inl (h1 h))
  · exact Or.inr (Or.inr (h2 h))

end micro

/-! ### the invariant -/

/-- what a thread inside a call knows (indexed by its program counter) -/
structure Local (s : State) (i : Nat) (th : Thread) : Prop where
  call : s.log[th.cid]? = some ⟨i, th.cid, .callStart th.op⟩
  notU : th.pc.notU = true → th.op ≠ .unsubscribe
  gone : th.pc.gone th.op = true → s.sh.sNext = false
  pre : th.pc.pre = true → ∀ e ∈ s.log, e.ev.isTermStart = false
  fetched : th.pc.fetched = true → ∀ m e, m < th.cid → s.log[m]? = some e → e.ev.closing = false
  fresh : th.pc.fresh = true → ∀ m e, s.log[m]? = some e → e.cid = th.cid → m = th.cid
  claim : th.pc.pre = true → ∀ e ∈ s.log, e.cid = th.cid → e.ev ≠ .acqW .next false
  isub : (∃ m e, m < th.cid ∧ s.log[m]? = some e ∧ e.ev.deadMark = true) → isubLate s.sh th.pc
  retF : th.pc = .ret (some false) → s.sh.dead

structure Inv (s : State) : Prop where
  loc : ∀ (i : Nat) (th : Thread), s.threads[i]? = some th → th.pc ≠ .idle → Local s i th
  uniq : ∀ (j k : Nat) (tj tk : Thread), s.threads[j]? = some tj → s.threads[k]? = some tk →
    tj.pc.pre = true → tk.pc.pre = true → j = k
  closed : ∀ (e : Entry), e ∈ s.log → e.ev.closing = true → s.sh.sNext = false
  dead : ∀ (e : Entry), e ∈ s.log → e.ev.deadMark = true → s.sh.dead
  wf : ∀ (m : Nat) (e : Entry), s.log[m]? = some e →
    e.cid ≤ m ∧ ∃ op, s.log[e.cid]? = some ⟨e.tid, e.cid, .callStart op⟩
  one : ∀ (i j : Nat) (ei ej : Entry), s.log[i]? = some ei → s.log[j]? = some ej →
    ei.ev.isTermStart = true → ej.ev.isTermStart = true → i = j
  deliv : ∀ (k : Nat) (ek : Entry), s.log[k]? = some ek → ek.ev.isUserCbStart = true →
    ∀ (m : Nat) (e : Entry), m < ek.cid → s.log[m]? = some e → e.ev.closing = false
  issub : ∀ (k : Nat) (ek : Entry) (r : Bool), s.log[k]? = some ek → ek.ev = .callReturn .isSubscribed (some r) →
    (∃ m e, m < ek.cid ∧ s.log[m]? = some e ∧ e.ev.deadMark = true) → r = false
  second : ∀ (i k : Nat) (ei ek : Entry) (f : Bool), i < k → s.log[i]? = some ei → s.log[k]? = some ek →
    ei.ev.isAcqWNext = true → ek.ev = .acqW .next f → f = false
  excl : ∀ (k m : Nat) (ek em : Entry), s.log[k]? = some ek → s.log[m]? = some em →
    ek.ev = .acqW .next false → em.cid = ek.cid → em.ev.isTermStart = false

/-- everything the preservation proof needs to know about the stepping thread -/
structure Facts (s : State) (i : Nat) (th th' : Thread) (sh' : Shared) (ev : Event) : Prop where
  m0 : s.sh.sNext = false → sh'.sNext = false
  m1 : s.sh.sErr = false → sh'.sErr = false
  m2 : s.sh.sCompl = false → sh'.sCompl = false
  cidle : th'.cid ≤ s.log.length
  call' : (s.log ++ [⟨i, th'.cid, ev⟩])[th'.cid]? = some ⟨i, th'.cid, .callStart th'.op⟩
  cidne : ∀ (j : Nat) (tj : Thread), j ≠ i → s.threads[j]? = some tj → tj.pc ≠ .idle → tj.cid ≠ th'.cid
  notU' : th'.pc.notU = true → th'.op ≠ .unsubscribe
  gone' : th'.pc.gone th'.op = true → sh'.sNext = false
  pre' : th'.pc.pre = true → ev.isTermStart = false ∧ (∀ e ∈ s.log, e.ev.isTermStart = false) ∧
    (∀ e ∈ s.log, e.cid = th'.cid → e.ev ≠ .acqW .next false) ∧ ev ≠ .acqW .next false
  preU : th'.pc.pre = true → th.pc.pre = true ∨ s.sh.sNext = true
  fetched' : th'.pc.fetched = true → ∀ (m : Nat) (e : Entry), m < th'.cid → s.log[m]? = some e → e.ev.closing = false
  fresh' : th'.pc.fresh = true → th'.cid = s.log.length
  isub' : (∃ m e, m < th'.cid ∧ s.log[m]? = some e ∧ e.ev.deadMark = true) → isubLate sh' th'.pc
  retF' : th'.pc = .ret (some false) → sh'.dead
  closing : ev.closing = true → sh'.sNext = false
  deadM : ev.deadMark = true → sh'.dead
  termS : ev.isTermStart = true → th.pc.pre = true ∧ (∀ e ∈ s.log, e.ev.isTermStart = false) ∧
    (∀ e ∈ s.log, e.cid = th'.cid → e.ev ≠ .acqW .next false)
  userCb : ev.isUserCbStart = true → ∀ (m : Nat) (e : Entry), m < th'.cid → s.log[m]? = some e → e.ev.closing = false
  isubR : ∀ (r : Bool), ev = .callReturn .isSubscribed (some r) →
    (∃ m e, m < th'.cid ∧ s.log[m]? = some e ∧ e.ev.deadMark = true) → r = false
  acqWN : ev.isAcqWNext = true → ev = .acqW .next s.sh.sNext ∧
    ∀ (m : Nat) (e : Entry), s.log[m]? = some e → e.cid = th'.cid → e.ev.isTermStart = false

theorem Inv.noClosing {s : State} (h : Inv s) (hn : s.sh.sNext = true) (e : Entry) (he : e ∈ s.log) :
    e.ev.closing = false := by
  cases hc : e.ev.closing with
  | false => rfl
  | true => have := h.closed e he hc; simp [hn] at this

theorem facts_idle {s : State} (h : Inv s) {i : Nat} {th th' : Thread} {sh' : Shared} {ev : Event}
    (_hth : s.threads[i]? = some th)
    (_hidle : th.pc = .idle) (hsh : sh' = s.sh) (hpc : th'.pc = th'.op.entry) (hcid : th'.cid = s.log.length)
    (hev : ev = .callStart th'.op) : Facts s i th th' sh' ev := by
  subst hsh hev
  have hentry : th'.pc = .n0 ∨ th'.pc = .t0 ∨ th'.pc = .u0 ∨ th'.pc = .i0 := by
    rw [hpc]; cases th'.op <;> simp [Op.entry]
  constructor
  · exact id
  · exact id
  · exact id
  · omega
  · rw [hcid]; simp
  · intro j tj _ hj hne
    have := lt_of_getElem? (h.loc j tj hj hne).call
    omega
  · intro hu hop
    rw [hpc, hop] at hu; simp [Op.entry, Pc.notU] at hu
  · intro hg
    rcases hentry with h | h | h | h <;> simp [h, Pc.gone] at hg
  · intro hp
    rcases hentry with h | h | h | h <;> simp [h, Pc.pre] at hp
  · intro hp
    rcases hentry with h | h | h | h <;> simp [h, Pc.pre] at hp
  · intro hp
    rcases hentry with h | h | h | h <;> simp [h, Pc.fetched] at hp
  · intro _; exact hcid
  · intro _
    rcases hentry with h | h | h | h <;> simp [h, isubLate]
  · intro hp
    rcases hentry with h | h | h | h <;> simp [h] at hp
  · intro hc; simp [Event.closing] at hc
  · intro hc; simp [Event.deadMark] at hc
  · intro hc; simp [Event.isTermStart] at hc
  · intro hc; simp [Event.isUserCbStart] at hc
  · intro r hc; simp at hc
  · intro hc; simp [Event.isAcqWNext] at hc

theorem facts_micro {s : State} (h : Inv s) {i : Nat} {th th' : Thread} {sh' : Shared} {ev : Event} {k : Kind}
    (hth : s.threads[i]? = some th)
    (hne : th.pc ≠ .idle) (hop : th'.op = th.op) (hcid : th'.cid = th.cid)
    (hm : micro s.sh th.pc th.op = some (k, sh', th'.pc, ev)) : Facts s i th th' sh' ev := by
  have hL := h.loc i th hth hne
  have hlt := lt_of_getElem? hL.call
  obtain ⟨m0, m1, m2⟩ := micro_mono hm
  have hnoTS : s.sh.sNext = true → ∀ e ∈ s.log, e.ev.isTermStart = false := by
    intro hn e he
    cases hc : e.ev.isTermStart with
    | false => rfl
    | true => have := h.noClosing hn e he; simp [Event.termStart_closing hc] at this
  constructor
  all_goals (try simp only [hop, hcid])
  · exact m0
  · exact m1
  · exact m2
  · omega
  · rw [getElem?_snoc_lt hlt]; exact hL.call
  · intro j tj hji hj hnej heq
    have hc := (h.loc j tj hj hnej).call
    rw [heq, hL.call] at hc
    simp at hc
    exact hji hc.1.symm
  · intro hu; exact hL.notU (micro_notU hm hu)
  · intro hg; exact micro_gone hm hL.gone hL.notU hg
  · intro hp
    obtain ⟨h1, h2⟩ := micro_pre hm hp
    refine ⟨h1, ?_⟩
    rcases h2 with ⟨hpre, hnf⟩ | ⟨_, hn, hev⟩
    · exact ⟨hL.pre hpre, hL.claim hpre, hnf false⟩
    · refine ⟨hnoTS hn, ?_, by simp [hev]⟩
      intro e he _ heq
      have := h.noClosing hn e he
      simp [heq, Event.closing] at this
  · intro hp
    rcases (micro_pre hm hp).2 with ⟨hpre, _⟩ | ⟨_, hn, _⟩
    · exact Or.inl hpre
    · exact Or.inr hn
  · intro hf m e hmc he
    rcases micro_fetched hm hf with hf' | hn
    · exact hL.fetched hf' m e hmc he
    · exact h.noClosing hn e (mem_of_getElem? he)
  · intro hf; simp [micro_fresh hm] at hf
  · intro hlate
    obtain ⟨m, e, _, he, hd⟩ := hlate
    exact micro_isub hm (hL.isub ⟨m, e, by assumption, he, hd⟩) (h.dead e (mem_of_getElem? he) hd)
  · intro hr; exact micro_retFalse hm hr
  · intro hc; exact micro_closing hm hL.gone hc
  · intro hc; exact micro_dead hm hL.gone hL.retF hc
  · intro hc
    have hpre := micro_termStart hm hc
    exact ⟨hpre, hL.pre hpre, hL.claim hpre⟩
  · intro hc; exact hL.fetched (micro_userCb hm hc)
  · intro r hc hlate
    have hpc := micro_isubRet hm hc
    have := hL.isub hlate
    rw [hpc] at this
    exact this
  · intro hc
    obtain ⟨hf, hev⟩ := micro_acqWNext hm hc
    refine ⟨hev, ?_⟩
    intro m e he hec
    have := hL.fresh hf m e he hec
    subst this
    rw [hL.call] at he
    simp at he
    subst he
    rfl

theorem facts_of_tr {s : State} (h : Inv s) {i : Nat} {th th' : Thread} {sh' : Shared} {ev : Event}
    (hth : s.threads[i]? = some th) (tr : Tr s.sh s.log.length th sh' th' ev) : Facts s i th th' sh' ev := by
  rcases tr with ⟨a, b, c, d, e⟩ | ⟨a, b, c, k, d⟩
  · exact facts_idle h hth a b c d e
  · exact facts_micro h hth a b c d

/-! ### preservation -/

theorem late_snoc {log : List Entry} {x : Entry} {c : Nat} (hc : c ≤ log.length)
    (h : ∃ m e, m < c ∧ (log ++ [x])[m]? = some e ∧ e.ev.deadMark = true) :
    ∃ m e, m < c ∧ log[m]? = some e ∧ e.ev.deadMark = true := by
  obtain ⟨m, e, hm, he, hd⟩ := h
  rw [getElem?_snoc_lt (by omega)] at he
  exact ⟨m, e, hm, he, hd⟩

theorem threads_set_cases {ts : List Thread} {i j : Nat} {th th' tj : Thread} (hth : ts[i]? = some th)
    (hj : (ts.set i th')[j]? = some tj) : (j = i ∧ tj = th') ∨ (j ≠ i ∧ ts[j]? = some tj) := by
  have hlt := lt_of_getElem? hth
  rw [List.getElem?_set] at hj
  by_cases hij : i = j
  · subst hij; simp [hlt] at hj; exact Or.inl ⟨rfl, hj.symm⟩
  · simp [hij] at hj; exact Or.inr ⟨fun h => hij h.symm, hj⟩

theorem Pc.pre_gone {pc : Pc} (op : Op) (h : pc.pre = true) : pc.gone op = true := by
  cases pc <;> simp_all [Pc.pre, Pc.gone]

theorem Pc.pre_ne_idle {pc : Pc} (h : pc.pre = true) : pc ≠ .idle := by
  cases pc <;> simp_all [Pc.pre]

theorem local_self {s : State} (h : Inv s) {i : Nat} {th th' : Thread} {sh' : Shared} {ev : Event}
    (F : Facts s i th th' sh' ev) : Local (s.next i sh' th' ev) i th' := by
  have hc := F.cidle
  constructor
  · exact F.call'
  · exact F.notU'
  · exact F.gone'
  · intro hp e he
    simp only [State.next, List.mem_append, List.mem_singleton] at he
    rcases he with he | rfl
    · exact (F.pre' hp).2.1 e he
    · exact (F.pre' hp).1
  · intro hf m e hm he
    simp only [State.next] at he
    rw [getElem?_snoc_lt (by omega)] at he
    exact F.fetched' hf m e hm he
  · intro hf m e he hec
    have hn := F.fresh' hf
    simp only [State.next] at he
    rcases getElem?_snoc_cases he with ⟨hlt, he⟩ | ⟨hm, _⟩
    · have := (h.wf m e he).1; omega
    · omega
  · intro hp e he hec
    simp only [State.next, List.mem_append, List.mem_singleton] at he
    rcases he with he | rfl
    · exact (F.pre' hp).2.2.1 e he hec
    · exact (F.pre' hp).2.2.2
  · intro hl
    exact F.isub' (late_snoc hc hl)
  · exact F.retF'

theorem local_other {s : State} (h : Inv s) {i j : Nat} {th th' tj : Thread} {sh' : Shared} {ev : Event}
    (hth : s.threads[i]? = some th) (F : Facts s i th th' sh' ev)
    (hji : j ≠ i) (hj : s.threads[j]? = some tj) (hne : tj.pc ≠ .idle) : Local (s.next i sh' th' ev) j tj := by
  have hL := h.loc j tj hj hne
  have hlt := lt_of_getElem? hL.call
  have hcne := F.cidne j tj hji hj hne
  constructor
  · simp only [State.next]; rw [getElem?_snoc_lt hlt]; exact hL.call
  · exact hL.notU
  · intro hg; exact F.m0 (hL.gone hg)
  · intro hp e he
    simp only [State.next, List.mem_append, List.mem_singleton] at he
    rcases he with he | rfl
    · exact hL.pre hp e he
    · cases hts : ev.isTermStart with
      | false => rfl
      | true => exact absurd (h.uniq j i tj th hj hth hp (F.termS hts).1) hji
  · intro hf m e hm he
    simp only [State.next] at he
    rw [getElem?_snoc_lt (by omega)] at he
    exact hL.fetched hf m e hm he
  · intro hf m e he hec
    simp only [State.next] at he
    rcases getElem?_snoc_cases he with ⟨_, he⟩ | ⟨_, rfl⟩
    · exact hL.fresh hf m e he hec
    · exact absurd hec.symm hcne
  · intro hp e he hec
    simp only [State.next, List.mem_append, List.mem_singleton] at he
    rcases he with he | rfl
    · exact hL.claim hp e he hec
    · exact absurd hec.symm hcne
  · intro hl
    exact isubLate_mono F.m1 F.m2 (hL.isub (late_snoc (by omega) hl))
  · intro hr; exact dead_mono F.m0 F.m1 F.m2 (hL.retF hr)

theorem inv_of_facts {s : State} (h : Inv s) {i : Nat} {th th' : Thread} {sh' : Shared} {ev : Event}
    (hth : s.threads[i]? = some th) (F : Facts s i th th' sh' ev) : Inv (s.next i sh' th' ev) := by
  have hc := F.cidle
  constructor
  · -- loc
    intro j tj hj hne
    rcases threads_set_cases hth hj with ⟨rfl, rfl⟩ | ⟨hji, hj⟩
    · exact local_self h F
    · exact local_other h hth F hji hj hne
  · -- uniq
    intro j k tj tk hj hk hpj hpk
    have key : ∀ (k : Nat) (tk : Thread), k ≠ i → s.threads[k]? = some tk → tk.pc.pre = true → th'.pc.pre = true →
        False := by
      intro k tk hki hk hpk hp'
      rcases F.preU hp' with hp | hn
      · exact hki (h.uniq k i tk th hk hth hpk hp)
      · have := (h.loc k tk hk (Pc.pre_ne_idle hpk)).gone (Pc.pre_gone _ hpk)
        simp [hn] at this
    rcases threads_set_cases hth hj with ⟨hji, hj'⟩ | ⟨hji, hj'⟩ <;>
      rcases threads_set_cases hth hk with ⟨hki, hk'⟩ | ⟨hki, hk'⟩
    · omega
    · subst hj'; exact (key k tk hki hk' hpk hpj).elim
    · subst hk'; exact (key j tj hji hj' hpj hpk).elim
    · exact h.uniq j k tj tk hj' hk' hpj hpk
  · -- closed
    intro e he hcl
    simp only [State.next, List.mem_append, List.mem_singleton] at he
    rcases he with he | rfl
    · exact F.m0 (h.closed e he hcl)
    · exact F.closing hcl
  · -- dead
    intro e he hd
    simp only [State.next, List.mem_append, List.mem_singleton] at he
    rcases he with he | rfl
    · exact dead_mono F.m0 F.m1 F.m2 (h.dead e he hd)
    · exact F.deadM hd
  · -- wf
    intro m e he
    simp only [State.next] at he ⊢
    rcases getElem?_snoc_cases he with ⟨hlt, he⟩ | ⟨rfl, rfl⟩
    · obtain ⟨h1, op, h2⟩ := h.wf m e he
      refine ⟨h1, op, ?_⟩
      rw [getElem?_snoc_lt (by omega)]; exact h2
    · exact ⟨hc, th'.op, F.call'⟩
  · -- one
    intro a b ea eb ha hb hta htb
    simp only [State.next] at ha hb
    rcases getElem?_snoc_cases ha with ⟨_, ha⟩ | ⟨rfl, rfl⟩ <;>
      rcases getElem?_snoc_cases hb with ⟨_, hb⟩ | ⟨rfl, rfl⟩
    · exact h.one a b ea eb ha hb hta htb
    · have := (F.termS htb).2.1 ea (mem_of_getElem? ha); simp [hta] at this
    · have := (F.termS hta).2.1 eb (mem_of_getElem? hb); simp [htb] at this
    · rfl
  · -- deliv
    intro k ek hk hu m e hm he
    simp only [State.next] at hk he
    rcases getElem?_snoc_cases hk with ⟨hlt, hk⟩ | ⟨rfl, rfl⟩
    · have := (h.wf k ek hk).1
      rw [getElem?_snoc_lt (by omega)] at he
      exact h.deliv k ek hk hu m e hm he
    · simp only at hm
      rw [getElem?_snoc_lt (by omega)] at he
      exact F.userCb hu m e hm he
  · -- issub
    intro k ek r hk hev hl
    simp only [State.next] at hk hl
    rcases getElem?_snoc_cases hk with ⟨hlt, hk⟩ | ⟨rfl, rfl⟩
    · have := (h.wf k ek hk).1
      exact h.issub k ek r hk hev (late_snoc (by omega) hl)
    · exact F.isubR r hev (late_snoc hc hl)
  · -- second
    intro a k ea ek f hak ha hk hea hek
    simp only [State.next] at ha hk
    rcases getElem?_snoc_cases hk with ⟨hlt, hk⟩ | ⟨rfl, rfl⟩
    · rw [getElem?_snoc_lt (by omega)] at ha
      exact h.second a k ea ek f hak ha hk hea hek
    · rw [getElem?_snoc_lt hak] at ha
      simp only at hek
      have h1 := (F.acqWN (by simp [hek, Event.isAcqWNext])).1
      rw [hek] at h1
      have h2 := h.closed ea (mem_of_getElem? ha) (Event.acqWNext_closing hea)
      simp [h2] at h1
      exact h1
  · -- excl
    intro k m ek em hk hm hek hcid
    simp only [State.next] at hk hm
    rcases getElem?_snoc_cases hk with ⟨_, hk⟩ | ⟨rfl, rfl⟩ <;>
      rcases getElem?_snoc_cases hm with ⟨_, hm⟩ | ⟨rfl, rfl⟩
    · exact h.excl k m ek em hk hm hek hcid
    · cases hts : ev.isTermStart with
      | false => rfl
      | true => exact absurd hek ((F.termS hts).2.2 ek (mem_of_getElem? hk) hcid.symm)
    · simp only at hek hcid
      exact (F.acqWN (by simp [hek, Event.isAcqWNext])).2 m em hm hcid
    · simp only at hek; simp [hek, Event.isTermStart]

theorem inv_init (n : Nat) (tear : Bool) : Inv (init n tear) := by
  constructor
  · intro i th hi hne
    simp [init, List.getElem?_replicate] at hi
    obtain ⟨_, rfl⟩ := hi
    simp at hne
  · intro j k tj tk hj _ hp
    simp [init, List.getElem?_replicate] at hj
    obtain ⟨_, rfl⟩ := hj
    simp [Pc.pre] at hp
  all_goals simp [init]

theorem inv_step {s s' : State} {l : Label} (h : Inv s) (hs : step s l = some s') : Inv s' := by
  obtain ⟨th, th', sh', ev, hth, tr, rfl⟩ := step_shape hs
  exact inv_of_facts h hth (facts_of_tr h hth tr)

theorem inv_reachable {s : State} (hr : Reachable s) : Inv s := by
  induction hr with
  | init n tear => exact inv_init n tear
  | step _ hs ih => exact inv_step ih hs

/-! ### main theorems (all reachable states: any number of threads, any calls, any interleaving) -/

theorem run_reachable {n : Nat} {tear : Bool} {ls : List (Nat × Kind)} {s : State} (h : run n tear ls = some s) :
    Reachable s :=
  replay_reachable _ (Reachable.init n tear) h

/-- every log entry belongs to a call: its `cid` is the index of an earlier `callStart` of the same thread -/
theorem call_id_wf {s : State} (hr : Reachable s) {k : Nat} {e : Entry} (hk : s.log[k]? = some e) :
    e.cid ≤ k ∧ ∃ op, s.log[e.cid]? = some ⟨e.tid, e.cid, .callStart op⟩ :=
  (inv_reachable hr).wf k e hk

/-- C19, first half: at most one terminal callback (error or complete) is ever started. -/
theorem at_most_one_terminal_start {s : State} (hr : Reachable s) {i j : Nat} {ei ej : Entry}
    (hi : s.log[i]? = some ei) (hj : s.log[j]? = some ej)
    (hti : ei.ev.isTermStart = true) (htj : ej.ev.isTermStart = true) : i = j :=
  (inv_reachable hr).one i j ei ej hi hj hti htj

theorem countP_le_one_of_unique {α} (p : α → Bool) :
    ∀ (l : List α), (∀ (i j : Nat) (a b : α), l[i]? = some a → l[j]? = some b → p a = true → p b = true → i = j) →
      l.countP p ≤ 1
  | [], _ => by simp
  | x :: xs, h => by
    have ih := countP_le_one_of_unique p xs (by
      intro i j a b ha hb pa pb
      have := h (i + 1) (j + 1) a b (by simpa using ha) (by simpa using hb) pa pb
      omega)
    rw [List.countP_cons]
    by_cases hx : p x = true
    · have : xs.countP p = 0 := by
        rw [List.countP_eq_zero]
        intro a ha pa
        obtain ⟨j, hj⟩ := List.getElem?_of_mem ha
        have := h 0 (j + 1) x a (by simp) (by simpa using hj) hx pa
        omega
      simp [hx, this]
    · simp [hx]; exact ih

/-- the same, as a count -/
theorem at_most_one_terminal_start_count {s : State} (hr : Reachable s) :
    s.log.countP (fun e => e.ev.isTermStart) ≤ 1 :=
  countP_le_one_of_unique _ _ (fun _ _ _ _ hi hj hti htj => at_most_one_terminal_start hr hi hj hti htj)

/-- General form: once a closing event (write-acquisition of `fn_next`, start or return of a terminal callback,
    return of `unsubscribe`) is in the log at index `i`, no call that STARTS later (`i < cid`) ever gets one of
    the subscriber's callbacks (next / error / complete) started. -/
theorem no_delivery_after_close {s : State} (hr : Reachable s) {i k : Nat} {ei ek : Entry}
    (hi : s.log[i]? = some ei) (hcl : ei.ev.closing = true)
    (hk : s.log[k]? = some ek) (hu : ek.ev.isUserCbStart = true) : ¬ i < ek.cid := by
  intro hlt
  have := (inv_reachable hr).deliv k ek hk hu i ei hlt hi
  simp [hcl] at this

/-- C19, second half: a `next` callback (entry `k`, thread `t`, call `c` = log index of that call's `callStart`)
    never belongs to a call that started after a terminal callback returned (entry `i`). -/
theorem no_next_after_terminal_returned {s : State} (hr : Reachable s) {i k t' c' t c : Nat} {cb : Cb}
    (hcb : cb = .error ∨ cb = .complete)
    (hi : s.log[i]? = some ⟨t', c', .cbReturn cb⟩)
    (hk : s.log[k]? = some ⟨t, c, .cbStart .next⟩) : ¬ i < c :=
  no_delivery_after_close hr hi (by rcases hcb with rfl | rfl <;> rfl) hk rfl

/-- stronger: not even after a terminal callback STARTED -/
theorem no_next_after_terminal_started {s : State} (hr : Reachable s) {i k t' c' t c : Nat} {cb : Cb}
    (hcb : cb = .error ∨ cb = .complete)
    (hi : s.log[i]? = some ⟨t', c', .cbStart cb⟩)
    (hk : s.log[k]? = some ⟨t, c, .cbStart .next⟩) : ¬ i < c :=
  no_delivery_after_close hr hi (by rcases hcb with rfl | rfl <;> rfl) hk rfl

/-- C05 (concurrent): no terminal callback for a call that started after an `unsubscribe()` returned -/
theorem no_terminal_after_unsubscribe_returned {s : State} (hr : Reachable s) {i k tu cu t c : Nat} {r : Option Bool}
    {cb : Cb} (hcb : cb = .error ∨ cb = .complete)
    (hi : s.log[i]? = some ⟨tu, cu, .callReturn .unsubscribe r⟩)
    (hk : s.log[k]? = some ⟨t, c, .cbStart cb⟩) : ¬ i < c :=
  no_delivery_after_close hr hi rfl hk (by rcases hcb with rfl | rfl <;> rfl)

/-- C05 (concurrent): no `next` callback for a call that started after an `unsubscribe()` returned -/
theorem no_next_after_unsubscribe_returned {s : State} (hr : Reachable s) {i k tu cu t c : Nat} {r : Option Bool}
    (hi : s.log[i]? = some ⟨tu, cu, .callReturn .unsubscribe r⟩)
    (hk : s.log[k]? = some ⟨t, c, .cbStart .next⟩) : ¬ i < c :=
  no_delivery_after_close hr hi rfl hk rfl

/-- stronger: already the FIRST clearing step of `unsubscribe` (observer.rs:54, the write-acquisition of `fn_next`)
    cuts off every call that starts later -/
theorem no_delivery_after_unsubscribe_first_clear {s : State} (hr : Reachable s) {i k tu cu : Nat} {f : Bool}
    {ek : Entry} (hi : s.log[i]? = some ⟨tu, cu, .acqW .next f⟩)
    (hk : s.log[k]? = some ek) (hu : ek.ev.isUserCbStart = true) : ¬ i < ek.cid :=
  no_delivery_after_close hr hi rfl hk hu

/-- General form: after any dead-mark (a slot was cleared, a terminal callback started/returned, `unsubscribe`
    returned, or `is_subscribed` answered false), every `is_subscribed` call that starts later answers false. -/
theorem is_subscribed_false_after_dead {s : State} (hr : Reachable s) {i k t c : Nat} {ei : Entry} {r : Bool}
    (hi : s.log[i]? = some ei) (hd : ei.ev.deadMark = true)
    (hk : s.log[k]? = some ⟨t, c, .callReturn .isSubscribed (some r)⟩) (hic : i < c) : r = false :=
  (inv_reachable hr).issub k _ r hk rfl ⟨i, ei, hic, hi, hd⟩

/-- `is_subscribed()` never goes from false back to true -/
theorem is_subscribed_monotone {s : State} (hr : Reachable s) {i k t1 c1 t2 c2 : Nat} {r : Bool}
    (hi : s.log[i]? = some ⟨t1, c1, .callReturn .isSubscribed (some false)⟩)
    (hk : s.log[k]? = some ⟨t2, c2, .callReturn .isSubscribed (some r)⟩) (hic : i < c2) : r = false :=
  is_subscribed_false_after_dead hr hi rfl hk hic

theorem is_subscribed_false_after_terminal_start {s : State} (hr : Reachable s) {i k t1 c1 t2 c2 : Nat} {r : Bool}
    {cb : Cb} (hcb : cb = .error ∨ cb = .complete)
    (hi : s.log[i]? = some ⟨t1, c1, .cbStart cb⟩)
    (hk : s.log[k]? = some ⟨t2, c2, .callReturn .isSubscribed (some r)⟩) (hic : i < c2) : r = false :=
  is_subscribed_false_after_dead hr hi (by rcases hcb with rfl | rfl <;> rfl) hk hic

/-- after the first clearing step of an `unsubscribe` (or the claim step of a terminal) -/
theorem is_subscribed_false_after_first_clear {s : State} (hr : Reachable s) {i k t1 c1 t2 c2 : Nat} {f r : Bool}
    (hi : s.log[i]? = some ⟨t1, c1, .acqW .next f⟩)
    (hk : s.log[k]? = some ⟨t2, c2, .callReturn .isSubscribed (some r)⟩) (hic : i < c2) : r = false :=
  is_subscribed_false_after_dead hr hi rfl hk hic

theorem is_subscribed_false_after_unsubscribe_returned {s : State} (hr : Reachable s) {i k t1 c1 t2 c2 : Nat}
    {r : Bool} {ru : Option Bool}
    (hi : s.log[i]? = some ⟨t1, c1, .callReturn .unsubscribe ru⟩)
    (hk : s.log[k]? = some ⟨t2, c2, .callReturn .isSubscribed (some r)⟩) (hic : i < c2) : r = false :=
  is_subscribed_false_after_dead hr hi rfl hk hic

/-- state form: an empty closure slot stays empty, and `dead` is stable -/
theorem slots_monotone {s s' : State} {l : Label} (hs : step s l = some s') :
    (s.sh.sNext = false → s'.sh.sNext = false) ∧ (s.sh.sErr = false → s'.sh.sErr = false) ∧
    (s.sh.sCompl = false → s'.sh.sCompl = false) := by
  obtain ⟨th, th', sh', ev, _, tr, rfl⟩ := step_shape hs
  rcases tr with ⟨_, rfl, _⟩ | ⟨_, _, _, k, hm⟩
  · exact ⟨id, id, id⟩
  · exact micro_mono hm

/-- `terminal_excludes`: if some write-acquisition of `fn_next` (entry `i`: the first clearing step of an
    `unsubscribe`, or another terminal's claim) precedes the claim step of a call (entry `k`), that claim finds
    the slot empty and the call never starts a terminal callback. -/
theorem terminal_excludes {s : State} (hr : Reachable s) {i k tu cu t c : Nat} {fu f : Bool}
    (hi : s.log[i]? = some ⟨tu, cu, .acqW .next fu⟩)
    (hk : s.log[k]? = some ⟨t, c, .acqW .next f⟩) (hik : i < k) :
    f = false ∧ ∀ (m : Nat) (em : Entry), s.log[m]? = some em → em.cid = c → em.ev.isTermStart = false := by
  have h := inv_reachable hr
  have hf : f = false := h.second i k _ _ f hik hi hk rfl rfl
  subst hf
  exact ⟨rfl, fun m em hm hc => h.excl k m _ em hk hm rfl hc⟩

/-- a claim that found `fn_next` empty never fires (whoever emptied it) -/
theorem failed_claim_never_fires {s : State} (hr : Reachable s) {k m t c : Nat} {em : Entry}
    (hk : s.log[k]? = some ⟨t, c, .acqW .next false⟩) (hm : s.log[m]? = some em) (hc : em.cid = c) :
    em.ev.isTermStart = false :=
  (inv_reachable hr).excl k m _ em hk hm rfl hc

/-! ### every entry is an event of the protocol of the call it is tagged with -/

/-- program counters of the protocol of `op` -/
def Pc.zoneOk : Pc → Op → Bool
  | .idle, _ => true
  | .n0, .next _ | .n1, .next _ | .n2, .next _ => true
  | .t0, .error _ | .t1, .error _ | .t2, .error _ | .t3, .error _ | .t4, .error _ => true
  | .t0, .complete | .t1, .complete | .t2, .complete | .t3, .complete | .t4, .complete => true
  | .u0, .unsubscribe | .u1, .unsubscribe | .u2, .unsubscribe | .u3, .unsubscribe | .u4, .unsubscribe
  | .u5, .unsubscribe | .u6, .unsubscribe | .u7, .unsubscribe | .u8, .unsubscribe => true
  | .i0, .isSubscribed | .i1, .isSubscribed | .i2, .isSubscribed => true
  | .ret (some _), .isSubscribed => true
  | .ret none, .next _ | .ret none, .error _ | .ret none, .complete | .ret none, .unsubscribe => true
  | _, _ => false

/-- events that a call of `op` can log -/
def Event.okFor : Event → Op → Bool
  | .callStart op', op => decide (op' = op)
  | .callReturn op' (some _), .isSubscribed => decide (op' = .isSubscribed)
  | .callReturn op' none, .next d => decide (op' = .next d)
  | .callReturn op' none, .error e => decide (op' = .error e)
  | .callReturn op' none, .complete => decide (op' = .complete)
  | .callReturn op' none, .unsubscribe => decide (op' = .unsubscribe)
  | .acqR .next _, .next _ | .cbStart .next, .next _ | .cbReturn .next, .next _ => true
  | .acqW .next _, .error _ | .acqW .complete _, .error _ | .acqW .error _, .error _
  | .cbStart .error, .error _ | .cbReturn .error, .error _ => true
  | .acqW .next _, .complete | .acqW .error _, .complete | .acqW .complete _, .complete
  | .cbStart .complete, .complete | .cbReturn .complete, .complete => true
  | .acqW .next _, .unsubscribe | .acqW .error _, .unsubscribe | .acqW .complete _, .unsubscribe
  | .acqR .teardown _, .unsubscribe | .acqR .tearFn _, .unsubscribe | .cbStart .teardown, .unsubscribe
  | .cbReturn .teardown, .unsubscribe | .relR .teardown, .unsubscribe | .acqW .teardown _, .unsubscribe => true
  | .acqR .next _, .isSubscribed | .acqR .error _, .isSubscribed | .acqR .complete _, .isSubscribed => true
  | _, _ => false

theorem micro_ok {sh sh' : Shared} {pc pc' : Pc} {op : Op} {k : Kind} {ev : Event}
    (hm : micro sh pc op = some (k, sh', pc', ev)) (hz : pc.zoneOk op = true) :
    pc'.zoneOk op = true ∧ ev.okFor op = true := by
  micro_split <;> cases op <;> simp [Pc.zoneOk] at hz <;> (try split) <;>
    simp [Pc.zoneOk, Event.okFor, Op.other, Op.own, Op.cb, Op.isErr]

structure Inv2 (s : State) : Prop where
  zone : ∀ (i : Nat) (th : Thread), s.threads[i]? = some th → th.pc.zoneOk th.op = true
  ok : ∀ (k : Nat) (e : Entry), s.log[k]? = some e →
    ∃ op, s.log[e.cid]? = some ⟨e.tid, e.cid, .callStart op⟩ ∧ e.ev.okFor op = true

theorem inv2_step {s s' : State} {l : Label} (h : Inv s) (h2 : Inv2 s) (hs : step s l = some s') : Inv2 s' := by
  obtain ⟨th, th', sh', ev, hth, tr, rfl⟩ := step_shape hs
  have F := facts_of_tr h hth tr
  have hz := h2.zone _ th hth
  have key : th'.pc.zoneOk th'.op = true ∧ ev.okFor th'.op = true := by
    rcases tr with ⟨_, _, hpc, _, hev⟩ | ⟨_, hop, _, k, hm⟩
    · rw [hpc, hev]; cases th'.op <;> simp [Op.entry, Pc.zoneOk, Event.okFor]
    · rw [hop]; exact micro_ok hm hz
  constructor
  · intro j tj hj
    rcases threads_set_cases hth hj with ⟨_, rfl⟩ | ⟨_, hj⟩
    · exact key.1
    · exact h2.zone j tj hj
  · intro k e hk
    simp only [State.next] at hk ⊢
    rcases getElem?_snoc_cases hk with ⟨hlt, hk⟩ | ⟨rfl, rfl⟩
    · obtain ⟨op, h1, h3⟩ := h2.ok k e hk
      have := (h.wf k e hk).1
      exact ⟨op, by rw [getElem?_snoc_lt (by omega)]; exact h1, h3⟩
    · exact ⟨th'.op, F.call', key.2⟩

theorem inv2_reachable {s : State} (hr : Reachable s) : Inv2 s := by
  induction hr with
  | init n tear =>
    constructor
    · intro i th hi
      simp [init, List.getElem?_replicate] at hi
      obtain ⟨_, rfl⟩ := hi
      rfl
    · simp [init]
  | step hr' hs ih => exact inv2_step (inv_reachable hr') ih hs

/-- every entry is tagged with a call of its own thread and is an event of that call's protocol -/
theorem entry_matches_call {s : State} (hr : Reachable s) {k : Nat} {e : Entry} (hk : s.log[k]? = some e) :
    e.cid ≤ k ∧ ∃ op, s.log[e.cid]? = some ⟨e.tid, e.cid, .callStart op⟩ ∧ e.ev.okFor op = true :=
  ⟨(call_id_wf hr hk).1, (inv2_reachable hr).ok k e hk⟩

/-- in particular: a `next` callback entry is tagged with a `next v` call of the same thread, a terminal callback
    with an `error`/`complete` call, an `is_subscribed` result with an `isSubscribed` call -/
theorem cbStart_next_call {s : State} (hr : Reachable s) {k t c : Nat}
    (hk : s.log[k]? = some ⟨t, c, .cbStart .next⟩) : c < k ∧ ∃ d, s.log[c]? = some ⟨t, c, .callStart (.next d)⟩ := by
  obtain ⟨hle, op, h1, h2⟩ := entry_matches_call hr hk
  simp only at hle h1 h2
  have hne : c ≠ k := by
    rintro rfl; rw [hk] at h1; simp at h1
  refine ⟨by omega, ?_⟩
  cases op <;> simp [Event.okFor] at h2
  exact ⟨_, h1⟩

theorem cbStart_terminal_call {s : State} (hr : Reachable s) {k t c : Nat} {cb : Cb} (hcb : cb = .error ∨ cb = .complete)
    (hk : s.log[k]? = some ⟨t, c, .cbStart cb⟩) :
    c < k ∧ ∃ op, (op.isErr = true ∨ op = .complete) ∧ s.log[c]? = some ⟨t, c, .callStart op⟩ := by
  obtain ⟨hle, op, h1, h2⟩ := entry_matches_call hr hk
  simp only at hle h1 h2
  have hne : c ≠ k := by
    rintro rfl; rw [hk] at h1; simp at h1
  refine ⟨by omega, op, ?_, h1⟩
  rcases hcb with rfl | rfl <;> cases op <;> simp [Event.okFor, Op.isErr] at h2 ⊢

/-! ### non-vacuity: concrete runs (checked by evaluation of the executable model) -/

def logAt (r : Option State) (i : Nat) : Option Entry := r.bind (·.log[i]?)
def termStarts (r : Option State) : Option Nat := r.map fun s => s.log.countP (fun e => e.ev.isTermStart)

/-- three threads: `next 1` fetches its closure first, then `error` and `complete` race for `fn_next`;
    `error` wins, `complete` returns empty-handed; the `next` callback runs AFTER the error callback returned
    (allowed: its call #0 started before); a second `next` call finds nothing. -/
def raceRun : List (Nat × Kind) := [
  (0, .callStart (.next (.int 1))),   -- 0
  (0, .acqR .next),                    -- 1   found Some
  (1, .callStart (.error 7)),          -- 2
  (2, .callStart .complete),           -- 3
  (1, .acqW .next),                    -- 4   claim succeeds
  (2, .acqW .next),                    -- 5   claim fails
  (2, .callReturn),                    -- 6
  (1, .acqW .complete),                -- 7
  (1, .acqW .error),                   -- 8
  (1, .cbStart .error),                -- 9
  (1, .cbReturn .error),               -- 10
  (1, .callReturn),                    -- 11
  (0, .cbStart .next),                 -- 12  after the terminal returned, but call #0 started before it
  (0, .cbReturn .next),                -- 13
  (0, .callReturn),                    -- 14
  (0, .callStart (.next (.int 2))),    -- 15
  (0, .acqR .next),                    -- 16  found None
  (0, .callReturn)]                    -- 17

example : (run 3 false raceRun).isSome = true := by decide
/-- exactly one of the racing terminals fires -/
example : termStarts (run 3 false raceRun) = some 1 := by decide
example : logAt (run 3 false raceRun) 9 = some ⟨1, 2, .cbStart .error⟩ := by decide
example : logAt (run 3 false raceRun) 5 = some ⟨2, 3, .acqW .next false⟩ := by decide
/-- hypotheses of `no_next_after_terminal_returned` are satisfiable (entries 10 and 12); the `next` callback starts
    after the terminal returned (10 < 12) but belongs to call #0, so the conclusion `¬ 10 < 0` is what is claimed;
    the call that does start later (#15) gets no callback -/
example : logAt (run 3 false raceRun) 10 = some ⟨1, 2, .cbReturn .error⟩ ∧
    logAt (run 3 false raceRun) 12 = some ⟨0, 0, .cbStart .next⟩ ∧
    logAt (run 3 false raceRun) 16 = some ⟨0, 15, .acqR .next false⟩ ∧
    logAt (run 3 false raceRun) 17 = some ⟨0, 15, .callReturn (.next (.int 2)) none⟩ := by decide
example : ∃ (s : State) (i k t' c' t c : Nat), Reachable s ∧ s.log[i]? = some (⟨t', c', .cbReturn .error⟩ : Entry) ∧
    s.log[k]? = some (⟨t, c, .cbStart .next⟩ : Entry) ∧ i < k := by
  cases h : run 3 false raceRun with
  | none => exact absurd h (by decide)
  | some s =>
    refine ⟨s, 10, 12, 1, 2, 0, 0, run_reachable h, ?_, ?_, by omega⟩
    · have : logAt (run 3 false raceRun) 10 = some ⟨1, 2, .cbReturn .error⟩ := by decide
      rw [h] at this; exact this
    · have : logAt (run 3 false raceRun) 12 = some ⟨0, 0, .cbStart .next⟩ := by decide
      rw [h] at this; exact this

/-- `unsubscribe` (with a teardown closure installed) clears `fn_next` first; a later `error` claim fails and
    never fires; `is_subscribed` answers false twice; a terminal that took its closure BEFORE is still delivered
    after `unsubscribe` returned in `lateTerminalRun` below. -/
def unsubRun : List (Nat × Kind) := [
  (0, .callStart .unsubscribe),        -- 0
  (0, .acqW .next),                    -- 1   first clearing step
  (1, .callStart (.error 3)),          -- 2
  (1, .acqW .next),                    -- 3   claim fails
  (2, .callStart .isSubscribed),       -- 4
  (2, .acqR .next),                    -- 5
  (2, .callReturn),                    -- 6   = false
  (1, .callReturn),                    -- 7
  (0, .acqW .error),                   -- 8
  (0, .acqW .complete),                -- 9
  (0, .acqR .teardown),                -- 10  Some: read guard kept
  (0, .acqR .tearFn),                  -- 11
  (0, .cbStart .teardown),             -- 12
  (0, .cbReturn .teardown),            -- 13
  (0, .relR .teardown),                -- 14
  (0, .acqW .teardown),                -- 15
  (0, .callReturn),                    -- 16
  (2, .callStart .isSubscribed),       -- 17
  (2, .acqR .next),                    -- 18
  (2, .callReturn),                    -- 19  = false
  (1, .callStart (.next .unit)),       -- 20
  (1, .acqR .next),                    -- 21  None
  (1, .callReturn)]                    -- 22

example : (run 3 true unsubRun).isSome = true := by decide
example : termStarts (run 3 true unsubRun) = some 0 := by decide
/-- hypotheses of `terminal_excludes` (entries 1, 3), `is_subscribed_monotone` (entries 6, 19 with 6 < 17),
    `is_subscribed_false_after_first_clear` (1 < 4), `..._after_unsubscribe_returned` (16 < 17) -/
example : logAt (run 3 true unsubRun) 1 = some ⟨0, 0, .acqW .next true⟩ ∧
    logAt (run 3 true unsubRun) 3 = some ⟨1, 2, .acqW .next false⟩ ∧
    logAt (run 3 true unsubRun) 6 = some ⟨2, 4, .callReturn .isSubscribed (some false)⟩ ∧
    logAt (run 3 true unsubRun) 16 = some ⟨0, 0, .callReturn .unsubscribe none⟩ ∧
    logAt (run 3 true unsubRun) 19 = some ⟨2, 17, .callReturn .isSubscribed (some false)⟩ := by decide

/-- `is_subscribed` can answer true: a fresh observer -/
example : logAt (run 1 false [(0, .callStart .isSubscribed), (0, .acqR .next), (0, .acqR .error), (0, .acqR .complete),
    (0, .callReturn)]) 4 = some ⟨0, 0, .callReturn .isSubscribed (some true)⟩ := by decide

/-- hypotheses of `no_terminal_after_unsubscribe_returned` / `no_next_after_unsubscribe_returned` are satisfiable:
    `error` takes its closure (entry 4) and `next` fetches (entry 6) before `unsubscribe` runs to completion
    (entry 13); both callbacks start afterwards (entries 14, 16) — their calls #0, #5 started before. -/
def lateTerminalRun : List (Nat × Kind) := [
  (1, .callStart (.error 9)),          -- 0
  (1, .acqW .next),                    -- 1
  (1, .acqW .complete),                -- 2
  (0, .callStart .unsubscribe),        -- 3
  (1, .acqW .error),                   -- 4   takes the error closure
  (2, .callStart (.next (.int 4))),    -- 5
  (0, .acqW .next),                    -- 6
  (0, .acqW .error),                   -- 7
  (0, .acqW .complete),                -- 8
  (0, .acqR .teardown),                -- 9   None
  (0, .acqW .teardown),                -- 10
  (0, .callReturn),                    -- 11
  (1, .cbStart .error),                -- 12
  (1, .cbReturn .error),               -- 13
  (1, .callReturn)]                    -- 14

example : logAt (run 3 false lateTerminalRun) 11 = some ⟨0, 3, .callReturn .unsubscribe none⟩ ∧
    logAt (run 3 false lateTerminalRun) 12 = some ⟨1, 0, .cbStart .error⟩ := by decide

def lateNextRun : List (Nat × Kind) := [
  (2, .callStart (.next (.int 4))),    -- 0
  (2, .acqR .next),                    -- 1   fetched
  (0, .callStart .unsubscribe),        -- 2
  (0, .acqW .next), (0, .acqW .error), (0, .acqW .complete), (0, .acqR .teardown), (0, .acqW .teardown),  -- 3..7
  (0, .callReturn),                    -- 8
  (2, .cbStart .next)]                 -- 9

example : logAt (run 3 false lateNextRun) 8 = some ⟨0, 2, .callReturn .unsubscribe none⟩ ∧
    logAt (run 3 false lateNextRun) 9 = some ⟨2, 0, .cbStart .next⟩ := by decide

/-- OBSERVATION (not covered by C19/C05): two concurrent `unsubscribe()` calls can both run the teardown closure,
    because the slot is read (observer.rs:57) and cleared (observer.rs:60) under two different guards. -/
def doubleTeardownRun : List (Nat × Kind) := [
  (0, .callStart .unsubscribe), (0, .acqW .next), (0, .acqW .error), (0, .acqW .complete),
  (1, .callStart .unsubscribe), (1, .acqW .next), (1, .acqW .error), (1, .acqW .complete),
  (0, .acqR .teardown), (1, .acqR .teardown),
  (0, .acqR .tearFn), (1, .acqR .tearFn),
  (0, .cbStart .teardown), (1, .cbStart .teardown),
  (0, .cbReturn .teardown), (0, .relR .teardown),
  (1, .cbReturn .teardown), (1, .relR .teardown),
  (0, .acqW .teardown), (1, .acqW .teardown), (0, .callReturn), (1, .callReturn)]

theorem teardown_may_run_twice :
    ∃ s, Reachable s ∧ s.log.countP (fun e => decide (e.ev = .cbStart .teardown)) = 2 := by
  cases h : run 2 true doubleTeardownRun with
  | none => exact absurd h (by decide)
  | some s =>
    refine ⟨s, run_reachable h, ?_⟩
    have : (run 2 true doubleTeardownRun).map (fun s => s.log.countP (fun e => decide (e.ev = .cbStart .teardown)))
        = some 2 := by decide
    rw [h] at this; simpa using this

/-- the write at observer.rs:60 is blocked while another thread is inside the teardown closure -/
example : (run 2 true (doubleTeardownRun.take 15 ++ [(0, .relR .teardown), (0, .acqW .teardown)])).isSome = false := by
  decide

#print axioms at_most_one_terminal_start
#print axioms at_most_one_terminal_start_count
#print axioms no_delivery_after_close
#print axioms no_next_after_terminal_returned
#print axioms no_next_after_terminal_started
#print axioms no_terminal_after_unsubscribe_returned
#print axioms no_next_after_unsubscribe_returned
#print axioms no_delivery_after_unsubscribe_first_clear
#print axioms is_subscribed_false_after_dead
#print axioms is_subscribed_monotone
#print axioms is_subscribed_false_after_terminal_start
#print axioms is_subscribed_false_after_first_clear
#print axioms is_subscribed_false_after_unsubscribe_returned
#print axioms terminal_excludes
#print axioms failed_claim_never_fires
#print axioms call_id_wf
#print axioms entry_matches_call
#print axioms cbStart_next_call
#print axioms cbStart_terminal_call
#print axioms teardown_may_run_twice

end Rx.ConcObs
