import RxVerif.Theorems.C03RefSeqEqLay
/-
C03-REF, sequence_equal, part 2: one source's chain  subject j ─ map_j ─ concat_j ─ (zip's observer j)  in an
arbitrary state of decay (`CB`: which observers still have their callbacks / their teardown, which maps still hold
their entry), and its teardown  `unsubscribe(zip's observer j)`  with the cascade of `finalize` calls it triggers.
Every teardown lemma also says that nothing outside the chain changed (`Same`).
-/
namespace Rx.SeqRef
open Rx.Sim Rx.Ref Rx.Comb Rx.CRef

structure CB where
  zL : Bool   -- zip's observer j has its callbacks
  zH : Bool   -- ... its teardown (`concat_j.finalize`)
  cL : Bool   -- concat_j's observer on map_j
  cH : Bool   -- ... its teardown (`map_j.finalize`)
  mL : Bool   -- map_j's observer on subject j
  mH : Bool   -- ... its teardown (the subject's hook)
  cR : Bool   -- concat_j's map still holds its entries
  mR : Bool   -- map_j's map still holds its entry
  sR : Bool   -- subject j still holds map_j's observer
  jx : Option (Nat × Bool)   -- concat_j's observer on `just(None)`: its index, and whether it has its callbacks
  cs : Nat    -- concat_j's serial counter
  q : Nat     -- concat_j's position in `theEnd`

def cmapOf (k j : Nat) (b : CB) : List (Nat × Nat) :=
  if b.cR then (0, Co k j) :: (match b.jx with | some p => [(1, p.1)] | none => []) else []

def optHook (h : Bool) (p : Prog) : Option Prog := if h then some p else none

structure ChainAt (k j : Nat) (b : CB) (w : World) : Prop where
  subjO : w.cells[2 * j]? = some (encMap (if b.sR then [(1, Mo k j)] else []))
  subjS : w.cells[2 * j + 1]? = some (.int ((1 : Nat) : Int))
  sl1 : w.slots[2 * j]? = some none
  sl2 : w.slots[2 * j + 1]? = some none
  sl3 : w.slots[cfin k j]? = some none
  sl4 : w.slots[mfin k j]? = some none
  cS : w.cells[cser k j]? = some (.int (b.cs : Int))
  cM : w.cells[cmap k j]? = some (encMap (cmapOf k j b))
  cQ : w.cells[cq k j]? = some (.int (b.q : Int))
  mM : w.cells[mmap k j]? = some (encMap (if b.mR then [(0, Mo k j)] else []))
  mT : w.cells[mst k j]? = some .unit
  oZ : w.obs[Zo j]? = some (if b.zL then zipObs k j (optHook b.zH (scC k j).finalize)
        else deadObs (optHook b.zH (scC k j).finalize))
  oC : w.obs[Co k j]? = some (if b.cL then concatObs k j (optHook b.cH (scM k j).finalize)
        else deadObs (optHook b.cH (scM k j).finalize))
  oM : w.obs[Mo k j]? = some (if b.mL then mapObs k j (optHook b.mH (hookOf j))
        else deadObs (optHook b.mH (hookOf j)))
  oJ : ∀ p, b.jx = some p → 3 * k + 2 ≤ p.1 ∧ w.obs[p.1]? = some (if p.2 then justObs k j else deadObs none)

/-- nothing but the listed cells / observers changed -/
structure Same (w w' : World) (cs : List Nat) (os : List Nat) : Prop where
  cells : ∀ c, c ∉ cs → w'.cells[c]? = w.cells[c]?
  obs : ∀ o, o ∉ os → w'.obs[o]? = w.obs[o]?
  slots : w'.slots = w.slots
  users : w'.users = w.users
  trace : w'.trace = w.trace
  status : w'.status = w.status
  held : w'.held = w.held
  obsLen : w'.obs.length = w.obs.length

theorem Same.refl (w : World) (cs os : List Nat) : Same w w cs os :=
  ⟨fun _ _ => rfl, fun _ _ => rfl, rfl, rfl, rfl, rfl, rfl, rfl⟩

theorem Same.trans {w1 w2 w3 : World} {cs os : List Nat} (h1 : Same w1 w2 cs os) (h2 : Same w2 w3 cs os) :
    Same w1 w3 cs os :=
  ⟨fun c hc => (h2.cells c hc).trans (h1.cells c hc), fun o ho => (h2.obs o ho).trans (h1.obs o ho),
   h2.slots.trans h1.slots, h2.users.trans h1.users, h2.trace.trans h1.trace, h2.status.trans h1.status,
   h2.held.trans h1.held, h2.obsLen.trans h1.obsLen⟩

theorem Same.mono {w w' : World} {cs cs' os os' : List Nat} (h : Same w w' cs os) (hc : ∀ c ∈ cs, c ∈ cs')
    (ho : ∀ o ∈ os, o ∈ os') : Same w w' cs' os' :=
  { h with cells := fun c q => h.cells c fun r => q (hc c r), obs := fun o q => h.obs o fun r => q (ho o r) }

/-- the guards held by the callers are on cells outside `S` -/
def HF (S : List Nat) (w : World) : Prop := ∀ p ∈ w.held, ∃ c, p.1 = .cell c ∧ c ∉ S

theorem HF.cells {S : List Nat} {w : World} (h : HF S w) : ∀ p ∈ w.held, ∃ c, p.1 = .cell c :=
  fun p hp => let ⟨c, hc, _⟩ := h p hp; ⟨c, hc⟩

theorem HF.free {S : List Nat} {w : World} (h : HF S w) {c : Nat} (hc : c ∈ S) (wr : Bool) :
    w.conflicts (.cell c) wr = false :=
  noconf_ne wr fun p hp q => by
    obtain ⟨c', hc', hn⟩ := h p hp
    rw [hc'] at q; cases q; exact hn hc

theorem HF.slot {S : List Nat} {w : World} (h : HF S w) (s : Nat) (wr : Bool) : w.conflicts (.slot s) wr = false :=
  noconf_slot h.cells s wr

variable {k j : Nat} {b : CB} {w : World}

theorem idx_lt (hj : j < k) : Zo j < Co k j ∧ Co k j < Mo k j ∧ Mo k j < 3 * k + 2 ∧ 1 < Zo j := by
  simp only [Zo, Co, Mo]; omega

/-! replacing one observer of the chain -/

theorem ChainAt.setM (h : ChainAt k j b w) (hj : j < k) (f : Obs → Obs) (l hk : Bool)
    (hf : ∀ x, w.obs[Mo k j]? = some x →
      f x = if l then mapObs k j (optHook hk (hookOf j)) else deadObs (optHook hk (hookOf j))) :
    ChainAt k j { b with mL := l, mH := hk } { w with obs := w.obs.modify (Mo k j) f } := by
  obtain ⟨h1, h2, h3, h4⟩ := idx_lt hj
  exact
  { h with
    oZ := by show (w.obs.modify _ _)[_]? = _; rw [modify_get_other _ _ (by omega)]; exact h.oZ
    oC := by show (w.obs.modify _ _)[_]? = _; rw [modify_get_other _ _ (by omega)]; exact h.oC
    oM := by show (w.obs.modify _ _)[_]? = _; rw [modify_get_same _ _ h.oM, hf _ h.oM]
    oJ := by
      intro p hp
      obtain ⟨q1, q2⟩ := h.oJ p hp
      refine ⟨q1, ?_⟩
      show (w.obs.modify _ _)[_]? = _; rw [modify_get_other _ _ (by omega)]; exact q2 }

theorem ChainAt.setC (h : ChainAt k j b w) (hj : j < k) (f : Obs → Obs) (l hk : Bool)
    (hf : ∀ x, w.obs[Co k j]? = some x →
      f x = if l then concatObs k j (optHook hk (scM k j).finalize) else deadObs (optHook hk (scM k j).finalize)) :
    ChainAt k j { b with cL := l, cH := hk } { w with obs := w.obs.modify (Co k j) f } := by
  obtain ⟨h1, h2, h3, h4⟩ := idx_lt hj
  exact
  { h with
    oZ := by show (w.obs.modify _ _)[_]? = _; rw [modify_get_other _ _ (by omega)]; exact h.oZ
    oM := by show (w.obs.modify _ _)[_]? = _; rw [modify_get_other _ _ (by omega)]; exact h.oM
    oC := by show (w.obs.modify _ _)[_]? = _; rw [modify_get_same _ _ h.oC, hf _ h.oC]
    oJ := by
      intro p hp
      obtain ⟨q1, q2⟩ := h.oJ p hp
      refine ⟨q1, ?_⟩
      show (w.obs.modify _ _)[_]? = _; rw [modify_get_other _ _ (by omega)]; exact q2 }

theorem ChainAt.setZ (h : ChainAt k j b w) (hj : j < k) (f : Obs → Obs) (l hk : Bool)
    (hf : ∀ x, w.obs[Zo j]? = some x →
      f x = if l then zipObs k j (optHook hk (scC k j).finalize) else deadObs (optHook hk (scC k j).finalize)) :
    ChainAt k j { b with zL := l, zH := hk } { w with obs := w.obs.modify (Zo j) f } := by
  obtain ⟨h1, h2, h3, h4⟩ := idx_lt hj
  exact
  { h with
    oC := by show (w.obs.modify _ _)[_]? = _; rw [modify_get_other _ _ (by omega)]; exact h.oC
    oM := by show (w.obs.modify _ _)[_]? = _; rw [modify_get_other _ _ (by omega)]; exact h.oM
    oZ := by show (w.obs.modify _ _)[_]? = _; rw [modify_get_same _ _ h.oZ, hf _ h.oZ]
    oJ := by
      intro p hp
      obtain ⟨q1, q2⟩ := h.oJ p hp
      refine ⟨q1, ?_⟩
      show (w.obs.modify _ _)[_]? = _; rw [modify_get_other _ _ (by omega)]; exact q2 }

/-! rewriting one of the chain's map cells -/

theorem cells_ne : 2 * j ≠ cmap k j ∧ 2 * j ≠ mmap k j ∧ cmap k j ≠ mmap k j ∧ 2 * j + 1 ≠ cmap k j ∧
    2 * j + 1 ≠ mmap k j ∧ cser k j ≠ cmap k j ∧ cser k j ≠ mmap k j ∧ cq k j ≠ cmap k j ∧ cq k j ≠ mmap k j ∧
    mst k j ≠ cmap k j ∧ mst k j ≠ mmap k j := by
  simp only [cmap, mmap, cser, cq, mst]; omega

theorem ChainAt.setCells (h : ChainAt k j b w) (hj : j < k) (cells' : List Data)
    (hc : ∀ c, c ≠ 2 * j → c ≠ cmap k j → c ≠ mmap k j → cells'[c]? = w.cells[c]?) (b' : CB)
    (hb : b' = { b with sR := b'.sR, cR := b'.cR, mR := b'.mR })
    (h1 : cells'[2 * j]? = some (encMap (if b'.sR then [(1, Mo k j)] else [])))
    (h2 : cells'[cmap k j]? = some (encMap (cmapOf k j b')))
    (h3 : cells'[mmap k j]? = some (encMap (if b'.mR then [(0, Mo k j)] else []))) :
    ChainAt k j b' { w with cells := cells' } := by
  have hne := @cells_ne k j
  have hlt : 2 * j + 1 < 2 * k := by omega
  have e1 : b'.zL = b.zL := by rw [hb]
  have e2 : b'.zH = b.zH := by rw [hb]
  have e3 : b'.cL = b.cL := by rw [hb]
  have e4 : b'.cH = b.cH := by rw [hb]
  have e5 : b'.mL = b.mL := by rw [hb]
  have e6 : b'.mH = b.mH := by rw [hb]
  have e7 : b'.jx = b.jx := by rw [hb]
  have e8 : b'.cs = b.cs := by rw [hb]
  have e9 : b'.q = b.q := by rw [hb]
  exact
  { subjO := h1
    subjS := by show cells'[_]? = _; rw [hc _ (by omega) (by simp only [cmap]; omega) (by simp only [mmap]; omega)]; exact h.subjS
    sl1 := h.sl1, sl2 := h.sl2, sl3 := h.sl3, sl4 := h.sl4
    cS := by show cells'[_]? = _; rw [hc _ (by simp only [cser]; omega) hne.2.2.2.2.2.1 hne.2.2.2.2.2.2.1, e8]; exact h.cS
    cM := h2
    cQ := by show cells'[_]? = _; rw [hc _ (by simp only [cq]; omega) hne.2.2.2.2.2.2.2.1 hne.2.2.2.2.2.2.2.2.1, e9]; exact h.cQ
    mM := h3
    mT := by show cells'[_]? = _; rw [hc _ (by simp only [mst]; omega) hne.2.2.2.2.2.2.2.2.2.1 hne.2.2.2.2.2.2.2.2.2.2]; exact h.mT
    oZ := by rw [e1, e2]; exact h.oZ
    oC := by rw [e3, e4]; exact h.oC
    oM := by rw [e5, e6]; exact h.oM
    oJ := by rw [e7]; exact h.oJ }

/-! ### teardown, level by level -/

def tM (b : CB) : CB := { b with mL := false, mH := false, sR := if b.mH then false else b.sR }

theorem dead_of (l : Bool) (full : Obs) (hk : Option Prog) (_hn : full.onUnsub = hk) :
    ({ (if l then full else deadObs hk).cleared with onUnsub := none } : Obs) = deadObs none := by
  cases l <;> simp [Obs.cleared, deadObs]

/-- `unsubscribe` of map_j's observer on the subject (observer.rs:53-60; the teardown is the subject's hook) -/
theorem unsubM_spec (h : ChainAt k j b w) (hj : j < k) (hf : HF [2 * j] w) :
    WP (.obsUnsub (Mo k j) .done) w (fun w' => ChainAt k j (tM b) w' ∧ Same w w' [2 * j] [Mo k j]) := by
  have hsame : ∀ cells', (∀ c, c ∉ [2 * j] → cells'[c]? = w.cells[c]?) →
      Same w { w with obs := w.obs.modify (Mo k j) fun x => { x.cleared with onUnsub := none }, cells := cells' }
        [2 * j] [Mo k j] := fun cells' hc =>
    ⟨hc, fun o ho => modify_get_other _ _ (by simpa using fun q => ho (by simp [q])), rfl, rfl, rfl, rfl, rfl,
      by simp⟩
  have hM := h.setM hj (fun x => { x.cleared with onUnsub := none }) false false (by
    intro x hx
    rw [h.oM] at hx; cases hx
    exact dead_of _ _ _ rfl)
  cases hH : b.mH with
  | false =>
    refine wp_obsUnsub_none h.oM (by cases b.mL <;> simp [mapObs, deadObs, optHook, hH]) (WP.done ⟨?_, ?_⟩)
    · have e : tM b = { b with mL := false, mH := false } := by simp [tM, hH]
      rw [e]; exact hM
    · exact hsame w.cells fun _ _ => rfl
  | true =>
    refine wp_obsUnsub_some (f := hookOf j) h.oM (by cases b.mL <;> simp [mapObs, deadObs, optHook, hH]) ?_
    simp only [hookOf, hookProg, sjOf]
    refine wp_cellRead_nc (hf.free (by simp) _) ?_
    have hread : ((w.setObs (Mo k j) fun x => { x.cleared with onUnsub := none }).cells[2 * j]?).getD .unit =
        encMap (if b.sR then [(1, Mo k j)] else []) := by
      show (w.cells[2 * j]?).getD .unit = _; rw [h.subjO]; rfl
    rw [hread, amapRemove_encMap]
    have hfil : (if b.sR then [(1, Mo k j)] else []).filter (fun p => p.1 != 1) = [] := by
      cases b.sR <;> simp
    rw [hfil]
    refine wp_cellWrite_nc (hf.free (by simp) _) ?_
    refine wp_lockedSlotCall_none' (hf.slot _ _) h.sl2 (WP.done (WP.done ⟨?_, ?_⟩))
    · have hne := @cells_ne k j
      refine hM.setCells hj _ (fun c h1 _ _ => set_get_other _ (Ne.symm h1)) (tM b) (by simp [tM, hH])
        (by simp only [tM, hH, ↓reduceIte]; exact set_get_same _ h.subjO)
        (by rw [set_get_other _ hne.1]; exact h.cM)
        (by rw [set_get_other _ hne.2.1]; exact h.mM)
    · exact hsame _ fun c hc => set_get_other _ (by simpa using fun q => hc (by simp [q]))

theorem ChainAt.setHeld (h : ChainAt k j b w) (hl : List (LockId × Bool)) : ChainAt k j b { w with held := hl } :=
  { h with }

theorem Same.setHeld {w w' : World} {cs os : List Nat} (h : Same w { w' with held := w.held } cs os)
    (hl : List (LockId × Bool)) : Same { w with held := hl } { w' with held := hl } cs os :=
  ⟨h.cells, h.obs, h.slots, h.users, h.trace, h.status, rfl, h.obsLen⟩

theorem HF.push {S S' : List Nat} {w : World} (h : HF S w) (c : Nat) (b : Bool) (hs : ∀ x ∈ S', x ∈ S)
    (hc : c ∉ S') : HF S' { w with held := (.cell c, b) :: w.held } := by
  intro p hp
  simp only [List.mem_cons] at hp
  rcases hp with rfl | hp
  · exact ⟨c, rfl, hc⟩
  · obtain ⟨c', e, hn⟩ := h p hp
    exact ⟨c', e, fun q => hn (hs _ q)⟩

def tFM (b : CB) : CB := { (if b.mR then tM b else b) with mR := false }

/-- `map_j.finalize` (its subscriber, concat_j's observer, has already lost its callbacks) -/
theorem finMap_spec (h : ChainAt k j b w) (hj : j < k) (hc : b.cL = false) (hf : HF [2 * j, mmap k j] w) :
    WP (scM k j).finalize w (fun w' => ChainAt k j (tFM b) w' ∧ Same w w' [2 * j, mmap k j] [Mo k j]) := by
  have hne := @cells_ne k j
  let bE : CB := if b.mR then tM b else b
  let Inv : List (Nat × Nat) → World → Prop := fun l' w1 =>
    w1.held = (.cell (mmap k j), false) :: w.held ∧
    ((l' = (if b.mR then [(0, Mo k j)] else []) ∧ ChainAt k j b w1 ∧
        Same w { w1 with held := w.held } [2 * j] [Mo k j]) ∨
     (l' = [] ∧ ChainAt k j bE w1 ∧ Same w { w1 with held := w.held } [2 * j] [Mo k j]))
  refine finalize_gen (scM k j) (if b.mR then [(0, Mo k j)] else []) (Inv := Inv) h.mM
    (hf.free (by simp [scM]) _) ⟨rfl, .inl ⟨rfl, h.setHeld _, Same.refl _ _ _⟩⟩ ?_ ?_
  · rintro p rest w1 ⟨hh, hI | hI⟩
    · obtain ⟨hl, hch, hs⟩ := hI
      have hmr : b.mR = true := by cases q : b.mR <;> simp [q] at hl; rfl
      simp only [hmr, ↓reduceIte, List.cons.injEq] at hl
      obtain ⟨rfl, rfl⟩ := hl
      have hf1 : HF [2 * j] w1 := by
        intro p hp; rw [hh] at hp
        exact (hf.push (mmap k j) false (S' := [2 * j]) (by simp) (by simp; exact Ne.symm hne.2.1)) p hp
      refine (unsubM_spec hch hj hf1).conseq fun w2 ⟨h2, s2⟩ => ⟨s2.held.trans hh, .inr ⟨rfl, ?_, ?_⟩⟩
      · simp only [bE, hmr, ↓reduceIte]; exact h2
      · exact hs.trans ⟨s2.cells, s2.obs, s2.slots, s2.users, s2.trace, s2.status, rfl, s2.obsLen⟩
    · exact absurd hI.1 (by simp)
  · rintro w2 ⟨hh, hI⟩
    have hE : ChainAt k j bE w2 ∧ Same w { w2 with held := w.held } [2 * j] [Mo k j] := by
      rcases hI with ⟨hl, hch, hs⟩ | ⟨_, hch, hs⟩
      · have hmr : b.mR = false := by cases q : b.mR <;> simp [q] at hl; rfl
        simp only [bE, hmr, Bool.false_eq_true, ↓reduceIte]; exact ⟨hch, hs⟩
      · exact ⟨hch, hs⟩
    obtain ⟨hch, hs⟩ := hE
    have hcl : bE.cL = false := by simp only [bE]; split <;> simp [tM, hc]
    have hsub := hch.oC
    rw [hcl] at hsub
    refine finTail_spec (scM k j) (x := deadObs _) hh
      (fun p hp q => by obtain ⟨c, e, hn⟩ := hf p hp; rw [e] at q; cases q; exact hn (by simp [scM]))
      hf.cells hsub rfl hch.sl4 ⟨?_, ?_⟩
    · refine (hch.setHeld w.held).setCells hj _ (fun c _ _ h3 => set_get_other _ (Ne.symm h3)) (tFM b)
        (by simp only [tFM, bE])
        (by simp only [tFM]; rw [set_get_other _ (Ne.symm hne.2.1)]; exact hch.subjO)
        (by simp only [tFM, cmapOf]; rw [set_get_other _ (Ne.symm hne.2.2.1)]; exact hch.cM)
        (by simp only [tFM]; exact set_get_same _ hch.mM)
    · refine (hs.mono (by simp) (by simp)).trans ⟨fun c hc' => ?_, fun _ _ => rfl, rfl, rfl, rfl, rfl, rfl, rfl⟩
      exact set_get_other _ (fun q => hc' (by rw [← q]; simp [scM]))

def tC (b : CB) : CB := if b.cH then tFM { b with cL := false, cH := false } else { b with cL := false, cH := false }

/-- `unsubscribe` of concat_j's observer on map_j (its teardown is `map_j.finalize`) -/
theorem unsubC_spec (h : ChainAt k j b w) (hj : j < k) (hf : HF [2 * j, mmap k j] w) :
    WP (.obsUnsub (Co k j) .done) w
      (fun w' => ChainAt k j (tC b) w' ∧ Same w w' [2 * j, mmap k j] [Co k j, Mo k j]) := by
  have hC := h.setC hj (fun x => { x.cleared with onUnsub := none }) false false (by
    intro x hx
    rw [h.oC] at hx; cases hx
    exact dead_of _ _ _ rfl)
  have hsame : Same w { w with obs := w.obs.modify (Co k j) fun x => { x.cleared with onUnsub := none } }
      [2 * j, mmap k j] [Co k j, Mo k j] :=
    ⟨fun _ _ => rfl, fun o ho => modify_get_other _ _ (fun q => ho (by simp [q])), rfl, rfl, rfl, rfl, rfl, by simp⟩
  cases hH : b.cH with
  | false =>
    refine wp_obsUnsub_none h.oC (by cases b.cL <;> simp [concatObs, deadObs, optHook, hH]) (WP.done ⟨?_, hsame⟩)
    have e : tC b = { b with cL := false, cH := false } := by simp [tC, hH]
    rw [e]; exact hC
  | true =>
    refine wp_obsUnsub_some (f := (scM k j).finalize) h.oC
      (by cases b.cL <;> simp [concatObs, deadObs, optHook, hH]) ?_
    refine (finMap_spec hC hj rfl hf).conseq fun w2 ⟨h2, s2⟩ => WP.done ⟨?_, ?_⟩
    · have e : tC b = tFM { b with cL := false, cH := false } := by simp [tC, hH]
      rw [e]; exact h2
    · exact hsame.trans (s2.mono (by simp) (by simp))

def tJ (b : CB) : CB := { b with jx := b.jx.map fun p => (p.1, false) }

/-- `unsubscribe` of concat_j's observer on `just(None)` (it has no teardown) -/
theorem unsubJ_spec (h : ChainAt k j b w) (hj : j < k) (p : Nat × Bool) (hp : b.jx = some p) :
    WP (.obsUnsub p.1 .done) w (fun w' => ChainAt k j (tJ b) w' ∧ Same w w' [] [p.1]) := by
  obtain ⟨h1, h2, h3, h4⟩ := idx_lt hj
  obtain ⟨q1, q2⟩ := h.oJ p hp
  refine wp_obsUnsub_none q2 (by cases p.2 <;> rfl) (WP.done ⟨?_, ?_⟩)
  · exact
    { h with
      oZ := by show (w.obs.modify _ _)[_]? = _; rw [modify_get_other _ _ (by omega)]; exact h.oZ
      oC := by show (w.obs.modify _ _)[_]? = _; rw [modify_get_other _ _ (by omega)]; exact h.oC
      oM := by show (w.obs.modify _ _)[_]? = _; rw [modify_get_other _ _ (by omega)]; exact h.oM
      cM := by
        have : cmapOf k j (tJ b) = cmapOf k j b := by
          simp only [cmapOf, tJ, hp, Option.map_some]
        rw [this]; exact h.cM
      oJ := by
        intro p' hp'
        simp only [tJ, hp, Option.map_some, Option.some.injEq] at hp'
        subst hp'
        refine ⟨q1, ?_⟩
        show (w.obs.modify _ _)[_]? = _
        rw [modify_get_same _ _ q2]
        cases p.2 <;> rfl }
  · exact ⟨fun _ _ => rfl, fun o ho => modify_get_other _ _ (fun q => ho (by simp [q])), rfl, rfl, rfl, rfl, rfl,
      by simp [World.setObs]⟩

end Rx.SeqRef
