import RxVerif.Theorems.C13RefColdLoop
/-
C13-REF over a COLD source, part 3: the source side before / after the script, and `Subscription::unsubscribe`
of a source subscription (the cold source installed no teardown: only the callbacks are cleared).
-/
namespace Rx.CRef
open Rx.Sim Rx.SubjM Rx.Ref Rx.RefR

theorem coldConn_obs_lt (fn fe fc) (w : World) {j : Nat} (hj : j < w.obs.length) :
    (coldConnWorld fn fe fc w).obs[j]? = w.obs[j]? := get_app_lt _ _ _ hj

theorem coldConn_glob {fn fe fc roots cobs w} (g : Glob roots cobs w) :
    Glob roots (cobs ++ [w.obs.length]) (coldConnWorld fn fe fc w) := by
  refine ⟨g.status, by simp [coldConnWorld, World.emit, g.nObs]; omega, ?_, ?_, ?_⟩
  · intro r hr
    have := g.rootsLt r hr
    simp only [coldConnWorld, World.emit, List.length_append, List.length_cons, List.length_nil]; omega
  · intro c hc
    simp only [coldConnWorld, World.emit, List.length_append, List.length_cons, List.length_nil]
    rcases List.mem_append.1 hc with hc | hc
    · have := g.cobsLt c hc; omega
    · simp at hc; omega
  · have hn := g.nodup
    rw [← List.append_assoc, List.nodup_append]
    refine ⟨hn, by simp, ?_⟩
    intro a ha b hb
    simp at hb; subst hb
    intro e; subst e
    rcases List.mem_append.1 ha with ha | ha
    · exact absurd (g.rootsLt _ ha) (Nat.lt_irrefl _)
    · exact absurd (g.cobsLt _ ha) (Nat.lt_irrefl _)

/-- the source side when the script is about to start: one more source observer, its handle not made yet -/
theorem ConnsPartC.connect {fn fe fc acell roots cobs w conns armed}
    (h : ConnsPartC fn fe fc acell cobs w conns armed) (g : Glob roots cobs w) (hA : armed.length = conns.length) :
    ConnsPartC fn fe fc acell (cobs ++ [w.obs.length]) (coldConnWorld fn fe fc w) (conns ++ [true]) armed := by
  have hlenC := h.lenC
  refine
    { lenC := by simp [hlenC]
      lenA := by simp [hA]
      obs := ?_
      acell := h.acell
      liveArmed := ?_
      probes := ?_ }
  · intro i hi
    simp only [List.length_append, List.length_cons, List.length_nil] at hi
    by_cases e : i = conns.length
    · subst e
      show (w.obs ++ [_])[_]? = _
      rw [← hlenC, rootAt_append_last, get_app0, hlenC, getD_append_last]; rfl
    · have hlt : i < conns.length := by omega
      show (w.obs ++ [_])[_]? = _
      rw [rootAt_append_lt _ _ (hlenC ▸ hlt), get_app_lt _ _ _ (g.cobsLt _ (rootAt_mem (hlenC ▸ hlt))),
        getD_append_lt _ _ _ hlt]
      exact h.obs i hlt
  · intro i hi hl
    rw [getD_append_lt _ _ _ (by omega)] at hl
    exact h.liveArmed i hi hl
  · unfold coldConnWorld
    rw [coldObs_probe0]
    show coldObs w ++ _ = _
    rw [h.probes]

/-- `source.subscribe(..)` returned: the handle's armed flag is allocated -/
theorem ConnsPartC.arm {fn fe fc acell cobs w conns armed}
    (h : ConnsPartC fn fe fc acell cobs w conns armed) (hA : armed.length + 1 = conns.length)
    (hnew : acell armed.length = w.cells.length) (hlt : ∀ i, i < armed.length → acell i < w.cells.length) :
    ConnsPartC fn fe fc acell cobs { w with cells := w.cells ++ [.bool true] } conns (armed ++ [true]) :=
  { lenC := h.lenC
    lenA := by simp; omega
    obs := h.obs
    acell := by
      intro i hi
      simp only [List.length_append, List.length_cons, List.length_nil] at hi
      by_cases e : i = armed.length
      · subst e
        show (w.cells ++ _)[_]? = _
        rw [hnew, get_app0, getD_append_last]; rfl
      · have hi' : i < armed.length := by omega
        show (w.cells ++ _)[_]? = _
        rw [get_app_lt _ _ _ (hlt i hi'), getD_append_lt _ _ _ hi']
        exact h.acell i hi'
    liveArmed := by
      intro i hi hl
      simp only [List.length_append, List.length_cons, List.length_nil] at hi
      by_cases e : i = armed.length
      · subst e; exact getD_append_last _ _ _
      · have hi' : i < armed.length := by omega
        rw [getD_append_lt _ _ _ hi']; exact h.liveArmed i hi' hl
    probes := h.probes }

/-- `Subscription::unsubscribe` of source subscription `i` (its handle exists) -/
theorem srcUnsubCold_spec {fn fe fc acell roots cobs w conns armed} {K : Nat → Prop} (hh : SlotReads w.held)
    (h : ConnsPartC fn fe fc acell cobs w conns armed) (g : Glob roots cobs w)
    (hAinj : ∀ i j, i < armed.length → j < armed.length → acell i = acell j → i = j)
    (hK : ∀ i, i < armed.length → K (acell i)) {i : Nat} (hi : i < armed.length) :
    WP (subUnsub (.pair (.int (rootAt cobs i : Nat)) (.int (acell i : Nat)))) w (fun w' =>
      ConnsPartC fn fe fc acell cobs w' (conns.set i false) (armed.set i false) ∧
      Touch (InList cobs) K w w' ∧ w'.trace = w.trace) := by
  have hic : i < conns.length := by have := h.lenA.1; omega
  have hio : i < cobs.length := h.lenC ▸ hic
  simp only [subUnsub, Int.toNat_natCast]
  refine wp_cellReadG hh ?_
  rw [h.acell i hi]
  simp only [Option.getD_some, Data.toBool]
  cases har : armed.getD i false with
  | false =>
    simp only [Bool.false_eq_true, ↓reduceIte]
    refine WP.done ⟨?_, Touch.refl _ _ _, rfl⟩
    have hc : conns.getD i false = false := by
      cases hc : conns.getD i false with
      | false => rfl
      | true => have := h.liveArmed i hi hc; rw [har] at this; cases this
    have e1 : conns.set i false = conns := by
      apply List.ext_getElem?; intro j
      by_cases e : i = j
      · subst e; simp [List.getD_eq_getElem?_getD, hic] at hc; simp [hic, hc]
      · simp [e]
    have e2 : armed.set i false = armed := by
      apply List.ext_getElem?; intro j
      by_cases e : i = j
      · subst e; simp [List.getD_eq_getElem?_getD, hi] at har; simp [hi, har]
      · simp [e]
    rw [e1, e2]; exact h
  | true =>
    simp only [↓reduceIte]
    refine wp_cellWriteG hh ?_
    refine wp_obsUnsub_none (show _ = some _ from h.obs i hic) rfl (WP.done ?_)
    dsimp only [World.setObs]
    refine ⟨?_, ?_, rfl⟩
    · refine
        { lenC := by rw [List.length_set]; exact h.lenC
          lenA := by rw [List.length_set, List.length_set]; exact h.lenA
          obs := ?_, acell := ?_, liveArmed := ?_
          probes := h.probes }
      · intro j hj
        rw [List.length_set] at hj
        show (w.obs.modify _ _)[_]? = _
        by_cases e : j = i
        · subst e
          rw [modify_get_same _ _ (h.obs j hj), set_getD_same _ _ _ hj]
          cases conns.getD j false <;> rfl
        · have : rootAt cobs i ≠ rootAt cobs j := fun x => e (g.cob_inj (h.lenC ▸ hj) hio x.symm)
          rw [modify_get_other _ _ this, h.obs j hj, set_getD_other _ _ (Ne.symm e)]
      · intro j hj
        rw [List.length_set] at hj
        show (w.cells.set _ _)[_]? = _
        by_cases e : j = i
        · subst e; rw [set_get_same _ (h.acell j hj), set_getD_same _ _ _ hj]
        · rw [set_get_other _ (fun x => e (hAinj _ _ hi hj x).symm), h.acell j hj, set_getD_other _ _ (Ne.symm e)]
      · intro j hj hl
        rw [List.length_set] at hj
        by_cases e : j = i
        · subst e; rw [set_getD_same _ _ _ hic] at hl; cases hl
        · rw [set_getD_other _ _ (Ne.symm e)] at hl
          rw [set_getD_other _ _ (Ne.symm e)]; exact h.liveArmed j hj hl
    · refine ⟨rfl, rfl, rfl, rfl, rfl, by simp, ?_, by simp, ?_, rfl⟩
      · intro j hj
        show (w.obs.modify _ _)[j]? = _
        rw [modify_get_other]
        intro e; exact hj (e ▸ rootAt_mem hio)
      · intro j hj
        show (w.cells.set _ _)[j]? = _
        rw [set_get_other _ (fun e => hj (by rw [← e]; exact hK i hi))]

end Rx.CRef
