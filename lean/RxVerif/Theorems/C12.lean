/-
C12 — subjects used from several threads.  Main theorems.

* plain `Subject` (all interleavings, any number of threads, arbitrary programs): `stays_subscribed_gets_all`,
  `stays_subscribed_multiset`, `per_producer_gap_free`, `no_duplicates`, `late_subscriber_suffix`,
  `unsubscriber_prefix` — proved in `RxVerif/Theorems/C12Subject.lean`, re-exported here.
* `ReplaySubject` / `BehaviorSubject`: the late-subscriber clauses are FALSE of the code under concurrency —
  `replay_late_subscriber_violated`, `behavior_late_subscriber_violated` (concrete schedules, checked by `decide`);
  they hold when no `next` call overlaps the `subscribe` call — `replay_late_subscriber_partial`,
  `behavior_late_subscriber_partial`.
-/
import RxVerif.Theorems.C12Subject
import RxVerif.Theorems.C12Replay
import RxVerif.Theorems.C12Behavior

namespace Rx.Conc

/-! ## Plain `Subject` (all interleavings) -/

/-- (a) An observer registered before any producer started (`o < nPre`) and never unsubscribed has, once all
producers are done, received from every producer exactly that producer's items, each call exactly once, in program
order. -/
theorem stays_subscribed_gets_all {progs : List (List Subject.Call)} {nPre : Nat} {s : Subject.State}
    (h : Subject.Reachable progs nPre s) (o : Nat) (hpre : o < nPre)
    (hnever : ∀ t, Subject.Call.unsubscribe o ∉ progs.getD t [])
    (hdone : ∀ t, t < progs.length → s.done t) :
    ∀ t, s.recvFrom o t = Subject.progItems progs t ∧
      s.recvIdxFrom o t = List.range' 0 (Subject.progItems progs t).length :=
  Subject.stays_subscribed_gets_all h o hpre hnever hdone

/-- (a), multiset form: … and what it received is, as a multiset, exactly all items of all producers. -/
theorem stays_subscribed_multiset {progs : List (List Subject.Call)} {nPre : Nat} {s : Subject.State}
    (h : Subject.Reachable progs nPre s) (o : Nat) (hpre : o < nPre)
    (hnever : ∀ t, Subject.Call.unsubscribe o ∉ progs.getD t [])
    (hdone : ∀ t, t < progs.length → s.done t) :
    ((s.received o).map (·.2.2)).Perm ((List.range progs.length).flatMap (Subject.progItems progs)) :=
  Subject.stays_subscribed_multiset h o hpre hnever hdone

/-- (b) Per producer, what ANY observer received — in ANY reachable state — is a contiguous block of that producer's
program, each call of the block delivered exactly once, in order. -/
theorem per_producer_gap_free {progs : List (List Subject.Call)} {nPre : Nat} {s : Subject.State}
    (h : Subject.Reachable progs nPre s) (o t : Nat) :
    ∃ a n, s.recvFrom o t = ((Subject.progItems progs t).drop a).take n ∧ s.recvIdxFrom o t = List.range' a n :=
  Subject.per_producer_gap_free h o t

/-- no duplicates -/
theorem no_duplicates {progs : List (List Subject.Call)} {nPre : Nat} {s : Subject.State}
    (h : Subject.Reachable progs nPre s) (o t : Nat) : (s.recvIdxFrom o t).Nodup :=
  Subject.no_duplicates h o t

/-- (b), late subscriber: gap-free SUFFIX -/
theorem late_subscriber_suffix {progs : List (List Subject.Call)} {nPre : Nat} {s : Subject.State}
    (h : Subject.Reachable progs nPre s) (o t : Nat) (hlive : (s.obs o).fnNext = true) (hdone : s.done t) :
    ∃ a, s.recvFrom o t = (Subject.progItems progs t).drop a ∧
      s.recvIdxFrom o t = List.range' a ((Subject.progItems progs t).length - a) :=
  Subject.late_subscriber_suffix h o t hlive hdone

/-- (b), unsubscriber: gap-free PREFIX -/
theorem unsubscriber_prefix {progs : List (List Subject.Call)} {nPre : Nat} {s : Subject.State}
    (h : Subject.Reachable progs nPre s) (o t : Nat) (hpre : o < nPre) :
    ∃ n, s.recvFrom o t = (Subject.progItems progs t).take n ∧ s.recvIdxFrom o t = List.range' 0 n :=
  Subject.unsubscriber_prefix h o t hpre

/-! ## ReplaySubject: the late-subscriber clause is violated -/

/-- one producer pushing one item, one late subscriber (observer 0) -/
def replayProgs : List (List Replay.Call) := [[.next (.int 1)], [.subscribe 0]]

/-- LOST ITEM: the subscriber clones the history (`hist`, still empty), then the producer pushes and broadcasts to a
still empty inner subject, then the subscriber registers.  Item 1 is in `items` but never reaches the subscriber. -/
def replayLost : List Replay.Label :=
  [(0, .call), (1, .call), (1, .isSub1), (1, .setTd), (1, .hist), (0, .push), (0, .snap), (0, .ret),
   (1, .serial), (1, .setTdF), (1, .insert), (1, .rdErr), (1, .rdCompl), (1, .hdone), (1, .setSbsc),
   (1, .isSubEnd)]

/-- DUPLICATED ITEM: the producer pushes, the subscriber clones the history (containing 1) and registers, the
producer broadcasts 1 to the registered forwarder, then the subscriber replays 1 again. -/
def replayDup : List Replay.Label :=
  [(0, .call), (0, .push), (1, .call), (1, .isSub1), (1, .setTd), (1, .hist), (1, .serial), (1, .setTdF),
   (1, .insert), (0, .snap), (0, .fetch), (0, .ofetch), (0, .deliver), (0, .ret), (1, .rdErr), (1, .rdCompl),
   (1, .hfetch), (1, .hdeliver), (1, .hdone), (1, .setSbsc), (1, .isSubEnd)]

/-- what the schedules are judged on: all threads finished, observer 0 subscribed and never unsubscribed,
contents of `items`, items received by observer 0 -/
def Replay.State.verdict (s : Replay.State) : Bool × Bool × Bool × List Data × List Data :=
  (s.allDone 2, (s.obs 0).subDone, (s.obs 0).fnNext, s.itemVals, s.recvVals 0)

/-- "A late subscriber to a ReplaySubject still receives every item ever pushed exactly once in push order, even
while pushes are in progress" is FALSE of the code: there is a complete run in which the subscriber receives
nothing although 1 was pushed, and a complete run in which it receives 1 twice. -/
theorem replay_late_subscriber_violated :
    (∃ ls, (Replay.replay replayProgs ls).map Replay.State.verdict = some (true, true, true, [.int 1], [])) ∧
    (∃ ls, (Replay.replay replayProgs ls).map Replay.State.verdict
      = some (true, true, true, [.int 1], [.int 1, .int 1])) :=
  ⟨⟨replayLost, by decide +kernel⟩, ⟨replayDup, by decide +kernel⟩⟩

/-- the universally quantified clause, refuted -/
theorem replay_late_subscriber_clause_false :
    ¬ ∀ (progs : List (List Replay.Call)) (s : Replay.State) (o : Nat), Replay.Reachable progs s →
      (∀ t, t < progs.length → s.done t) → (s.obs o).subDone = true → (s.obs o).fnNext = true →
      s.recvVals o = s.itemVals := by
  intro hall
  have hsome : (Replay.replay replayProgs replayLost).isSome = true := by decide +kernel
  obtain ⟨s, hs⟩ := Option.isSome_iff_exists.mp hsome
  have hv : (Replay.replay replayProgs replayLost).map Replay.State.verdict
      = some (true, true, true, [.int 1], []) := by decide +kernel
  rw [hs] at hv
  simp only [Option.map_some, Replay.State.verdict, Option.some.injEq, Prod.mk.injEq] at hv
  obtain ⟨hd, h1, h2, h3, h4⟩ := hv
  have := hall replayProgs s 0 (Replay.reachable_of_replay hs) (by
    intro t ht
    simp only [Replay.State.allDone, List.all_eq_true, List.mem_range, decide_eq_true_eq] at hd
    exact hd t ht) h1 h2
  rw [h3, h4] at this
  exact absurd this (by decide)

/-! ## BehaviorSubject: the late-subscriber clause is violated -/

def behaviorProgs : List (List Behavior.Call) := [[.next (.int 1)], [.subscribe 0]]

/-- GAP: the subscriber reads `last_item = 0`, the producer stores 1 and broadcasts it to a still empty inner
subject, the subscriber is handed 0 and only then registers.  It has received 0 and will never see 1. -/
def behaviorLost : List Behavior.Label :=
  [(0, .call), (1, .call), (1, .isSub1), (1, .rdLast), (0, .setLast), (0, .snap), (0, .ret), (1, .rdErr),
   (1, .hfetch), (1, .hdeliver), (1, .isSub2), (1, .setTd), (1, .serial), (1, .setTdF), (1, .insert), (1, .setSbsc)]

/-- DUPLICATE: the producer stores 1, the subscriber reads it, is handed 1 and registers, then the producer's
broadcast of the same 1 reaches it again. -/
def behaviorDup : List Behavior.Label :=
  [(0, .call), (0, .setLast), (1, .call), (1, .isSub1), (1, .rdLast), (1, .rdErr), (1, .hfetch), (1, .hdeliver),
   (1, .isSub2), (1, .setTd), (1, .serial), (1, .setTdF), (1, .insert), (0, .snap), (0, .fetch), (0, .ofetch),
   (0, .deliver), (0, .ret), (1, .setSbsc)]

/-- all threads finished, observer 0 subscribed and never unsubscribed, every value `last_item` ever held,
items received by observer 0 -/
def Behavior.State.verdict (s : Behavior.State) : Bool × Bool × Bool × List Data × List Data :=
  (s.allDone 2, (s.obs 0).subDone, (s.obs 0).fnNext, s.vals, s.recvVals 0)

/-- "A late subscriber to a BehaviorSubject receives a value and then every later value with no gap, even while
pushes are in progress" is FALSE of the code: there is a complete run in which the subscriber receives the value 0
but never the later value 1, and a complete run in which it receives the single value 1 twice. -/
theorem behavior_late_subscriber_violated :
    (∃ ls, (Behavior.replay behaviorProgs (.int 0) ls).map Behavior.State.verdict
      = some (true, true, true, [.int 0, .int 1], [.int 0])) ∧
    (∃ ls, (Behavior.replay behaviorProgs (.int 0) ls).map Behavior.State.verdict
      = some (true, true, true, [.int 0, .int 1], [.int 1, .int 1])) :=
  ⟨⟨behaviorLost, by decide +kernel⟩, ⟨behaviorDup, by decide +kernel⟩⟩

/-- the universally quantified clause ("what the subscriber received is a suffix of the sequence of values the
subject ever held"), refuted -/
theorem behavior_late_subscriber_clause_false :
    ¬ ∀ (progs : List (List Behavior.Call)) (s : Behavior.State) (o : Nat), Behavior.Reachable progs (.int 0) s →
      (∀ t, t < progs.length → s.done t) → (s.obs o).subDone = true → (s.obs o).fnNext = true →
      ∃ a, a < s.vals.length ∧ s.recvVals o = s.vals.drop a := by
  intro hall
  have hsome : (Behavior.replay behaviorProgs (.int 0) behaviorLost).isSome = true := by decide +kernel
  obtain ⟨s, hs⟩ := Option.isSome_iff_exists.mp hsome
  have hv : (Behavior.replay behaviorProgs (.int 0) behaviorLost).map Behavior.State.verdict
      = some (true, true, true, [.int 0, .int 1], [.int 0]) := by decide +kernel
  rw [hs] at hv
  simp only [Option.map_some, Behavior.State.verdict, Option.some.injEq, Prod.mk.injEq] at hv
  obtain ⟨hd, h1, h2, h3, h4⟩ := hv
  obtain ⟨a, ha, heq⟩ := hall behaviorProgs s 0 (Behavior.reachable_of_replay hs) (by
    intro t ht
    simp only [Behavior.State.allDone, List.all_eq_true, List.mem_range, decide_eq_true_eq] at hd
    exact hd t ht) h1 h2
  rw [h3] at ha heq
  rw [h4] at heq
  match a, ha with
  | 0, _ => exact absurd heq (by decide)
  | 1, _ => exact absurd heq (by decide)

/-! ## Partial theorems: no `next` call overlaps the `subscribe` call -/

/-- Along runs in which no `next` call overlaps a `subscribe` call (`ReachableQ`), a subscribed, never unsubscribed
observer has received from every producer not currently inside `next` exactly the entries that producer pushed into
`items`, each once, in push order (= the items of its first `cnt` calls); when no producer is inside `next` it has
received every entry of `items` exactly once; with a single producer thread it has received exactly `items`, in push
order.  (With two concurrent producers the delivery order may differ from the push order even in quiet runs:
`Replay.partial_hypotheses_satisfiable`.) -/
theorem replay_late_subscriber_partial {progs : List (List Replay.Call)} {s : Replay.State}
    (h : Replay.ReachableQ progs s) (o : Nat)
    (hsub : (s.obs o).subDone = true) (hlive : (s.obs o).fnNext = true) :
    (∀ t, (s.threads t).pc.inNext = false →
      (s.received o).filter (·.1 == t) = s.items.filter (·.1 == t) ∧
      ((s.received o).filter (·.1 == t)).map (·.2.2) = (Replay.progItems progs t).take (s.threads t).cnt) ∧
    ((∀ t, (s.threads t).pc.inNext = false) → (s.received o).Perm s.items) ∧
    ((∀ t, (s.threads t).pc.inNext = false) → ∀ p, (∀ t, t ≠ p → Replay.progItems progs t = []) →
      s.recvVals o = s.itemVals) :=
  ⟨fun t ht => Replay.late_subscriber_per_producer h o hsub hlive t ht,
   fun hidle => Replay.late_subscriber_exactly_once h o hsub hlive hidle,
   fun hidle p hp => Replay.late_subscriber_push_order h o hsub hlive hidle p hp⟩

/-- Along runs in which no `next` call overlaps a `subscribe` call, a subscribed, never unsubscribed observer has
received first the value its subscription read from `last_item`, then — from every producer not currently inside
`next` — exactly the items of all calls that producer made after that read, each once, in order, and nothing else. -/
theorem behavior_late_subscriber_partial {progs : List (List Behavior.Call)} {initial : Data} {s : Behavior.State}
    (h : Behavior.ReachableQ progs initial s) (o : Nat)
    (hsub : (s.obs o).subDone = true) (hlive : (s.obs o).fnNext = true) :
    ∃ x later, (s.obs o).hand = some x ∧ x ∈ s.vals ∧ s.received o = (none, 0, x) :: later ∧
      (∀ e ∈ later, e.1.isSome = true) ∧
      ∀ t, (s.threads t).pc.inNext = false →
        (later.filter (·.1 == some t)).map (·.2.2)
          = ((Behavior.progItems progs t).drop ((s.obs o).base t)).take ((s.threads t).cnt - (s.obs o).base t) ∧
        (later.filter (·.1 == some t)).map (·.2.1)
          = List.range' ((s.obs o).base t) ((s.threads t).cnt - (s.obs o).base t) :=
  Behavior.late_subscriber_value_then_all_later h o hsub hlive

/-! non-vacuity of the partial theorems: `Replay.partial_hypotheses_satisfiable`,
`Behavior.partial_hypotheses_satisfiable`; of the Subject theorems: the `example`s at the end of
`RxVerif/Theorems/C12Subject.lean`. -/

example : ∃ s, Replay.ReachableQ Replay.exProgs s ∧ (s.obs 0).subDone = true ∧ (s.obs 0).fnNext = true ∧
    (∀ t, (s.threads t).pc.inNext = false) := by
  obtain ⟨s, h1, h2, h3, h4, _⟩ := Replay.partial_hypotheses_satisfiable
  exact ⟨s, h1, h2, h3, h4⟩

example : ∃ s, Behavior.ReachableQ Behavior.exProgs (.int 0) s ∧ (s.obs 0).subDone = true ∧
    (s.obs 0).fnNext = true := by
  obtain ⟨s, h1, h2, h3, _⟩ := Behavior.partial_hypotheses_satisfiable
  exact ⟨s, h1, h2, h3⟩

end Rx.Conc

#print axioms Rx.Conc.stays_subscribed_gets_all
#print axioms Rx.Conc.stays_subscribed_multiset
#print axioms Rx.Conc.per_producer_gap_free
#print axioms Rx.Conc.no_duplicates
#print axioms Rx.Conc.late_subscriber_suffix
#print axioms Rx.Conc.unsubscriber_prefix
#print axioms Rx.Conc.replay_late_subscriber_violated
#print axioms Rx.Conc.replay_late_subscriber_clause_false
#print axioms Rx.Conc.behavior_late_subscriber_violated
#print axioms Rx.Conc.behavior_late_subscriber_clause_false
#print axioms Rx.Conc.replay_late_subscriber_partial
#print axioms Rx.Conc.behavior_late_subscriber_partial
#print axioms Rx.Conc.Replay.partial_hypotheses_satisfiable
#print axioms Rx.Conc.Behavior.partial_hypotheses_satisfiable
