/-
Structural invariant of the `Subject` LTS: who owns which observer, serial numbers are unique, the map holds exactly
the inserted observers that were not torn down, a live (fn_next present) inserted observer is in the map.
-/
import RxVerif.Conc.Subject
import RxVerif.Theorems.C12Lists

namespace Rx.Conc.Subject

/-- pc-indexed local facts of thread `t` -/
def LocA (obs : Nat → Obs) (t : Nat) : Pc → Prop
  | .nxL _ _ snap => snap.Nodup ∧ ∀ o ∈ snap, (obs o).ins = true
  | .nx2 _ _ o rest => (o :: rest).Nodup ∧ ∀ o' ∈ o :: rest, (obs o').ins = true
  | .s0 o | .s1 o | .s2 o => (obs o).used = some t ∧ (obs o).ins = false
  | .s3 o | .s4 o => (obs o).used = some t ∧ (obs o).ins = false ∧ (obs o).ser.isSome = true
  | .u1 o | .u2 o | .u3 o | .u4 o | .u5 o => (obs o).fnNext = false
  | _ => True

/-- the local facts of a thread survive any change of the observers that keeps `ins` / `fnNext = false` and leaves the
observers this thread is subscribing alone -/
theorem LocA_mono {obs obs' : Nat → Obs} {t : Nat} {pc : Pc}
    (h1 : ∀ o, (obs o).ins = true → (obs' o).ins = true)
    (h2 : ∀ o, (obs o).used = some t → (obs o).ins = false →
      (obs' o).used = some t ∧ (obs' o).ins = false ∧ ((obs o).ser.isSome = true → (obs' o).ser.isSome = true))
    (h3 : ∀ o, (obs o).fnNext = false → (obs' o).fnNext = false)
    (h : LocA obs t pc) : LocA obs' t pc := by
  cases pc <;> simp only [LocA] at h ⊢
  case nxL => exact ⟨h.1, fun o ho => h1 o (h.2 o ho)⟩
  case nx2 => exact ⟨h.1, fun o ho => h1 o (h.2 o ho)⟩
  case s0 o => exact ⟨(h2 o h.1 h.2).1, (h2 o h.1 h.2).2.1⟩
  case s1 o => exact ⟨(h2 o h.1 h.2).1, (h2 o h.1 h.2).2.1⟩
  case s2 o => exact ⟨(h2 o h.1 h.2).1, (h2 o h.1 h.2).2.1⟩
  case s3 o => exact ⟨(h2 o h.1 h.2.1).1, (h2 o h.1 h.2.1).2.1, (h2 o h.1 h.2.1).2.2 h.2.2⟩
  case s4 o => exact ⟨(h2 o h.1 h.2.1).1, (h2 o h.1 h.2.1).2.1, (h2 o h.1 h.2.1).2.2 h.2.2⟩
  all_goals first | exact h3 _ h | trivial

structure InvA (s : State) : Prop where
  loc : ∀ t : Nat, LocA s.obs t (s.threads t).pc
  mapSer : ∀ k o : Nat, (k, o) ∈ s.map → (s.obs o).ser = some k ∧ (s.obs o).ins = true
  mapNodup : (s.map.map (·.2)).Nodup
  serLe : ∀ o k : Nat, (s.obs o).ser = some k → k ≤ s.serial
  serInj : ∀ o o' k : Nat, (s.obs o).ser = some k → (s.obs o').ser = some k → o = o'
  live : ∀ o : Nat, (s.obs o).ins = true → (s.obs o).fnNext = true → o ∈ s.map.map (·.2)
  logIns : ∀ o : Nat, (s.obs o).rlog ≠ [] → (s.obs o).ins = true
  preIns : ∀ o : Nat, (s.obs o).pre = true → (s.obs o).ins = true
  insUsed : ∀ o : Nat, (s.obs o).ins = true → (s.obs o).used.isSome = true

theorem invA_init (progs : List (List Call)) (nPre : Nat) : InvA (init progs nPre) := by
  constructor
  · intro t; simp [init, LocA]
  · intro k o h
    simp [init] at h
    obtain ⟨ha, rfl⟩ := h
    simp [init, ha]
  · simp [init, List.map_map, Function.comp_def]
    exact List.nodup_range
  · intro o k h
    simp only [init] at h ⊢
    split at h <;> simp at h; omega
  · intro o o' k h h'
    simp only [init] at h h'
    split at h <;> split at h' <;> simp at h h'; omega
  · intro o h _
    simp only [init] at h ⊢
    split at h <;> simp at h
    simp [List.map_map, Function.comp_def]; assumption
  · intro o h; simp [init] at h; split at h <;> simp at h
  · intro o h; simp only [init] at h ⊢; split at h <;> simp at h
    rename_i h'; simp [h']
  · intro o h; simp only [init] at h ⊢; split at h <;> simp at h
    rename_i h'; simp [h']


/-- a step that changes only the stepping thread -/
theorem invA_thr {s : State} (h : InvA s) (t : Nat) (th' : Thread) (hl : LocA s.obs t th'.pc) :
    InvA { s with threads := setThr s t th' } := by
  obtain ⟨hloc, hmapSer, hmapNodup, hserLe, hserInj, hlive, hlogIns, hpreIns, hinsUsed⟩ := h
  constructor <;> try assumption
  intro t'
  simp only [setThr]
  split
  · rename_i h; subst h; exact hl
  · exact hloc t'

set_option hygiene false in
macro "obs_case" : tactic => `(tactic|
  (obtain ⟨hloc, hmapSer, hmapNodup, hserLe, hserInj, hlive, hlogIns, hpreIns, hinsUsed⟩ := h
   constructor <;> simp only [setThr]
   · intro t'
     by_cases ht : t' = t
     · subst ht; simp only [if_true, LocA] <;> grind [setObs]
     · simp only [if_neg ht]
       refine LocA_mono ?_ ?_ ?_ (hloc t') <;> grind [setObs]
   all_goals grind [setObs]))

theorem invA_step {s s' : State} {t : Nat} (h : InvA s) (hs : stepT s t = some s') : InvA s' := by
  have hl := h.loc t
  cases hpc : (s.threads t).pc with
  | idle =>
    simp only [stepT, hpc] at hs
    split at hs
    · simp at hs
    · simp at hs; subst hs
      exact invA_thr h t _ (by simp [LocA])
    · split at hs
      · simp at hs
      · simp at hs; subst hs
        obs_case
    · simp at hs; subst hs
      exact invA_thr h t _ (by simp [LocA])
  | nx0 k v =>
    simp only [stepT, hpc, Option.some.injEq] at hs; subst hs
    refine invA_thr h t _ ?_
    simp only [LocA]
    exact ⟨h.mapNodup, by grind [InvA]⟩
  | nxL k v snap =>
    rw [hpc] at hl; simp only [LocA] at hl
    cases snap with
    | nil =>
      simp only [stepT, hpc, Option.some.injEq] at hs; subst hs
      exact invA_thr h t _ (by simp [LocA])
    | cons o rest =>
      simp only [stepT, hpc, Option.some.injEq] at hs; subst hs
      refine invA_thr h t _ ?_
      dsimp only
      split <;> simp only [LocA] <;> grind
  | nx2 k v o rest =>
    rw [hpc] at hl; simp only [LocA] at hl
    simp only [stepT, hpc, Option.some.injEq] at hs; subst hs
    obs_case
  | s0 o =>
    rw [hpc] at hl; simp only [LocA] at hl
    simp only [stepT, hpc, Option.some.injEq] at hs; subst hs
    refine invA_thr h t _ ?_
    dsimp only
    split <;> simp only [LocA] <;> grind
  | s1 o =>
    rw [hpc] at hl; simp only [LocA] at hl
    simp only [stepT, hpc, Option.some.injEq] at hs; subst hs
    refine invA_thr h t _ ?_
    dsimp only
    split <;> simp only [LocA] <;> grind
  | s2 o =>
    rw [hpc] at hl; simp only [LocA] at hl
    simp only [stepT, hpc, Option.some.injEq] at hs; subst hs
    obs_case
  | s3 o =>
    rw [hpc] at hl; simp only [LocA] at hl
    simp only [stepT, hpc, Option.some.injEq] at hs; subst hs
    obs_case
  | s4 o =>
    rw [hpc] at hl; simp only [LocA] at hl
    simp only [stepT, hpc, Option.some.injEq] at hs; subst hs
    obtain ⟨hu, hi, hsome⟩ := hl
    obtain ⟨kk, hk⟩ := Option.isSome_iff_exists.mp hsome
    simp only [hk, Option.getD_some]
    obtain ⟨hloc, hmapSer, hmapNodup, hserLe, hserInj, hlive, hlogIns, hpreIns, hinsUsed⟩ := h
    have hnotin : o ∉ s.map.map (·.2) := by
      intro hin
      simp only [List.mem_map] at hin
      obtain ⟨⟨k, o'⟩, hm, rfl⟩ := hin
      have := (hmapSer k o' hm).2
      simp_all
    constructor <;> simp only [setThr]
    · intro t'
      by_cases ht : t' = t
      · subst ht; simp [LocA]
      · simp only [if_neg ht]
        refine LocA_mono ?_ ?_ ?_ (hloc t') <;> grind [setObs]
    · intro k o' hm
      simp only [List.mem_append, List.mem_singleton, Prod.mk.injEq] at hm
      grind [setObs]
    · simp only [List.map_append, List.map_cons, List.map_nil]
      rw [List.nodup_append]
      refine ⟨hmapNodup, by simp, ?_⟩
      intro a ha b hb
      simp at hb; subst hb
      intro hab; subst hab; exact hnotin ha
    · grind [setObs]
    · grind [setObs]
    · intro o' h1 h2
      simp only [List.map_append, List.map_cons, List.map_nil, List.mem_append, List.mem_singleton]
      by_cases hoo : o' = o
      · exact .inr hoo
      · left; apply hlive <;> grind [setObs]
    · grind [setObs]
    · grind [setObs]
    · grind [setObs]
  | u0 o =>
    simp only [stepT, hpc, Option.some.injEq] at hs; subst hs
    obs_case
  | u1 o =>
    rw [hpc] at hl; simp only [LocA] at hl
    simp only [stepT, hpc, Option.some.injEq] at hs; subst hs
    exact invA_thr h t _ (by simpa [LocA] using hl)
  | u2 o =>
    rw [hpc] at hl; simp only [LocA] at hl
    simp only [stepT, hpc, Option.some.injEq] at hs; subst hs
    exact invA_thr h t _ (by simpa [LocA] using hl)
  | u3 o =>
    rw [hpc] at hl; simp only [LocA] at hl
    simp only [stepT, hpc, Option.some.injEq] at hs; subst hs
    refine invA_thr h t _ ?_
    dsimp only
    split <;> simp only [LocA] <;> grind
  | u4 o =>
    rw [hpc] at hl; simp only [LocA] at hl
    simp only [stepT, hpc, Option.some.injEq] at hs; subst hs
    obtain ⟨hloc, hmapSer, hmapNodup, hserLe, hserInj, hlive, hlogIns, hpreIns, hinsUsed⟩ := h
    constructor <;> simp only [setThr] <;> try assumption
    · intro t'
      by_cases ht : t' = t
      · subst ht; simpa [LocA] using hl
      · simp only [if_neg ht]; exact hloc t'
    · intro k o' hm
      exact hmapSer k o' (List.mem_filter.mp hm).1
    · exact hmapNodup.sublist ((List.filter_sublist).map _)
    · intro o' h1 h2
      have hin := hlive o' h1 h2
      simp only [List.mem_map] at hin ⊢
      obtain ⟨⟨k, o''⟩, hm, rfl⟩ := hin
      refine ⟨(k, o''), List.mem_filter.mpr ⟨hm, ?_⟩, rfl⟩
      have hk := (hmapSer k o'' hm).1
      simp only [bne_iff_ne, ne_eq]
      intro heq
      have := hserInj o o'' k heq.symm hk
      subst this
      rw [hl] at h2; exact Bool.noConfusion h2
  | u5 o =>
    rw [hpc] at hl; simp only [LocA] at hl
    simp only [stepT, hpc, Option.some.injEq] at hs; subst hs
    obs_case

theorem invA_reachable {progs : List (List Call)} {nPre : Nat} {s : State} (h : Reachable progs nPre s) : InvA s := by
  induction h with
  | init => exact invA_init progs nPre
  | step _ hs ih =>
    simp only [step] at hs
    split at hs
    · exact invA_step ih hs
    · simp at hs

end Rx.Conc.Subject
