import RxVerif.Theorems.C03RefZip
/-
C03-REF, sequence_equal (after the repair of F10): the program, and the statement checked on concrete histories.
The THEOREM is proved in C03RefSeqEqFinal.lean (`Rx.SeqRef.sequence_equal_refines`, for every `n` and EVERY history).

Model A's `oSequenceEqual` (Machine/Lib.lean) is a four-layer pipeline per source
    subject i ─ stdOp kSome ─ oConcat [oJust None] ─┐
                                                    ├─ oZip ─ outer controller (comparison closures) ─ test user
    subject j ─ stdOp kSome ─ oConcat [oJust None] ─┘
i.e. `2k + 2` StreamControllers whose `finalize` calls nest four deep (the outer controller unsubscribes zip's
subscriber, whose teardown finalizes zip's controller, which unsubscribes the `k` concat subscribers, whose teardowns
finalize the concat controllers, which unsubscribe the map subscribers, ... down to the subjects).

    theorem sequence_equal_refines (n : Nat) (H : History) :
      ∃ n0, ∀ fuel, n0 ≤ fuel →
        Agrees (n + 1) (run fuel [prog n H] {})
          (finalFrom sequenceEqual.step (Over.init (n + 1)) H).z.ctl.live (sequenceEqual.run (n + 1) H)

Proof (files C03RefSeqEq*.lean, namespace `Rx.SeqRef`): a relation for the TREE of controllers.  Each chain
subject → map → concat → zip-observer is described by nine bits (`CB`: which observers still have callbacks / hooks,
which registrations remain) so that teardown lemmas hold from ANY partially decayed state; `GRel` is the global
relation with guards held, `QRel` the quiescent one tied to the `Comb.sequenceEqual` state.

Below: the statement on concrete histories (logs, status, the observer count of every subject after every prefix).
-/
namespace Rx.CRef.SequenceEqual
open Rx.Ref Rx.Comb Rx.CRef

/-- `n+1` plain subjects; test user 0 subscribes to `s0.sequence_equal(&[s1, .., sn])`; then the history -/
def prog (n : Nat) (H : History) : Prog :=
  subjsNew (n + 1) fun sjs =>
    .obsvNew (oSequenceEqual (sjs.headD default).observable (sjs.tail.map Subj.observable)) fun id =>
    .userSub id noReact (drive sjs H)

/-- the comparison made by the intended theorem, for one history and enough fuel -/
def agreesB (n fuel : Nat) (H : History) : Bool :=
  let w := run fuel [prog n H] {}
  let s := finalFrom sequenceEqual.step (Over.init (n + 1)) H
  w.status == .ok && w.held.isEmpty && logOf w 0 == sequenceEqual.run (n + 1) H &&
    (List.range (n + 1)).all fun i => regCount w i == (if s.z.ctl.live.contains i then 1 else 0)

/-- every prefix of the history -/
def allPrefixes (n fuel : Nat) (H : History) : Bool := (List.range (H.length + 1)).all fun m => agreesB n fuel (H.take m)

/-- a=1, a completes, b=1, b=2, b completes: `false` when b's second item meets a's end marker -/
def h1 : History := [(0, .next (.int 1)), (0, .complete), (1, .next (.int 1)), (1, .next (.int 2)), (1, .complete)]
example : logOf (run 20000 [prog 1 (h1.take 3)] {}) 0 = [] ∧
    logOf (run 20000 [prog 1 (h1.take 4)] {}) 0 = [.next (.bool false), .complete] := by decide +kernel
example : allPrefixes 1 20000 h1 = true := by decide +kernel

/-- equal sequences, three sources; an ill-formed tail (source 1 talks after its completion) -/
def h2 : History :=
  [(0, .next (.int 1)), (1, .next (.int 1)), (2, .next (.int 1)), (1, .complete), (1, .next (.int 9)), (0, .complete),
   (2, .complete)]
example : logOf (run 40000 [prog 2 h2] {}) 0 = [.next (.bool true), .complete] := by decide +kernel
example : allPrefixes 2 40000 h2 = true := by decide +kernel

/-- an error arrives before any position is complete; a mismatch known only when the third source arrives -/
def h3 : History := [(0, .next (.int 1)), (1, .error 7), (0, .complete)]
def h4 : History := [(0, .next (.int 1)), (1, .next (.int 2)), (2, .next (.int 1)), (0, .complete)]
example : allPrefixes 1 20000 h3 = true ∧ allPrefixes 2 40000 h4 = true := by decide +kernel

end Rx.CRef.SequenceEqual
