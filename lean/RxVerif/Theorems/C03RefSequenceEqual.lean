import RxVerif.Theorems.C03RefZip
/-
C03-REF, sequence_equal (after the repair of F10) — NOT a theorem yet; this file fixes the statement and checks it on
concrete histories.

Model A's `oSequenceEqual` (Machine/Lib.lean) is now a four-layer pipeline per source
    subject i ─ stdOp kSome ─ oConcat [oJust None] ─┐
                                                    ├─ oZip ─ outer controller (comparison closures) ─ test user
    subject j ─ stdOp kSome ─ oConcat [oJust None] ─┘
i.e. `2k + 2` StreamControllers whose `finalize` calls nest four deep (the outer controller unsubscribes zip's
subscriber, whose teardown finalizes zip's controller, which unsubscribes the `k` concat subscribers, whose teardowns
finalize the concat controllers, which unsubscribe the map subscribers, ... down to the subjects).

The intended statement, in the shape of the other refinements (`Zip.zip_refines` etc.):

    theorem sequence_equal_refines (n : Nat) (H : History) :
      ∃ n0, ∀ fuel, n0 ≤ fuel →
        Agrees (n + 1) (run fuel [prog n H] {})
          (finalFrom sequenceEqual.step (Over.init (n + 1)) H).z.ctl.live (sequenceEqual.run (n + 1) H)

WHAT IS MISSING.  The simulation relations of C03RefBase (`CRef.Rel`) and C03RefGBase (`GRef.Rel`) describe ONE
controller whose subscriber is the test user's root observer and whose inner observers sit directly on the subjects.
Here a relation for a TREE of controllers is needed: the subscriber of an inner controller is an inner observer of the
next one, `unsub_inner` of the outer relation must run the inner controller's `finalize_spec` (a mutual induction
over the depth of the tree), and `stdOp`/`oConcat` stages need their own step lemmas (the single-stage calculus of
Theorems/SimBase.lean covers `stdOp` with the test user as subscriber only).  None of this is proved here.

What IS machine-checked: `Comb.sequence_equal_spec` (history machine = list spec, Theorems/C03.lean), and below the
statement above on concrete histories (logs, status, and the observer count of every subject after every prefix).
-/
namespace Rx.CRef.SequenceEqual
open Rx.Ref Rx.Comb Rx.CRef

/-- `n+1` plain subjects; test user 0 subscribes to `s0.sequence_equal(&[s1, .., sn])`; then the history -/
def prog (n : Nat) (H : History) : Prog :=
  subjsNew (n + 1) fun sjs =>
    .obsvNew (oSequenceEqual (sjs.headD default).observable (sjs.tail.map Subj.observable)) fun id =>
    .userSub id noReact (drive sjs H)

/-- the comparison made by the intended theorem, for one history and enough fuel -/
def agreesB (n fuel : Nat) (H : History) : Bool :=
  let w := run fuel [prog n H] {}
  let s := finalFrom sequenceEqual.step (Over.init (n + 1)) H
  w.status == .ok && w.held.isEmpty && logOf w 0 == sequenceEqual.run (n + 1) H &&
    (List.range (n + 1)).all fun i => regCount w i == (if s.z.ctl.live.contains i then 1 else 0)

/-- every prefix of the history -/
def allPrefixes (n fuel : Nat) (H : History) : Bool := (List.range (H.length + 1)).all fun m => agreesB n fuel (H.take m)

/-- a=1, a completes, b=1, b=2, b completes: `false` when b's second item meets a's end marker -/
def h1 : History := [(0, .next (.int 1)), (0, .complete), (1, .next (.int 1)), (1, .next (.int 2)), (1, .complete)]
example : logOf (run 20000 [prog 1 (h1.take 3)] {}) 0 = [] ∧
    logOf (run 20000 [prog 1 (h1.take 4)] {}) 0 = [.next (.bool false), .complete] := by decide +kernel
example : allPrefixes 1 20000 h1 = true := by decide +kernel

/-- equal sequences, three sources; an ill-formed tail (source 1 talks after its completion) -/
def h2 : History :=
  [(0, .next (.int 1)), (1, .next (.int 1)), (2, .next (.int 1)), (1, .complete), (1, .next (.int 9)), (0, .complete),
   (2, .complete)]
example : logOf (run 40000 [prog 2 h2] {}) 0 = [.next (.bool true), .complete] := by decide +kernel
example : allPrefixes 2 40000 h2 = true := by decide +kernel

/-- an error arrives before any position is complete; a mismatch known only when the third source arrives -/
def h3 : History := [(0, .next (.int 1)), (1, .error 7), (0, .complete)]
def h4 : History := [(0, .next (.int 1)), (1, .next (.int 2)), (2, .next (.int 1)), (0, .complete)]
example : allPrefixes 1 20000 h3 = true ∧ allPrefixes 2 40000 h4 = true := by decide +kernel

end Rx.CRef.SequenceEqual
