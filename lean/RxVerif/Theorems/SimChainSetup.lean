import RxVerif.Theorems.SimChainActs
import RxVerif.Machine.Chain
/-
SIM for chains, part 5: subscription set-up.  Each `stdOp` of the chain allocates its controller, its
state cell and its upstream observer, then subscribes the next stage to that observer.
-/
namespace Rx.Chain
open Rx.Sim

/-- the world after `stdOp K src s` has reached `src.sub o` (and found `o` subscribed) -/
def stageW (K : Kernel Data) (s : Nat) (w : World) : World :=
  let sc : Sctl := ⟨s, w.cells.length, w.cells.length + 1, w.slots.length⟩
  { w with
    obs := (w.obs.modify s fun x => { x with onUnsub := some sc.finalize }) ++
      [⟨some (.code (stdN K sc (w.cells.length + 2) 0)), some (.code (stdE K sc (w.cells.length + 2) 0)),
        some (.code (stdC K sc (w.cells.length + 2) 0)), none⟩]
    cells := w.cells ++ [.int 1, Data.ofList [.pair (.int 0) (.int (w.obs.length : Nat))], K.enc K.init]
    slots := w.slots ++ [none] }

theorem get_mod_concat {α} (l : List α) (s : Nat) (f : α → α) (a : α) :
    (l.modify s f ++ [a])[l.length]? = some a := by
  have : l.length = (l.modify s f).length := by simp
  rw [this, List.getElem?_concat_length]

theorem get_mod_left {α} (l : List α) (s : Nat) (f : α → α) (a x : α) (h : l[s]? = some x) :
    (l.modify s f ++ [a])[s]? = some (f x) := by
  have hl : s < l.length := by
    rcases Nat.lt_or_ge s l.length with hlt | hge
    · exact hlt
    · rw [List.getElem?_eq_none hge] at h; cases h
  rw [List.getElem?_append_left (by simpa using hl), List.getElem?_modify, h]; simp

/-- (the subscriber `s` is alive: `new_observer`'s re-check of the subscriber takes the live path) -/
theorem stage_run (K : Kernel Data) (src : Obsv) (s : Nat) (w : World) (hh : w.held = [])
    (x : Obs) (hx : w.obs[s]? = some x) (hsub : x.isSub = true)
    (fuel : Nat) (st : List Prog) :
    run (fuel + 12) (stdOp K src s :: st) w = run fuel (src w.obs.length :: st) (stageW K s w) := by
  obtain ⟨obs, slots, cells, obsvs, users, held, trace, status⟩ := w
  simp only at hh hx
  subst hh
  have hsub' : (x.next.isSome && x.error.isSome && x.complete.isSome) = true := hsub
  simp only [stdOp, run, sctlNew, Sctl.newObserver, Obsv.sub, List.getElem?_concat_length,
    World.conflicts, List.any_nil, World.setObs, Bool.false_eq_true, ↓reduceIte, Bool.and_false,
    List.append_assoc, List.cons_append, List.nil_append, List.length_append, List.length_cons, List.length_nil,
    get3_0, get3_1, set3_0, set3_1, Option.getD_some, Data.toInt, Int.toNat_zero,
    Obs.isSub, Option.isSome_some, Bool.and_self, Nat.zero_add, Nat.reduceAdd, List.length_modify, stageW, get_mod_concat, get_mod_left _ _ _ _ _ hx, hsub']
  rfl

/-- `j` stages of the chain have been built and nothing has been delivered yet -/
structure Built (ly : Lay) (j : Nat) (w : World) : Prop where
  rep : CRep ly j (CSt.init j ly.ks) [] w
  lobs : w.obs.length = ly.L + j + 1
  lcells : w.cells.length = ly.c0 + 3 * j
  lslots : w.slots.length = ly.s0 + j

theorem obsAt_init_lt (ly : Lay) {j k : Nat} (hk : k < j) :
    ly.obsAt (CSt.init (j + 1) ly.ks) k = ly.obsAt (CSt.init j ly.ks) k := by
  have : k < j + 1 := by omega
  simp [Lay.obsAt, Lay.td, CSt.init, hk, this]

theorem built_step {ly : Lay} {j : Nat} {w : World} (hb : Built ly j w) :
    Built ly (j + 1) (stageW (ly.ks j).kernel (ly.L + j) w) := by
  have lo := hb.lobs
  have lc := hb.lcells
  have ls := hb.lslots
  have h := hb.rep
  refine ⟨⟨h.status, h.held, ?_, ?_, ?_, ?_, h.user, h.log, h.others, ?_⟩, ?_, ?_, ?_⟩
  · intro k hk
    show ((w.obs.modify (ly.L + j) _) ++ [_])[ly.L + k]? = _
    by_cases e : k = j + 1
    · subst e
      have : ly.L + (j + 1) = w.obs.length := by omega
      rw [this, get_mod_concat, lc, ls]
      simp [Lay.obsAt, Lay.td, CSt.init, Lay.hdlN, Lay.hdlE, Lay.hdlC, Lay.hn, Lay.he, Lay.hc, Lay.sc, Lay.cc]
    · have hk' : k ≤ j := by omega
      rw [List.getElem?_append_left (by simp; omega), List.getElem?_modify, h.obs k hk']
      by_cases e2 : k = j
      · subst e2
        simp [Lay.obsAt, Lay.td, CSt.init, lc, ls, Lay.sc]
      · have : ly.L + j ≠ ly.L + k := by omega
        rw [obsAt_init_lt ly (by omega)]
        simp only [if_neg this]
        rfl
  · intro k hk
    show (w.cells ++ [_, _, _])[ly.c0 + 3 * k + 1]? = _
    by_cases e : k = j
    · subst e
      have : ly.c0 + 3 * k + 1 = w.cells.length + 1 := by omega
      rw [this, get3_1, lo]; rfl
    · rw [List.getElem?_append_left (by omega)]; exact h.map k (by omega)
  · intro k hk
    show (w.cells ++ [_, _, _])[ly.c0 + 3 * k + 2]? = _
    by_cases e : k = j
    · subst e
      have : ly.c0 + 3 * k + 2 = w.cells.length + 2 := by omega
      rw [this, get3_2]; rfl
    · rw [List.getElem?_append_left (by omega)]; exact h.cst k (by omega)
  · intro k hk
    show (w.slots ++ [none])[ly.s0 + k]? = _
    by_cases e : k = j
    · subst e
      rw [← ls, List.getElem?_concat_length]
    · rw [List.getElem?_append_left (by omega)]; exact h.slot k (by omega)
  · simp [CSt.init]
  · simp [stageW]; omega
  · simp [stageW]; omega
  · simp [stageW]; omega

/-- building stage `j`: afterwards the next stage is subscribed to the new upstream observer -/
theorem stage_setup {ly : Lay} {j : Nat} {w : World} {Q : World → Prop} (src : Obsv) (hb : Built ly j w)
    (hk : ∀ w', Built ly (j + 1) w' → WP (src (ly.L + (j + 1))) w' Q) :
    WP (stdOp (ly.ks j).kernel src (ly.L + j)) w Q := by
  obtain ⟨n, w', hQ, hr⟩ := hk _ (built_step hb)
  refine ⟨n + 12, w', hQ, fun fuel st => ?_⟩
  rw [← Nat.add_assoc, stage_run _ _ _ _ hb.rep.held _ (hb.rep.obs j (Nat.le_refl _))
    (by rw [obsAt_isSub]; rfl)]
  have : w.obs.length = ly.L + (j + 1) := by have := hb.lobs; omega
  rw [this]
  exact hr fuel st

theorem opsFrom_setup {ly : Lay} (src : Obsv) {Q : World → Prop} : ∀ (c j : Nat) (w : World),
    Built ly j w → (∀ w', Built ly (j + c) w' → WP (src (ly.L + (j + c))) w' Q) →
    WP (opsFrom ly.ks c j src (ly.L + j)) w Q := by
  intro c
  induction c with
  | zero => intro j w hb hk; exact hk w hb
  | succ c ih =>
    intro j w hb hk
    simp only [opsFrom]
    apply stage_setup _ hb
    intro w' hb'
    apply ih (j + 1) w' hb'
    intro w'' hb''
    have e : j + 1 + c = j + (c + 1) := by omega
    rw [e] at hb'' ⊢
    exact hk w'' hb''

/-! `chainOp` in stage numbering -/

theorem opsFrom_foldr (ks : Nat → DK) (src : Obsv) : ∀ (R : List AnyKernel) (j : Nat),
    (∀ k A, R[k]? = some A → ks (j + k) = A.K.dk) →
    opsFrom ks R.length j src = R.foldr (fun A s => stdOp A.K s) src := by
  intro R
  induction R with
  | nil => intro j _; rfl
  | cons A R ih =>
    intro j h
    simp only [List.length_cons, opsFrom, List.foldr_cons]
    have h0 : ks j = A.K.dk := h 0 A rfl
    rw [h0, ih (j + 1) (fun k B hB => by
      have := h (k + 1) B (by simpa using hB)
      rw [← this]; congr 1; omega)]
    rfl

theorem chainOp_eq (Ks : List AnyKernel) (src : Obsv) :
    chainOp Ks src = opsFrom (ksOf Ks) Ks.length 0 src := by
  have h := opsFrom_foldr (ksOf Ks) src Ks.reverse 0 (fun k A hA => by
    simp only [ksOf, Nat.zero_add, hA])
  rw [List.length_reverse] at h
  rw [h, List.foldr_reverse]
  rfl

/-! ### the machine runs a chain exactly as the flat chain machine says -/

def layOf (Ks : List AnyKernel) (w : World) : Lay :=
  ⟨w.obs.length, w.cells.length, w.slots.length, w.users.length, Ks.length, ksOf Ks, logOf w⟩

/-- the world right after `userSub` has created the subscriber and its root observer -/
def subW (f : Nat → Prog) (w : World) : World :=
  { w with
    obsvs := w.obsvs ++ [f]
    obs := w.obs ++ [⟨some (.user w.users.length), some (.user w.users.length), some (.user w.users.length), none⟩]
    users := w.users ++ [⟨w.obs.length, fun _ _ _ => .done, false, true⟩] }

theorem sub_run (f : Nat → Prog) (w : World) (fuel : Nat) (st : List Prog) :
    run (fuel + 2) ((Prog.obsvNew f fun id => .userSub id (fun _ _ _ => .done) .done) :: st) w
      = run fuel (f w.obs.length :: .userReady w.users.length .done :: st) (subW f w) := by
  simp only [run, List.getElem?_concat_length, subW]

theorem built_zero (Ks : List AnyKernel) (f : Nat → Prog) (w : World) (hw : Ready w) :
    Built (layOf Ks w) 0 (subW f w) where
  rep :=
    { status := hw.status
      held := hw.held
      obs := fun k hk => by
        have : k = 0 := by omega
        subst this
        show (w.obs ++ [_])[w.obs.length + 0]? = _
        rw [Nat.add_zero, List.getElem?_concat_length]
        simp [Lay.obsAt, Lay.td, CSt.init, Lay.hdlN, Lay.hdlE, Lay.hdlC, layOf]
      map := fun k hk => by omega
      cst := fun k hk => by omega
      slot := fun k hk => by omega
      user := ⟨⟨w.obs.length, fun _ _ _ => .done, false, true⟩, by simp [subW, layOf], rfl⟩
      log := hw.inv.quiet _ (Nat.le_refl _)
      others := fun _ _ => rfl
      arTop := by simp [CSt.init] }
  lobs := by simp [subW, layOf]
  lcells := by simp [subW, layOf]
  lslots := by simp [subW, layOf]

theorem chain_simFlat (Ks : List AnyKernel) (w : World) (hw : Ready w) (tag : Nat) (s : Stream) :
    ∃ N, ∀ fuel, N ≤ fuel →
      CRep (layOf Ks w) Ks.length (chainFlat Ks s) [] (run fuel [subscribeChain Ks tag s] w) := by
  let ly := layOf Ks w
  let f := chainOp Ks (oScript tag true s.toEvs)
  have hb0 : Built ly 0 (subW f w) := built_zero Ks f w hw
  have hwp : WP (f w.obs.length) (subW f w) (CRep ly Ks.length (chainFlat Ks s) []) := by
    show WP (chainOp Ks (oScript tag true s.toEvs) (ly.L + 0)) _ _
    rw [chainOp_eq]
    apply opsFrom_setup (ly := ly) _ Ks.length 0 _ hb0
    intro w' hb
    rw [Nat.zero_add] at hb ⊢
    simp only [oScript]
    apply c_probe hb.rep
    intro w'' h''
    exact loop_spec ly Ks.length tag s.toEvs _ _ h''
  obtain ⟨n, w2, h2, hrun⟩ := hwp
  refine ⟨n + 5, fun fuel hf => ?_⟩
  obtain ⟨k, rfl⟩ : ∃ k, fuel = k + 1 + 1 + 1 + n + 2 := ⟨fuel - (n + 5), by omega⟩
  have e : run (k + 1 + 1 + 1 + n + 2) [subscribeChain Ks tag s] w
      = w2.setUser w.users.length fun u => { u with ready := true } := by
    show run _ ((Prog.obsvNew f _) :: _) w = _
    rw [sub_run]
    exact (hrun (k + 1 + 1 + 1) [.userReady w.users.length .done]).trans rfl
  rw [e]
  obtain ⟨u, hu, hre⟩ := h2.user
  exact { h2 with
    user := ⟨{ u with ready := true }, by
      show (w2.users.modify w.users.length _)[w.users.length]? = _
      have : w2.users[w.users.length]? = some u := hu
      rw [List.getElem?_modify, this]
      simp, hre⟩ }

end Rx.Chain
