import RxVerif.Theorems.C03RefSeqEqZip
/-
C03-REF, sequence_equal, part 8: a call on subject `i` travels up its chain:
`Subject::next(d)` → map_i (`Some(d)`) → concat_i → zip's observer `i`.
-/
namespace Rx.SeqRef
open Rx.Sim Rx.Ref Rx.Comb Rx.CRef

variable {k : Nat} {σ : GS} {hl : List (LockId × Bool)} {w : World}

theorem GRel.cells_congr (h : GRel k σ hl w) (cells' : List Data) (hc : ∀ c : Nat, cells'[c]? = w.cells[c]?) :
    GRel k σ hl { w with cells := cells' } :=
  { h with
    oS := by show cells'[_]? = _; rw [hc]; exact h.oS
    oM := by show cells'[_]? = _; rw [hc]; exact h.oM
    zS := by show cells'[_]? = _; rw [hc]; exact h.zS
    zM := by show cells'[_]? = _; rw [hc]; exact h.zM
    zQ := by show cells'[_]? = _; rw [hc]; exact h.zQ
    chains := fun j hj => (h.chains j hj).congr (fun c _ => hc c) (fun _ _ => rfl) rfl }

/-- rewriting a cell with the value it already holds -/
theorem GRel.set_same (h : GRel k σ hl w) {c : Nat} {v : Data} (hv : w.cells[c]? = some v) :
    GRel k σ hl { w with cells := w.cells.set c v } :=
  h.cells_congr _ (set_same_get hv)

/-- the chain of a source whose events reach zip -/
def bLive : CB :=
  { zL := true, zH := true, cL := true, cH := true, mL := true, mH := true, cR := true, mR := true, sR := true,
    jx := none, cs := 1, q := 0 }

/-- what the test relies on before an event of source `i` -/
structure Ready (k : Nat) (σ : GS) : Prop where
  top : TopOk σ
  ne : Zip.ne σ.qs = false
  len : σ.qs.length = k
  kpos : 0 < k

/-- concat_i's `next` closure: `sink_next` to zip's observer `i` -/
theorem cNext_spec {Q : World → Prop} (h : GRel k σ [] w) (hr : Ready k σ) {i : Nat} (hi : i < k)
    (hz : (σ.ch i).zL = true) (x : Data)
    (hk : ∀ w1, GRel k (zStep σ i (.next x)) [] w1 → Q w1) : WP ((scC k i).sinkNext x) w Q := by
  simp only [Sctl.sinkNext, scC]
  have ho := (h.chains i hi).oZ
  simp only [hz, ↓reduceIte] at ho
  refine wp_obsIsSub ho ?_
  simp only [zipObs, Obs.isSub, Option.isSome_some, Bool.and_self, ↓reduceIte]
  exact z_deliver h hr.top hr.ne hr.len hr.kpos hi hz (.next x) fun w1 h1 => WP.done (hk w1 h1)

/-- map_i's `next` closure (`stdOp kSome`): `sink_next(Some(d))` to concat_i's observer -/
theorem mNext_spec {Q : World → Prop} (h : GRel k σ [] w) (hr : Ready k σ) {i : Nat} (hi : i < k)
    (hz : (σ.ch i).zL = true) (hc : (σ.ch i).cL = true) (d : Data)
    (hk : ∀ w1, GRel k (zStep σ i (.next (Data.optEnc (some d)))) [] w1 → Q w1) :
    WP (mapNext k i d) w Q := by
  simp only [mapNext, kSome, holdAcq, holdRel, actsP, forEach, actP]
  have hT := (h.chains i hi).mT
  refine wp_cellRead_val h.held hT (wp_cellWrite h.held ?_)
  have h1 := h.set_same hT
  apply WP.seq; refine WP.done ?_
  apply WP.seq
  · apply WP.seq
    · simp only [Sctl.sinkNext, scM]
      have ho := (h1.chains i hi).oC
      simp only [hc, ↓reduceIte] at ho
      refine wp_obsIsSub ho ?_
      simp only [concatObs, Obs.isSub, Option.isSome_some, Bool.and_self, ↓reduceIte]
      refine wp_ev_code (ev := .next _) ho rfl rfl rfl ?_
      simp only [Ev.isTerminal, Bool.false_eq_true, ↓reduceIte, codeBody]
      exact cNext_spec h1 hr hi hz _ fun w2 h2 => WP.done (WP.done (WP.done (hk w2 h2)))

/-- `Subject::next(d)` on a subject whose chain is live -/
theorem subjNext_spec (h : GRel k σ [] w) (hr : Ready k σ) {i : Nat} (hi : i < k) (hl : σ.ch i = bLive) (d : Data) :
    WP (evCall (sjOf i) (.next d)) w (GRel k (zStep σ i (.next (Data.optEnc (some d)))) []) := by
  have hch := h.chains i hi
  rw [hl] at hch
  have hO := hch.subjO
  simp only [bLive, ↓reduceIte] at hO
  refine wp_cellRead_val h.held hO ?_
  rw [amapVals_encMap]
  simp only [List.map_cons, List.map_nil, forEach, toNat_int]
  apply WP.seq
  have hM := hch.oM
  simp only [bLive, ↓reduceIte, optHook] at hM
  refine wp_ev_code (ev := .next d) hM rfl rfl rfl ?_
  simp only [Ev.isTerminal, Bool.false_eq_true, ↓reduceIte, codeBody]
  exact mNext_spec h hr hi (by rw [hl]; rfl) (by rw [hl]; rfl) d fun w1 h1 => WP.done (WP.done h1)

/-! ### the subject-registration bit only ever goes down -/

theorem tM_sR (b : CB) (h : (tM b).sR = true) : b.sR = true := by
  simp only [tM] at h; split at h <;> simp_all
theorem tFM_sR (b : CB) (h : (tFM b).sR = true) : b.sR = true := by
  simp only [tFM] at h; split at h
  · exact tM_sR b h
  · exact h
theorem tC_sR (b : CB) (h : (tC b).sR = true) : b.sR = true := by
  simp only [tC] at h; split at h
  · have := tFM_sR _ h; exact this
  · exact h
theorem tFC_sR (b : CB) (h : (tFC b).sR = true) : b.sR = true := by
  simp only [tFC] at h; split at h
  · exact tC_sR b h
  · exact h
theorem tZ_sR (b : CB) (h : (tZ b).sR = true) : b.sR = true := by
  simp only [tZ] at h; split at h
  · have := tFC_sR _ h; exact this
  · exact h
theorem tZ_live : (tZ bLive).sR = false := by decide
theorem tZ_zL (b : CB) : (tZ b).zL = false := by
  simp only [tZ]; split
  · simp only [tFC]; split
    · show (tJ (tC _)).zL = false; simp only [tJ]; rw [(tC_z _).1]
    · rfl
  · rfl

theorem tearAll_sR (ch : Nat → CB) (l : List Nat) (j : Nat) (h : (tearAll ch l j).sR = true) : (ch j).sR = true := by
  simp only [tearAll] at h; split at h
  · exact tZ_sR _ h
  · exact h

/-- a call on a subject that holds no observer changes nothing -/
theorem subjNoop_spec (h : GRel k σ [] w) {i : Nat} (hi : i < k) (hs : (σ.ch i).sR = false) (ev : Ev) :
    WP (evCall (sjOf i) ev) w (GRel k σ []) := by
  have hO := (h.chains i hi).subjO
  simp only [hs, Bool.false_eq_true, ↓reduceIte] at hO
  cases ev with
  | next d =>
    refine wp_cellRead_val h.held hO ?_
    exact WP.done h
  | error e =>
    refine wp_cellRead_val h.held hO (wp_cellWrite h.held ?_)
    exact WP.done (h.set_same hO)
  | complete =>
    refine wp_cellRead_val h.held hO (wp_cellWrite h.held ?_)
    exact WP.done (h.set_same hO)

/-! ### `Subject::error(e)` on a subject whose chain is live -/

/-- chain `i` when the error reaches zip: the subject has forgotten its observer; map_i's and concat_i's observers
    have lost their callbacks (they received the terminal) but still have their teardowns -/
def bErr : CB := { bLive with sR := false, mL := false, cL := false }

/-- the state after the error: everything in zip's map torn down, then `concat_i.finalize` and `map_i.finalize` -/
def errState (σ : GS) (i : Nat) (e : Nat) : GS :=
  let σ1 : GS := endState (zKill { σ with ch := upd σ.ch i bErr } i) true [.error e]
  { σ1 with ch := upd σ1.ch i (tFM (tFC (σ1.ch i))) }

theorem tFC_cL (b : CB) (h : b.cL = false) : (tFC b).cL = false := by
  simp only [tFC]; split
  · show (tJ (tC b)).cL = false
    simp only [tJ, tC]; split
    · simp only [tFM]; split <;> rfl
    · rfl
  · exact h

theorem tZ_cL (b : CB) (h : b.cL = false) : (tZ b).cL = false := by
  simp only [tZ]; split
  · exact tFC_cL _ h
  · exact h

theorem tFM_jx (b : CB) : (tFM b).jx = b.jx := by
  simp only [tFM, tM]; split <;> rfl

theorem upd_upd {α : Type} (f : Nat → α) (i : Nat) (a b : α) : upd (upd f i a) i b = upd f i b := by
  funext j; simp only [upd]; split <;> rfl

theorem subjError_spec (h : GRel k σ [] w) (hr : Ready k σ) {i : Nat} (hi : i < k) (hl : σ.ch i = bLive) (e : Nat) :
    WP (evCall (sjOf i) (.error e)) w (GRel k (errState σ i e) []) := by
  have hne := @cells_ne k i
  have hch := h.chains i hi
  rw [hl] at hch
  have hO := hch.subjO
  simp only [bLive, ↓reduceIte] at hO
  refine wp_cellRead_val h.held hO (wp_cellWrite h.held ?_)
  rw [amapVals_encMap]
  simp only [List.map_cons, List.map_nil, forEach, toNat_int]
  -- the subject has forgotten its observers
  have c1 : ChainAt k i { bLive with sR := false } { w with cells := w.cells.set (sjOf i).observers .lnil } :=
    hch.setCells hi _ (fun c h1 _ _ => set_get_other _ (Ne.symm h1)) _ rfl (set_get_same _ hch.subjO)
      (by rw [set_get_other _ hne.1]; exact hch.cM) (by rw [set_get_other _ hne.2.1]; exact hch.mM)
  apply WP.seq
  have hM := c1.oM
  simp only [bLive, ↓reduceIte, optHook] at hM
  refine wp_ev_code (ev := .error e) hM rfl rfl rfl ?_
  simp only [Ev.isTerminal, ↓reduceIte, codeBody]
  -- map_i's observer has taken its callbacks
  have c2 := c1.setM hi Obs.cleared false true (by
    intro x hx; rw [hM] at hx; cases hx; simp [Obs.cleared, mapObs, deadObs, optHook])
  simp only [mapErr, kSome, actsP, forEach, actP]
  refine wp_cellRead_val h.held c2.mT (wp_cellWrite h.held ?_)
  have c3 : ChainAt k i { bLive with sR := false, mL := false }
      { w with cells := (w.cells.set (sjOf i).observers .lnil).set (mst k i) .unit,
               obs := w.obs.modify (Mo k i) Obs.cleared } :=
    c2.congr (fun c _ => set_same_get c2.mT c) (fun _ _ => rfl) rfl
  apply WP.seq
  simp only [Sctl.sinkError, scM]
  have hC := c3.oC
  simp only [bLive, ↓reduceIte, optHook] at hC
  refine wp_obsIsSub hC ?_
  simp only [concatObs, Obs.isSub, Option.isSome_some, Bool.and_self, ↓reduceIte]
  refine wp_ev_code (ev := .error e) hC rfl rfl rfl ?_
  simp only [Ev.isTerminal, ↓reduceIte, codeBody]
  -- concat_i's observer on map_i has taken its callbacks
  have c4 : ChainAt k i bErr _ := c3.setC hi Obs.cleared false true (by
    intro x hx; rw [hC] at hx; cases hx; simp [Obs.cleared, concatObs, deadObs, optHook])
  have s4 : Same w
      ({ w with cells := (w.cells.set (sjOf i).observers .lnil).set (mst k i) .unit, obs := (w.obs.modify (Mo k i) Obs.cleared).modify (Co k i) Obs.cleared } : World)
      (allCells k i) (chainObs k i (σ.ch i)) := by
    refine ⟨fun c hc => ?_, fun o ho => ?_, rfl, rfl, rfl, rfl, rfl, by simp⟩
    · show ((w.cells.set _ _).set _ _)[c]? = _
      rw [set_get_other _ (fun q => hc (by simp [allCells, ← q])),
        set_get_other _ (fun q => hc (by simp [allCells, sjOf, ← q]))]
    · show ((w.obs.modify _ _).modify _ _)[o]? = _
      rw [modify_get_other _ _ (fun q => ho (by simp [chainObs, lowObs, ← q]))]
      exact modify_get_other _ _ (fun q => ho (by simp [chainObs, lowObs, ← q]))
  have g4 : GRel k { σ with ch := upd σ.ch i bErr } [] _ := h.chain_step' hi c4 s4 (by rw [hl]; rfl)
  have hr4 : Ready k ({ σ with ch := upd σ.ch i bErr }) := ⟨⟨hr.top.alive, hr.top.oL, hr.top.oH, hr.top.oR, hr.top.nd⟩,
    hr.ne, hr.len, hr.kpos⟩
  have hz4 : (({ σ with ch := upd σ.ch i bErr } : GS).ch i).zL = true := by
    show (upd σ.ch i bErr i).zL = true; rw [upd_same]; rfl
  simp only [Sctl.sinkError, scC]
  have hZ := (g4.chains i hi).oZ
  rw [show (({ σ with ch := upd σ.ch i bErr } : GS).ch i) = bErr from upd_same _ _ _] at hZ
  simp only [bErr, bLive, ↓reduceIte, optHook] at hZ
  refine wp_obsIsSub hZ ?_
  simp only [zipObs, Obs.isSub, Option.isSome_some, Bool.and_self, ↓reduceIte]
  refine z_deliver (σ := { σ with ch := upd σ.ch i bErr }) g4 hr4.top hr4.ne hr4.len hr4.kpos hi hz4 (.error e)
    fun w5 h5 => ?_
  -- back in concat_i: `finalize`
  simp only [zStep] at h5
  have hz5 : ((endState (zKill { σ with ch := upd σ.ch i bErr } i) true [.error e]).ch i).zL = false := by
    have hb : (zKill { σ with ch := upd σ.ch i bErr } i).ch i = { bErr with zL := false } := by
      simp only [zKill, upd_same]
    simp only [endState, ↓reduceIte, tearAll]
    split
    · exact tZ_zL _
    · rw [hb]
  refine (finConcat_spec (h5.chains i hi) hi hz5 (by intro p hp; rw [h5.held] at hp; cases hp)).conseq
    fun w6 ⟨c6, s6⟩ => ?_
  have g6 := h5.chain_step hi c6 (s6.mono (fun _ q => q) (fun o ho => by simp [chainObs, ho])) (tFC_jx _)
  -- back in map_i: `finalize`
  have hc6 : ((upd (endState (zKill { σ with ch := upd σ.ch i bErr } i) true [.error e]).ch i
      (tFC ((endState (zKill { σ with ch := upd σ.ch i bErr } i) true [.error e]).ch i))) i).cL = false := by
    rw [upd_same]
    apply tFC_cL
    have hb : (zKill { σ with ch := upd σ.ch i bErr } i).ch i = { bErr with zL := false } := by
      simp only [zKill, upd_same]
    simp only [endState, ↓reduceIte, tearAll]
    split
    · apply tZ_cL; rw [hb]; rfl
    · rw [hb]; rfl
  refine (finMap_spec (g6.chains i hi) hi hc6 (by intro p hp; rw [g6.held] at hp; cases hp)).conseq
    fun w7 ⟨c7, s7⟩ => ?_
  have g7 := g6.chain_step hi c7
    (s7.mono (by intro c hc; simp only [chainCells, List.mem_cons, List.not_mem_nil, or_false] at hc ⊢
                 rcases hc with q | q <;> simp [q])
      (fun o ho => by simp only [List.mem_singleton] at ho; simp [chainObs, lowObs, ho]))
    (by rw [tFM_jx])
  refine WP.done (WP.done (WP.done ?_))
  have e' : errState σ i e = _ := rfl
  rw [e']
  simp only [upd_upd, upd_same] at g7
  exact g7

end Rx.SeqRef
