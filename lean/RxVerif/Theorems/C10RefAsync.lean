import RxVerif.Theorems.C10RefBehavior
/-
C10-REF, AsyncSubject (repaired, finding F17) — model A's `ASubj` macros (`Machine/Subjects.lean`, transliterating
src/subjects/async_subject.rs: the subject owns `last_item` and `ended`; subscribers go straight into the inner
Subject) refine `SubjM` with kind `.async`.

World of `progA`: cells 0,1 = inner Subject (observers, serial), 2 = `last_item`, 3 = `ended`; observer `u` = root
observer of user `u` (no forwarders), exactly the layout of the plain Subject, so `Ref.RelC` is reused with the
subscribed observable `ov := a0.observable`.
-/
namespace Rx.RefA
open Rx.Sim Rx.SubjM Rx.Ref Rx.RefR

def a0 : ASubj := ⟨sj0, 2, 3⟩

/-- `Option<Ended>` as stored -/
def encEnded : Option Ended → Data
  | none => .lnil
  | some .completed => Data.optEnc (some .mComplete)
  | some (.failed e) => Data.optEnc (some (.mErr e))

structure RelA (n : Nat) (w : World) (st : State) : Prop where
  core : RelC sj0 a0.observable 0 n w st.observers st.serial st.obs
  cellL : w.cells[2]? = some (Data.optEnc st.lastItem)
  cellE : w.cells[3]? = some (encEnded st.ended)

/-! ### rules for the `ended` write guard -/

section prims
variable {w : World} {Q : World → Prop}

theorem wp_lockAcq {l : LockId} {wr : Bool} {k : Prog} (hh : w.held = [])
    (hk : WP k { w with held := [(l, wr)] } Q) : WP (.lockAcq l wr k) w Q :=
  wp_step _ _ (fun _ _ => by simp only [run, noconf_of_held_nil hh]; rw [hh]; rfl) hk

theorem wp_cellReadGuarded {c : Nat} {k : Data → Prog} (hk : WP (k (w.cells[c]?.getD .unit)) w Q) :
    WP (.cellRead c true k) w Q :=
  wp_step _ _ (fun _ _ => by simp only [run]; rfl) hk

theorem wp_cellWriteGuarded {c : Nat} {d : Data} {k : Prog} (hk : WP k { w with cells := w.cells.set c d } Q) :
    WP (.cellWrite c true d k) w Q :=
  wp_step _ _ (fun _ _ => by simp only [run]; rfl) hk

theorem wp_lockRel1 {l : LockId} {b : Bool} {k : Prog} (hh : w.held = [(l, b)])
    (hk : WP k { w with held := [] } Q) : WP (.lockRel l k) w Q := by
  refine wp_step _ _ (fun _ _ => ?_) hk
  simp only [run]
  congr 1
  cases w; simp_all [World.release]

end prims

/-! ### the inner Subject of an AsyncSubject behaves like a plain one -/

theorem deliver_async_eq (ev : Ev) (l : List (Nat × Nat)) : ∀ f, deliver .async ev l f = deliver .plain ev l f := by
  induction l with
  | nil => intro f; rfl
  | cons p rest ih => intro f; simp only [deliver]; exact ih _

theorem emit_async_eq (st : State) (ev : Ev) : emit .async st ev = emit .plain st ev := by
  cases ev <;> simp [emit, deliver_async_eq, newLastItem, newLastError, newItems, newWasError, newWasCompleted]

/-- `self.subject.{next,error,complete}` inside `AsyncSubject::{error,complete}` -/
theorem innerEmit_spec {n w st} (h : RelA n w st) (ev : Ev) :
    WP (evCall sj0 ev) w (fun w' => RelA n w' (emit .async st ev)) := by
  rw [emit_async_eq]
  refine (emit_specF (sj := sj0) h.core ev).conseq ?_
  rintro w' ⟨h', hc⟩
  exact ⟨h', by rw [hc 2 (by decide)]; exact h.cellL, by rw [hc 3 (by decide)]; exact h.cellE⟩

theorem world_held_nil (w : World) (h : w.held = []) : ({ w with held := [] } : World) = w := by
  cases w; simp_all

theorem RelA.setCells {n w st} (h : RelA n w st) (c : Nat) (hc : c = 2 ∨ c = 3) (d : Data)
    (li : Option Data) (en : Option Ended)
    (h2 : (w.cells.set c d)[2]? = some (Data.optEnc li)) (h3 : (w.cells.set c d)[3]? = some (encEnded en)) :
    RelA n { w with cells := w.cells.set c d } { st with lastItem := li, ended := en } :=
  { core :=
      { h.core with
        cellO := by show (w.cells.set c d)[0]? = _; rw [set_get_other _ (by rcases hc with rfl | rfl <;> decide)]; exact h.core.cellO
        cellS := by show (w.cells.set c d)[1]? = _; rw [set_get_other _ (by rcases hc with rfl | rfl <;> decide)]; exact h.core.cellS }
    cellL := h2
    cellE := h3 }

def evCallA : Ev → Prog
  | .next v => a0.next v
  | .error e => a0.error e
  | .complete => a0.complete

theorem optDec_encEnded_none : Data.optDec (encEnded none) = none := rfl
theorem optDec_encEnded_completed : Data.optDec (encEnded (some .completed)) = some .mComplete := rfl
theorem optDec_encEnded_failed (e : Nat) : Data.optDec (encEnded (some (.failed e))) = some (.mErr e) := rfl
theorem optDec_optEnc (x : Option Data) : Data.optDec (Data.optEnc x) = x := by cases x <;> rfl

/-- `AsyncSubject::next / error / complete` (async_subject.rs) = `SubjM.emitK .async` -/
theorem emitA_spec {n w st} (h : RelA n w st) (ev : Ev) :
    WP (evCallA ev) w (fun w' => RelA n w' (emitK .async st ev)) := by
  have hh := h.core.held
  cases ev with
  | next v =>
    simp only [evCallA, ASubj.next, a0]
    refine wp_cellRead hh ?_
    rw [h.cellE]
    simp only [Option.getD_some]
    cases hen : st.ended with
    | none =>
      simp only [optDec_encEnded_none]
      refine wp_cellWrite hh (WP.done ?_)
      have : emitK .async st (.next v) = { st with lastItem := some v, ended := st.ended } := by
        simp [emitK, hen]
      rw [this]
      exact h.setCells 2 (Or.inl rfl) _ (some v) st.ended (set_get_same _ h.cellL)
        (by rw [set_get_other _ (by decide)]; exact h.cellE)
    | some en =>
      have : emitK .async st (.next v) = st := by simp [emitK, hen]
      rw [this]
      cases en <;> exact WP.done h
  | error e =>
    simp only [evCallA, ASubj.error, a0]
    refine wp_lockAcq hh ?_
    refine wp_cellReadGuarded ?_
    rw [show ({ w with held := [(LockId.cell 3, true)] } : World).cells[3]? = _ from h.cellE]
    simp only [Option.getD_some]
    cases hen : st.ended with
    | some en =>
      have : emitK .async st (.error e) = st := by simp [emitK, hen]
      rw [this]
      cases en <;>
      · refine wp_lockRel1 rfl (WP.done ?_)
        show RelA n ({ w with held := [] } : World) st
        rw [world_held_nil w hh]; exact h
    | none =>
      simp only [optDec_encEnded_none]
      refine wp_cellWriteGuarded ?_
      refine wp_lockRel1 rfl ?_
      have hw : ({ ({ ({ w with held := [(LockId.cell 3, true)] } : World) with
          cells := w.cells.set 3 (Data.optEnc (some (.mErr e))) } : World) with held := [] } : World) =
          { w with cells := w.cells.set 3 (Data.optEnc (some (.mErr e))) } := by
        cases w; simp_all
      show WP _ ({ ({ ({ w with held := [(LockId.cell 3, true)] } : World) with
          cells := w.cells.set 3 (Data.optEnc (some (.mErr e))) } : World) with held := [] } : World) _
      rw [hw]
      have h1 := h.setCells 3 (Or.inr rfl) (Data.optEnc (some (.mErr e))) st.lastItem (some (.failed e))
        (by rw [set_get_other _ (by decide)]; exact h.cellL) (set_get_same _ h.cellE)
      have : emitK .async st (.error e) = emit .async { st with lastItem := st.lastItem, ended := some (.failed e) } (.error e) := by
        simp [emitK, hen]
      rw [this]
      exact innerEmit_spec h1 (.error e)
  | complete =>
    simp only [evCallA, ASubj.complete, a0]
    refine wp_lockAcq hh ?_
    refine wp_cellReadGuarded ?_
    rw [show ({ w with held := [(LockId.cell 3, true)] } : World).cells[3]? = _ from h.cellE]
    simp only [Option.getD_some]
    cases hen : st.ended with
    | some en =>
      have : emitK .async st .complete = st := by simp [emitK, hen]
      rw [this]
      cases en <;>
      · refine wp_lockRel1 rfl (WP.done ?_)
        show RelA n ({ w with held := [] } : World) st
        rw [world_held_nil w hh]; exact h
    | none =>
      simp only [optDec_encEnded_none]
      refine wp_cellWriteGuarded ?_
      refine wp_lockRel1 rfl ?_
      have hw : ({ ({ ({ w with held := [(LockId.cell 3, true)] } : World) with
          cells := w.cells.set 3 (Data.optEnc (some .mComplete)) } : World) with held := [] } : World) =
          { w with cells := w.cells.set 3 (Data.optEnc (some .mComplete)) } := by
        cases w; simp_all
      show WP _ ({ ({ ({ w with held := [(LockId.cell 3, true)] } : World) with
          cells := w.cells.set 3 (Data.optEnc (some .mComplete)) } : World) with held := [] } : World) _
      rw [hw]
      have h1 := h.setCells 3 (Or.inr rfl) (Data.optEnc (some .mComplete)) st.lastItem (some .completed)
        (by rw [set_get_other _ (by decide)]; exact h.cellL) (set_get_same _ h.cellE)
      refine wp_cellRead hh ?_
      rw [show ({ w with cells := w.cells.set 3 (Data.optEnc (some .mComplete)) } : World).cells[2]? = _ from h1.cellL]
      simp only [Option.getD_some, optDec_optEnc]
      cases hli : st.lastItem with
      | none =>
        have : emitK .async st .complete =
            emit .async { st with lastItem := st.lastItem, ended := some .completed } .complete := by
          simp [emitK, hen, hli]
        rw [this]
        exact WP.seq (WP.done (innerEmit_spec h1 .complete))
      | some v =>
        have : emitK .async st .complete =
            emit .async (emit .async { st with lastItem := st.lastItem, ended := some .completed } (.next v)) .complete := by
          simp [emitK, hen, hli]
        rw [this]
        exact WP.seq ((innerEmit_spec h1 (.next v)).conseq fun w1 h2 => innerEmit_spec h2 .complete)

/-! ### subscribe / unsubscribe -/

/-- a subscriber that was handed the recorded result at once: an ended root observer, a user whose handle is
    still unused, its events in the trace — and nothing else -/
theorem afterHandover {sj ov id n w observers serial f} (h : RelC sj ov id n w observers serial f) (w' : World)
    (evs : List Ev) (hstatus : w'.status = w.status) (hheld : w'.held = w.held) (hcells : w'.cells = w.cells)
    (hslots : w'.slots = w.slots) (hobsvs : w'.obsvs = w.obsvs)
    (hobs : w'.obs = w.obs ++ [⟨none, none, none, none⟩])
    (husers : w'.users = w.users ++ [⟨n, noReact, true, true⟩])
    (htrace : w'.trace = w.trace ++ evs.map (Rec.ev n)) :
    RelC sj ov id (n + 1) w' observers serial (upd f n { seen := true, log := evs }) := by
  have hun := View.eq (h.unseen n (Nat.le_refl _))
  have hfix : ∀ (P : ObsSt → Prop) (u : Nat), (u ≠ n → P (f u)) → (u = n → P { seen := true, log := evs }) →
      P (upd f n { seen := true, log := evs } u) := by
    intro P u h1 h2
    by_cases e : u = n
    · subst e; simpa [upd] using h2 rfl
    · simpa [upd, e] using h1 e
  have hlogs : ∀ u, logOf w' u = logOf w u ++ if n = u then evs else [] := by
    intro u
    have e1 : logOf w' u = logOf { w with trace := w.trace ++ evs.map (Rec.ev n) } u := by
      simp only [logOf, htrace]
    rw [e1, logOf_trace_append, logOf_evs]
  exact
    { status := hstatus ▸ h.status
      held := hheld ▸ h.held
      ne := h.ne
      cellO := hcells ▸ h.cellO
      cellS := hcells ▸ h.cellS
      slotA := hslots ▸ h.slotA
      slotB := hslots ▸ h.slotB
      obsv := hobsvs ▸ h.obsv
      nUsers := by rw [husers]; simp [h.nUsers]
      nObs := by rw [hobs]; simp [h.nObs]
      user := by
        intro u hu
        rw [husers]
        by_cases e : u = n
        · subst e
          exact ⟨true, by rw [get_app_at _ _ _ 0 (by rw [h.nUsers]; rfl)]; rfl, fun _ => rfl⟩
        · obtain ⟨a, h1, h2⟩ := h.user u (by omega)
          exact ⟨a, by rw [get_app_lt _ _ _ (by rw [h.nUsers]; omega)]; exact h1, by simpa [upd, e] using h2⟩
      obs := by
        intro u hu
        rw [hobs]
        by_cases e : u = n
        · subst e
          rw [get_app_at _ _ _ 0 (by rw [h.nObs]; rfl)]; simp [upd, obsOf]
        · rw [get_app_lt _ _ _ (by rw [h.nObs]; omega), h.obs u (by omega)]; simp [upd, e]
      seen := fun u hu => hfix (fun r => r.seen = true) u (fun e => h.seen u (by omega)) (fun _ => rfl)
      unseen := fun u hu => hfix (fun r => View r = View {}) u (fun _ => h.unseen u (by omega)) (fun e => by omega)
      hookIff := fun u => hfix (fun r => r.hook = r.inHook.isSome) u (fun _ => h.hookIff u) (fun _ => rfl)
      deadNoHook := fun u => hfix (fun r => r.hook = false → r.alive = false) u (fun _ => h.deadNoHook u)
        (fun _ _ => rfl)
      log := by
        intro u
        rw [hlogs, h.log]
        by_cases e : u = n
        · subst e; simp [upd, hun.2.2.1]
        · simp [upd, e, show ¬ n = u from fun x => e x.symm]
      keys := h.keys }

theorem unsubscribeN_async_eq (st : State) (u : Nat) : unsubscribeN .async st u = unsubscribeN .plain st u := rfl

theorem unsubscribeA_spec {n w st} (h : RelA n w st) (u : Nat) :
    WP (.userUnsub u .done) w (fun w' => RelA n w' (step .async st (.unsubscribe u))) := by
  show WP _ w (fun w' => RelA n w' (unsubscribeN .async st u).1)
  rw [unsubscribeN_async_eq]
  refine (unsubscribe_specF (sj := sj0) h.core u).conseq ?_
  rintro w' ⟨h', hc⟩
  have hm := unsubscribeN_mem .plain st u
  simp only [mem, Prod.mk.injEq] at hm
  exact ⟨h', by rw [hc 2 (by decide), hm.1]; exact h.cellL, by rw [hc 3 (by decide), unsub_ended]; exact h.cellE⟩

theorem subscribeA_spec {n w st} (h : RelA n w st) :
    WP (.userSub 0 noReact .done) w (fun w' => RelA (n + 1) w' (step .async st (.subscribe n))) := by
  have hc := h.core
  have hh := hc.held
  have hu : (st.obs n).seen = false := (View.eq (hc.unseen n (Nat.le_refl _))).1
  rw [async_subscribe_fresh st n hu]
  refine wp_userSub hc.obsv ?_
  simp only [hc.nObs, hc.nUsers, ASubj.observable, a0]
  refine wp_cellRead hh ?_
  dsimp only
  rw [h.cellE]
  simp only [Option.getD_some]
  have hroot : ∀ (tr : List Rec), ({ w with
      obs := w.obs ++ [⟨some (.user n), some (.user n), some (.user n), none⟩]
      users := w.users ++ [⟨n, noReact, false, true⟩], trace := tr } : World).obs[n]? =
      some ⟨some (.user n), some (.user n), some (.user n), none⟩ := by
    intro tr; dsimp only; rw [get_app_at _ _ _ 0 (by rw [hc.nObs]; rfl)]; rfl
  have huser : ∀ (os : List Obs) (tr : List Rec), ({ w with
      obs := os, users := w.users ++ [⟨n, noReact, false, true⟩], trace := tr } : World).users[n]? =
      some ⟨n, noReact, false, true⟩ := by
    intro os tr; dsimp only; rw [get_app_at _ _ _ 0 (by rw [hc.nUsers]; rfl)]; rfl
  cases hen : st.ended with
  | none =>
    simp only [optDec_encEnded_none, Obsv.sub]
    refine wp_obsIsSub (hroot _) ?_
    simp only [Obs.isSub, Option.isSome_some, Bool.and_self, ↓reduceIte]
    refine observable_spec (x := ⟨some (.user n), some (.user n), some (.user n), none⟩) (serial := st.serial)
      (obsl := st.observers) hh (hroot _) rfl hc.ne hc.cellS hc.cellO hc.keys hc.slotA ?_
    refine wp_userReady (WP.done ?_)
    refine ⟨RelC.afterSub hc, ?_, ?_⟩
    · show ((w.cells.set _ _).set _ _)[2]? = _
      rw [set_get_other _ (by decide), set_get_other _ (by decide)]; exact h.cellL
    · show ((w.cells.set _ _).set _ _)[3]? = _
      rw [set_get_other _ (by decide), set_get_other _ (by decide)]; exact h.cellE
  | some en =>
    cases en with
    | failed e =>
      simp only [optDec_encEnded_failed]
      refine wp_ev_user (ev := .error e) (hroot _) rfl rfl rfl (huser _ _) rfl (WP.done (wp_userReady (WP.done ?_)))
      simp only [World.deliverTo, Ev.isTerminal, ↓reduceIte]
      dsimp only [World.setUser, World.setObs, World.emit]
      refine ⟨afterHandover hc _ [.error e] rfl rfl rfl rfl rfl ?_ ?_ rfl, h.cellL, hen ▸ h.cellE⟩
      · dsimp only; rw [← hc.nObs, modify_app0]; rfl
      · dsimp only; rw [← hc.nUsers, modify_app0]; rfl
    | completed =>
      simp only [optDec_encEnded_completed]
      refine wp_cellRead hh ?_
      dsimp only
      rw [h.cellL]
      simp only [Option.getD_some, optDec_optEnc]
      cases hli : st.lastItem with
      | none =>
        refine WP.seq (WP.done ?_)
        refine wp_ev_user (ev := .complete) (hroot _) rfl rfl rfl (huser _ _) rfl (WP.done (wp_userReady (WP.done ?_)))
        simp only [World.deliverTo, Ev.isTerminal, ↓reduceIte]
        dsimp only [World.setUser, World.setObs, World.emit]
        refine ⟨afterHandover hc _ (asyncHandover none) rfl rfl rfl rfl rfl ?_ ?_ rfl, hli ▸ h.cellL, hen ▸ h.cellE⟩
        · dsimp only; rw [← hc.nObs, modify_app0]; rfl
        · dsimp only; rw [← hc.nUsers, modify_app0]; rfl
      | some v =>
        refine WP.seq ?_
        refine wp_ev_user (ev := .next v) (hroot _) rfl rfl rfl (huser _ _) rfl (WP.done ?_)
        simp only [World.deliverTo, Ev.isTerminal, Bool.false_eq_true, ↓reduceIte]
        dsimp only [World.emit]
        refine wp_ev_user (ev := .complete) (hroot _) rfl rfl rfl (huser _ _) rfl (WP.done (wp_userReady (WP.done ?_)))
        simp only [World.deliverTo, Ev.isTerminal, ↓reduceIte]
        dsimp only [World.setUser, World.setObs, World.emit]
        refine ⟨afterHandover hc _ (asyncHandover (some v)) rfl rfl rfl rfl rfl ?_ ?_ ?_, hli ▸ h.cellL, hen ▸ h.cellE⟩
        · dsimp only; rw [← hc.nObs, modify_app0]; rfl
        · dsimp only; rw [← hc.nUsers, modify_app0]; rfl
        · dsimp only; simp [asyncHandover, List.append_assoc]

/-! ### call sequences, the whole program -/

def callProgA (a : ASubj) (id : Nat) : Call → Prog
  | .subscribe _ => .userSub id noReact .done
  | .unsubscribe o => .userUnsub o .done
  | .next v => a.next v
  | .error e => a.error e
  | .complete => a.complete

theorem callA_spec {n w st} (h : RelA n w st) (c : Call) (hc : wfFrom n [c] = true) :
    WP (callProgA a0 0 c) w (fun w' => RelA (n + subs [c]) w' (step .async st c)) := by
  cases c with
  | subscribe o =>
    have : o = n := by simpa [wfFrom] using hc
    subst this
    exact subscribeA_spec h
  | unsubscribe o => exact unsubscribeA_spec h o
  | next v => exact emitA_spec h (.next v)
  | error e => exact emitA_spec h (.error e)
  | complete => exact emitA_spec h .complete

theorem callsA_spec (cs : List Call) : ∀ (n : Nat) (w : World) (st : State), RelA n w st →
    wfFrom n cs = true →
    WP (forEach cs (callProgA a0 0)) w (fun w' => RelA (n + subs cs) w' (runFrom .async st cs)) := by
  induction cs with
  | nil => intro n w st h _; exact WP.done h
  | cons c rest ih =>
    intro n w st h hwf
    rw [wfFrom_cons, Bool.and_eq_true] at hwf
    simp only [forEach]
    apply WP.seq
    refine (callA_spec h c hwf.1).conseq fun w1 h1 => ?_
    refine (ih _ w1 _ h1 hwf.2).conseq fun w2 h2 => ?_
    rw [subs_cons, ← Nat.add_assoc]
    exact h2

/-- allocate an `AsyncSubject` (async_subject.rs `new`: Subject, last_item = None, ended = None), make its
    observable, perform the calls in order — what `(subject a async)` does in Machine/Case.lean -/
def progA (cs : List Call) : Prog :=
  subjNew fun sj => .cellNew .lnil fun li => .cellNew .lnil fun en =>
    .obsvNew (ASubj.observable ⟨sj, li, en⟩) fun id => forEach cs (callProgA ⟨sj, li, en⟩ id)

theorem relA_init :
    RelA 0 { cells := [.lnil, .int 0, .lnil, .lnil], slots := [none, none], obsvs := [a0.observable] } (init .async) :=
  { core :=
      { status := rfl, held := rfl, ne := by decide, cellO := rfl, cellS := rfl, slotA := rfl, slotB := rfl,
        obsv := rfl, nUsers := rfl, nObs := rfl
        user := fun u hu => by omega
        obs := fun u hu => by omega
        seen := fun u hu => by omega
        unseen := fun _ _ => rfl
        hookIff := fun _ => rfl
        deadNoHook := fun _ _ => rfl
        log := fun _ => rfl
        keys := fun p hp => by cases hp }
    cellL := rfl
    cellE := rfl }

theorem progA_spec (cs : List Call) (hwf : wfFrom 0 cs = true) :
    WP (progA cs) {} (fun w' => RelA (subs cs) w' (SubjM.run .async cs)) := by
  unfold progA subjNew
  refine wp_cellNew (wp_cellNew (wp_slotNew (wp_slotNew (wp_cellNew (wp_cellNew (wp_obsvNew ?_))))))
  have := callsA_spec cs 0 _ _ relA_init hwf
  rw [Nat.zero_add] at this
  exact this

def FinalA (cs : List Call) (w : World) : Prop := ∃ n0, ∀ fuel, n0 ≤ fuel → run fuel [progA cs] {} = w

theorem FinalA.unique {cs w w'} (h : FinalA cs w) (h' : FinalA cs w') : w = w' := by
  obtain ⟨a, ha⟩ := h
  obtain ⟨b, hb⟩ := h'
  rw [← ha (a + b) (by omega), ← hb (a + b) (by omega)]

theorem RelA.agrees {n w st} (h : RelA n w st) : Agrees w st := by
  have hc := h.core
  have hcell : w.cells[0]?.getD .lnil = encMap st.observers := by
    have := hc.cellO; simp only [sj0] at this; rw [this]; rfl
  refine ⟨hc.status, hc.held, hc.log, ?_, ?_, ?_⟩
  · simp [regOf, hcell, amapVals_encMap, registered, Data.toInt, List.map_map, Function.comp_def]
  · simp [mapCount, hcell, amapLen_encMap, registered]
  · intro u
    rcases Nat.lt_or_ge u n with hlt | hge
    · obtain ⟨a, hua, _⟩ := hc.user u hlt
      simp only [World.isSubOf, hua, hc.obs u hlt, aliveOf]
      cases ha : (st.obs u).alive <;> simp [obsOf, Obs.isSub, ha]
    · simp only [World.isSubOf, hc.users_none u hge, aliveOf]
      exact (View.eq (hc.unseen u hge)).2.1.symm

/-- **C10-REF, AsyncSubject** (the repaired one).  For every call sequence whose `subscribe` calls are numbered in
    order, model A's program terminates with `status = ok`, no guard held, and agrees with `SubjM` (kind `.async`)
    on every user's log, on the content of the observer map and on who is still subscribed. -/
theorem async_refines (cs : List Call) (hwf : wfFrom 0 cs = true) :
    ∃ w, FinalA cs w ∧ Agrees w (SubjM.run .async cs) := by
  obtain ⟨n0, w, hrel, hrun⟩ := WP.run_top (progA_spec cs hwf)
  exact ⟨w, ⟨n0, hrun⟩, hrel.agrees⟩

theorem callA_run {n w st} (h : RelA n w st) (c : Call) (hc : wfFrom n [c] = true) :
    ∃ n0, ∀ fuel, n0 ≤ fuel → RelA (n + subs [c]) (run fuel [callProgA a0 0 c] w) (step .async st c) := by
  obtain ⟨n0, w', hrel, hrun⟩ := WP.run_top (callA_spec h c hc)
  exact ⟨n0, fun fuel hf => by rw [hrun fuel hf]; exact hrel⟩

theorem finalA_agrees {cs w} (hwf : wfFrom 0 cs = true) (h : FinalA cs w) : Agrees w (SubjM.run .async cs) := by
  obtain ⟨w', hf, ha⟩ := async_refines cs hwf
  rw [h.unique hf]; exact ha

/-! ### the ReactiveX statements of C10 on model A -/

/-- **`async_every_subscriber` on model A**: a user that does not unsubscribe — whenever it subscribed — has recorded
    exactly `[last item (if any), complete]` once the subject completed, `[error]` once it failed, nothing before. -/
theorem machine_async_every_subscriber (cs : List Call) (o : Nat) (hsub : Call.subscribe o ∈ cs)
    (hun : Call.unsubscribe o ∉ cs) (hwf : wfFrom 0 cs = true) {w : World} (h : FinalA cs w) :
    logOf w o = asyncResultOf (asyncMem cs) := by
  rw [(finalA_agrees hwf h).logs]; exact async_every_subscriber cs o hsub hun

/-- **nothing before the terminal**, for every user -/
theorem machine_async_silent_before_terminal (cs : List Call) (hn : (asyncMem cs).1 = none)
    (hwf : wfFrom 0 cs = true) {w : World} (h : FinalA cs w) (o : Nat) : logOf w o = [] := by
  rw [(finalA_agrees hwf h).logs]; exact async_silent_before_terminal cs hn o

/-- **after the terminal no observer is held**, whatever is called afterwards -/
theorem machine_async_no_observer_once_ended (cs : List Call) (he : (asyncMem cs).1.isSome = true)
    (hwf : wfFrom 0 cs = true) {w : World} (h : FinalA cs w) : regOf w = [] ∧ mapCount w = 0 := by
  have a := finalA_agrees hwf h
  rw [a.reg, a.count, async_no_observer_once_ended cs he]; exact ⟨rfl, rfl⟩

/-! ### non-vacuity: the coordinator's case A1 and the four arrival times -/

def demoA : List Call :=
  [.next (.int 1), .subscribe 0, .next (.int 2), .complete, .subscribe 1, .next (.int 3), .subscribe 2]

example : wfFrom 0 demoA = true := by decide
example : (run 2000 [progA demoA] {}).status = .ok := by decide +kernel
example : (List.range 3).map (logOf (run 2000 [progA demoA] {})) =
    List.replicate 3 [.next (.int 2), .complete] := by decide +kernel
example : (List.range 3).map (SubjM.logOf (SubjM.run .async demoA)) =
    List.replicate 3 [.next (.int 2), .complete] := by decide +kernel
example : mapCount (run 2000 [progA (demoA.take 3)] {}) = 1 ∧ mapCount (run 2000 [progA demoA] {}) = 0 ∧
    registered (SubjM.run .async (demoA.take 3)) = [0] ∧ registered (SubjM.run .async demoA) = [] := by
  decide +kernel
example : ∃ w, FinalA [.subscribe 0, .next (.int 1), .error 4, .subscribe 1, .unsubscribe 1] w ∧
    RelA 2 w (SubjM.run .async [.subscribe 0, .next (.int 1), .error 4, .subscribe 1, .unsubscribe 1]) := by
  obtain ⟨n0, w, hrel, hrun⟩ :=
    WP.run_top (progA_spec [.subscribe 0, .next (.int 1), .error 4, .subscribe 1, .unsubscribe 1] (by decide))
  exact ⟨w, ⟨n0, hrun⟩, hrel⟩

#print axioms async_refines
#print axioms callA_run
#print axioms machine_async_every_subscriber
#print axioms machine_async_silent_before_terminal
#print axioms machine_async_no_observer_once_ended

end Rx.RefA
