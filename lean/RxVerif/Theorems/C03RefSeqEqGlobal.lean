import RxVerif.Theorems.C03RefSeqEqChain2
/-
C03-REF, sequence_equal, part 4: the global relation (test user, outer controller, zip controller, the `k` chains) and
the frame rule: a teardown of chain `j` leaves everything else alone.
-/
namespace Rx.SeqRef
open Rx.Sim Rx.Ref Rx.Comb Rx.CRef

/-- the model-side description of the world -/
structure GS where
  alive : Bool              -- the test user's root observer has its callbacks
  oL : Bool                 -- the outer controller's observer on zip has its callbacks
  oH : Bool                 -- ... its teardown (`zip.finalize`)
  oR : Bool                 -- the outer controller's map holds it
  reg : List Nat            -- the sources in zip's map
  qs : List (List Data)     -- zip's queues
  ch : Nat → CB             -- the chains
  out : List Ev             -- what the test user has received

def encQ (qs : List (List Data)) : Data := Data.ofList (qs.map Data.ofList)

structure GRel (k : Nat) (σ : GS) (hl : List (LockId × Bool)) (w : World) : Prop where
  status : w.status = .ok
  held : w.held = hl
  hlOk : ∀ p ∈ hl, p.1 = .cell (omap k) ∨ p.1 = .cell (zmap k)
  root : w.obs[0]? = some (rootObs k σ.alive)
  user : ∃ u, w.users[0]? = some u ∧ u.react = noReact
  log : logOf w 0 = σ.out
  oS : w.cells[oser k]? = some (.int ((1 : Nat) : Int))
  oM : w.cells[omap k]? = some (encMap (if σ.oR then [(0, 1)] else []))
  oF : w.slots[ofin k]? = some none
  o1 : w.obs[1]? = some (if σ.oL then outerObs k (optHook σ.oH (scZ k).finalize)
        else deadObs (optHook σ.oH (scZ k).finalize))
  zS : w.cells[zser k]? = some (.int (k : Int))
  zM : w.cells[zmap k]? = some (encMap (σ.reg.map fun i => (i, Zo i)))
  zQ : w.cells[zq k]? = some (encQ σ.qs)
  zF : w.slots[zfin k]? = some none
  regLt : ∀ i ∈ σ.reg, i < k
  chains : ∀ j, j < k → ChainAt k j (σ.ch j) w
  jInj : ∀ j j' p p', j < k → j' < k → (σ.ch j).jx = some p → (σ.ch j').jx = some p' → p.1 = p'.1 → j = j'

variable {k : Nat} {σ : GS} {hl : List (LockId × Bool)} {w : World}

/-- a chain only depends on its own cells, observers and slots -/
theorem ChainAt.congr' {j : Nat} {b : CB} {w w' : World} (h : ChainAt k j b w)
    (hc : ∀ c, c ∈ [2 * j, 2 * j + 1, cser k j, cmap k j, cq k j, mmap k j, mst k j] → w'.cells[c]? = w.cells[c]?)
    (ho : ∀ o, o ∈ chainObs k j b → w'.obs[o]? = w.obs[o]?)
    (hs : ∀ t, t ∈ [2 * j, 2 * j + 1, cfin k j, mfin k j] → w'.slots[t]? = w.slots[t]?) : ChainAt k j b w' where
  subjO := by rw [hc _ (by simp)]; exact h.subjO
  subjS := by rw [hc _ (by simp)]; exact h.subjS
  sl1 := by rw [hs _ (by simp)]; exact h.sl1
  sl2 := by rw [hs _ (by simp)]; exact h.sl2
  sl3 := by rw [hs _ (by simp)]; exact h.sl3
  sl4 := by rw [hs _ (by simp)]; exact h.sl4
  cS := by rw [hc _ (by simp)]; exact h.cS
  cM := by rw [hc _ (by simp)]; exact h.cM
  cQ := by rw [hc _ (by simp)]; exact h.cQ
  mM := by rw [hc _ (by simp)]; exact h.mM
  mT := by rw [hc _ (by simp)]; exact h.mT
  oZ := by rw [ho _ (by simp [chainObs])]; exact h.oZ
  oC := by rw [ho _ (by simp [chainObs, lowObs])]; exact h.oC
  oM := by rw [ho _ (by simp [chainObs, lowObs])]; exact h.oM
  oJ := by
    intro p hp
    obtain ⟨q1, q2⟩ := h.oJ p hp
    refine ⟨q1, ?_⟩
    rw [ho _ (by simp [chainObs, lowObs, jl, hp])]; exact q2

theorem ChainAt.congr {j : Nat} {b : CB} {w w' : World} (h : ChainAt k j b w)
    (hc : ∀ c, c ∈ [2 * j, 2 * j + 1, cser k j, cmap k j, cq k j, mmap k j, mst k j] → w'.cells[c]? = w.cells[c]?)
    (ho : ∀ o, o ∈ chainObs k j b → w'.obs[o]? = w.obs[o]?) (hs : w'.slots = w.slots) : ChainAt k j b w' :=
  h.congr' hc ho (fun _ _ => by rw [hs])

/-- a chain is not affected by changes outside its own cells and observers -/
theorem ChainAt.of_same {j : Nat} {b : CB} {w w' : World} {cs os : List Nat} (h : ChainAt k j b w) (s : Same w w' cs os)
    (hc : ∀ c, c ∈ [2 * j, 2 * j + 1, cser k j, cmap k j, cq k j, mmap k j, mst k j] → c ∉ cs)
    (ho : ∀ o, o ∈ chainObs k j b → o ∉ os) : ChainAt k j b w' :=
  h.congr (fun c q => s.cells c (hc c q)) (fun o q => s.obs o (ho o q)) s.slots

/-- all cells of chain `j` -/
def allCells (k j : Nat) : List Nat :=
  [2 * j, 2 * j + 1, cser k j, cmap k j, cq k j, mser k j, mmap k j, mst k j]

theorem chainCells_sub (k j : Nat) : ∀ c ∈ chainCells k j, c ∈ allCells k j := by
  intro c hc; simp only [chainCells, allCells, List.mem_cons, List.not_mem_nil, or_false] at hc ⊢
  rcases hc with q | q | q <;> simp [q]

/-- chains `j ≠ j'` do not share cells -/
theorem cells_disj {j j' : Nat} (hj : j < k) (hj' : j' < k) (hne : j ≠ j') :
    ∀ c, c ∈ [2 * j', 2 * j' + 1, cser k j', cmap k j', cq k j', mmap k j', mst k j'] → c ∉ allCells k j := by
  intro c hc
  simp only [List.mem_cons, List.not_mem_nil, or_false, allCells, cser, cmap, cq, mser, mmap, mst] at hc ⊢
  omega

def upd {α : Type} (f : Nat → α) (a : Nat) (v : α) : Nat → α := fun i => if i = a then v else f i
theorem upd_same {α : Type} (f : Nat → α) (a : Nat) (v : α) : upd f a v a = v := by simp [upd]
theorem upd_other {α : Type} (f : Nat → α) {a i : Nat} (v : α) (h : i ≠ a) : upd f a v i = f i := by simp [upd, h]

theorem jx_bound {j : Nat} {b : CB} {w : World} (h : ChainAt k j b w) {o : Nat} (ho : o ∈ (jl b).map (·.2)) :
    3 * k + 2 ≤ o := by
  cases hx : b.jx with
  | none => simp [jl, hx] at ho
  | some p => simp only [jl, hx, List.map_cons, List.map_nil, List.mem_singleton] at ho; rw [ho]; exact (h.oJ p hx).1

/-- the observers of two different chains are different -/
theorem obs_disj (h : GRel k σ hl w) {j j' : Nat} (hj : j < k) (hj' : j' < k) (hne : j ≠ j') :
    ∀ o, o ∈ chainObs k j' (σ.ch j') → o ∉ chainObs k j (σ.ch j) := by
  intro o ho hq
  have b1 := fun o q => jx_bound (h.chains j hj) (o := o) q
  have b2 := fun o q => jx_bound (h.chains j' hj') (o := o) q
  simp only [chainObs, lowObs, List.mem_cons] at ho hq
  have i1 := idx_lt hj; have i2 := idx_lt hj'
  simp only [Zo, Co, Mo] at *
  rcases ho with rfl | rfl | rfl | ho <;> rcases hq with q | q | q | q
  all_goals first
    | omega
    | (have := b1 _ q; omega)
    | (have := b2 _ ho; omega)
    | skip
  -- both are `just(None)` observers
  cases hx : (σ.ch j).jx with
  | none => simp [jl, hx] at q
  | some p =>
    cases hx' : (σ.ch j').jx with
    | none => simp [jl, hx'] at ho
    | some p' =>
      simp only [jl, hx, hx', List.map_cons, List.map_nil, List.mem_singleton] at ho q
      exact hne (h.jInj j j' p p' hj hj' hx hx' (by rw [← q, ← ho]))

/-- **frame rule**: a step that only touched chain `j` -/
theorem GRel.chain_step_core (h : GRel k σ hl w) {j : Nat} (hj : j < k) {b' : CB} {w' : World}
    (hc : ChainAt k j b' w') (s : Same w w' (allCells k j) (chainObs k j (σ.ch j)))
    (hjI : ∀ a a' p p', a < k → a' < k → (upd σ.ch j b' a).jx = some p → (upd σ.ch j b' a').jx = some p' →
      p.1 = p'.1 → a = a') :
    GRel k { σ with ch := upd σ.ch j b' } hl w' := by
  have hJ := fun o q => jx_bound (h.chains j hj) (o := o) q
  have i1 := idx_lt hj
  have hc0 : ∀ c, c < 2 * k + 5 → 2 * k ≤ c → c ∉ allCells k j := by
    intro c h1 h2
    simp only [allCells, cser, cmap, cq, mser, mmap, mst, List.mem_cons, List.not_mem_nil, or_false]; omega
  have ho0 : ∀ o, o < 2 → o ∉ chainObs k j (σ.ch j) := by
    intro o h1 hq
    simp only [chainObs, lowObs, List.mem_cons] at hq
    simp only [Zo, Co, Mo] at *
    rcases hq with q | q | q | q
    · omega
    · omega
    · omega
    · have := hJ _ q; omega
  exact
  { status := s.status.trans h.status
    held := s.held.trans h.held
    hlOk := h.hlOk
    root := by rw [s.obs _ (ho0 0 (by omega))]; exact h.root
    user := by rw [s.users]; exact h.user
    log := by have : logOf w' 0 = logOf w 0 := by simp only [logOf, s.trace]
              rw [this]; exact h.log
    oS := by rw [s.cells _ (hc0 _ (by simp only [oser]; omega) (by simp only [oser]; omega))]; exact h.oS
    oM := by rw [s.cells _ (hc0 _ (by simp only [omap]; omega) (by simp only [omap]; omega))]; exact h.oM
    oF := by rw [s.slots]; exact h.oF
    o1 := by rw [s.obs _ (ho0 1 (by omega))]; exact h.o1
    zS := by rw [s.cells _ (hc0 _ (by simp only [zser]; omega) (by simp only [zser]; omega))]; exact h.zS
    zM := by rw [s.cells _ (hc0 _ (by simp only [zmap]; omega) (by simp only [zmap]; omega))]; exact h.zM
    zQ := by rw [s.cells _ (hc0 _ (by simp only [zq]; omega) (by simp only [zq]; omega))]; exact h.zQ
    zF := by rw [s.slots]; exact h.zF
    regLt := h.regLt
    chains := by
      intro j' hj'
      show ChainAt k j' (upd σ.ch j b' j') w'
      by_cases e : j' = j
      · subst e; rw [upd_same]; exact hc
      · rw [upd_other _ _ e]
        exact (h.chains j' hj').of_same s (cells_disj hj hj' (Ne.symm e)) (obs_disj h hj hj' (Ne.symm e))
    jInj := hjI }

theorem GRel.chain_step' (h : GRel k σ hl w) {j : Nat} (hj : j < k) {b' : CB} {w' : World} (hc : ChainAt k j b' w')
    (s : Same w w' (allCells k j) (chainObs k j (σ.ch j)))
    (hjx : b'.jx.map (·.1) = (σ.ch j).jx.map (·.1)) :
    GRel k { σ with ch := upd σ.ch j b' } hl w' := by
  refine h.chain_step_core hj hc s ?_
  intro a a' p p' ha ha' hp hp' hpp
  have key : ∀ a, ((upd σ.ch j b') a).jx.map (·.1) = (σ.ch a).jx.map (·.1) := by
    intro a; by_cases e : a = j
    · subst e; rw [upd_same]; exact hjx
    · rw [upd_other _ _ e]
  have k1 := key a; have k2 := key a'
  simp only [hp, hp', Option.map_some] at k1 k2
  cases q1 : (σ.ch a).jx with
  | none => simp [q1] at k1
  | some r =>
    cases q2 : (σ.ch a').jx with
    | none => simp [q2] at k2
    | some r' =>
      simp only [q1, q2, Option.map_some, Option.some.injEq] at k1 k2
      exact h.jInj a a' r r' ha ha' q1 q2 (by rw [← k1, ← k2]; exact hpp)

theorem GRel.chain_step (h : GRel k σ hl w) {j : Nat} (hj : j < k) {b' : CB} {w' : World} (hc : ChainAt k j b' w')
    (s : Same w w' (chainCells k j) (chainObs k j (σ.ch j)))
    (hjx : b'.jx.map (·.1) = (σ.ch j).jx.map (·.1)) :
    GRel k { σ with ch := upd σ.ch j b' } hl w' :=
  h.chain_step' hj hc (s.mono (chainCells_sub k j) (fun _ q => q)) hjx

end Rx.SeqRef
