import RxVerif.Theorems.C02b
/-
C04 at kernel level: ERROR PASSTHROUGH.  For every operator kernel `K` of `Kernel/Basic.lean` that is not
an error handler (all except `kMaterialize`), all item lists `xs` and all error payloads `e`:

 (a) `K.run (xs, .error e)` contains at most one terminal event, and it is the last event
     (`TerminalLast`; proved for EVERY kernel and EVERY stream, from the run semantics alone);
 (b) every `Ev.error e'` in `K.run (xs, .error e)` has `e' = e`  (for `kDematerialize`: or `mErr e' ∈ xs`);
 (c) for the kernels that never complete early, `K.run (xs, .error e) = K.run (xs, .silent) ++ [.error e]`.

(a), (b) are proved once, generically, from the predicate `PassesErrors K` (the operator's `on_error`
closure is exactly `sctl.sink_error(e)`, and neither `on_next` nor `on_complete` ever call `sink_error`);
(c) from `PassesErrors K` and `OnlyEmits K` (`on_next` only ever calls `sink_next`).
Each kernel is then shown to satisfy the predicates by unfolding its definition (no `decide`).
-/
namespace Rx.C04
open Rx Rx.C02b

/-! ### (a) at most one terminal, in last position — generic in the kernel -/

/-- all events except possibly the last one are non-terminal -/
def TerminalLast (l : List Ev) : Prop := ∀ ev ∈ l.dropLast, ev.isTerminal = false

/-- the same, spelled out: a terminal-free prefix, followed by nothing or by exactly one terminal -/
theorem terminalLast_iff (l : List Ev) :
    TerminalLast l ↔
      ∃ pre, (∀ ev ∈ pre, ev.isTerminal = false) ∧ (l = pre ∨ ∃ t, t.isTerminal = true ∧ l = pre ++ [t]) := by
  constructor
  · intro h
    by_cases hl : l = []
    · exact ⟨[], by simp, Or.inl hl⟩
    · by_cases ht : (l.getLast hl).isTerminal = true
      · exact ⟨l.dropLast, h, Or.inr ⟨l.getLast hl, ht, (List.dropLast_concat_getLast hl).symm⟩⟩
      · refine ⟨l, ?_, Or.inl rfl⟩
        intro ev hev
        rw [← List.dropLast_concat_getLast hl] at hev
        rcases List.mem_append.mp hev with h1 | h1
        · exact h ev h1
        · have : ev = l.getLast hl := by simpa using h1
          rw [this]; exact Bool.eq_false_iff.2 ht
  · rintro ⟨pre, hpre, rfl | ⟨t, _, rfl⟩⟩
    · intro ev hev; exact hpre ev (List.dropLast_subset _ hev)
    · intro ev hev; rw [List.dropLast_concat] at hev; exact hpre ev hev

/-- invariant of the run record: terminals only in last position, none at all while still alive -/
structure TInv (r : KRun) : Prop where
  init : ∀ ev ∈ r.out.dropLast, ev.isTerminal = false
  live : r.alive = true → ∀ ev ∈ r.out, ev.isTerminal = false

theorem tinv_init : TInv {} := ⟨(by intro ev h; cases h), (by intro _ ev h; cases h)⟩

theorem act_tinv (r : KRun) (a : Act) (h : TInv r) : TInv (r.act a) := by
  obtain ⟨al, c, g, out⟩ := r
  obtain ⟨h1, h2⟩ := h
  simp only at h1 h2
  cases al with
  | false =>
    -- not alive: `out` never changes
    cases a <;> exact ⟨h1, by simp [KRun.act]⟩
  | true =>
    have h2 := h2 rfl
    cases a with
    | emit d =>
      refine ⟨?_, ?_⟩
      · simpa [KRun.act, List.dropLast_concat] using h2
      · intro _ ev hev
        simp only [KRun.act, if_true, List.mem_append, List.mem_singleton] at hev
        rcases hev with hev | rfl
        · exact h2 ev hev
        · rfl
    | emitAll ds =>
      have : ∀ ev ∈ out ++ ds.map Ev.next, ev.isTerminal = false := by
        intro ev hev
        rcases List.mem_append.mp hev with hev | hev
        · exact h2 ev hev
        · obtain ⟨d, _, rfl⟩ := List.mem_map.mp hev; rfl
      refine ⟨?_, ?_⟩
      · intro ev hev
        simp only [KRun.act, if_true] at hev
        exact this ev (List.dropLast_subset _ hev)
      · intro _ ev hev
        simp only [KRun.act, if_true] at hev
        exact this ev hev
    | fail e => exact ⟨by simpa [KRun.act, List.dropLast_concat] using h2, by simp [KRun.act]⟩
    | complete => exact ⟨by simpa [KRun.act, List.dropLast_concat] using h2, by simp [KRun.act]⟩
    | abortSelf => exact ⟨h1, fun _ => h2⟩
    | finalize => exact ⟨h1, by simp [KRun.act]⟩

theorem acts_tinv (as : List Act) : ∀ (r : KRun), TInv r → TInv (r.acts as) := by
  induction as with
  | nil => intro r h; exact h
  | cons a as ih => intro r h; exact ih _ (act_tinv r a h)

theorem feed_tinv {σ} (K : Kernel σ) (xs : List Data) : ∀ (st : σ) (r : KRun),
    TInv r → TInv (K.feed st r xs).2 := by
  induction xs with
  | nil => intro st r h; exact h
  | cons x xs ih =>
    intro st r h
    rw [feed_cons]
    split
    · exact h
    · exact ih _ _ (acts_tinv _ _ h)

theorem finish_tinv {σ} (K : Kernel σ) (st : σ) (r : KRun) (t : Ending) (h : TInv r) :
    TInv (K.finish st r t) := by
  cases t with
  | silent => exact h
  | complete => simp only [Kernel.finish]; split; exact h; exact acts_tinv _ _ h
  | error e => simp only [Kernel.finish]; split; exact h; exact acts_tinv _ _ h

/-- (a) for every kernel and every stream (in particular every `(xs, .error e)`) -/
theorem run_terminalLast {σ} (K : Kernel σ) (s : Stream) : TerminalLast (K.run s) :=
  (finish_tinv K _ _ s.2 (feed_tinv K s.1 K.init _ tinv_init)).init

/-! ### (b) where an error event of a run can come from — generic in the kernel -/

theorem act_error_mem (r : KRun) (a : Act) (e' : Nat) (h : Ev.error e' ∈ (r.act a).out) :
    Ev.error e' ∈ r.out ∨ a = .fail e' := by
  obtain ⟨al, c, g, out⟩ := r
  cases al with
  | false => left; cases a <;> simpa [KRun.act] using h
  | true =>
    cases a with
    | emit d => left; simpa [KRun.act] using h
    | emitAll ds => left; simpa [KRun.act] using h
    | fail e =>
      simp only [KRun.act, if_true, List.mem_append, List.mem_singleton, Ev.error.injEq] at h
      rcases h with h | h
      · exact Or.inl h
      · exact Or.inr (by rw [h])
    | complete => left; simpa [KRun.act] using h
    | abortSelf => left; simpa [KRun.act] using h
    | finalize => left; simpa [KRun.act] using h

theorem acts_error_mem (as : List Act) : ∀ (r : KRun) (e' : Nat),
    Ev.error e' ∈ (r.acts as).out → Ev.error e' ∈ r.out ∨ Act.fail e' ∈ as := by
  induction as with
  | nil => intro r e' h; exact Or.inl h
  | cons a as ih =>
    intro r e' h
    rcases ih _ _ h with h | h
    · rcases act_error_mem r a e' h with h | h
      · exact Or.inl h
      · exact Or.inr (by simp [h])
    · exact Or.inr (List.mem_cons_of_mem _ h)

theorem feed_error_mem {σ} (K : Kernel σ) (xs : List Data) : ∀ (st : σ) (r : KRun) (e' : Nat),
    Ev.error e' ∈ (K.feed st r xs).2.out →
      Ev.error e' ∈ r.out ∨ ∃ st' x, x ∈ xs ∧ Act.fail e' ∈ (K.onNext st' x).2 := by
  induction xs with
  | nil => intro st r e' h; exact Or.inl h
  | cons x xs ih =>
    intro st r e' h
    rw [feed_cons] at h
    split at h
    · exact Or.inl h
    · rcases ih _ _ _ h with h | ⟨st', y, hy, h⟩
      · rcases acts_error_mem _ _ _ h with h | h
        · exact Or.inl h
        · exact Or.inr ⟨st, x, by simp, h⟩
      · exact Or.inr ⟨st', y, List.mem_cons_of_mem _ hy, h⟩

/-- every error event delivered downstream was produced by a `sink_error` of one of the three closures -/
theorem run_error_mem {σ} (K : Kernel σ) (xs : List Data) (t : Ending) (e' : Nat)
    (h : Ev.error e' ∈ K.run (xs, t)) :
    (∃ st x, x ∈ xs ∧ Act.fail e' ∈ (K.onNext st x).2)
    ∨ (∃ st e, t = .error e ∧ Act.fail e' ∈ (K.onError st e).2)
    ∨ (∃ st, t = .complete ∧ Act.fail e' ∈ (K.onComplete st).2) := by
  rw [run_eq] at h
  have hfeed := feed_error_mem K xs K.init ⟨true, false, true, []⟩ e'
  cases t with
  | silent =>
    rcases hfeed h with h | h
    · cases h
    · exact Or.inl h
  | complete =>
    simp only [Kernel.finish] at h
    split at h
    · rcases hfeed h with h | h
      · cases h
      · exact Or.inl h
    · rcases acts_error_mem _ _ _ h with h | h
      · rcases hfeed h with h | h
        · cases h
        · exact Or.inl h
      · exact Or.inr (Or.inr ⟨_, rfl, h⟩)
  | error e =>
    simp only [Kernel.finish] at h
    split at h
    · rcases hfeed h with h | h
      · cases h
      · exact Or.inl h
    · rcases acts_error_mem _ _ _ h with h | h
      · rcases hfeed h with h | h
        · cases h
        · exact Or.inl h
      · exact Or.inr (Or.inl ⟨_, _, rfl, h⟩)

/-- the operator is not an error handler: `on_error` is `sink_error(e)` and nothing else raises errors -/
structure PassesErrors {σ} (K : Kernel σ) : Prop where
  onError : ∀ (st : σ) (e : Nat), (K.onError st e).2 = [.fail e]
  onNext : ∀ (st : σ) (x : Data) (e : Nat), Act.fail e ∉ (K.onNext st x).2
  onComplete : ∀ (st : σ) (e : Nat), Act.fail e ∉ (K.onComplete st).2

/-- (a) + (b) -/
structure ErrorPassthrough {σ} (K : Kernel σ) : Prop where
  terminal_last : ∀ (xs : List Data) (e : Nat), TerminalLast (K.run (xs, .error e))
  same_error : ∀ (xs : List Data) (e e' : Nat), Ev.error e' ∈ K.run (xs, .error e) → e' = e

theorem errorPassthrough_of {σ} {K : Kernel σ} (h : PassesErrors K) : ErrorPassthrough K := by
  refine ⟨fun xs e => run_terminalLast K _, ?_⟩
  intro xs e e' hmem
  rcases run_error_mem K xs _ e' hmem with ⟨st, x, _, hf⟩ | ⟨st, e₁, he, hf⟩ | ⟨st, he, _⟩
  · exact absurd hf (h.onNext st x e')
  · cases he
    rw [h.onError] at hf
    simpa using hf
  · cases he

/-- the error also never appears when the source does not fail -/
theorem no_error_without_error {σ} {K : Kernel σ} (h : PassesErrors K) (xs : List Data) (t : Ending)
    (ht : ∀ e, t ≠ .error e) (e' : Nat) : Ev.error e' ∉ K.run (xs, t) := by
  intro hmem
  rcases run_error_mem K xs _ e' hmem with ⟨st, x, _, hf⟩ | ⟨st, e₁, he, hf⟩ | ⟨st, he, hf⟩
  · exact h.onNext st x e' hf
  · exact ht _ he
  · exact h.onComplete st e' hf

/-- with the error the subscriber sees what it sees from the unterminated source, plus (unless the
operator had already stopped or terminated) the error -/
theorem error_or_stopped {σ} {K : Kernel σ} (h : PassesErrors K) (xs : List Data) (e : Nat) :
    K.run (xs, .error e) = K.run (xs, .silent) ++ [.error e] ∨ K.run (xs, .error e) = K.run (xs, .silent) := by
  rw [run_eq, run_eq]
  simp only [Kernel.finish, h.onError]
  generalize (K.feed K.init ⟨true, false, true, []⟩ xs).2 = r
  obtain ⟨al, c, g, out⟩ := r
  cases c <;> cases al <;> simp [KRun.act]

/-! ### (c) operators that never complete early -/

/-- `on_next` only ever calls `sink_next` -/
def OnlyEmits {σ} (K : Kernel σ) : Prop :=
  ∀ (st : σ) (x : Data) (a : Act), a ∈ (K.onNext st x).2 → ∃ d, a = .emit d

/-- (c): all items that precede the error are still delivered, and the error is the terminal -/
def DeliversThenError {σ} (K : Kernel σ) : Prop :=
  ∀ (xs : List Data) (e : Nat), K.run (xs, .error e) = K.run (xs, .silent) ++ [.error e]

theorem acts_live (as : List Act) (h : ∀ a ∈ as, ∃ d, a = Act.emit d) : ∀ out : List Ev,
    ∃ out', KRun.acts ⟨true, false, true, out⟩ as = ⟨true, false, true, out'⟩ := by
  induction as with
  | nil => intro out; exact ⟨out, rfl⟩
  | cons a as ih =>
    intro out
    obtain ⟨d, rfl⟩ := h a (by simp)
    obtain ⟨out', h'⟩ := ih (fun a ha => h a (List.mem_cons_of_mem _ ha)) (out ++ [.next d])
    exact ⟨out', by simpa using h'⟩

theorem feed_live {σ} {K : Kernel σ} (h : OnlyEmits K) (xs : List Data) : ∀ (st : σ) (out : List Ev),
    ∃ out', (K.feed st ⟨true, false, true, out⟩ xs).2 = ⟨true, false, true, out'⟩ := by
  induction xs with
  | nil => intro st out; exact ⟨out, rfl⟩
  | cons x xs ih =>
    intro st out
    rw [feed_cons]
    obtain ⟨out₁, h₁⟩ := acts_live (K.onNext st x).2 (h st x) out
    obtain ⟨out', h'⟩ := ih (K.onNext st x).1 out₁
    exact ⟨out', by simpa [h₁] using h'⟩

theorem deliversThenError_of {σ} {K : Kernel σ} (hp : PassesErrors K) (ho : OnlyEmits K) :
    DeliversThenError K := by
  intro xs e
  rw [run_eq, run_eq]
  obtain ⟨out', h'⟩ := feed_live ho xs K.init []
  simp only at h' ⊢
  rw [h']
  simp [Kernel.finish, hp.onError]

/-! ### every kernel passes errors -/

theorem map_passes (f : Fn) : PassesErrors (kMap f) :=
  ⟨fun _ _ => rfl, by intro st x e h; simp [kMap] at h, by intro st e h; simp [kMap] at h⟩

theorem filter_passes (p : Pred) : PassesErrors (kFilter p) :=
  ⟨fun _ _ => rfl, by intro st x e h; simp only [kFilter] at h; split at h <;> simp at h,
   by intro st e h; simp [kFilter] at h⟩

theorem take_passes (n : Nat) : PassesErrors (kTake n) :=
  ⟨fun _ _ => rfl,
   by intro st x e h
      simp only [kTake, List.mem_append] at h
      rcases h with h | h <;> split at h <;> simp at h,
   by intro st e h; simp [kTake] at h⟩

theorem skip_passes (n : Nat) : PassesErrors (kSkip n) :=
  ⟨fun _ _ => rfl, by intro st x e h; simp only [kSkip] at h; split at h <;> simp at h,
   by intro st e h; simp [kSkip] at h⟩

theorem takeWhile_passes (p : Pred) : PassesErrors (kTakeWhile p) :=
  ⟨fun _ _ => rfl, by intro st x e h; simp only [kTakeWhile] at h; split at h <;> simp at h,
   by intro st e h; simp [kTakeWhile] at h⟩

theorem skipWhile_passes (p : Pred) : PassesErrors (kSkipWhile p) :=
  ⟨fun _ _ => rfl, by intro st x e h; simp only [kSkipWhile] at h; split at h <;> simp at h,
   by intro st e h; simp [kSkipWhile] at h⟩

theorem takeLast_passes (n : Nat) : PassesErrors (kTakeLast n) :=
  ⟨fun _ _ => rfl, by intro st x e h; simp [kTakeLast] at h, by intro st e h; simp [kTakeLast] at h⟩

theorem skipLast_passes (n : Nat) : PassesErrors (kSkipLast n) :=
  ⟨fun _ _ => rfl,
   by intro st x e h
      simp only [kSkipLast] at h
      split at h
      · simp only at h; split at h <;> simp at h
      · simp at h,
   by intro st e h; simp [kSkipLast] at h⟩

theorem distinct_passes : PassesErrors kDistinct :=
  ⟨fun _ _ => rfl,
   by intro st x e h
      simp only [kDistinct] at h
      split at h
      · split at h <;> simp at h
      · simp at h,
   by intro st e h; simp [kDistinct] at h⟩

theorem scan_passes (f : Fn2) : PassesErrors (kScan f) :=
  ⟨fun _ _ => rfl, by intro st x e h; simp [kScan] at h, by intro st e h; simp [kScan] at h⟩

theorem fold_passes (g : Data → Data → Data) : PassesErrors (kFold g) :=
  ⟨fun _ _ => rfl, by intro st x e h; simp [kFold] at h,
   by intro st e h; rw [kFold_onComplete] at h; cases st <;> simp at h⟩

theorem reduce_passes (f : Fn2) : PassesErrors (kReduce f) := fold_passes _
theorem sum_passes : PassesErrors kSum := fold_passes _
theorem min_passes : PassesErrors kMin := fold_passes _
theorem max_passes : PassesErrors kMax := fold_passes _

theorem count_passes : PassesErrors kCount :=
  ⟨fun _ _ => rfl, by intro st x e h; simp [kCount] at h, by intro st e h; simp [kCount] at h⟩

theorem sumAndCount_passes : PassesErrors kSumAndCount :=
  ⟨fun _ _ => rfl, by intro ⟨acc, n⟩ x e h; rw [kSumAndCount_onNext] at h; simp at h,
   by intro ⟨acc, n⟩ e h; rw [kSumAndCount_onComplete] at h; cases acc <;> simp at h⟩

theorem contains_passes (t : Data) : PassesErrors (kContains t) :=
  ⟨fun _ _ => rfl, by intro st x e h; simp only [kContains] at h; split at h <;> simp at h,
   by intro st e h; simp [kContains] at h⟩

theorem defaultIfEmpty_passes (d : Data) : PassesErrors (kDefaultIfEmpty d) :=
  ⟨fun _ _ => rfl, by intro st x e h; simp [kDefaultIfEmpty] at h,
   by intro st e h; simp only [kDefaultIfEmpty, List.mem_append] at h
      rcases h with h | h
      · split at h <;> simp at h
      · simp at h⟩

theorem ignoreElements_passes : PassesErrors kIgnoreElements :=
  ⟨fun _ _ => rfl, by intro st x e h; simp [kIgnoreElements] at h,
   by intro st e h; simp [kIgnoreElements] at h⟩

theorem buffer_passes (n : Nat) : PassesErrors (kBuffer n) :=
  ⟨fun _ _ => rfl,
   by intro st x e h; rw [kBuffer_onNext] at h; split at h <;> simp at h,
   by intro st e h; rw [kBuffer_onComplete] at h
      simp only [List.mem_append] at h
      rcases h with h | h
      · split at h <;> simp at h
      · simp at h⟩

theorem id_passes : PassesErrors kId :=
  ⟨fun _ _ => rfl, by intro st x e h; simp [kId] at h, by intro st e h; simp [kId] at h⟩

/-! ### (a) + (b) for every kernel that is not an error handler -/

theorem map_passthrough (f : Fn) : ErrorPassthrough (kMap f) := errorPassthrough_of (map_passes f)
theorem filter_passthrough (p : Pred) : ErrorPassthrough (kFilter p) := errorPassthrough_of (filter_passes p)
theorem take_passthrough (n : Nat) : ErrorPassthrough (kTake n) := errorPassthrough_of (take_passes n)
theorem skip_passthrough (n : Nat) : ErrorPassthrough (kSkip n) := errorPassthrough_of (skip_passes n)
theorem takeWhile_passthrough (p : Pred) : ErrorPassthrough (kTakeWhile p) :=
  errorPassthrough_of (takeWhile_passes p)
theorem skipWhile_passthrough (p : Pred) : ErrorPassthrough (kSkipWhile p) :=
  errorPassthrough_of (skipWhile_passes p)
theorem takeLast_passthrough (n : Nat) : ErrorPassthrough (kTakeLast n) := errorPassthrough_of (takeLast_passes n)
theorem skipLast_passthrough (n : Nat) : ErrorPassthrough (kSkipLast n) := errorPassthrough_of (skipLast_passes n)
theorem distinct_passthrough : ErrorPassthrough kDistinct := errorPassthrough_of distinct_passes
theorem scan_passthrough (f : Fn2) : ErrorPassthrough (kScan f) := errorPassthrough_of (scan_passes f)
theorem fold_passthrough (g : Data → Data → Data) : ErrorPassthrough (kFold g) :=
  errorPassthrough_of (fold_passes g)
theorem reduce_passthrough (f : Fn2) : ErrorPassthrough (kReduce f) := errorPassthrough_of (reduce_passes f)
theorem sum_passthrough : ErrorPassthrough kSum := errorPassthrough_of sum_passes
theorem min_passthrough : ErrorPassthrough kMin := errorPassthrough_of min_passes
theorem max_passthrough : ErrorPassthrough kMax := errorPassthrough_of max_passes
theorem count_passthrough : ErrorPassthrough kCount := errorPassthrough_of count_passes
theorem sumAndCount_passthrough : ErrorPassthrough kSumAndCount := errorPassthrough_of sumAndCount_passes
theorem contains_passthrough (t : Data) : ErrorPassthrough (kContains t) :=
  errorPassthrough_of (contains_passes t)
theorem defaultIfEmpty_passthrough (d : Data) : ErrorPassthrough (kDefaultIfEmpty d) :=
  errorPassthrough_of (defaultIfEmpty_passes d)
theorem ignoreElements_passthrough : ErrorPassthrough kIgnoreElements :=
  errorPassthrough_of ignoreElements_passes
theorem buffer_passthrough (n : Nat) : ErrorPassthrough (kBuffer n) := errorPassthrough_of (buffer_passes n)
theorem id_passthrough : ErrorPassthrough kId := errorPassthrough_of id_passes

/-- `dematerialize` (a): terminal last -/
theorem dematerialize_terminal_last (xs : List Data) (e : Nat) :
    TerminalLast (kDematerialize.run (xs, .error e)) := run_terminalLast _ _

/-- `dematerialize` (b): an error event is the source's error, or an `Error` material among the items -/
theorem dematerialize_same_error (xs : List Data) (e e' : Nat)
    (h : Ev.error e' ∈ kDematerialize.run (xs, .error e)) : e' = e ∨ Data.mErr e' ∈ xs := by
  rcases run_error_mem kDematerialize xs _ e' h with ⟨st, x, hx, hf⟩ | ⟨st, e₁, he, hf⟩ | ⟨st, he, _⟩
  · right
    have : x = Data.mErr e' := by
      cases x <;> simp [kDematerialize] at hf
      exact hf.symm ▸ rfl
    exact this ▸ hx
  · left
    cases he
    have : (kDematerialize.onError st e).2 = [.fail e] := rfl
    rw [this] at hf
    simpa using hf
  · cases he

/-- the extra disjunct of `dematerialize_same_error` is needed -/
example : Ev.error 3 ∈ kDematerialize.run ([.mErr 3], .error 5) := by decide

/-- `materialize` is the error handler: it satisfies (a) but is NOT `PassesErrors` — the error becomes an item -/
theorem materialize_terminal_last (s : Stream) : TerminalLast (kMaterialize.run s) := run_terminalLast _ _

theorem materialize_not_passes : ¬ PassesErrors kMaterialize := by
  intro h
  have := h.onError () 0
  simp [kMaterialize] at this

/-! ### (c) for the kernels that never complete early -/

theorem map_onlyEmits (f : Fn) : OnlyEmits (kMap f) := by
  intro st x a h; simp only [kMap, List.mem_singleton] at h; exact ⟨_, h⟩

theorem filter_onlyEmits (p : Pred) : OnlyEmits (kFilter p) := by
  intro st x a h; simp only [kFilter] at h
  split at h
  · exact ⟨_, List.mem_singleton.mp h⟩
  · cases h

theorem skip_onlyEmits (n : Nat) : OnlyEmits (kSkip n) := by
  intro st x a h; simp only [kSkip] at h
  split at h
  · exact ⟨_, List.mem_singleton.mp h⟩
  · cases h

theorem skipWhile_onlyEmits (p : Pred) : OnlyEmits (kSkipWhile p) := by
  intro st x a h; simp only [kSkipWhile] at h
  split at h
  · cases h
  · exact ⟨_, List.mem_singleton.mp h⟩

theorem skipLast_onlyEmits (n : Nat) : OnlyEmits (kSkipLast n) := by
  intro st x a h; simp only [kSkipLast] at h
  split at h
  · simp only at h
    split at h
    · exact ⟨_, List.mem_singleton.mp h⟩
    · cases h
  · cases h

theorem distinct_onlyEmits : OnlyEmits kDistinct := by
  intro st x a h; simp only [kDistinct] at h
  split at h
  · split at h
    · exact ⟨_, List.mem_singleton.mp h⟩
    · cases h
  · exact ⟨_, List.mem_singleton.mp h⟩

theorem scan_onlyEmits (f : Fn2) : OnlyEmits (kScan f) := by
  intro st x a h; rw [kScan_onNext] at h; exact ⟨_, List.mem_singleton.mp h⟩

theorem defaultIfEmpty_onlyEmits (d : Data) : OnlyEmits (kDefaultIfEmpty d) := by
  intro st x a h; rw [kDefaultIfEmpty_onNext] at h; exact ⟨_, List.mem_singleton.mp h⟩

theorem ignoreElements_onlyEmits : OnlyEmits kIgnoreElements := by
  intro st x a h; simp [kIgnoreElements] at h

theorem id_onlyEmits : OnlyEmits kId := by
  intro st x a h; simp only [kId, List.mem_singleton] at h; exact ⟨_, h⟩

theorem buffer_onlyEmits (n : Nat) : OnlyEmits (kBuffer n) := by
  intro st x a h; rw [kBuffer_onNext] at h
  split at h
  · exact ⟨_, List.mem_singleton.mp h⟩
  · cases h

theorem map_delivers (f : Fn) : DeliversThenError (kMap f) :=
  deliversThenError_of (map_passes f) (map_onlyEmits f)
theorem filter_delivers (p : Pred) : DeliversThenError (kFilter p) :=
  deliversThenError_of (filter_passes p) (filter_onlyEmits p)
theorem skip_delivers (n : Nat) : DeliversThenError (kSkip n) :=
  deliversThenError_of (skip_passes n) (skip_onlyEmits n)
theorem skipWhile_delivers (p : Pred) : DeliversThenError (kSkipWhile p) :=
  deliversThenError_of (skipWhile_passes p) (skipWhile_onlyEmits p)
theorem skipLast_delivers (n : Nat) : DeliversThenError (kSkipLast n) :=
  deliversThenError_of (skipLast_passes n) (skipLast_onlyEmits n)
theorem distinct_delivers : DeliversThenError kDistinct :=
  deliversThenError_of distinct_passes distinct_onlyEmits
theorem scan_delivers (f : Fn2) : DeliversThenError (kScan f) :=
  deliversThenError_of (scan_passes f) (scan_onlyEmits f)
theorem defaultIfEmpty_delivers (d : Data) : DeliversThenError (kDefaultIfEmpty d) :=
  deliversThenError_of (defaultIfEmpty_passes d) (defaultIfEmpty_onlyEmits d)
theorem ignoreElements_delivers : DeliversThenError kIgnoreElements :=
  deliversThenError_of ignoreElements_passes ignoreElements_onlyEmits
theorem id_delivers : DeliversThenError kId := deliversThenError_of id_passes id_onlyEmits
theorem buffer_delivers (n : Nat) : DeliversThenError (kBuffer n) :=
  deliversThenError_of (buffer_passes n) (buffer_onlyEmits n)

/-! ### non-vacuity -/

-- the conclusions are about non-trivial runs: items before the error are delivered, the error is last
example : (kMap .inc).run ([.int 1, .int 2], .error 5) = [.next (.int 2), .next (.int 3), .error 5] := by decide
example : (kBuffer 2).run ([.int 1, .int 2, .int 3], .error 5)
    = [.next (Data.ofList [.int 1, .int 2]), .error 5] := by decide
example : (kSkipLast 1).run ([.int 1, .int 2], .error 5) = [.next (.int 1), .error 5] := by decide
-- operators that complete early swallow a later error: (c) does not hold for them, (a) and (b) do
example : (kTake 1).run ([.int 1, .int 2], .error 5) = [.next (.int 1), .complete] := by decide
example : ¬ DeliversThenError (kTake 1) := by
  intro h; exact absurd (h [.int 1, .int 2] 5) (by decide)
example : ¬ DeliversThenError (kContains (.int 1)) := by
  intro h; exact absurd (h [.int 1] 5) (by decide)
-- aggregates drop their accumulator and forward the error
example : kSumAndCount.run ([.int 1, .int 2], .error 5) = [.error 5] := by decide
-- `TerminalLast` is a real constraint
example : ¬ TerminalLast [.complete, .next .unit] := by
  intro h; exact absurd (h .complete (by simp)) (by decide)
example : TerminalLast ((kDematerialize).run ([.mNext (.int 1), .mErr 3, .mNext (.int 2)], .error 5)) :=
  run_terminalLast _ _
example : kDematerialize.run ([.mNext (.int 1), .mErr 3, .mNext (.int 2)], .error 5)
    = [.next (.int 1), .error 3] := by decide

end Rx.C04

#print axioms Rx.C04.run_terminalLast
#print axioms Rx.C04.terminalLast_iff
#print axioms Rx.C04.run_error_mem
#print axioms Rx.C04.errorPassthrough_of
#print axioms Rx.C04.no_error_without_error
#print axioms Rx.C04.error_or_stopped
#print axioms Rx.C04.deliversThenError_of
#print axioms Rx.C04.take_passthrough
#print axioms Rx.C04.skipLast_passthrough
#print axioms Rx.C04.sumAndCount_passthrough
#print axioms Rx.C04.buffer_passthrough
#print axioms Rx.C04.dematerialize_same_error
#print axioms Rx.C04.materialize_not_passes
#print axioms Rx.C04.buffer_delivers
#print axioms Rx.C04.skipLast_delivers
#print axioms Rx.C04.distinct_delivers
