import RxVerif.Theorems.SimChainPure
/-
SIM for chains, part 7 (pure): ONE stage.  Feeding observer `j+1` politely with a list of events has,
below observer `j`, the same effect as feeding observer `j` politely with the (machine-exact) kernel run
of stage `j` on those events — even though downstream may unsubscribe observer `j` early (which tears
stage `j` down and cancels its upstream): from then on nothing reaches the part below `j` on either side.
-/
namespace Rx.Chain
open Rx.Sim

/-- polite feeding of observer `j`: `is_subscribed` is asked before each event -/
def pf (n : Nat) (ks : Nat → DK) (j : Nat) (l : List Ev) (z : CSt) : CSt :=
  l.foldl (fun z e => if z.sub j then deliver n ks j e z else z) z

theorem pf_nil (n ks j z) : pf n ks j [] z = z := rfl
theorem pf_cons (n ks j e l z) :
    pf n ks j (e :: l) z = pf n ks j l (if z.sub j then deliver n ks j e z else z) := rfl
theorem pf_append (n ks j l1 l2 z) : pf n ks j (l1 ++ l2) z = pf n ks j l2 (pf n ks j l1 z) := by
  simp [pf, List.foldl_append]

theorem pf_dead (n ks j) (l : List Ev) (z : CSt) (h : z.sub j = false) : pf n ks j l z = z := by
  induction l with
  | nil => rfl
  | cons e l ih => rw [pf_cons]; simp only [h, Bool.false_eq_true, ↓reduceIte]; exact ih

theorem scriptC_eq_pf (n ks) (l : List Ev) (x : CSt) : scriptC n ks l x = pf n ks n l x := by
  induction l generalizing x with
  | nil => rfl
  | cons e l ih =>
    rw [pf_cons]; simp only [scriptC]
    split
    · exact ih _
    · rename_i h; exact (pf_dead n ks n l x (by simpa using h)).symm

/-- the events one action appends to the stage's output -/
def delta (r : KRun) : Act → List Ev
  | .emit d => if r.alive then [.next d] else []
  | .emitAll ds => if r.alive then ds.map .next else []
  | .fail e => if r.alive then [.error e] else []
  | .complete => if r.alive then [.complete] else []
  | .abortSelf => []
  | .finalize => []

theorem actX_out (r : KRun) (a : Act) : (actX r a).out = r.out ++ delta r a := by
  cases a <;> simp only [actX, KRun.act, delta] <;> (try split) <;> simp

theorem delta_dead (r : KRun) (a : Act) (h : r.alive = false) : delta r a = [] := by
  cases a <;> simp [delta, h]

theorem actX_alive_false (r : KRun) (a : Act) (h : r.alive = false) : (actX r a).alive = false := by
  cases a <;> simp [actX, KRun.act, h]

section Z
variable (n : Nat) (ks : Nat → DK) (j : Nat)

/-- the stage's independent kernel run, its output fed politely into observer `j` of `z` as it appears -/
def actZ (p : KRun × CSt) (a : Act) : KRun × CSt := (actX p.1 a, pf n ks j (delta p.1 a) p.2)
def actsZ (p : KRun × CSt) (as : List Act) : KRun × CSt := as.foldl (actZ n ks j) p

def runZ (D : DK) : List Ev → Data → KRun × CSt → KRun × CSt
  | [], _, p => p
  | .next d :: l, st, p =>
    if p.1.cancelled then p else runZ D l (D.onNext st d).1 (actsZ n ks j p (D.onNext st d).2)
  | .error e :: _, st, p => if p.1.cancelled then p else actsZ n ks j p (D.onError st e).2
  | .complete :: _, st, p => if p.1.cancelled then p else actsZ n ks j p (D.onComplete st).2

theorem actsZ_fst (p : KRun × CSt) (as : List Act) : (actsZ n ks j p as).1 = actsX p.1 as := by
  induction as generalizing p with
  | nil => rfl
  | cons a as ih => simp only [actsZ, List.foldl_cons, actsX] at ih ⊢; rw [ih]; rfl

/-- `z` is `z0` fed with what `r` has produced beyond `r0` -/
def Trk (r0 : KRun) (z0 : CSt) (p : KRun × CSt) : Prop :=
  ∃ l, p.1.out = r0.out ++ l ∧ p.2 = pf n ks j l z0

theorem trk_refl (r : KRun) (z : CSt) : Trk n ks j r z (r, z) := ⟨[], by simp, rfl⟩

theorem trk_actZ {r0 z0 p} (a : Act) (h : Trk n ks j r0 z0 p) : Trk n ks j r0 z0 (actZ n ks j p a) := by
  obtain ⟨l, h1, h2⟩ := h
  refine ⟨l ++ delta p.1 a, ?_, ?_⟩
  · simp only [actZ, actX_out, h1, List.append_assoc]
  · simp only [actZ, h2, pf_append]

theorem trk_actsZ {r0 z0} (as : List Act) : ∀ {p}, Trk n ks j r0 z0 p → Trk n ks j r0 z0 (actsZ n ks j p as) := by
  induction as with
  | nil => intro p h; exact h
  | cons a as ih => intro p h; simp only [actsZ, List.foldl_cons]; exact ih (trk_actZ n ks j a h)

theorem trk_runZ {r0 z0} (D : DK) (l : List Ev) : ∀ {st p}, Trk n ks j r0 z0 p →
    Trk n ks j r0 z0 (runZ n ks j D l st p) := by
  induction l with
  | nil => intro st p h; exact h
  | cons e l ih =>
    intro st p h
    cases e with
    | next d => simp only [runZ]; split
                · exact h
                · exact ih (trk_actsZ n ks j _ h)
    | error e => simp only [runZ]; split
                 · exact h
                 · exact trk_actsZ n ks j _ h
    | complete => simp only [runZ]; split
                  · exact h
                  · exact trk_actsZ n ks j _ h

/-- its first component is the machine-exact kernel run of Theorems/SimLoop.lean -/
theorem runZ_fst (D : DK) (l : List Ev) : ∀ (st : Data) (p : KRun × CSt),
    (runZ n ks j D l st p).1 =
      finishX D.kernel (feedX D.kernel st p.1 (evsStream l).1).1 (feedX D.kernel st p.1 (evsStream l).1).2
        (evsStream l).2 := by
  induction l with
  | nil => intro st p; rfl
  | cons e l ih =>
    intro st p
    cases e with
    | next d =>
      simp only [runZ, evsStream, feedX]
      split
      · rename_i hc; rw [finishX_cancelled _ _ _ hc]
      · rw [ih, actsZ_fst]; rfl
    | error e =>
      simp only [runZ, evsStream, feedX, finishX]
      split
      · rfl
      · rw [actsZ_fst]; rfl
    | complete =>
      simp only [runZ, evsStream, feedX, finishX]
      split
      · rfl
      · rw [actsZ_fst]; rfl

end Z

/-! ### the coupling between the actual chain (`y`) and the independent stage run (`r`, feeding `z`) -/

/-- agreement strictly below observer `j` -/
structure LoEqM (j : Nat) (y z : CSt) : Prop where
  out : y.out = z.out
  st : ∀ i, i < j → y.st i = z.st i
  rg : ∀ i, i < j → y.rg i = z.rg i
  ar : ∀ i, i < j → y.ar i = z.ar i
  sub : ∀ i, i < j → y.sub i = z.sub i

theorem LoEq.toM {j : Nat} {y z : CSt} (h : LoEq j y z) : LoEqM j y z :=
  ⟨h.out, h.st, h.rg, h.ar, fun i hi => h.sub i (Nat.le_of_lt hi)⟩

theorem LoEqM.keepL {j : Nat} {y' y z : CSt} (hk : Keep j y' y) (h : LoEqM j y z) : LoEqM j y' z :=
  ⟨hk.out.trans h.out, fun i hi => (hk.st i hi).trans (h.st i hi), fun i hi => (hk.rg i hi).trans (h.rg i hi),
   fun i hi => (hk.ar i hi).trans (h.ar i hi), fun i hi => (hk.sub i hi).trans (h.sub i hi)⟩

/-- observer `j` alive on both sides: everything below agrees, stage `j`'s flags are the kernel run's -/
structure Sync (j : Nat) (y : CSt) (r : KRun) (z : CSt) : Prop where
  sy : y.sub j = true
  ra : r.alive = true
  lo : LoEq j y z
  rg : y.rg j = r.registered

/-- the source side of stage `j` is asked to stop exactly when the kernel run says `cancelled` -/
def Link (j : Nat) (y : CSt) (r : KRun) : Prop := y.sub (j + 1) = !r.cancelled

/-- observer `j` dead in the chain; the independent run no longer reaches the part below either -/
structure Dead (j : Nat) (y : CSt) (r : KRun) (z : CSt) : Prop where
  sy : y.sub j = false
  zd : z.sub j = false ∨ r.alive = false
  lo : LoEqM j y z

def Rel (j : Nat) (lk : Bool) (y : CSt) (r : KRun) (z : CSt) : Prop :=
  (Sync j y r z ∧ (lk = true → Link j y r)) ∨ Dead j y r z

theorem Rel.loM {j lk y r z} (h : Rel j lk y r z) : LoEqM j y z := by
  rcases h with ⟨h, _⟩ | h
  · exact h.lo.toM
  · exact h.lo

theorem Rel.weaken {j lk y r z} (h : Rel j lk y r z) : Rel j false y r z := by
  rcases h with ⟨h, _⟩ | h
  · exact Or.inl ⟨h, fun e => by cases e⟩
  · exact Or.inr h

theorem Dead.stepY {j y y' r z} (h : Dead j y r z) (hk : Keep j y' y) (hs : y'.sub j = false) : Dead j y' r z :=
  ⟨hs, h.zd, h.lo.keepL hk⟩

section step
variable (n : Nat) (ks : Nat → DK) (j : Nat)

theorem Dead.stepR {y r z} (h : Dead j y r z) (a : Act) :
    Dead j y (actX r a) (pf n ks j (delta r a) z) := by
  rcases h.zd with hz | hr
  · rw [pf_dead n ks j _ z hz]; exact ⟨h.sy, Or.inl hz, h.lo⟩
  · rw [delta_dead r a hr, pf_nil]; exact ⟨h.sy, Or.inr (actX_alive_false r a hr), h.lo⟩

theorem Dead.stepRs {y : CSt} (as : List Act) : ∀ {r : KRun} {z : CSt}, Dead j y r z →
    Dead j y (actsZ n ks j (r, z) as).1 (actsZ n ks j (r, z) as).2 := by
  induction as with
  | nil => intro r z h; exact h
  | cons a as ih =>
    intro r z h
    simp only [actsZ, List.foldl_cons]
    exact ih (h.stepR n ks j a)

/-- one delivery into observer `j` on both sides, the stage's flags unchanged -/
theorem sync_deliver {lk y r z} (ev : Ev) (r' : KRun) (h : Sync j y r z) (hl : lk = true → Link j y r)
    (ha : r'.alive = true) (hg : r'.registered = r.registered) (hc : r'.cancelled = r.cancelled) :
    (Sync j (deliver n ks j ev y) r' (deliver n ks j ev z) ∧ (lk = true → Link j (deliver n ks j ev y) r')) ∨
    (Dead j (deliver n ks j ev y) r' (deliver n ks j ev z) ∧ (deliver n ks j ev z).sub j = false) := by
  have hlo := deliver_congr n ks j j (Nat.le_refl _) ev y z h.lo
  cases hs : (deliver n ks j ev y).sub j with
  | true =>
    left
    have hu := deliver_alive_up n ks j ev y hs
    refine ⟨⟨hs, ha, hlo, ?_⟩, ?_⟩
    · rw [hu.rg j (Nat.le_refl _), h.rg, hg]
    · intro e
      show _ = _
      rw [hu.sub (j + 1) (Nat.lt_succ_self _), hc]; exact hl e
  | false =>
    right
    have hz : (deliver n ks j ev z).sub j = false := by rw [← hlo.sub j (Nat.le_refl _)]; exact hs
    exact ⟨⟨hs, Or.inl hz, hlo.toM⟩, hz⟩

theorem emitAll_step {lk} (ds : List Data) : ∀ {y r z} (r' : KRun), Sync j y r z → (lk = true → Link j y r) →
    r'.alive = true → r'.registered = r.registered → r'.cancelled = r.cancelled →
    Rel j lk (emitAllC n (deliver n ks j) j ds y) r' (pf n ks j (ds.map .next) z) := by
  induction ds with
  | nil =>
    intro y r z r' h hl ha hg hc
    left
    show Sync j y r' z ∧ _
    exact ⟨⟨h.sy, ha, h.lo, by rw [h.rg, hg]⟩, fun e => by show y.sub (j + 1) = _; rw [hc]; exact hl e⟩
  | cons d ds ih =>
    intro y r z r' h hl ha hg hc
    have hz : z.sub j = true := by rw [← h.lo.sub j (Nat.le_refl _)]; exact h.sy
    simp only [emitAllC, h.sy, ↓reduceIte, sinkNextC, List.map_cons, pf_cons, hz]
    rcases sync_deliver n ks j (.next d) r' h hl ha hg hc with ⟨h1, hl1⟩ | ⟨h1, hz1⟩
    · exact ih r' h1 hl1 ha rfl rfl
    · rw [emitAllC_dead _ _ _ _ _ h1.sy, pf_dead _ _ _ _ _ hz1]
      exact Or.inr h1

end step

theorem unsubO_sub_self (f i : Nat) (x : CSt) : (unsubO f i x).sub i = false := by
  cases f with
  | zero => simp [unsubO]
  | succ f =>
    simp only [unsubO]; split
    · exact mono_finF (mono_unsubO f (i + 1)) i _ i (by simp)
    · simp

section step2
variable (n : Nat) (ks : Nat → DK) (j : Nat)

theorem act_step {lk : Bool} {y : CSt} (a : Act) (p : KRun × CSt) (h : Rel j lk y p.1 p.2) :
    Rel j lk (actC n (deliver n ks j) j a y) (actZ n ks j p a).1 (actZ n ks j p a).2 := by
  obtain ⟨r, z⟩ := p
  rcases h with ⟨h, hl⟩ | h
  · simp only at h hl
    have hz : z.sub j = true := by rw [← h.lo.sub j (Nat.le_refl _)]; exact h.sy
    have hra := h.ra
    cases a with
    | emit d =>
      simp only [actC, sinkNextC, h.sy, ↓reduceIte, actZ, delta, hra, pf_cons, pf_nil, hz]
      rcases sync_deliver n ks j (.next d) (actX r (.emit d)) h hl (by simp [actX, KRun.act, hra])
        (by simp [actX, KRun.act, hra]) (by simp [actX, KRun.act, hra]) with h1 | ⟨h1, _⟩
      · exact Or.inl h1
      · exact Or.inr h1
    | emitAll ds =>
      simp only [actC, actZ, delta, hra, ↓reduceIte]
      exact emitAll_step n ks j ds (actX r (.emitAll ds)) h hl (by simp [actX, KRun.act, hra])
        (by simp [actX, KRun.act, hra]) (by simp [actX, KRun.act, hra])
    | fail e =>
      simp only [actC, h.sy, ↓reduceIte, actZ, delta, hra, pf_cons, pf_nil, hz]
      right
      exact ⟨finC_sub_false _ _ _, Or.inr (by simp [actX, KRun.act, hra]),
        (deliver_congr n ks j j (Nat.le_refl _) _ _ _ h.lo).toM.keepL (finC_keep n j _)⟩
    | complete =>
      simp only [actC, h.sy, ↓reduceIte, actZ, delta, hra, pf_cons, pf_nil, hz]
      right
      have hlo : LoEq j (y.unreg j) z :=
        (loEq_of_keep_sub (keep_unreg (k := j) y (Nat.le_refl _)) rfl).trans h.lo
      exact ⟨finC_sub_false _ _ _, Or.inr (by simp [actX, KRun.act, hra]),
        (deliver_congr n ks j j (Nat.le_refl _) _ _ _ hlo).toM.keepL (finC_keep n j _)⟩
    | finalize =>
      simp only [actC, actZ, delta, pf_nil]
      right
      exact ⟨finC_sub_false _ _ _, Or.inr (by simp [actX, KRun.act]), h.lo.toM.keepL (finC_keep n j _)⟩
    | abortSelf =>
      simp only [actC, actZ, delta, pf_nil, actX]
      left
      cases hrg : y.rg j with
      | true =>
        simp only [↓reduceIte]
        have hk := upO_keep n j (y.unreg j)
        have hreg : r.registered = true := by rw [← h.rg]; exact hrg
        refine ⟨⟨?_, hra, ?_, ?_⟩, ?_⟩
        · rw [hk.sub j (Nat.lt_succ_self _)]; exact h.sy
        · exact (loEq_of_keep_sub ((hk.mono (Nat.le_succ _)).trans (keep_unreg y (Nat.le_refl _)))
            (by rw [hk.sub j (Nat.lt_succ_self _)]; rfl)).trans h.lo
        · rw [hk.rg j (Nat.lt_succ_self _)]; simp
        · intro _
          show (upO n j (y.unreg j)).sub (j + 1) = _
          rw [upO, unsubO_sub_self]; simp [hreg]
      | false =>
        simp only [Bool.false_eq_true, ↓reduceIte]
        have hreg : r.registered = false := by rw [← h.rg]; exact hrg
        refine ⟨⟨h.sy, hra, ?_, by simp⟩, ?_⟩
        · exact (loEq_of_keep_sub (keep_unreg (k := j) y (Nat.le_refl _)) rfl).trans h.lo
        · intro e
          show y.sub (j + 1) = _
          simp only [hreg, Bool.or_false]; exact hl e
  · simp only at h
    have hd := actC_dead n (deliver n ks j) j a y h.sy
    exact Or.inr ((h.stepY hd.1 hd.2).stepR n ks j a)

theorem acts_step {lk : Bool} (as : List Act) : ∀ {y : CSt} (p : KRun × CSt), Rel j lk y p.1 p.2 →
    Rel j lk (actsC n (deliver n ks j) j as y) (actsZ n ks j p as).1 (actsZ n ks j p as).2 := by
  induction as with
  | nil => intro y p h; exact h
  | cons a as ih =>
    intro y p h
    simp only [actsC, actsZ, List.foldl_cons]
    exact ih _ (act_step n ks j a p h)

end step2

section feed
variable (n : Nat) (ks : Nat → DK) (j : Nat)

def Out (y : CSt) (st : Data) (r : KRun) (z : CSt) : Prop :=
  (Sync j y r z ∧ Link j y r ∧ y.st j = st) ∨ Dead j y r z

theorem dead_pf {r z} (l : List Ev) : ∀ {y : CSt}, Dead j y r z → LoEqM j (pf n ks (j + 1) l y) z := by
  induction l with
  | nil => intro y h; exact h.lo
  | cons e l ih =>
    intro y h
    rw [pf_cons]
    split
    · have hd := deliver_dead n ks j e y h.sy
      exact ih (h.stepY hd.1 hd.2)
    · exact ih h

theorem dead_stepY1 {y r z} (e : Ev) (h : Dead j y r z) :
    Dead j (if y.sub (j + 1) then deliver n ks (j + 1) e y else y) r z := by
  split
  · have hd := deliver_dead n ks j e y h.sy
    exact h.stepY hd.1 hd.2
  · exact h

theorem stage_feed (l : List Ev) : ∀ (y : CSt) (st : Data) (p : KRun × CSt), Out j y st p.1 p.2 →
    LoEqM j (pf n ks (j + 1) l y) (runZ n ks j (ks j) l st p).2 := by
  induction l with
  | nil =>
    intro y st p h
    rcases h with ⟨h, _, _⟩ | h
    · exact h.lo.toM
    · exact h.lo
  | cons e l ih =>
    intro y st p h
    obtain ⟨r, z⟩ := p
    rw [pf_cons]
    rcases h with ⟨h, hl, hst⟩ | h
    · simp only at h hl hst
      cases hc : r.cancelled with
      | true =>
        have hsub : y.sub (j + 1) = false := by have := hl; unfold Link at this; rw [this, hc]; rfl
        simp only [hsub, Bool.false_eq_true, ↓reduceIte]
        rw [pf_dead _ _ _ _ _ hsub]
        cases e <;> simp only [runZ, hc, ↓reduceIte] <;> exact h.lo.toM
      | false =>
        have hsub : y.sub (j + 1) = true := by have := hl; unfold Link at this; rw [this, hc]; rfl
        simp only [hsub, ↓reduceIte]
        have hstU := stUp_actsC (n := n) (i := j) (fun ev => stUp_deliver n ks j ev)
        cases e with
        | next d =>
          simp only [runZ, hc, Bool.false_eq_true, ↓reduceIte, deliver, hsub, hst]
          have h0 : Rel j true { y with st := upd y.st j ((ks j).onNext st d).1 } r z :=
            Or.inl ⟨⟨h.sy, h.ra, ⟨h.lo.out, fun i hi => by
              show upd y.st j _ i = _; rw [upd_ne _ _ (by omega)]; exact h.lo.st i hi,
              h.lo.rg, h.lo.ar, h.lo.sub⟩, h.rg⟩, fun _ => hl⟩
          have h1 := acts_step n ks j ((ks j).onNext st d).2 (r, z) h0
          apply ih
          rcases h1 with ⟨h1, hl1⟩ | h1
          · refine Or.inl ⟨h1, hl1 rfl, ?_⟩
            rw [hstU _ _ j (Nat.le_refl _)]; simp [upd_apply]
          · exact Or.inr h1
        | error e =>
          simp only [runZ, hc, Bool.false_eq_true, ↓reduceIte, deliver, hsub, hst]
          have h0 : Rel j false { y with sub := upd y.sub (j + 1) false, st := upd y.st j ((ks j).onError st e).1 } r z :=
            Or.inl ⟨⟨by show upd y.sub (j + 1) false j = true; rw [upd_ne _ _ (by omega)]; exact h.sy, h.ra,
              ⟨h.lo.out, fun i hi => by
                show upd y.st j _ i = _; rw [upd_ne _ _ (by omega)]; exact h.lo.st i hi,
              h.lo.rg, h.lo.ar, fun i hi => by
                show upd y.sub (j + 1) false i = _; rw [upd_ne _ _ (by omega)]; exact h.lo.sub i hi⟩,
              h.rg⟩, fun e => by cases e⟩
          have h1 := acts_step n ks j ((ks j).onError st e).2 (r, z) h0
          rw [pf_dead _ _ _ _ _ (mono_actsC (mono_deliver n ks j) _ _ (j + 1) (by simp [upd_apply]))]
          exact h1.loM
        | complete =>
          simp only [runZ, hc, Bool.false_eq_true, ↓reduceIte, deliver, hsub, hst]
          have h0 : Rel j false { y with sub := upd y.sub (j + 1) false, st := upd y.st j ((ks j).onComplete st).1 } r z :=
            Or.inl ⟨⟨by show upd y.sub (j + 1) false j = true; rw [upd_ne _ _ (by omega)]; exact h.sy, h.ra,
              ⟨h.lo.out, fun i hi => by
                show upd y.st j _ i = _; rw [upd_ne _ _ (by omega)]; exact h.lo.st i hi,
              h.lo.rg, h.lo.ar, fun i hi => by
                show upd y.sub (j + 1) false i = _; rw [upd_ne _ _ (by omega)]; exact h.lo.sub i hi⟩,
              h.rg⟩, fun e => by cases e⟩
          have h1 := acts_step n ks j ((ks j).onComplete st).2 (r, z) h0
          rw [pf_dead _ _ _ _ _ (mono_actsC (mono_deliver n ks j) _ _ (j + 1) (by simp [upd_apply]))]
          exact h1.loM
    · simp only at h
      have hy := dead_stepY1 n ks j e h
      generalize (if y.sub (j + 1) then deliver n ks (j + 1) e y else y) = y1 at hy ⊢
      cases e with
      | next d =>
        simp only [runZ]
        split
        · exact dead_pf n ks j l hy
        · exact ih _ _ _ (Or.inr (hy.stepRs n ks j _))
      | error e =>
        simp only [runZ]
        split
        · exact dead_pf n ks j l hy
        · exact dead_pf n ks j l (hy.stepRs n ks j _)
      | complete =>
        simp only [runZ]
        split
        · exact dead_pf n ks j l hy
        · exact dead_pf n ks j l (hy.stepRs n ks j _)

/-- (F) one stage: below observer `j`, feeding stage `j` = feeding observer `j` with the stage's kernel run -/
theorem stage_sim (x : CSt) (hs : x.sub j = true) (hs1 : x.sub (j + 1) = true) (hrg : x.rg j = true)
    (hst : x.st j = (ks j).init) (l : List Ev) :
    LoEqM j (pf n ks (j + 1) l x) (pf n ks j ((ks j).kernel.run (evsStream l)) x) := by
  have h0 : Out j x (ks j).init ({} : KRun) x :=
    Or.inl ⟨⟨hs, rfl, LoEq.refl _ _, hrg⟩, by show _ = _; rw [hs1]; rfl, hst⟩
  have h1 := stage_feed n ks j l x (ks j).init (({} : KRun), x) h0
  obtain ⟨l', hl1, hl2⟩ := trk_runZ n ks j (ks j) l (st := (ks j).init) (trk_refl n ks j ({} : KRun) x)
  have hf := runZ_fst n ks j (ks j) l (ks j).init (({} : KRun), x)
  have hout : (runZ n ks j (ks j) l (ks j).init (({} : KRun), x)).1.out = (ks j).kernel.run (evsStream l) := by
    rw [hf]; exact runFullX_out (ks j).kernel (evsStream l)
  rw [hl2] at h1
  have : l' = (ks j).kernel.run (evsStream l) := by
    rw [← hout, hl1]; rfl
  rw [← this]; exact h1

end feed

end Rx.Chain
