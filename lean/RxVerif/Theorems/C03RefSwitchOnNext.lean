import RxVerif.Theorems.C03RefMerge
/-
C03-REF, switch_on_next: model A's `oSwitchOnNext` (Machine/Lib.lean, transliterating
src/operators/switch_on_next.rs) over two plain hot subjects (0 = source, 1 = target) REFINES the pure history
machine `Comb.switchOnNext`.  (There is no list specification of switch_on_next in Spec/Comb.lean / C03.lean, so
there is no transported corollary.)
-/
namespace Rx.CRef.SwitchOnNext
open Rx.Sim Rx.Ref Rx.Comb Rx.CRef

def sc : Sctl := ⟨0, 4, 5, 4⟩

/-- switch_on_next.rs:30-64: the source's observer is created first (serial 0, observer 1), then the target's
    (serial 1, observer 2); the `emitted` flag lives in cell 6 -/
def lay : Lay where
  k := 2
  ser i := i
  ob i := 1 + i
  hn i x := if i = 0 then .cellRead 6 false fun b => if b.toBool then sc.abortObserve 0 else sc.sinkNext x
            else .cellWrite 6 false (.bool true) (sc.sinkNext x)
  he _ e := sc.sinkError e
  hc i := if i = 0 then sc.sinkComplete 0 else sc.sinkCompleteForce

theorem lay_ok : lay.Ok where
  obPos := by intro i hi; simp only [lay] at *; omega
  obInj := by intro i j hi hj h; simp only [lay] at *; omega
  serInj := by intro i j hi hj h; simp only [lay] at *; exact h

abbrev R (s : switchOnNext.State) (out : List Ev) (w : World) : Prop :=
  Rel lay (fun _ => false) [] s.ctl ⟨.bool s.emitted, 2, 3⟩ out w

/-- one history entry = `Comb.switchOnNext.step` -/
theorem step_spec (s : switchOnNext.State) (out : List Ev) (w : World) (p : Nat × Ev) (h : R s out w) :
    WP (callOf (sjs 2) p) w (R (switchOnNext.step s p).1 (out ++ (switchOnNext.step s p).2)) := by
  obtain ⟨i, ev⟩ := p
  obtain ⟨c, em⟩ := s
  have ok := lay_ok
  rcases Nat.lt_or_ge i 2 with hi | hi
  · rw [callOf_lt hi]
    cases hlv : c.live.contains i with
    | false =>
      simp only [switchOnNext.step, Ctl.isLive, hlv, Bool.false_eq_true, ↓reduceIte, List.append_nil]
      exact src_dead h hi (by rw [hlv]; rfl) ev
    | true =>
      refine src_live ok h hi hlv rfl ev fun w1 h1 => ?_
      rcases (by omega : i = 0 ∨ i = 1) with e | e
      · subst e
        simp only [switchOnNext.step, Ctl.isLive, hlv, ↓reduceIte, beq_self_eq_true]
        cases ev with
        | next d =>
          show WP (.cellRead 6 false fun b => if b.toBool then sc.abortObserve 0 else sc.sinkNext d) _ _
          refine wp_cellRead_val h1.held (xc_some h1 (by simp)) ?_
          cases em with
          | true =>
            simp only [Data.toBool, ↓reduceIte, List.append_nil]
            exact abort_spec ok h1 (i := 0) (by simp [lay])
          | false =>
            simp only [Data.toBool, Bool.false_eq_true, ↓reduceIte]
            exact sinkNext_spec ok h1 d
        | error e => exact sinkError_spec ok h1 e
        | complete => exact sinkComplete_spec ok h1 (i := 0) (by simp [lay])
      · subst e
        simp only [switchOnNext.step, Ctl.isLive, hlv, ↓reduceIte, beq_self_eq_true]
        cases ev with
        | next d =>
          show WP (.cellWrite 6 false (.bool true) (sc.sinkNext d)) _ _
          refine wp_cellWrite h1.held ?_
          exact sinkNext_spec ok (h1.setX (by simp) (.bool true)) d
        | error e => exact sinkError_spec ok h1 e
        | complete => exact sinkCompleteForce_spec ok h1
  · rw [callOf_ge hi]
    have hlv : c.live.contains i = false := by
      cases q : c.live.contains i with
      | false => rfl
      | true => have := h.liveLt i (by simpa using q); simp only [lay] at this; omega
    simp only [switchOnNext.step, Ctl.isLive, hlv, Bool.false_eq_true, ↓reduceIte, List.append_nil]
    exact WP.done h

theorem drive_son (H : History) (s : switchOnNext.State) (out : List Ev) (w : World) (h : R s out w) :
    WP (drive (sjs 2) H) w (R (finalFrom switchOnNext.step s H) (out ++ runFrom switchOnNext.step s H)) :=
  drive_spec switchOnNext.step R (callOf (sjs 2)) step_spec H s out w h

/-! ### the program -/

/-- two plain subjects; test user 0 subscribes to `s0.switch_on_next(s1)`; then the history -/
def prog (H : History) : Prog :=
  subjsNew 2 fun sjs =>
    .obsvNew (oSwitchOnNext (sjs.getD 0 default).observable (sjs.getD 1 default).observable) fun id =>
    .userSub id noReact (drive sjs H)

def mk : Nat → (Nat → Data → Prog) × (Nat → Nat → Prog) × (Nat → Prog) := fun m =>
  if m = 0 then
    (fun serial x => .cellRead 6 false fun b => if b.toBool then sc.abortObserve serial else sc.sinkNext x,
     fun _ e => sc.sinkError e, fun serial => sc.sinkComplete serial)
  else (fun _ x => .cellWrite 6 false (.bool true) (sc.sinkNext x), fun _ e => sc.sinkError e,
        fun _ => sc.sinkCompleteForce)

def theObsv : Nat → Prog := oSwitchOnNext (sjOf 0).observable (sjOf 1).observable

theorem rel_W2 : Rel lay (fun i => decide (0 ≤ i)) [] (Ctl.init 2) ⟨.bool false, 2, 3⟩ []
    (newObsWorld sc mk (W2 lay [.bool false] theObsv) [] 0 2) :=
  CRef.rel_W2 (L := lay) [.bool false] theObsv mk (fun s => s)
    (by intro s hs; exact ⟨hs, rfl⟩) (by intro i hi; exact ⟨hi, rfl⟩) (by intro i hi; rfl)
    (by
      intro i hi
      rcases (by simp only [lay] at hi; omega : i = 0 ∨ i = 1) with e | e <;> subst e <;> rfl)

theorem prog_spec (H : History) :
    WP (prog H) {} (R (finalFrom switchOnNext.step switchOnNext.init H) (switchOnNext.run 2 H)) := by
  have ok := lay_ok
  unfold prog
  refine wp_subjsNew 2 0 {} _ _ rfl rfl ?_
  refine wp_obsvNew ?_
  refine wp_userSub (f := theObsv) rfl ?_
  simp only [theObsv, oSwitchOnNext, sctlNew]
  refine wp_cellNew (wp_cellNew (wp_slotNew (wp_obsSetOnUnsub rfl (wp_cellNew ?_))))
  have e2 : ∀ (W : World) p Q, W = W2 lay [.bool false] theObsv → WP p (W2 lay [.bool false] theObsv) Q →
      WP p W Q := fun W p Q q hq => q ▸ hq
  refine e2 _ _ _ ?_ ?_
  · simp [W2, World.setObs, rootObs, Lay.sc, lay, subjCells, theObsv, List.range'_succ, List.replicate_succ]
  show WP (newObservers sc 2 mk fun os =>
    (sjOf 0).observable.sub (os.getD 0 0) ;; (sjOf 1).observable.sub (os.getD 1 0)) _ _
  refine wp_newObservers sc mk 2 _ _ [] 0 _ rfl (by simp [sc]) (W2_ser lay _ _) (W2_map lay _ _)
    (by intro p hp; cases hp) ⟨_, rfl, rfl⟩ ?_
  show WP ((sjOf 0).observable.sub (lay.ob 0) ;; (sjOf 1).observable.sub (lay.ob 1)) _ _
  apply WP.seq
  refine (subscribe_src ok rel_W2 (j := 0) (by simp [lay]) (by simp) (by simp [Ctl.init])).conseq fun w1 h1 => ?_
  refine (subscribe_src ok h1 (j := 1) (by simp [lay]) (by simp) (by simp [Ctl.init])).conseq fun w2 h2 => ?_
  refine wp_userReady ?_
  have h3 := (h2.setUser (fun u => { u with ready := true }) (fun _ => rfl)).fresh_congr (fun _ => false)
    (fun i hi => by
      rcases (by simp only [lay] at hi; omega : i = 0 ∨ i = 1) with e | e <;> subst e <;> simp)
  have h4 := drive_son H switchOnNext.init _ _ h3
  simpa [switchOnNext.run, sjs] using h4

/-- **C03-REF, switch_on_next.**  For EVERY history over the two subjects the program ends, for all sufficient
    fuel, with `status = ok`, no guard held, the user's log equal to the output of `Comb.switchOnNext`, and subject
    `i` holding one observer iff `i` is in the machine's final `live` set. -/
theorem switch_on_next_refines (H : History) :
    ∃ n0, ∀ fuel, n0 ≤ fuel →
      Agrees 2 (run fuel [prog H] {}) (finalFrom switchOnNext.step switchOnNext.init H).ctl.live
        (switchOnNext.run 2 H) := by
  obtain ⟨n0, w, hrel, hrun⟩ := WP.run_top (prog_spec H)
  exact ⟨n0, fun fuel hf => by rw [hrun fuel hf]; exact hrel.agrees⟩

/-! non-vacuity: the source's first item passes, the target takes over, the source aborts itself on its next item -/
def demo : History :=
  [(0, .next (.int 1)), (1, .next (.int 10)), (0, .next (.int 2)), (1, .next (.int 11)), (0, .next (.int 3)),
   (1, .complete), (1, .next (.int 12))]

example : (run 3000 [prog demo] {}).status = .ok := by decide +kernel
example : logOf (run 3000 [prog demo] {}) 0 = [.next (.int 1), .next (.int 10), .next (.int 11), .complete] := by
  decide +kernel
example : switchOnNext.run 2 demo = [.next (.int 1), .next (.int 10), .next (.int 11), .complete] := by
  decide +kernel
example : (List.range 2).map (regCount (run 3000 [prog (demo.take 3)] {})) = [0, 1] ∧
    (finalFrom switchOnNext.step switchOnNext.init (demo.take 3)).ctl.live = [1] := by decide +kernel

#print axioms switch_on_next_refines

end Rx.CRef.SwitchOnNext
