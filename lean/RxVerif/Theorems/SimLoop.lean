import RxVerif.Theorems.SimMacro
/-
SIM, part 3: the three closures `stdOp` hands to `new_observer` (src/operators/*.rs: every standard
operator has this shape), and the polite script source driving them (`scriptLoop`).
-/
namespace Rx.Sim

/-- the state cell round-trips: what a closure writes is what the next closure reads -/
def _root_.Rx.Kernel.WellEncoded {σ} (K : Kernel σ) : Prop := ∀ st, K.dec (K.enc st) = st

/-- the machine-exact variant of `Kernel.feed` / `Kernel.finish` / `Kernel.runFull` (only `abortSelf`
    differs, see `actX`) -/
def feedX {σ} (K : Kernel σ) : σ → KRun → List Data → σ × KRun
  | st, r, [] => (st, r)
  | st, r, x :: xs =>
    if r.cancelled then (st, r)
    else feedX K (K.onNext st x).1 (actsX r (K.onNext st x).2) xs

def finishX {σ} (K : Kernel σ) (st : σ) (r : KRun) : Ending → KRun
  | .silent => r
  | .complete => if r.cancelled then r else actsX r (K.onComplete st).2
  | .error e => if r.cancelled then r else actsX r (K.onError st e).2

def runFullX {σ} (K : Kernel σ) (s : Stream) : KRun :=
  finishX K (feedX K K.init {} s.1).1 (feedX K K.init {} s.1).2 s.2

/-- the closures stored in the upstream observer are the ones `stdOp K` builds -/
structure Handlers {σ} (K : Kernel σ) (c : Cfg) : Prop where
  hn : ∀ x, c.hn x = .cellRead c.cc false fun st =>
      .cellWrite c.cc false (K.enc (K.onNext (K.dec st) x).1)
        (holdAcq K.holdNext c.cc ;; actsP c.sc 0 (K.onNext (K.dec st) x).2 ;; holdRel K.holdNext c.cc)
  he : ∀ e, c.he e = .cellRead c.cc false fun st =>
      .cellWrite c.cc false (K.enc (K.onError (K.dec st) e).1) (actsP c.sc 0 (K.onError (K.dec st) e).2)
  hc : c.hc = .cellRead c.cc false fun st =>
      .cellWrite c.cc false (K.enc (K.onComplete (K.dec st)).1)
        (holdAcq K.holdComplete c.cc ;; actsP c.sc 0 (K.onComplete (K.dec st)).2 ;;
          holdRel K.holdComplete c.cc)

section handlers
variable {σ : Type} {K : Kernel σ} {c : Cfg} {t : Bool}

/-- the actions of one closure, run under the guard the Rust closure keeps alive on its state cell -/
theorem held_body (ok : c.Ok) (hd : Hold) (as : List Act) (r : KRun) (cs : Data) (w : World)
    (h : RepK c t r [] cs w) :
    WP (holdAcq hd c.cc ;; actsP c.sc 0 as ;; holdRel hd c.cc) w (RepK c t (actsX r as) [] cs) := by
  cases hd with
  | none =>
    simp only [holdAcq, holdRel]
    apply WP.seq
    apply WP.done
    apply WP.seq
    apply (acts_spec ok (OnlyCc.nil c) as r w h).conseq
    intro w1 h1
    exact WP.done h1
  | read =>
    simp only [holdAcq, holdRel]
    apply WP.seq
    unfold RepK at h
    apply rep_lockAcq h rfl
    intro w1 h1
    apply WP.done
    apply WP.seq
    apply (acts_spec (t := t) ok (OnlyCc.one c false) as r w1 h1).conseq
    intro w2 h2
    unfold RepK at h2
    apply rep_lockRel h2
    intro w3 h3
    exact WP.done h3
  | write =>
    simp only [holdAcq, holdRel]
    apply WP.seq
    unfold RepK at h
    apply rep_lockAcq h rfl
    intro w1 h1
    apply WP.done
    apply WP.seq
    apply (acts_spec (t := t) ok (OnlyCc.one c true) as r w1 h1).conseq
    intro w2 h2
    unfold RepK at h2
    apply rep_lockRel h2
    intro w3 h3
    exact WP.done h3

theorem hn_spec (ok : c.Ok) (hh : Handlers K c) (hK : Kernel.WellEncoded K) (st : σ) (x : Data) (r : KRun)
    (w : World) (h : RepK c t r [] (K.enc st) w) :
    WP (c.hn x) w (RepK c t (actsX r (K.onNext st x).2) [] (K.enc (K.onNext st x).1)) := by
  rw [hh.hn]
  unfold RepK at h
  apply rep_readSt h
  simp only [hK st]
  apply rep_writeSt ok h
  intro w1 h1
  exact held_body ok _ _ r _ w1 h1

theorem hc_spec (ok : c.Ok) (hh : Handlers K c) (hK : Kernel.WellEncoded K) (st : σ) (r : KRun)
    (w : World) (h : RepK c t r [] (K.enc st) w) :
    WP c.hc w (RepK c t (actsX r (K.onComplete st).2) [] (K.enc (K.onComplete st).1)) := by
  rw [hh.hc]
  unfold RepK at h
  apply rep_readSt h
  simp only [hK st]
  apply rep_writeSt ok h
  intro w1 h1
  exact held_body ok _ _ r _ w1 h1

theorem he_spec (ok : c.Ok) (hh : Handlers K c) (hK : Kernel.WellEncoded K) (st : σ) (e : Nat) (r : KRun)
    (w : World) (h : RepK c t r [] (K.enc st) w) :
    WP (c.he e) w (RepK c t (actsX r (K.onError st e).2) [] (K.enc (K.onError st e).1)) := by
  rw [hh.he]
  unfold RepK at h
  apply rep_readSt h
  simp only [hK st]
  apply rep_writeSt ok h
  intro w1 h1
  exact acts_spec ok (OnlyCc.nil c) _ r w1 h1

theorem finishX_cancelled (st : σ) (r : KRun) (e : Ending) (h : r.cancelled = true) :
    finishX K st r e = r := by
  cases e <;> simp [finishX, h]

/-- a cancelled run looks the same whether or not the upstream observer also saw its terminal -/
theorem RepK.cancelled_any {r : KRun} {H cs w} (t' : Bool) (hc : r.cancelled = true)
    (h : RepK c t r H cs w) : RepK c t' r H cs w := by
  simpa [RepK, hc] using h

/-- the polite script: `is_subscribed` probe, then delivery into the upstream observer -/
theorem loop_spec (ok : c.Ok) (hh : Handlers K c) (hK : Kernel.WellEncoded K) (tag : Nat) (e : Ending)
    (xs : List Data) : ∀ (st : σ) (r : KRun) (w : World), RepK c false r [] (K.enc st) w →
      WP (scriptLoop tag true c.U (xs.map .next ++ e.toEvs)) w
        (fun w' => ∃ cs', RepK c (e != .silent)
          (finishX K (feedX K st r xs).1 (feedX K st r xs).2 e) [] cs' w') := by
  induction xs with
  | nil =>
    intro st r w h
    simp only [List.map_nil, List.nil_append, feedX]
    cases e with
    | silent =>
      simp only [Ending.toEvs, scriptLoop, finishX]
      exact WP.done ⟨_, h⟩
    | complete =>
      simp only [Ending.toEvs, scriptLoop, finishX, emitEv]
      have h0 := h
      unfold RepK at h
      apply rep_isSubU h
      apply rep_probe h
      intro w1 h1
      cases hc : r.cancelled with
      | true =>
        simp only [Bool.true_or, Bool.not_true, Bool.and_self, ↓reduceIte, Bool.not_false]
        apply WP.done
        have h1' : RepK c false r [] (K.enc st) w1 := h1
        exact ⟨_, h1'.cancelled_any _ hc⟩
      | false =>
        simp only [Bool.or_self, Bool.not_false, Bool.not_true, Bool.and_false, Bool.false_eq_true,
          ↓reduceIte]
        rw [hc] at h1
        simp only [Bool.or_self, Bool.not_false] at h1
        apply WP.seq
        apply rep_completeU_live ok h1
        intro w2 h2
        have h2' : RepK c true r [] (K.enc st) w2 := by simpa [RepK, hc] using h2
        apply (hc_spec ok hh hK st r w2 h2').conseq
        intro w3 h3
        apply WP.done
        apply WP.done
        exact ⟨_, h3⟩
    | error e =>
      simp only [Ending.toEvs, scriptLoop, finishX, emitEv]
      have h0 := h
      unfold RepK at h
      apply rep_isSubU h
      apply rep_probe h
      intro w1 h1
      cases hc : r.cancelled with
      | true =>
        simp only [Bool.true_or, Bool.not_true, Bool.and_self, ↓reduceIte, Bool.not_false]
        apply WP.done
        have h1' : RepK c false r [] (K.enc st) w1 := h1
        exact ⟨_, h1'.cancelled_any _ hc⟩
      | false =>
        simp only [Bool.or_self, Bool.not_false, Bool.not_true, Bool.and_false, Bool.false_eq_true,
          ↓reduceIte]
        rw [hc] at h1
        simp only [Bool.or_self, Bool.not_false] at h1
        apply WP.seq
        apply rep_errorU_live ok h1
        intro w2 h2
        have h2' : RepK c true r [] (K.enc st) w2 := by simpa [RepK, hc] using h2
        apply (he_spec ok hh hK st e r w2 h2').conseq
        intro w3 h3
        apply WP.done
        apply WP.done
        exact ⟨_, h3⟩
  | cons x xs ih =>
    intro st r w h
    simp only [List.map_cons, List.cons_append, scriptLoop, feedX, emitEv]
    have h0 := h
    unfold RepK at h
    apply rep_isSubU h
    apply rep_probe h
    intro w1 h1
    cases hc : r.cancelled with
    | true =>
      simp only [Bool.true_or, Bool.not_true, Bool.and_self, ↓reduceIte, Bool.not_false]
      apply WP.done
      rw [finishX_cancelled _ _ _ hc]
      have h1' : RepK c false r [] (K.enc st) w1 := h1
      exact ⟨_, h1'.cancelled_any _ hc⟩
    | false =>
      simp only [Bool.or_self, Bool.not_false, Bool.not_true, Bool.and_false, Bool.false_eq_true,
        ↓reduceIte]
      rw [hc] at h1
      simp only [Bool.or_self, Bool.not_false] at h1
      apply WP.seq
      apply rep_nextU_live h1
      have h1' : RepK c false r [] (K.enc st) w1 := by simpa [RepK, hc] using h1
      apply (hn_spec ok hh hK st x r w1 h1').conseq
      intro w2 h2
      apply WP.done
      exact ih _ _ w2 h2

end handlers

end Rx.Sim
