import RxVerif.Machine.Closed
/-
C05 — Unsubscribe stops delivery, is idempotent, and is reflected by `is_subscribed` (sequential part;
the cross-thread clause is `Theorems/C05c.lean` on the lock-granularity LTS).

Generic over every client program of the machine, as C01.
-/
namespace Rx.C05
open Rx

/-- no observer holds a callback of subscriber `s` any more -/
def Silent (w : World) (s : Nat) : Prop := ∀ (o : Nat) (x : Obs), w.obs[o]? = some x → ¬ x.holds s

/-- the invariant of "silenced subscriber `s` whose log is `L`" -/
def Silenced (s : Nat) (L : List Ev) (w : World) : Prop :=
  Inv w ∧ s < w.users.length ∧ Silent w s ∧ logOf w s = L

theorem silenced_closed (s : Nat) (L : List Ev) : Closed (Silenced s L) where
  status := fun w st ⟨h, a, b, c⟩ => ⟨inv_closed.status w st h, a, b, c⟩
  core := fun w w' ce ⟨h, a, b, c⟩ =>
    ⟨Inv.of_coreEq ce h, by rw [ce.len]; exact a, by intro o x hx; rw [ce.obs] at hx; exact b o x hx,
     by simp [logOf, ce.trace] at c ⊢; exact c⟩
  setObs := fun w o g hg ⟨h, a, b, c⟩ => by
    refine ⟨inv_setObs w o g hg h, a, ?_, c⟩
    intro o' x hx hh
    rw [getElem?_setObs] at hx
    split at hx
    · cases hy : w.obs[o']? with
      | none => simp [hy] at hx
      | some y => simp [hy] at hx; subst hx; exact b o' y hy (hg.holds y s hh)
    · exact b o' x hx hh
  pushCode := fun w n e c ⟨h, a, b, cc⟩ => by
    refine ⟨inv_push_code w n e c h, a, ?_, cc⟩
    intro o x hx hh
    rcases getElem?_append_singleton _ _ _ _ hx with h1 | ⟨_, h2⟩
    · exact b o x h1 hh
    · subst h2; simp [Obs.holds, HN.user?, HE.user?, HC.user?] at hh
  pushUser := fun w u hu ⟨h, a, b, c⟩ => by
    refine ⟨inv_push_user w u hu h, by simp only [List.length_append, List.length_singleton]; omega, ?_, c⟩
    intro o x hx hh
    rcases getElem?_append_singleton _ _ _ _ hx with h1 | ⟨_, h2⟩
    · exact b o x h1 hh
    · subst h2
      simp [Obs.holds, HN.user?, HE.user?, HC.user?] at hh
      omega
  probe := fun w t d ⟨h, a, b, c⟩ => ⟨inv_emit_probe w t d h, a, b, by rw [logOf_emit_probe]; exact c⟩
  next := fun w o x s' d ⟨h, a, b, c⟩ hx hn => by
    have hh := holds_next hn
    have hne : s' ≠ s := fun e => b o x hx (e ▸ hh)
    exact ⟨inv_closed.next w o x s' d h hx hn, a, b, by rw [logOf_emit_other _ _ _ _ hne]; exact c⟩
  term := fun w o x s' e ⟨h, a, b, c⟩ hx hh he => by
    have hne : s' ≠ s := fun e' => b o x hx (e' ▸ hh)
    refine ⟨inv_closed.term w o x s' e h hx hh he, a, ?_, by rw [logOf_emit_other _ _ _ _ hne]; exact c⟩
    intro o' x' hx' hh'
    have hx'' : (w.setObs o Obs.cleared).obs[o']? = some x' := hx'
    rw [getElem?_setObs] at hx''
    split at hx''
    · cases hy : w.obs[o']? with
      | none => simp [hy] at hx''
      | some y => simp [hy] at hx''; subst hx''; exact not_holds_cleared y s hh'
    · exact b o' x' hx'' hh'

/-- **C05, "no event after unsubscribe / after the terminal".**  Once no observer holds a callback of
    subscriber `s`, no program — whatever operators, sources, subjects or callbacks it consists of —
    ever delivers to `s` again, and `s` stays silenced. -/
theorem silent_forever (w : World) (s : Nat) (h : Inv w) (hs : s < w.users.length) (hq : Silent w s)
    (fuel : Nat) (progs : List Prog) :
    Silent (run fuel progs w) s ∧ logOf (run fuel progs w) s = logOf w s := by
  have := run_closed (silenced_closed s (logOf w s)) fuel progs w ⟨h, hs, hq, rfl⟩
  exact ⟨this.2.2.1, this.2.2.2⟩

/-- the step `Subscription::unsubscribe` performs on the root observer silences the subscriber -/
theorem unsub_silences (w : World) (s : Nat) (u : User) (h : Inv w) (hu : w.users[s]? = some u) :
    Silent (w.setObs u.obs fun x => { x.cleared with onUnsub := none }) s := by
  intro o x hx hh
  rw [getElem?_setObs] at hx
  split at hx
  · cases hy : w.obs[o]? with
    | none => simp [hy] at hx
    | some y =>
      simp [hy] at hx; subst hx
      simp [Obs.holds, Obs.cleared, HN.user?, HE.user?, HC.user?] at hh
  · rename_i hne
    have := h.owner o x s hx hh
    simp [roots, hu] at this
    exact hne this

/-- a delivered terminal silences the subscriber as well -/
theorem terminal_silences (w : World) (s : Nat) (h : Inv w) (ht : terminated (logOf w s) = true) :
    Silent w s := by
  intro o x hx hh
  have := h.live o x s hx hh
  rw [ht] at this; exact absurd this (by simp)

/-- **C05, unsubscribe as a whole.**  Running `Subscription::unsubscribe` of subscriber `s` (handle
    available, not yet used) and then ANY further programs: the subscriber's log never grows again. -/
theorem nothing_after_unsubscribe (w : World) (s : Nat) (u : User) (h : Inv w)
    (hu : w.users[s]? = some u) (hr : u.ready = true) (ha : u.armed = true)
    (fuel : Nat) (k : Prog) (rest : List Prog) :
    logOf (run (fuel + 1) (.userUnsub s k :: rest) w) s = logOf w s := by
  have hs : s < w.users.length := by
    rcases Nat.lt_or_ge s w.users.length with hlt | hge
    · exact hlt
    · rw [List.getElem?_eq_none hge] at hu; exact absurd hu (by simp)
  simp only [run, hu, hr, ha, Bool.and_self, if_true]
  -- the machine now runs `obsUnsub u.obs k`; one more unit of fuel performs the clearing step
  let w1 := w.setUser s fun u => { u with armed := false }
  have h1 : Inv w1 := Inv.of_coreEq (w := w) ⟨rfl, roots_setUser w _ _ (fun _ => rfl), rfl⟩ h
  have hu1 : w1.users[s]? = some { u with armed := false } := by
    simp [w1, World.setUser, List.getElem?_modify, hu]
  cases fuel with
  | zero => simp only [run]; rfl
  | succ n =>
    have hl1 : logOf w1 s = logOf w s := rfl
    have hs1 : s < w1.users.length := by simpa [w1, World.setUser] using hs
    simp only [run]
    split
    · rename_i x hx
      have hsil := unsub_silences w1 s _ h1 hu1
      have hinv := inv_setObs w1 u.obs (fun x => { x.cleared with onUnsub := none }) (fun _ => Or.inr ⟨rfl, rfl, rfl⟩) h1
      split <;>
        exact ((silent_forever _ s hinv (by simpa [World.setObs] using hs1) hsil n _).2).trans hl1
    · rename_i hnone
      -- the root observer always exists; this branch is impossible
      exfalso
      have := h1.rootsIn s u.obs (by simp [roots, hu1])
      have hx : w1.obs[u.obs]? ≠ none := by
        rw [List.getElem?_eq_getElem this]; simp
      exact hx hnone

/-- **C05, idempotence.**  A second `unsubscribe` (or one after the handle's callable was taken) is a
    no-op of the machine. -/
theorem unsubscribe_idempotent (w : World) (s : Nat) (u : User) (hu : w.users[s]? = some u)
    (ha : u.armed = false) (fuel : Nat) (k : Prog) (rest : List Prog) :
    run (fuel + 1) (.userUnsub s k :: rest) w = run fuel (k :: rest) w := by
  simp [run, hu, ha]

/-- **C05, `is_subscribed` after the end.**  For a silenced subscriber (unsubscribed, or terminal
    delivered) `Subscription::is_subscribed` answers `false`, now and after any further programs. -/
theorem is_subscribed_false_of_silent (w : World) (s : Nat) (u : User) (x : Obs) (h : Inv w)
    (hu : w.users[s]? = some u) (hx : w.obs[u.obs]? = some x) (hq : Silent w s) : x.isSub = false := by
  have hroot := h.root s u.obs x (by simp [roots, hu]) hx
  have hnh := hq u.obs x hx
  rcases hroot.1 with hn | hn
  · simp [Obs.isSub, hn]
  · exact absurd (holds_next hn) hnh

theorem is_subscribed_false_forever (w : World) (s : Nat) (h : Inv w) (hs : s < w.users.length)
    (hq : Silent w s) (fuel : Nat) (progs : List Prog) (u : User) (x : Obs)
    (hu : (run fuel progs w).users[s]? = some u) (hx : (run fuel progs w).obs[u.obs]? = some x) :
    x.isSub = false :=
  is_subscribed_false_of_silent _ s u x (run_closed inv_closed fuel progs w h) hu hx
    (silent_forever w s h hs hq fuel progs).1

end Rx.C05

-- non-vacuity: a hot source (a closure slot playing the subject), subscriber 0 unsubscribes, the source
-- emits again: nothing arrives, `is_subscribed` is false
open Rx in
example :
    let prog : Prog :=
      .cellNew (.int 0) fun c =>
      .obsvNew (fun o => .cellWrite c false (.int o) .done) fun id =>
      .userSub id (fun _ _ _ => .done) <|
      .cellRead c false fun o => .obsNext o.toInt.toNat (.int 1) <|
      .userUnsub 0 <|
      .obsNext o.toInt.toNat (.int 2) <| .userIsSub 0 fun b => .probe 0 (.bool b) .done
    (run 100 [prog] {}).trace = [.ev 0 (.next (.int 1)), .probe 0 (.bool false)] := by
  decide

#print axioms Rx.C05.silent_forever
#print axioms Rx.C05.nothing_after_unsubscribe
#print axioms Rx.C05.unsubscribe_idempotent
#print axioms Rx.C05.is_subscribed_false_forever
#print axioms Rx.C05.terminal_silences
