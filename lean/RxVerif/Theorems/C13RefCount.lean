import RxVerif.Theorems.C13RefPublishMain
/-
C13-REF, ref_count — model A's `refCountHooks` (Machine/Subjects.lean, ref_count.rs:36-92) over a plain hot source
refines `ConnM` (kind `.refCount`, source `.hot`).

World of `progRC`: cells 0,1 = hot source H, 2,3 = the connectable's subject S, 4 = `connecting`, 5 = `subscription`
(`Option<Subscription>`), 6 = `cancelled`, 7+i = armed flag of the i-th source subscription; slots 0,1 = hooks of H
(never set), 2 = S.on_subscribe, 3 = S.on_unsubscribe (the two closures of ref_count.rs).
-/
namespace Rx.CRef
open Rx.Sim Rx.SubjM Rx.Ref Rx.RefR

def rcC : RefC := ⟨4, 5, 6⟩
def acellC (i : Nat) : Nat := 7 + i
def srcC : Obsv := fun o => .obsvSub 0 o .done

/-- ref_count.rs:41-50 -/
def onUnsubHook (rc : RefC) : Data → Prog := fun count =>
  if count.toInt == 0 then .cellRead rc.subscription false fun h =>
    match h with
    | .lnil => .cellWrite rc.cancelled false (.bool true) .done
    | h => subUnsub h
  else .done

/-- ref_count.rs:57-90 -/
def onSubHook (rc : RefC) (src : Obsv) (next : Data → Prog) (error : Nat → Prog) (complete : Prog) : Data → Prog :=
  fun count =>
    if count.toInt == 1 then
      .cellRead rc.connected false fun c =>
        if c.toBool then .done else
        .cellWrite rc.connected false (.bool true) <|
        subscribeWith src next error complete fun h => .cellWrite rc.subscription false h <|
          .cellRead rc.cancelled false fun c => if c.toBool then subUnsub h else .done
    else .done

theorem refCountHooks_eq (rc : RefC) (src : Obsv) (a b : Nat) (n : Data → Prog) (e : Nat → Prog) (c : Prog) :
    refCountHooks rc src a b n e c = .slotSet b (onUnsubHook rc) (.slotSet a (onSubHook rc src n e c) .done) := rfl

/-- the handle stored in `self.subscription` -/
def subCell (cobs : List Nat) : Option Nat → Data
  | none => .lnil
  | some i => .pair (.int (rootAt cobs i : Nat)) (.int (acellC i : Nat))

structure ExtrasC (cobs : List Nat) (Hd : List (LockId × Bool)) (cg : Bool) (sb : Option Nat) (cn : Bool)
    (w : World) : Prop where
  held : w.held = Hd
  slot0 : w.slots[0]? = some none
  slot1 : w.slots[1]? = some none
  slot2 : w.slots[2]? = some (some (onSubHook rcC srcC fnP feP fcP))
  slot3 : w.slots[3]? = some (some (onUnsubHook rcC))
  obsvS : w.obsvs[1]? = some Sp.observable
  cellG : w.cells[4]? = some (.bool cg)
  cellB : w.cells[5]? = some (subCell cobs sb)
  cellN : w.cells[6]? = some (.bool cn)
  nCells : w.cells.length = 7 + cobs.length
  sbLt : ∀ i, sb = some i → i < cobs.length

theorem ExtrasC.touch {cobs Hd cg sb cn w w' J K} (h : ExtrasC cobs Hd cg sb cn w) (t : Touch J K w w')
    (hK : ¬ K 4 ∧ ¬ K 5 ∧ ¬ K 6) : ExtrasC cobs Hd cg sb cn w' :=
  ⟨t.held ▸ h.held, t.slots ▸ h.slot0, t.slots ▸ h.slot1, t.slots ▸ h.slot2, t.slots ▸ h.slot3,
   t.obsvs ▸ h.obsvS, by rw [t.cells _ hK.1]; exact h.cellG,
   by rw [t.cells _ hK.2.1]; exact h.cellB, by rw [t.cells _ hK.2.2]; exact h.cellN, t.cellsLen ▸ h.nCells, h.sbLt⟩

/-- the users' side of a ref_count world (the three flags are constants of a broadcast) -/
def URc (roots cobs : List Nat) (pend : Option Nat) (Hd : List (LockId × Bool)) (cg : Bool) (sb : Option Nat)
    (cn : Bool) (w : World) (s : SubjM.State) : Prop :=
  Glob roots cobs w ∧ UsersPart Sp roots pend w s.observers s.serial s.obs ∧ ExtrasC cobs Hd cg sb cn w

/-- the simulation relation for `ref_count` over a hot source; `pend` / `Hd` ≠ none / [] only inside a hook -/
def RelC' (roots cobs : List Nat) (armed : List Bool) (pend : Option Nat) (Hd : List (LockId × Bool)) (w : World)
    (st : ConnM.State) : Prop :=
  HotInv (URc roots cobs pend Hd st.connecting st.subscription st.cancelled) Hp fnP feP fcP acellC roots cobs w
    (liveFrom 0 cobs st.conns) st armed

theorem URc.conn {roots cobs pend Hd cg sb cn w s} (h : URc roots cobs pend Hd cg sb cn w s) (i : Nat)
    (hi : i < cobs.length) : URc roots cobs pend Hd cg sb cn (w.setObs (rootAt cobs i) Obs.cleared) s := by
  obtain ⟨g, U, X⟩ := h
  refine ⟨g.touch (Touch.setObs (J := fun _ => True) (K := NoCell) w _ _ trivial), ?_, ?_⟩
  · exact U.frame rfl rfl rfl
      (fun u hu => getElem?_setObs_other _ (fun e => g.root_ne_cob hu hi e.symm)) (fun _ => rfl)
  · exact { X with }

theorem URc.cell0 {roots cobs pend Hd cg sb cn w s} (h : URc roots cobs pend Hd cg sb cn w s) (d : Data) :
    URc roots cobs pend Hd cg sb cn { w with cells := w.cells.set Hp.observers d } s := by
  obtain ⟨g, U, X⟩ := h
  refine ⟨⟨g.status, g.nObs, g.rootsLt, g.cobsLt, g.nodup⟩, ?_, ?_⟩
  · exact U.frame (set_get_other _ (by decide)) (set_get_other _ (by decide)) rfl (fun _ _ => rfl) (fun _ => rfl)
  · exact
      { X with
        cellG := by show (w.cells.set _ _)[4]? = _; rw [set_get_other _ (by decide)]; exact X.cellG
        cellB := by show (w.cells.set _ _)[5]? = _; rw [set_get_other _ (by decide)]; exact X.cellB
        cellN := by show (w.cells.set _ _)[6]? = _; rw [set_get_other _ (by decide)]; exact X.cellN
        nCells := by simp [X.nCells] }

theorem URc.emit {roots cobs pend Hd cg sb cn w s} (ev : Ev) (hh : SlotReads w.held)
    (h : URc roots cobs pend Hd cg sb cn w s) :
    WP (codeBody ev fnP feP fcP) w (fun w' => URc roots cobs pend Hd cg sb cn w' (emit .plain s ev) ∧
      Touch (InRoots roots) (IsCell 2) w w') := by
  obtain ⟨g, U, X⟩ := h
  rw [codeBody_P]
  refine (emitS_spec hh g U ev).conseq ?_
  rintro w' ⟨U', t⟩
  exact ⟨⟨g.touch t, U', X.touch t ⟨(by intro e; cases e), (by intro e; cases e), (by intro e; cases e)⟩⟩, t⟩

theorem hotEmit_flags (k : ConnM.Kind) (st : ConnM.State) (ev : Ev) :
    (ConnM.hotEmit k st ev).connecting = st.connecting ∧ (ConnM.hotEmit k st ev).cancelled = st.cancelled ∧
    (ConnM.hotEmit k st ev).subscription = st.subscription := ConnM.foldIdx_flags k ev _ st

/-- a hot source event: `H.next/error/complete` = `ConnM.hotEmit` -/
theorem srcC_spec {roots cobs armed pend Hd w st} (h : RelC' roots cobs armed pend Hd w st) (ev : Ev) :
    WP (evCall Hp ev) w (fun w' => RelC' roots cobs armed pend Hd w' (ConnM.step .refCount .hot st (srcEv ev))) := by
  have : ConnM.step .refCount .hot st (srcEv ev) = ConnM.hotEmit .refCount st ev := by cases ev <;> rfl
  rw [this]
  have hf := hotEmit_flags .refCount st ev
  unfold RelC'
  rw [hf.1, hf.2.1, hf.2.2]
  exact hotEmit_spec .refCount (H := Hp) (fn := fnP) (fe := feP) (fc := fcP) (acell := acellC) (roots := roots)
    (cobs := cobs) (UR := URc roots cobs pend Hd st.connecting st.subscription st.cancelled)
    (J := InRoots roots) (K := IsCell 2)
    (fun i hi => notInRoots_cob h.glob hi)
    ⟨by simp [IsCell, Hp], by simp [IsCell, Hp], fun i _ => by simp [IsCell, acellC]; omega⟩
    (fun i _ => by simp [acellC, Hp])
    (fun w s i hi hu => URc.conn hu i hi) (fun w s d hu => URc.cell0 hu d)
    (fun w s ev hh _ hu => URc.emit ev hh hu) ev h

end Rx.CRef
