import RxVerif.Theorems.C03RefSetup
import RxVerif.Theorems.C03
/-
C03-REF, merge: model A's `oMerge` (Machine/Lib.lean, transliterating src/operators/merge.rs) over `k` plain
hot subjects REFINES the pure history machine `Comb.merge`.
-/
namespace Rx.CRef.Merge
open Rx.Sim Rx.Ref Rx.Comb Rx.CRef

/-- the controller `oMerge` allocates after `k` subjects -/
def scOf (k : Nat) : Sctl := ⟨0, 2 * k, 2 * k + 1, 2 * k⟩

/-- merge.rs:27-47: observers are created with serials `0..k-1` and popped from the back, so source `i` gets
    serial `k-1-i` = observer `k-i`; all carry the same closures -/
def lay (k : Nat) : Lay where
  k := k
  ser i := k - 1 - i
  ob i := k - i
  hn _ d := (scOf k).sinkNext d
  he _ e := (scOf k).sinkError e
  hc i := (scOf k).sinkComplete (k - 1 - i)

theorem lay_ok (k : Nat) : (lay k).Ok where
  obPos := by intro i hi; simp only [lay] at *; omega
  obInj := by intro i j hi hj h; simp only [lay] at *; omega
  serInj := by intro i j hi hj h; simp only [lay] at *; omega

abbrev R (k : Nat) (c : Ctl) (out : List Ev) (w : World) : Prop := Rel (lay k) (fun _ => false) [] c ⟨.unit, k, 1 + k⟩ out w

/-- one history entry: `Subject::next/error/complete` on source `p.1` = `Comb.merge.step` -/
theorem step_spec (k : Nat) (c : Ctl) (out : List Ev) (w : World) (p : Nat × Ev) (h : R k c out w) :
    WP (callOf (sjs k) p) w (R k (merge.step c p).1 (out ++ (merge.step c p).2)) := by
  obtain ⟨i, ev⟩ := p
  have ok := lay_ok k
  rcases Nat.lt_or_ge i k with hi | hi
  · rw [callOf_lt hi]
    cases hlv : c.live.contains i with
    | false =>
      simp only [merge.step, Ctl.isLive, hlv, Bool.false_eq_true, ↓reduceIte, List.append_nil]
      exact src_dead h hi (by rw [hlv]; rfl) ev
    | true =>
      simp only [merge.step, Ctl.isLive, hlv, ↓reduceIte]
      refine src_live ok h hi hlv rfl ev fun w1 h1 => ?_
      cases ev with
      | next d => exact sinkNext_spec ok h1 d
      | error e => exact sinkError_spec ok h1 e
      | complete => exact sinkComplete_spec ok h1 hi
  · rw [callOf_ge hi]
    have hlv : c.live.contains i = false := by
      cases q : c.live.contains i with
      | false => rfl
      | true => have := h.liveLt i (by simpa using q); simp only [lay] at this; omega
    simp only [merge.step, Ctl.isLive, hlv, Bool.false_eq_true, ↓reduceIte, List.append_nil]
    exact WP.done h

/-- the whole history -/
theorem drive_merge (k : Nat) (H : History) (c : Ctl) (out : List Ev) (w : World) (h : R k c out w) :
    WP (drive (sjs k) H) w (R k (finalFrom merge.step c H) (out ++ runFrom merge.step c H)) :=
  drive_spec merge.step (R k) (callOf (sjs k)) (step_spec k) H c out w h

/-! ### the program -/

/-- `n+1` plain subjects; test user 0 subscribes to `s0.merge(&[s1, .., sn])`; then the history -/
def prog (n : Nat) (H : History) : Prog :=
  subjsNew (n + 1) fun sjs =>
    .obsvNew (oMerge (sjs.headD default).observable (sjs.tail.map Subj.observable)) fun id =>
    .userSub id noReact (drive sjs H)

def mk (k : Nat) : Nat → (Nat → Data → Prog) × (Nat → Nat → Prog) × (Nat → Prog) :=
  fun _ => (fun _ x => (scOf k).sinkNext x, fun _ e => (scOf k).sinkError e, fun serial => (scOf k).sinkComplete serial)

theorem rel_W2 (k : Nat) (f : Nat → Prog) :
    Rel (lay k) (fun i => decide (0 ≤ i)) [] (Ctl.init k) ⟨.unit, k, 1 + k⟩ []
      (newObsWorld (scOf k) (mk k) (W2 (lay k) [] f) [] 0 k) :=
  CRef.rel_W2 (L := lay k) [] f (mk k) (fun s => k - 1 - s)
    (by intro s hs; simp only [lay] at *; omega) (by intro i hi; simp only [lay] at *; omega)
    (by intro i hi; simp only [lay] at *; omega) (by intro i hi; rfl)

theorem rev_os (k : Nat) : ((List.range k).map (1 + ·)).reverse = (List.range' 0 k).map (k - ·) := by
  apply List.ext_getElem
  · simp
  · intro i h1 h2
    simp only [List.length_reverse, List.length_map, List.length_range] at h1
    simp only [List.getElem_reverse, List.getElem_map, List.getElem_range, List.getElem_range', List.length_map,
      List.length_range]
    omega

theorem srcs_eq (n : Nat) :
    ((sjs (n + 1)).headD default).observable :: (sjs (n + 1)).tail.map Subj.observable =
      (List.range' 0 (n + 1)).map fun i => (sjOf i).observable := by
  simp [sjs, List.range'_succ]

theorem zip_eq (n : Nat) :
    (((sjs (n + 1)).headD default).observable :: (sjs (n + 1)).tail.map Subj.observable).zip
      ((List.range (n + 1)).map (1 + ·)).reverse =
    (List.range' 0 (n + 1)).map fun i => ((sjOf i).observable, (lay (n + 1)).ob i) := by
  rw [srcs_eq, rev_os, List.zip_map']
  rfl

theorem prog_spec (n : Nat) (H : History) :
    WP (prog n H) {} (R (n + 1) (finalFrom merge.step (Ctl.init (n + 1)) H) (merge.run (n + 1) H)) := by
  have ok := lay_ok (n + 1)
  unfold prog
  refine wp_subjsNew (n + 1) 0 {} _ _ rfl rfl ?_
  refine wp_obsvNew ?_
  refine wp_userSub (f := oMerge ((sjs (n + 1)).headD default).observable ((sjs (n + 1)).tail.map Subj.observable))
    rfl ?_
  simp only [oMerge, sctlNew]
  refine wp_cellNew (wp_cellNew (wp_slotNew (wp_obsSetOnUnsub rfl ?_)))
  have hlen : ((sjs (n + 1)).tail.map Subj.observable).length + 1 = n + 1 := by simp [sjs]
  rw [hlen]
  simp only [List.nil_append, List.length_nil, List.length_append, subjCells_length, List.length_replicate,
    List.length_cons, Nat.zero_add]
  have e2 : ∀ (W : World) p Q, W = W2 (lay (n + 1)) [] (oMerge ((sjs (n + 1)).headD default).observable
      ((sjs (n + 1)).tail.map Subj.observable)) → WP p (W2 (lay (n + 1)) [] (oMerge ((sjs (n + 1)).headD default).observable
      ((sjs (n + 1)).tail.map Subj.observable))) Q → WP p W Q := fun W p Q q hq => q ▸ hq
  refine e2 _ _ _ ?_ ?_
  · simp [W2, World.setObs, rootObs, Lay.sc, lay, scOf, sjs]
  refine wp_newObservers (scOf (n + 1)) (mk (n + 1)) (n + 1) _ _ [] 0 _ rfl (by simp [scOf]) (W2_ser _ _ _)
    (W2_map _ _ _) (by intro p hp; cases hp) ⟨_, rfl, rfl⟩ ?_
  have hol : (W2 (lay (n + 1)) [] (oMerge ((sjs (n + 1)).headD default).observable
      ((sjs (n + 1)).tail.map Subj.observable))).obs.length = 1 := rfl
  rw [hol, zip_eq]
  refine (subscribeAll_spec ok (c := Ctl.init (n + 1)) (by intro i hi; simpa [Ctl.init, lay] using hi)
    (n + 1) 0 _ (by simp [lay]) (rel_W2 _ _)).conseq fun w1 h1 => ?_
  refine wp_userReady ?_
  have h2 := h1.setUser (fun u => { u with ready := true }) (fun _ => rfl)
  have h3 := drive_merge (n + 1) H _ _ _ h2
  simpa [merge.run, sjs] using h3

/-- **C03-REF, merge.**  For EVERY history `H` (well-formed or not, source indices in range or not) the program
    "allocate `n+1` plain subjects; subscribe test user 0 to `s0.merge(&[s1..sn])`; perform `H` as
    `Subject::next/error/complete` calls" ends, for all sufficient fuel, with `status = ok`, no guard held, the user's
    log equal to the output of the pure machine `Comb.merge`, and subject `i` holding one observer iff `i` is in the
    machine's final `live` set (else none). -/
theorem merge_refines (n : Nat) (H : History) :
    ∃ n0, ∀ fuel, n0 ≤ fuel →
      Agrees (n + 1) (run fuel [prog n H] {}) (finalFrom merge.step (Ctl.init (n + 1)) H).live
        (merge.run (n + 1) H) := by
  obtain ⟨n0, w, hrel, hrun⟩ := WP.run_top (prog_spec n H)
  exact ⟨n0, fun fuel hf => by rw [hrun fuel hf]; exact hrel.agrees⟩

/-- the C03 list specification transported to model A -/
theorem merge_machine_spec (n : Nat) (H : History) (hwf : WellFormed (n + 1) H) :
    ∃ n0, ∀ fuel, n0 ≤ fuel → (run fuel [prog n H] {}).status = .ok ∧
      logOf (run fuel [prog n H] {}) 0 = mergeSpec (n + 1) H := by
  obtain ⟨n0, h⟩ := merge_refines n H
  exact ⟨n0, fun fuel hf => ⟨(h fuel hf).status, by rw [(h fuel hf).log, merge_spec _ (by omega) H hwf]⟩⟩

/-! non-vacuity: three sources; source 1 completes, keeps talking (ill-formed), source 2 errors -/
def demo : History :=
  [(0, .next (.int 1)), (2, .next (.int 2)), (1, .complete), (1, .next (.int 9)), (0, .next (.int 3)),
   (7, .next (.int 0)), (2, .error 5), (0, .next (.int 4)), (0, .complete)]

example : (run 2000 [prog 2 demo] {}).status = .ok := by decide +kernel
example : logOf (run 2000 [prog 2 demo] {}) 0 = [.next (.int 1), .next (.int 2), .next (.int 3), .error 5] := by
  decide +kernel
example : merge.run 3 demo = [.next (.int 1), .next (.int 2), .next (.int 3), .error 5] := by decide +kernel
example : (List.range 3).map (regCount (run 2000 [prog 2 (demo.take 5)] {})) = [1, 0, 1] ∧
    (finalFrom merge.step (Ctl.init 3) (demo.take 5)).live = [0, 2] := by decide +kernel
/-- a well-formed history, for the corollary -/
def demoWf : History := [(0, .next (.int 1)), (1, .complete), (2, .next (.int 2)), (0, .complete), (2, .complete)]
example : WellFormed 3 demoWf := by decide
example : logOf (run 2000 [prog 2 demoWf] {}) 0 = mergeSpec 3 demoWf := by decide +kernel

#print axioms merge_refines
#print axioms merge_machine_spec

end Rx.CRef.Merge
