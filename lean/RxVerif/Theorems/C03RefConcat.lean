import RxVerif.Theorems.C03RefMerge
/-
C03-REF, concat: model A's `oConcat` (Machine/Lib.lean, transliterating src/operators/concat.rs) over `k` plain hot
subjects REFINES the pure history machine `Comb.concat`: only source 0 is subscribed at first; the completion of the
current source creates a new inner observer and subscribes it to the next pending subject.
-/
namespace Rx.CRef.Concat
open Rx.Sim Rx.Ref Rx.Comb Rx.CRef

def scOf (k : Nat) : Sctl := ⟨0, 2 * k, 2 * k + 1, 2 * k⟩

/-- the `observables` slice: sources `1..n` -/
def others (n : Nat) : List Obsv := (sjs (n + 1)).tail.map Subj.observable

theorem others_get (n i : Nat) : (others n)[i]? = if i < n then some (sjOf (i + 1)).observable else none := by
  simp only [others, sjs, List.range'_succ, List.map_cons, List.tail_cons, List.getElem?_map]
  split
  · rename_i h; rw [List.getElem?_range' (by omega)]; simp [Nat.add_comm]
  · rename_i h; rw [List.getElem?_eq_none (by simp; omega)]; rfl

/-- concat.rs: observers are created on demand in source order: source `i` gets serial `i` = observer `i+1`; its
    completion closure carries the remaining fuel of `concatNext` (Lib.lean's bound on the queue length) -/
def lay (n : Nat) : Lay where
  k := n + 1
  ser i := i
  ob i := i + 1
  hn _ x := (scOf (n + 1)).sinkNext x
  he _ e := (scOf (n + 1)).sinkError e
  hc i := concatNext (scOf (n + 1)) (2 * (n + 1) + 2) (others n) (100000 - i)

theorem lay_ok (n : Nat) : (lay n).Ok where
  obPos := by intro i hi; simp only [lay] at *; omega
  obInj := by intro i j hi hj h; simp only [lay] at *; omega
  serInj := by intro i j hi hj h; simp only [lay] at *; exact h

structure R (n : Nat) (s : concat.State) (out : List Ev) (w : World) : Prop where
  rel : Rel (lay n) (fun i => decide (s.next ≤ i)) [] s.ctl
    ⟨.int ((s.next - 1 : Nat) : Int), s.next, s.next + 1⟩ out w
  hk : s.k = n + 1
  pos : 1 ≤ s.next
  le : s.next ≤ n + 1
  cur : ∀ i ∈ s.ctl.live, i + 1 = s.next
  regcur : ∀ i ∈ s.ctl.reg, i < s.next
  small : n + 1 ≤ 100000
  /-- once the subscriber is gone no inner observer is live (finalize has unsubscribed them all), so
      `new_observer` in the completion closure always sees a live subscriber -/
  al : s.ctl.alive = false → s.ctl.live = []

/-! the controller operations never add to `live` / `reg` -/

theorem fin_live (c : Ctl) : ∀ i ∈ c.finalize.live, i ∈ c.live := by
  intro i hi; exact (List.mem_filter.1 hi).1
theorem fin_reg (c : Ctl) : ∀ i ∈ c.finalize.reg, i ∈ c.reg := by
  intro i hi; cases hi
theorem kill_live (c : Ctl) (j : Nat) : ∀ i ∈ (c.kill j).live, i ∈ c.live := by
  intro i hi; exact (List.mem_filter.1 hi).1
theorem sinkNext_live (c : Ctl) (d : Data) : ∀ i ∈ (c.sinkNext d).1.live, i ∈ c.live := by
  intro i hi; unfold Ctl.sinkNext at hi; split at hi
  · exact hi
  · exact fin_live c i hi
theorem sinkNext_reg (c : Ctl) (d : Data) : ∀ i ∈ (c.sinkNext d).1.reg, i ∈ c.reg := by
  intro i hi; unfold Ctl.sinkNext at hi; split at hi
  · exact hi
  · cases hi
theorem sinkError_live (c : Ctl) (e : Nat) : ∀ i ∈ (c.sinkError e).1.live, i ∈ c.live := by
  intro i hi; unfold Ctl.sinkError at hi; split at hi <;> exact fin_live c i hi
theorem sinkError_reg (c : Ctl) (e : Nat) : ∀ i ∈ (c.sinkError e).1.reg, i ∈ c.reg := by
  intro i hi; unfold Ctl.sinkError at hi; split at hi <;> cases hi
theorem sinkForce_live (c : Ctl) : ∀ i ∈ c.sinkCompleteForce.1.live, i ∈ c.live := by
  intro i hi; unfold Ctl.sinkCompleteForce at hi; split at hi <;> exact fin_live c i hi
theorem sinkForce_reg (c : Ctl) : ∀ i ∈ c.sinkCompleteForce.1.reg, i ∈ c.reg := by
  intro i hi; unfold Ctl.sinkCompleteForce at hi; split at hi <;> cases hi

/-- replace the controller state by one with fewer live / registered observers -/
theorem R.shrink {n : Nat} {s : concat.State} {out out' : List Ev} {w w' : World} (h : R n s out w) (c' : Ctl)
    (hrel : Rel (lay n) (fun i => decide (s.next ≤ i)) [] c'
      ⟨.int ((s.next - 1 : Nat) : Int), s.next, s.next + 1⟩ out' w')
    (hl : ∀ i ∈ c'.live, i ∈ s.ctl.live) (hr : ∀ i ∈ c'.reg, i ∈ s.ctl.reg)
    (hal : c'.alive = false → c'.live = []) :
    R n { s with ctl := c' } out' w' :=
  ⟨hrel, h.hk, h.pos, h.le, fun i hi => h.cur i (hl i hi), fun i hi => h.regcur i (hr i hi), h.small, hal⟩

theorem fin_live_nil (c : Ctl) (h : c.live = []) : c.finalize.live = [] := by
  simp [Ctl.finalize, h]

/-- one history entry = `Comb.concat.step` -/
theorem step_spec (n : Nat) (s : concat.State) (out : List Ev) (w : World) (p : Nat × Ev) (h : R n s out w) :
    WP (callOf (sjs (n + 1)) p) w (R n (concat.step s p).1 (out ++ (concat.step s p).2)) := by
  obtain ⟨i, ev⟩ := p
  have ok := lay_ok n
  rcases Nat.lt_or_ge i (n + 1) with hi | hi
  · rw [callOf_lt hi]
    cases hlv : s.ctl.live.contains i with
    | false =>
      simp only [concat.step, Ctl.isLive, hlv, Bool.false_eq_true, ↓reduceIte, List.append_nil]
      exact (src_dead h.rel hi (by rw [hlv]; rfl) ev).conseq fun w1 h1 => { h with rel := h1 }
    | true =>
      have hcur : i + 1 = s.next := h.cur i (by simpa using hlv)
      have halive : s.ctl.alive = true := by
        cases q : s.ctl.alive with
        | true => rfl
        | false => have := h.al q; rw [this] at hlv; cases hlv
      have hkn : (s.ctl.kill i).live = [] := by
        apply List.eq_nil_iff_forall_not_mem.2
        intro j hj
        simp only [Ctl.kill, List.mem_filter, bne_iff_ne] at hj
        have := h.cur j hj.1; omega
      simp only [concat.step, Ctl.isLive, hlv, ↓reduceIte]
      refine src_live ok h.rel hi hlv (by simp; omega) ev fun w1 h1 => ?_
      cases ev with
      | next d =>
        exact (sinkNext_spec ok h1 d).conseq fun w2 h2 =>
          h.shrink _ h2 (sinkNext_live _ _) (sinkNext_reg _ _)
            (fun q => by simp [Ctl.sinkNext, halive] at q)
      | error e =>
        exact (sinkError_spec ok h1 e).conseq fun w2 h2 =>
          h.shrink _ h2 (fun j hj => kill_live _ _ _ (sinkError_live _ _ _ hj)) (sinkError_reg _ _)
            (fun _ => by unfold Ctl.sinkError; split <;> exact fin_live_nil _ hkn)
      | complete =>
        simp only [codeBody, lay, Ev.isTerminal, ↓reduceIte] at h1 ⊢
        obtain ⟨f, hf⟩ : ∃ f, 100000 - i = f + 1 := ⟨100000 - i - 1, by have := h.small; omega⟩
        rw [hf]
        simp only [concatNext]
        have hx := xc_some h1 (by simp)
        refine wp_cellRead_val h1.held hx ?_
        simp only [toNat_int]
        have hidx : s.next - 1 = i := by omega
        rw [hidx, others_get]
        by_cases hlt : s.next < s.k
        · have hin : i < n := by rw [h.hk] at hlt; omega
          simp only [hin, ↓reduceIte, hlt]
          refine wp_cellWrite h1.held ?_
          have h2 := h1.setX (by simp) (.int ((i : Int) + 1))
          have hnl : (s.ctl.kill i).live.contains s.next = false := by
            cases q : (s.ctl.kill i).live.contains s.next with
            | false => rfl
            | true => have := h.cur _ (kill_live _ _ _ (by simpa using q)); omega
          have hnr : (s.ctl.kill i).reg.contains s.next = false := by
            cases q : (s.ctl.kill i).reg.contains s.next with
            | false => rfl
            | true => have := h.regcur s.next (by simpa [Ctl.kill] using q); omega
          have h3 := newObserver_sub ok h2 halive (j := s.next) (by simp only [lay]; omega) (by simp) hnl hnr rfl rfl
            (fun _ x => (scOf (n + 1)).sinkNext x) (fun _ e => (scOf (n + 1)).sinkError e)
            (fun _ => concatNext (scOf (n + 1)) (2 * (n + 1) + 2) (others n) f)
            (by simp only [innerFull, lay]; rw [show 100000 - s.next = f by omega]; rfl)
          rw [hcur]
          simp only [List.append_nil]
          refine h3.conseq fun w3 h4 => ?_
          have hxe : Data.int ((i : Int) + 1) = .int ((s.next + 1 - 1 : Nat) : Int) := by
            congr 1; omega
          rw [hxe] at h4
          refine ⟨h4.fresh_congr _ fun j _ => ?_, h.hk, by simp, by show s.next + 1 ≤ n + 1; rw [h.hk] at hlt; omega,
            ?_, ?_, h.small, fun q => by simp [Ctl.addObserver, Ctl.kill, halive] at q⟩
          · by_cases e : j = s.next
            · subst e; simp
            · simp only [e, ↓reduceIte, decide_eq_decide]; omega
          · intro j hj
            simp only [Ctl.addObserver, Ctl.kill, List.mem_append, List.mem_filter, List.mem_singleton] at hj
            rcases hj with ⟨q, q2⟩ | q
            · have := h.cur j q; simp at q2; omega
            · rw [q]
          · intro j hj
            simp only [Ctl.addObserver, Ctl.kill, List.mem_append, List.mem_singleton] at hj
            rcases hj with q | q
            · have := h.regcur j q; show j < s.next + 1; omega
            · show j < s.next + 1; omega
        · have hin : ¬ i < n := by rw [h.hk] at hlt; omega
          simp only [hin, ↓reduceIte, hlt]
          exact (sinkCompleteForce_spec ok h1).conseq fun w2 h2 =>
            h.shrink _ h2 (fun j hj => kill_live _ _ _ (sinkForce_live _ _ hj)) (sinkForce_reg _)
              (fun _ => by unfold Ctl.sinkCompleteForce; split <;> exact fin_live_nil _ hkn)
  · rw [callOf_ge hi]
    have hlv : s.ctl.live.contains i = false := by
      cases q : s.ctl.live.contains i with
      | false => rfl
      | true => have := h.rel.liveLt i (by simpa using q); simp only [lay] at this; omega
    simp only [concat.step, Ctl.isLive, hlv, Bool.false_eq_true, ↓reduceIte, List.append_nil]
    exact WP.done h

theorem drive_concat (n : Nat) (H : History) (s : concat.State) (out : List Ev) (w : World) (h : R n s out w) :
    WP (drive (sjs (n + 1)) H) w (R n (finalFrom concat.step s H) (out ++ runFrom concat.step s H)) :=
  drive_spec concat.step (R n) (callOf (sjs (n + 1))) (step_spec n) H s out w h

/-! ### the program -/

/-- `n+1` plain subjects; test user 0 subscribes to `s0.concat(&[s1, .., sn])`; then the history -/
def prog (n : Nat) (H : History) : Prog :=
  subjsNew (n + 1) fun sjs =>
    .obsvNew (oConcat (sjs.headD default).observable (sjs.tail.map Subj.observable)) fun id =>
    .userSub id noReact (drive sjs H)

theorem prog_spec (n : Nat) (hn : n + 1 ≤ 100000) (H : History) :
    WP (prog n H) {} (R n (finalFrom concat.step (concat.init (n + 1)) H) (concat.run (n + 1) H)) := by
  have ok := lay_ok n
  unfold prog
  refine wp_subjsNew (n + 1) 0 {} _ _ rfl rfl ?_
  refine wp_obsvNew ?_
  refine wp_userSub (f := oConcat ((sjs (n + 1)).headD default).observable ((sjs (n + 1)).tail.map Subj.observable))
    rfl ?_
  simp only [oConcat, sctlNew]
  refine wp_cellNew (wp_cellNew (wp_slotNew (wp_obsSetOnUnsub rfl (wp_cellNew ?_))))
  simp only [World.setObs, List.nil_append, List.length_nil, List.length_append, subjCells_length,
    List.length_replicate, List.length_cons, Nat.zero_add]
  have e2 : ∀ (W : World) p Q, W = W2 (lay n) [.int 0] (oConcat ((sjs (n + 1)).headD default).observable
      ((sjs (n + 1)).tail.map Subj.observable)) → WP p (W2 (lay n) [.int 0] (oConcat ((sjs (n + 1)).headD default).observable
      ((sjs (n + 1)).tail.map Subj.observable))) Q → WP p W Q := fun W p Q q hq => q ▸ hq
  refine e2 _ _ _ ?_ ?_
  · simp [W2, rootObs, Lay.sc, lay, scOf, sjs]
  have h0 := rel_W2_empty (lay n) [.int 0] (oConcat ((sjs (n + 1)).headD default).observable
      ((sjs (n + 1)).tail.map Subj.observable))
  have h1 := newObserver_sub ok h0 rfl (j := 0) (by simp [lay]) rfl rfl rfl rfl rfl
    (fun _ x => (scOf (n + 1)).sinkNext x) (fun _ e => (scOf (n + 1)).sinkError e)
    (fun _ => concatNext (scOf (n + 1)) (2 * (n + 1) + 2) (others n) 100000) rfl
  have hsrc : ((sjs (n + 1)).headD default).observable = (sjOf 0).observable := by simp [sjs, List.range'_succ]
  rw [hsrc]
  refine h1.conseq fun w1 h2 => ?_
  refine wp_userReady ?_
  have h3 := (h2.setUser (fun u => { u with ready := true }) (fun _ => rfl)).fresh_congr
    (fun i => decide (1 ≤ i)) (fun i _ => by by_cases e : i = 0 <;> simp [e]; omega)
  have h4 : R n (concat.init (n + 1)) [] _ := ⟨h3, rfl, Nat.le_refl 1, by show 1 ≤ n + 1; omega,
    by intro i hi; simp [concat.init, Ctl.init] at hi; show i + 1 = 1; omega,
    by intro i hi; simp [concat.init, Ctl.init] at hi; show i < 1; omega, hn,
    by intro q; simp [concat.init, Ctl.init] at q⟩
  have h5 := drive_concat n H _ _ _ h4
  simpa [concat.run, sjs] using h5

/-- **C03-REF, concat.**  For EVERY history the concat program (at most 100000 sources: `concatNext`'s bound in
    Machine/Lib.lean) ends, for all sufficient fuel, with `status = ok`, no guard held, the user's log equal to the
    output of `Comb.concat`, and subject `i` holding one observer iff `i` is in the machine's final `live` set. -/
theorem concat_refines (n : Nat) (hn : n + 1 ≤ 100000) (H : History) :
    ∃ n0, ∀ fuel, n0 ≤ fuel →
      Agrees (n + 1) (run fuel [prog n H] {}) (finalFrom concat.step (concat.init (n + 1)) H).ctl.live
        (concat.run (n + 1) H) := by
  obtain ⟨n0, w, hrel, hrun⟩ := WP.run_top (prog_spec n hn H)
  refine ⟨n0, fun fuel hf => ?_⟩
  rw [hrun fuel hf]
  refine ⟨hrel.rel.status, hrel.rel.held, hrel.rel.log, fun i hi => ?_⟩
  simp only [regCount, hrel.rel.subjO i hi, Option.getD_some, amapLen_encMap]
  cases hlv : (finalFrom concat.step (concat.init (n + 1)) H).ctl.live.contains i with
  | false => rfl
  | true =>
    have := hrel.cur i (by simpa using hlv)
    have hd : decide ((finalFrom concat.step (concat.init (n + 1)) H).next ≤ i) = false := by simp; omega
    simp [hd]

/-- the C03 list specification transported to model A -/
theorem concat_machine_spec (n : Nat) (hn : n + 1 ≤ 100000) (H : History) (hlt : ∀ p ∈ H, p.1 < n + 1) :
    ∃ n0, ∀ fuel, n0 ≤ fuel → (run fuel [prog n H] {}).status = .ok ∧
      logOf (run fuel [prog n H] {}) 0 = concatSpec (n + 1) H := by
  obtain ⟨n0, h⟩ := concat_refines n hn H
  exact ⟨n0, fun fuel hf => ⟨(h fuel hf).status, by rw [(h fuel hf).log, concat_spec _ (by omega) H hlt]⟩⟩

/-! non-vacuity: three sources; what a pending source emits before its turn is lost -/
def demo : History :=
  [(0, .next (.int 1)), (1, .next (.int 7)), (0, .complete), (1, .next (.int 2)), (0, .next (.int 8)),
   (2, .next (.int 9)), (1, .complete), (2, .next (.int 3)), (2, .complete), (2, .next (.int 4))]

example : (run 3000 [prog 2 demo] {}).status = .ok := by decide +kernel
example : logOf (run 3000 [prog 2 demo] {}) 0 = [.next (.int 1), .next (.int 2), .next (.int 3), .complete] := by
  decide +kernel
example : concat.run 3 demo = [.next (.int 1), .next (.int 2), .next (.int 3), .complete] := by decide +kernel
example : (List.range 3).map (regCount (run 3000 [prog 2 (demo.take 4)] {})) = [0, 1, 0] ∧
    (finalFrom concat.step (concat.init 3) (demo.take 4)).ctl.live = [1] := by decide +kernel
example : logOf (run 3000 [prog 2 demo] {}) 0 = concatSpec 3 demo := by decide +kernel

#print axioms concat_refines
#print axioms concat_machine_spec

end Rx.CRef.Concat
