import RxVerif.Theorems.C13RefReplayFam
/-
C13-REF, replay: `Subscription::unsubscribe` of a test user (replay_subject.rs:52-58 → forwarder teardown →
subject.rs:74-83 → `on_unsubscribe` hook).
-/
namespace Rx.CRef
open Rx.Sim Rx.SubjM Rx.Ref Rx.RefR

/-- a change of the world confined to subscription `o` and the inner Subject's map cell, on the users' side -/
theorem URr.patchUser {L cobs cacs pend unst Hd cg sb cn w} {s : SubjM.State}
    (hur : URr L cobs cacs pend unst Hd cg sb cn w s)
    {o : Nat} (ho : o < L.roots.length) (w' : World) (r' : ObsSt) (O' : List (Nat × Nat))
    (hstatus : w'.status = w.status) (hheld : w'.held = w.held) (hslots : w'.slots = w.slots)
    (hobsvs : w'.obsvs = w.obsvs) (hobsLen : w'.obs.length = w.obs.length)
    (hclen : w'.cells.length = w.cells.length)
    (hcell2 : w'.cells[2]? = some (encMap (mapL L O')))
    (hcells : ∀ i, i ≠ 2 → i ≠ rootAt L.acs o → w'.cells[i]? = w.cells[i]?)
    (hac : unst ≠ some o → w'.cells[rootAt L.acs o]? = some (.bool r'.armed))
    (hunarmed : unst = some o → r'.armed = false)
    (hulen : w'.users.length = w.users.length)
    (husers : ∀ i, i ≠ o → w'.users[i]? = w.users[i]?)
    (huser : ∃ rd, w'.users[o]? = some ⟨rootAt L.roots o, noReact, rd, r'.hook⟩ ∧ (pend ≠ some o → rd = true))
    (hothers : ∀ i, i ≠ rootAt L.roots o → i ≠ rootAt L.fwds o → w'.obs[i]? = w.obs[i]?)
    (hlogs : ∀ u, u ≠ o → logOf w' u = logOf w u)
    (hroot : w'.obs[rootAt L.roots o]? = some (rootOfL (rootAt L.sbs o) o r'))
    (hfwd : w'.obs[rootAt L.fwds o]? = some (fwdOfL (rootAt L.roots o) r'))
    (hlog : logOf w' o = r'.log) (hseen : r'.seen = true) (hdead : r'.hook = false → r'.alive = false)
    (hkeys : ∀ p ∈ O', p.1 ≤ s.serial) (hreg : ∀ p ∈ O', p.2 < L.roots.length) :
    URr L cobs cacs pend unst Hd cg sb cn w' { s with observers := O', obs := upd s.obs o r' } := by
  obtain ⟨g, U, X⟩ := hur
  have g' : Glob (L.roots ++ L.fwds) cobs w' :=
    ⟨hstatus ▸ g.status, hobsLen ▸ g.nObs, fun r hr => hobsLen ▸ g.rootsLt r hr,
     fun c hc => hobsLen ▸ g.cobsLt c hc, g.nodup⟩
  have U' := U.patch g ho w' r' O' hclen hcell2 hcells hac hunarmed hulen husers huser hothers hlogs hroot hfwd hlog
    hseen hdead hkeys hreg
  have hac0 := U.ac_zero_or o
  refine ⟨g', U', ?_⟩
  exact
    { X with
      held := hheld ▸ X.held, slot0 := hslots ▸ X.slot0, slot1 := hslots ▸ X.slot1, slot2 := hslots ▸ X.slot2
      slot3 := hslots ▸ X.slot3, obsvS := hobsvs ▸ X.obsvS
      cellG := by rw [hcells 7 (by omega) (by omega)]; exact X.cellG
      cellB := by rw [hcells 8 (by omega) (by omega)]; exact X.cellB
      cellN := by rw [hcells 9 (by omega) (by omega)]; exact X.cellN
      caGe := fun c hc => hclen ▸ X.caGe c hc }

/-- the same at the level of the whole relation -/
theorem RelRp.patchUser {L cobs cacs armed pend unst Hd w st} (h : RelRp L cobs cacs armed pend unst Hd w st)
    {o : Nat} (ho : o < L.roots.length) (w' : World) (r' : ObsSt) (O' : List (Nat × Nat))
    (hstatus : w'.status = w.status) (hheld : w'.held = w.held) (hslots : w'.slots = w.slots)
    (hobsvs : w'.obsvs = w.obsvs) (hobsLen : w'.obs.length = w.obs.length)
    (hclen : w'.cells.length = w.cells.length)
    (hcell2 : w'.cells[2]? = some (encMap (mapL L O')))
    (hcells : ∀ i, i ≠ 2 → i ≠ rootAt L.acs o → w'.cells[i]? = w.cells[i]?)
    (hcell0 : w'.cells[0]? = w.cells[0]?)
    (hac : unst ≠ some o → w'.cells[rootAt L.acs o]? = some (.bool r'.armed))
    (hunarmed : unst = some o → r'.armed = false)
    (hulen : w'.users.length = w.users.length)
    (husers : ∀ i, i ≠ o → w'.users[i]? = w.users[i]?)
    (huser : ∃ rd, w'.users[o]? = some ⟨rootAt L.roots o, noReact, rd, r'.hook⟩ ∧ (pend ≠ some o → rd = true))
    (hothers : ∀ i, i ≠ rootAt L.roots o → i ≠ rootAt L.fwds o → w'.obs[i]? = w.obs[i]?)
    (hlogs : ∀ u, u ≠ o → logOf w' u = logOf w u)
    (hroot : w'.obs[rootAt L.roots o]? = some (rootOfL (rootAt L.sbs o) o r'))
    (hfwd : w'.obs[rootAt L.fwds o]? = some (fwdOfL (rootAt L.roots o) r'))
    (hlog : logOf w' o = r'.log) (hseen : r'.seen = true) (hdead : r'.hook = false → r'.alive = false)
    (hkeys : ∀ p ∈ O', p.1 ≤ st.sub.serial) (hreg : ∀ p ∈ O', p.2 < L.roots.length) :
    RelRp L cobs cacs armed pend unst Hd w'
      { st with sub := { st.sub with observers := O', obs := upd st.sub.obs o r' } } := by
  have hur' := h.ur.patchUser ho w' r' O' hstatus hheld hslots hobsvs hobsLen hclen hcell2 hcells hac hunarmed hulen
    husers huser hothers hlogs hroot hfwd hlog hseen hdead hkeys hreg
  obtain ⟨g, U, X⟩ := h.ur
  have hlf : o < L.fwds.length := U.lenF ▸ ho
  refine ⟨hur'.1, hheld ▸ h.held, hur', ?_⟩
  refine h.conns.frame hcell0 (hcells 1 (by decide) (by have := U.ac_zero_or o; omega)) ?_ ?_ hobsvs
  · intro i hi
    have hic : i < cobs.length := h.conns.lenC ▸ hi
    exact hothers _ (fun e => GlobR.root_ne_cob g ho hic e.symm) (fun e => GlobR.fwd_ne_cob g hlf hic e.symm)
  · intro i hi
    have hm := rootAt_mem (l := cacs) (i := i) (by rw [X.lenCa, h.conns.lenC]; exact hi)
    refine hcells _ (by have := (X.caGe _ hm).1; omega) (fun e => ?_)
    rcases rootAt_zero_or_mem L.acs o with h0 | hmem
    · have := (X.caGe _ hm).1; omega
    · exact X.caDisj _ hm (e ▸ List.mem_append_right _ hmem)

theorem URr.held_swap {L cobs cacs pend unst Hd Hd' cg sb cn w} {s : SubjM.State}
    (hur : URr L cobs cacs pend unst Hd cg sb cn w s) :
    URr L cobs cacs pend unst Hd' cg sb cn { w with held := Hd' } s := by
  obtain ⟨g, U, X⟩ := hur
  have g' : Glob (L.roots ++ L.fwds) cobs { w with held := Hd' } := ⟨g.status, g.nObs, g.rootsLt, g.cobsLt, g.nodup⟩
  exact ⟨g', U.frameW rfl (Nat.le_refl _) (fun _ _ _ => rfl) (fun _ _ => rfl) (fun _ _ => rfl) (fun _ => rfl),
    { X with held := rfl }⟩

theorem RelRp.held_swap {L cobs cacs armed pend unst Hd Hd' w w' st} (h : RelRp L cobs cacs armed pend unst Hd w st)
    (hw : w' = { w with held := Hd' }) (hs : SlotReads Hd') : RelRp L cobs cacs armed pend unst Hd' w' st := by
  subst hw
  obtain ⟨g, U, X⟩ := h.ur
  have g' : Glob (L.roots ++ L.fwds) cobs { w with held := Hd' } := ⟨g.status, g.nObs, g.rootsLt, g.cobsLt, g.nodup⟩
  exact ⟨g', hs, ⟨g', U.frameW rfl (Nat.le_refl _) (fun _ _ _ => rfl) (fun _ _ => rfl) (fun _ _ => rfl) (fun _ => rfl),
    { X with held := rfl }⟩, h.conns.frame rfl rfl (fun _ _ => rfl) (fun _ _ => rfl)⟩

theorem stepR_unsubscribe (src : ConnM.Src) (st : ConnM.State) (u : Nat) :
    ConnM.step .replay src st (.unsubscribe u) =
      ConnM.onUnsubscribe { st with sub := (unsubscribeN .replay st.sub u).1 } (unsubscribeN .replay st.sub u).2 := rfl

/-- the record after the forwarder has been taken down too -/
def downRec (r : ObsSt) : ObsSt :=
  { r with alive := false, hook := false, inAlive := false, armed := false, inHook := none }

/-- `unsubscribeN .replay` for a subscription whose handle is still there, by cases -/
theorem unsubR_unarmed (s : SubjM.State) (u : Nat) (hs : (s.obs u).seen = true) (hk : (s.obs u).hook = true)
    (ha : (s.obs u).armed = false) :
    unsubscribeN .replay s u =
      ({ s with obs := upd s.obs u { s.obs u with alive := false, hook := false } }, none) := by
  have : ({ s.obs u with alive := false, hook := false, armed := false } : ObsSt) =
      { s.obs u with alive := false, hook := false } := by
    generalize s.obs u = r at *; cases r; simp_all
  cases hin : (s.obs u).inHook <;> simp [unsubscribeN, hs, hk, ha, hin, Kind.isPlain]

theorem unsubR_armed_none (s : SubjM.State) (u : Nat) (hs : (s.obs u).seen = true) (hk : (s.obs u).hook = true)
    (ha : (s.obs u).armed = true) (hin : (s.obs u).inHook = none) :
    unsubscribeN .replay s u =
      ({ s with obs := upd s.obs u (downRec (s.obs u)) }, none) := by
  simp [unsubscribeN, hs, hk, ha, hin, Kind.isPlain, downRec]

theorem unsubR_armed_some (s : SubjM.State) (u s0 : Nat) (hs : (s.obs u).seen = true) (hk : (s.obs u).hook = true)
    (ha : (s.obs u).armed = true) (hin : (s.obs u).inHook = some s0) :
    unsubscribeN .replay s u =
      ({ s with observers := s.observers.filter (fun p => p.1 != s0)
                obs := upd s.obs u (downRec (s.obs u)) },
       some (s.observers.filter (fun p => p.1 != s0)).length) := by
  simp [unsubscribeN, hs, hk, ha, hin, Kind.isPlain, downRec]

theorem mapL_filter (L : LayR) (l : List (Nat × Nat)) (s : Nat) :
    (mapL L l).filter (fun p => p.1 != s) = mapL L (l.filter fun p => p.1 != s) := by
  simp only [mapL, List.filter_map]; rfl

/-- the inner Subject's map cell rewritten -/
def setMapCell (w : World) (d : Data) : World := { w with cells := w.cells.set 2 d }

/-- `Subscription::unsubscribe` of a test user, for any relation family -/
theorem unsubscribeG_spec (F : RFam) {L cobs cacs armed w st} (h : F.Rel L cobs cacs armed none none [] w st) (u : Nat) :
    WP (.userUnsub u .done) w (fun w' => ∃ armed',
      F.Rel L cobs cacs armed' none none [] w' (ConnM.step .replay F.src st (.unsubscribe u))) := by
  obtain ⟨g, U, X⟩ := F.ur h
  rw [stepR_unsubscribe]
  by_cases hlive : u < L.roots.length ∧ (st.sub.obs u).hook = true
  · obtain ⟨hu, hk⟩ := hlive
    have UU := U.users u hu
    have hs := UU.seen
    have hlf : u < L.fwds.length := U.lenF ▸ hu
    obtain ⟨rd, hua, hrd⟩ := UU.user
    have hrd' : rd = true := hrd (by simp)
    subst hrd'
    refine wp_userUnsub_armed hua (by simp [hk]) ?_
    refine wp_obsUnsub_some (f := rootHookL (rootAt L.sbs u)) (x := rootOfL (rootAt L.sbs u) u (st.sub.obs u))
      UU.root (by simp [rootOfL, hk]) ?_
    generalize hw1 : World.setObs _ _ _ = w1
    have hne : rootAt L.fwds u ≠ rootAt L.roots u := fun e => GlobR.root_ne_fwd g hu hlf e.symm
    have c1 : w1.cells = w.cells := by rw [← hw1]; rfl
    have held1 : w1.held = [] := by rw [← hw1]; exact X.held
    have u1 : w1.users[u]? = some ⟨rootAt L.roots u, noReact, true, false⟩ := by
      rw [← hw1]; show (w.setUser u _).users[u]? = _; rw [users_modify_same _ hua]
    have u1o : ∀ i, i ≠ u → w1.users[i]? = w.users[i]? := by
      intro i hi; rw [← hw1]; exact users_modify_other _ hi
    have u1l : w1.users.length = w.users.length := by rw [← hw1]; simp [World.setObs, World.setUser]
    have o1l : w1.obs.length = w.obs.length := by rw [← hw1]; simp [World.setObs, World.setUser]
    have o1r : w1.obs[rootAt L.roots u]? = some ⟨none, none, none, none⟩ := by
      rw [← hw1]
      show ((w.setUser u _).setObs (rootAt L.roots u) _).obs[rootAt L.roots u]? = _
      rw [getElem?_setObs_same _ (show (w.setUser u _).obs[rootAt L.roots u]? = _ from UU.root)]; rfl
    have o1o : ∀ i, i ≠ rootAt L.roots u → w1.obs[i]? = w.obs[i]? := by
      intro i hi; rw [← hw1]
      show ((w.setUser u _).setObs (rootAt L.roots u) _).obs[i]? = _
      rw [getElem?_setObs_other _ (fun e => hi e.symm)]; rfl
    have l1 : ∀ i, logOf w1 i = logOf w i := by intro i; rw [← hw1]; rfl
    have s1 : w1.status = w.status ∧ w1.slots = w.slots ∧ w1.obsvs = w.obsvs := by rw [← hw1]; exact ⟨rfl, rfl, rfl⟩
    unfold rootHookL
    refine wp_cellRead held1 ?_
    rw [c1, UU.sb]
    simp only [Option.getD_some, reduceCtorEq, ↓reduceIte, handleL, subUnsub, Int.toNat_natCast]
    refine wp_cellRead held1 ?_
    rw [c1, UU.ac (by simp)]
    simp only [Option.getD_some, toBool_bool]
    cases har : (st.sub.obs u).armed with
    | false =>
      simp only [Bool.false_eq_true, ↓reduceIte]
      refine WP.done (WP.done ⟨armed, ?_⟩)
      rw [unsubR_unarmed _ _ hs hk har, ConnM.onUnsubscribe]
      simp only [reduceCtorEq, ↓reduceIte]
      exact F.patchUser h hu w1 _ st.sub.observers s1.1 (held1.trans X.held.symm) s1.2.1 s1.2.2 o1l (by rw [c1])
        (by rw [c1]; exact U.cellO) (fun i _ _ => by rw [c1]) (by rw [c1]) (fun _ => by rw [c1, UU.ac (by simp)])
        (fun x => by cases x) u1l u1o ⟨true, by rw [u1], fun _ => rfl⟩ (fun i a _ => o1o i a) (fun i _ => l1 i)
        (by rw [o1r]; simp [rootOfL, cbN, cbE, cbC])
        (by rw [o1o _ hne, UU.fwd]; simp [fwdOfL]) (by rw [l1, UU.log]) hs (fun _ => rfl) U.keys U.regBound
        (by rw [← hw1]; rfl)
    | true =>
      simp only [↓reduceIte]
      refine wp_cellWrite held1 ?_
      generalize hw2 : World.mk _ _ _ _ _ _ _ _ = w2
      have held2 : w2.held = [] := by rw [← hw2]; exact held1
      have c2 : w2.cells = w.cells.set (rootAt L.acs u) (.bool false) := by rw [← hw2, ← c1]
      have f2 : w2.obs[rootAt L.fwds u]? = some (fwdOfL (rootAt L.roots u) (st.sub.obs u)) := by
        rw [← hw2]; show w1.obs[rootAt L.fwds u]? = _; rw [o1o _ hne]; exact UU.fwd
      have hacl := (U.ac_ge hu (by simp))
      -- what is common to the two sub-cases: the world `w3` after the forwarder was cleared
      have common : ∀ (w3 : World), w3 = (w2.setObs (rootAt L.fwds u) fun x => { x.cleared with onUnsub := none }) →
          ∀ O', (∀ p ∈ O', p.1 ≤ st.sub.serial) → (∀ p ∈ O', p.2 < L.roots.length) → ∀ w4, w4 = { w3 with cells := w3.cells.set 2 (encMap (mapL L O')) } →
          F.Rel L cobs cacs armed none none [] w4
            { st with sub := { st.sub with observers := O', obs := upd st.sub.obs u (downRec (st.sub.obs u)) } } := by
        intro w3 hw3 O' hk1 hk2 w4 hw4
        subst hw3 hw4
        refine F.patchUser h hu _ _ O' (by rw [← hw2]; exact s1.1) (held2.trans X.held.symm)
          (by rw [← hw2]; exact s1.2.1) (by rw [← hw2]; exact s1.2.2)
          (by rw [← hw2]; simp [World.setObs, o1l])
          (by show (w2.cells.set _ _).length = _; rw [c2]; simp)
          (by show (w2.cells.set _ _)[2]? = _; rw [c2]; exact set_get_same _ (by rw [set_get_other _ (by omega)]; exact U.cellO))
          (fun i h2 hi => by
            show (w2.cells.set _ _)[i]? = _
            rw [c2, set_get_other _ (Ne.symm h2), set_get_other _ (Ne.symm hi)])
          (by show (w2.cells.set _ _)[0]? = _
              rw [c2, set_get_other _ (by decide), set_get_other _ (by omega)])
          (fun _ => by
            show (w2.cells.set _ _)[_]? = _
            rw [c2, set_get_other _ (by omega), set_get_same _ (UU.ac (by simp))]; simp [downRec])
          (fun x => by cases x)
          (by rw [← hw2]; exact u1l) (fun i hi => by rw [← hw2]; exact u1o i hi)
          ⟨true, by rw [← hw2]; exact u1, fun _ => rfl⟩
          (fun i a b => by
            show (w2.setObs _ _).obs[i]? = _
            rw [getElem?_setObs_other _ (Ne.symm b), ← hw2]; exact o1o i a)
          (fun i _ => by rw [← hw2]; exact l1 i)
          (by show (w2.setObs _ _).obs[_]? = _
              rw [getElem?_setObs_other _ hne, ← hw2, o1r]; simp [rootOfL, cbN, cbE, cbC, downRec])
          (by show (w2.setObs _ _).obs[_]? = _
              rw [getElem?_setObs_same _ f2]; simp [fwdOfL, downRec, Obs.cleared])
          (by rw [← hw2]; show logOf w1 u = _; rw [l1, UU.log]; rfl) hs (fun _ => rfl) hk1 hk2
          (by rw [← hw2, ← hw1]; rfl)
      cases hin : (st.sub.obs u).inHook with
      | none =>
        refine wp_obsUnsub_none f2 (by simp [fwdOfL, hin]) (WP.done (WP.done ⟨armed, ?_⟩))
        rw [unsubR_armed_none _ _ hs hk har hin, ConnM.onUnsubscribe]
        simp only [reduceCtorEq, ↓reduceIte]
        -- no map entry to remove: rewrite the cell with its own content
        have := common _ rfl st.sub.observers U.keys U.regBound _ rfl
        have hself : (w2.setObs (rootAt L.fwds u) fun x => { x.cleared with onUnsub := none }).cells.set 2
            (encMap (mapL L st.sub.observers)) =
            (w2.setObs (rootAt L.fwds u) fun x => { x.cleared with onUnsub := none }).cells := by
          apply List.ext_getElem?
          intro i
          by_cases e : 2 = i
          · subst e
            show (w2.cells.set 2 _)[2]? = w2.cells[2]?
            have h2 : w2.cells[2]? = some (encMap (mapL L st.sub.observers)) := by
              rw [c2, set_get_other _ (by omega)]; exact U.cellO
            rw [set_get_same _ h2, h2]
          · exact set_get_other _ e
        rw [hself] at this
        exact this
      | some s0 =>
        refine wp_obsUnsub_some (f := hookProg Sp (s0 : Int)) f2 (by simp [fwdOfL, hin]) ?_
        generalize hw3 : World.setObs _ _ _ = w3
        have held3 : w3.held = [] := by rw [← hw3]; exact held2
        have c3 : w3.cells = w.cells.set (rootAt L.acs u) (.bool false) := by rw [← hw3]; exact c2
        refine hookProg_pre (obsl := mapL L st.sub.observers) (SlotReads.of_nil held3)
          (by show w3.cells[2]? = _; rw [c3, set_get_other _ (by omega)]; exact U.cellO) ?_
        rw [mapL_filter]
        have hR := common w3 hw3.symm (st.sub.observers.filter fun p => p.1 != s0)
          (fun p hp => U.keys p (List.mem_filter.1 hp).1) (fun p hp => U.regBound p (List.mem_filter.1 hp).1) _ rfl
        have hlen : (mapL L (st.sub.observers.filter fun p => p.1 != s0)).length =
            (st.sub.observers.filter fun p => p.1 != s0).length := by simp [mapL]
        rw [hlen]
        unfold slotTail
        show WP _ (setMapCell w3 (encMap (mapL L (st.sub.observers.filter fun p => p.1 != s0)))) _
        have hheld4 : (setMapCell w3 (encMap (mapL L (st.sub.observers.filter fun p => p.1 != s0)))).held = [] := held3
        refine wp_lockedSlotCall_someG (SlotReads.of_nil hheld4) (show _ = some (some _) from (F.ur hR).2.2.slot3) ?_
        have hmid := F.held_swap hR (Hd' := [(LockId.slot 3, false)])
          (w' := { setMapCell w3 (encMap (mapL L (st.sub.observers.filter fun p => p.1 != s0))) with
            held := (LockId.slot Sp.onUnsub, false) ::
              (setMapCell w3 (encMap (mapL L (st.sub.observers.filter fun p => p.1 != s0)))).held })
          (by rw [hheld4]; rfl) (SlotReads.nil.cons 3)
        refine (F.onUnsubHook hmid _).conseq ?_
        rintro w5 ⟨armed', h5⟩
        refine wp_lockRel (WP.done (WP.done (WP.done ⟨armed', ?_⟩)))
        have hrel : w5.release (LockId.slot Sp.onUnsub) = { w5 with held := [] } :=
          release_single w5 _ false (F.ur h5).2.2.held
        rw [hrel, unsubR_armed_some _ _ _ hs hk har hin]
        exact F.held_swap h5 rfl SlotReads.nil
  · have hk : (st.sub.obs u).hook = false := by
      rcases Nat.lt_or_ge u L.roots.length with hlt | hge
      · cases hk : (st.sub.obs u).hook with
        | false => rfl
        | true => exact absurd ⟨hlt, hk⟩ hlive
      · rw [U.unseen u hge]
    have hal : (st.sub.obs u).alive = false := by
      rcases Nat.lt_or_ge u L.roots.length with hlt | hge
      · exact (U.users u hlt).dead hk
      · rw [U.unseen u hge]
    have h2 : (unsubscribeN .replay st.sub u).2 = none := by
      unfold unsubscribeN; split <;> simp [hk]
    rw [unsub_noop _ _ _ hk hal, h2, onUnsubscribe_none]
    rcases Nat.lt_or_ge u L.roots.length with hlt | hge
    · obtain ⟨rd, hua, _⟩ := (U.users u hlt).user
      exact wp_userUnsub_spent hua (by simp [hk]) (WP.done ⟨armed, h⟩)
    · exact wp_userUnsub_none (by apply List.getElem?_eq_none; rw [U.nUsers]; exact hge) (WP.done ⟨armed, h⟩)

end Rx.CRef
