/-
Delivery invariant of the `BehaviorSubject` LTS along QUIET runs (no `next` call overlaps a `subscribe` call).
-/
import RxVerif.Theorems.C12BehaviorA
import RxVerif.Theorems.C12Lists

namespace Rx.Conc.Behavior

def nextItems : List Call → List Data
  | [] => []
  | .next v :: r => v :: nextItems r
  | _ :: r => nextItems r

/-- the items thread `t` pushes, in program order -/
def progItems (progs : List (List Call)) (t : Nat) : List Data := nextItems (progs.getD t [])

/-- broadcast deliveries of producer `t` in a list of tagged entries (order preserved), as `(call index, item)` -/
def proj (t : Nat) (l : List Entry) : List (Nat × Data) := (l.filter (·.1 == some t)).map (·.2)

theorem proj_cons (t : Nat) (x : Entry) (l : List Entry) :
    proj t (x :: l) = if x.1 = some t then x.2 :: proj t l else proj t l := by
  simp only [proj, List.filter_cons]
  by_cases h : x.1 = some t <;> simp [h]

theorem proj_append (t : Nat) (l l' : List Entry) : proj t (l ++ l') = proj t l ++ proj t l' := by
  simp [proj]

@[simp] theorem proj_nil (t : Nat) : proj t [] = [] := rfl

def pos (th : Thread) (o : Nat) : Nat × Bool :=
  match th.pc with
  | .r0 k _ | .nx0 k _ => (k, false)
  | .nxL k _ snap => (if o ∈ snap then k else k + 1, false)
  | .nxF k _ o' rest => (if o = o' ∨ o ∈ rest then k else k + 1, false)
  | .nxD k _ o' rest => if o = o' then (k, true) else (if o ∈ rest then k else k + 1, false)
  | _ => (th.cnt, false)

/-- number of values the thread has stored into `last_item` -/
def pushed (th : Thread) : Nat :=
  match th.pc with
  | .r0 k _ => k
  | _ => th.cnt

theorem pos_of_not_inNext {th : Thread} (h : th.pc.inNext = false) (o : Nat) :
    pos th o = (th.cnt, false) ∧ pushed th = th.cnt := by
  cases hpc : th.pc <;> simp [hpc, Pc.inNext] at h <;> simp [pos, pushed, hpc]

/-- the observer a subscribing thread has already read `last_item` for -/
def subPhase : Pc → Option Nat
  | .s2 o _ | .s3 o _ | .s3d o _ | .s4 o | .s5 o | .s6 o | .s7 o | .s8 o | .s9 o => some o
  | _ => none

theorem inSub_of_subPhase {pc : Pc} {o : Nat} (h : subPhase pc = some o) : pc.inSub = true := by
  cases pc <;> simp [subPhase] at h <;> rfl

def LocB (P : List Data) (th : Thread) : Prop :=
  th.cnt ≤ P.length ∧ nextItems th.todo = P.drop th.cnt ∧
  match th.pc with
  | .r0 k v | .nx0 k v | .nxL k v _ | .nxF k v _ _ | .nxD k v _ _ => th.cnt = k + 1 ∧ P[k]? = some v
  | _ => True

/-- once `o`'s `subscribe` call has returned and while `o` is live, the broadcast deliveries `o` got from `t` are
exactly `t`'s calls `base .. n-1`, each once, in order (`base` = calls `t` had made when `last_item` was read) -/
def Full (P : List Data) (ob : Obs) (t : Nat) (p : Nat × Bool) : Prop :=
  ob.subDone = true → (p.2 = true ∨ ob.fnNext = true) →
    Asc P (ob.base t) (proj t ob.rlog).reverse ∧ ob.base t + (proj t ob.rlog).length = p.1

structure InvB (progs : List (List Call)) (s : State) : Prop where
  loc : ∀ t : Nat, LocB (progItems progs t) (s.threads t)
  full : ∀ o t : Nat, Full (progItems progs t) (s.obs o) t (pos (s.threads t) o)
  phase1 : ∀ ts o : Nat, subPhase (s.threads ts).pc = some o →
    ∀ t, (s.obs o).base t = pushed (s.threads t) ∧ proj t (s.obs o).rlog = []
  lastIn : s.last ∈ s.vals
  handIn : ∀ (o : Nat) (x : Data), (s.obs o).hand = some x → x ∈ s.vals

theorem invB_init (progs : List (List Call)) (initial : Data) : InvB progs (init progs initial) := by
  constructor
  · intro t; simp [init, LocB, progItems]
  · intro o t; simp [init, Full]
  · intro ts o hh; simp [init, subPhase] at hh
  · simp [init]
  · intro o x h; simp [init] at h

/-- generic re-establishment for steps that neither deliver to a producer's projection, nor store a value, nor read
`last_item`, nor finish a subscription -/
theorem invB_same {progs : List (List Call)} {s s' : State} (hB : InvB progs s) (t : Nat) (th' : Thread)
    (hthr : s'.threads = setThr s t th') (hlast : s'.last = s.last) (hvals : s'.vals = s.vals)
    (hobs : ∀ o, (∀ t, proj t (s'.obs o).rlog = proj t (s.obs o).rlog) ∧ (s'.obs o).subDone = (s.obs o).subDone ∧
      ((s'.obs o).fnNext = true → (s.obs o).fnNext = true) ∧ (s'.obs o).base = (s.obs o).base ∧
      (s'.obs o).hand = (s.obs o).hand)
    (hloc : LocB (progItems progs t) th')
    (hpos : ∀ o, pos th' o = pos (s.threads t) o) (hpushed : pushed th' = pushed (s.threads t))
    (hph : ∀ o, subPhase th'.pc = some o → subPhase (s.threads t).pc = some o) : InvB progs s' := by
  have hpushed' : ∀ t', pushed (s'.threads t') = pushed (s.threads t') := by
    intro t'; rw [hthr]; simp only [setThr]
    split
    · rename_i h; subst h; exact hpushed
    · rfl
  constructor
  · intro t'
    rw [hthr]; simp only [setThr]
    split
    · rename_i h; subst h; exact hloc
    · exact hB.loc t'
  · intro o t'
    have hpos' : pos (s'.threads t') o = pos (s.threads t') o := by
      rw [hthr]; simp only [setThr]
      split
      · rename_i h; subst h; exact hpos o
      · rfl
    rw [hpos']
    intro h1 h2
    obtain ⟨e1, e2, e3, e4, _⟩ := hobs o
    rw [e1, e4]
    exact hB.full o t' (e2 ▸ h1) (h2.imp id e3)
  · intro ts o hh t'
    obtain ⟨e1, e2, e3, e4, _⟩ := hobs o
    rw [e1, e4, hpushed']
    rw [hthr] at hh; simp only [setThr] at hh
    split at hh
    · rename_i h; subst h
      exact hB.phase1 ts o (hph o hh) t'
    · exact hB.phase1 ts o hh t'
  · rw [hlast, hvals]; exact hB.lastIn
  · intro o x h
    rw [(hobs o).2.2.2.2] at h
    rw [hvals]; exact hB.handIn o x h

/-- only thread `t` moved; its new position is justified observer by observer -/
theorem invB_thr {progs : List (List Call)} {s : State} (hB : InvB progs s) (t : Nat) (th' : Thread)
    (hloc : LocB (progItems progs t) th')
    (hfull : ∀ o, Full (progItems progs t) (s.obs o) t (pos th' o))
    (hpushed : pushed th' = pushed (s.threads t))
    (hph : ∀ o, subPhase th'.pc = some o → subPhase (s.threads t).pc = some o) :
    InvB progs { s with threads := setThr s t th' } := by
  have hpushed' : ∀ t', pushed (setThr s t th' t') = pushed (s.threads t') := by
    intro t'; simp only [setThr]
    split
    · rename_i h; subst h; exact hpushed
    · rfl
  constructor
  · intro t'
    simp only [setThr]
    split
    · rename_i h; subst h; exact hloc
    · exact hB.loc t'
  · intro o t'
    simp only [setThr]
    split
    · rename_i h; subst h; exact hfull o
    · exact hB.full o t'
  · intro ts o hh t'
    show _ = pushed (setThr s t th' t') ∧ _
    rw [hpushed']
    simp only [setThr] at hh
    split at hh
    · rename_i h; subst h
      exact hB.phase1 ts o (hph o hh) t'
    · exact hB.phase1 ts o hh t'
  · exact hB.lastIn
  · exact hB.handIn


theorem invB_step_s0 {progs : List (List Call)} {s s' : State} {t : Nat} {o : _} (hB : InvB progs s)
    (hpc : (s.threads t).pc = .s0 o) (hs : stepT s t = some s') : InvB progs s' := by
  obtain ⟨hcnt, htodo, hpcB⟩ := hB.loc t
  simp only [stepT, hpc, Option.some.injEq] at hs; subst hs
  by_cases hc : (s.obs o).fnNext = true
  · simp only [hc, if_true]
    refine invB_same hB t _ rfl rfl rfl ?_ ⟨hcnt, htodo, by simp⟩ ?_ ?_ ?_
    · intro o'; exact ⟨fun _ => rfl, rfl, id, rfl, rfl⟩
    · intro o'; simp [pos, hpc]
    · simp [pushed, hpc]
    · intro o' hh; simp only [subPhase, hpc] at hh ⊢; first | exact hh | simp at hh
  · have hc' : (s.obs o).fnNext = false := by simpa using hc
    simp only [hc', Bool.false_eq_true, if_false]
    refine invB_same hB t _ rfl rfl rfl ?_ ⟨hcnt, htodo, by simp⟩ ?_ ?_ ?_
    · intro o'; exact ⟨fun _ => rfl, rfl, id, rfl, rfl⟩
    · intro o'; simp [pos, hpc]
    · simp [pushed, hpc]
    · intro o' hh; simp only [subPhase, hpc] at hh ⊢; first | exact hh | simp at hh

theorem invB_step_s2 {progs : List (List Call)} {s s' : State} {t : Nat} {o : _} {x : _} (hB : InvB progs s)
    (hpc : (s.threads t).pc = .s2 o x) (hs : stepT s t = some s') : InvB progs s' := by
  obtain ⟨hcnt, htodo, hpcB⟩ := hB.loc t
  simp only [stepT, hpc, Option.some.injEq] at hs; subst hs
  refine invB_same hB t _ rfl rfl rfl ?_ ⟨hcnt, htodo, by simp⟩ ?_ ?_ ?_
  · intro o'; exact ⟨fun _ => rfl, rfl, id, rfl, rfl⟩
  · intro o'; simp [pos, hpc]
  · simp [pushed, hpc]
  · intro o' hh; simp only [subPhase, hpc] at hh ⊢; first | exact hh | simp at hh

theorem invB_step_s3 {progs : List (List Call)} {s s' : State} {t : Nat} {o : _} {x : _} (hB : InvB progs s)
    (hpc : (s.threads t).pc = .s3 o x) (hs : stepT s t = some s') : InvB progs s' := by
  obtain ⟨hcnt, htodo, hpcB⟩ := hB.loc t
  simp only [stepT, hpc, Option.some.injEq] at hs; subst hs
  by_cases hc : (s.obs o).fnNext = true
  · simp only [hc, if_true]
    refine invB_same hB t _ rfl rfl rfl ?_ ⟨hcnt, htodo, by simp⟩ ?_ ?_ ?_
    · intro o'; exact ⟨fun _ => rfl, rfl, id, rfl, rfl⟩
    · intro o'; simp [pos, hpc]
    · simp [pushed, hpc]
    · intro o' hh; simp only [subPhase, hpc] at hh ⊢; first | exact hh | simp at hh
  · have hc' : (s.obs o).fnNext = false := by simpa using hc
    simp only [hc', Bool.false_eq_true, if_false]
    refine invB_same hB t _ rfl rfl rfl ?_ ⟨hcnt, htodo, by simp⟩ ?_ ?_ ?_
    · intro o'; exact ⟨fun _ => rfl, rfl, id, rfl, rfl⟩
    · intro o'; simp [pos, hpc]
    · simp [pushed, hpc]
    · intro o' hh; simp only [subPhase, hpc] at hh ⊢; first | exact hh | simp at hh

theorem invB_step_s4 {progs : List (List Call)} {s s' : State} {t : Nat} {o : _} (hB : InvB progs s)
    (hpc : (s.threads t).pc = .s4 o) (hs : stepT s t = some s') : InvB progs s' := by
  obtain ⟨hcnt, htodo, hpcB⟩ := hB.loc t
  simp only [stepT, hpc, Option.some.injEq] at hs; subst hs
  by_cases hc : (s.obs o).fnNext = true
  · simp only [hc, if_true]
    refine invB_same hB t _ rfl rfl rfl ?_ ⟨hcnt, htodo, by simp⟩ ?_ ?_ ?_
    · intro o'; exact ⟨fun _ => rfl, rfl, id, rfl, rfl⟩
    · intro o'; simp [pos, hpc]
    · simp [pushed, hpc]
    · intro o' hh; simp only [subPhase, hpc] at hh ⊢; first | exact hh | simp at hh
  · have hc' : (s.obs o).fnNext = false := by simpa using hc
    simp only [hc', Bool.false_eq_true, if_false]
    refine invB_same hB t _ rfl rfl rfl ?_ ⟨hcnt, htodo, by simp⟩ ?_ ?_ ?_
    · intro o'; exact ⟨fun _ => rfl, rfl, id, rfl, rfl⟩
    · intro o'; simp [pos, hpc]
    · simp [pushed, hpc]
    · intro o' hh; simp only [subPhase, hpc] at hh ⊢; first | exact hh | simp at hh

theorem invB_step_s5 {progs : List (List Call)} {s s' : State} {t : Nat} {o : _} (hB : InvB progs s)
    (hpc : (s.threads t).pc = .s5 o) (hs : stepT s t = some s') : InvB progs s' := by
  obtain ⟨hcnt, htodo, hpcB⟩ := hB.loc t
  simp only [stepT, hpc, Option.some.injEq] at hs; subst hs
  refine invB_same hB t _ rfl rfl rfl ?_ ⟨hcnt, htodo, by simp⟩ ?_ ?_ ?_
  · intro o'; simp only [setObs]; by_cases ho : o' = o
    · subst ho; simp
    · simp [ho]
  · intro o'; simp [pos, hpc]
  · simp [pushed, hpc]
  · intro o' hh; simp only [subPhase, hpc] at hh ⊢; first | exact hh | simp at hh

theorem invB_step_s6 {progs : List (List Call)} {s s' : State} {t : Nat} {o : _} (hB : InvB progs s)
    (hpc : (s.threads t).pc = .s6 o) (hs : stepT s t = some s') : InvB progs s' := by
  obtain ⟨hcnt, htodo, hpcB⟩ := hB.loc t
  simp only [stepT, hpc, Option.some.injEq] at hs; subst hs
  refine invB_same hB t _ rfl rfl rfl ?_ ⟨hcnt, htodo, by simp⟩ ?_ ?_ ?_
  · intro o'; simp only [setObs]; by_cases ho : o' = o
    · subst ho; simp
    · simp [ho]
  · intro o'; simp [pos, hpc]
  · simp [pushed, hpc]
  · intro o' hh; simp only [subPhase, hpc] at hh ⊢; first | exact hh | simp at hh

theorem invB_step_s7 {progs : List (List Call)} {s s' : State} {t : Nat} {o : _} (hB : InvB progs s)
    (hpc : (s.threads t).pc = .s7 o) (hs : stepT s t = some s') : InvB progs s' := by
  obtain ⟨hcnt, htodo, hpcB⟩ := hB.loc t
  simp only [stepT, hpc, Option.some.injEq] at hs; subst hs
  refine invB_same hB t _ rfl rfl rfl ?_ ⟨hcnt, htodo, by simp⟩ ?_ ?_ ?_
  · intro o'; simp only [setObs]; by_cases ho : o' = o
    · subst ho; simp
    · simp [ho]
  · intro o'; simp [pos, hpc]
  · simp [pushed, hpc]
  · intro o' hh; simp only [subPhase, hpc] at hh ⊢; first | exact hh | simp at hh

theorem invB_step_s8 {progs : List (List Call)} {s s' : State} {t : Nat} {o : _} (hB : InvB progs s)
    (hpc : (s.threads t).pc = .s8 o) (hs : stepT s t = some s') : InvB progs s' := by
  obtain ⟨hcnt, htodo, hpcB⟩ := hB.loc t
  simp only [stepT, hpc, Option.some.injEq] at hs; subst hs
  refine invB_same hB t _ rfl rfl rfl ?_ ⟨hcnt, htodo, by simp⟩ ?_ ?_ ?_
  · intro o'; simp only [setObs]; by_cases ho : o' = o
    · subst ho; simp
    · simp [ho]
  · intro o'; simp [pos, hpc]
  · simp [pushed, hpc]
  · intro o' hh; simp only [subPhase, hpc] at hh ⊢; first | exact hh | simp at hh

theorem invB_step_u0 {progs : List (List Call)} {s s' : State} {t : Nat} {o : _} (hB : InvB progs s)
    (hpc : (s.threads t).pc = .u0 o) (hs : stepT s t = some s') : InvB progs s' := by
  obtain ⟨hcnt, htodo, hpcB⟩ := hB.loc t
  simp only [stepT, hpc, Option.some.injEq] at hs; subst hs
  refine invB_same hB t _ rfl rfl rfl ?_ ⟨hcnt, htodo, by simp⟩ ?_ ?_ ?_
  · intro o'; simp only [setObs]; by_cases ho : o' = o
    · subst ho; simp
    · simp [ho]
  · intro o'; simp [pos, hpc]
  · simp [pushed, hpc]
  · intro o' hh; simp only [subPhase, hpc] at hh ⊢; first | exact hh | simp at hh

theorem invB_step_u1 {progs : List (List Call)} {s s' : State} {t : Nat} {o : _} (hB : InvB progs s)
    (hpc : (s.threads t).pc = .u1 o) (hs : stepT s t = some s') : InvB progs s' := by
  obtain ⟨hcnt, htodo, hpcB⟩ := hB.loc t
  simp only [stepT, hpc, Option.some.injEq] at hs; subst hs
  refine invB_same hB t _ rfl rfl rfl ?_ ⟨hcnt, htodo, by simp⟩ ?_ ?_ ?_
  · intro o'; exact ⟨fun _ => rfl, rfl, id, rfl, rfl⟩
  · intro o'; simp [pos, hpc]
  · simp [pushed, hpc]
  · intro o' hh; simp only [subPhase, hpc] at hh ⊢; first | exact hh | simp at hh

theorem invB_step_u2 {progs : List (List Call)} {s s' : State} {t : Nat} {o : _} (hB : InvB progs s)
    (hpc : (s.threads t).pc = .u2 o) (hs : stepT s t = some s') : InvB progs s' := by
  obtain ⟨hcnt, htodo, hpcB⟩ := hB.loc t
  simp only [stepT, hpc, Option.some.injEq] at hs; subst hs
  refine invB_same hB t _ rfl rfl rfl ?_ ⟨hcnt, htodo, by simp⟩ ?_ ?_ ?_
  · intro o'; exact ⟨fun _ => rfl, rfl, id, rfl, rfl⟩
  · intro o'; simp [pos, hpc]
  · simp [pushed, hpc]
  · intro o' hh; simp only [subPhase, hpc] at hh ⊢; first | exact hh | simp at hh

theorem invB_step_u3 {progs : List (List Call)} {s s' : State} {t : Nat} {o : _} (hB : InvB progs s)
    (hpc : (s.threads t).pc = .u3 o) (hs : stepT s t = some s') : InvB progs s' := by
  obtain ⟨hcnt, htodo, hpcB⟩ := hB.loc t
  simp only [stepT, hpc, Option.some.injEq] at hs; subst hs
  by_cases hc : (s.obs o).td = true
  · simp only [hc, if_true]
    refine invB_same hB t _ rfl rfl rfl ?_ ⟨hcnt, htodo, by simp⟩ ?_ ?_ ?_
    · intro o'; exact ⟨fun _ => rfl, rfl, id, rfl, rfl⟩
    · intro o'; simp [pos, hpc]
    · simp [pushed, hpc]
    · intro o' hh; simp only [subPhase, hpc] at hh ⊢; first | exact hh | simp at hh
  · have hc' : (s.obs o).td = false := by simpa using hc
    simp only [hc', Bool.false_eq_true, if_false]
    refine invB_same hB t _ rfl rfl rfl ?_ ⟨hcnt, htodo, by simp⟩ ?_ ?_ ?_
    · intro o'; exact ⟨fun _ => rfl, rfl, id, rfl, rfl⟩
    · intro o'; simp [pos, hpc]
    · simp [pushed, hpc]
    · intro o' hh; simp only [subPhase, hpc] at hh ⊢; first | exact hh | simp at hh

theorem invB_step_u4 {progs : List (List Call)} {s s' : State} {t : Nat} {o : _} (hB : InvB progs s)
    (hpc : (s.threads t).pc = .u4 o) (hs : stepT s t = some s') : InvB progs s' := by
  obtain ⟨hcnt, htodo, hpcB⟩ := hB.loc t
  simp only [stepT, hpc, Option.some.injEq] at hs; subst hs
  by_cases hc : (s.obs o).sbsc = true
  · simp only [hc, if_true]
    refine invB_same hB t _ rfl rfl rfl ?_ ⟨hcnt, htodo, by simp⟩ ?_ ?_ ?_
    · intro o'; exact ⟨fun _ => rfl, rfl, id, rfl, rfl⟩
    · intro o'; simp [pos, hpc]
    · simp [pushed, hpc]
    · intro o' hh; simp only [subPhase, hpc] at hh ⊢; first | exact hh | simp at hh
  · have hc' : (s.obs o).sbsc = false := by simpa using hc
    simp only [hc', Bool.false_eq_true, if_false]
    refine invB_same hB t _ rfl rfl rfl ?_ ⟨hcnt, htodo, by simp⟩ ?_ ?_ ?_
    · intro o'; exact ⟨fun _ => rfl, rfl, id, rfl, rfl⟩
    · intro o'; simp [pos, hpc]
    · simp [pushed, hpc]
    · intro o' hh; simp only [subPhase, hpc] at hh ⊢; first | exact hh | simp at hh

theorem invB_step_u5 {progs : List (List Call)} {s s' : State} {t : Nat} {o : _} (hB : InvB progs s)
    (hpc : (s.threads t).pc = .u5 o) (hs : stepT s t = some s') : InvB progs s' := by
  obtain ⟨hcnt, htodo, hpcB⟩ := hB.loc t
  simp only [stepT, hpc, Option.some.injEq] at hs; subst hs
  by_cases hc : (s.obs o).subTaken = true
  · simp only [hc, if_true]
    refine invB_same hB t _ rfl rfl rfl ?_ ⟨hcnt, htodo, by simp⟩ ?_ ?_ ?_
    · intro o'; simp only [setObs]; by_cases ho : o' = o
      · subst ho; simp
      · simp [ho]
    · intro o'; simp [pos, hpc]
    · simp [pushed, hpc]
    · intro o' hh; simp only [subPhase, hpc] at hh ⊢; first | exact hh | simp at hh
  · have hc' : (s.obs o).subTaken = false := by simpa using hc
    simp only [hc', Bool.false_eq_true, if_false]
    refine invB_same hB t _ rfl rfl rfl ?_ ⟨hcnt, htodo, by simp⟩ ?_ ?_ ?_
    · intro o'; simp only [setObs]; by_cases ho : o' = o
      · subst ho; simp
      · simp [ho]
    · intro o'; simp [pos, hpc]
    · simp [pushed, hpc]
    · intro o' hh; simp only [subPhase, hpc] at hh ⊢; first | exact hh | simp at hh

theorem invB_step_u6 {progs : List (List Call)} {s s' : State} {t : Nat} {o : _} (hB : InvB progs s)
    (hpc : (s.threads t).pc = .u6 o) (hs : stepT s t = some s') : InvB progs s' := by
  obtain ⟨hcnt, htodo, hpcB⟩ := hB.loc t
  simp only [stepT, hpc, Option.some.injEq] at hs; subst hs
  refine invB_same hB t _ rfl rfl rfl ?_ ⟨hcnt, htodo, by simp⟩ ?_ ?_ ?_
  · intro o'; simp only [setObs]; by_cases ho : o' = o
    · subst ho; simp
    · simp [ho]
  · intro o'; simp [pos, hpc]
  · simp [pushed, hpc]
  · intro o' hh; simp only [subPhase, hpc] at hh ⊢; first | exact hh | simp at hh

theorem invB_step_u7 {progs : List (List Call)} {s s' : State} {t : Nat} {o : _} (hB : InvB progs s)
    (hpc : (s.threads t).pc = .u7 o) (hs : stepT s t = some s') : InvB progs s' := by
  obtain ⟨hcnt, htodo, hpcB⟩ := hB.loc t
  simp only [stepT, hpc, Option.some.injEq] at hs; subst hs
  refine invB_same hB t _ rfl rfl rfl ?_ ⟨hcnt, htodo, by simp⟩ ?_ ?_ ?_
  · intro o'; exact ⟨fun _ => rfl, rfl, id, rfl, rfl⟩
  · intro o'; simp [pos, hpc]
  · simp [pushed, hpc]
  · intro o' hh; simp only [subPhase, hpc] at hh ⊢; first | exact hh | simp at hh

theorem invB_step_u8 {progs : List (List Call)} {s s' : State} {t : Nat} {o : _} (hB : InvB progs s)
    (hpc : (s.threads t).pc = .u8 o) (hs : stepT s t = some s') : InvB progs s' := by
  obtain ⟨hcnt, htodo, hpcB⟩ := hB.loc t
  simp only [stepT, hpc, Option.some.injEq] at hs; subst hs
  refine invB_same hB t _ rfl rfl rfl ?_ ⟨hcnt, htodo, by simp⟩ ?_ ?_ ?_
  · intro o'; exact ⟨fun _ => rfl, rfl, id, rfl, rfl⟩
  · intro o'; simp [pos, hpc]
  · simp [pushed, hpc]
  · intro o' hh; simp only [subPhase, hpc] at hh ⊢; first | exact hh | simp at hh

theorem invB_step_u9 {progs : List (List Call)} {s s' : State} {t : Nat} {o : _} (hB : InvB progs s)
    (hpc : (s.threads t).pc = .u9 o) (hs : stepT s t = some s') : InvB progs s' := by
  obtain ⟨hcnt, htodo, hpcB⟩ := hB.loc t
  simp only [stepT, hpc, Option.some.injEq] at hs; subst hs
  by_cases hc : (s.obs o).fTd = true
  · simp only [hc, if_true]
    refine invB_same hB t _ rfl rfl rfl ?_ ⟨hcnt, htodo, by simp⟩ ?_ ?_ ?_
    · intro o'; exact ⟨fun _ => rfl, rfl, id, rfl, rfl⟩
    · intro o'; simp [pos, hpc]
    · simp [pushed, hpc]
    · intro o' hh; simp only [subPhase, hpc] at hh ⊢; first | exact hh | simp at hh
  · have hc' : (s.obs o).fTd = false := by simpa using hc
    simp only [hc', Bool.false_eq_true, if_false]
    refine invB_same hB t _ rfl rfl rfl ?_ ⟨hcnt, htodo, by simp⟩ ?_ ?_ ?_
    · intro o'; exact ⟨fun _ => rfl, rfl, id, rfl, rfl⟩
    · intro o'; simp [pos, hpc]
    · simp [pushed, hpc]
    · intro o' hh; simp only [subPhase, hpc] at hh ⊢; first | exact hh | simp at hh

theorem invB_step_u9r {progs : List (List Call)} {s s' : State} {t : Nat} {o : _} (hB : InvB progs s)
    (hpc : (s.threads t).pc = .u9r o) (hs : stepT s t = some s') : InvB progs s' := by
  obtain ⟨hcnt, htodo, hpcB⟩ := hB.loc t
  simp only [stepT, hpc, Option.some.injEq] at hs; subst hs
  refine invB_same hB t _ rfl rfl rfl ?_ ⟨hcnt, htodo, by simp⟩ ?_ ?_ ?_
  · intro o'; exact ⟨fun _ => rfl, rfl, id, rfl, rfl⟩
  · intro o'; simp [pos, hpc]
  · simp [pushed, hpc]
  · intro o' hh; simp only [subPhase, hpc] at hh ⊢; first | exact hh | simp at hh

theorem invB_step_u9c {progs : List (List Call)} {s s' : State} {t : Nat} {o : _} (hB : InvB progs s)
    (hpc : (s.threads t).pc = .u9c o) (hs : stepT s t = some s') : InvB progs s' := by
  obtain ⟨hcnt, htodo, hpcB⟩ := hB.loc t
  simp only [stepT, hpc, Option.some.injEq] at hs; subst hs
  refine invB_same hB t _ rfl rfl rfl ?_ ⟨hcnt, htodo, by simp⟩ ?_ ?_ ?_
  · intro o'; simp only [setObs]; by_cases ho : o' = o
    · subst ho; simp
    · simp [ho]
  · intro o'; simp [pos, hpc]
  · simp [pushed, hpc]
  · intro o' hh; simp only [subPhase, hpc] at hh ⊢; first | exact hh | simp at hh

theorem invB_step_u10 {progs : List (List Call)} {s s' : State} {t : Nat} {o : _} (hB : InvB progs s)
    (hpc : (s.threads t).pc = .u10 o) (hs : stepT s t = some s') : InvB progs s' := by
  obtain ⟨hcnt, htodo, hpcB⟩ := hB.loc t
  simp only [stepT, hpc, Option.some.injEq] at hs; subst hs
  refine invB_same hB t _ rfl rfl rfl ?_ ⟨hcnt, htodo, by simp⟩ ?_ ?_ ?_
  · intro o'; simp only [setObs]; by_cases ho : o' = o
    · subst ho; simp
    · simp [ho]
  · intro o'; simp [pos, hpc]
  · simp [pushed, hpc]
  · intro o' hh; simp only [subPhase, hpc] at hh ⊢; first | exact hh | simp at hh


theorem invB_step_idle {progs : List (List Call)} {s s' : State} {t : Nat} (hB : InvB progs s)
    (hpc : (s.threads t).pc = .idle) (hs : stepT s t = some s') : InvB progs s' := by
  obtain ⟨hcnt, htodo, hpcB⟩ := hB.loc t
  simp only [stepT, hpc] at hs
  split at hs
  · simp at hs
  · rename_i v rest htd
    simp at hs; subst hs
    rw [htd] at htodo
    obtain ⟨h1, h2, h3⟩ := drop_cons_inv htodo
    refine invB_same hB t _ rfl rfl rfl (fun o' => ⟨fun _ => rfl, rfl, id, rfl, rfl⟩) ⟨h1, h2, by simp [h3]⟩ ?_ ?_ ?_
    · intro o'; simp [pos, hpc]
    · simp [pushed, hpc]
    · intro o' hh; simp [subPhase] at hh
  · rename_i o rest htd
    split at hs
    · simp at hs
    · simp at hs; subst hs
      rw [htd] at htodo
      refine invB_same hB t _ rfl rfl rfl ?_ ⟨hcnt, htodo, by simp⟩ ?_ ?_ ?_
      · intro o'; simp only [setObs]; by_cases ho : o' = o
        · subst ho; simp
        · simp [ho]
      · intro o'; simp [pos, hpc]
      · simp [pushed, hpc]
      · intro o' hh; simp [subPhase] at hh
  · rename_i o rest htd
    simp at hs; subst hs
    rw [htd] at htodo
    refine invB_same hB t _ rfl rfl rfl (fun o' => ⟨fun _ => rfl, rfl, id, rfl, rfl⟩) ⟨hcnt, htodo, by simp⟩ ?_ ?_ ?_
    · intro o'; simp [pos, hpc]
    · simp [pushed, hpc]
    · intro o' hh; simp [subPhase] at hh

theorem invB_step_nxL {progs : List (List Call)} {s s' : State} {t : Nat} {k : Nat} {v : Data} {snap : List Nat}
    (hA : InvA s) (hB : InvB progs s)
    (hpc : (s.threads t).pc = .nxL k v snap) (hs : stepT s t = some s') : InvB progs s' := by
  obtain ⟨hcnt, htodo, hpcB⟩ := hB.loc t
  have hlA := hA.loc t
  rw [hpc] at hlA hpcB; simp only [LocA] at hlA; simp only at hpcB
  have hf := fun o => hB.full o t
  simp only [pos, hpc] at hf
  cases snap with
  | nil =>
    simp only [stepT, hpc, Option.some.injEq] at hs; subst hs
    refine invB_same hB t _ rfl rfl rfl (fun o' => ⟨fun _ => rfl, rfl, id, rfl, rfl⟩) ⟨hcnt, htodo, by simp⟩ ?_ ?_ ?_
    · intro o'; simp [pos, hpc, hpcB.1]
    · simp [pushed, hpc]
    · intro o' hh; simp [subPhase] at hh
  | cons o rest =>
    simp only [stepT, hpc, Option.some.injEq] at hs; subst hs
    have hnotin : o ∉ rest := (List.nodup_cons.mp hlA.1).1
    by_cases hc : (s.obs o).fFnNext = true
    · simp only [hc, if_true]
      refine invB_same hB t _ rfl rfl rfl (fun o' => ⟨fun _ => rfl, rfl, id, rfl, rfl⟩) ⟨hcnt, htodo, hpcB⟩ ?_ ?_ ?_
      · intro o'; simp [pos, hpc]
      · simp [pushed, hpc]
      · intro o' hh; simp [subPhase] at hh
    · have hc' : (s.obs o).fFnNext = false := by simpa using hc
      simp only [hc', Bool.false_eq_true, if_false]
      refine invB_thr hB t _ ⟨hcnt, htodo, hpcB⟩ ?_ (by simp [pushed, hpc]) ?_
      · intro o'
        by_cases ho : o' = o
        · subst ho
          intro _ hx
          have := hA.fLive o' hc'
          simp [pos, this] at hx
        · have := hf o'
          simpa [pos, ho] using this
      · intro o' hh; simp [subPhase] at hh

theorem invB_step_nx0 {progs : List (List Call)} {s s' : State} {t : Nat} {k : Nat} {v : Data}
    (hA : InvA s) (hB : InvB progs s)
    (hpc : (s.threads t).pc = .nx0 k v) (hs : stepT s t = some s') : InvB progs s' := by
  obtain ⟨hcnt, htodo, hpcB⟩ := hB.loc t
  rw [hpc] at hpcB; simp only at hpcB
  have hf := fun o => hB.full o t
  simp only [pos, hpc] at hf
  simp only [stepT, hpc, Option.some.injEq] at hs; subst hs
  refine invB_thr hB t _ ⟨hcnt, htodo, hpcB⟩ ?_ (by simp [pushed, hpc]) ?_
  · intro o
    by_cases hin : o ∈ s.map.map (·.2)
    · simpa [pos, hin] using hf o
    · intro hsd hx
      simp only [pos, hin, if_false] at hx ⊢
      rcases hx with hx | hx
      · simp at hx
      · exact (hin (hA.live o (hA.subIns o hsd) hx)).elim
  · intro o' hh; simp [subPhase] at hh

theorem invB_step_nxF {progs : List (List Call)} {s s' : State} {t : Nat} {k : Nat} {v : Data} {o : Nat}
    {rest : List Nat} (hA : InvA s) (hB : InvB progs s)
    (hpc : (s.threads t).pc = .nxF k v o rest) (hs : stepT s t = some s') : InvB progs s' := by
  obtain ⟨hcnt, htodo, hpcB⟩ := hB.loc t
  have hlA := hA.loc t
  rw [hpc] at hlA hpcB; simp only [LocA] at hlA; simp only at hpcB
  have hf := fun o => hB.full o t
  simp only [pos, hpc] at hf
  simp only [stepT, hpc, Option.some.injEq] at hs; subst hs
  have hnotin : o ∉ rest := (List.nodup_cons.mp hlA.1).1
  by_cases hc : (s.obs o).fnNext = true
  · simp only [hc, if_true]
    refine invB_thr hB t _ ⟨hcnt, htodo, hpcB⟩ ?_ (by simp [pushed, hpc]) ?_
    · intro o'
      by_cases ho : o' = o
      · subst ho
        have := hf o'
        simp only [true_or, if_true] at this
        intro hsd _
        simpa [pos] using this hsd (.inr hc)
      · have := hf o'
        simpa [pos, ho] using this
    · intro o' hh; simp [subPhase] at hh
  · have hc' : (s.obs o).fnNext = false := by simpa using hc
    simp only [hc', Bool.false_eq_true, if_false]
    refine invB_thr hB t _ ⟨hcnt, htodo, hpcB⟩ ?_ (by simp [pushed, hpc]) ?_
    · intro o'
      by_cases ho : o' = o
      · subst ho
        intro _ hx
        simp [pos, hc'] at hx
      · have := hf o'
        simpa [pos, ho] using this
    · intro o' hh; simp [subPhase] at hh

theorem invB_step_r0 {progs : List (List Call)} {s s' : State} {t : Nat} {k : Nat} {v : Data}
    (hq : s.quiet) (hB : InvB progs s)
    (hpc : (s.threads t).pc = .r0 k v) (hs : stepT s t = some s') : InvB progs s' := by
  obtain ⟨hcnt, htodo, hpcB⟩ := hB.loc t
  rw [hpc] at hpcB; simp only at hpcB
  simp only [stepT, hpc, Option.some.injEq] at hs; subst hs
  have hin : (s.threads t).pc.inNext = true := by rw [hpc]; rfl
  constructor
  · intro t'
    simp only [setThr]
    split
    · rename_i h; subst h; exact ⟨hcnt, htodo, hpcB⟩
    · exact hB.loc t'
  · intro o t'
    simp only [setThr]
    split
    · rename_i h; subst h
      have := hB.full o t'
      simpa [pos, hpc] using this
    · exact hB.full o t'
  · intro ts o hh
    simp only [setThr] at hh
    split at hh
    · simp [subPhase] at hh
    · exact (hq ts t (inSub_of_subPhase hh) hin).elim
  · simp
  · intro o x h
    have := hB.handIn o x h
    simp [this]

theorem invB_step_nxD {progs : List (List Call)} {s s' : State} {t : Nat} {k : Nat} {v : Data} {o : Nat}
    {rest : List Nat} (hq : s.quiet) (hA : InvA s) (hB : InvB progs s)
    (hpc : (s.threads t).pc = .nxD k v o rest) (hs : stepT s t = some s') : InvB progs s' := by
  obtain ⟨hcnt, htodo, hpcB⟩ := hB.loc t
  have hlA := hA.loc t
  rw [hpc] at hlA hpcB; simp only [LocA] at hlA; simp only at hpcB
  have hf := fun o => hB.full o t
  simp only [pos, hpc] at hf
  simp only [stepT, hpc, Option.some.injEq] at hs; subst hs
  have hnotin : o ∉ rest := (List.nodup_cons.mp hlA.1).1
  have hin : (s.threads t).pc.inNext = true := by rw [hpc]; rfl
  constructor
  · intro t'
    simp only [setThr]
    split
    · rename_i h; subst h; exact ⟨hcnt, htodo, hpcB⟩
    · exact hB.loc t'
  · intro o' t'
    simp only [setThr, setObs]
    by_cases ho : o' = o
    · subst ho
      simp only [if_true]
      by_cases ht : t' = t
      · subst ht
        simp only [if_true, pos, hnotin, if_false]
        have := hf o'
        simp only [if_true] at this
        intro hsd _
        obtain ⟨ha, hl⟩ := this hsd (.inl rfl)
        simp only [proj_cons, if_true, List.reverse_cons, List.length_cons]
        refine ⟨?_, by omega⟩
        have hidx : (s.obs o').base t' + (proj t' (s.obs o').rlog).reverse.length = k := by
          rw [List.length_reverse]; exact hl
        have := Asc.append (v := v) ha (by rw [hidx]; exact hpcB.2)
        rw [hidx] at this
        exact this
      · simp only [if_neg ht]
        have hne : ¬ t = t' := fun h => ht h.symm
        have hp : proj t' ((some t, k, v) :: (s.obs o').rlog) = proj t' (s.obs o').rlog := by
          rw [proj_cons]; simp [hne]
        have := hB.full o' t'
        simp only [Full] at this ⊢
        rw [hp]
        exact this
    · simp only [if_neg ho]
      by_cases ht : t' = t
      · subst ht
        simp only [if_true]
        have := hf o'
        simpa [pos, ho] using this
      · simp only [if_neg ht]; exact hB.full o' t'
  · intro ts o' hh
    simp only [setThr] at hh
    split at hh
    · simp [subPhase] at hh
    · exact (hq ts t (inSub_of_subPhase hh) hin).elim
  · exact hB.lastIn
  · intro o' x h
    simp only [setObs] at h
    split at h
    · rename_i ho; subst ho; exact hB.handIn o' x h
    · exact hB.handIn o' x h


/-- the observer of a thread that is past `rdLast` is owned by that thread -/
theorem used_of_subPhase {s : State} (hA : InvA s) {ts o : Nat} (h : subPhase (s.threads ts).pc = some o) :
    (s.obs o).used = some ts := by
  have h1 := hA.loc ts
  cases hp : (s.threads ts).pc <;> simp [hp, subPhase] at h <;> simp only [hp, LocA] at h1 <;> subst h <;> exact h1.1

theorem invB_step_s1 {progs : List (List Call)} {s s' : State} {t : Nat} {o : Nat}
    (hq : s.quiet) (hA : InvA s) (hB : InvB progs s)
    (hpc : (s.threads t).pc = .s1 o) (hs : stepT s t = some s') : InvB progs s' := by
  obtain ⟨hcnt, htodo, hpcB⟩ := hB.loc t
  have hlA := hA.loc t
  rw [hpc] at hlA; simp only [LocA] at hlA
  simp only [stepT, hpc, Option.some.injEq] at hs; subst hs
  have hsub : (s.threads t).pc.inSub = true := by rw [hpc]; rfl
  have hnn : ∀ t', (s.threads t').pc.inNext = false := by
    intro t'
    cases h : (s.threads t').pc.inNext with
    | false => rfl
    | true => exact (hq t t' hsub h).elim
  have hpushed : ∀ t', pushed (setThr s t { (s.threads t) with pc := .s2 o s.last } t') = (s.threads t').cnt := by
    intro t'
    simp only [setThr]
    split
    · rename_i h; subst h; simp [pushed]
    · exact (pos_of_not_inNext (hnn t') 0).2
  constructor
  · intro t'
    simp only [setThr]
    split
    · rename_i h; subst h; exact ⟨hcnt, htodo, by simp⟩
    · exact hB.loc t'
  · intro o' t'
    have hpos : pos (setThr s t { (s.threads t) with pc := .s2 o s.last } t') o' = pos (s.threads t') o' := by
      simp only [setThr]
      split
      · rename_i h; subst h; simp [pos, hpc]
      · rfl
    show Full _ _ _ (pos (setThr s t { (s.threads t) with pc := .s2 o s.last } t') o')
    rw [hpos]
    simp only [setObs]
    split
    · rename_i ho; subst ho
      intro hsd; simp [hlA.2.2.1] at hsd
    · exact hB.full o' t'
  · intro ts o' hh t'
    show _ = pushed (setThr s t { (s.threads t) with pc := .s2 o s.last } t') ∧ _
    rw [hpushed]
    by_cases ho : o' = o
    · subst ho
      simp [setObs, hlA.2.2.2]
    · simp only [setObs, if_neg ho]
      simp only [setThr] at hh
      split at hh
      · simp only [subPhase, Option.some.injEq] at hh; exact (ho hh.symm).elim
      · have := hB.phase1 ts o' hh t'
        rw [(pos_of_not_inNext (hnn t') 0).2] at this
        exact this
  · exact hB.lastIn
  · intro o' x h
    simp only [setObs] at h
    split at h
    · simp only [Option.some.injEq] at h; subst h; exact hB.lastIn
    · exact hB.handIn o' x h

theorem invB_step_s3d {progs : List (List Call)} {s s' : State} {t : Nat} {o : Nat} {x : Data}
    (hB : InvB progs s)
    (hpc : (s.threads t).pc = .s3d o x) (hs : stepT s t = some s') : InvB progs s' := by
  obtain ⟨hcnt, htodo, hpcB⟩ := hB.loc t
  simp only [stepT, hpc, Option.some.injEq] at hs; subst hs
  refine invB_same hB t _ rfl rfl rfl ?_ ⟨hcnt, htodo, by simp⟩ ?_ ?_ ?_
  · intro o'; simp only [setObs]; by_cases ho : o' = o
    · subst ho; simp [proj_cons]
    · simp [ho]
  · intro o'; simp [pos, hpc]
  · simp [pushed, hpc]
  · intro o' hh; simpa [subPhase, hpc] using hh

theorem invB_step_s9 {progs : List (List Call)} {s s' : State} {t : Nat} {o : Nat}
    (hq : s.quiet) (hB : InvB progs s)
    (hpc : (s.threads t).pc = .s9 o) (hs : stepT s t = some s') : InvB progs s' := by
  obtain ⟨hcnt, htodo, hpcB⟩ := hB.loc t
  simp only [stepT, hpc, Option.some.injEq] at hs; subst hs
  have hsub : (s.threads t).pc.inSub = true := by rw [hpc]; rfl
  have hnn : ∀ t', (s.threads t').pc.inNext = false := by
    intro t'
    cases h : (s.threads t').pc.inNext with
    | false => rfl
    | true => exact (hq t t' hsub h).elim
  have hpushed : ∀ t', pushed (setThr s t { (s.threads t) with pc := .idle } t') = pushed (s.threads t') := by
    intro t'
    simp only [setThr]
    split
    · rename_i h; subst h; simp [pushed, hpc]
    · rfl
  constructor
  · intro t'
    simp only [setThr]
    split
    · rename_i h; subst h; exact ⟨hcnt, htodo, by simp⟩
    · exact hB.loc t'
  · intro o' t'
    have hpos : pos (setThr s t { (s.threads t) with pc := .idle } t') o' = ((s.threads t').cnt, false) := by
      simp only [setThr]
      split
      · rename_i h; subst h; simp [pos]
      · exact (pos_of_not_inNext (hnn t') o').1
    show Full _ _ _ (pos (setThr s t { (s.threads t) with pc := .idle } t') o')
    rw [hpos]
    simp only [setObs]
    split
    · rename_i ho; subst ho
      intro _ _
      obtain ⟨hb, hp⟩ := hB.phase1 t o' (by simp [hpc, subPhase]) t'
      dsimp only
      rw [hp, hb, (pos_of_not_inNext (hnn t') o').2]
      simp [Asc]
    · have := hB.full o' t'
      rw [(pos_of_not_inNext (hnn t') o').1] at this
      exact this
  · intro ts o' hh t'
    show _ = pushed (setThr s t { (s.threads t) with pc := .idle } t') ∧ _
    rw [hpushed]
    simp only [setThr] at hh
    split at hh
    · simp [subPhase] at hh
    · have := hB.phase1 ts o' hh t'
      simp only [setObs]
      split
      · rename_i ho; subst ho; simpa using this
      · exact this
  · exact hB.lastIn
  · intro o' x h
    simp only [setObs] at h
    split at h
    · rename_i ho; subst ho; exact hB.handIn o' x (by simpa using h)
    · exact hB.handIn o' x h

theorem invB_step {progs : List (List Call)} {s s' : State} {t : Nat} (hq : s.quiet) (hA : InvA s)
    (hB : InvB progs s) (hs : stepT s t = some s') : InvB progs s' := by
  cases hpc : (s.threads t).pc with
  | idle => exact invB_step_idle hB hpc hs
  | r0 k v => exact invB_step_r0 hq hB hpc hs
  | nx0 k v => exact invB_step_nx0 hA hB hpc hs
  | nxL k v snap => exact invB_step_nxL hA hB hpc hs
  | nxF k v o rest => exact invB_step_nxF hA hB hpc hs
  | nxD k v o rest => exact invB_step_nxD hq hA hB hpc hs
  | s0 o => exact invB_step_s0 hB hpc hs
  | s1 o => exact invB_step_s1 hq hA hB hpc hs
  | s2 o x => exact invB_step_s2 hB hpc hs
  | s3 o x => exact invB_step_s3 hB hpc hs
  | s3d o x => exact invB_step_s3d hB hpc hs
  | s4 o => exact invB_step_s4 hB hpc hs
  | s5 o => exact invB_step_s5 hB hpc hs
  | s6 o => exact invB_step_s6 hB hpc hs
  | s7 o => exact invB_step_s7 hB hpc hs
  | s8 o => exact invB_step_s8 hB hpc hs
  | s9 o => exact invB_step_s9 hq hB hpc hs
  | u0 o => exact invB_step_u0 hB hpc hs
  | u1 o => exact invB_step_u1 hB hpc hs
  | u2 o => exact invB_step_u2 hB hpc hs
  | u3 o => exact invB_step_u3 hB hpc hs
  | u4 o => exact invB_step_u4 hB hpc hs
  | u5 o => exact invB_step_u5 hB hpc hs
  | u6 o => exact invB_step_u6 hB hpc hs
  | u7 o => exact invB_step_u7 hB hpc hs
  | u8 o => exact invB_step_u8 hB hpc hs
  | u9 o => exact invB_step_u9 hB hpc hs
  | u9r o => exact invB_step_u9r hB hpc hs
  | u9c o => exact invB_step_u9c hB hpc hs
  | u10 o => exact invB_step_u10 hB hpc hs

theorem quiet_init (progs : List (List Call)) (initial : Data) : (init progs initial).quiet := by
  intro t t' h; simp [init, Pc.inSub] at h

theorem ReachableQ.quiet {progs : List (List Call)} {initial : Data} {s : State} (h : ReachableQ progs initial s) :
    s.quiet := by
  cases h with
  | init => exact quiet_init progs initial
  | step _ _ hq => exact hq

theorem invB_reachableQ {progs : List (List Call)} {initial : Data} {s : State} (h : ReachableQ progs initial s) :
    InvB progs s := by
  induction h with
  | init => exact invB_init progs initial
  | step hr hs _ ih =>
    simp only [step] at hs
    split at hs
    · exact invB_step hr.quiet (invA_reachable hr.reachable) ih hs
    · simp at hs

end Rx.Conc.Behavior
