import RxVerif.Theorems.C03RefFlatMapA
/-
C03-REF, flat_map, part 2: model A's `oFlatMap f src` (Machine/Lib.lean, transliterating src/operators/flat_map.rs) where
`src` is plain hot subject 0 and `f x` is the plain hot subject number `x mod k` (the case language's `fm_ref`)
REFINES the pure history machine `Comb.flatMap` with selector `defaultInner k`.
Entities are the controller's serials: 0 = the outer observer, `n ≥ 1` = the inner observer created for the n-th item.
-/
namespace Rx.GRef.FlatMap
open Rx.Sim Rx.Ref Rx.Comb Rx.CRef

def scOf (k : Nat) : Sctl := ⟨0, 2 * k, 2 * k + 1, 2 * k⟩

/-- `fm_ref s0 .. s(k-1)` (Machine/Case.lean): item `x` selects subject `x mod k` -/
def fOf (k : Nat) : Data → Obsv := fun x =>
  ((sjs k).map Subj.observable).getD (x.toInt.emod ((sjs k).map Subj.observable).length).toNat oNever

/-- flat_map.rs:36-52: the outer observer's `next` closure -/
def newInner (k : Nat) (x : Data) : Prog :=
  (scOf k).newObserver (fun _ xx => (scOf k).sinkNext xx) (fun _ ee => (scOf k).sinkError ee)
    (fun serial => (scOf k).sinkComplete serial) fun o => (fOf k x).sub o

def lay (k : Nat) : GLay where
  k := k
  cs := 2 * k
  cm := 2 * k + 1
  cx := 2 * k + 2
  fin := 2 * k
  ser e := e
  ob e := 1 + e
  hn e x := if e = 0 then newInner k x else (scOf k).sinkNext x
  he _ err := (scOf k).sinkError err
  hc e := (scOf k).sinkComplete e

theorem lay_ok (k : Nat) : (lay k).Ok where
  cs := by simp [lay]
  cm := by simp only [lay]; omega
  cx := by simp only [lay]; omega
  ne1 := by simp [lay]
  ne2 := by simp [lay]
  ne3 := by simp [lay]
  fin := by simp [lay]
  obPos := by intro e; simp only [lay]; omega
  obInj := by intro a b h; simp only [lay] at h; omega
  serInj := by intro a b h; exact h

theorem inner_lt {k : Nat} (hk : 0 < k) (x : Data) : flatMap.defaultInner k x < k := by
  simp only [flatMap.defaultInner]
  have h1 := Int.emod_nonneg x.toInt (show (k : Int) ≠ 0 by omega)
  have h2 := Int.emod_lt_of_pos x.toInt (show (0 : Int) < k by omega)
  have he : x.toInt.emod k = x.toInt % k := rfl
  omega

theorem fOf_eq {k : Nat} (hk : 0 < k) (x : Data) : fOf k x = (sjOf (flatMap.defaultInner k x)).observable := by
  have hl : ((sjs k).map Subj.observable).length = k := by simp [sjs]
  simp only [fOf, hl]
  have hi := inner_lt hk x
  simp only [flatMap.defaultInner] at hi ⊢
  rw [List.getD_eq_getElem?_getD, List.getElem?_map, sjs_get, if_pos hi]; rfl

/-- what ties the existential entity table to the machine state; `P` = the entities of a terminal broadcast in
    progress that have not been reached yet -/
structure Inv (k : Nat) (E : Ent) (s : flatMap.State) (P : List Nat) : Prop where
  pos : 1 ≤ s.nextSerial
  subs_eq : s.subs = (List.range s.nextSerial).map fun e => (e, E.sub e)
  subK : ∀ e, e < s.nextSerial → E.sub e < k
  sorted : s.ctl.live.Pairwise (· < ·)
  liveLt : ∀ e ∈ s.ctl.live, e < s.nextSerial
  regLt : ∀ e ∈ s.ctl.reg, e < s.nextSerial
  mode : ∀ e ∈ s.ctl.live, E.mode e = if P.contains e then .pend else .on
  ci : CI s.ctl

/-- the controller lost live / registered observers, nothing else changed -/
theorem Inv.shrink {k : Nat} {E : Ent} {s : flatMap.State} {P P' : List Nat} (h : Inv k E s P) (c' : Ctl)
    (hl : c'.live.Sublist s.ctl.live) (hr : ∀ e ∈ c'.reg, e ∈ s.ctl.reg) (hci : CI c')
    (hP : ∀ e ∈ c'.live, P'.contains e = P.contains e) : Inv k E { s with ctl := c' } P' :=
  { pos := h.pos, subs_eq := h.subs_eq, subK := h.subK
    sorted := h.sorted.sublist hl
    liveLt := fun e he => h.liveLt e (hl.subset he)
    regLt := fun e he => h.regLt e (hr e he)
    mode := fun e he => by rw [hP e he]; exact h.mode e (hl.subset he)
    ci := hci }

theorem reg_sinkNext (c : Ctl) (d : Data) : ∀ a ∈ (c.sinkNext d).1.reg, a ∈ c.reg := by
  intro a h; unfold Ctl.sinkNext at h; split at h
  · exact h
  · cases h
theorem reg_sinkError (c : Ctl) (x : Nat) : ∀ a ∈ (c.sinkError x).1.reg, a ∈ c.reg := by
  intro a h; unfold Ctl.sinkError at h; split at h <;> cases h
theorem reg_sinkComplete (c : Ctl) (i : Nat) : ∀ a ∈ (c.sinkComplete i).1.reg, a ∈ c.reg := by
  intro a h; unfold Ctl.sinkComplete at h; split at h
  · split at h
    · cases h
    · exact (List.mem_filter.1 h).1
  · cases h

/-- the entity table after the outer observer created and subscribed inner observer `n` on subject `j` -/
def Ent.grow (E : Ent) (n j : Nat) : Ent := (E.attach n j).activate n j

theorem grow_sub_other (E : Ent) {n j a : Nat} (h : a ≠ n) : (Ent.grow E n j).sub a = E.sub a := fupd_other _ _ h
theorem grow_sub_same (E : Ent) (n j : Nat) : (Ent.grow E n j).sub n = j := fupd_same _ _ _
theorem grow_mode_other (E : Ent) {n j a : Nat} (h : a ≠ n) : (Ent.grow E n j).mode a = E.mode a := by
  show fupd (fupd E.mode n .fresh) n .on a = _
  rw [fupd_other _ _ h, fupd_other _ _ h]
theorem grow_mode_same (E : Ent) (n j : Nat) : (Ent.grow E n j).mode n = .on := fupd_same _ _ _

/-- the invariant after the outer observer's `next` -/
theorem Inv.grow {k : Nat} {E : Ent} {s : flatMap.State} (h : Inv k E s []) (ha : s.ctl.alive = true) {j : Nat}
    (hj : j < k) :
    Inv k (Ent.grow E s.nextSerial j)
      { ctl := s.ctl.addObserver s.nextSerial, subs := s.subs ++ [(s.nextSerial, j)],
        nextSerial := s.nextSerial + 1 } [] where
  pos := by show 1 ≤ s.nextSerial + 1; omega
  subs_eq := by
    show s.subs ++ _ = (List.range (s.nextSerial + 1)).map _
    rw [List.range_succ, List.map_append, h.subs_eq]
    congr 1
    · apply List.map_congr_left
      intro e he
      rw [grow_sub_other E (by have := List.mem_range.1 he; omega)]
    · simp [grow_sub_same]
  subK := by
    intro e he
    by_cases q : e = s.nextSerial
    · subst q; rw [grow_sub_same]; exact hj
    · rw [grow_sub_other E q]; exact h.subK e (by have : e < s.nextSerial + 1 := he; omega)
  sorted := by
    show (s.ctl.live ++ [s.nextSerial]).Pairwise _
    rw [List.pairwise_append]
    exact ⟨h.sorted, List.pairwise_singleton _ _, fun a ha b hb => by
      simp only [List.mem_singleton] at hb; subst hb; exact h.liveLt a ha⟩
  liveLt := by
    intro e he
    simp only [Ctl.addObserver, List.mem_append, List.mem_singleton] at he
    show e < s.nextSerial + 1
    rcases he with q | q
    · have := h.liveLt e q; omega
    · omega
  regLt := by
    intro e he
    simp only [Ctl.addObserver, List.mem_append, List.mem_singleton] at he
    show e < s.nextSerial + 1
    rcases he with q | q
    · have := h.regLt e q; omega
    · omega
  mode := by
    intro e he
    simp only [Ctl.addObserver, List.mem_append, List.mem_singleton] at he
    simp only [List.contains_nil, Bool.false_eq_true, ↓reduceIte]
    rcases he with q | q
    · have hne : e ≠ s.nextSerial := by have := h.liveLt e q; omega
      rw [grow_mode_other E hne]; simpa using h.mode e q
    · subst q; exact grow_mode_same E _ j
  ci := h.ci.addObserver ha _

/-- the relation during a broadcast (`P` = entities of a terminal broadcast not reached yet) -/
def RB (k : Nat) (s : flatMap.State) (P : List Nat) (out : List Ev) (w : World) : Prop :=
  ∃ E, Rel (lay k) E [] s.ctl ⟨.unit, s.nextSerial, 1 + s.nextSerial⟩ out w ∧ Inv k E s P

/-- the outer observer's `next` closure (flat_map.rs:36-52): `new_observer` — the re-check finds the subscriber
    alive, see `CI` — then `inner_subscribe` to the selected subject -/
theorem outer_next_spec {k : Nat} (hk : 0 < k) {E : Ent} {s : flatMap.State} {out : List Ev} {w : World} (x : Data)
    (hrel : Rel (lay k) E [] s.ctl ⟨.unit, s.nextSerial, 1 + s.nextSerial⟩ out w) (hinv : Inv k E s [])
    (h0 : s.ctl.live.contains 0 = true) :
    WP (newInner k x) w
      (RB k { ctl := s.ctl.addObserver s.nextSerial,
              subs := s.subs ++ [(s.nextSerial, flatMap.defaultInner k x)],
              nextSerial := s.nextSerial + 1 } [] out) := by
  have ok := lay_ok k
  have hj := inner_lt hk x
  have halive : s.ctl.alive = true := by
    cases q : s.ctl.alive with
    | true => rfl
    | false => have := hinv.ci.al q; rw [this] at h0; cases h0
  have hnk : known s.ctl s.nextSerial = false := by
    simp only [known, Bool.or_eq_false_iff]
    constructor
    · cases q : s.ctl.live.contains s.nextSerial with
      | false => rfl
      | true => have := hinv.liveLt _ (by simpa using q); omega
    · cases q : s.ctl.reg.contains s.nextSerial with
      | false => rfl
      | true => have := hinv.regLt _ (by simpa using q); omega
  have hn0 : s.nextSerial ≠ 0 := by have := hinv.pos; omega
  simp only [newInner]
  refine newObserver_spec (L := lay k) ok hrel halive (e := s.nextSerial) (j := flatMap.defaultInner k x)
    hj hnk rfl rfl _ _ _ (by simp [fullObs, lay, hn0]) _ fun w2 h2 => ?_
  rw [fOf_eq hk]
  refine (subscribe_ent ok h2 (e := s.nextSerial) (j := flatMap.defaultInner k x) hj (fupd_same _ _ _)
    (fupd_same _ _ _) (by simp [Ctl.addObserver]) ?_).conseq fun w3 h3 => ⟨_, h3, hinv.grow halive hj⟩
  -- the new entity is registered after the observers already in that subject
  have hnl : ∀ a ∈ s.ctl.live, a ≠ s.nextSerial := fun a ha q => by have := hinv.liveLt a ha; omega
  simp only [inMap, Ctl.addObserver, List.filter_append]
  have hA : s.ctl.live.filter (fun e =>
      ((E.attach s.nextSerial (flatMap.defaultInner k x)).activate s.nextSerial (flatMap.defaultInner k x)).sub e ==
        flatMap.defaultInner k x &&
      (((E.attach s.nextSerial (flatMap.defaultInner k x)).activate s.nextSerial
        (flatMap.defaultInner k x)).mode e).isOn) =
      s.ctl.live.filter (fun e => (E.attach s.nextSerial (flatMap.defaultInner k x)).sub e ==
        flatMap.defaultInner k x && ((E.attach s.nextSerial (flatMap.defaultInner k x)).mode e).isOn) := by
    apply List.filter_congr
    intro a ha
    have q := hnl a ha
    have hm : ((E.attach s.nextSerial (flatMap.defaultInner k x)).activate s.nextSerial
        (flatMap.defaultInner k x)).mode a = (E.attach s.nextSerial (flatMap.defaultInner k x)).mode a :=
      fupd_other _ _ q
    rw [hm]; rfl
  have hs1 : ((E.attach s.nextSerial (flatMap.defaultInner k x)).activate s.nextSerial
      (flatMap.defaultInner k x)).sub s.nextSerial = flatMap.defaultInner k x := fupd_same _ _ _
  have hm1 : ((E.attach s.nextSerial (flatMap.defaultInner k x)).activate s.nextSerial
      (flatMap.defaultInner k x)).mode s.nextSerial = .on := fupd_same _ _ _
  have hm2 : (E.attach s.nextSerial (flatMap.defaultInner k x)).mode s.nextSerial = .fresh := fupd_same _ _ _
  rw [hA]
  simp only [List.filter_cons, List.filter_nil, hs1, hm1, hm2, Mode.isOn, beq_self_eq_true, Bool.and_true,
    Bool.and_false, ↓reduceIte, Bool.false_eq_true, List.append_nil]

theorem kill_notin (c : Ctl) (e : Nat) : e ∉ (c.kill e).live := by
  simp [Ctl.kill, List.mem_filter]

/-- one delivery of a broadcast = `Comb.flatMap.deliver` -/
theorem deliver_spec {k : Nat} (hk : 0 < k) (ev : Ev) (e : Nat) (rest : List Nat)
    (s : flatMap.State) (out : List Ev) (w : World)
    (h : RB k s (if ev.isTerminal then e :: rest else []) out w) :
    WP (evProg ev ((lay k).ob e) .done) w
      (RB k (flatMap.deliver (flatMap.defaultInner k) s e ev).1 (if ev.isTerminal then rest else [])
        (out ++ (flatMap.deliver (flatMap.defaultInner k) s e ev).2)) := by
  have ok := lay_ok k
  obtain ⟨E, hrel, hinv⟩ := h
  cases hlv : s.ctl.live.contains e with
  | false =>
    rw [deliver_dead' _ s e ev hlv, List.append_nil]
    refine deliver_notlive hrel hlv ev (WP.done ⟨E, hrel, ?_⟩)
    refine hinv.shrink s.ctl (List.Sublist.refl _) (fun _ q => q) hinv.ci fun a ha => ?_
    cases ev.isTerminal with
    | false => rfl
    | true =>
      have : a ≠ e := by
        intro q; subst q
        have : s.ctl.live.contains a = true := by simpa using ha
        rw [hlv] at this; cases this
      simp [this]
  | true =>
    have hmode : ev.isTerminal = true → E.mode e ≠ .on := by
      intro ht
      have := hinv.mode e (by simpa using hlv)
      simp only [ht, ↓reduceIte, List.contains_cons, beq_self_eq_true, Bool.true_or] at this
      rw [this]; exact fun q => nomatch q
    refine deliver_live ok hrel hlv ev hmode fun w1 h1 => ?_
    -- the state the closure starts from
    have hinv1 : Inv k E { s with ctl := if ev.isTerminal then s.ctl.kill e else s.ctl }
        (if ev.isTerminal then rest else []) := by
      cases ht : ev.isTerminal with
      | false =>
        simp only [ht, Bool.false_eq_true, ↓reduceIte] at hinv ⊢
        exact hinv
      | true =>
        simp only [ht, ↓reduceIte] at hinv ⊢
        refine hinv.shrink _ (kill_sub _ _) (fun _ q => q) (hinv.ci.kill e) fun a ha => ?_
        have : a ≠ e := fun q => kill_notin s.ctl e (q ▸ ha)
        simp [this]
    have hstep : ∀ (c' : Ctl) (o' : List Ev) (w2 : World), c'.live.Sublist (if ev.isTerminal then s.ctl.kill e else s.ctl).live →
        (∀ a ∈ c'.reg, a ∈ s.ctl.reg) → CI c' →
        Rel (lay k) E [] c' ⟨.unit, s.nextSerial, 1 + s.nextSerial⟩ o' w2 →
        WP .done w2 (RB k { s with ctl := c' } (if ev.isTerminal then rest else []) o') := by
      intro c' o' w2 hl hr hci h2
      exact WP.done ⟨E, h2, hinv1.shrink c' hl (fun a ha => by
        have := hr a ha; cases ev.isTerminal <;> exact this) hci fun _ _ => rfl⟩
    simp only [flatMap.deliver, Ctl.isLive, hlv, ↓reduceIte]
    by_cases he0 : e = 0
    · subst he0
      simp only [beq_self_eq_true, ↓reduceIte]
      cases ev with
      | next x =>
        simp only [Ev.isTerminal, Bool.false_eq_true, ↓reduceIte, List.append_nil] at h1 hinv1 ⊢
        show WP (newInner k x) _ _
        exact (outer_next_spec hk x h1 hinv1 hlv).conseq fun w2 q => WP.done q
      | error x =>
        simp only [Ev.isTerminal, ↓reduceIte] at h1 hstep hinv1 ⊢
        refine (sinkError_spec ok h1 x).conseq fun w2 h2 => ?_
        exact hstep _ _ w2 (sinkError_sub _ _) (reg_sinkError _ _) (hinv1.ci.sinkError x) h2
      | complete =>
        simp only [Ev.isTerminal, ↓reduceIte] at h1 hstep hinv1 ⊢
        refine (sinkComplete_spec ok h1 0).conseq fun w2 h2 => ?_
        exact hstep _ _ w2 (sinkComplete_sub _ _) (reg_sinkComplete _ _)
          (hinv1.ci.sinkComplete 0 (kill_notin _ _)) h2
    · have hb : (e == 0) = false := by rw [beq_eq_false_iff_ne]; exact he0
      simp only [hb, Bool.false_eq_true, ↓reduceIte]
      cases ev with
      | next x =>
        simp only [Ev.isTerminal, Bool.false_eq_true, ↓reduceIte] at h1 hstep hinv1 ⊢
        show WP (codeBody (.next x) ((lay k).hn e) _ _) _ _
        simp only [codeBody, lay, he0, ↓reduceIte]
        refine (sinkNext_spec ok h1 x).conseq fun w2 h2 => ?_
        exact hstep _ _ w2 (sinkNext_sub _ _) (reg_sinkNext _ _) (hinv1.ci.sinkNext x) h2
      | error x =>
        simp only [Ev.isTerminal, ↓reduceIte] at h1 hstep hinv1 ⊢
        refine (sinkError_spec ok h1 x).conseq fun w2 h2 => ?_
        exact hstep _ _ w2 (sinkError_sub _ _) (reg_sinkError _ _) (hinv1.ci.sinkError x) h2
      | complete =>
        simp only [Ev.isTerminal, ↓reduceIte] at h1 hstep hinv1 ⊢
        refine (sinkComplete_spec ok h1 e).conseq fun w2 h2 => ?_
        exact hstep _ _ w2 (sinkComplete_sub _ _) (reg_sinkComplete _ _)
          (hinv1.ci.sinkComplete e (kill_notin _ _)) h2

/-- the loop over the snapshot = `Comb.flatMap.broadcast` over the same entities -/
theorem bcast_spec {k : Nat} (hk : 0 < k) (ev : Ev) : ∀ (S : List Nat) (s : flatMap.State) (out : List Ev) (w : World),
    RB k s (if ev.isTerminal then S else []) out w →
    WP (bcast (lay k) ev S) w
      (RB k (flatMap.broadcast (flatMap.defaultInner k) ev s S).1 []
        (out ++ (flatMap.broadcast (flatMap.defaultInner k) ev s S).2)) := by
  intro S
  induction S with
  | nil =>
    intro s out w h
    rw [bcast_nil]
    simp only [flatMap.broadcast, List.append_nil]
    refine WP.done ?_
    simpa using h
  | cons e rest ih =>
    intro s out w h
    rw [bcast_cons, broadcast_cons]
    apply WP.seq
    refine (deliver_spec hk ev e rest s out w h).conseq fun w1 h1 => ?_
    refine (ih _ _ w1 h1).conseq fun w2 h2 => ?_
    rw [← List.append_assoc]; exact h2

/-- all serials ever attached to subject `j`, in creation order -/
theorem attached_eq {k : Nat} {E : Ent} {s : flatMap.State} {P : List Nat} (h : Inv k E s P) (j : Nat) :
    (s.subs.filter (·.2 == j)).map (·.1) = (List.range s.nextSerial).filter fun e => E.sub e == j := by
  rw [h.subs_eq, List.filter_map, List.map_map]
  have : ((fun p : Nat × Nat => p.1) ∘ fun e => (e, E.sub e)) = id := rfl
  rw [this, List.map_id]; rfl

/-- model A's snapshot = the attached serials that are live -/
theorem snapshot_eq {k : Nat} {E : Ent} {s : flatMap.State} (h : Inv k E s []) (j : Nat) :
    ((s.subs.filter (·.2 == j)).map (·.1)).filter s.ctl.live.contains = inMap E s.ctl j := by
  rw [attached_eq h j]
  apply sorted_ext
  · exact (List.pairwise_lt_range.filter _).filter _
  · exact h.sorted.filter _
  · intro e
    simp only [inMap, List.mem_filter, List.mem_range, Bool.and_eq_true, beq_iff_eq, Mode.isOn_iff,
      List.contains_eq_mem, decide_eq_true_eq]
    constructor
    · rintro ⟨⟨_, q2⟩, q3⟩
      exact ⟨q3, q2, by simpa using h.mode e q3⟩
    · rintro ⟨q1, q2, _⟩
      exact ⟨⟨h.liveLt e q1, q2⟩, q1⟩

end Rx.GRef.FlatMap
