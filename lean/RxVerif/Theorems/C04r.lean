import RxVerif.Kernel.Retry
import RxVerif.Spec.Retry
/-
C04 (recovery operators): `retry(max)`, `retry_when(p)`, `on_error_resume_next(f)` over a flaky cold source
(`attempts : List Stream`, k-th subscription plays the k-th stream, the last one again from then on).

Kernel side  : `Kernel/Retry.lean`  — line-by-line mirror of `do_subscribe` + `StreamController`
Spec side    : `Spec/Retry.lean`    — list-level ReactiveX description
Main results : `retry_spec`, `retry_unbounded_spec`, `retry_subscriptions_le`, `retry_count_exact`,
               `retry_count_min`, `retry_unbounded_diverges`, `retry_when_spec`, `retry_when_diverges`,
               `resume_spec`, `retry_error_identity`, `retry_when_error_identity`, `resume_error_identity`.
All universally quantified over attempt lists, budgets, predicates, fuel; proved by induction over the
recursion of `do_subscribe` with the controller invariant `Good`.
-/
namespace Rx.C04
open Rx Rx.Spec

/-! ### the flaky source of the kernel is the flaky source of the spec -/

theorem attemptAt_eq (attempts : List Stream) (i : Nat) : attemptAt attempts i = attemptNo attempts i := by
  fun_induction attemptNo attempts i with
  | case1 => simp [attemptAt]
  | case2 s i => cases i <;> simp [attemptAt]
  | case3 s s' rest => simp [attemptAt]
  | case4 s s' rest i ih =>
    have : attemptAt (s :: s' :: rest) (i + 1) = attemptAt (s' :: rest) i := by
      simp [attemptAt, List.getLastD]
    rw [this, ih]

theorem attemptNo_zero (s : Stream) (rest : List Stream) : attemptNo (s :: rest) 0 = s := by
  cases rest <;> simp [attemptNo]

theorem attemptNo_mem (attempts : List Stream) (i : Nat) :
    attemptNo attempts i ∈ attempts ∨ attemptNo attempts i = ([], .silent) := by
  fun_induction attemptNo attempts i with
  | case1 => simp
  | case2 s i => simp
  | case3 s s' rest => simp
  | case4 s s' rest i ih =>
    rcases ih with h | h
    · left; exact List.mem_cons_of_mem _ h
    · right; exact h

theorem attemptNo_mem_of_ne (attempts : List Stream) (i : Nat) (hne : attempts ≠ []) :
    attemptNo attempts i ∈ attempts := by
  rcases attemptNo_mem attempts i with h | h
  · exact h
  · revert hne h
    fun_induction attemptNo attempts i with
    | case1 => intro h; exact absurd rfl h
    | case2 s i => intro _ _; simp
    | case3 s s' rest => intro _ _; simp
    | case4 s s' rest i ih =>
      intro _ h
      exact List.mem_cons_of_mem _ (ih (by simp) h)

/-- a stream played as a script and read back is the same stream -/
theorem ofScript_toEvs (s : Stream) : Stream.ofScript s.toEvs = s := by
  obtain ⟨xs, t⟩ := s
  induction xs with
  | nil => cases t <;> simp [Stream.toEvs, Ending.toEvs, Stream.ofScript]
  | cons x xs ih =>
    simp only [Stream.toEvs, List.map_cons, List.cons_append, Stream.ofScript] at ih ⊢
    rw [ih]

/-! ### `firstStop` really is the first attempt that is not retryable -/

theorem firstStop_some (r : Stream → Bool) : ∀ (l : List Stream) (k : Nat), firstStop r l = some k →
    1 ≤ k ∧ k ≤ l.length ∧ (∀ i, i + 1 < k → r (attemptNo l i) = true) ∧ r (attemptNo l (k - 1)) = false := by
  intro l
  induction l with
  | nil => intro k h; simp [firstStop] at h
  | cons s rest ih =>
    intro k h
    by_cases hs : r s = true
    · simp only [firstStop, hs, if_true, Option.map_eq_some_iff] at h
      obtain ⟨k', hk', rfl⟩ := h
      cases rest with
      | nil => simp [firstStop] at hk'
      | cons s' rest' =>
        obtain ⟨h1, h2, h3, h4⟩ := ih k' hk'
        refine ⟨by omega, by simp at h2 ⊢; omega, ?_, ?_⟩
        · intro i hi
          cases i with
          | zero => simpa [attemptNo] using hs
          | succ i => simp only [attemptNo]; exact h3 i (by omega)
        · obtain ⟨j, rfl⟩ : ∃ j, k' = j + 1 := ⟨k' - 1, by omega⟩
          simpa [attemptNo] using h4
    · have hs' : r s = false := by simpa using hs
      simp only [firstStop, hs'] at h
      have : k = 1 := by simpa using h.symm
      subst this
      refine ⟨by omega, by simp, by intro i hi; omega, ?_⟩
      simpa [attemptNo_zero] using hs'

theorem firstStop_none (r : Stream → Bool) : ∀ (l : List Stream), l ≠ [] → firstStop r l = none →
    ∀ i, r (attemptNo l i) = true := by
  intro l
  induction l with
  | nil => intro h; exact absurd rfl h
  | cons s rest ih =>
    intro _ h i
    by_cases hs : r s = true
    · simp only [firstStop, hs, if_true, Option.map_eq_none_iff] at h
      cases rest with
      | nil => simpa [attemptNo] using hs
      | cons s' rest' =>
        cases i with
        | zero => simpa [attemptNo] using hs
        | succ i => simp only [attemptNo]; exact ih (by simp) h i
    · have hs' : r s = false := by simpa using hs
      simp [firstStop, hs'] at h

theorem firstStop_isSome_of_mem (r : Stream → Bool) : ∀ (l : List Stream), (∃ s ∈ l, r s = false) →
    ∃ k, firstStop r l = some k := by
  intro l
  induction l with
  | nil => intro h; simp at h
  | cons s rest ih =>
    intro h
    by_cases hs : r s = true
    · have : ∃ s ∈ rest, r s = false := by
        obtain ⟨t, ht, hr⟩ := h
        rcases List.mem_cons.mp ht with rfl | ht
        · simp [hs] at hr
        · exact ⟨t, ht, hr⟩
      obtain ⟨k, hk⟩ := ih this
      exact ⟨k + 1, by simp [firstStop, hs, hk]⟩
    · have hs' : r s = false := by simpa using hs
      exact ⟨1, by simp [firstStop, hs']⟩

/-! ### controller invariant between two `do_subscribe` calls -/

/-- downstream still subscribed, no upstream observer registered, every unsubscribed serial is an old one -/
structure Good (c : Ctl) : Prop where
  alive : c.alive = true
  reg : c.registered = []
  old : ∀ x : Nat, x ∈ c.cancelled → x < c.serial

theorem good_init : Good ({} : Ctl) := ⟨rfl, rfl, by intro x h; simp at h⟩

theorem feed_alive (serial : Nat) (xs : List Data) : ∀ c : Ctl, c.alive = true → serial ∉ c.cancelled →
    c.feed serial xs = { c with out := c.out ++ xs.map Ev.next } := by
  induction xs with
  | nil => intro c _ _; simp [Ctl.feed]
  | cons x xs ih =>
    intro c h1 h2
    have hs : c.sinkNext x = { c with out := c.out ++ [Ev.next x] } := by simp [Ctl.sinkNext, h1]
    rw [Ctl.feed, if_neg h2, hs, ih { c with out := c.out ++ [Ev.next x] } h1 h2]
    simp

/-- the state in which the source of attempt `n` is subscribed: `new_observer` on a `Good` controller -/
def armed (c : Ctl) : Ctl :=
  { c with serial := c.serial + 1, registered := [c.serial], subs := c.subs + 1 }

theorem armed_fresh {c : Ctl} (g : Good c) : c.serial ∉ (armed c).cancelled := by
  intro h; have := g.old _ h; omega

theorem play_silent {c : Ctl} (g : Good c) (s : Stream) (hs : s.2 = .silent) :
    (armed c).playInto c.serial s = ({ armed c with out := c.out ++ s.1.map Ev.next }, none) := by
  have hf := feed_alive c.serial s.1 (armed c) g.alive (armed_fresh g)
  have hfresh := armed_fresh g
  simp only [Ctl.playInto, hf, hs]
  simp [armed] at hfresh ⊢
  simp [hfresh]

theorem play_complete {c : Ctl} (g : Good c) (s : Stream) (hs : s.2 = .complete) :
    (armed c).playInto c.serial s =
      ({ armed c with out := c.out ++ s.1.map Ev.next ++ [Ev.complete], alive := false, registered := [] }, none) := by
  have hf := feed_alive c.serial s.1 (armed c) g.alive (armed_fresh g)
  have hfresh := armed_fresh g
  simp only [Ctl.playInto, hf, hs]
  simp [armed] at hfresh ⊢
  simp [hfresh]
  simp [Ctl.sinkComplete, g.alive, Ctl.finalize]

theorem play_error {c : Ctl} (g : Good c) (s : Stream) (e : Nat) (hs : s.2 = .error e) :
    (armed c).playInto c.serial s = ({ armed c with out := c.out ++ s.1.map Ev.next }, some e) := by
  have hf := feed_alive c.serial s.1 (armed c) g.alive (armed_fresh g)
  have hfresh := armed_fresh g
  simp only [Ctl.playInto, hf, hs]
  simp [armed] at hfresh ⊢
  simp [hfresh]

/-- the state after `upstream_abort_observe(&serial)` in the error closure -/
def aborted (c : Ctl) (s : Stream) : Ctl :=
  { c with serial := c.serial + 1, registered := [], cancelled := c.cancelled ++ [c.serial],
           subs := c.subs + 1, out := c.out ++ s.1.map Ev.next }

theorem aborted_good {c : Ctl} (g : Good c) (s : Stream) : Good (aborted c s) := by
  refine ⟨g.alive, rfl, ?_⟩
  intro x hx
  simp only [aborted, List.mem_append, List.mem_singleton] at hx ⊢
  rcases hx with h | h
  · have := g.old x h; omega
  · omega

theorem abort_eq {c : Ctl} (s : Stream) :
    ({ armed c with out := c.out ++ s.1.map Ev.next } : Ctl).abortObserve c.serial = aborted c s := by
  simp [Ctl.abortObserve, armed, aborted]

/-! ### one `do_subscribe` call -/

/-- does attempt number `n` (playing `s`) lead to a resubscription? -/
def resub (again : Nat → Nat → Bool) (s : Stream) (n : Nat) : Bool :=
  match s.2 with
  | .error e => again n e
  | _ => false

theorem step_again (again : Nat → Nat → Bool) (attempts : List Stream) (fuel n : Nat) {c : Ctl} (g : Good c)
    (h : resub again (attemptAt attempts (n - 1)) n = true) :
    resubGo again attempts (fuel + 1) n c
      = resubGo again attempts fuel (n + 1) (aborted c (attemptAt attempts (n - 1))) := by
  generalize hs : attemptAt attempts (n - 1) = s at h
  unfold resub at h
  split at h
  · rename_i e he
    have hp := play_error g s e he
    simp only [armed] at hp
    have ha := abort_eq (c := c) s
    simp only [armed] at ha
    simp only [resubGo, Ctl.newObserver, g.reg, hs, hp, h, if_true, ha]
  · simp at h

theorem step_stop (again : Nat → Nat → Bool) (attempts : List Stream) (fuel n : Nat) {c : Ctl} (g : Good c)
    (h : resub again (attemptAt attempts (n - 1)) n = false) :
    (resubGo again attempts (fuel + 1) n c).out = c.out ++ (attemptAt attempts (n - 1)).toEvs ∧
    (resubGo again attempts (fuel + 1) n c).subs = c.subs + 1 := by
  generalize hs : attemptAt attempts (n - 1) = s at h
  unfold resub at h
  cases he : s.2 with
  | silent =>
    have hp := play_silent g s he
    simp only [armed] at hp
    simp [resubGo, Ctl.newObserver, g.reg, hs, hp, Stream.toEvs, he, Ending.toEvs]
  | complete =>
    have hp := play_complete g s he
    simp only [armed] at hp
    simp [resubGo, Ctl.newObserver, g.reg, hs, hp, Stream.toEvs, he, Ending.toEvs]
  | error e =>
    have hp := play_error g s e he
    simp only [armed] at hp
    simp only [he] at h
    simp only [resubGo, Ctl.newObserver, g.reg, hs, hp, h]
    simp [Stream.toEvs, he, Ending.toEvs, Ctl.sinkError, g.alive, Ctl.finalize]

/-! ### the whole recursion -/

/-- items of attempts j+1 … j+len -/
def itemsFrom (attempts : List Stream) (j len : Nat) : List Ev :=
  (List.range' j len).flatMap (fun i => (attemptNo attempts i).1.map Ev.next)

/-- attempts j+1 … j+d resubscribe, attempt j+d+1 does not, fuel for d+1 calls: the run is determined -/
theorem go_spec (again : Nat → Nat → Bool) (attempts : List Stream) :
    ∀ (d j fuel : Nat) (c : Ctl), Good c → d + 1 ≤ fuel →
      (∀ i, i < d → resub again (attemptNo attempts (j + i)) (j + i + 1) = true) →
      resub again (attemptNo attempts (j + d)) (j + d + 1) = false →
      (resubGo again attempts fuel (j + 1) c).out
          = c.out ++ itemsFrom attempts j (d + 1) ++ (attemptNo attempts (j + d)).2.toEvs ∧
      (resubGo again attempts fuel (j + 1) c).subs = c.subs + (d + 1) := by
  intro d
  induction d with
  | zero =>
    intro j fuel c g hf _ hstop
    obtain ⟨fuel, rfl⟩ : ∃ f, fuel = f + 1 := ⟨fuel - 1, by omega⟩
    have := step_stop again attempts fuel (j + 1) g (by simpa [attemptAt_eq] using hstop)
    simpa [attemptAt_eq, itemsFrom, Stream.toEvs, List.range'] using this
  | succ d ih =>
    intro j fuel c g hf hre hstop
    obtain ⟨fuel, rfl⟩ : ∃ f, fuel = f + 1 := ⟨fuel - 1, by omega⟩
    have h0 := hre 0 (by omega)
    rw [step_again again attempts fuel (j + 1) g (by simpa [attemptAt_eq] using h0)]
    have := ih (j + 1) fuel (aborted c (attemptAt attempts (j + 1 - 1))) (aborted_good g _) (by omega)
      (by intro i hi; have := hre (i + 1) (by omega); simpa [Nat.add_assoc, Nat.add_comm 1 i] using this)
      (by simpa [Nat.add_assoc, Nat.add_comm 1 d] using hstop)
    obtain ⟨h1, h2⟩ := this
    refine ⟨?_, ?_⟩
    · rw [h1]
      have e1 : j + 1 + d = j + (d + 1) := by omega
      simp only [aborted, Nat.add_sub_cancel, attemptAt_eq, e1, itemsFrom]
      rw [List.range'_succ (s := j) (n := d + 1)]
      simp [List.append_assoc]
    · rw [h2]; simp only [aborted]; omega

/-- every attempt resubscribes: the recursion uses all its fuel (Rust: never returns) -/
theorem go_all_fuel (again : Nat → Nat → Bool) (attempts : List Stream) :
    ∀ (fuel j : Nat) (c : Ctl), Good c →
      (∀ i, i < fuel → resub again (attemptNo attempts (j + i)) (j + i + 1) = true) →
      (resubGo again attempts fuel (j + 1) c).subs = c.subs + fuel := by
  intro fuel
  induction fuel with
  | zero => intro j c _ _; simp [resubGo]
  | succ fuel ih =>
    intro j c g hre
    have h0 := hre 0 (by omega)
    rw [step_again again attempts fuel (j + 1) g (by simpa [attemptAt_eq] using h0)]
    rw [ih (j + 1) _ (aborted_good g _)
      (by intro i hi; have := hre (i + 1) (by omega); simpa [Nat.add_assoc, Nat.add_comm 1 i] using this)]
    simp only [aborted]; omega

theorem error_mem_toEvs (s : Stream) (e : Nat) : Ev.error e ∈ s.toEvs ↔ s.2 = .error e := by
  cases h : s.2 <;> simp [Stream.toEvs, h, Ending.toEvs, eq_comm]

/-- errors delivered downstream are errors of attempts -/
theorem go_error_identity (again : Nat → Nat → Bool) (attempts : List Stream) (e : Nat) :
    ∀ (fuel n : Nat) (c : Ctl), Good c → Ev.error e ∈ (resubGo again attempts fuel n c).out →
      Ev.error e ∈ c.out ∨ ∃ s ∈ attempts, s.2 = .error e := by
  intro fuel
  induction fuel with
  | zero => intro n c _ h; left; simpa [resubGo] using h
  | succ fuel ih =>
    intro n c g h
    by_cases hr : resub again (attemptAt attempts (n - 1)) n = true
    · rw [step_again again attempts fuel n g hr] at h
      rcases ih (n + 1) _ (aborted_good g _) h with h' | h'
      · left; simpa [aborted] using h'
      · right; exact h'
    · have hr' : resub again (attemptAt attempts (n - 1)) n = false := by simpa using hr
      rw [(step_stop again attempts fuel n g hr').1] at h
      rcases List.mem_append.mp h with h' | h'
      · left; exact h'
      · right
        have hs := (error_mem_toEvs _ e).1 h'
        rcases attemptNo_mem attempts (n - 1) with hm | hm
        · exact ⟨_, hm, by simpa [attemptAt_eq] using hs⟩
        · rw [attemptAt_eq, hm] at hs; simp at hs

/-! ### retry -/

theorem resub_retry (max : Nat) (s : Stream) (n : Nat) :
    resub (retryAgain max) s n = (failed s && (max == 0 || decide (n < max))) := by
  unfold resub failed retryAgain
  cases s.2 <;> simp

/-- the spec's count, and the facts the recursion needs about it -/
theorem retryCount_facts (max : Nat) (attempts : List Stream) (hne : attempts ≠ [])
    (hfin : max ≠ 0 ∨ ∃ k, firstStop failed attempts = some k) :
    1 ≤ retryCount max attempts ∧
    (∀ i, i + 1 < retryCount max attempts →
        resub (retryAgain max) (attemptNo attempts i) (i + 1) = true) ∧
    resub (retryAgain max) (attemptNo attempts (retryCount max attempts - 1)) (retryCount max attempts - 1 + 1) = false := by
  unfold retryCount
  cases hk : firstStop failed attempts with
  | some k =>
    obtain ⟨h1, _, h3, h4⟩ := firstStop_some failed attempts k hk
    by_cases hm : max = 0
    · subst hm
      simp only [if_true]
      refine ⟨h1, ?_, ?_⟩
      · intro i hi; simp [resub_retry, h3 i hi]
      · simp [resub_retry, h4]
    · simp only [hm, if_false]
      refine ⟨by omega, ?_, ?_⟩
      · intro i hi
        have : i + 1 < max := by omega
        simp [resub_retry, h3 i (by omega), this]
      · by_cases hle : k ≤ max
        · have : min k max = k := by omega
          simp [resub_retry, this, h4]
        · have : min k max = max := by omega
          have h2 : max - 1 + 1 = max := by omega
          simp [resub_retry, this, h2, hm]
  | none =>
    have hall := firstStop_none failed attempts hne hk
    have hm : max ≠ 0 := by
      rcases hfin with h | ⟨k, h⟩
      · exact h
      · rw [hk] at h; cases h
    simp only
    refine ⟨by omega, ?_, ?_⟩
    · intro i hi
      simp [resub_retry, hall i, hi]
    · have h2 : max - 1 + 1 = max := by omega
      simp [resub_retry, h2, hm]

theorem retry_run_eq (max : Nat) (attempts : List Stream) (fuel : Nat) (hne : attempts ≠ [])
    (hfin : max ≠ 0 ∨ ∃ k, firstStop failed attempts = some k)
    (hfuel : retryCount max attempts ≤ fuel) :
    retryRun max attempts fuel = retrySpec max attempts := by
  obtain ⟨h1, h2, h3⟩ := retryCount_facts max attempts hne hfin
  generalize hm : retryCount max attempts = m at h1 h2 h3 hfuel
  obtain ⟨d, rfl⟩ : ∃ d, m = d + 1 := ⟨m - 1, by omega⟩
  have := go_spec (retryAgain max) attempts d 0 fuel {} good_init hfuel
    (by intro i hi; simpa using h2 i (by omega)) (by simpa using h3)
  simp only [Nat.zero_add] at this
  simp only [retryRun, retrySpec, attemptsUpTo, hm, this.1, this.2, itemsFrom, List.range_eq_range']
  simp

/-- **retry(max), max ≠ 0** — with fuel for `retryCount max attempts` (≤ max) calls of `do_subscribe`, the
mirror of the Rust recursion delivers exactly the spec's events and makes exactly the spec's number of
subscriptions. -/
theorem retry_spec (max : Nat) (attempts : List Stream) (fuel : Nat) (hne : attempts ≠ [])
    (hmax : max ≠ 0) (hfuel : retryCount max attempts ≤ fuel) :
    retryRun max attempts fuel = retrySpec max attempts :=
  retry_run_eq max attempts fuel hne (Or.inl hmax) hfuel

theorem retryCount_le_max (max : Nat) (attempts : List Stream) (hmax : max ≠ 0) :
    retryCount max attempts ≤ max := by
  unfold retryCount
  split
  · simp only [hmax, if_false]; omega
  · omega

/-- the fuel bound `max ≤ fuel` is always sufficient -/
theorem retry_spec' (max : Nat) (attempts : List Stream) (fuel : Nat) (hne : attempts ≠ [])
    (hmax : max ≠ 0) (hfuel : max ≤ fuel) :
    retryRun max attempts fuel = retrySpec max attempts :=
  retry_spec max attempts fuel hne hmax (Nat.le_trans (retryCount_le_max max attempts hmax) hfuel)

/-- **retry(0)** (unbounded) over a source one of whose attempts does not fail -/
theorem retry_unbounded_spec (attempts : List Stream) (fuel : Nat)
    (hok : ∃ s ∈ attempts, failed s = false) (hfuel : retryCount 0 attempts ≤ fuel) :
    retryRun 0 attempts fuel = retrySpec 0 attempts := by
  have hne : attempts ≠ [] := by
    obtain ⟨s, hs, _⟩ := hok
    intro h; simp [h] at hs
  exact retry_run_eq 0 attempts fuel hne (Or.inr (firstStop_isSome_of_mem failed attempts hok)) hfuel

/-- for `retry(0)` the count is the number of the first non-failing attempt, at most the list length -/
theorem retryCount_zero_le_length (attempts : List Stream) (hok : ∃ s ∈ attempts, failed s = false) :
    retryCount 0 attempts ≤ attempts.length := by
  obtain ⟨k, hk⟩ := firstStop_isSome_of_mem failed attempts hok
  have := (firstStop_some failed attempts k hk).2.1
  simp [retryCount, hk, this]

/-- number of subscriptions for ANY fuel: the spec's count, cut off by the fuel -/
theorem retry_count_min (max : Nat) (attempts : List Stream) (fuel : Nat) (hne : attempts ≠ [])
    (hfin : max ≠ 0 ∨ ∃ k, firstStop failed attempts = some k) :
    (retryRun max attempts fuel).2 = min fuel (retryCount max attempts) := by
  by_cases hf : retryCount max attempts ≤ fuel
  · rw [retry_run_eq max attempts fuel hne hfin hf]
    simp only [retrySpec, attemptsUpTo]; omega
  · obtain ⟨_, h2, _⟩ := retryCount_facts max attempts hne hfin
    have := go_all_fuel (retryAgain max) attempts fuel 0 {} good_init
      (by intro i hi; simpa using h2 i (by omega))
    simp only [retryRun]
    simp at this
    rw [this]; omega

/-- **retry(max), max ≠ 0, never subscribes more than `max` times** (any fuel) -/
theorem retry_subscriptions_le (max : Nat) (attempts : List Stream) (fuel : Nat) (hne : attempts ≠ [])
    (hmax : max ≠ 0) : (retryRun max attempts fuel).2 ≤ max := by
  rw [retry_count_min max attempts fuel hne (Or.inl hmax)]
  have := retryCount_le_max max attempts hmax
  omega

/-- **exact number of subscriptions of retry(max)**: `min k max` where `k` is the number of the first
attempt not ending in an error; `max` if there is none.  In particular `retry(1)` subscribes once. -/
theorem retry_count_exact (max : Nat) (attempts : List Stream) (fuel : Nat) (hne : attempts ≠ [])
    (hmax : max ≠ 0) (hfuel : max ≤ fuel) :
    (retryRun max attempts fuel).2 =
      match firstStop failed attempts with
      | some k => min k max
      | none => max := by
  rw [retry_spec' max attempts fuel hne hmax hfuel]
  simp only [retrySpec, attemptsUpTo, retryCount]
  split <;> simp_all

/-- `retry(1)` never resubscribes: one subscription, the first attempt forwarded unchanged -/
theorem retry_one (attempts : List Stream) (fuel : Nat) (hne : attempts ≠ []) (hfuel : 1 ≤ fuel) :
    retryRun 1 attempts fuel = ((attemptNo attempts 0).toEvs, 1) := by
  rw [retry_spec' 1 attempts fuel hne (by omega) hfuel]
  have h1 := retryCount_le_max 1 attempts (by omega)
  have h2 := (retryCount_facts 1 attempts hne (Or.inl (by omega))).1
  have : retryCount 1 attempts = 1 := by omega
  simp [retrySpec, attemptsUpTo, this, Stream.toEvs, List.range_succ]

/-- **retry(0) over a source that never stops failing does not terminate**: whatever the fuel, all of it is
used for subscriptions (the Rust recursion nests without bound). -/
theorem retry_unbounded_diverges (attempts : List Stream) (fuel : Nat) (hne : attempts ≠ [])
    (hall : ∀ s ∈ attempts, failed s = true) : (retryRun 0 attempts fuel).2 = fuel := by
  have hnone : firstStop failed attempts = none := by
    cases h : firstStop failed attempts with
    | none => rfl
    | some k =>
      obtain ⟨_, _, _, h4⟩ := firstStop_some failed attempts k h
      rw [hall _ (attemptNo_mem_of_ne attempts (k - 1) hne)] at h4; cases h4
  have hre := firstStop_none failed attempts hne hnone
  have := go_all_fuel (retryAgain 0) attempts fuel 0 {} good_init
    (by intro i _; simp [resub_retry, hre])
  simpa [retryRun] using this

/-- **error identity**: every error `retry` delivers is the error some attempt ended with -/
theorem retry_error_identity (max : Nat) (attempts : List Stream) (fuel e : Nat)
    (h : Ev.error e ∈ (retryRun max attempts fuel).1) : ∃ s ∈ attempts, s.2 = .error e := by
  rcases go_error_identity (retryAgain max) attempts e fuel 1 {} good_init h with h' | h'
  · simp at h'
  · exact h'

/-! ### retry_when -/

theorem resub_retryWhen (p : Nat → Bool) (s : Stream) (n : Nat) :
    resub (retryWhenAgain p) s n = failedWith p s := by
  unfold resub failedWith retryWhenAgain
  cases s.2 <;> simp

/-- **retry_when(p)**: `k` = number of the first attempt that does not fail with an error satisfying `p`;
with fuel for `k` calls the run is the items of attempts 1..k and the terminal of attempt k; k subscriptions. -/
theorem retry_when_spec (p : Nat → Bool) (attempts : List Stream) (fuel k : Nat)
    (hk : firstStop (failedWith p) attempts = some k) (hfuel : k ≤ fuel) :
    retryWhenRun p attempts fuel = retryWhenSpec p attempts ∧
    retryWhenSpec? p attempts = some (retryWhenRun p attempts fuel) := by
  obtain ⟨h1, _, h3, h4⟩ := firstStop_some (failedWith p) attempts k hk
  obtain ⟨d, rfl⟩ : ∃ d, k = d + 1 := ⟨k - 1, by omega⟩
  have := go_spec (retryWhenAgain p) attempts d 0 fuel {} good_init hfuel
    (by intro i hi; simpa [resub_retryWhen] using h3 i (by omega))
    (by simpa [resub_retryWhen] using h4)
  simp only [Nat.zero_add] at this
  have e : retryWhenRun p attempts fuel = attemptsUpTo attempts (d + 1) := by
    simp only [retryWhenRun, attemptsUpTo, this.1, this.2, itemsFrom, List.range_eq_range']
    simp
  exact ⟨by simp [e, retryWhenSpec, hk], by simp [e, retryWhenSpec?, hk]⟩

/-- the same with the hypothesis spelled out on the attempts: some attempt does not fail retryably -/
theorem retry_when_spec' (p : Nat → Bool) (attempts : List Stream) (fuel : Nat)
    (hok : ∃ s ∈ attempts, failedWith p s = false) (hfuel : attempts.length ≤ fuel) :
    retryWhenRun p attempts fuel = retryWhenSpec p attempts := by
  obtain ⟨k, hk⟩ := firstStop_isSome_of_mem (failedWith p) attempts hok
  have := (firstStop_some (failedWith p) attempts k hk).2.1
  exact (retry_when_spec p attempts fuel k hk (by omega)).1

/-- number of subscriptions of retry_when for ANY fuel -/
theorem retry_when_count_min (p : Nat → Bool) (attempts : List Stream) (fuel k : Nat)
    (hk : firstStop (failedWith p) attempts = some k) :
    (retryWhenRun p attempts fuel).2 = min fuel k := by
  by_cases hf : k ≤ fuel
  · rw [(retry_when_spec p attempts fuel k hk hf).1]
    simp only [retryWhenSpec, attemptsUpTo, hk, Option.getD_some]; omega
  · obtain ⟨_, _, h3, _⟩ := firstStop_some (failedWith p) attempts k hk
    have := go_all_fuel (retryWhenAgain p) attempts fuel 0 {} good_init
      (by intro i hi; simpa [resub_retryWhen] using h3 i (by omega))
    simp only [retryWhenRun]
    simp at this
    rw [this]; omega

/-- retry_when whose predicate accepts the error of every attempt does not terminate -/
theorem retry_when_diverges (p : Nat → Bool) (attempts : List Stream) (fuel : Nat) (hne : attempts ≠ [])
    (hnone : firstStop (failedWith p) attempts = none) : (retryWhenRun p attempts fuel).2 = fuel := by
  have hre := firstStop_none (failedWith p) attempts hne hnone
  have := go_all_fuel (retryWhenAgain p) attempts fuel 0 {} good_init
    (by intro i _; simp [resub_retryWhen, hre])
  simpa [retryWhenRun] using this

theorem retry_when_error_identity (p : Nat → Bool) (attempts : List Stream) (fuel e : Nat)
    (h : Ev.error e ∈ (retryWhenRun p attempts fuel).1) : ∃ s ∈ attempts, s.2 = .error e := by
  rcases go_error_identity (retryWhenAgain p) attempts e fuel 1 {} good_init h with h' | h'
  · simp at h'
  · exact h'

/-- an error delivered by retry_when is one the predicate rejected, provided the run had enough fuel -/
theorem retry_when_error_rejected (p : Nat → Bool) (attempts : List Stream) (fuel k e : Nat)
    (hk : firstStop (failedWith p) attempts = some k) (hfuel : k ≤ fuel)
    (h : Ev.error e ∈ (retryWhenRun p attempts fuel).1) : p e = false := by
  obtain ⟨h1, _, _, h4⟩ := firstStop_some (failedWith p) attempts k hk
  rw [(retry_when_spec p attempts fuel k hk hfuel).1] at h
  simp only [retryWhenSpec, attemptsUpTo, hk, Option.getD_some, List.mem_append, List.mem_flatMap,
    List.mem_map, reduceCtorEq, and_false, exists_false, false_or] at h
  unfold failedWith at h4
  cases he : (attemptNo attempts (k - 1)).2 with
  | silent => simp [he, Ending.toEvs] at h
  | complete => simp [he, Ending.toEvs] at h
  | error e' =>
    simp only [he, Ending.toEvs, List.mem_singleton, Ev.error.injEq] at h
    subst h
    simpa [he] using h4

/-! ### on_error_resume_next -/

/-- **on_error_resume_next(f)**: the source's items, then — after `error e` — whatever `f e` plays; otherwise
the source's own terminal.  The error `e` itself is never delivered. -/
theorem resume_go (f : Nat → Stream) (s : Stream) {c : Ctl} (g : Good c) :
    (resumeGo f s c).out = c.out ++ resumeSpec f s := by
  unfold resumeGo resumeSpec
  cases he : s.2 with
  | silent =>
    have hp := play_silent g s he
    simp only [armed] at hp
    simp [Ctl.newObserver, g.reg, hp, Ending.toEvs]
  | complete =>
    have hp := play_complete g s he
    simp only [armed] at hp
    simp [Ctl.newObserver, g.reg, hp, Ending.toEvs]
  | error e =>
    have hp := play_error g s e he
    simp only [armed] at hp
    have ha := abort_eq (c := c) s
    simp only [armed] at ha
    have g1 := aborted_good g s
    have hr : (aborted c s).registered = [] := rfl
    have ho : (aborted c s).out = c.out ++ s.1.map Ev.next := rfl
    simp only [Ctl.newObserver, g.reg, hp, ha, hr]
    cases he' : (f e).2 with
    | silent =>
      have hp' := play_silent g1 (f e) he'
      simp only [armed] at hp'
      simp only [hp']
      simp [ho, Stream.toEvs, he', Ending.toEvs]
    | complete =>
      have hp' := play_complete g1 (f e) he'
      simp only [armed] at hp'
      simp only [hp']
      simp [ho, Stream.toEvs, he', Ending.toEvs]
    | error e' =>
      have hp' := play_error g1 (f e) e' he'
      simp only [armed] at hp'
      simp only [hp']
      simp [ho, Stream.toEvs, he', Ending.toEvs, Ctl.sinkError, Ctl.finalize, g1.alive]

theorem resume_spec (f : Nat → Stream) (s : Stream) : resumeRun f s = resumeSpec f s := by
  simpa [resumeRun, resumeCtl] using resume_go f s good_init

/-- an error delivered by on_error_resume_next is the error of the resumed observable `f e` -/
theorem resume_error_identity (f : Nat → Stream) (s : Stream) (e' : Nat)
    (h : Ev.error e' ∈ resumeRun f s) : ∃ e, s.2 = .error e ∧ (f e).2 = .error e' := by
  rw [resume_spec] at h
  unfold resumeSpec at h
  cases he : s.2 with
  | silent => simp [he, Ending.toEvs] at h
  | complete => simp [he, Ending.toEvs] at h
  | error e =>
    simp only [he, List.mem_append, List.mem_map, reduceCtorEq, and_false, exists_false, false_or] at h
    exact ⟨e, rfl, (error_mem_toEvs _ _).1 h⟩

/-! ### non-vacuity -/

section Examples
def fail1 : Stream := ([.int 1, .int 2], .error 7)
def fail2 : Stream := ([.int 3], .error 8)
def okay : Stream := ([.int 4], .complete)

-- budget 1 = no resubscription: the first failure is forwarded
example : retryRun 1 [fail1, fail2, okay] 5 = ([.next (.int 1), .next (.int 2), .error 7], 1) := by decide
example : retryRun 1 [fail1, fail2, okay] 5 = retrySpec 1 [fail1, fail2, okay] := by decide
-- budget 3 over [fail, fail, ok]: two resubscriptions, items of all three attempts, completion
example : retryRun 3 [fail1, fail2, okay] 5
    = ([.next (.int 1), .next (.int 2), .next (.int 3), .next (.int 4), .complete], 3) := by decide
example : retrySpec 3 [fail1, fail2, okay]
    = ([.next (.int 1), .next (.int 2), .next (.int 3), .next (.int 4), .complete], 3) := by decide
-- budget 2 over the same source: the SECOND error is the one forwarded
example : retryRun 2 [fail1, fail2, okay] 5
    = ([.next (.int 1), .next (.int 2), .next (.int 3), .error 8], 2) := by decide
-- hypotheses of retry_spec / retry_unbounded_spec / retry_when_spec are satisfiable
example : [fail1, fail2, okay] ≠ [] ∧ (3 : Nat) ≠ 0 ∧ retryCount 3 [fail1, fail2, okay] ≤ 5 := by decide
example : (∃ s ∈ [fail1, fail2, okay], failed s = false) ∧ retryCount 0 [fail1, fail2, okay] ≤ 3 :=
  ⟨⟨okay, by decide, by decide⟩, by decide⟩
example : retryRun 0 [fail1, fail2, okay] 3 = retrySpec 0 [fail1, fail2, okay] := by decide
-- the last attempt is repeated: budget 5 over [fail1, fail2] subscribes 5 times
example : retryRun 5 [fail1, fail2] 9
    = ([.next (.int 1), .next (.int 2), .next (.int 3), .next (.int 3), .next (.int 3), .next (.int 3), .error 8], 5) := by
  decide
-- divergence hypothesis satisfiable; with fuel 4 all 4 units are used
example : (∀ s ∈ [fail1, fail2], failed s = true) ∧ (retryRun 0 [fail1, fail2] 4).2 = 4 := by decide
-- retry_when: retry only on error 7
example : firstStop (failedWith (fun e => e == 7)) [fail1, fail2, okay] = some 2 := by decide
example : retryWhenRun (fun e => e == 7) [fail1, fail2, okay] 5
    = ([.next (.int 1), .next (.int 2), .next (.int 3), .error 8], 2) := by decide
-- on_error_resume_next
example : resumeRun (fun e => ([.int e], .complete)) fail1
    = [.next (.int 1), .next (.int 2), .next (.int 7), .complete] := by decide
example : resumeRun (fun e => ([.int e], .error (e + 1))) fail1
    = [.next (.int 1), .next (.int 2), .next (.int 7), .error 8] := by decide
example : resumeRun (fun _ => okay) okay = [.next (.int 4), .complete] := by decide
-- error identity hypotheses satisfiable
example : Ev.error 8 ∈ (retryRun 2 [fail1, fail2, okay] 5).1 := by decide
example : Ev.error 8 ∈ resumeRun (fun e => ([.int e], .error (e + 1))) fail1 := by decide
end Examples

#print axioms retry_spec
#print axioms retry_spec'
#print axioms retry_unbounded_spec
#print axioms retry_subscriptions_le
#print axioms retry_count_exact
#print axioms retry_count_min
#print axioms retry_one
#print axioms retry_unbounded_diverges
#print axioms retry_error_identity
#print axioms retry_when_spec
#print axioms retry_when_spec'
#print axioms retry_when_count_min
#print axioms retry_when_diverges
#print axioms retry_when_error_identity
#print axioms retry_when_error_rejected
#print axioms resume_spec
#print axioms resume_error_identity

end Rx.C04
