/-
Structural invariant of the `BehaviorSubject` LTS (all reachable states, no restriction on the schedule).
-/
import RxVerif.Conc.Behavior

namespace Rx.Conc.Behavior

/-- the observer whose forwarder the thread has inserted but whose `subscribe` call has not returned yet -/
def Pc.lateSub : Pc → Option Nat
  | .s9 o => some o
  | _ => none

theorem Pc.inSub_of_lateSub {pc : Pc} {o : Nat} (h : pc.lateSub = some o) : pc.inSub = true := by
  cases pc <;> simp [Pc.lateSub] at h <;> rfl

def LocA (obs : Nat → Obs) (t : Nat) : Pc → Prop
  | .nxL _ _ snap => snap.Nodup ∧ ∀ o ∈ snap, (obs o).ins = true
  | .nxF _ _ o rest | .nxD _ _ o rest => (o :: rest).Nodup ∧ ∀ o' ∈ o :: rest, (obs o').ins = true
  | .s0 o | .s1 o =>
    (obs o).used = some t ∧ (obs o).ins = false ∧ (obs o).subDone = false ∧ (obs o).rlog = []
  | .s2 o x | .s3 o x | .s3d o x =>
    (obs o).used = some t ∧ (obs o).ins = false ∧ (obs o).subDone = false ∧ (obs o).rlog = [] ∧
    (obs o).hand = some x
  | .s4 o =>
    (obs o).used = some t ∧ (obs o).ins = false ∧ (obs o).subDone = false ∧
    ((obs o).fnNext = true → (obs o).rlog ≠ [])
  | .s5 o | .s6 o =>
    (obs o).used = some t ∧ (obs o).ins = false ∧ (obs o).subDone = false ∧ (obs o).rlog ≠ []
  | .s7 o | .s8 o =>
    (obs o).used = some t ∧ (obs o).ins = false ∧ (obs o).subDone = false ∧ (obs o).rlog ≠ [] ∧
    (obs o).fSer.isSome = true
  | .s9 o => (obs o).used = some t ∧ (obs o).ins = true ∧ (obs o).subDone = false
  | .u1 o | .u2 o | .u3 o | .u4 o | .u5 o | .u6 o | .u7 o | .u8 o | .u9 o | .u9r o | .u9c o | .u10 o =>
    (obs o).fnNext = false
  | _ => True

theorem LocA_mono {obs obs' : Nat → Obs} {t : Nat} {pc : Pc}
    (h1 : ∀ o, (obs o).ins = true → (obs' o).ins = true)
    (h2 : ∀ o, (obs o).used = some t → (obs o).subDone = false →
      (obs' o).used = some t ∧ (obs' o).ins = (obs o).ins ∧ (obs' o).subDone = false ∧
      ((obs o).fSer.isSome = true → (obs' o).fSer.isSome = true) ∧ (obs' o).hand = (obs o).hand ∧
      ((obs o).ins = false → (obs' o).rlog = (obs o).rlog))
    (h3 : ∀ o, (obs o).fnNext = false → (obs' o).fnNext = false)
    (h : LocA obs t pc) : LocA obs' t pc := by
  cases pc <;> simp only [LocA] at h ⊢
  case nxL => exact ⟨h.1, fun o ho => h1 o (h.2 o ho)⟩
  case nxF => exact ⟨h.1, fun o ho => h1 o (h.2 o ho)⟩
  case nxD => exact ⟨h.1, fun o ho => h1 o (h.2 o ho)⟩
  case s0 o => have := h2 o h.1 h.2.2.1; grind
  case s1 o => have := h2 o h.1 h.2.2.1; grind
  case s2 o _ => have := h2 o h.1 h.2.2.1; grind
  case s3 o _ => have := h2 o h.1 h.2.2.1; grind
  case s3d o _ => have := h2 o h.1 h.2.2.1; grind
  case s4 o => have := h2 o h.1 h.2.2.1; have := h3 o; grind
  case s5 o => have := h2 o h.1 h.2.2.1; grind
  case s6 o => have := h2 o h.1 h.2.2.1; grind
  case s7 o => have := h2 o h.1 h.2.2.1; grind
  case s8 o => have := h2 o h.1 h.2.2.1; grind
  case s9 o => have := h2 o h.1 h.2.2; grind
  all_goals first | exact h3 _ h | trivial

/-- the log of an observer starts with the hand-over, everything after it is a broadcast delivery -/
def HandFirst (ob : Obs) : Prop :=
  ob.rlog ≠ [] → ∃ x r, ob.hand = some x ∧ ob.rlog = r ++ [(none, 0, x)] ∧ ∀ e ∈ r, e.1.isSome = true

structure InvA (s : State) : Prop where
  loc : ∀ t : Nat, LocA s.obs t (s.threads t).pc
  mapSer : ∀ k o : Nat, (k, o) ∈ s.map → (s.obs o).fSer = some k ∧ (s.obs o).ins = true
  mapNodup : (s.map.map (·.2)).Nodup
  serLe : ∀ o k : Nat, (s.obs o).fSer = some k → k ≤ s.serial
  serInj : ∀ o o' k : Nat, (s.obs o).fSer = some k → (s.obs o').fSer = some k → o = o'
  live : ∀ o : Nat, (s.obs o).ins = true → (s.obs o).fnNext = true → o ∈ s.map.map (·.2)
  insLog : ∀ o : Nat, (s.obs o).ins = true → (s.obs o).rlog ≠ []
  logUsed : ∀ o : Nat, (s.obs o).rlog ≠ [] → (s.obs o).used.isSome = true
  handFirst : ∀ o : Nat, HandFirst (s.obs o)
  insUsed : ∀ o : Nat, (s.obs o).ins = true → (s.obs o).used.isSome = true
  subIns : ∀ o : Nat, (s.obs o).subDone = true → (s.obs o).ins = true
  fLive : ∀ o : Nat, (s.obs o).fFnNext = false → (s.obs o).fnNext = false
  owner : ∀ o ts : Nat, (s.obs o).used = some ts → (s.obs o).ins = true → (s.obs o).subDone = false →
    (s.threads ts).pc.lateSub = some o

theorem invA_init (progs : List (List Call)) (initial : Data) : InvA (init progs initial) := by
  constructor <;> simp [init, LocA, HandFirst]

/-- a step that changes only the stepping thread -/
theorem invA_thr {s : State} (h : InvA s) (t : Nat) (th' : Thread) (hl : LocA s.obs t th'.pc)
    (hown : ∀ o, (s.threads t).pc.lateSub = some o → th'.pc.lateSub = some o) :
    InvA { s with threads := setThr s t th' } := by
  obtain ⟨hloc, hmapSer, hmapNodup, hserLe, hserInj, hlive, hinsLog, hlogUsed, hH1, hinsUsed, hsubIns, hfLive, howner⟩ := h
  constructor <;> try assumption
  · intro t'
    simp only [setThr]
    split
    · rename_i h; subst h; exact hl
    · exact hloc t'
  · intro o ts h1 h2 h3
    simp only [setThr]
    split
    · rename_i h; subst h; exact hown o (howner o ts h1 h2 h3)
    · exact howner o ts h1 h2 h3

set_option hygiene false in
macro "obs_case" : tactic => `(tactic|
  (obtain ⟨hloc, hmapSer, hmapNodup, hserLe, hserInj, hlive, hinsLog, hlogUsed, hH1, hinsUsed, hsubIns, hfLive, howner⟩ := h
   constructor <;> simp only [setThr]
   · intro t'
     by_cases ht : t' = t
     · subst ht; simp only [if_true, LocA] <;> grind [setObs]
     · simp only [if_neg ht]
       refine LocA_mono ?_ ?_ ?_ (hloc t') <;> grind [setObs]
   all_goals grind [setObs, Pc.lateSub, HandFirst]))

theorem invA_step_idle {s s' : State} {t : Nat}  (h : InvA s)
    (hpc : (s.threads t).pc = .idle) (hs : stepT s t = some s') : InvA s' := by
  have hl := h.loc t
  simp only [stepT, hpc] at hs
  split at hs
  · simp at hs
  · simp at hs; subst hs
    exact invA_thr h t _ (by simp [LocA]) (by simp [hpc, Pc.lateSub])
  · split at hs
    · simp at hs
    · simp at hs; subst hs
      obs_case
  · simp at hs; subst hs
    exact invA_thr h t _ (by simp [LocA]) (by simp [hpc, Pc.lateSub])

theorem invA_step_r0 {s s' : State} {t : Nat} {k : _} {v : _} (h : InvA s)
    (hpc : (s.threads t).pc = .r0 k v) (hs : stepT s t = some s') : InvA s' := by
  have hl := h.loc t
  simp only [stepT, hpc, Option.some.injEq] at hs; subst hs
  obtain ⟨hloc, hmapSer, hmapNodup, hserLe, hserInj, hlive, hinsLog, hlogUsed, hH1, hinsUsed, hsubIns, hfLive, howner⟩ := h
  constructor <;> simp only [setThr] <;> try assumption
  · intro t'; split
    · simp [LocA]
    · exact hloc t'
  · grind [Pc.lateSub]

theorem invA_step_nx0 {s s' : State} {t : Nat} {k : _} {v : _} (h : InvA s)
    (hpc : (s.threads t).pc = .nx0 k v) (hs : stepT s t = some s') : InvA s' := by
  have hl := h.loc t
  simp only [stepT, hpc, Option.some.injEq] at hs; subst hs
  refine invA_thr h t _ ?_ (by simp [hpc, Pc.lateSub])
  simp only [LocA]
  exact ⟨h.mapNodup, by grind [InvA]⟩

theorem invA_step_nxL {s s' : State} {t : Nat} {k : _} {v : _} {snap : _} (h : InvA s)
    (hpc : (s.threads t).pc = .nxL k v snap) (hs : stepT s t = some s') : InvA s' := by
  have hl := h.loc t
  rw [hpc] at hl; simp only [LocA] at hl
  cases snap with
  | nil =>
    simp only [stepT, hpc, Option.some.injEq] at hs; subst hs
    exact invA_thr h t _ (by simp [LocA]) (by simp [hpc, Pc.lateSub])
  | cons o rest =>
    simp only [stepT, hpc, Option.some.injEq] at hs; subst hs
    refine invA_thr h t _ ?_ (by simp [hpc, Pc.lateSub])
    dsimp only
    split <;> simp only [LocA] <;> grind

theorem invA_step_nxF {s s' : State} {t : Nat} {k : _} {v : _} {o : _} {rest : _} (h : InvA s)
    (hpc : (s.threads t).pc = .nxF k v o rest) (hs : stepT s t = some s') : InvA s' := by
  have hl := h.loc t
  rw [hpc] at hl; simp only [LocA] at hl
  simp only [stepT, hpc, Option.some.injEq] at hs; subst hs
  refine invA_thr h t _ ?_ (by simp [hpc, Pc.lateSub])
  dsimp only
  split <;> simp only [LocA] <;> grind

theorem invA_step_nxD {s s' : State} {t : Nat} {k : _} {v : _} {o : _} {rest : _} (h : InvA s)
    (hpc : (s.threads t).pc = .nxD k v o rest) (hs : stepT s t = some s') : InvA s' := by
  have hl := h.loc t
  rw [hpc] at hl; simp only [LocA] at hl
  simp only [stepT, hpc, Option.some.injEq] at hs; subst hs
  have hne := h.insLog o (hl.2 o (by simp))
  obs_case

theorem invA_step_s0 {s s' : State} {t : Nat} {o : _} (h : InvA s)
    (hpc : (s.threads t).pc = .s0 o) (hs : stepT s t = some s') : InvA s' := by
  have hl := h.loc t
  rw [hpc] at hl; simp only [LocA] at hl
  simp only [stepT, hpc, Option.some.injEq] at hs; subst hs
  refine invA_thr h t _ ?_ (by simp [hpc, Pc.lateSub])
  dsimp only
  split <;> simp only [LocA] <;> grind

theorem invA_step_s1 {s s' : State} {t : Nat} {o : _} (h : InvA s)
    (hpc : (s.threads t).pc = .s1 o) (hs : stepT s t = some s') : InvA s' := by
  have hl := h.loc t
  rw [hpc] at hl; simp only [LocA] at hl
  simp only [stepT, hpc, Option.some.injEq] at hs; subst hs
  obs_case

theorem invA_step_s2 {s s' : State} {t : Nat} {o : _} {x : _} (h : InvA s)
    (hpc : (s.threads t).pc = .s2 o x) (hs : stepT s t = some s') : InvA s' := by
  have hl := h.loc t
  rw [hpc] at hl; simp only [LocA] at hl
  simp only [stepT, hpc, Option.some.injEq] at hs; subst hs
  exact invA_thr h t _ (by simpa [LocA] using hl) (by simp [hpc, Pc.lateSub])

theorem invA_step_s3 {s s' : State} {t : Nat} {o : _} {x : _} (h : InvA s)
    (hpc : (s.threads t).pc = .s3 o x) (hs : stepT s t = some s') : InvA s' := by
  have hl := h.loc t
  rw [hpc] at hl; simp only [LocA] at hl
  simp only [stepT, hpc, Option.some.injEq] at hs; subst hs
  refine invA_thr h t _ ?_ (by simp [hpc, Pc.lateSub])
  dsimp only
  split <;> simp only [LocA] <;> grind

theorem invA_step_s3d {s s' : State} {t : Nat} {o : _} {x : _} (h : InvA s)
    (hpc : (s.threads t).pc = .s3d o x) (hs : stepT s t = some s') : InvA s' := by
  have hl := h.loc t
  rw [hpc] at hl; simp only [LocA] at hl
  simp only [stepT, hpc, Option.some.injEq] at hs; subst hs
  obtain ⟨hloc, hmapSer, hmapNodup, hserLe, hserInj, hlive, hinsLog, hlogUsed, hH1, hinsUsed, hsubIns, hfLive, howner⟩ := h
  have hfirst : ∀ o', HandFirst (setObs s o { s.obs o with rlog := (none, 0, x) :: (s.obs o).rlog } o') := by
    intro o'
    simp only [setObs]
    split
    · intro _
      exact ⟨x, [], hl.2.2.2.2, by simp [hl.2.2.2.1], by simp⟩
    · exact hH1 o'
  constructor <;> simp only [setThr]
  · intro t'
    by_cases ht : t' = t
    · subst ht; simp only [if_true, LocA] <;> grind [setObs]
    · simp only [if_neg ht]
      refine LocA_mono ?_ ?_ ?_ (hloc t') <;> grind [setObs]
  case handFirst => exact hfirst
  all_goals grind [setObs, Pc.lateSub]

theorem invA_step_s4 {s s' : State} {t : Nat} {o : _} (h : InvA s)
    (hpc : (s.threads t).pc = .s4 o) (hs : stepT s t = some s') : InvA s' := by
  have hl := h.loc t
  rw [hpc] at hl; simp only [LocA] at hl
  simp only [stepT, hpc, Option.some.injEq] at hs; subst hs
  refine invA_thr h t _ ?_ (by simp [hpc, Pc.lateSub])
  dsimp only
  split <;> simp only [LocA] <;> grind

theorem invA_step_s5 {s s' : State} {t : Nat} {o : _} (h : InvA s)
    (hpc : (s.threads t).pc = .s5 o) (hs : stepT s t = some s') : InvA s' := by
  have hl := h.loc t
  rw [hpc] at hl; simp only [LocA] at hl
  simp only [stepT, hpc, Option.some.injEq] at hs; subst hs
  obs_case

theorem invA_step_s6 {s s' : State} {t : Nat} {o : _} (h : InvA s)
    (hpc : (s.threads t).pc = .s6 o) (hs : stepT s t = some s') : InvA s' := by
  have hl := h.loc t
  rw [hpc] at hl; simp only [LocA] at hl
  simp only [stepT, hpc, Option.some.injEq] at hs; subst hs
  obs_case

theorem invA_step_s7 {s s' : State} {t : Nat} {o : _} (h : InvA s)
    (hpc : (s.threads t).pc = .s7 o) (hs : stepT s t = some s') : InvA s' := by
  have hl := h.loc t
  rw [hpc] at hl; simp only [LocA] at hl
  simp only [stepT, hpc, Option.some.injEq] at hs; subst hs
  obs_case

theorem invA_step_s8 {s s' : State} {t : Nat} {o : _} (h : InvA s)
    (hpc : (s.threads t).pc = .s8 o) (hs : stepT s t = some s') : InvA s' := by
  have hl := h.loc t
  rw [hpc] at hl; simp only [LocA] at hl
  simp only [stepT, hpc, Option.some.injEq] at hs; subst hs
  obtain ⟨hu, hi, hsd, hne, hsome⟩ := hl
  obtain ⟨kk, hk⟩ := Option.isSome_iff_exists.mp hsome
  simp only [hk, Option.getD_some]
  obtain ⟨hloc, hmapSer, hmapNodup, hserLe, hserInj, hlive, hinsLog, hlogUsed, hH1, hinsUsed, hsubIns, hfLive, howner⟩ := h
  have hnotin : o ∉ s.map.map (·.2) := by
    intro hin
    simp only [List.mem_map] at hin
    obtain ⟨⟨k, o'⟩, hm, rfl⟩ := hin
    have := (hmapSer k o' hm).2
    simp_all
  constructor <;> simp only [setThr]
  · intro t'
    by_cases ht : t' = t
    · subst ht; simp [LocA, setObs, hu, hsd]
    · simp only [if_neg ht]
      refine LocA_mono ?_ ?_ ?_ (hloc t') <;> grind [setObs]
  · intro k o' hm
    simp only [List.mem_append, List.mem_singleton, Prod.mk.injEq] at hm
    grind [setObs]
  · simp only [List.map_append, List.map_cons, List.map_nil]
    rw [List.nodup_append]
    refine ⟨hmapNodup, by simp, ?_⟩
    intro a ha b hb
    simp at hb; subst hb
    intro hab; subst hab; exact hnotin ha
  · grind [setObs]
  · grind [setObs]
  · intro o' h1 h2
    simp only [List.map_append, List.map_cons, List.map_nil, List.mem_append, List.mem_singleton]
    by_cases hoo : o' = o
    · exact .inr hoo
    · left; apply hlive <;> grind [setObs]
  all_goals grind [setObs, Pc.lateSub, HandFirst]

theorem invA_step_s9 {s s' : State} {t : Nat} {o : _} (h : InvA s)
    (hpc : (s.threads t).pc = .s9 o) (hs : stepT s t = some s') : InvA s' := by
  have hl := h.loc t
  rw [hpc] at hl; simp only [LocA] at hl
  simp only [stepT, hpc, Option.some.injEq] at hs; subst hs
  obs_case

theorem invA_step_u0 {s s' : State} {t : Nat} {o : _} (h : InvA s)
    (hpc : (s.threads t).pc = .u0 o) (hs : stepT s t = some s') : InvA s' := by
  have hl := h.loc t
  simp only [stepT, hpc, Option.some.injEq] at hs; subst hs
  obs_case

theorem invA_step_u1 {s s' : State} {t : Nat} {o : _} (h : InvA s)
    (hpc : (s.threads t).pc = .u1 o) (hs : stepT s t = some s') : InvA s' := by
  have hl := h.loc t
  rw [hpc] at hl; simp only [LocA] at hl
  simp only [stepT, hpc, Option.some.injEq] at hs; subst hs
  exact invA_thr h t _ (by simpa [LocA] using hl) (by simp [hpc, Pc.lateSub])

theorem invA_step_u2 {s s' : State} {t : Nat} {o : _} (h : InvA s)
    (hpc : (s.threads t).pc = .u2 o) (hs : stepT s t = some s') : InvA s' := by
  have hl := h.loc t
  rw [hpc] at hl; simp only [LocA] at hl
  simp only [stepT, hpc, Option.some.injEq] at hs; subst hs
  exact invA_thr h t _ (by simpa [LocA] using hl) (by simp [hpc, Pc.lateSub])

theorem invA_step_u7 {s s' : State} {t : Nat} {o : _} (h : InvA s)
    (hpc : (s.threads t).pc = .u7 o) (hs : stepT s t = some s') : InvA s' := by
  have hl := h.loc t
  rw [hpc] at hl; simp only [LocA] at hl
  simp only [stepT, hpc, Option.some.injEq] at hs; subst hs
  exact invA_thr h t _ (by simpa [LocA] using hl) (by simp [hpc, Pc.lateSub])

theorem invA_step_u8 {s s' : State} {t : Nat} {o : _} (h : InvA s)
    (hpc : (s.threads t).pc = .u8 o) (hs : stepT s t = some s') : InvA s' := by
  have hl := h.loc t
  rw [hpc] at hl; simp only [LocA] at hl
  simp only [stepT, hpc, Option.some.injEq] at hs; subst hs
  exact invA_thr h t _ (by simpa [LocA] using hl) (by simp [hpc, Pc.lateSub])

theorem invA_step_u3 {s s' : State} {t : Nat} {o : _} (h : InvA s)
    (hpc : (s.threads t).pc = .u3 o) (hs : stepT s t = some s') : InvA s' := by
  have hl := h.loc t
  rw [hpc] at hl; simp only [LocA] at hl
  simp only [stepT, hpc, Option.some.injEq] at hs; subst hs
  refine invA_thr h t _ ?_ (by simp [hpc, Pc.lateSub])
  dsimp only
  split <;> simp only [LocA] <;> grind

theorem invA_step_u4 {s s' : State} {t : Nat} {o : _} (h : InvA s)
    (hpc : (s.threads t).pc = .u4 o) (hs : stepT s t = some s') : InvA s' := by
  have hl := h.loc t
  rw [hpc] at hl; simp only [LocA] at hl
  simp only [stepT, hpc, Option.some.injEq] at hs; subst hs
  refine invA_thr h t _ ?_ (by simp [hpc, Pc.lateSub])
  dsimp only
  split <;> simp only [LocA] <;> grind

theorem invA_step_u9 {s s' : State} {t : Nat} {o : _} (h : InvA s)
    (hpc : (s.threads t).pc = .u9 o) (hs : stepT s t = some s') : InvA s' := by
  have hl := h.loc t
  rw [hpc] at hl; simp only [LocA] at hl
  simp only [stepT, hpc, Option.some.injEq] at hs; subst hs
  refine invA_thr h t _ ?_ (by simp [hpc, Pc.lateSub])
  dsimp only
  split <;> simp only [LocA] <;> grind

theorem invA_step_u5 {s s' : State} {t : Nat} {o : _} (h : InvA s)
    (hpc : (s.threads t).pc = .u5 o) (hs : stepT s t = some s') : InvA s' := by
  have hl := h.loc t
  rw [hpc] at hl; simp only [LocA] at hl
  simp only [stepT, hpc, Option.some.injEq] at hs; subst hs
  obtain ⟨hloc, hmapSer, hmapNodup, hserLe, hserInj, hlive, hinsLog, hlogUsed, hH1, hinsUsed, hsubIns, hfLive, howner⟩ := h
  constructor <;> simp only [setThr]
  · intro t'
    by_cases ht : t' = t
    · subst ht; simp only [if_true]; split <;> simp only [LocA] <;> grind [setObs]
    · simp only [if_neg ht]
      refine LocA_mono ?_ ?_ ?_ (hloc t') <;> grind [setObs]
  all_goals grind [setObs, Pc.lateSub, HandFirst]

theorem invA_step_u6 {s s' : State} {t : Nat} {o : _} (h : InvA s)
    (hpc : (s.threads t).pc = .u6 o) (hs : stepT s t = some s') : InvA s' := by
  have hl := h.loc t
  rw [hpc] at hl; simp only [LocA] at hl
  simp only [stepT, hpc, Option.some.injEq] at hs; subst hs
  obs_case

theorem invA_step_u9r {s s' : State} {t : Nat} {o : _} (h : InvA s)
    (hpc : (s.threads t).pc = .u9r o) (hs : stepT s t = some s') : InvA s' := by
  have hl := h.loc t
  rw [hpc] at hl; simp only [LocA] at hl
  simp only [stepT, hpc, Option.some.injEq] at hs; subst hs
  obtain ⟨hloc, hmapSer, hmapNodup, hserLe, hserInj, hlive, hinsLog, hlogUsed, hH1, hinsUsed, hsubIns, hfLive, howner⟩ := h
  constructor <;> simp only [setThr] <;> try assumption
  · intro t'
    by_cases ht : t' = t
    · subst ht; simpa [LocA] using hl
    · simp only [if_neg ht]; exact hloc t'
  · intro k o' hm
    exact hmapSer k o' (List.mem_filter.mp hm).1
  · exact hmapNodup.sublist ((List.filter_sublist).map _)
  · intro o' h1 h2
    have hin := hlive o' h1 h2
    simp only [List.mem_map] at hin ⊢
    obtain ⟨⟨k, o''⟩, hm, rfl⟩ := hin
    refine ⟨(k, o''), List.mem_filter.mpr ⟨hm, ?_⟩, rfl⟩
    have hk := (hmapSer k o'' hm).1
    simp only [bne_iff_ne, ne_eq]
    intro heq
    have := hserInj o o'' k heq.symm hk
    subst this
    rw [hl] at h2; exact Bool.noConfusion h2
  · grind [Pc.lateSub]

theorem invA_step_u9c {s s' : State} {t : Nat} {o : _} (h : InvA s)
    (hpc : (s.threads t).pc = .u9c o) (hs : stepT s t = some s') : InvA s' := by
  have hl := h.loc t
  rw [hpc] at hl; simp only [LocA] at hl
  simp only [stepT, hpc, Option.some.injEq] at hs; subst hs
  obs_case

theorem invA_step_u10 {s s' : State} {t : Nat} {o : _} (h : InvA s)
    (hpc : (s.threads t).pc = .u10 o) (hs : stepT s t = some s') : InvA s' := by
  have hl := h.loc t
  rw [hpc] at hl; simp only [LocA] at hl
  simp only [stepT, hpc, Option.some.injEq] at hs; subst hs
  obs_case

theorem invA_step {s s' : State} {t : Nat} (h : InvA s) (hs : stepT s t = some s') : InvA s' := by
  cases hpc : (s.threads t).pc with
  | idle => exact invA_step_idle h hpc hs
  | r0 k v => exact invA_step_r0 h hpc hs
  | nx0 k v => exact invA_step_nx0 h hpc hs
  | nxL k v snap => exact invA_step_nxL h hpc hs
  | nxF k v o rest => exact invA_step_nxF h hpc hs
  | nxD k v o rest => exact invA_step_nxD h hpc hs
  | s0 o => exact invA_step_s0 h hpc hs
  | s1 o => exact invA_step_s1 h hpc hs
  | s2 o x => exact invA_step_s2 h hpc hs
  | s3 o x => exact invA_step_s3 h hpc hs
  | s3d o x => exact invA_step_s3d h hpc hs
  | s4 o => exact invA_step_s4 h hpc hs
  | s5 o => exact invA_step_s5 h hpc hs
  | s6 o => exact invA_step_s6 h hpc hs
  | s7 o => exact invA_step_s7 h hpc hs
  | s8 o => exact invA_step_s8 h hpc hs
  | s9 o => exact invA_step_s9 h hpc hs
  | u0 o => exact invA_step_u0 h hpc hs
  | u1 o => exact invA_step_u1 h hpc hs
  | u2 o => exact invA_step_u2 h hpc hs
  | u3 o => exact invA_step_u3 h hpc hs
  | u4 o => exact invA_step_u4 h hpc hs
  | u5 o => exact invA_step_u5 h hpc hs
  | u6 o => exact invA_step_u6 h hpc hs
  | u7 o => exact invA_step_u7 h hpc hs
  | u8 o => exact invA_step_u8 h hpc hs
  | u9 o => exact invA_step_u9 h hpc hs
  | u9r o => exact invA_step_u9r h hpc hs
  | u9c o => exact invA_step_u9c h hpc hs
  | u10 o => exact invA_step_u10 h hpc hs

theorem invA_reachable {progs : List (List Call)} {initial : Data} {s : State} (h : Reachable progs initial s) :
    InvA s := by
  induction h with
  | init => exact invA_init progs initial
  | step _ hs ih =>
    simp only [step] at hs
    split at hs
    · exact invA_step ih hs
    · simp at hs

end Rx.Conc.Behavior
