import RxVerif.Theorems.C13RefReplayReg
/-
C13-REF, replay: `subscribe` assembled, the whole program, the end-to-end theorem.
-/
namespace Rx.CRef
open Rx.Sim Rx.SubjM Rx.Ref Rx.RefR

theorem onSubscribe_sub_hot (k : ConnM.Kind) (st : ConnM.State) (l : Option Nat) :
    (ConnM.onSubscribe k .hot st l).sub = st.sub := by
  unfold ConnM.onSubscribe; split <;> rfl

/-- the state when `on_subscribe(len)` is reached inside `subscribe n` -/
def regState (st : ConnM.State) (n : Nat) : ConnM.State :=
  { st with sub := { st.sub with serial := st.sub.serial + 1
                                 observers := st.sub.observers ++ [(st.sub.serial + 1, n)]
                                 obs := upd st.sub.obs n (regRec (st.sub.serial + 1)) } }

/-- what the hand-over works with: the history is the snapshot taken BEFORE the hook ran -/
def pendOf (st : ConnM.State) : Pending :=
  { fresh := true, len := some (st.sub.observers.length + 1), history := st.sub.items }

theorem stepRp_subscribe (src : ConnM.Src) (st : ConnM.State) (n : Nat) (hu : (st.sub.obs n).seen = false) :
    ConnM.step .replay src st (.subscribe n) =
      ConnM.onUnsubscribe
        { ConnM.onSubscribe .replay src (regState st n) (some (st.sub.observers.length + 1)) with
          sub := (subscribeB .replay
            (ConnM.onSubscribe .replay src (regState st n) (some (st.sub.observers.length + 1))).sub n (pendOf st)).1 }
        (subscribeB .replay
            (ConnM.onSubscribe .replay src (regState st n) (some (st.sub.observers.length + 1))).sub n (pendOf st)).2 := by
  simp [ConnM.step, ConnM.Kind.counts, ConnM.Kind.subj, subscribeA, hu, register, regRec, regState, pendOf]

/-- `subscribe` of a test user up to the return of the `on_subscribe` hook (replay_subject.rs:46-68, subject.rs:62-82);
    what follows (`hk`) starts from the relation for the state after the hook, with the new subscription still
    pending and its `sbsc` not stored -/
theorem subscribeFrontG (F : RFam) {L cobs cacs armed w st} (h : F.Rel L cobs cacs armed none none [] w st)
    {Q : World → Prop}
    (hk : ∀ w2 cobs' cacs' armed',
      F.Rel (L.reg w) cobs' cacs' armed' (some L.roots.length) (some L.roots.length) [] w2
        (ConnM.onSubscribe .replay F.src (regState st L.roots.length) (some (st.sub.observers.length + 1))) →
      WP ((forEach st.sub.items fun x => .obsNext w.obs.length x .done) ;;
          termProgR st.sub.wasError st.sub.wasCompleted w.obs.length) w2 (fun w3 =>
        WP (storeProgR w.obs.length (w.obs.length + 1) w.cells.length) w3 (fun w4 =>
          WP (.userReady L.roots.length .done) w4 Q))) :
    WP (.userSub 1 noReact .done) w Q := by
  obtain ⟨g, U, X⟩ := F.ur h
  have h9 : 9 < w.cells.length := lt_of_getElem?_some X.cellN
  refine wp_userSub X.obsvS ?_
  unfold RSubj.observable
  simp only [rR, Sp]
  refine wp_cellNew ?_
  dsimp only
  refine wp_obsSetOnUnsub X.held ?_
  dsimp only [World.setObs]
  rw [modify_app0]
  simp only [List.modify_cons, ↓reduceIte]
  generalize hrh : (Prog.cellRead w.cells.length false fun h => subUnsub h) = rh
  refine wp_cellRead X.held ?_
  refine wp_cellRead X.held ?_
  refine wp_cellRead X.held ?_
  dsimp only
  rw [get_app_lt _ _ _ (by omega), get_app_lt _ _ _ (by omega), get_app_lt _ _ _ (by omega), U.cellI, U.cellE,
    U.cellC]
  simp only [Option.getD_some, Data.toList_ofList, toBool_bool]
  unfold subscribeWith
  refine wp_obsNew ?_
  dsimp only
  simp only [List.length_append, List.length_cons, List.length_nil, List.append_assoc, List.cons_append,
    List.nil_append, Nat.zero_add]
  refine WP.seq ?_
  simp only [Obsv.sub]
  refine wp_obsIsSub (by dsimp only; rw [get_app_ge _ _ 1]; rfl) ?_
  simp only [Obs.isSub, Option.isSome_some, Bool.and_self, ↓reduceIte]
  refine WP.seq ?_
  refine wp_obsIsSub (by dsimp only; rw [get_app_ge _ _ 1]; rfl) ?_
  simp only [Obs.isSub, Option.isSome_some, Bool.and_self, ↓reduceIte]
  refine observable_pre (sj := ⟨2, 3, 2, 3⟩) (serial := st.sub.serial) (obsl := mapL L st.sub.observers)
    (SlotReads.of_nil X.held) (by dsimp only; rw [get_app_ge _ _ 1]; rfl) rfl (by decide)
    (by dsimp only; rw [get_app_lt _ _ _ (by omega)]; exact U.cellS)
    (by dsimp only; rw [get_app_lt _ _ _ (by omega)]; exact U.cellO)
    (fun p hp => by
      obtain ⟨q, hq, rfl⟩ := List.mem_map.1 hp
      exact U.keys q hq) ?_
  dsimp only [subWorld, World.setObs]
  rw [modify_app _ _ 1]
  simp only [List.modify_cons, ↓reduceIte, Nat.reduceEqDiff, Nat.add_one_sub_one]
  subst hrh
  have hlen : (mapL L st.sub.observers).length = st.sub.observers.length := by simp [mapL]
  rw [hlen]
  unfold slotTail
  have hmid0 := F.registerUser h
  refine wp_lockedSlotCall_someG (SlotReads.of_nil X.held) (show _ = some (some _) from X.slot2) ?_
  dsimp only
  rw [X.held]
  have hmid := F.held_swap hmid0 (Hd' := [(LockId.slot 2, false)]) (w' := _) rfl (SlotReads.nil.cons 2)
  refine (F.onSubHook hmid (st.sub.observers.length + 1)).conseq ?_
  rintro w2 ⟨cobs', cacs', armed', h2⟩
  refine wp_lockRel (WP.done ?_)
  have hrel : w2.release (LockId.slot 2) = { w2 with held := [] } := release_single w2 _ false (F.ur h2).2.2.held
  rw [hrel]
  have h2' := F.held_swap h2 (w' := { w2 with held := [] }) rfl SlotReads.nil
  rw [U.nUsers]
  exact hk _ cobs' cacs' armed' h2'

/-! ### the hot relation is a family -/

def hotFam : RFam where
  src := .hot
  Rel := RelRp
  ur := fun h => h.ur
  held := fun h => h.held
  held_swap := fun h hw hs => h.held_swap hw hs
  ready := fun h => h.ready
  registerUser := fun h => h.registerUser
  patchUser := fun h _ ho w' r' O' a1 a2 a3 a4 a5 a6 a7 a8 a9 a10 a11 a12 a13 a14 a15 a16 a17 a18 a19 a20 a21 a22 a23 _ =>
    h.patchUser ho w' r' O' a1 a2 a3 a4 a5 a6 a7 a8 a9 a10 a11 a12 a13 a14 a15 a16 a17 a18 a19 a20 a21 a22 a23
  storeUser := fun h w' r' O' a1 a2 a3 a4 a5 a6 a7 a8 a9 a10 a11 a12 a13 a14 a15 a16 a17 a18 a19 a20 a21 _ =>
    h.storeUser w' r' O' a1 a2 a3 a4 a5 a6 a7 a8 a9 a10 a11 a12 a13 a14 a15 a16 a17 a18 a19 a20 a21
  onUnsubHook := fun h len0 => onUnsubHookR_spec h len0
  onSubHook := fun h len1 => onSubHookR_spec h len1

theorem unsubscribeRp_spec {L cobs cacs armed w st} (h : RelRp L cobs cacs armed none none [] w st) (u : Nat) :
    WP (.userUnsub u .done) w (fun w' => ∃ armed',
      RelRp L cobs cacs armed' none none [] w' (ConnM.step .replay .hot st (.unsubscribe u))) :=
  unsubscribeG_spec hotFam h u

theorem subscribeRp_spec {L cobs cacs armed w st} (h : RelRp L cobs cacs armed none none [] w st) :
    WP (.userSub 1 noReact .done) w (fun w' => ∃ L' cobs' cacs' armed',
      L'.roots.length = L.roots.length + 1 ∧
      RelRp L' cobs' cacs' armed' none none [] w' (ConnM.step .replay .hot st (.subscribe L.roots.length))) := by
  obtain ⟨g, U, X⟩ := h.ur
  have hu : (st.sub.obs L.roots.length).seen = false := by rw [U.unseen _ (Nat.le_refl _)]
  rw [stepRp_subscribe _ _ _ hu]
  refine subscribeFrontG hotFam h ?_
  intro w2 cobs' cacs' armed' h2'
  have hsub := onSubscribe_sub_hot .replay (regState st L.roots.length) (some (st.sub.observers.length + 1))
  have hr : (ConnM.onSubscribe .replay .hot (regState st L.roots.length)
      (some (st.sub.observers.length + 1))).sub.obs L.roots.length = regRec (st.sub.serial + 1) := by
    rw [hsub]; simp [upd, regState]
  have T := subscribeTailG_spec hotFam (some (st.sub.observers.length + 1)) (root := w.obs.length)
    (fwd := w.obs.length + 1) (sb := w.cells.length)
    (by show _ = rootAt (L.roots ++ [_]) _; rw [rootAt_append_last])
    (by show _ = rootAt (L.fwds ++ [_]) _; rw [← U.lenF, rootAt_append_last])
    (by show _ = rootAt (L.sbs ++ [_]) _; rw [← U.lenS, rootAt_append_last]) h2' hr
  dsimp only [hotFam] at T h2'
  rw [hsub] at T ⊢
  refine T.conseq ?_
  intro w3 T3
  refine T3.conseq ?_
  intro w4 T4
  refine T4.conseq ?_
  rintro w5 ⟨L', armed'', hl, h5⟩
  exact ⟨L', cobs', cacs', armed'', by rw [hl]; simp [LayR.reg], h5⟩

/-! ### the whole program -/

/-- `(subject a plain) (conn x replay (ref a))` then the calls (Machine/Case.lean `stepProg`) -/
def progRp (cs : List ConnM.Call) : Prog :=
  subjNew fun H => .obsvNew H.observable fun hid => subjNew fun S =>
  .cellNew .lnil fun it => .cellNew .lnil fun we => .cellNew (.bool false) fun wc =>
  .cellNew (.bool false) fun c => .cellNew .lnil fun sb => .cellNew (.bool false) fun cn =>
  .obsvNew (RSubj.observable ⟨S, it, we, wc⟩) fun sid =>
  refCountHooks ⟨c, sb, cn⟩ (fun o => .obsvSub hid o .done) S.onSub S.onUnsub
    (fun x => RSubj.next ⟨S, it, we, wc⟩ x) (fun e => RSubj.error ⟨S, it, we, wc⟩ e)
    (RSubj.complete ⟨S, it, we, wc⟩) ;;
  forEach cs (callCG H sid)

theorem callRp_spec {L cobs cacs armed w st} (h : RelRp L cobs cacs armed none none [] w st) (c : ConnM.Call)
    (hc : wfC L.roots.length [c] = true) :
    WP (callCG Hp 1 c) w (fun w' => ∃ L' cobs' cacs' armed',
      L'.roots.length = L.roots.length + subsC [c] ∧
      RelRp L' cobs' cacs' armed' none none [] w' (ConnM.step .replay .hot st c)) := by
  cases c with
  | subscribe o =>
    have : o = L.roots.length := by simpa [wfC] using hc
    subst this
    refine (subscribeRp_spec h).conseq ?_
    rintro w' ⟨L', c', ca', a', hl, h'⟩
    exact ⟨L', c', ca', a', by rw [hl]; simp [subsC, isSubC, List.filter], h'⟩
  | unsubscribe o =>
    refine (unsubscribeRp_spec h o).conseq ?_
    rintro w' ⟨a', h'⟩
    exact ⟨_, _, _, a', rfl, h'⟩
  | connect => exact WP.done ⟨_, _, _, _, rfl, h⟩
  | disconnect => exact WP.done ⟨_, _, _, _, rfl, h⟩
  | srcNext v => exact (srcR_spec h (.next v)).conseq fun w' h' => ⟨_, _, _, _, rfl, h'⟩
  | srcError e => exact (srcR_spec h (.error e)).conseq fun w' h' => ⟨_, _, _, _, rfl, h'⟩
  | srcComplete => exact (srcR_spec h .complete).conseq fun w' h' => ⟨_, _, _, _, rfl, h'⟩

theorem callsRp_spec (cs : List ConnM.Call) : ∀ (L : LayR) (cobs cacs : List Nat) (armed : List Bool) (w : World)
    (st : ConnM.State), RelRp L cobs cacs armed none none [] w st → wfC L.roots.length cs = true →
    WP (forEach cs (callCG Hp 1)) w (fun w' => ∃ L' cobs' cacs' armed',
      L'.roots.length = L.roots.length + subsC cs ∧
      RelRp L' cobs' cacs' armed' none none [] w' (ConnM.runFrom .replay .hot st cs)) := by
  induction cs with
  | nil => intro L cobs cacs armed w st h _; exact WP.done ⟨_, _, _, _, rfl, h⟩
  | cons c rest ih =>
    intro L cobs cacs armed w st h hwf
    rw [wfC_cons, Bool.and_eq_true] at hwf
    simp only [forEach]
    apply WP.seq
    refine (callRp_spec h c hwf.1).conseq ?_
    rintro w1 ⟨L1, c1, ca1, a1, hl1, h1⟩
    refine (ih L1 c1 ca1 a1 w1 _ h1 (by rw [hl1]; exact hwf.2)).conseq ?_
    rintro w2 ⟨L2, c2, ca2, a2, hl2, h2⟩
    exact ⟨L2, c2, ca2, a2, by rw [hl2, hl1, subsC_cons c rest, Nat.add_assoc], h2⟩

/-- the world after the allocations and the two `slotSet`s of `progRp` -/
def w0R : World :=
  { cells := [.lnil, .int 0, .lnil, .int 0, .lnil, .lnil, .bool false, .bool false, .lnil, .bool false]
    slots := [none, none, some (onSubHook rcR srcC fnR feR fcR), some (onUnsubHook rcR)]
    obsvs := [Hp.observable, rR.observable] }

theorem relRp_init : RelRp ⟨[], [], [], []⟩ [] [] [] none none [] w0R ConnM.init := by
  have g : Glob (([] : List Nat) ++ []) [] w0R :=
    ⟨rfl, rfl, (fun _ h => by cases h), (fun _ h => by cases h), (by simp)⟩
  refine ⟨g, SlotReads.nil, ⟨g, ?_, ?_⟩, ?_⟩
  · exact
      { lenF := rfl, lenS := rfl, lenA := rfl, unstLast := (fun _ h => by cases h)
        cellO := rfl, cellS := rfl, cellI := rfl, cellE := rfl, cellC := rfl, nUsers := rfl
        users := fun u hu => by simp at hu
        unseen := fun _ _ => rfl
        quiet := fun _ _ => rfl
        keys := fun p hp => by cases hp
        regBound := fun p hp => by cases hp
        cellsNodup := by simp
        cellsGe := fun c hc => by cases hc }
  · exact
      { held := rfl, slot0 := rfl, slot1 := rfl, slot2 := rfl, slot3 := rfl, obsvS := rfl
        cellG := rfl, cellB := rfl, cellN := rfl, sbLt := (fun i hi => by cases hi), lenCa := rfl
        caNodup := (by simp), caGe := (fun c hc => by cases hc), caDisj := (fun c hc => by cases hc) }
  · exact
      { ne := by decide, cellO := rfl, cellS := rfl, lenC := rfl, lenA := rfl, obsv := rfl
        obs := fun i hi => by simp [ConnM.init] at hi
        acell := fun i hi => by simp [ConnM.init] at hi
        liveArmed := fun i hi => by simp [ConnM.init] at hi }

theorem progRp_spec (cs : List ConnM.Call) (hwf : wfC 0 cs = true) :
    WP (progRp cs) {} (fun w' => ∃ L cobs cacs armed,
      RelRp L cobs cacs armed none none [] w' (ConnM.run .replay .hot cs)) := by
  unfold progRp subjNew
  refine wp_cellNew (wp_cellNew (wp_slotNew (wp_slotNew (wp_obsvNew
    (wp_cellNew (wp_cellNew (wp_slotNew (wp_slotNew (wp_cellNew (wp_cellNew (wp_cellNew
    (wp_cellNew (wp_cellNew (wp_cellNew (wp_obsvNew ?_)))))))))))))))
  unfold refCountHooks
  refine WP.seq ?_
  refine wp_slotSet rfl ?_
  refine wp_slotSet rfl ?_
  refine WP.done ?_
  refine (callsRp_spec cs ⟨[], [], [], []⟩ [] [] [] w0R _ relRp_init hwf).conseq ?_
  rintro w' ⟨L, c, ca, a, _, h⟩
  exact ⟨L, c, ca, a, h⟩

def FinalRp (cs : List ConnM.Call) (w : World) : Prop := ∃ n0, ∀ fuel, n0 ≤ fuel → run fuel [progRp cs] {} = w

theorem FinalRp.unique {cs w w'} (h : FinalRp cs w) (h' : FinalRp cs w') : w = w' := by
  obtain ⟨a, ha⟩ := h
  obtain ⟨b, hb⟩ := h'
  rw [← ha (a + b) (by omega), ← hb (a + b) (by omega)]

theorem RelRp.agrees {L cobs cacs armed w st} (h : RelRp L cobs cacs armed none none [] w st) : AgreesC w st := by
  obtain ⟨g, U, X⟩ := h.ur
  refine ⟨g.status, X.held, ?_, ?_, ?_, ?_, ?_⟩
  · intro u
    rcases Nat.lt_or_ge u L.roots.length with hlt | hge
    · exact (U.users u hlt).log
    · rw [U.quiet u hge]; show _ = (st.sub.obs u).log; rw [U.unseen u hge]
  · have := h.conns.cellS; simp only [Hp] at this
    simp [srcSubsOf, this, Data.toInt, ConnM.sourceSubscriptions]
  · have := h.conns.cellO; simp only [Hp] at this
    simp only [srcLiveOf, this, Option.getD_some, amapLen_encMap, ConnM.sourceLive]
    exact liveFrom_isEmpty 0 cobs st.conns h.conns.lenC
  · simp [regCountOf, U.cellO, amapLen_encMap, registered, mapL]
  · intro u
    rcases Nat.lt_or_ge u L.roots.length with hlt | hge
    · have UU := U.users u hlt
      obtain ⟨rd, h1, _⟩ := UU.user
      simp only [World.isSubOf, h1, UU.root, aliveOf]
      cases ha : (st.sub.obs u).alive <;> simp [rootOfL, Obs.isSub, ha, cbN, cbE, cbC]
    · have : w.users[u]? = none := by apply List.getElem?_eq_none; rw [U.nUsers]; exact hge
      simp only [World.isSubOf, this, aliveOf, U.unseen u hge]

/-- **C13-REF, replay over a hot source.** -/
theorem replayConn_refines (cs : List ConnM.Call) (hwf : wfC 0 cs = true) :
    ∃ w, FinalRp cs w ∧ AgreesC w (ConnM.run .replay .hot cs) := by
  obtain ⟨n0, w, ⟨L, c, ca, a, hrel⟩, hrun⟩ := WP.run_top (progRp_spec cs hwf)
  exact ⟨w, ⟨n0, hrun⟩, hrel.agrees⟩

#print axioms replayConn_refines

end Rx.CRef
