import RxVerif.Theorems.C03RefSkipUntil
/-
C03-REF, sample: model A's `oSample` (Machine/Lib.lean, transliterating src/operators/sample.rs) over two plain hot
subjects (0 = source, 1 = trigger) REFINES the pure history machine `Comb.sample`.
-/
namespace Rx.GRef.Sample
open Rx.Sim Rx.Ref Rx.Comb Rx.CRef Rx.GRef.SkipUntil

/-- the latest-value cell is allocated BEFORE the controller: cell 4; controller cells 5, 6; slot 4 -/
def sc : Sctl := ⟨0, 5, 6, 4⟩

/-- sample.rs:38-71: the trigger's observer is created first (serial 0, observer 1), then the source's -/
def lay : GLay where
  k := 2
  cs := 5
  cm := 6
  cx := 4
  fin := 4
  ser := perm
  ob e := 1 + perm e
  hn e x := if e = 0 then .cellWrite 4 false (Data.optEnc (some x)) .done
            else .cellRead 4 false fun cur => .cellWrite 4 false .lnil <|
              match Data.optDec cur with | some v => sc.sinkNext v | none => .done
  he e err := if e = 0 then sc.sinkError err else .done
  hc e := if e = 0 then sc.sinkCompleteForce else .done

theorem lay_ok : lay.Ok where
  cs := by decide
  cm := by decide
  cx := by decide
  ne1 := by decide
  ne2 := by decide
  ne3 := by decide
  fin := by decide
  obPos := by intro e; simp only [lay]; omega
  obInj := by intro a b h; simp only [lay] at h; exact perm_inj a b (by omega)
  serInj := perm_inj

theorem optEnc_ne (v : Option Data) : Data.optEnc v ≠ .unit := by cases v <;> simp [Data.optEnc]

structure R (s : sample.State) (out : List Ev) (w : World) : Prop where
  rel : ∃ E, Rel lay E [] s.ctl ⟨Data.optEnc s.value, 2, 3⟩ out w ∧ Static E s.ctl 2

theorem R.mk' {c : Ctl} {v : Option Data} {out : List Ev} {w : World} {E : Ent}
    (h : Rel lay E [] c ⟨Data.optEnc v, 2, 3⟩ out w) (hs : Static E c 2) : R ⟨c, v⟩ out w := ⟨⟨E, h, hs⟩⟩

/-- one history entry = `Comb.sample.step` -/
theorem step_spec (s : sample.State) (out : List Ev) (w : World) (p : Nat × Ev) (h : R s out w) :
    WP (callOf (sjs 2) p) w (R (sample.step s p).1 (out ++ (sample.step s p).2)) := by
  obtain ⟨i, ev⟩ := p
  obtain ⟨c, v⟩ := s
  obtain ⟨⟨E, h, hs⟩⟩ := h
  have ok := lay_ok
  rcases Nat.lt_or_ge i 2 with hi | hi
  · rw [callOf_lt hi]
    refine static_call ok h hs (j := i) hi ev ?_ ?_
    · intro hlv E1 w1 h1 hs1
      simp only [sample.step, Ctl.isLive, hlv, Bool.false_eq_true, ↓reduceIte, List.append_nil]
      exact R.mk' h1 hs1
    · intro hlv E1 w1 h1 hs1
      rcases (by omega : i = 0 ∨ i = 1) with e | e
      · subst e
        simp only [sample.step, Ctl.isLive, hlv, ↓reduceIte, beq_self_eq_true]
        cases ev with
        | next d =>
          show WP (.cellWrite 4 false (Data.optEnc (some d)) .done) _ _
          refine wp_cellWrite h1.held (WP.done ?_)
          simp only [List.append_nil]
          exact R.mk' (h1.setX ok (optEnc_ne _) _) hs1
        | error e =>
          exact (sinkError_spec ok h1 e).conseq fun w2 h2 => R.mk' h2 (hs1.mono (sinkError_sub _ _))
        | complete =>
          exact (sinkCompleteForce_spec ok h1).conseq fun w2 h2 => R.mk' h2 (hs1.mono (sinkForce_sub _))
      · subst e
        simp only [sample.step, Ctl.isLive, hlv, ↓reduceIte, beq_self_eq_true,
          show ((1 : Nat) == 0) = false from rfl, Bool.false_eq_true]
        cases ev with
        | next d =>
          show WP (.cellRead 4 false fun cur => .cellWrite 4 false .lnil <|
              match Data.optDec cur with | some v => sc.sinkNext v | none => .done) _ _
          refine wp_cellRead_val h1.held (xc_some h1 (optEnc_ne _)) ?_
          refine wp_cellWrite h1.held ?_
          have h2 := h1.setX ok (optEnc_ne _) .lnil
          cases v with
          | none =>
            simp only [Data.optEnc, Data.optDec, List.append_nil]
            exact WP.done (R.mk' (v := none) h2 hs1)
          | some x =>
            simp only [Data.optEnc, Data.optDec]
            exact (sinkNext_spec ok h2 x).conseq fun w2 h3 => R.mk' (v := none) h3 (hs1.mono (sinkNext_sub _ _))
        | error e => simp only [List.append_nil]; exact WP.done (R.mk' h1 hs1)
        | complete => simp only [List.append_nil]; exact WP.done (R.mk' h1 hs1)
  · rw [callOf_ge hi]
    have hlv : c.live.contains i = false := by
      cases q : c.live.contains i with
      | false => rfl
      | true => have := (hs.on i (by simpa using q)).1; omega
    simp only [sample.step, Ctl.isLive, hlv, Bool.false_eq_true, ↓reduceIte, List.append_nil]
    exact WP.done (R.mk' h hs)

theorem drive_sa (H : History) (s : sample.State) (out : List Ev) (w : World) (h : R s out w) :
    WP (drive (sjs 2) H) w (R (finalFrom sample.step s H) (out ++ runFrom sample.step s H)) :=
  drive_spec sample.step R (callOf (sjs 2)) step_spec H s out w h

/-! ### the program -/

/-- two plain subjects; test user 0 subscribes to `s0.sample(s1)`; then the history -/
def prog (H : History) : Prog :=
  subjsNew 2 fun sjs =>
    .obsvNew (oSample (sjs.getD 0 default).observable (sjs.getD 1 default).observable) fun id =>
    .userSub id noReact (drive sjs H)

def theObsv : Nat → Prog := oSample (sjOf 0).observable (sjOf 1).observable

def W0 : World :=
  { obs := [rootObs lay true], users := [⟨0, noReact, false, true⟩],
    cells := [.lnil, .int 0, .lnil, .int 0, .lnil, .int 0, .lnil],
    slots := [none, none, none, none, none], obsvs := [theObsv] }

theorem rel_W0 : Rel lay E0 [] ⟨true, [], []⟩ ⟨Data.optEnc none, 0, 1⟩ [] W0 :=
  rel_init (L := lay) (w := W0) lay_ok rfl rfl rfl ⟨_, rfl, rfl⟩ (two_cases rfl rfl) (two_cases rfl rfl) rfl rfl
    (by intro j hj; rcases (by simp only [lay] at hj; omega : j = 0 ∨ j = 1 ∨ j = 2 ∨ j = 3) with e | e | e | e
          <;> subst e <;> rfl) rfl rfl

theorem prog_spec (H : History) :
    WP (prog H) {} (R (finalFrom sample.step sample.init H) (sample.run 2 H)) := by
  have ok := lay_ok
  unfold prog
  refine wp_subjsNew 2 0 {} _ _ rfl rfl ?_
  refine wp_obsvNew ?_
  refine wp_userSub (f := theObsv) rfl ?_
  simp only [theObsv, oSample, sctlNew]
  refine wp_cellNew (wp_cellNew (wp_cellNew (wp_slotNew (wp_obsSetOnUnsub rfl ?_))))
  have e2 : ∀ (W : World) p Q, W = W0 → WP p W0 Q → WP p W Q := fun W p Q q hq => q ▸ hq
  refine e2 _ _ _ ?_ ?_
  · simp [W0, World.setObs, rootObs, GLay.sc, lay, subjCells, theObsv, List.range'_succ, List.replicate_succ]
  refine newObserver_spec (L := lay) ok rel_W0 rfl (e := 1) (j := 1) (by decide) rfl rfl rfl _ _ _ rfl _
    fun w1 h1 => ?_
  refine newObserver_spec (L := lay) ok h1 rfl (e := 0) (j := 0) (by decide) rfl rfl rfl _ _ _ rfl _
    fun w2 h2 => ?_
  apply WP.seq
  refine (subscribe_ent ok h2 (e := 1) (j := 1) (by decide) rfl rfl rfl (by decide)).conseq fun w3 h3 => ?_
  refine (subscribe_ent ok h3 (e := 0) (j := 0) (by decide) rfl rfl rfl (by decide)).conseq fun w4 h4 => ?_
  refine wp_userReady ?_
  have h5 := (h4.setUser (fun u => { u with ready := true }) (fun _ => rfl)).perm (Ctl.init 2) rfl
    (by intro e; simp [Ctl.init, Ctl.addObserver, List.range_succ, or_comm])
    (by intro e; rw [Bool.eq_iff_iff]; simp [Ctl.init, Ctl.addObserver, List.range_succ, or_comm])
    (two_cases (by decide) (by decide))
  have hs : Static E2 (Ctl.init 2) 2 :=
    ⟨by decide, two_cases (by decide) (by decide), by
      intro e he
      have : e = 0 ∨ e = 1 := by simpa [Ctl.init, List.range_succ] using he
      rcases this with q | q <;> subst q <;> exact ⟨by decide, by decide⟩⟩
  have h6 := drive_sa H sample.init [] _ (R.mk' (v := none) h5 hs)
  simpa [sample.run, sjs] using h6

/-- **C03-REF, sample.**  For EVERY history over the two subjects the program ends, for all sufficient fuel, with
    `status = ok`, no guard held, the user's log equal to the output of `Comb.sample`, and subject `i` holding one
    observer iff `i` is in the machine's final `live` set. -/
theorem sample_refines (H : History) :
    ∃ n0, ∀ fuel, n0 ≤ fuel →
      Agrees 2 (run fuel [prog H] {}) (finalFrom sample.step sample.init H).ctl.live (sample.run 2 H) := by
  obtain ⟨n0, w, ⟨⟨E, hrel, hs⟩⟩, hrun⟩ := WP.run_top (prog_spec H)
  refine ⟨n0, fun fuel hf => ?_⟩
  rw [hrun fuel hf]
  refine ⟨hrel.status, hrel.held, hrel.log, fun i hi => ?_⟩
  rw [hrel.regCount (by simpa [lay] using hi), hs.inMap_eq hi]
  split <;> rfl

/-- the C03 list specification transported to model A -/
theorem sample_machine_spec (H : History) (hwf : WellFormed 2 H) :
    ∃ n0, ∀ fuel, n0 ≤ fuel → (run fuel [prog H] {}).status = .ok ∧
      logOf (run fuel [prog H] {}) 0 = sampleSpec H := by
  obtain ⟨n0, h⟩ := sample_refines H
  exact ⟨n0, fun fuel hf => ⟨(h fuel hf).status, by rw [(h fuel hf).log, sample_spec 2 H hwf]⟩⟩

/-! non-vacuity -/
def demo : History :=
  [(1, .next (.int 0)), (0, .next (.int 1)), (0, .next (.int 2)), (1, .next (.int 0)), (1, .next (.int 0)),
   (0, .next (.int 3)), (1, .complete), (0, .next (.int 4)), (0, .complete)]

example : (run 3000 [prog demo] {}).status = .ok := by decide +kernel
example : logOf (run 3000 [prog demo] {}) 0 = [.next (.int 2), .complete] := by decide +kernel
example : sample.run 2 demo = [.next (.int 2), .complete] := by decide +kernel
example : (List.range 2).map (regCount (run 3000 [prog (demo.take 7)] {})) = [1, 0] ∧
    (finalFrom sample.step sample.init (demo.take 7)).ctl.live = [0] := by decide +kernel
example : WellFormed 2 demo := by decide
example : logOf (run 3000 [prog demo] {}) 0 = sampleSpec demo := by decide +kernel

#print axioms sample_refines
#print axioms sample_machine_spec

end Rx.GRef.Sample
