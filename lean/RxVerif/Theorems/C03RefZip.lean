import RxVerif.Theorems.C03RefMerge
/-
C03-REF, zip: model A's `oZip` (Machine/Lib.lean, transliterating src/operators/zip.rs) over `k` plain hot subjects
REFINES the pure history machine `Comb.zip`.
-/
namespace Rx.CRef.Zip
open Rx.Sim Rx.Ref Rx.Comb Rx.CRef

def scOf (k : Nat) : Sctl := ⟨0, 2 * k, 2 * k + 1, 2 * k⟩

/-- the queues as stored in cell `2k+2` -/
def encQ (qs : List (List Data)) : Data := Data.ofList (qs.map Data.ofList)

theorem encQ_ne (qs : List (List Data)) : encQ qs ≠ .unit := by
  cases qs <;> simp [encQ, Data.ofList]

/-- zip.rs:41-47 + the emit loop: push the item on queue `id`, then `zipTryEmit` -/
def pushProg (k id : Nat) (x : Data) : Prog :=
  .cellRead (2 * k + 2) false fun qs =>
    let queues := qs.toList
    .cellWrite (2 * k + 2) false (Data.ofList (queues.modify id fun q => Data.ofList (q.toList ++ [x]))) <|
    zipTryEmit (scOf k) (2 * k + 2) 100000

/-- zip.rs:30-90: source `i` gets serial `i` = observer `1+i` (`pop_front`) -/
def lay (k : Nat) : Lay where
  k := k
  ser i := i
  ob i := 1 + i
  hn i x := pushProg k i x
  he _ e := (scOf k).sinkError e
  hc i := (scOf k).sinkComplete i

theorem lay_ok (k : Nat) : (lay k).Ok where
  obPos := by intro i hi; simp only [lay] at *; omega
  obInj := by intro i j hi hj h; simp only [lay] at *; omega
  serInj := by intro i j hi hj h; simp only [lay] at *; exact h

def ne (qs : List (List Data)) : Bool := qs.all fun q => !q.isEmpty

/-! ### pure facts about the queues -/

theorem toList_map_ofList (qs : List (List Data)) : (qs.map Data.ofList).map Data.toList = qs := by
  simp [List.map_map, Function.comp_def]

theorem modify_enc (qs : List (List Data)) (i : Nat) (d : Data) :
    (qs.map Data.ofList).modify i (fun q => Data.ofList (q.toList ++ [d])) =
      (qs.modify i (· ++ [d])).map Data.ofList := by
  apply List.ext_getElem?
  intro j
  simp only [List.getElem?_modify, List.getElem?_map]
  cases qs[j]? with
  | none => rfl
  | some q => by_cases e : i = j <;> simp [e]

theorem all_len_ne (qs : List (List Data)) : (qs.all fun q => decide (q.length > 0)) = ne qs := by
  simp only [ne]; congr 1; funext q; cases q <;> simp

theorem tails_enc (qs : List (List Data)) :
    (qs.map fun q => Data.ofList (q.drop 1)) = (qs.map List.tail).map Data.ofList := by
  simp [List.map_map, Function.comp_def]

/-- some queue was empty, after the push none is: the pushed queue now has exactly one item -/
theorem push_fills (qs : List (List Data)) (i : Nat) (d : Data) (h0 : ne qs = false)
    (h1 : ne (qs.modify i (· ++ [d])) = true) :
    ne ((qs.modify i (· ++ [d])).map List.tail) = false ∧ ((qs.modify i (· ++ [d])).getD i []).length = 1 := by
  simp only [ne, List.all_eq_false, List.all_eq_true] at h0 h1
  obtain ⟨q, hq, hqe⟩ := h0
  obtain ⟨j, hj, rfl⟩ := List.getElem_of_mem hq
  have hji : j = i := by
    apply Classical.byContradiction; intro hne
    have : (qs.modify i (· ++ [d]))[j]? = some qs[j] := by
      rw [List.getElem?_modify]; simp [hj, Ne.symm hne]
    have := h1 _ (List.mem_of_getElem? this)
    simp at hqe; simp [hqe] at this
  subst hji
  have hq0 : qs[j] = [] := by simpa using hqe
  have hget : (qs.modify j (· ++ [d]))[j]? = some [d] := by
    rw [List.getElem?_modify]; simp [hj, hq0]
  constructor
  · simp only [ne, List.all_eq_false]
    refine ⟨[], ?_, by simp⟩
    apply List.mem_of_getElem? (i := j)
    rw [List.getElem?_map, hget]; rfl
  · simp [List.getD, hget]

/-! ### the refinement -/

structure R (k : Nat) (s : zip.State) (out : List Ev) (w : World) : Prop where
  rel : Rel (lay k) (fun _ => false) [] s.ctl ⟨encQ s.queues, k, 1 + k⟩ out w
  inv : s.ctl.alive = true → ne s.queues = false
  len : s.queues.length = k
  kpos : 0 < k

abbrev RelQ (k : Nat) (c : Ctl) (qs : List (List Data)) (out : List Ev) (w : World) : Prop :=
  Rel (lay k) (fun _ => false) [] c ⟨encQ qs, k, 1 + k⟩ out w

/-- `zipTryEmit` when some queue is empty: nothing happens -/
theorem tryEmit_stop {k : Nat} {c : Ctl} {qs : List (List Data)} {out : List Ev} {w : World}
    (h : RelQ k c qs out w) (hne : ne qs = false) (f : Nat) :
    WP (zipTryEmit (scOf k) (2 * k + 2) (f + 1)) w (RelQ k c qs out) := by
  simp only [zipTryEmit]
  refine wp_cellRead_val h.held (xc_some h (encQ_ne _)) ?_
  simp only [encQ, Data.toList_ofList, toList_map_ofList, all_len_ne, hne, Bool.false_and, Bool.false_eq_true,
    ↓reduceIte]
  exact WP.done h

/-- the closure of inner observer `i` on `next(d)` (zip.rs:41-69) = the `.next` case of `Comb.zip.step` -/
theorem push_spec {k : Nat} {s : zip.State} {out : List Ev} {w : World} (h : R k s out w) (i : Nat) (d : Data) :
    WP (pushProg k i d) w
      (fun w' => R k
        { s with queues := (zip.drain s.ctl.alive (((s.queues.modify i (· ++ [d])).getD i []).length + 1)
            (s.queues.modify i (· ++ [d]))).1 }
        (out ++ (zip.drain s.ctl.alive (((s.queues.modify i (· ++ [d])).getD i []).length + 1)
            (s.queues.modify i (· ++ [d]))).2) w') := by
  have ok := lay_ok k
  simp only [pushProg]
  obtain ⟨F, hF⟩ : ∃ F, (100000 : Nat) = F + 1 := ⟨99999, rfl⟩
  rw [hF]
  refine wp_cellRead_val h.rel.held (xc_some h.rel (encQ_ne _)) ?_
  simp only [encQ, Data.toList_ofList, modify_enc]
  refine wp_cellWrite h.rel.held ?_
  have h2 : RelQ k s.ctl (s.queues.modify i (· ++ [d])) out _ := h.rel.setX (encQ_ne _) (encQ _)
  generalize hq : s.queues.modify i (· ++ [d]) = qs' at h2 ⊢
  have hlen : qs'.length = k := by rw [← hq, List.length_modify]; exact h.len
  cases hne : ne qs' with
  | false =>
    have hd : ∀ f, zip.drain s.ctl.alive (f + 1) qs' = (qs', []) := by
      intro f; simp only [zip.drain]; rw [show (qs'.all fun q => !q.isEmpty) = ne qs' from rfl, hne]; rfl
    rw [hd]
    simp only [List.append_nil]
    refine (tryEmit_stop h2 hne F).conseq fun w1 h3 => ⟨h3, fun _ => hne, hlen, h.kpos⟩
  | true =>
    simp only [zipTryEmit]
    refine wp_cellRead_val h2.held (xc_some h2 (encQ_ne _)) ?_
    have hl0 : decide (qs'.length > 0) = true := by rw [hlen]; simpa using h.kpos
    simp only [encQ, Data.toList_ofList, toList_map_ofList, all_len_ne, hne, hl0, Bool.and_self,
      ↓reduceIte, tails_enc]
    refine wp_cellWrite h2.held ?_
    have h3 : RelQ k s.ctl (qs'.map List.tail) out _ := h2.setX (encQ_ne _) (encQ _)
    simp only [Sctl.isSub]
    refine wp_obsIsSub h3.root ?_
    cases ha : s.ctl.alive with
    | false =>
      have hd : ∀ f, zip.drain false (f + 1) qs' = (qs'.map List.tail, []) := by
        intro f; simp only [zip.drain]; rw [show (qs'.all fun q => !q.isEmpty) = ne qs' from rfl, hne]; rfl
      rw [hd]
      simp only [rootObs, Obs.isSub, Option.isSome_none, Bool.false_and, Bool.false_eq_true, ↓reduceIte,
        List.append_nil]
      exact WP.done ⟨h3, fun q => (by rw [ha] at q; cases q), by simpa using hlen, h.kpos⟩
    | true =>
      obtain ⟨hne2, hone⟩ := push_fills s.queues i d (h.inv ha) (by rw [hq]; exact hne)
      rw [hq] at hne2 hone
      have hd : zip.drain true (1 + 1) qs' =
          (qs'.map List.tail, [.next (Data.ofList (qs'.map fun q => q.headD .unit))]) := by
        simp only [zip.drain]
        rw [show (qs'.all fun q => !q.isEmpty) = ne qs' from rfl, hne,
          show ((qs'.map List.tail).all fun q => !q.isEmpty) = ne (qs'.map List.tail) from rfl, hne2]
        rfl
      rw [hone, hd]
      simp only [rootObs, Obs.isSub, Option.isSome_some, Bool.and_self, ↓reduceIte]
      apply WP.seq
      refine (sinkNext_spec ok h3 _).conseq fun w4 h4 => ?_
      simp only [Ctl.sinkNext, ha, ↓reduceIte] at h4
      obtain ⟨F', hF'⟩ : ∃ F', F = F' + 1 := ⟨99998, by omega⟩
      rw [hF']
      refine (tryEmit_stop h4 hne2 F').conseq fun w5 h5 => ?_
      exact ⟨h5, fun _ => hne2, by simpa using hlen, h.kpos⟩

theorem sinkError_dead (c : Ctl) (e : Nat) : (c.sinkError e).1.alive = false := by
  unfold Ctl.sinkError; split <;> rfl

theorem sinkComplete_alive (c : Ctl) (i : Nat) (h : (c.sinkComplete i).1.alive = true) : c.alive = true := by
  unfold Ctl.sinkComplete at h
  cases ha : c.alive with
  | true => rfl
  | false => simp [ha, Ctl.finalize] at h

/-- one history entry = `Comb.zip.step` -/
theorem step_spec (k : Nat) (s : zip.State) (out : List Ev) (w : World) (p : Nat × Ev) (h : R k s out w) :
    WP (callOf (sjs k) p) w (R k (zip.step s p).1 (out ++ (zip.step s p).2)) := by
  obtain ⟨i, ev⟩ := p
  have ok := lay_ok k
  rcases Nat.lt_or_ge i k with hi | hi
  · rw [callOf_lt hi]
    cases hlv : s.ctl.live.contains i with
    | false =>
      simp only [zip.step, Ctl.isLive, hlv, Bool.false_eq_true, ↓reduceIte, List.append_nil]
      exact (src_dead h.rel hi (by rw [hlv]; rfl) ev).conseq fun w1 h1 => { h with rel := h1 }
    | true =>
      simp only [zip.step, Ctl.isLive, hlv, ↓reduceIte]
      refine src_live ok h.rel hi hlv rfl ev fun w1 h1 => ?_
      cases ev with
      | next d => exact push_spec (s := s) ⟨h1, h.inv, h.len, h.kpos⟩ i d
      | error e =>
        exact (sinkError_spec ok h1 e).conseq fun w2 h2 =>
          ⟨h2, fun q => (by rw [sinkError_dead] at q; cases q), h.len, h.kpos⟩
      | complete =>
        exact (sinkComplete_spec ok h1 hi).conseq fun w2 h2 =>
          ⟨h2, fun q => h.inv (sinkComplete_alive (s.ctl.kill i) i q), h.len, h.kpos⟩
  · rw [callOf_ge hi]
    have hlv : s.ctl.live.contains i = false := by
      cases q : s.ctl.live.contains i with
      | false => rfl
      | true => have := h.rel.liveLt i (by simpa using q); simp only [lay] at this; omega
    simp only [zip.step, Ctl.isLive, hlv, Bool.false_eq_true, ↓reduceIte, List.append_nil]
    exact WP.done h

theorem drive_zip (k : Nat) (H : History) (s : zip.State) (out : List Ev) (w : World) (h : R k s out w) :
    WP (drive (sjs k) H) w (R k (finalFrom zip.step s H) (out ++ runFrom zip.step s H)) :=
  drive_spec zip.step (R k) (callOf (sjs k)) (step_spec k) H s out w h

/-! ### the program -/

/-- `n+1` plain subjects; test user 0 subscribes to `s0.zip(&[s1, .., sn])`; then the history -/
def prog (n : Nat) (H : History) : Prog :=
  subjsNew (n + 1) fun sjs =>
    .obsvNew (oZip (sjs.headD default).observable (sjs.tail.map Subj.observable)) fun id =>
    .userSub id noReact (drive sjs H)

def mk (k : Nat) : Nat → (Nat → Data → Prog) × (Nat → Nat → Prog) × (Nat → Prog) :=
  fun id => (fun _ x => pushProg k id x, fun _ e => (scOf k).sinkError e, fun serial => (scOf k).sinkComplete serial)

theorem encQ_init (k : Nat) : Data.ofList (List.replicate k .lnil) = encQ (List.replicate k []) := by
  simp [encQ, List.map_replicate, Data.ofList]

theorem rel_W2 (k : Nat) (f : Nat → Prog) :
    Rel (lay k) (fun i => decide (0 ≤ i)) [] (Ctl.init k) ⟨encQ (List.replicate k []), k, 1 + k⟩ []
      (newObsWorld (scOf k) (mk k) (W2 (lay k) [encQ (List.replicate k [])] f) [] 0 k) :=
  CRef.rel_W2 (L := lay k) [encQ (List.replicate k [])] f (mk k) (fun s => s)
    (by intro s hs; exact ⟨hs, rfl⟩) (by intro i hi; exact ⟨hi, rfl⟩) (by intro i hi; rfl) (by intro i hi; rfl)

theorem zip_eq (n : Nat) :
    (((sjs (n + 1)).headD default).observable :: (sjs (n + 1)).tail.map Subj.observable).zip
      ((List.range (n + 1)).map (1 + ·)) =
    (List.range' 0 (n + 1)).map fun i => ((sjOf i).observable, (lay (n + 1)).ob i) := by
  rw [Merge.srcs_eq, List.range_eq_range', List.zip_map']
  rfl

theorem prog_spec (n : Nat) (H : History) :
    WP (prog n H) {} (R (n + 1) (finalFrom zip.step (zip.init (n + 1)) H) (zip.run (n + 1) H)) := by
  have ok := lay_ok (n + 1)
  unfold prog
  refine wp_subjsNew (n + 1) 0 {} _ _ rfl rfl ?_
  refine wp_obsvNew ?_
  refine wp_userSub (f := oZip ((sjs (n + 1)).headD default).observable ((sjs (n + 1)).tail.map Subj.observable))
    rfl ?_
  simp only [oZip, sctlNew]
  refine wp_cellNew (wp_cellNew (wp_slotNew (wp_obsSetOnUnsub rfl (wp_cellNew ?_))))
  have hlen : ((sjs (n + 1)).tail.map Subj.observable).length + 1 = n + 1 := by simp [sjs]
  rw [hlen, encQ_init]
  simp only [World.setObs, List.nil_append, List.length_nil, List.length_append, subjCells_length,
    List.length_replicate, List.length_cons, Nat.zero_add]
  have e2 : ∀ (W : World) p Q, W = W2 (lay (n + 1)) [encQ (List.replicate (n + 1) [])]
      (oZip ((sjs (n + 1)).headD default).observable ((sjs (n + 1)).tail.map Subj.observable)) →
      WP p (W2 (lay (n + 1)) [encQ (List.replicate (n + 1) [])]
        (oZip ((sjs (n + 1)).headD default).observable ((sjs (n + 1)).tail.map Subj.observable))) Q → WP p W Q :=
    fun W p Q q hq => q ▸ hq
  refine e2 _ _ _ ?_ ?_
  · simp [W2, rootObs, Lay.sc, lay, scOf, sjs]
  refine wp_newObservers (scOf (n + 1)) (mk (n + 1)) (n + 1) _ _ [] 0 _ rfl (by simp [scOf])
    (W2_ser (lay (n + 1)) _ _) (W2_map (lay (n + 1)) _ _) (by intro p hp; cases hp) ⟨_, rfl, rfl⟩ ?_
  have hol : (W2 (lay (n + 1)) [encQ (List.replicate (n + 1) [])]
      (oZip ((sjs (n + 1)).headD default).observable ((sjs (n + 1)).tail.map Subj.observable))).obs.length = 1 := rfl
  rw [hol, zip_eq]
  refine (subscribeAll_spec ok (L := lay (n + 1)) (c := Ctl.init (n + 1))
    (by intro i hi; simpa [Ctl.init, lay] using hi)
    (n + 1) 0 _ (by simp [lay]) (rel_W2 _ _)).conseq fun w1 h1 => ?_
  refine wp_userReady ?_
  have h2 := h1.setUser (fun u => { u with ready := true }) (fun _ => rfl)
  have h3 := drive_zip (n + 1) H (zip.init (n + 1)) [] _
    ⟨h2, fun _ => by simp [zip.init, ne, List.replicate_succ], by simp [zip.init], by omega⟩
  simpa [zip.run, sjs] using h3

/-- **C03-REF, zip.**  For EVERY history the zip program ends, for all sufficient fuel, with `status = ok`, no guard
    held, the user's log equal to the output of `Comb.zip`, and subject `i` holding one observer iff `i` is in the
    machine's final `live` set. -/
theorem zip_refines (n : Nat) (H : History) :
    ∃ n0, ∀ fuel, n0 ≤ fuel →
      Agrees (n + 1) (run fuel [prog n H] {}) (finalFrom zip.step (zip.init (n + 1)) H).ctl.live
        (zip.run (n + 1) H) := by
  obtain ⟨n0, w, hrel, hrun⟩ := WP.run_top (prog_spec n H)
  exact ⟨n0, fun fuel hf => by rw [hrun fuel hf]; exact hrel.rel.agrees⟩

/-- the C03 list specification transported to model A -/
theorem zip_machine_spec (n : Nat) (H : History) (hwf : WellFormed (n + 1) H) :
    ∃ n0, ∀ fuel, n0 ≤ fuel → (run fuel [prog n H] {}).status = .ok ∧
      logOf (run fuel [prog n H] {}) 0 = zipSpec (n + 1) H := by
  obtain ⟨n0, h⟩ := zip_refines n H
  exact ⟨n0, fun fuel hf => ⟨(h fuel hf).status, by rw [(h fuel hf).log, zip_spec _ (by omega) H hwf]⟩⟩

/-! non-vacuity -/
def demo : History :=
  [(0, .next (.int 1)), (0, .next (.int 2)), (1, .next (.int 10)), (2, .next (.int 20)), (2, .next (.int 21)),
   (1, .next (.int 11)), (1, .complete), (0, .complete), (2, .complete)]

example : (run 4000 [prog 2 demo] {}).status = .ok := by decide +kernel
example : logOf (run 4000 [prog 2 demo] {}) 0 =
    [.next (Data.ofList [.int 1, .int 10, .int 20]), .next (Data.ofList [.int 2, .int 11, .int 21]), .complete] := by
  decide +kernel
example : zip.run 3 demo =
    [.next (Data.ofList [.int 1, .int 10, .int 20]), .next (Data.ofList [.int 2, .int 11, .int 21]), .complete] := by
  decide +kernel
example : (List.range 3).map (regCount (run 4000 [prog 2 (demo.take 7)] {})) = [1, 0, 1] ∧
    (finalFrom zip.step (zip.init 3) (demo.take 7)).ctl.live = [0, 2] := by decide +kernel
example : WellFormed 3 demo := by decide
example : logOf (run 4000 [prog 2 demo] {}) 0 = zipSpec 3 demo := by decide +kernel

#print axioms zip_refines
#print axioms zip_machine_spec

end Rx.CRef.Zip
