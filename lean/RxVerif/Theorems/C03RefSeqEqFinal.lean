import RxVerif.Theorems.C03RefSeqEqSetup4
import RxVerif.Theorems.C03RefSeqEqMain
/-
C03-REF, sequence_equal, part 19: the whole program, and the refinement theorem.
-/
namespace Rx.SeqRef
open Rx.Sim Rx.Ref Rx.Comb Rx.CRef Rx.CRef.SequenceEqual

theorem QRel.agrees {k : Nat} {s : Over} {out : List Ev} {w : World} (h : QRel k s out w) :
    Agrees k w s.z.ctl.live out := by
  obtain ⟨σ, g, ho, hc⟩ := h
  refine ⟨g.status, g.held, by rw [g.log, ho], ?_⟩
  intro i hi
  have hO := (g.chains i hi).subjO
  simp only [CRef.regCount, hO, Option.getD_some, amapLen_encMap]
  rcases hc with ⟨R, qs, rfl, c⟩ | ⟨d, c⟩
  · show _ = if R.contains i then 1 else 0
    cases hR : R.contains i
    · rw [c.chD i hi hR]; rfl
    · rw [c.chL i hi hR]; rfl
  · rw [d.live, c i hi]; rfl

theorem srcs_eq (n : Nat) :
    oWithEnd ((sjs (n + 1)).headD default).observable :: ((sjs (n + 1)).tail.map Subj.observable).map oWithEnd
      = (List.range (n + 1)).map fun i => oWithEnd (sjOf i).observable := by
  have := Merge.srcs_eq n
  have h2 := congrArg (List.map oWithEnd) this
  simp only [List.map_cons] at h2
  rw [h2, List.range_eq_range', List.map_map]; rfl

/-- the comparison observer, for a controller at arbitrary addresses -/
def outerObsOf (sc : Sctl) : Obs :=
  ⟨some (.code fun x =>
      let l := x.toList
      if l.all (fun i => i == l.headD .unit) then .done
      else sc.abortObserve 0 ;; sc.sinkNext (.bool false) ;; sc.sinkComplete 0),
   some (.code fun e => sc.sinkError e), some (.code (sc.sinkNext (.bool true) ;; sc.sinkComplete 0)), none⟩

/-- the world after the outer controller's stage, seen from `zip` -/
theorem preZip_of_stage {k : Nat} {W w1 : World}
    (hc : W.cells.length = 2 * k) (hs : W.slots.length = 2 * k)
    (ho : W.obs = [⟨some (.user 0), some (.user 0), some (.user 0), none⟩])
    (hu : W.users = [⟨0, noReact, false, true⟩]) (hst : W.status = .ok) (hh : W.held = []) (ht : W.trace = [])
    (hf : ∀ j, j < k → W.cells[2 * j]? = some .lnil ∧ W.cells[2 * j + 1]? = some (.int 0) ∧
      W.slots[2 * j]? = some none ∧ W.slots[2 * j + 1]? = some none)
    (h0 : StagePost0 W w1 0 (Sctl.finalize ⟨0, W.cells.length, W.cells.length + 1, W.slots.length⟩)
      (outerObsOf ⟨0, W.cells.length, W.cells.length + 1, W.slots.length⟩)) :
    PreZip k w1 := by
  rw [hc, hs] at h0
  have h1 : StagePost0 W w1 0 (scO k).finalize (outerObs k none) := h0
  have hol : W.obs.length = 1 := by rw [ho]; rfl
  exact
  { status := h1.status.trans hst, held := h1.held.trans hh
    user := ⟨_, by rw [h1.users, hu]; rfl, rfl⟩
    trace := h1.trace.trans ht
    cLen := by rw [h1.cellsLen, hc]
    sLen := by rw [h1.slotsLen, hs]
    oLen := by rw [h1.obsLen, hol]
    root := by rw [h1.obsS _ (by rw [ho]; rfl)]; rfl
    o1 := by have := h1.obsNew; rwa [hol] at this
    oS := by have := h1.cSer; rwa [hc] at this
    oM := by have := h1.cMap; rwa [hc, hol] at this
    oF := by have := h1.slotNew; rwa [hs] at this
    sfresh := by
      intro j hj
      obtain ⟨a, b, c, d⟩ := hf j hj
      exact ⟨by rw [h1.cellsOld _ (by omega)]; exact a, by rw [h1.cellsOld _ (by omega)]; exact b,
        by rw [h1.slotsOld _ (by omega)]; exact c, by rw [h1.slotsOld _ (by omega)]; exact d⟩ }

theorem prog_spec (n : Nat) (H : History) :
    WP (SequenceEqual.prog n H) {}
      (QRel (n + 1) (finalFrom sequenceEqual.step (Over.init (n + 1)) H) (sequenceEqual.run (n + 1) H)) := by
  unfold SequenceEqual.prog
  refine wp_subjsNew (n + 1) 0 {} _ _ rfl rfl ?_
  refine wp_obsvNew ?_
  refine wp_userSub
    (f := oSequenceEqual ((sjs (n + 1)).headD default).observable ((sjs (n + 1)).tail.map Subj.observable)) rfl ?_
  simp only [oSequenceEqual, fwdOp]
  refine wp_stage0 0 _ _ _ (fun _ o => (oZip _ _).sub o) rfl (x := ⟨some (.user 0), some (.user 0), some (.user 0), none⟩)
    rfl rfl ?_
  intro w1 h1
  have hp : PreZip (n + 1) w1 := by
    refine preZip_of_stage (k := n + 1) ?_ ?_ rfl rfl rfl rfl rfl ?_ h1
    · simp [subjCells_length]
    · simp
    · intro j hj
      refine ⟨?_, ?_, ?_, ?_⟩
      · show ([] ++ subjCells (n + 1))[2 * j]? = _; rw [List.nil_append]; exact subjCells_even _ _ hj
      · show ([] ++ subjCells (n + 1))[2 * j + 1]? = _; rw [List.nil_append]; exact subjCells_odd _ _ hj
      · show ([] ++ List.replicate (2 * (n + 1)) none)[2 * j]? = _
        rw [List.nil_append, List.getElem?_replicate, if_pos (by omega)]
      · show ([] ++ List.replicate (2 * (n + 1)) none)[2 * j + 1]? = _
        rw [List.nil_append, List.getElem?_replicate, if_pos (by omega)]
  have hz := zip_stage hp _ _ (by simp [sjs]) (srcs_eq n)
  refine hz.conseq fun w2 h2 => wp_userReady ?_
  have h3 := drive_seq H _ [] _ (setup_final (Nat.succ_pos n) h2)
  simpa [sequenceEqual.run, sjs] using h3

/-- **C03-REF, sequence_equal.**  For EVERY history the sequence_equal program (subject -> `with_end` -> zip ->
    comparison, a tree of `n + 3` controllers for `n + 1` sources) ends, for all sufficient fuel, with
    `status = ok`, no guard held, the user's log equal to the output of `Comb.sequenceEqual`, and subject `i` holding
    one observer iff `i` is in the final `live` set of the machine's zip. -/
theorem sequence_equal_refines (n : Nat) (H : History) :
    ∃ n0, ∀ fuel, n0 ≤ fuel →
      Agrees (n + 1) (run fuel [SequenceEqual.prog n H] {})
        (finalFrom sequenceEqual.step (Over.init (n + 1)) H).z.ctl.live (sequenceEqual.run (n + 1) H) := by
  obtain ⟨n0, w, hrel, hrun⟩ := WP.run_top (prog_spec n H)
  exact ⟨n0, fun fuel hf => by rw [hrun fuel hf]; exact hrel.agrees⟩

/-- the C03 list specification transported to model A -/
theorem sequence_equal_machine_spec (n : Nat) (H : History) (hwf : WellFormed (n + 1) H) :
    ∃ n0, ∀ fuel, n0 ≤ fuel → (run fuel [SequenceEqual.prog n H] {}).status = .ok ∧
      logOf (run fuel [SequenceEqual.prog n H] {}) 0 = sequenceEqualSpec (n + 1) H := by
  obtain ⟨n0, h⟩ := sequence_equal_refines n H
  exact ⟨n0, fun fuel hf => ⟨(h fuel hf).status, by
    rw [(h fuel hf).log, sequence_equal_spec (n + 1) (by omega) H hwf]⟩⟩

/-! non-vacuity: the concrete histories `h1 .. h4` of C03RefSequenceEqual.lean (all prefixes, `decide +kernel`) -/
example : WellFormed 2 SequenceEqual.h1 := by decide
example : logOf (run 20000 [SequenceEqual.prog 1 SequenceEqual.h1] {}) 0 = sequenceEqualSpec 2 SequenceEqual.h1 := by
  decide +kernel

#print axioms sequence_equal_refines
#print axioms sequence_equal_machine_spec

end Rx.SeqRef
