import RxVerif.Theorems.C04RefResume
/-
C04-REF, part 6: the central C04r theorems (about the pure mirror) transported to model A through the
refinement theorems `retry_refines` / `retryWhen_refines` / `resume_refines`; non-vacuity; axioms.
-/
namespace Rx.RetryRef
open Rx.Sim Rx.Ref Rx.Spec Rx.C04

/-- the machine run of the retry test / of the retry_when test / of the resume test -/
def retryW (max tag : Nat) (scripts : List (List Ev)) (w : World) (fuel : Nat) : World :=
  run fuel [subscribeFlaky (oRetry max) tag scripts] w
def retryWhenW (p : EPred) (tag : Nat) (scripts : List (List Ev)) (w : World) (fuel : Nat) : World :=
  run fuel [subscribeFlaky (oRetryWhen p) tag scripts] w
def resumeW (tag : Nat) (evs : List Ev) (tagF : Nat → Nat) (fs : Nat → List Ev) (w : World) (fuel : Nat) : World :=
  run fuel [subscribeResume tag evs tagF fs] w

theorem ofScript_error_mem : ∀ (l : List Ev) (e : Nat), (Stream.ofScript l).2 = .error e → Ev.error e ∈ l
  | [], e, h => by simp [Stream.ofScript] at h
  | .next d :: l, e, h => by
    simp only [Stream.ofScript] at h
    exact List.mem_cons_of_mem _ (ofScript_error_mem l e h)
  | .error e' :: l, e, h => by
    simp only [Stream.ofScript, Ending.error.injEq] at h
    subst h; simp
  | .complete :: l, e, h => by simp [Stream.ofScript] at h

/-- the refinement theorem against the mirror run with ANY sufficient mirror fuel (inputs on which the mirror
    terminates: `max ≠ 0`, or some attempt does not fail) -/
theorem retry_refines_fuel (max tag : Nat) (scripts : List (List Ev)) (w : World) (hw : Ready w) (F : Nat)
    (hne : scripts ≠ [])
    (hfin : max ≠ 0 ∨ ∃ k, firstStop failed (scripts.map Stream.ofScript) = some k)
    (hF : retryCount max (scripts.map Stream.ofScript) ≤ F)
    (hM : retryCount max (scripts.map Stream.ofScript) ≤ 100000) :
    ∃ N, ∀ fuel, N ≤ fuel →
      logOf (retryW max tag scripts w fuel) w.users.length = (retryRun max (scripts.map Stream.ofScript) F).1 ∧
      (retryW max tag scripts w fuel).cells[w.cells.length]?
        = some (.int (retryRun max (scripts.map Stream.ofScript) F).2) := by
  obtain ⟨N, h⟩ := retry_refines max tag scripts w hw
  refine ⟨N, fun fuel hf => ?_⟩
  have hA : scripts.map Stream.ofScript ≠ [] := by simpa using hne
  rw [retry_run_eq max _ F hA hfin hF, ← retry_run_eq max _ 100000 hA hfin hM]
  exact ⟨(h fuel hf).2.1, (h fuel hf).2.2.1⟩

/-- **C04 on model A, retry(max), max ≠ 0**: the subscriber sees the items of attempts 1..m in order, then the
    terminal of attempt m, and the source has been subscribed exactly m = `retryCount` times. -/
theorem retry_machine_spec (max tag : Nat) (scripts : List (List Ev)) (w : World) (hw : Ready w)
    (hne : scripts ≠ []) (hmax : max ≠ 0) (hM : max ≤ 100000) :
    ∃ N, ∀ fuel, N ≤ fuel →
      logOf (retryW max tag scripts w fuel) w.users.length = (retrySpec max (scripts.map Stream.ofScript)).1 ∧
      (retryW max tag scripts w fuel).cells[w.cells.length]?
        = some (.int (retryCount max (scripts.map Stream.ofScript))) := by
  obtain ⟨N, h⟩ := retry_refines max tag scripts w hw
  refine ⟨N, fun fuel hf => ?_⟩
  have hA : scripts.map Stream.ofScript ≠ [] := by simpa using hne
  have e := retry_spec' max _ 100000 hA hmax hM
  have := h fuel hf
  simp only [e] at this
  exact ⟨this.2.1, this.2.2.1⟩

/-- **resubscription count on model A**: `min k max`, k the number of the first attempt not ending in an error -/
theorem retry_machine_count (max tag : Nat) (scripts : List (List Ev)) (w : World) (hw : Ready w)
    (hne : scripts ≠ []) (hmax : max ≠ 0) (hM : max ≤ 100000) :
    ∃ N, ∀ fuel, N ≤ fuel →
      (retryW max tag scripts w fuel).cells[w.cells.length]? = some (.int (
        match firstStop failed (scripts.map Stream.ofScript) with
        | some k => min k max
        | none => max : Nat)) := by
  obtain ⟨N, h⟩ := retry_refines max tag scripts w hw
  refine ⟨N, fun fuel hf => ?_⟩
  have hA : scripts.map Stream.ofScript ≠ [] := by simpa using hne
  have e := retry_count_exact max _ 100000 hA hmax hM
  have := (h fuel hf).2.2.1
  simp only [e] at this
  exact this

/-- **never more than `max` subscriptions on model A** -/
theorem retry_machine_subscriptions_le (max tag : Nat) (scripts : List (List Ev)) (w : World) (hw : Ready w)
    (hne : scripts ≠ []) (hmax : max ≠ 0) :
    ∃ N, ∀ fuel, N ≤ fuel → ∃ n : Nat, n ≤ max ∧
      (retryW max tag scripts w fuel).cells[w.cells.length]? = some (.int n) := by
  obtain ⟨N, h⟩ := retry_refines max tag scripts w hw
  have hA : scripts.map Stream.ofScript ≠ [] := by simpa using hne
  exact ⟨N, fun fuel hf => ⟨_, retry_subscriptions_le max _ 100000 hA hmax, (h fuel hf).2.2.1⟩⟩

/-- **error identity on model A**: an error event the subscriber logs is an error event of one of the source's
    scripts, same payload (no restriction on `max` or the scripts) -/
theorem retry_machine_error_identity (max tag : Nat) (scripts : List (List Ev)) (w : World) (hw : Ready w) :
    ∃ N, ∀ fuel, N ≤ fuel → ∀ e, Ev.error e ∈ logOf (retryW max tag scripts w fuel) w.users.length →
      ∃ sc ∈ scripts, Ev.error e ∈ sc := by
  obtain ⟨N, h⟩ := retry_refines max tag scripts w hw
  refine ⟨N, fun fuel hf e he => ?_⟩
  have h1 : logOf (retryW max tag scripts w fuel) w.users.length = _ := (h fuel hf).2.1
  rw [h1] at he
  obtain ⟨s, hs, hse⟩ := retry_error_identity max _ 100000 e he
  obtain ⟨sc, hsc, rfl⟩ := List.mem_map.1 hs
  exact ⟨sc, hsc, ofScript_error_mem sc e hse⟩

/-- **retry(0)** over a source one of whose attempts does not fail (within the unrolling depth) -/
theorem retry_machine_unbounded (tag : Nat) (scripts : List (List Ev)) (w : World) (hw : Ready w)
    (hok : ∃ s ∈ scripts.map Stream.ofScript, failed s = false)
    (hM : retryCount 0 (scripts.map Stream.ofScript) ≤ 100000) :
    ∃ N, ∀ fuel, N ≤ fuel →
      logOf (retryW 0 tag scripts w fuel) w.users.length = (retrySpec 0 (scripts.map Stream.ofScript)).1 ∧
      (retryW 0 tag scripts w fuel).cells[w.cells.length]?
        = some (.int (retryCount 0 (scripts.map Stream.ofScript))) := by
  obtain ⟨N, h⟩ := retry_refines 0 tag scripts w hw
  refine ⟨N, fun fuel hf => ?_⟩
  have e := retry_unbounded_spec _ 100000 hok hM
  have := h fuel hf
  simp only [e] at this
  exact ⟨this.2.1, this.2.2.1⟩

/-! ### retry_when -/

/-- **C04 on model A, retry_when(p)**: k = number of the first attempt that does not fail with an error satisfying
    `p`; the subscriber sees the items of attempts 1..k in order and the terminal of attempt k; k subscriptions -/
theorem retryWhen_machine_spec (p : EPred) (tag : Nat) (scripts : List (List Ev)) (w : World) (hw : Ready w)
    (k : Nat) (hk : firstStop (failedWith p.app) (scripts.map Stream.ofScript) = some k) (hM : k ≤ 100000) :
    ∃ N, ∀ fuel, N ≤ fuel →
      logOf (retryWhenW p tag scripts w fuel) w.users.length
        = (attemptsUpTo (scripts.map Stream.ofScript) k).1 ∧
      (retryWhenW p tag scripts w fuel).cells[w.cells.length]? = some (.int k) := by
  obtain ⟨N, h⟩ := retryWhen_refines p tag scripts w hw
  refine ⟨N, fun fuel hf => ?_⟩
  have e := (retry_when_spec p.app _ 100000 k hk hM).1
  have := h fuel hf
  simp only [e, retryWhenSpec, hk, Option.getD_some] at this
  exact ⟨this.2.1, this.2.2.1⟩

theorem retryWhen_machine_error_identity (p : EPred) (tag : Nat) (scripts : List (List Ev)) (w : World)
    (hw : Ready w) :
    ∃ N, ∀ fuel, N ≤ fuel → ∀ e, Ev.error e ∈ logOf (retryWhenW p tag scripts w fuel) w.users.length →
      ∃ sc ∈ scripts, Ev.error e ∈ sc := by
  obtain ⟨N, h⟩ := retryWhen_refines p tag scripts w hw
  refine ⟨N, fun fuel hf e he => ?_⟩
  have h1 : logOf (retryWhenW p tag scripts w fuel) w.users.length = _ := (h fuel hf).2.1
  rw [h1] at he
  obtain ⟨s, hs, hse⟩ := retry_when_error_identity p.app _ 100000 e he
  obtain ⟨sc, hsc, rfl⟩ := List.mem_map.1 hs
  exact ⟨sc, hsc, ofScript_error_mem sc e hse⟩

/-- an error the subscriber logs is one the predicate rejected -/
theorem retryWhen_machine_error_rejected (p : EPred) (tag : Nat) (scripts : List (List Ev)) (w : World)
    (hw : Ready w) (k : Nat) (hk : firstStop (failedWith p.app) (scripts.map Stream.ofScript) = some k)
    (hM : k ≤ 100000) :
    ∃ N, ∀ fuel, N ≤ fuel → ∀ e, Ev.error e ∈ logOf (retryWhenW p tag scripts w fuel) w.users.length →
      p.app e = false := by
  obtain ⟨N, h⟩ := retryWhen_refines p tag scripts w hw
  refine ⟨N, fun fuel hf e he => ?_⟩
  have h1 : logOf (retryWhenW p tag scripts w fuel) w.users.length = _ := (h fuel hf).2.1
  rw [h1] at he
  exact retry_when_error_rejected p.app _ 100000 k e hk hM he

/-! ### on_error_resume_next -/

/-- **C04 on model A, on_error_resume_next**: the items of the source, then — if it ends with `error e` — everything
    `f e` plays, otherwise the source's terminal -/
theorem resume_machine_spec (tag : Nat) (evs : List Ev) (tagF : Nat → Nat) (fs : Nat → List Ev) (w : World)
    (hw : Ready w) :
    ∃ N, ∀ fuel, N ≤ fuel →
      logOf (resumeW tag evs tagF fs w fuel) w.users.length
        = resumeSpec (fun e => Stream.ofScript (fs e)) (Stream.ofScript evs) := by
  obtain ⟨N, h⟩ := resume_refines tag evs tagF fs w hw
  refine ⟨N, fun fuel hf => ?_⟩
  rw [← resume_spec]
  exact (h fuel hf).2.1

/-- an error the subscriber logs is the error of the resumed observable `f e`, `e` the source's error -/
theorem resume_machine_error_identity (tag : Nat) (evs : List Ev) (tagF : Nat → Nat) (fs : Nat → List Ev)
    (w : World) (hw : Ready w) :
    ∃ N, ∀ fuel, N ≤ fuel → ∀ e', Ev.error e' ∈ logOf (resumeW tag evs tagF fs w fuel) w.users.length →
      ∃ e, Ev.error e ∈ evs ∧ Ev.error e' ∈ fs e := by
  obtain ⟨N, h⟩ := resume_refines tag evs tagF fs w hw
  refine ⟨N, fun fuel hf e' he => ?_⟩
  have h1 : logOf (resumeW tag evs tagF fs w fuel) w.users.length = _ := (h fuel hf).2.1
  rw [h1] at he
  obtain ⟨e, h2, h3⟩ := resume_error_identity _ _ e' he
  exact ⟨e, ofScript_error_mem _ _ h2, ofScript_error_mem _ _ h3⟩

/-! ### non-vacuity: a flaky source with three differing attempts (the first script goes on after its error:
    a polite source never gets to emit that), evaluated on both sides -/

def demo : List (List Ev) :=
  [[.next (.int 1), .next (.int 2), .error 7, .next (.int 99)], [.next (.int 3), .error 8],
   [.next (.int 4), .complete]]

-- the hypothesis `Ready w` of every theorem is satisfiable
example : Ready ({} : World) := ready_empty
-- the world such a run leaves: status ok, no guard held (two of Ready's three fields; used as a start world below)
example : (retryW 5 0 demo {} 400).status = .ok ∧ (retryW 5 0 demo {} 400).held = [] := by decide

-- retry(5): machine and mirror evaluate to the same log and the same count
example : logOf (retryW 5 0 demo {} 400) 0 = (retryRun 5 (demo.map Stream.ofScript) 100000).1 := by decide
example : (retryW 5 0 demo {} 400).cells[0]? = some (.int (retryRun 5 (demo.map Stream.ofScript) 100000).2) := by
  decide
example : logOf (retryW 5 0 demo {} 400) 0
    = [.next (.int 1), .next (.int 2), .next (.int 3), .next (.int 4), .complete] := by decide
example : (retryW 5 0 demo {} 400).cells[0]? = some (.int 3) := by decide
-- retry(2): budget exhausted at the second attempt, whose error (payload 8) is forwarded
example : logOf (retryW 2 0 demo {} 400) 0 = (retryRun 2 (demo.map Stream.ofScript) 100000).1 ∧
    logOf (retryW 2 0 demo {} 400) 0 = [.next (.int 1), .next (.int 2), .next (.int 3), .error 8] ∧
    (retryW 2 0 demo {} 400).cells[0]? = some (.int 2) := by decide
-- hypotheses of the corollaries
example : demo ≠ [] ∧ (5 : Nat) ≠ 0 ∧ 5 ≤ 100000 ∧ retryCount 5 (demo.map Stream.ofScript) = 3 := by decide
example : (∃ s ∈ demo.map Stream.ofScript, failed s = false) ∧ retryCount 0 (demo.map Stream.ofScript) ≤ 100000 :=
  ⟨⟨([.int 4], .complete), by decide, by decide⟩, by decide⟩
-- retry_when(e < 8): attempt 1 (error 7) is retried, attempt 2 (error 8) is not
example : firstStop (failedWith (EPred.lt 8).app) (demo.map Stream.ofScript) = some 2 := by decide
example : logOf (retryWhenW (.lt 8) 0 demo {} 400) 0
      = (retryWhenRun (EPred.lt 8).app (demo.map Stream.ofScript) 100000).1 ∧
    logOf (retryWhenW (.lt 8) 0 demo {} 400) 0 = [.next (.int 1), .next (.int 2), .next (.int 3), .error 8] ∧
    (retryWhenW (.lt 8) 0 demo {} 400).cells[0]? = some (.int 2) := by decide
-- on_error_resume_next: the source fails with 7, `f 7` plays [5, error 9]
def demoF : Nat → List Ev := fun e => if e = 7 then [.next (.int 5), .error 9] else [.complete]
example : logOf (resumeW 0 [.next (.int 1), .error 7, .next (.int 99)] (fun _ => 1) demoF {} 400) 0
      = resumeRun (fun e => Stream.ofScript (demoF e)) (Stream.ofScript [.next (.int 1), .error 7, .next (.int 99)]) ∧
    logOf (resumeW 0 [.next (.int 1), .error 7, .next (.int 99)] (fun _ => 1) demoF {} 400) 0
      = [.next (.int 1), .next (.int 5), .error 9] := by decide
-- a second subscription from the world the first one left: the other subscriber's log is untouched
example : logOf (retryW 2 1 demo (retryW 5 0 demo {} 400) 400) 0 = logOf (retryW 5 0 demo {} 400) 0 ∧
    logOf (retryW 2 1 demo (retryW 5 0 demo {} 400) 400) 1
      = [.next (.int 1), .next (.int 2), .next (.int 3), .error 8] := by decide

#print axioms retry_refines
#print axioms retryWhen_refines
#print axioms resume_refines
#print axioms retry_refines_fuel
#print axioms retry_machine_spec
#print axioms retry_machine_count
#print axioms retry_machine_subscriptions_le
#print axioms retry_machine_error_identity
#print axioms retry_machine_unbounded
#print axioms retryWhen_machine_spec
#print axioms retryWhen_machine_error_identity
#print axioms retryWhen_machine_error_rejected
#print axioms resume_machine_spec
#print axioms resume_machine_error_identity

end Rx.RetryRef
