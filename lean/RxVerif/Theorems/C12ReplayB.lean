/-
Delivery invariant of the `ReplaySubject` LTS along QUIET runs (no `next` call overlaps a `subscribe` call).
-/
import RxVerif.Theorems.C12ReplayA
import RxVerif.Theorems.C12Lists

namespace Rx.Conc.Replay

def nextItems : List Call → List Data
  | [] => []
  | .next v :: r => v :: nextItems r
  | _ :: r => nextItems r

/-- the items thread `t` pushes, in program order -/
def progItems (progs : List (List Call)) (t : Nat) : List Data := nextItems (progs.getD t [])

/-- entries of producer `t` in a list of tagged entries (order preserved), as `(call index, item)` -/
def proj (t : Nat) (l : List Entry) : List (Nat × Data) := (l.filter (·.1 == t)).map (·.2)

theorem proj_cons (t : Nat) (x : Entry) (l : List Entry) :
    proj t (x :: l) = if x.1 = t then x.2 :: proj t l else proj t l := by
  simp only [proj, List.filter_cons]
  by_cases h : x.1 = t <;> simp [h]

theorem proj_append (t : Nat) (l l' : List Entry) : proj t (l ++ l') = proj t l ++ proj t l' := by
  simp [proj]

theorem proj_reverse (t : Nat) (l : List Entry) : proj t l.reverse = (proj t l).reverse := by
  simp [proj, List.filter_reverse]

@[simp] theorem proj_nil (t : Nat) : proj t [] = [] := rfl

/-- `(n, strong)`: calls `0 .. n-1` of the thread have passed observer `o`; `strong` = the thread holds the fetched
callback of `o` for call `n` -/
def pos (th : Thread) (o : Nat) : Nat × Bool :=
  match th.pc with
  | .r0 k _ | .nx0 k _ => (k, false)
  | .nxL k _ snap => (if o ∈ snap then k else k + 1, false)
  | .nxF k _ o' rest => (if o = o' ∨ o ∈ rest then k else k + 1, false)
  | .nxD k _ o' rest => if o = o' then (k, true) else (if o ∈ rest then k else k + 1, false)
  | _ => (th.cnt, false)

/-- number of items the thread has pushed into `items` -/
def pushed (th : Thread) : Nat :=
  match th.pc with
  | .r0 k _ => k
  | _ => th.cnt

/-- the part of the cloned history a subscribing thread still has to replay, and to whom -/
def histRem : Pc → Option (Nat × List Entry)
  | .s3 o h | .s4 o h | .s5 o h | .s6 o h | .s7 o h | .s8 o h => some (o, h)
  | .s8d o x h => some (o, x :: h)
  | .s9 o => some (o, [])
  | _ => none

theorem inSub_of_histRem {pc : Pc} {x : Nat × List Entry} (h : histRem pc = some x) : pc.inSub = true := by
  cases pc <;> simp [histRem] at h <;> rfl

def LocB (P : List Data) (th : Thread) : Prop :=
  th.cnt ≤ P.length ∧ nextItems th.todo = P.drop th.cnt ∧
  match th.pc with
  | .r0 k v | .nx0 k v | .nxL k v _ | .nxF k v _ _ | .nxD k v _ _ => th.cnt = k + 1 ∧ P[k]? = some v
  | _ => True

/-- once `o`'s `subscribe` call has returned and while `o` is live, `o` has received from `t` exactly the items of
`t`'s calls `0 .. n-1`, each once, in order -/
def Full (P : List Data) (ob : Obs) (t : Nat) (p : Nat × Bool) : Prop :=
  ob.subDone = true → (p.2 = true ∨ ob.fnNext = true) →
    Asc P 0 (proj t ob.rlog).reverse ∧ (proj t ob.rlog).length = p.1

structure InvB (progs : List (List Call)) (s : State) : Prop where
  loc : ∀ t : Nat, LocB (progItems progs t) (s.threads t)
  full : ∀ o t : Nat, Full (progItems progs t) (s.obs o) t (pos (s.threads t) o)
  hist : ∀ (ts o : Nat) (h : List Entry), histRem (s.threads ts).pc = some (o, h) → (s.obs o).fnNext = true →
    ∀ t, (proj t (s.obs o).rlog).reverse ++ proj t h = proj t s.items
  items : ∀ t : Nat, Asc (progItems progs t) 0 (proj t s.items) ∧ (proj t s.items).length = pushed (s.threads t)

theorem invB_init (progs : List (List Call)) : InvB progs (init progs) := by
  constructor
  · intro t; simp [init, LocB, progItems]
  · intro o t; simp [init, Full]
  · intro ts o h hh; simp [init, histRem] at hh
  · intro t; simp [init, Asc, pushed]

/-- generic re-establishment for steps that neither deliver nor push nor finish a subscription -/
theorem invB_same {progs : List (List Call)} {s s' : State} (hB : InvB progs s) (t : Nat) (th' : Thread)
    (hthr : s'.threads = setThr s t th') (hitems : s'.items = s.items)
    (hobs : ∀ o, (s'.obs o).rlog = (s.obs o).rlog ∧ (s'.obs o).subDone = (s.obs o).subDone ∧
      ((s'.obs o).fnNext = true → (s.obs o).fnNext = true))
    (hloc : LocB (progItems progs t) th')
    (hpos : ∀ o, pos th' o = pos (s.threads t) o) (hpushed : pushed th' = pushed (s.threads t))
    (hhist : ∀ o h, histRem th'.pc = some (o, h) → (s.obs o).fnNext = true →
      histRem (s.threads t).pc = some (o, h)) : InvB progs s' := by
  constructor
  · intro t'
    rw [hthr]; simp only [setThr]
    split
    · rename_i h; subst h; exact hloc
    · exact hB.loc t'
  · intro o t'
    have hpos' : pos (s'.threads t') o = pos (s.threads t') o := by
      rw [hthr]; simp only [setThr]
      split
      · rename_i h; subst h; exact hpos o
      · rfl
    rw [hpos']
    intro h1 h2
    obtain ⟨e1, e2, e3⟩ := hobs o
    rw [e1]
    exact hB.full o t' (e2 ▸ h1) (h2.imp id e3)
  · intro ts o h hh hfn t'
    obtain ⟨e1, e2, e3⟩ := hobs o
    rw [e1, hitems]
    rw [hthr] at hh; simp only [setThr] at hh
    split at hh
    · rename_i h; subst h
      exact hB.hist ts o h (hhist o h hh (e3 hfn)) (e3 hfn) t'
    · exact hB.hist ts o h hh (e3 hfn) t'
  · intro t'
    rw [hitems, hthr]; simp only [setThr]
    split
    · rename_i h; subst h; rw [hpushed]; exact hB.items t'
    · exact hB.items t'

/-- only thread `t` moved (no delivery, no push); its new position is justified observer by observer -/
theorem invB_thr {progs : List (List Call)} {s : State} (hB : InvB progs s) (t : Nat) (th' : Thread)
    (hloc : LocB (progItems progs t) th')
    (hfull : ∀ o, Full (progItems progs t) (s.obs o) t (pos th' o))
    (hpushed : pushed th' = pushed (s.threads t))
    (hhist : ∀ o h, histRem th'.pc = some (o, h) → (s.obs o).fnNext = true →
      histRem (s.threads t).pc = some (o, h)) : InvB progs { s with threads := setThr s t th' } := by
  constructor
  · intro t'
    simp only [setThr]
    split
    · rename_i h; subst h; exact hloc
    · exact hB.loc t'
  · intro o t'
    simp only [setThr]
    split
    · rename_i h; subst h; exact hfull o
    · exact hB.full o t'
  · intro ts o h hh hfn t'
    simp only [setThr] at hh
    split at hh
    · rename_i h; subst h
      exact hB.hist ts o h (hhist o h hh hfn) hfn t'
    · exact hB.hist ts o h hh hfn t'
  · intro t'
    simp only [setThr]
    split
    · rename_i h; subst h; rw [hpushed]; exact hB.items t'
    · exact hB.items t'


theorem invB_step_s0 {progs : List (List Call)} {s s' : State} {t : Nat} {o : _} (hB : InvB progs s)
    (hpc : (s.threads t).pc = .s0 o) (hs : stepT s t = some s') : InvB progs s' := by
  obtain ⟨hcnt, htodo, hpcB⟩ := hB.loc t
  simp only [stepT, hpc, Option.some.injEq] at hs; subst hs
  by_cases hc : (s.obs o).fnNext = true
  · simp only [hc, if_true]
    refine invB_same hB t _ rfl rfl ?_ ⟨hcnt, htodo, by simp⟩ ?_ ?_ ?_
    · intro o'; exact ⟨rfl, rfl, id⟩
    · intro o'; simp [pos, hpc]
    · simp [pushed, hpc]
    · intro o' h hh _; simp only [histRem, hpc] at hh ⊢; first | exact hh | simp at hh
  · have hc' : (s.obs o).fnNext = false := by simpa using hc
    simp only [hc', Bool.false_eq_true, if_false]
    refine invB_same hB t _ rfl rfl ?_ ⟨hcnt, htodo, by simp⟩ ?_ ?_ ?_
    · intro o'; exact ⟨rfl, rfl, id⟩
    · intro o'; simp [pos, hpc]
    · simp [pushed, hpc]
    · intro o' h hh _; simp only [histRem, hpc] at hh ⊢; first | exact hh | simp at hh

theorem invB_step_s1 {progs : List (List Call)} {s s' : State} {t : Nat} {o : _} (hB : InvB progs s)
    (hpc : (s.threads t).pc = .s1 o) (hs : stepT s t = some s') : InvB progs s' := by
  obtain ⟨hcnt, htodo, hpcB⟩ := hB.loc t
  simp only [stepT, hpc, Option.some.injEq] at hs; subst hs
  refine invB_same hB t _ rfl rfl ?_ ⟨hcnt, htodo, by simp⟩ ?_ ?_ ?_
  · intro o'; simp only [setObs]; by_cases ho : o' = o
    · subst ho; simp
    · simp [ho]
  · intro o'; simp [pos, hpc]
  · simp [pushed, hpc]
  · intro o' h hh _; simp only [histRem, hpc] at hh ⊢; first | exact hh | simp at hh

theorem invB_step_s3 {progs : List (List Call)} {s s' : State} {t : Nat} {o : _} {hh : _} (hB : InvB progs s)
    (hpc : (s.threads t).pc = .s3 o hh) (hs : stepT s t = some s') : InvB progs s' := by
  obtain ⟨hcnt, htodo, hpcB⟩ := hB.loc t
  simp only [stepT, hpc, Option.some.injEq] at hs; subst hs
  refine invB_same hB t _ rfl rfl ?_ ⟨hcnt, htodo, by simp⟩ ?_ ?_ ?_
  · intro o'; simp only [setObs]; by_cases ho : o' = o
    · subst ho; simp
    · simp [ho]
  · intro o'; simp [pos, hpc]
  · simp [pushed, hpc]
  · intro o' h hh _; simp only [histRem, hpc] at hh ⊢; first | exact hh | simp at hh

theorem invB_step_s4 {progs : List (List Call)} {s s' : State} {t : Nat} {o : _} {hh : _} (hB : InvB progs s)
    (hpc : (s.threads t).pc = .s4 o hh) (hs : stepT s t = some s') : InvB progs s' := by
  obtain ⟨hcnt, htodo, hpcB⟩ := hB.loc t
  simp only [stepT, hpc, Option.some.injEq] at hs; subst hs
  refine invB_same hB t _ rfl rfl ?_ ⟨hcnt, htodo, by simp⟩ ?_ ?_ ?_
  · intro o'; simp only [setObs]; by_cases ho : o' = o
    · subst ho; simp
    · simp [ho]
  · intro o'; simp [pos, hpc]
  · simp [pushed, hpc]
  · intro o' h hh _; simp only [histRem, hpc] at hh ⊢; first | exact hh | simp at hh

theorem invB_step_s5 {progs : List (List Call)} {s s' : State} {t : Nat} {o : _} {hh : _} (hB : InvB progs s)
    (hpc : (s.threads t).pc = .s5 o hh) (hs : stepT s t = some s') : InvB progs s' := by
  obtain ⟨hcnt, htodo, hpcB⟩ := hB.loc t
  simp only [stepT, hpc, Option.some.injEq] at hs; subst hs
  refine invB_same hB t _ rfl rfl ?_ ⟨hcnt, htodo, by simp⟩ ?_ ?_ ?_
  · intro o'; simp only [setObs]; by_cases ho : o' = o
    · subst ho; simp
    · simp [ho]
  · intro o'; simp [pos, hpc]
  · simp [pushed, hpc]
  · intro o' h hh _; simp only [histRem, hpc] at hh ⊢; first | exact hh | simp at hh

theorem invB_step_s6 {progs : List (List Call)} {s s' : State} {t : Nat} {o : _} {hh : _} (hB : InvB progs s)
    (hpc : (s.threads t).pc = .s6 o hh) (hs : stepT s t = some s') : InvB progs s' := by
  obtain ⟨hcnt, htodo, hpcB⟩ := hB.loc t
  simp only [stepT, hpc, Option.some.injEq] at hs; subst hs
  refine invB_same hB t _ rfl rfl ?_ ⟨hcnt, htodo, by simp⟩ ?_ ?_ ?_
  · intro o'; exact ⟨rfl, rfl, id⟩
  · intro o'; simp [pos, hpc]
  · simp [pushed, hpc]
  · intro o' h hh _; simp only [histRem, hpc] at hh ⊢; first | exact hh | simp at hh

theorem invB_step_s7 {progs : List (List Call)} {s s' : State} {t : Nat} {o : _} {hh : _} (hB : InvB progs s)
    (hpc : (s.threads t).pc = .s7 o hh) (hs : stepT s t = some s') : InvB progs s' := by
  obtain ⟨hcnt, htodo, hpcB⟩ := hB.loc t
  simp only [stepT, hpc, Option.some.injEq] at hs; subst hs
  refine invB_same hB t _ rfl rfl ?_ ⟨hcnt, htodo, by simp⟩ ?_ ?_ ?_
  · intro o'; exact ⟨rfl, rfl, id⟩
  · intro o'; simp [pos, hpc]
  · simp [pushed, hpc]
  · intro o' h hh _; simp only [histRem, hpc] at hh ⊢; first | exact hh | simp at hh

theorem invB_step_u0 {progs : List (List Call)} {s s' : State} {t : Nat} {o : _} (hB : InvB progs s)
    (hpc : (s.threads t).pc = .u0 o) (hs : stepT s t = some s') : InvB progs s' := by
  obtain ⟨hcnt, htodo, hpcB⟩ := hB.loc t
  simp only [stepT, hpc, Option.some.injEq] at hs; subst hs
  refine invB_same hB t _ rfl rfl ?_ ⟨hcnt, htodo, by simp⟩ ?_ ?_ ?_
  · intro o'; simp only [setObs]; by_cases ho : o' = o
    · subst ho; simp
    · simp [ho]
  · intro o'; simp [pos, hpc]
  · simp [pushed, hpc]
  · intro o' h hh _; simp only [histRem, hpc] at hh ⊢; first | exact hh | simp at hh

theorem invB_step_u1 {progs : List (List Call)} {s s' : State} {t : Nat} {o : _} (hB : InvB progs s)
    (hpc : (s.threads t).pc = .u1 o) (hs : stepT s t = some s') : InvB progs s' := by
  obtain ⟨hcnt, htodo, hpcB⟩ := hB.loc t
  simp only [stepT, hpc, Option.some.injEq] at hs; subst hs
  refine invB_same hB t _ rfl rfl ?_ ⟨hcnt, htodo, by simp⟩ ?_ ?_ ?_
  · intro o'; exact ⟨rfl, rfl, id⟩
  · intro o'; simp [pos, hpc]
  · simp [pushed, hpc]
  · intro o' h hh _; simp only [histRem, hpc] at hh ⊢; first | exact hh | simp at hh

theorem invB_step_u2 {progs : List (List Call)} {s s' : State} {t : Nat} {o : _} (hB : InvB progs s)
    (hpc : (s.threads t).pc = .u2 o) (hs : stepT s t = some s') : InvB progs s' := by
  obtain ⟨hcnt, htodo, hpcB⟩ := hB.loc t
  simp only [stepT, hpc, Option.some.injEq] at hs; subst hs
  refine invB_same hB t _ rfl rfl ?_ ⟨hcnt, htodo, by simp⟩ ?_ ?_ ?_
  · intro o'; exact ⟨rfl, rfl, id⟩
  · intro o'; simp [pos, hpc]
  · simp [pushed, hpc]
  · intro o' h hh _; simp only [histRem, hpc] at hh ⊢; first | exact hh | simp at hh

theorem invB_step_u3 {progs : List (List Call)} {s s' : State} {t : Nat} {o : _} (hB : InvB progs s)
    (hpc : (s.threads t).pc = .u3 o) (hs : stepT s t = some s') : InvB progs s' := by
  obtain ⟨hcnt, htodo, hpcB⟩ := hB.loc t
  simp only [stepT, hpc, Option.some.injEq] at hs; subst hs
  by_cases hc : (s.obs o).td = true
  · simp only [hc, if_true]
    refine invB_same hB t _ rfl rfl ?_ ⟨hcnt, htodo, by simp⟩ ?_ ?_ ?_
    · intro o'; exact ⟨rfl, rfl, id⟩
    · intro o'; simp [pos, hpc]
    · simp [pushed, hpc]
    · intro o' h hh _; simp only [histRem, hpc] at hh ⊢; first | exact hh | simp at hh
  · have hc' : (s.obs o).td = false := by simpa using hc
    simp only [hc', Bool.false_eq_true, if_false]
    refine invB_same hB t _ rfl rfl ?_ ⟨hcnt, htodo, by simp⟩ ?_ ?_ ?_
    · intro o'; exact ⟨rfl, rfl, id⟩
    · intro o'; simp [pos, hpc]
    · simp [pushed, hpc]
    · intro o' h hh _; simp only [histRem, hpc] at hh ⊢; first | exact hh | simp at hh

theorem invB_step_u4 {progs : List (List Call)} {s s' : State} {t : Nat} {o : _} (hB : InvB progs s)
    (hpc : (s.threads t).pc = .u4 o) (hs : stepT s t = some s') : InvB progs s' := by
  obtain ⟨hcnt, htodo, hpcB⟩ := hB.loc t
  simp only [stepT, hpc, Option.some.injEq] at hs; subst hs
  by_cases hc : (s.obs o).sbsc = true
  · simp only [hc, if_true]
    refine invB_same hB t _ rfl rfl ?_ ⟨hcnt, htodo, by simp⟩ ?_ ?_ ?_
    · intro o'; exact ⟨rfl, rfl, id⟩
    · intro o'; simp [pos, hpc]
    · simp [pushed, hpc]
    · intro o' h hh _; simp only [histRem, hpc] at hh ⊢; first | exact hh | simp at hh
  · have hc' : (s.obs o).sbsc = false := by simpa using hc
    simp only [hc', Bool.false_eq_true, if_false]
    refine invB_same hB t _ rfl rfl ?_ ⟨hcnt, htodo, by simp⟩ ?_ ?_ ?_
    · intro o'; exact ⟨rfl, rfl, id⟩
    · intro o'; simp [pos, hpc]
    · simp [pushed, hpc]
    · intro o' h hh _; simp only [histRem, hpc] at hh ⊢; first | exact hh | simp at hh

theorem invB_step_u5 {progs : List (List Call)} {s s' : State} {t : Nat} {o : _} (hB : InvB progs s)
    (hpc : (s.threads t).pc = .u5 o) (hs : stepT s t = some s') : InvB progs s' := by
  obtain ⟨hcnt, htodo, hpcB⟩ := hB.loc t
  simp only [stepT, hpc, Option.some.injEq] at hs; subst hs
  by_cases hc : (s.obs o).subTaken = true
  · simp only [hc, if_true]
    refine invB_same hB t _ rfl rfl ?_ ⟨hcnt, htodo, by simp⟩ ?_ ?_ ?_
    · intro o'; simp only [setObs]; by_cases ho : o' = o
      · subst ho; simp
      · simp [ho]
    · intro o'; simp [pos, hpc]
    · simp [pushed, hpc]
    · intro o' h hh _; simp only [histRem, hpc] at hh ⊢; first | exact hh | simp at hh
  · have hc' : (s.obs o).subTaken = false := by simpa using hc
    simp only [hc', Bool.false_eq_true, if_false]
    refine invB_same hB t _ rfl rfl ?_ ⟨hcnt, htodo, by simp⟩ ?_ ?_ ?_
    · intro o'; simp only [setObs]; by_cases ho : o' = o
      · subst ho; simp
      · simp [ho]
    · intro o'; simp [pos, hpc]
    · simp [pushed, hpc]
    · intro o' h hh _; simp only [histRem, hpc] at hh ⊢; first | exact hh | simp at hh

theorem invB_step_u6 {progs : List (List Call)} {s s' : State} {t : Nat} {o : _} (hB : InvB progs s)
    (hpc : (s.threads t).pc = .u6 o) (hs : stepT s t = some s') : InvB progs s' := by
  obtain ⟨hcnt, htodo, hpcB⟩ := hB.loc t
  simp only [stepT, hpc, Option.some.injEq] at hs; subst hs
  refine invB_same hB t _ rfl rfl ?_ ⟨hcnt, htodo, by simp⟩ ?_ ?_ ?_
  · intro o'; simp only [setObs]; by_cases ho : o' = o
    · subst ho; simp
    · simp [ho]
  · intro o'; simp [pos, hpc]
  · simp [pushed, hpc]
  · intro o' h hh _; simp only [histRem, hpc] at hh ⊢; first | exact hh | simp at hh

theorem invB_step_u7 {progs : List (List Call)} {s s' : State} {t : Nat} {o : _} (hB : InvB progs s)
    (hpc : (s.threads t).pc = .u7 o) (hs : stepT s t = some s') : InvB progs s' := by
  obtain ⟨hcnt, htodo, hpcB⟩ := hB.loc t
  simp only [stepT, hpc, Option.some.injEq] at hs; subst hs
  refine invB_same hB t _ rfl rfl ?_ ⟨hcnt, htodo, by simp⟩ ?_ ?_ ?_
  · intro o'; exact ⟨rfl, rfl, id⟩
  · intro o'; simp [pos, hpc]
  · simp [pushed, hpc]
  · intro o' h hh _; simp only [histRem, hpc] at hh ⊢; first | exact hh | simp at hh

theorem invB_step_u8 {progs : List (List Call)} {s s' : State} {t : Nat} {o : _} (hB : InvB progs s)
    (hpc : (s.threads t).pc = .u8 o) (hs : stepT s t = some s') : InvB progs s' := by
  obtain ⟨hcnt, htodo, hpcB⟩ := hB.loc t
  simp only [stepT, hpc, Option.some.injEq] at hs; subst hs
  refine invB_same hB t _ rfl rfl ?_ ⟨hcnt, htodo, by simp⟩ ?_ ?_ ?_
  · intro o'; exact ⟨rfl, rfl, id⟩
  · intro o'; simp [pos, hpc]
  · simp [pushed, hpc]
  · intro o' h hh _; simp only [histRem, hpc] at hh ⊢; first | exact hh | simp at hh

theorem invB_step_u9 {progs : List (List Call)} {s s' : State} {t : Nat} {o : _} (hB : InvB progs s)
    (hpc : (s.threads t).pc = .u9 o) (hs : stepT s t = some s') : InvB progs s' := by
  obtain ⟨hcnt, htodo, hpcB⟩ := hB.loc t
  simp only [stepT, hpc, Option.some.injEq] at hs; subst hs
  by_cases hc : (s.obs o).fTd = true
  · simp only [hc, if_true]
    refine invB_same hB t _ rfl rfl ?_ ⟨hcnt, htodo, by simp⟩ ?_ ?_ ?_
    · intro o'; exact ⟨rfl, rfl, id⟩
    · intro o'; simp [pos, hpc]
    · simp [pushed, hpc]
    · intro o' h hh _; simp only [histRem, hpc] at hh ⊢; first | exact hh | simp at hh
  · have hc' : (s.obs o).fTd = false := by simpa using hc
    simp only [hc', Bool.false_eq_true, if_false]
    refine invB_same hB t _ rfl rfl ?_ ⟨hcnt, htodo, by simp⟩ ?_ ?_ ?_
    · intro o'; exact ⟨rfl, rfl, id⟩
    · intro o'; simp [pos, hpc]
    · simp [pushed, hpc]
    · intro o' h hh _; simp only [histRem, hpc] at hh ⊢; first | exact hh | simp at hh

theorem invB_step_u9r {progs : List (List Call)} {s s' : State} {t : Nat} {o : _} (hB : InvB progs s)
    (hpc : (s.threads t).pc = .u9r o) (hs : stepT s t = some s') : InvB progs s' := by
  obtain ⟨hcnt, htodo, hpcB⟩ := hB.loc t
  simp only [stepT, hpc, Option.some.injEq] at hs; subst hs
  refine invB_same hB t _ rfl rfl ?_ ⟨hcnt, htodo, by simp⟩ ?_ ?_ ?_
  · intro o'; exact ⟨rfl, rfl, id⟩
  · intro o'; simp [pos, hpc]
  · simp [pushed, hpc]
  · intro o' h hh _; simp only [histRem, hpc] at hh ⊢; first | exact hh | simp at hh

theorem invB_step_u9c {progs : List (List Call)} {s s' : State} {t : Nat} {o : _} (hB : InvB progs s)
    (hpc : (s.threads t).pc = .u9c o) (hs : stepT s t = some s') : InvB progs s' := by
  obtain ⟨hcnt, htodo, hpcB⟩ := hB.loc t
  simp only [stepT, hpc, Option.some.injEq] at hs; subst hs
  refine invB_same hB t _ rfl rfl ?_ ⟨hcnt, htodo, by simp⟩ ?_ ?_ ?_
  · intro o'; simp only [setObs]; by_cases ho : o' = o
    · subst ho; simp
    · simp [ho]
  · intro o'; simp [pos, hpc]
  · simp [pushed, hpc]
  · intro o' h hh _; simp only [histRem, hpc] at hh ⊢; first | exact hh | simp at hh

theorem invB_step_u10 {progs : List (List Call)} {s s' : State} {t : Nat} {o : _} (hB : InvB progs s)
    (hpc : (s.threads t).pc = .u10 o) (hs : stepT s t = some s') : InvB progs s' := by
  obtain ⟨hcnt, htodo, hpcB⟩ := hB.loc t
  simp only [stepT, hpc, Option.some.injEq] at hs; subst hs
  refine invB_same hB t _ rfl rfl ?_ ⟨hcnt, htodo, by simp⟩ ?_ ?_ ?_
  · intro o'; simp only [setObs]; by_cases ho : o' = o
    · subst ho; simp
    · simp [ho]
  · intro o'; simp [pos, hpc]
  · simp [pushed, hpc]
  · intro o' h hh _; simp only [histRem, hpc] at hh ⊢; first | exact hh | simp at hh


theorem invB_step_s10 {progs : List (List Call)} {s s' : State} {t : Nat} {o : _} (hB : InvB progs s)
    (hpc : (s.threads t).pc = .s10 o) (hs : stepT s t = some s') : InvB progs s' := by
  obtain ⟨hcnt, htodo, hpcB⟩ := hB.loc t
  simp only [stepT, hpc, Option.some.injEq] at hs; subst hs
  by_cases hc : (s.obs o).fnNext = true
  · simp only [hc, if_true]
    refine invB_same hB t _ rfl rfl ?_ ⟨hcnt, htodo, by simp⟩ ?_ ?_ ?_
    · intro o'; exact ⟨rfl, rfl, id⟩
    · intro o'; simp [pos, hpc]
    · simp [pushed, hpc]
    · intro o' h hh _; simp only [histRem, hpc] at hh ⊢; first | exact hh | simp at hh
  · have hc' : (s.obs o).fnNext = false := by simpa using hc
    simp only [hc', Bool.false_eq_true, if_false]
    refine invB_same hB t _ rfl rfl ?_ ⟨hcnt, htodo, by simp⟩ ?_ ?_ ?_
    · intro o'; exact ⟨rfl, rfl, id⟩
    · intro o'; simp [pos, hpc]
    · simp [pushed, hpc]
    · intro o' h hh _; simp only [histRem, hpc] at hh ⊢; first | exact hh | simp at hh

theorem invB_step_e5 {progs : List (List Call)} {s s' : State} {t : Nat} {o : _} (hB : InvB progs s)
    (hpc : (s.threads t).pc = .e5 o) (hs : stepT s t = some s') : InvB progs s' := by
  obtain ⟨hcnt, htodo, hpcB⟩ := hB.loc t
  simp only [stepT, hpc, Option.some.injEq] at hs; subst hs
  by_cases hc : (s.obs o).subTaken = true
  · simp only [hc, if_true]
    refine invB_same hB t _ rfl rfl ?_ ⟨hcnt, htodo, by simp⟩ ?_ ?_ ?_
    · intro o'; simp only [setObs]; by_cases ho : o' = o
      · subst ho; simp
      · simp [ho]
    · intro o'; simp [pos, hpc]
    · simp [pushed, hpc]
    · intro o' h hh _; simp only [histRem, hpc] at hh ⊢; first | exact hh | simp at hh
  · have hc' : (s.obs o).subTaken = false := by simpa using hc
    simp only [hc', Bool.false_eq_true, if_false]
    refine invB_same hB t _ rfl rfl ?_ ⟨hcnt, htodo, by simp⟩ ?_ ?_ ?_
    · intro o'; simp only [setObs]; by_cases ho : o' = o
      · subst ho; simp
      · simp [ho]
    · intro o'; simp [pos, hpc]
    · simp [pushed, hpc]
    · intro o' h hh _; simp only [histRem, hpc] at hh ⊢; first | exact hh | simp at hh

theorem invB_step_e6 {progs : List (List Call)} {s s' : State} {t : Nat} {o : _} (hB : InvB progs s)
    (hpc : (s.threads t).pc = .e6 o) (hs : stepT s t = some s') : InvB progs s' := by
  obtain ⟨hcnt, htodo, hpcB⟩ := hB.loc t
  simp only [stepT, hpc, Option.some.injEq] at hs; subst hs
  refine invB_same hB t _ rfl rfl ?_ ⟨hcnt, htodo, by simp⟩ ?_ ?_ ?_
  · intro o'; simp only [setObs]; by_cases ho : o' = o
    · subst ho; simp
    · simp [ho]
  · intro o'; simp [pos, hpc]
  · simp [pushed, hpc]
  · intro o' h hh _; simp only [histRem, hpc] at hh ⊢; first | exact hh | simp at hh

theorem invB_step_e7 {progs : List (List Call)} {s s' : State} {t : Nat} {o : _} (hB : InvB progs s)
    (hpc : (s.threads t).pc = .e7 o) (hs : stepT s t = some s') : InvB progs s' := by
  obtain ⟨hcnt, htodo, hpcB⟩ := hB.loc t
  simp only [stepT, hpc, Option.some.injEq] at hs; subst hs
  refine invB_same hB t _ rfl rfl ?_ ⟨hcnt, htodo, by simp⟩ ?_ ?_ ?_
  · intro o'; exact ⟨rfl, rfl, id⟩
  · intro o'; simp [pos, hpc]
  · simp [pushed, hpc]
  · intro o' h hh _; simp only [histRem, hpc] at hh ⊢; first | exact hh | simp at hh

theorem invB_step_e8 {progs : List (List Call)} {s s' : State} {t : Nat} {o : _} (hB : InvB progs s)
    (hpc : (s.threads t).pc = .e8 o) (hs : stepT s t = some s') : InvB progs s' := by
  obtain ⟨hcnt, htodo, hpcB⟩ := hB.loc t
  simp only [stepT, hpc, Option.some.injEq] at hs; subst hs
  refine invB_same hB t _ rfl rfl ?_ ⟨hcnt, htodo, by simp⟩ ?_ ?_ ?_
  · intro o'; exact ⟨rfl, rfl, id⟩
  · intro o'; simp [pos, hpc]
  · simp [pushed, hpc]
  · intro o' h hh _; simp only [histRem, hpc] at hh ⊢; first | exact hh | simp at hh

theorem invB_step_e9 {progs : List (List Call)} {s s' : State} {t : Nat} {o : _} (hB : InvB progs s)
    (hpc : (s.threads t).pc = .e9 o) (hs : stepT s t = some s') : InvB progs s' := by
  obtain ⟨hcnt, htodo, hpcB⟩ := hB.loc t
  simp only [stepT, hpc, Option.some.injEq] at hs; subst hs
  by_cases hc : (s.obs o).fTd = true
  · simp only [hc, if_true]
    refine invB_same hB t _ rfl rfl ?_ ⟨hcnt, htodo, by simp⟩ ?_ ?_ ?_
    · intro o'; exact ⟨rfl, rfl, id⟩
    · intro o'; simp [pos, hpc]
    · simp [pushed, hpc]
    · intro o' h hh _; simp only [histRem, hpc] at hh ⊢; first | exact hh | simp at hh
  · have hc' : (s.obs o).fTd = false := by simpa using hc
    simp only [hc', Bool.false_eq_true, if_false]
    refine invB_same hB t _ rfl rfl ?_ ⟨hcnt, htodo, by simp⟩ ?_ ?_ ?_
    · intro o'; exact ⟨rfl, rfl, id⟩
    · intro o'; simp [pos, hpc]
    · simp [pushed, hpc]
    · intro o' h hh _; simp only [histRem, hpc] at hh ⊢; first | exact hh | simp at hh

theorem invB_step_e9r {progs : List (List Call)} {s s' : State} {t : Nat} {o : _} (hB : InvB progs s)
    (hpc : (s.threads t).pc = .e9r o) (hs : stepT s t = some s') : InvB progs s' := by
  obtain ⟨hcnt, htodo, hpcB⟩ := hB.loc t
  simp only [stepT, hpc, Option.some.injEq] at hs; subst hs
  refine invB_same hB t _ rfl rfl ?_ ⟨hcnt, htodo, by simp⟩ ?_ ?_ ?_
  · intro o'; exact ⟨rfl, rfl, id⟩
  · intro o'; simp [pos, hpc]
  · simp [pushed, hpc]
  · intro o' h hh _; simp only [histRem, hpc] at hh ⊢; first | exact hh | simp at hh

theorem invB_step_e9c {progs : List (List Call)} {s s' : State} {t : Nat} {o : _} (hB : InvB progs s)
    (hpc : (s.threads t).pc = .e9c o) (hs : stepT s t = some s') : InvB progs s' := by
  obtain ⟨hcnt, htodo, hpcB⟩ := hB.loc t
  simp only [stepT, hpc, Option.some.injEq] at hs; subst hs
  refine invB_same hB t _ rfl rfl ?_ ⟨hcnt, htodo, by simp⟩ ?_ ?_ ?_
  · intro o'; simp only [setObs]; by_cases ho : o' = o
    · subst ho; simp
    · simp [ho]
  · intro o'; simp [pos, hpc]
  · simp [pushed, hpc]
  · intro o' h hh _; simp only [histRem, hpc] at hh ⊢; first | exact hh | simp at hh



theorem invB_step_idle {progs : List (List Call)} {s s' : State} {t : Nat} (hB : InvB progs s)
    (hpc : (s.threads t).pc = .idle) (hs : stepT s t = some s') : InvB progs s' := by
  obtain ⟨hcnt, htodo, hpcB⟩ := hB.loc t
  simp only [stepT, hpc] at hs
  split at hs
  · simp at hs
  · rename_i v rest htd
    simp at hs; subst hs
    rw [htd] at htodo
    obtain ⟨h1, h2, h3⟩ := drop_cons_inv htodo
    refine invB_same hB t _ rfl rfl (fun o' => ⟨rfl, rfl, id⟩) ⟨h1, h2, by simp [h3]⟩ ?_ ?_ ?_
    · intro o'; simp [pos, hpc]
    · simp [pushed, hpc]
    · intro o' h hh _; simp [histRem] at hh
  · rename_i o rest htd
    split at hs
    · simp at hs
    · simp at hs; subst hs
      rw [htd] at htodo
      refine invB_same hB t _ rfl rfl ?_ ⟨hcnt, htodo, by simp⟩ ?_ ?_ ?_
      · intro o'; simp only [setObs]; by_cases ho : o' = o
        · subst ho; simp
        · simp [ho]
      · intro o'; simp [pos, hpc]
      · simp [pushed, hpc]
      · intro o' h hh _; simp [histRem] at hh
  · rename_i o rest htd
    simp at hs; subst hs
    rw [htd] at htodo
    refine invB_same hB t _ rfl rfl (fun o' => ⟨rfl, rfl, id⟩) ⟨hcnt, htodo, by simp⟩ ?_ ?_ ?_
    · intro o'; simp [pos, hpc]
    · simp [pushed, hpc]
    · intro o' h hh _; simp [histRem] at hh

theorem invB_step_nxL {progs : List (List Call)} {s s' : State} {t : Nat} {k : Nat} {v : Data} {snap : List Nat}
    (hA : InvA s) (hB : InvB progs s)
    (hpc : (s.threads t).pc = .nxL k v snap) (hs : stepT s t = some s') : InvB progs s' := by
  obtain ⟨hcnt, htodo, hpcB⟩ := hB.loc t
  have hlA := hA.loc t
  rw [hpc] at hlA hpcB; simp only [LocA] at hlA; simp only at hpcB
  have hf := fun o => hB.full o t
  simp only [pos, hpc] at hf
  cases snap with
  | nil =>
    simp only [stepT, hpc, Option.some.injEq] at hs; subst hs
    refine invB_same hB t _ rfl rfl (fun o' => ⟨rfl, rfl, id⟩) ⟨hcnt, htodo, by simp⟩ ?_ ?_ ?_
    · intro o'; simp [pos, hpc, hpcB.1]
    · simp [pushed, hpc]
    · intro o' h hh _; simp [histRem] at hh
  | cons o rest =>
    simp only [stepT, hpc, Option.some.injEq] at hs; subst hs
    have hnotin : o ∉ rest := (List.nodup_cons.mp hlA.1).1
    by_cases hc : (s.obs o).fFnNext = true
    · simp only [hc, if_true]
      refine invB_same hB t _ rfl rfl (fun o' => ⟨rfl, rfl, id⟩) ⟨hcnt, htodo, hpcB⟩ ?_ ?_ ?_
      · intro o'; simp [pos, hpc]
      · simp [pushed, hpc]
      · intro o' h hh _; simp [histRem] at hh
    · have hc' : (s.obs o).fFnNext = false := by simpa using hc
      simp only [hc', Bool.false_eq_true, if_false]
      refine invB_thr hB t _ ⟨hcnt, htodo, hpcB⟩ ?_ (by simp [pushed, hpc]) ?_
      · intro o'
        by_cases ho : o' = o
        · subst ho
          intro _ hx
          have := hA.fLive o' hc'
          simp [pos, this] at hx
        · have := hf o'
          simpa [pos, ho] using this
      · intro o' h hh _; simp [histRem] at hh

theorem invB_step_nx0 {progs : List (List Call)} {s s' : State} {t : Nat} {k : Nat} {v : Data}
    (hA : InvA s) (hB : InvB progs s)
    (hpc : (s.threads t).pc = .nx0 k v) (hs : stepT s t = some s') : InvB progs s' := by
  obtain ⟨hcnt, htodo, hpcB⟩ := hB.loc t
  rw [hpc] at hpcB; simp only at hpcB
  have hf := fun o => hB.full o t
  simp only [pos, hpc] at hf
  simp only [stepT, hpc, Option.some.injEq] at hs; subst hs
  refine invB_thr hB t _ ⟨hcnt, htodo, hpcB⟩ ?_ (by simp [pushed, hpc]) ?_
  · intro o
    by_cases hin : o ∈ s.map.map (·.2)
    · simpa [pos, hin] using hf o
    · intro hsd hx
      simp only [pos, hin, if_false] at hx ⊢
      rcases hx with hx | hx
      · simp at hx
      · exact (hin (hA.live o (hA.subIns o hsd) hx)).elim
  · intro o' h hh _; simp [histRem] at hh

theorem invB_step_nxF {progs : List (List Call)} {s s' : State} {t : Nat} {k : Nat} {v : Data} {o : Nat}
    {rest : List Nat} (hA : InvA s) (hB : InvB progs s)
    (hpc : (s.threads t).pc = .nxF k v o rest) (hs : stepT s t = some s') : InvB progs s' := by
  obtain ⟨hcnt, htodo, hpcB⟩ := hB.loc t
  have hlA := hA.loc t
  rw [hpc] at hlA hpcB; simp only [LocA] at hlA; simp only at hpcB
  have hf := fun o => hB.full o t
  simp only [pos, hpc] at hf
  simp only [stepT, hpc, Option.some.injEq] at hs; subst hs
  have hnotin : o ∉ rest := (List.nodup_cons.mp hlA.1).1
  by_cases hc : (s.obs o).fnNext = true
  · simp only [hc, if_true]
    refine invB_thr hB t _ ⟨hcnt, htodo, hpcB⟩ ?_ (by simp [pushed, hpc]) ?_
    · intro o'
      by_cases ho : o' = o
      · subst ho
        have := hf o'
        simp only [true_or, if_true] at this
        intro hsd _
        simpa [pos] using this hsd (.inr hc)
      · have := hf o'
        simpa [pos, ho] using this
    · intro o' h hh _; simp [histRem] at hh
  · have hc' : (s.obs o).fnNext = false := by simpa using hc
    simp only [hc', Bool.false_eq_true, if_false]
    refine invB_thr hB t _ ⟨hcnt, htodo, hpcB⟩ ?_ (by simp [pushed, hpc]) ?_
    · intro o'
      by_cases ho : o' = o
      · subst ho
        intro _ hx
        simp [pos, hc'] at hx
      · have := hf o'
        simpa [pos, ho] using this
    · intro o' h hh _; simp [histRem] at hh


theorem pos_of_not_inNext {th : Thread} (h : th.pc.inNext = false) (o : Nat) :
    pos th o = (th.cnt, false) ∧ pushed th = th.cnt := by
  cases hpc : th.pc <;> simp [hpc, Pc.inNext] at h <;> simp [pos, pushed, hpc]

theorem invB_step_r0 {progs : List (List Call)} {s s' : State} {t : Nat} {k : Nat} {v : Data}
    (hq : s.quiet) (hB : InvB progs s)
    (hpc : (s.threads t).pc = .r0 k v) (hs : stepT s t = some s') : InvB progs s' := by
  obtain ⟨hcnt, htodo, hpcB⟩ := hB.loc t
  rw [hpc] at hpcB; simp only at hpcB
  simp only [stepT, hpc, Option.some.injEq] at hs; subst hs
  have hin : (s.threads t).pc.inNext = true := by rw [hpc]; rfl
  constructor
  · intro t'
    simp only [setThr]
    split
    · rename_i h; subst h; exact ⟨hcnt, htodo, hpcB⟩
    · exact hB.loc t'
  · intro o t'
    simp only [setThr]
    split
    · rename_i h; subst h
      have := hB.full o t'
      simpa [pos, hpc] using this
    · exact hB.full o t'
  · intro ts o h hh
    simp only [setThr] at hh
    split at hh
    · simp [histRem] at hh
    · exact (hq ts t (inSub_of_histRem hh) hin).elim
  · intro t'
    have := hB.items t'
    simp only [setThr, proj_append]
    split
    · rename_i h; subst h
      simp only [pushed, hpc] at this
      obtain ⟨ha, hl⟩ := this
      have hp : proj t' [(t', k, v)] = [(k, v)] := by simp [proj]
      rw [hp]
      refine ⟨?_, by simp [pushed, hl, hpcB.1]⟩
      have := Asc.append (v := v) ha (by simpa [hl] using hpcB.2)
      simpa [hl] using this
    · rename_i h
      have hp : proj t' [(t, k, v)] = [] := by
        simp [proj]; exact fun h' => h h'.symm
      rw [hp, List.append_nil]; exact this

theorem invB_step_nxD {progs : List (List Call)} {s s' : State} {t : Nat} {k : Nat} {v : Data} {o : Nat}
    {rest : List Nat} (hq : s.quiet) (hA : InvA s) (hB : InvB progs s)
    (hpc : (s.threads t).pc = .nxD k v o rest) (hs : stepT s t = some s') : InvB progs s' := by
  obtain ⟨hcnt, htodo, hpcB⟩ := hB.loc t
  have hlA := hA.loc t
  rw [hpc] at hlA hpcB; simp only [LocA] at hlA; simp only at hpcB
  have hf := fun o => hB.full o t
  simp only [pos, hpc] at hf
  simp only [stepT, hpc, Option.some.injEq] at hs; subst hs
  have hnotin : o ∉ rest := (List.nodup_cons.mp hlA.1).1
  have hin : (s.threads t).pc.inNext = true := by rw [hpc]; rfl
  constructor
  · intro t'
    simp only [setThr]
    split
    · rename_i h; subst h; exact ⟨hcnt, htodo, hpcB⟩
    · exact hB.loc t'
  · intro o' t'
    simp only [setThr, setObs]
    by_cases ho : o' = o
    · subst ho
      simp only [if_true]
      by_cases ht : t' = t
      · subst ht
        simp only [if_true, pos, hnotin, if_false]
        have := hf o'
        simp only [if_true] at this
        intro hsd _
        obtain ⟨ha, hl⟩ := this hsd (.inl rfl)
        simp only [proj_cons, if_true, List.reverse_cons, List.length_cons]
        refine ⟨?_, by simp at hl ⊢; exact hl⟩
        have := Asc.append (v := v) ha (by simpa [hl] using hpcB.2)
        simpa [hl] using this
      · simp only [if_neg ht]
        have hne : ¬ t = t' := fun h => ht h.symm
        have hp : proj t' ((t, k, v) :: (s.obs o').rlog) = proj t' (s.obs o').rlog := by
          rw [proj_cons]; simp [hne]
        have := hB.full o' t'
        simp only [Full] at this ⊢
        rw [hp]
        exact this
    · simp only [if_neg ho]
      by_cases ht : t' = t
      · subst ht
        simp only [if_true]
        have := hf o'
        simpa [pos, ho] using this
      · simp only [if_neg ht]; exact hB.full o' t'
  · intro ts o' h hh
    simp only [setThr] at hh
    split at hh
    · simp [histRem] at hh
    · exact (hq ts t (inSub_of_histRem hh) hin).elim
  · intro t'
    simp only [setThr]
    split
    · rename_i h; subst h
      have := hB.items t'
      simpa [pushed, hpc] using this
    · exact hB.items t'

theorem invB_step_s2 {progs : List (List Call)} {s s' : State} {t : Nat} {o : Nat}
    (hA : InvA s) (hB : InvB progs s)
    (hpc : (s.threads t).pc = .s2 o) (hs : stepT s t = some s') : InvB progs s' := by
  obtain ⟨hcnt, htodo, hpcB⟩ := hB.loc t
  have hlA := hA.loc t
  rw [hpc] at hlA; simp only [LocA] at hlA
  simp only [stepT, hpc, Option.some.injEq] at hs; subst hs
  have hnil : (s.obs o).rlog = [] := by
    cases hr : (s.obs o).rlog with
    | nil => rfl
    | cons x r =>
      have := hA.logIns o (by simp [hr])
      simp [hlA.2.1] at this
  constructor
  · intro t'
    simp only [setThr]
    split
    · rename_i h; subst h; exact ⟨hcnt, htodo, by simp⟩
    · exact hB.loc t'
  · intro o' t'
    simp only [setThr]
    split
    · rename_i h; subst h
      have := hB.full o' t'
      simpa [pos, hpc] using this
    · exact hB.full o' t'
  · intro ts o' h hh hfn t'
    simp only [setThr] at hh
    split at hh
    · simp only [histRem, Option.some.injEq, Prod.mk.injEq] at hh
      obtain ⟨rfl, rfl⟩ := hh
      simp [hnil]
    · exact hB.hist ts o' h hh hfn t'
  · intro t'
    simp only [setThr]
    split
    · rename_i h; subst h
      have := hB.items t'
      simpa [pushed, hpc] using this
    · exact hB.items t'

theorem invB_step_s8 {progs : List (List Call)} {s s' : State} {t : Nat} {o : Nat} {hh : List Entry}
    (hB : InvB progs s)
    (hpc : (s.threads t).pc = .s8 o hh) (hs : stepT s t = some s') : InvB progs s' := by
  obtain ⟨hcnt, htodo, hpcB⟩ := hB.loc t
  cases hh with
  | nil =>
    simp only [stepT, hpc, Option.some.injEq] at hs; subst hs
    refine invB_same hB t _ rfl rfl (fun o' => ⟨rfl, rfl, id⟩) ⟨hcnt, htodo, by simp⟩ ?_ ?_ ?_
    · intro o'; simp [pos, hpc]
    · simp [pushed, hpc]
    · intro o' h hh _; simpa [histRem, hpc] using hh
  | cons x hh =>
    simp only [stepT, hpc, Option.some.injEq] at hs; subst hs
    by_cases hc : (s.obs o).fnNext = true
    · simp only [hc, if_true]
      refine invB_same hB t _ rfl rfl (fun o' => ⟨rfl, rfl, id⟩) ⟨hcnt, htodo, by simp⟩ ?_ ?_ ?_
      · intro o'; simp [pos, hpc]
      · simp [pushed, hpc]
      · intro o' h hh _; simpa [histRem, hpc] using hh
    · have hc' : (s.obs o).fnNext = false := by simpa using hc
      simp only [hc', Bool.false_eq_true, if_false]
      refine invB_same hB t _ rfl rfl (fun o' => ⟨rfl, rfl, id⟩) ⟨hcnt, htodo, by simp⟩ ?_ ?_ ?_
      · intro o'; simp [pos, hpc]
      · simp [pushed, hpc]
      · intro o' h hh hfn
        simp only [histRem, Option.some.injEq, Prod.mk.injEq] at hh
        obtain ⟨rfl, _⟩ := hh
        simp [hc'] at hfn

theorem invB_step_s8d {progs : List (List Call)} {s s' : State} {t : Nat} {o : Nat} {x : Entry} {hh : List Entry}
    (hA : InvA s) (hB : InvB progs s)
    (hpc : (s.threads t).pc = .s8d o x hh) (hs : stepT s t = some s') : InvB progs s' := by
  obtain ⟨hcnt, htodo, hpcB⟩ := hB.loc t
  have hlA := hA.loc t
  rw [hpc] at hlA; simp only [LocA] at hlA
  simp only [stepT, hpc, Option.some.injEq] at hs; subst hs
  constructor
  · intro t'
    simp only [setThr]
    split
    · rename_i h; subst h; exact ⟨hcnt, htodo, by simp⟩
    · exact hB.loc t'
  · intro o' t'
    have hpos : pos (setThr s t { (s.threads t) with pc := .s8 o hh } t') o' = pos (s.threads t') o' := by
      simp only [setThr]
      split
      · rename_i h; subst h; simp [pos, hpc]
      · rfl
    show Full _ _ _ (pos (setThr s t { (s.threads t) with pc := .s8 o hh } t') o')
    rw [hpos]
    simp only [setObs]
    split
    · rename_i ho; subst ho
      intro hsd; simp [hlA.2.2] at hsd
    · exact hB.full o' t'
  · intro ts o' h hhr hfn t'
    simp only [setThr] at hhr
    split at hhr
    · rename_i hts; subst hts
      simp only [histRem, Option.some.injEq, Prod.mk.injEq] at hhr
      obtain ⟨rfl, rfl⟩ := hhr
      simp only [setObs, if_true] at hfn ⊢
      have := hB.hist ts o (x :: hh) (by simp [hpc, histRem]) hfn t'
      rw [proj_cons] at this ⊢
      split
      · rename_i hx; simp only [hx, if_true] at this
        simpa using this
      · rename_i hx; simpa [hx] using this
    · rename_i hts
      have hne : o' ≠ o := by
        intro ho; subst ho
        have h1 := hA.loc ts
        have : (s.obs o').used = some ts := by
          cases hp : (s.threads ts).pc <;> simp [hp, histRem] at hhr <;> simp only [hp, LocA] at h1
          all_goals (first | (obtain ⟨rfl, _⟩ := hhr; exact h1.1) | (obtain ⟨rfl, _⟩ := hhr; exact h1.1))
        rw [hlA.1] at this
        exact hts (Option.some.inj this).symm
      simp only [setObs, if_neg hne] at hfn ⊢
      exact hB.hist ts o' h hhr hfn t'
  · intro t'
    simp only [setThr]
    split
    · rename_i h; subst h
      have := hB.items t'
      simpa [pushed, hpc] using this
    · exact hB.items t'

theorem invB_step_s9 {progs : List (List Call)} {s s' : State} {t : Nat} {o : Nat}
    (hq : s.quiet) (hB : InvB progs s)
    (hpc : (s.threads t).pc = .s9 o) (hs : stepT s t = some s') : InvB progs s' := by
  obtain ⟨hcnt, htodo, hpcB⟩ := hB.loc t
  simp only [stepT, hpc, Option.some.injEq] at hs; subst hs
  have hsub : (s.threads t).pc.inSub = true := by rw [hpc]; rfl
  have hnn : ∀ t', (s.threads t').pc.inNext = false := by
    intro t'
    cases h : (s.threads t').pc.inNext with
    | false => rfl
    | true => exact (hq t t' hsub h).elim
  constructor
  · intro t'
    simp only [setThr]
    split
    · rename_i h; subst h; exact ⟨hcnt, htodo, by simp⟩
    · exact hB.loc t'
  · intro o' t'
    have hpos : pos (setThr s t { (s.threads t) with pc := .s10 o } t') o' = ((s.threads t').cnt, false) := by
      simp only [setThr]
      split
      · rename_i h; subst h; simp [pos]
      · exact (pos_of_not_inNext (hnn t') o').1
    show Full _ _ _ (pos (setThr s t { (s.threads t) with pc := .s10 o } t') o')
    rw [hpos]
    simp only [setObs]
    split
    · rename_i ho; subst ho
      intro _ hx
      simp only [Bool.false_eq_true, false_or] at hx
      have hh := hB.hist t o' [] (by simp [hpc, histRem]) hx t'
      simp only [proj_nil, List.append_nil] at hh
      obtain ⟨ha, hl⟩ := hB.items t'
      rw [(pos_of_not_inNext (hnn t') o').2] at hl
      dsimp only
      rw [hh]
      refine ⟨ha, ?_⟩
      rw [← hl, ← hh, List.length_reverse]
    · have := hB.full o' t'
      rw [(pos_of_not_inNext (hnn t') o').1] at this
      exact this
  · intro ts o' h hhr hfn t'
    simp only [setThr] at hhr
    split at hhr
    · simp [histRem] at hhr
    · by_cases ho : o' = o
      · subst ho
        simp only [setObs, if_true] at hfn ⊢
        exact hB.hist ts o' h hhr hfn t'
      · simp only [setObs, if_neg ho] at hfn ⊢
        exact hB.hist ts o' h hhr hfn t'
  · intro t'
    simp only [setThr]
    split
    · rename_i h; subst h
      have := hB.items t'
      simpa [pushed, hpc] using this
    · exact hB.items t'


theorem invB_step {progs : List (List Call)} {s s' : State} {t : Nat} (hq : s.quiet) (hA : InvA s)
    (hB : InvB progs s) (hs : stepT s t = some s') : InvB progs s' := by
  cases hpc : (s.threads t).pc with
  | idle => exact invB_step_idle hB hpc hs
  | r0 k v => exact invB_step_r0 hq hB hpc hs
  | nx0 k v => exact invB_step_nx0 hA hB hpc hs
  | nxL k v snap => exact invB_step_nxL hA hB hpc hs
  | nxF k v o rest => exact invB_step_nxF hA hB hpc hs
  | nxD k v o rest => exact invB_step_nxD hq hA hB hpc hs
  | s0 o => exact invB_step_s0 hB hpc hs
  | s1 o => exact invB_step_s1 hB hpc hs
  | s2 o => exact invB_step_s2 hA hB hpc hs
  | s3 o h => exact invB_step_s3 hB hpc hs
  | s4 o h => exact invB_step_s4 hB hpc hs
  | s5 o h => exact invB_step_s5 hB hpc hs
  | s6 o h => exact invB_step_s6 hB hpc hs
  | s7 o h => exact invB_step_s7 hB hpc hs
  | s8 o h => exact invB_step_s8 hB hpc hs
  | s8d o x h => exact invB_step_s8d hA hB hpc hs
  | s9 o => exact invB_step_s9 hq hB hpc hs
  | s10 o => exact invB_step_s10 hB hpc hs
  | e5 o => exact invB_step_e5 hB hpc hs
  | e6 o => exact invB_step_e6 hB hpc hs
  | e7 o => exact invB_step_e7 hB hpc hs
  | e8 o => exact invB_step_e8 hB hpc hs
  | e9 o => exact invB_step_e9 hB hpc hs
  | e9r o => exact invB_step_e9r hB hpc hs
  | e9c o => exact invB_step_e9c hB hpc hs
  | u0 o => exact invB_step_u0 hB hpc hs
  | u1 o => exact invB_step_u1 hB hpc hs
  | u2 o => exact invB_step_u2 hB hpc hs
  | u3 o => exact invB_step_u3 hB hpc hs
  | u4 o => exact invB_step_u4 hB hpc hs
  | u5 o => exact invB_step_u5 hB hpc hs
  | u6 o => exact invB_step_u6 hB hpc hs
  | u7 o => exact invB_step_u7 hB hpc hs
  | u8 o => exact invB_step_u8 hB hpc hs
  | u9 o => exact invB_step_u9 hB hpc hs
  | u9r o => exact invB_step_u9r hB hpc hs
  | u9c o => exact invB_step_u9c hB hpc hs
  | u10 o => exact invB_step_u10 hB hpc hs

theorem quiet_init (progs : List (List Call)) : (init progs).quiet := by
  intro t t' h; simp [init, Pc.inSub] at h

theorem ReachableQ.quiet {progs : List (List Call)} {s : State} (h : ReachableQ progs s) : s.quiet := by
  cases h with
  | init => exact quiet_init progs
  | step _ _ hq => exact hq

theorem invB_reachableQ {progs : List (List Call)} {s : State} (h : ReachableQ progs s) : InvB progs s := by
  induction h with
  | init => exact invB_init progs
  | step hr hs _ ih =>
    simp only [step] at hs
    split at hs
    · exact invB_step hr.quiet (invA_reachable hr.reachable) ih hs
    · simp at hs

end Rx.Conc.Replay
